(* The statements of Prop_C01.v that combine several proof files. *)
From Coq Require Import List NArith ZArith Bool Lia.
From GoPdf.Base Require Import Bytes Res.
From GoPdf.C01 Require Import Lex Obj Num Names Strings Format Scan Wf
  LexProofs FormatProofs ScanProofs SortProofs CanonProofs FuelProofs LimitProofs.
Import ListNotations.
Open Scope N_scope.

(* the property as its text reads it: values equal up to canon *)
Lemma scan_format_canon_lemma L p os :
  wf_list L os = true ->
  exists vs, scan_objects L (format p os) = Ok (vs, []) /\ map canon vs = map canon os.
Proof.
  intro Hw. exists (map norm os). split.
  - apply scan_objects_format_lemma. exact Hw.
  - apply norm_canon_list with (L := L). exact Hw.
Qed.

(* several values one after another stay separately parseable, in order: the list version of
   scan_format instantiated for a concatenation *)
Lemma scan_format_app_lemma L p os1 os2 :
  wf_list L (os1 ++ os2) = true ->
  scan_objects L (format p (os1 ++ os2)) = Ok (map norm os1 ++ map norm os2, []).
Proof. intro Hw. rewrite <- map_app. apply scan_objects_format_lemma. exact Hw. Qed.

(* limits: strings and names at or beyond the limit are rejected as malformed *)
Lemma limits_reject_lemma L :
  (forall s rest, max_str L <= blen s -> read_string_tok L (fmt_str_lit s ++ rest) = Err Malformed) /\
  (forall n b rest, wfbs n = true -> max_name L <= blen n -> read_name L (fmt_name n ++ b :: rest) = Err Malformed).
Proof.
  split.
  - intros. apply string_limit_lemma. assumption.
  - intros. apply name_limit_lemma; assumption.
Qed.

(* ---- OutputOptions ---- *)
Lemma inert_option_lemma mask o os : In o inert_options ->
  format_opt (Z.lor mask o) os = format_opt mask os.
Proof.
  intros Hin. unfold format_opt, has_opt. rewrite Z.land_lor_distr_l.
  replace (Z.land o Gen_C01.OptPretty) with 0%Z; [rewrite Z.lor_0_r; reflexivity|].
  cbn [inert_options In] in Hin. destruct Hin as [<-|[<-|[<-|[<-|[]]]]]; reflexivity.
Qed.
Theorem options_lemma : forall L mask os, wf_list L os = true ->
  scan_objects L (format_opt mask os) = Ok (map norm os, []) /\
  (forall o, In o inert_options -> format_opt (Z.lor mask o) os = format_opt mask os).
Proof.
  intros L mask os Hw. split; [apply scan_objects_format_lemma; exact Hw|].
  intros o Ho. apply inert_option_lemma. exact Ho.
Qed.

(* ---- the scanned value of a formatted text lists every dictionary's keys in SortedKeys order ---- *)
Lemma keys_sorted_ordered ks : keys_sorted ks -> keys_ordered ks = true.
Proof.
  induction 1 as [|a r Hs IH Hall]; [reflexivity|].
  destruct r as [|b r']; [reflexivity|].
  change (keys_ordered (a :: b :: r')) with (key_ltb a b && keys_ordered (b :: r')). rewrite IH, andb_true_r.
  rewrite Forall_forall in Hall. apply Hall. left. reflexivity.
Qed.
Lemma text_ordered_dict l :
  text_ordered (ODict l) = keys_ordered (map fst l) && forallb (fun kv => text_ordered (snd kv)) l.
Proof.
  cbn [text_ordered]. f_equal. induction l as [|[k v] r IH]; [reflexivity|].
  cbn [forallb snd]. rewrite <- IH. reflexivity.
Qed.
Lemma norm_text_ordered L : forall o d, wf_obj L d o = true -> text_ordered (norm o) = true.
Proof.
  induction o as [| | | | | |l IH|l IH| | |] using obj_ind2; intros d Hw; try reflexivity.
  - cbn [norm text_ordered]. cbn [wf_obj] in Hw. apply andb_true_iff in Hw as [_ Hall].
    rewrite forallb_forall in Hall. rewrite Forall_forall in IH.
    apply forallb_forall. intros x Hx. apply in_map_iff in Hx as (y & <- & Hy).
    apply (IH y Hy (d + 1)%N). apply Hall. exact Hy.
  - rewrite norm_dict, text_ordered_dict. cbn [wf_obj] in Hw.
    apply andb_true_iff in Hw as [Hw Hall]. apply andb_true_iff in Hw as [Hw _].
    apply andb_true_iff in Hw as [_ Hnd]. apply nodup_keys_NoDup in Hnd.
    apply andb_true_iff. split.
    + apply keys_sorted_ordered. apply sorted_map_fst. apply sort_sorted.
      rewrite norm_entries_map, (map_fst_keyed (fun kv => norm (snd kv))).
      apply NoDup_filter_fst. exact Hnd.
    + apply forallb_forall. intros kv Hkv.
      apply (Permutation.Permutation_in _ (sort_perm (norm_entries l))) in Hkv.
      rewrite norm_entries_map in Hkv. apply in_map_iff in Hkv as (y & <- & Hy).
      apply filter_In in Hy as [Hy _]. cbn [snd].
      rewrite Forall_forall in IH. rewrite forallb_forall in Hall.
      specialize (Hall y Hy). apply andb_true_iff in Hall as [_ Hwv].
      apply (IH y Hy (d + 1)%N). exact Hwv.
Qed.
Lemma scan_text_ordered_lemma : forall L p os, wf_list L os = true ->
  exists vs, scan_objects L (format p os) = Ok (vs, []) /\ forallb text_ordered vs = true.
Proof.
  intros L p os Hw. exists (map norm os). split; [apply scan_objects_format_lemma; exact Hw|].
  unfold wf_list in Hw. apply andb_true_iff in Hw as [_ Hall]. rewrite forallb_forall in Hall.
  apply forallb_forall. intros x Hx. apply in_map_iff in Hx as (y & <- & Hy).
  apply (norm_text_ordered L y 1%N). apply Hall. exact Hy.
Qed.

(* ---- the nesting counter is restored after every value ---- *)
Lemma run_counter_app L : forall a b d,
  run_counter L (a ++ b) d = match run_counter L a d with Some d' => run_counter L b d' | None => None end.
Proof.
  induction a as [|[|] a IH]; intros b d; cbn [app run_counter]; [reflexivity| |apply IH].
  destruct (max_depth L <=? d); [reflexivity|apply IH].
Qed.
Lemma events_dict l :
  events (ODict l) = NEnter :: concat (map (fun kv => events (snd kv)) l) ++ [NExit].
Proof.
  cbn [events]. f_equal. f_equal. induction l as [|[k v] r IH]; [reflexivity|].
  cbn [map concat snd]. rewrite <- IH. reflexivity.
Qed.
Lemma run_counter_all L d (l : list (list nest_ev)) :
  Forall (fun evs => run_counter L evs d = Some d) l -> run_counter L (concat l) d = Some d.
Proof.
  induction 1 as [|x r Hx _ IH]; [reflexivity|]. cbn [concat]. rewrite run_counter_app, Hx. exact IH.
Qed.
Lemma depth_restored_obj L : forall o d, wf_obj L d o = true -> run_counter L (events o) d = Some d.
Proof.
  induction o as [| | | | | |l IH|l IH| | |] using obj_ind2; intros d Hw; try reflexivity.
  - cbn [wf_obj] in Hw. apply andb_true_iff in Hw as [Hw Hall]. apply andb_true_iff in Hw as [Hd _].
    apply N.ltb_lt in Hd. cbn [events run_counter].
    replace (max_depth L <=? d) with false by (symmetry; apply N.leb_gt; exact Hd).
    rewrite run_counter_app, (run_counter_all L (d + 1)).
    + cbn [run_counter]. f_equal. lia.
    + rewrite forallb_forall in Hall. rewrite Forall_forall in IH.
      apply Forall_forall. intros evs He. apply in_map_iff in He as (x & <- & Hx). apply IH; auto.
  - rewrite events_dict. cbn [wf_obj] in Hw. apply andb_true_iff in Hw as [Hw Hall].
    apply andb_true_iff in Hw as [Hw _]. apply andb_true_iff in Hw as [Hd _].
    apply N.ltb_lt in Hd. cbn [run_counter].
    replace (max_depth L <=? d) with false by (symmetry; apply N.leb_gt; exact Hd).
    rewrite run_counter_app, (run_counter_all L (d + 1)).
    + cbn [run_counter]. f_equal. lia.
    + rewrite forallb_forall in Hall. rewrite Forall_forall in IH.
      apply Forall_forall. intros evs He. apply in_map_iff in He as (x & <- & Hx).
      specialize (Hall x Hx). apply andb_true_iff in Hall as [_ Hv]. apply IH; auto.
  - cbn [wf_obj] in Hw. apply N.ltb_lt in Hw. cbn [events run_counter].
    replace (max_depth L <=? d) with false by (symmetry; apply N.leb_gt; exact Hw). f_equal. lia.
Qed.
(* any number of values one after another: the counter is where it was, whatever the width *)
Lemma depth_restored_lemma L : forall os d,
  forallb (wf_obj L d) os = true ->
  run_counter L (concat (map events os)) d = Some d /\
  (forall o, In o os -> run_counter L (events o) d = Some d).
Proof.
  intros os d Hw. rewrite forallb_forall in Hw. split.
  - apply run_counter_all. apply Forall_forall. intros evs He.
    apply in_map_iff in He as (x & <- & Hx). apply depth_restored_obj. apply Hw. exact Hx.
  - intros o Ho. apply depth_restored_obj. apply Hw. exact Ho.
Qed.
