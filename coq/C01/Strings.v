(* C01 model, part 5: strings.  types.go formatString (literal and hex form),
   scanner.go ReadString / ReadHexString, types.go ParseString.  Definitions only. *)
From Coq Require Import List NArith ZArith Bool.
From GoPdf.Base Require Import Bytes Res.
From GoPdf.C01 Require Import Lex.
Import ListNotations.
Open Scope N_scope.

(* ---- formatString, literal form ---- *)
Fixpoint count_rp (l : bytes) : nat :=
  match l with
  | [] => 0%nat
  | c :: r => Nat.add (if c =? cRP then 1%nat else 0%nat) (count_rp r)
  end.

(* prev: the previous byte of the string; lvl: parenthesisLevel; ncl: numClosingParentheses *)
Fixpoint fmt_str_body (prev : option byte) (lvl ncl : nat) (l : bytes) : bytes :=
  match l with
  | [] => []
  | c :: r =>
    let next := match r with [] => None | d :: _ => Some d end in
    let is_cr := fun o : option byte => match o with Some p => p =? cCR | None => false end in
    if c =? cCR then cBS :: 114 :: fmt_str_body (Some c) lvl ncl r
    else if c =? cLF then
      (if is_cr prev || is_cr next
       then cBS :: 110 :: fmt_str_body (Some c) lvl ncl r
       else c :: fmt_str_body (Some c) lvl ncl r)
    else if c =? cLP then
      (if Nat.ltb lvl ncl then c :: fmt_str_body (Some c) (S lvl) ncl r
       else cBS :: cLP :: fmt_str_body (Some c) lvl ncl r)
    else if c =? cRP then
      (match lvl with
       | S l' => c :: fmt_str_body (Some c) l' (pred ncl) r
       | O => cBS :: cRP :: fmt_str_body (Some c) O (pred ncl) r
       end)
    else if c =? cBS then cBS :: cBS :: fmt_str_body (Some c) lvl ncl r
    else c :: fmt_str_body (Some c) lvl ncl r
  end.
Definition fmt_str_lit (l : bytes) : bytes :=
  cLP :: fmt_str_body None 0 (count_rp l) l ++ [cRP].

(* ---- formatString, hex form and the choice under OptPretty ---- *)
Fixpoint fmt_hex_body (l : bytes) : bytes :=
  match l with
  | [] => []
  | c :: r => hex_digit (c / 16) :: hex_digit (c mod 16) :: fmt_hex_body r
  end.
Definition fmt_str_hex (l : bytes) : bytes := cLT :: fmt_hex_body l ++ [cGT].

Definition is_print (c : byte) : bool :=
  ((32 <=? c) && (c <=? 126)) || (c =? cLF) || (c =? cCR) || (c =? cTAB).
Definition count_good (l : bytes) : N := blen (filter is_print l).
Definition count_bad (l : bytes) : N := blen (filter (fun c => negb (is_print c)) l).
Definition use_hex (l : bytes) : bool := count_good l <? 9 * count_bad l.
Definition fmt_string (pretty : bool) (l : bytes) : bytes :=
  if pretty && use_hex l then fmt_str_hex l else fmt_str_lit l.

(* ---- ReadString, after the opening parenthesis ---- *)
Fixpoint read_str_body (L : limits) (fuel : nat) (lvl : nat) (ignoreLF : bool) (acc : bytes) (s : bytes)
  : res (bytes * bytes) :=
  match fuel with
  | O => Err OutOfFuel
  | S fuel =>
    if max_str L <=? blen acc then Err Malformed
    else
    match s with
    | [] => Err EOF
    | b :: r =>
      if ignoreLF && (b =? cLF) then read_str_body L fuel lvl false acc r
      else if b =? cLP then read_str_body L fuel (S lvl) false (b :: acc) r
      else if b =? cRP then
        (match lvl with
         | O => Ok (rev acc, r)
         | S l' => read_str_body L fuel l' false (b :: acc) r
         end)
      else if b =? cBS then
        (match r with
         | [] => Err EOF
         | e :: r' =>
           if e =? 110 then read_str_body L fuel lvl false (cLF :: acc) r'
           else if e =? 114 then read_str_body L fuel lvl false (cCR :: acc) r'
           else if e =? 116 then read_str_body L fuel lvl false (cTAB :: acc) r'
           else if e =? 98 then read_str_body L fuel lvl false (cBSP :: acc) r'
           else if e =? 102 then read_str_body L fuel lvl false (cFF :: acc) r'
           else if e =? cLF then read_str_body L fuel lvl false acc r'
           else if e =? cCR then read_str_body L fuel lvl true acc r'
           else if is_oct e then
             (match r' with
              | d1 :: r2 =>
                if is_oct d1 then
                  (match r2 with
                   | d2 :: r3 =>
                     if is_oct d2
                     then read_str_body L fuel lvl false
                            (((e - c0) * 64 + (d1 - c0) * 8 + (d2 - c0)) mod 256 :: acc) r3
                     else read_str_body L fuel lvl false (((e - c0) * 8 + (d1 - c0)) :: acc) r2
                   | [] => read_str_body L fuel lvl false (((e - c0) * 8 + (d1 - c0)) :: acc) r2
                   end)
                else read_str_body L fuel lvl false ((e - c0) :: acc) r'
              | [] => read_str_body L fuel lvl false ((e - c0) :: acc) r'
              end)
           else read_str_body L fuel lvl false (e :: acc) r'
         end)
      else if b =? cCR then read_str_body L fuel lvl true (cLF :: acc) r
      else read_str_body L fuel lvl false (b :: acc) r
    end
  end.
(* ReadString; one unit of fuel per input byte and one more *)
Definition read_string (L : limits) (s : bytes) : res (bytes * bytes) :=
  read_str_body L (S (length s)) 0 false [] s.

(* ---- ReadHexString, after the opening "<" ---- *)
(* hv: Some d when the first digit d of a pair has been seen *)
Fixpoint read_hex_body (L : limits) (hv : option N) (acc : bytes) (s : bytes) : res (bytes * bytes) :=
  match s with
  | [] => Err EOF
  | b :: r =>
    if is_hex b then
      match hv with
      | None => read_hex_body L (Some (hex_val b)) acc r
      | Some h =>
        if max_str L <=? blen acc then Err Malformed
        else read_hex_body L None ((16 * h + hex_val b) mod 256 :: acc) r
      end
    else if b =? cGT then
      Ok (rev (match hv with Some h => (16 * h) mod 256 :: acc | None => acc end), r)
    else read_hex_body L hv acc r
  end.
Definition read_hex_string (L : limits) (s : bytes) : res (bytes * bytes) :=
  read_hex_body L None [] s.

(* the dispatch on the first byte that ReadObject and ParseString perform *)
Definition read_string_tok (L : limits) (s : bytes) : res (bytes * bytes) :=
  match s with
  | b :: r =>
    if b =? cLP then read_string L r
    else if b =? cLT then read_hex_string L r
    else Err Malformed
  | [] => Err Malformed
  end.

(* ---- ParseString: the whole buffer must be one string ---- *)
Definition parse_string (L : limits) (s : bytes) : res bytes :=
  match s with
  | b :: r =>
    let body :=
      if b =? cLP then read_string L r
      else if b =? cLT then read_hex_string L r
      else Err Other in
    match body with
    | Ok (v, []) => Ok v
    | Ok (_, _ :: _) => Err Other
    | Err e => Err e
    end
  | [] => Err Other
  end.
