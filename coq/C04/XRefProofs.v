(* C04 - proofs about XRef.v: newest-first / first-entry-wins refines
   oldest-to-newest / last-definition-wins, for chains of any length. *)
From Coq Require Import List NArith ZArith Bool Lia.
From GoPdf.Base Require Import Bytes Res.
From GoPdf.C04 Require Import XRef.
Import ListNotations.

(* first binding of a key in an entry list *)
Fixpoint alookup (l : list (N * entry)) (n : N) : option entry :=
  match l with
  | [] => None
  | (k, e) :: l' => if N.eqb k n then Some e else alookup l' n
  end.

Definition orelse (a b : option entry) : option entry :=
  match a with Some e => Some e | None => b end.

Lemma orelse_assoc a b c : orelse (orelse a b) c = orelse a (orelse b c).
Proof. destruct a; reflexivity. Qed.

Lemma alookup_app l1 l2 n : alookup (l1 ++ l2) n = orelse (alookup l1 n) (alookup l2 n).
Proof.
  induction l1 as [|[k e] l1 IH]; cbn; [reflexivity|].
  destruct (N.eqb k n); [reflexivity|apply IH].
Qed.

Lemma xlookup_xset m i e n : xlookup (xset m i e) n = if N.eqb i n then Some e else xlookup m n.
Proof. reflexivity. Qed.

Lemma xknown_true m i : xknown m i = true -> exists e, xlookup m i = Some e.
Proof. unfold xknown. destruct (xlookup m i); [eauto|discriminate]. Qed.
Lemma xknown_false m i : xknown m i = false -> xlookup m i = None.
Proof. unfold xknown. destruct (xlookup m i); [discriminate|reflexivity]. Qed.

(* ---------- one subsection of a classic table ---------- *)
Lemma apply_sub_lookup allow start : forall es m i n,
  (start <= i)%N ->
  (i = start -> match es with e :: _ => repair_trigger allow start i e = false | [] => True end) ->
  xlookup (apply_sub m allow start i 0 es) n =
  orelse (xlookup m n) (alookup (number_from i (map raw_entry es)) n).
Proof.
  induction es as [|e es IH]; intros m i n Hle Hhd; cbn [apply_sub map number_from alookup].
  - destruct (xlookup m n); reflexivity.
  - destruct (xknown m i) eqn:Hk.
    + rewrite IH by (try lia; intros ->; lia).
      destruct (xlookup m n) eqn:Hn; cbn [orelse]; [reflexivity|].
      destruct (N.eqb_spec i n) as [->|Hne]; [|reflexivity].
      apply xknown_true in Hk as [x Hx]. congruence.
    + assert (Ht : repair_trigger allow start i e = false).
      { destruct (N.eqb_spec i start) as [->|Hne].
        - apply Hhd; reflexivity.
        - unfold repair_trigger. destruct (N.eqb_spec i start); [contradiction|].
          destruct allow; reflexivity. }
      rewrite Ht. rewrite N.sub_0_r.
      rewrite IH by (try lia; intros ->; lia).
      rewrite xlookup_xset.
      apply xknown_false in Hk.
      destruct (N.eqb_spec i n) as [->|Hne]; cbn [orelse].
      * rewrite Hk. reflexivity.
      * reflexivity.
Qed.

Lemma sub_trips_false_hd allow (s : subsection) :
  (allow = true -> sub_trips s = false) ->
  match snd s with e :: _ => repair_trigger allow (fst s) (fst s) e = false | [] => True end.
Proof.
  unfold sub_trips, repair_trigger. destruct (snd s) as [|e es]; [trivial|].
  rewrite N.eqb_refl. destruct allow; cbn [andb]; [|reflexivity]. intros H. apply H. reflexivity.
Qed.

(* the code as it is now: only the first subsection may be repaired, and only when allowed *)
Lemma apply_table_subs_lookup : forall subs m allow n,
  (allow = true -> first_trips subs = false) ->
  xlookup (apply_table_subs m allow false subs) n = orelse (xlookup m n) (alookup (table_entries subs) n).
Proof.
  unfold table_entries.
  induction subs as [|s subs IH]; intros m allow n Hg; cbn [apply_table_subs flat_map].
  - destruct (xlookup m n); reflexivity.
  - rewrite IH by discriminate.
    rewrite apply_sub_lookup; [|lia|intros _; apply sub_trips_false_hd; exact Hg].
    rewrite alookup_app. apply orelse_assoc.
Qed.

(* ---------- one subsection of an xref stream ---------- *)
Lemma stm_entry_wf e : wf_stment e = true -> stm_entry_impl e = Some (stm_entry_spec e).
Proof.
  unfold wf_stment, stm_entry_impl, stm_entry_spec.
  destruct (se_tp e) as [|[p|[p|p|]|]]; intros H; try discriminate H.
  - apply N.leb_le in H.
    destruct (N.ltb_spec max_generation (se_b e)); [lia|reflexivity].
  - apply andb_true_iff in H as [H1 H2].
    apply N.ltb_lt in H1, H2.
    destruct (N.leb_spec max_xref_size (se_a e)); [lia|].
    destruct (N.eqb_spec (se_a e) 0); [lia|reflexivity].
  - apply N.leb_le in H.
    destruct (N.ltb_spec max_generation (se_b e)); [lia|reflexivity].
Qed.

Lemma apply_stm_sub_lookup : forall es m i n,
  forallb wf_stment es = true ->
  xlookup (apply_stm_sub m i es) n =
  orelse (xlookup m n) (alookup (number_from i (map stm_entry_spec es)) n).
Proof.
  induction es as [|e es IH]; intros m i n Hwf; cbn [apply_stm_sub map number_from alookup].
  - destruct (xlookup m n); reflexivity.
  - cbn [forallb] in Hwf. apply andb_true_iff in Hwf as [He Hwf].
    destruct (xknown m i) eqn:Hk.
    + rewrite IH by exact Hwf.
      destruct (xlookup m n) eqn:Hn; cbn [orelse]; [reflexivity|].
      destruct (N.eqb_spec i n) as [->|Hne]; [|reflexivity].
      apply xknown_true in Hk as [x Hx]. congruence.
    + rewrite (stm_entry_wf _ He). rewrite IH by exact Hwf.
      rewrite xlookup_xset. apply xknown_false in Hk.
      destruct (N.eqb_spec i n) as [->|Hne]; cbn [orelse].
      * rewrite Hk. reflexivity.
      * reflexivity.
Qed.

Lemma apply_stm_subs_lookup : forall subs m n,
  forallb (fun s : stmsub => forallb wf_stment (snd s)) subs = true ->
  xlookup (apply_stm_subs m subs) n = orelse (xlookup m n) (alookup (stm_entries subs) n).
Proof.
  unfold apply_stm_subs, stm_entries.
  induction subs as [|s subs IH]; intros m n Hwf; cbn [fold_left flat_map].
  - destruct (xlookup m n); reflexivity.
  - cbn [forallb] in Hwf. apply andb_true_iff in Hwf as [Hs Hwf].
    rewrite IH by exact Hwf.
    rewrite apply_stm_sub_lookup by exact Hs.
    rewrite alookup_app. apply orelse_assoc.
Qed.

(* ---------- layout lookups ---------- *)
Lemma sec_at_app a b o :
  sec_at (a ++ b) o = match sec_at a o with Some s => Some s | None => sec_at b o end.
Proof.
  induction a as [|[k s] a IH]; cbn; [reflexivity|].
  destruct (Z.eqb k o); [reflexivity|apply IH].
Qed.

Lemma zmem_In x l : zmem x l = true <-> In x l.
Proof.
  induction l as [|y l IH]; cbn; [split; [discriminate|tauto]|].
  rewrite orb_true_iff, IH. split; intros [H|H]; auto.
  - left. apply Z.eqb_eq in H. congruence.
  - left. apply Z.eqb_eq. congruence.
Qed.
Lemma zmem_false x l : zmem x l = false <-> ~ In x l.
Proof. rewrite <- zmem_In. destruct (zmem x l); intuition congruence. Qed.

Lemma znodupb_app a b :
  znodupb (a ++ b) = true -> znodupb a = true /\ znodupb b = true /\ forall x, In x a -> ~ In x b.
Proof.
  induction a as [|x a IH]; cbn [app znodupb]; intros H.
  - repeat split; auto.
  - apply andb_true_iff in H as [H1 H2]. apply negb_true_iff in H1.
    apply zmem_false in H1. destruct (IH H2) as (Ha & Hb & Hd).
    repeat split.
    + apply andb_true_iff; split; [|exact Ha]. apply negb_true_iff, zmem_false.
      intros Hi. apply H1, in_or_app. auto.
    + exact Hb.
    + intros y [<-|Hy] Hin.
      * apply H1, in_or_app. auto.
      * exact (Hd y Hy Hin).
Qed.

(* newest-first lookup through a chain *)
Fixpoint nf_lookup (c : chain) (n : N) : option entry :=
  match c with
  | [] => None
  | r :: rest => orelse (alookup (fst (rsec_revision r)) n) (nf_lookup rest n)
  end.

Definition rsec_tr (r : rsec) : trailer := snd (rsec_revision r).

Lemma has_key_alookup l n : has_key l n = match alookup l n with Some _ => true | None => false end.
Proof.
  induction l as [|[k e] l IH]; cbn; [reflexivity|].
  destruct (N.eqb k n); [reflexivity|exact IH].
Qed.

(* in a hybrid section the entry of the stream wins *)
Lemma alookup_hybrid tab stm n :
  alookup (hybrid_entries tab stm) n = orelse (alookup stm n) (alookup tab n).
Proof.
  unfold hybrid_entries. rewrite alookup_app.
  induction tab as [|[k e] tab IH]; cbn [filter alookup fst].
  - destruct (alookup stm n); reflexivity.
  - destruct (has_key stm k) eqn:Hk; cbn [negb].
    + rewrite IH. destruct (N.eqb_spec k n) as [->|Hne]; [|reflexivity].
      rewrite has_key_alookup in Hk. destruct (alookup stm n); [reflexivity|discriminate].
    + cbn [alookup]. destruct (N.eqb_spec k n) as [->|Hne]; [|exact IH].
      rewrite has_key_alookup in Hk. destruct (alookup stm n); [discriminate|]. reflexivity.
Qed.

(* the effect of one section *)
Lemma read_section_rsec lay pre r rest seen m size :
  lay = pre ++ rsec_layout r (prev_of rest) ++ layout_of rest ->
  (forall o, In o (rsec_offsets r) -> sec_at pre o = None) ->
  znodupb (rsec_offsets r) = true ->
  (forall o, In o (rsec_offsets r) -> ~ In o seen) ->
  rsec_wf size r = true ->
  (prev_of rest = None -> oldest_ok r = true) ->
  exists m' seen',
    read_section true true lay (rsec_off r) (rsec_off r :: seen) m = Ok (m', seen', rsec_tr r, prev_of rest)
    /\ (forall n, xlookup m' n = orelse (xlookup m n) (alookup (fst (rsec_revision r)) n))
    /\ (forall o, In o seen' -> In o seen \/ In o (rsec_offsets r)).
Proof.
  intros -> Hpre Hnd Hseen Hwf Hg.
  unfold read_section. rewrite sec_at_app.
  unfold rsec_wf in Hwf. apply andb_true_iff in Hwf as [Hwf Hents]. apply andb_true_iff in Hwf as [_ _].
  destruct r as [o subs tr|o subs tr|o subs so ssubs tr]; cbn [rsec_off rsec_offsets rsec_layout rsec_revision fst snd rsec_tr] in *.
  - rewrite (Hpre o) by (left; reflexivity). cbn [app sec_at]. rewrite Z.eqb_refl.
    cbn [t_subs t_xrefstm t_trailer t_prev].
    eexists _, _. split; [reflexivity|]. split.
    + intros n. apply apply_table_subs_lookup.
      destruct (prev_of rest); [discriminate|]. intros _. apply negb_true_iff, Hg. reflexivity.
    + intros x [<-|Hx]; [right; left; reflexivity|left; exact Hx].
  - rewrite (Hpre o) by (left; reflexivity). cbn [app sec_at]. rewrite Z.eqb_refl.
    cbn [s_subs s_trailer s_prev].
    eexists _, _. split; [reflexivity|]. split.
    + intros n. apply apply_stm_subs_lookup. exact Hents.
    + intros x [<-|Hx]; [right; left; reflexivity|left; exact Hx].
  - rewrite (Hpre o) by (left; reflexivity). cbn [app sec_at]. rewrite Z.eqb_refl.
    cbn [t_subs t_xrefstm t_trailer t_prev].
    cbn [znodupb zmem] in Hnd. rewrite orb_false_r in Hnd.
    apply andb_true_iff in Hnd as [Hne _]. apply negb_true_iff in Hne.
    assert (Hso : zmem so (o :: seen) = false).
    { apply zmem_false. intros [Heq|Hin].
      - subst so. rewrite Z.eqb_refl in Hne. discriminate.
      - apply (Hseen so); [right; left; reflexivity|exact Hin]. }
    rewrite Hso.
    rewrite sec_at_app, (Hpre so) by (right; left; reflexivity).
    cbn [sec_at]. rewrite Hne, Z.eqb_refl. cbn [s_subs].
    apply andb_true_iff in Hents as [_ Hs].
    eexists _, _. split; [reflexivity|]. split.
    + intros n. rewrite alookup_hybrid.
      rewrite apply_table_subs_lookup
        by (destruct (prev_of rest); [discriminate|]; intros _; apply negb_true_iff, Hg; reflexivity).
      rewrite apply_stm_subs_lookup by exact Hs.
      apply orelse_assoc.
    + intros x [<-|[<-|Hx]]; [right; right; left; reflexivity|right; left; reflexivity|left; exact Hx].
Qed.

Lemma rsec_off_in r : In (rsec_off r) (rsec_offsets r).
Proof. destruct r; left; reflexivity. Qed.

Lemma rsec_layout_sec_at_other r prev o :
  ~ In o (rsec_offsets r) -> sec_at (rsec_layout r prev) o = None.
Proof.
  destruct r; cbn; intros H.
  - destruct (Z.eqb_spec off o); [exfalso; apply H; auto|reflexivity].
  - destruct (Z.eqb_spec off o); [exfalso; apply H; auto|reflexivity].
  - destruct (Z.eqb_spec off o); [exfalso; apply H; auto|].
    destruct (Z.eqb_spec stmoff o); [exfalso; apply H; auto|reflexivity].
Qed.

Lemma read_loop_chain size : forall (c : chain) lay pre seen m tr fuel,
  c <> [] ->
  lay = pre ++ layout_of c ->
  (forall o, In o (flat_map rsec_offsets c) -> sec_at pre o = None) ->
  znodupb (flat_map rsec_offsets c) = true ->
  (forall o, In o (flat_map rsec_offsets c) -> ~ In o seen) ->
  forallb (rsec_wf size) c = true ->
  last_ok c = true ->
  (length c <= fuel)%nat ->
  exists m',
    read_loop true true fuel lay size (start_of c) seen m tr =
      Ok (m', match tr with Some t => t | None => keep_trailer (rsec_tr (hd (RTable 0 [] []) c)) end)
    /\ forall n, xlookup m' n = orelse (xlookup m n) (nf_lookup c n).
Proof.
  induction c as [|r rest IH]; intros lay pre seen m tr fuel Hne Hlay Hpre Hnd Hseen Hwf Hg Hfuel; [congruence|].
  cbn [layout_of flat_map forallb length start_of hd nf_lookup] in *.
  destruct fuel as [|fuel]; [lia|].
  apply andb_true_iff in Hwf as [Hwr Hwrest].
  assert (Hgr : prev_of rest = None -> oldest_ok r = true).
  { destruct rest; [intros _; exact Hg|discriminate]. }
  assert (Hgrest : rest <> [] -> last_ok rest = true).
  { destruct rest; [congruence|intros _; exact Hg]. }
  apply znodupb_app in Hnd as (Hndr & Hndrest & Hdisj).
  cbn [read_loop].
  assert (Hs0 : zmem (rsec_off r) seen = false).
  { apply zmem_false. apply Hseen, in_or_app. left. apply rsec_off_in. }
  rewrite Hs0.
  assert (A1 : lay = pre ++ rsec_layout r (prev_of rest) ++ layout_of rest) by (rewrite Hlay; reflexivity).
  assert (A2 : forall o, In o (rsec_offsets r) -> sec_at pre o = None).
  { intros o Ho. apply Hpre, in_or_app. auto. }
  assert (A3 : forall o, In o (rsec_offsets r) -> ~ In o seen).
  { intros o Ho. apply Hseen, in_or_app. auto. }
  destruct (read_section_rsec lay pre r rest seen m size A1 A2 Hndr A3 Hwr Hgr) as (m1 & seen1 & Hrs & Hm1 & Hseen1).
  rewrite Hrs.
  destruct rest as [|r2 rest2].
  - cbn [prev_of nf_lookup]. eexists. split.
    + destruct tr; reflexivity.
    + intros n. rewrite Hm1. destruct (alookup _ n); reflexivity.
  - cbn [prev_of].
    assert (Hpo : prev_ok size (rsec_off r2) = true).
    { cbn [forallb] in Hwrest. apply andb_true_iff in Hwrest as [Hw2 _].
      unfold rsec_wf in Hw2. apply andb_true_iff in Hw2 as [Hw2 _]. apply andb_true_iff in Hw2 as [_ Hw2].
      rewrite forallb_forall in Hw2. apply Hw2, rsec_off_in. }
    rewrite Hpo.
    assert (B1 : lay = (pre ++ rsec_layout r (Some (rsec_off r2))) ++ layout_of (r2 :: rest2)).
    { rewrite Hlay, <- app_assoc. reflexivity. }
    assert (B2 : forall o, In o (flat_map rsec_offsets (r2 :: rest2)) ->
                 sec_at (pre ++ rsec_layout r (Some (rsec_off r2))) o = None).
    { intros o Ho. rewrite sec_at_app, Hpre by (apply in_or_app; auto).
      apply rsec_layout_sec_at_other. intros Hin. exact (Hdisj o Hin Ho). }
    assert (B3 : forall o, In o (flat_map rsec_offsets (r2 :: rest2)) -> ~ In o seen1).
    { intros o Ho Hin. destruct (Hseen1 o Hin) as [Hs|Hs].
      - apply (Hseen o); [apply in_or_app; auto|exact Hs].
      - exact (Hdisj o Hs Ho). }
    assert (B4 : (length (r2 :: rest2) <= fuel)%nat) by (cbn [length] in *; lia).
    assert (B5 : r2 :: rest2 <> []) by discriminate.
    destruct (IH lay (pre ++ rsec_layout r (Some (rsec_off r2))) seen1 m1
                 (match tr with Some _ => tr | None => Some (keep_trailer (rsec_tr r)) end) fuel
                 B5 B1 B2 Hndrest B3 Hwrest (Hgrest B5) B4) as (m2 & Hloop & Hm2).
    cbn [start_of] in Hloop. rewrite Hloop.
    eexists. split.
    + destruct tr; reflexivity.
    + intros n. rewrite Hm2, Hm1. apply orelse_assoc.
Qed.

(* ---------- the specification side ---------- *)
Lemma nodupb_notin x l : existsb (N.eqb x) l = false -> forall e, alookup (map (fun k => (k, e)) l) x = None.
Proof.
  induction l as [|y l IH]; cbn; [reflexivity|].
  intros H e. apply orb_false_iff in H as [H1 H2]. rewrite N.eqb_sym, H1. apply IH. exact H2.
Qed.

Lemma alookup_none_keys l x : existsb (N.eqb x) (map fst l) = false -> alookup l x = None.
Proof.
  induction l as [|[k e] l IH]; cbn; [reflexivity|].
  intros H. apply orb_false_iff in H as [H1 H2]. rewrite N.eqb_sym, H1. apply IH. exact H2.
Qed.

Lemma apply_revision_lookup : forall l f n,
  nodupb (map fst l) = true ->
  fold_left (fun f (ne : N * entry) => supd f (fst ne) (snd ne)) l f n = orelse (alookup l n) (f n).
Proof.
  induction l as [|[k e] l IH]; intros f n Hnd; cbn [fold_left alookup map fst snd nodupb] in *.
  - reflexivity.
  - apply andb_true_iff in Hnd as [Hk Hnd]. apply negb_true_iff in Hk.
    rewrite IH by exact Hnd. unfold supd.
    destruct (N.eqb_spec k n) as [->|Hne].
    + rewrite (alookup_none_keys _ _ Hk). cbn. rewrite N.eqb_refl. reflexivity.
    + destruct (alookup l n); cbn; [reflexivity|].
      destruct (N.eqb_spec n k); [congruence|reflexivity].
Qed.

Lemma spec_map_snoc h r n :
  nodupb (map fst (fst r)) = true ->
  spec_map (h ++ [r]) n = orelse (alookup (fst r) n) (spec_map h n).
Proof.
  intros Hnd. unfold spec_map. rewrite fold_left_app. cbn [fold_left].
  unfold apply_revision. apply apply_revision_lookup. exact Hnd.
Qed.

Lemma spec_map_history_of : forall c n,
  forallb (fun r => nodupb (map fst (fst (rsec_revision r)))) c = true ->
  spec_map (history_of c) n = nf_lookup c n.
Proof.
  unfold history_of.
  induction c as [|r rest IH]; intros n Hnd; cbn [map rev nf_lookup forallb] in *.
  - reflexivity.
  - apply andb_true_iff in Hnd as [Hr Hrest].
    rewrite spec_map_snoc by exact Hr. rewrite IH by exact Hrest. reflexivity.
Qed.

Lemma wf_chain_parts size c :
  wf_chain size c = true ->
  c <> [] /\ forallb (rsec_wf size) c = true /\ znodupb (flat_map rsec_offsets c) = true
  /\ forallb (fun r => nodupb (map fst (fst (rsec_revision r)))) c = true
  /\ last_ok c = true.
Proof.
  unfold wf_chain. intros H. apply andb_true_iff in H as [H Hlast].
  apply andb_true_iff in H as [H Hnd]. apply andb_true_iff in H as [Hne Hwf].
  repeat split; auto.
  - destruct c; [discriminate|discriminate].
  - rewrite forallb_forall in *. intros r Hr. specialize (Hwf r Hr).
    unfold rsec_wf in Hwf. apply andb_true_iff in Hwf as [Hwf _]. apply andb_true_iff in Hwf as [Hwf _].
    apply andb_true_iff in Hwf as [Hwf _]. exact Hwf.
Qed.

(* ---------- main lemmas ---------- *)
Lemma impl_read_refines size c :
  wf_chain size c = true ->
  exists m,
    impl_read (layout_of c) size (start_of c) = Ok (m, spec_trailer (history_of c))
    /\ forall n, xlookup m n = spec_resolve (history_of c) n.
Proof.
  intros Hwf. destruct (wf_chain_parts _ _ Hwf) as (Hne & Hsec & Hnd & Hrev & Hg).
  unfold impl_read, impl_read_v.
  assert (Hstart : prev_ok size (start_of c) = true).
  { destruct c as [|r rest]; [congruence|]. cbn [start_of forallb] in *.
    apply andb_true_iff in Hsec as [Hw _]. unfold rsec_wf in Hw.
    apply andb_true_iff in Hw as [Hw _]. apply andb_true_iff in Hw as [_ Hw].
    rewrite forallb_forall in Hw. apply Hw, rsec_off_in. }
  rewrite Hstart.
  destruct (read_loop_chain size c (layout_of c) [] [] [] None (S (length (layout_of c)))) as (m & Hl & Hm); auto.
  { assert (forall c : chain, (length c <= length (layout_of c))%nat) as Hlen.
    { induction c0 as [|r rest IH]; cbn [layout_of length]; [lia|].
      rewrite app_length. destruct r; cbn [rsec_layout length]; lia. }
    specialize (Hlen c). lia. }
  exists m. split.
  - rewrite Hl. f_equal. f_equal.
    unfold spec_trailer, history_of. rewrite rev_involutive.
    destruct c as [|r rest]; [congruence|]. reflexivity.
  - intros n. rewrite Hm. cbn [xlookup orelse]. unfold spec_resolve.
    symmetry. apply spec_map_history_of. exact Hrev.
Qed.

Lemma alookup_In l n e : alookup l n = Some e -> In (n, e) l.
Proof.
  induction l as [|[k x] l IH]; cbn; [discriminate|].
  destruct (N.eqb_spec k n) as [->|]; [intros H; inversion H; left; reflexivity|intros H; right; auto].
Qed.

Lemma in_number_from {A} : forall (l : list A) i n x, In (n, x) (number_from i l) -> In x l.
Proof.
  induction l as [|y l IH]; intros i n x; cbn [number_from]; [intros []|].
  intros [H|H]; [inversion H; subst; left; reflexivity|right; eapply IH; eauto].
Qed.

Lemma get_entry_spec size c m num gen :
  wf_chain size c = true ->
  (forall n, xlookup m n = spec_resolve (history_of c) n) ->
  get_entry m num gen = spec_answer (history_of c) num gen.
Proof.
  intros Hwf Hm. unfold get_entry, spec_answer. rewrite Hm.
  destruct (spec_resolve (history_of c) num) as [[g|g off|s i]|] eqn:Hs; try reflexivity.
  (* in-use offsets are never negative in a well-formed chain *)
  assert (Hoff : (0 <= off)%Z).
  { destruct (wf_chain_parts _ _ Hwf) as (_ & Hsec & _ & Hrev & _).
    unfold spec_resolve in Hs. rewrite spec_map_history_of in Hs by exact Hrev.
    clear Hm Hwf Hrev. induction c as [|r rest IH]; cbn [nf_lookup forallb] in *; [discriminate|].
    apply andb_true_iff in Hsec as [Hr Hrest].
    destruct (alookup (fst (rsec_revision r)) num) eqn:Ha; cbn [orelse] in Hs; [|auto].
    inversion Hs; subst e. clear IH Hs Hrest.
    apply alookup_In in Ha.
    assert (Htab : forall subs, forallb (fun s : subsection => forallb wf_rawent (snd s)) subs = true ->
                    In (num, InUse g off) (table_entries subs) -> (0 <= off)%Z).
    { unfold table_entries. intros subs Hw Hin. apply in_flat_map in Hin as (sb & Hsb & Hin).
      rewrite forallb_forall in Hw. specialize (Hw sb Hsb).
      apply in_number_from in Hin. apply in_map_iff in Hin as (e & He & Hein).
      rewrite forallb_forall in Hw. specialize (Hw e Hein).
      unfold raw_entry in He. destruct (re_n e); inversion He; subst. unfold wf_rawent in Hw. lia. }
    assert (Hstm : forall subs, In (num, InUse g off) (stm_entries subs) -> (0 <= off)%Z).
    { unfold stm_entries. intros subs Hin. apply in_flat_map in Hin as (sb & Hsb & Hin).
      apply in_number_from in Hin. apply in_map_iff in Hin as (e & He & Hein).
      unfold stm_entry_spec in He. destruct (se_tp e) as [|[p|p|]]; inversion He; subst; lia. }
    unfold rsec_wf in Hr. apply andb_true_iff in Hr as [_ Hr].
    destruct r as [o subs tr|o subs tr|o subs so ssubs tr]; cbn [rsec_revision fst] in Ha.
    - eapply Htab; eauto.
    - eapply Hstm; eauto.
    - apply andb_true_iff in Hr as [Hr1 _]. unfold hybrid_entries in Ha.
      apply in_app_or in Ha as [Ha|Ha].
      + apply filter_In in Ha as [Ha _]. eapply Htab; eauto.
      + eapply Hstm; eauto. }
  destruct (Z.ltb_spec off 0); [lia|reflexivity].
Qed.

(* ---------- the reader BEFORE fix F22 (documentation) ---------- *)
(* the same statement about the pre-fix variant of the model is false: finding F12 *)
Definition resolve_refines_pre_F22_statement : Prop :=
  forall size c, wf_chain size c = true ->
    exists m, impl_read_pre_F22 (layout_of c) size (start_of c) = Ok (m, spec_trailer (history_of c))
              /\ forall n, xlookup m n = spec_resolve (history_of c) n.

(* F12: revision 1 = objects 0..3, revision 2 = subsection "1 1" with the single
   line 0000000000 65535 f (object 1 freed at its last generation) *)
Definition f12_chain : chain :=
  [ RTable 400 [(1%N, [{| re_a := 0; re_b := 65535; re_n := false |}])] [];
    RTable 200 [(0%N, [{| re_a := 0; re_b := 65535; re_n := false |};
                       {| re_a := 9; re_b := 0; re_n := true |};
                       {| re_a := 50; re_b := 0; re_n := true |};
                       {| re_a := 100; re_b := 0; re_n := true |}])] [] ].

Lemma f12_refutes :
  wf_chain 1000 f12_chain = true /\
  (exists m t, impl_read_pre_F22 (layout_of f12_chain) 1000 (start_of f12_chain) = Ok (m, t)
    /\ xlookup m 1 = Some (InUse 0 9)
    /\ get_entry m 1 0 = AAt 9)
  /\ spec_resolve (history_of f12_chain) 1 = Some (Free 65535)
  /\ spec_answer (history_of f12_chain) 1 0 = ANull
  /\ (exists m t, impl_read (layout_of f12_chain) 1000 (start_of f12_chain) = Ok (m, t)
    /\ xlookup m 1 = Some (Free 65535)
    /\ get_entry m 1 0 = ANull).
Proof.
  split; [vm_compute; reflexivity|].
  split; [eexists _, _; split; [vm_compute; reflexivity|split; vm_compute; reflexivity]|].
  split; [vm_compute; reflexivity|].
  split; [vm_compute; reflexivity|].
  eexists _, _; split; [vm_compute; reflexivity|split; vm_compute; reflexivity].
Qed.

Lemma resolve_refines_pre_F22_false : ~ resolve_refines_pre_F22_statement.
Proof.
  intros H. destruct f12_refutes as (Hwf & (m & t & Hr & Hm & _) & Hs & _).
  destruct (H 1000%Z f12_chain Hwf) as (m' & Hr' & Hm').
  rewrite Hr in Hr'. inversion Hr'; subst m'.
  specialize (Hm' 1%N). rewrite Hm, Hs in Hm'. discriminate.
Qed.

Lemma spec_answer_null h num gen :
  (spec_resolve h num = None
   \/ (exists g, spec_resolve h num = Some (Free g))
   \/ (exists g off, spec_resolve h num = Some (InUse g off) /\ g <> gen)
   \/ (exists s i, spec_resolve h num = Some (InStm s i) /\ gen <> 0%N)) ->
  spec_answer h num gen = ANull.
Proof.
  unfold spec_answer.
  intros [E|[(g & E)|[(g & off & E & Hne)|(s & i & E & Hne)]]]; rewrite E; try reflexivity.
  - destruct (N.eqb_spec g gen); [contradiction|reflexivity].
  - destruct (N.eqb_spec gen 0); [contradiction|reflexivity].
Qed.

Lemma spec_trailer_newest r rest :
  spec_trailer (history_of (r :: rest)) = keep_trailer (snd (rsec_revision r)).
Proof. unfold spec_trailer, history_of. rewrite rev_involutive. reflexivity. Qed.

(* ---------- hidden objects of hybrid files: the reader BEFORE fix F39 (documentation) ---------- *)
Definition resolve_refines_pre_F39_statement : Prop :=
  forall size c, wf_chain size c = true ->
    exists m, impl_read_pre_F39 (layout_of c) size (start_of c) = Ok (m, spec_trailer (history_of c))
              /\ forall n, xlookup m n = spec_resolve (history_of c) n.

(* one hybrid section: the table lists objects 0..3, marking 2 and 3 free (hidden); the stream
   /XRefStm points to has the real entries of 2 (an object stream at 300) and 3 (its member 0) *)
Definition hidden_chain : chain :=
  [ RHybrid 500 [(0%N, [{| re_a := 2; re_b := 65535; re_n := false |};
                        {| re_a := 9; re_b := 0; re_n := true |};
                        {| re_a := 3; re_b := 0; re_n := false |};
                        {| re_a := 0; re_b := 0; re_n := false |}])]
            400 [(2%N, [{| se_tp := 1; se_a := 300; se_b := 0 |}; {| se_tp := 2; se_a := 2; se_b := 0 |}])]
            [] ].

Lemma hidden_refutes :
  wf_chain 1000 hidden_chain = true /\ no_hidden hidden_chain = false /\
  spec_resolve (history_of hidden_chain) 3 = Some (InStm 2 0) /\
  spec_answer (history_of hidden_chain) 3 0 = AIn 2 0 /\
  (exists m t, impl_read_pre_F39 (layout_of hidden_chain) 1000 (start_of hidden_chain) = Ok (m, t)
    /\ xlookup m 3 = Some (Free 0) /\ get_entry m 3 0 = ANull) /\
  (exists m t, impl_read (layout_of hidden_chain) 1000 (start_of hidden_chain) = Ok (m, t)
    /\ xlookup m 3 = Some (InStm 2 0) /\ get_entry m 3 0 = AIn 2 0).
Proof.
  split; [vm_compute; reflexivity|]. split; [vm_compute; reflexivity|].
  split; [vm_compute; reflexivity|]. split; [vm_compute; reflexivity|].
  split; eexists _, _; (split; [vm_compute; reflexivity|split; vm_compute; reflexivity]).
Qed.

Lemma resolve_refines_pre_F39_false : ~ resolve_refines_pre_F39_statement.
Proof.
  intros H. destruct hidden_refutes as (Hwf & _ & Hs & _ & (m & t & Hr & Hm & _) & _).
  destruct (H 1000%Z hidden_chain Hwf) as (m' & Hr' & Hm').
  rewrite Hr in Hr'. inversion Hr'; subst m'.
  specialize (Hm' 3%N). rewrite Hm, Hs in Hm'. discriminate.
Qed.
