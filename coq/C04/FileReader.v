(* C04 - the reader on BYTES (definitions only): findXRef, the /Prev loop of readXRef with
   every section parsed from the file, readXRefTable (two passes since fix F22), the xref
   stream object (ReadIndirectObject, ReadStreamData, checkXRefStreamDict, decodeXRefStream),
   /XRefStm before the table of its section (fix F39).

   The generic object parser (scanner.ReadObject / ReadDict) is a Section variable
   [parse_value]; the theorems about this model assume of it only that it reads back what the
   renderer Seq.rv writes (hypothesis H-parse, as C02 does). *)
From Coq Require Import List NArith ZArith Bool.
From GoPdf.Base Require Import Bytes Res.
From GoPdf.Gen Require Import Gen_Consts Gen_Limits.
From GoPdf.C04 Require Import XRef XRefText Extent Seq.
Import ListNotations.

Section FileReader.
  Variable parse_value : bytes -> res (value * bytes).

  (* lastOccurence: index of the last occurrence of pat *)
  Fixpoint last_occ (pat s : bytes) (p : nat) (acc : option nat) : option nat :=
    match s with
    | [] => acc
    | _ :: s' => last_occ pat s' (S p) (if has_prefix pat s then Some p else acc)
    end.

  (* findHeaderOffset: first occurrence of %PDF- (within the first 1024 bytes) *)
  Definition kw_pdf : bytes := [37; 80; 68; 70; 45]%N.
  Fixpoint first_occ (pat s : bytes) (p : nat) : option nat :=
    match s with
    | [] => None
    | _ :: s' => if has_prefix pat s then Some p else first_occ pat s' (S p)
    end.
  Definition find_header (f : bytes) : option nat :=
    match first_occ kw_pdf (firstn 1024 f) 0 with
    | Some p => Some p
    | None => None
    end.

  (* findXRef: the integer after the last "startxref", relative to the header *)
  Definition find_xref (f : bytes) (hdr : nat) : res Z :=
    match last_occ kw_startxref f 0 None with
    | None => Err Malformed
    | Some pos =>
      match read_integer (skipn (pos + 9) f) with
      | Err c => Err c
      | Ok (x, _) => if prev_ok (Z.of_nat (length f - hdr)) x then Ok x else Err Malformed
      end
    end.

  Definition at_off (f : bytes) (hdr : nat) (o : Z) : bytes := skipn (hdr + Z.to_nat o) f.

  (* ---------- the xref stream object ---------- *)
  Definition k_Filter : bytes := [70; 105; 108; 116; 101; 114]%N.

  Fixpoint dict_remove (d : list (bytes * value)) (k : bytes) : list (bytes * value) :=
    match d with
    | [] => []
    | (k', v) :: d' => if bytes_eqb k' k then dict_remove d' k else (k', v) :: dict_remove d' k
    end.

  Fixpoint index_pairs (size : Z) (l : list value) : option (list (N * N)) :=
    match l with
    | [] => Some []
    | VInt a :: VInt b :: l' =>
      if (Z.ltb a 0 || Z.leb b 0 || Z.ltb size a || Z.ltb (size - a) b)%Z then None
      else match index_pairs size l' with
           | Some r => Some ((Z.to_N a, Z.to_N b) :: r)
           | None => None
           end
    | _ => None
    end.

  Definition w_ok (z : Z) : bool := (Z.leb 0 z && Z.leb z 8)%Z.

  (* checkXRefStreamDict: the widths and the subsections *)
  Definition check_xref_dict (d : list (bytes * value)) (rawlen : nat) : res (nat * nat * nat * list (N * N)) :=
    match dict_get d k_Size with
    | Some (VInt size) =>
      if (Z.ltb size 0 || Z.ltb maxXRefSize size)%Z then Err Malformed else
      match dict_get d k_W with
      | Some (VArr [VInt a; VInt b; VInt c]) =>
        if negb (w_ok a && w_ok b && w_ok c) || Z.eqb (a + b + c) 0 then Err Malformed else
        let ss :=
          match dict_get d k_Index with
          | None | Some VNull => Some [(0%N, Z.to_N size)]
          | Some (VArr l) => index_pairs size l
          | Some _ => None
          end in
        match ss with
        | None => Err Malformed
        | Some ss =>
          let total := fold_left (fun t (s : N * N) => (t + Z.of_N (snd s))%Z) ss 0%Z in
          if Z.ltb (Z.min maxXRefSize (MaxXRefEntries (Z.of_nat rawlen))) total then Err Malformed
          else Ok (Z.to_nat a, Z.to_nat b, Z.to_nat c, ss)
        end
      | _ => Err Malformed
      end
    | _ => Err Malformed
    end.

  Definition in_range_ref (num gen : Z) : bool :=
    (Z.leb 0 num && Z.ltb num maxXRefSize && Z.leb 0 gen && Z.leb gen maxGeneration)%Z.

  (* readXRefStream at the input s: ReadIndirectObject (header, dictionary, stream data),
     checkXRefStreamDict, DecodeStream without filters, decodeXRefStream.  Returns the map
     and the stream dictionary (without /Length, which ReadStreamData deletes). *)
  Definition bread_stream (m : xmap) (s : bytes) : res (xmap * list (bytes * value)) :=
    match read_integer s with Err c => Err c | Ok (num, s1) =>
    match read_integer s1 with Err c => Err c | Ok (gen, s2) =>
    match skip_ws s2 with Err c => Err c | Ok s3 =>
    match skip_string kw_obj s3 with Err c => Err c | Ok s4 =>
    match skip_ws s4 with Err c => Err c | Ok s5 =>
    if negb (in_range_ref num gen) then Err Malformed else
    match parse_value s5 with Err c => Err c | Ok (v, s6) =>
    match v with
    | VDict d =>
      match skip_ws s6 with Err c => Err c | Ok s7 =>
      match skip_string kw_stream s7 with Err c => Err c | Ok s8 =>
        let declared := match dict_get d k_Length with Some (VInt n) => Some n | _ => None end in
        match stream_obj s8 declared with Err c => Err c | Ok (k, l) =>
          let data := firstn l (skipn k s8) in
          let d' := dict_remove d k_Length in
          match dict_get d' k_Filter with
          | Some _ => Err Other                   (* filters are not modelled *)
          | None =>
            match check_xref_dict d' l with Err c => Err c | Ok (w0, w1, w2, ss) =>
            match decode_xref_stream m data w0 w1 w2 ss with Err c => Err c | Ok m' => Ok (m', d') end
            end
          end
        end
      end end
    | _ => Err Malformed
    end end end end end end end.

  (* ---------- one turn of the loop of readXRef ---------- *)
  Definition dict_int (d : list (bytes * value)) (k : bytes) : res (option Z) :=
    match dict_get d k with
    | None | Some VNull => Ok None
    | Some (VInt z) => Ok (Some z)
    | Some _ => Err Malformed
    end.

  Definition is_xref_kw (s : bytes) : bool := has_prefix kw_xref s.

  Definition bread_section (f : bytes) (hdr : nat) (start : Z) (seen : list Z) (m : xmap)
    : res (xmap * list Z * trailer * option Z) :=
    let s := at_off f hdr start in
    if is_xref_kw s then
      (* probe pass: the trailer dictionary *)
      match read_xref_table [] false s with Err c => Err c | Ok (_, s1) =>
      match parse_value s1 with Err c => Err c | Ok (v, _) =>
      match v with
      | VDict d =>
        let stm :=
          match dict_get d k_XRefStm with
          | None => Ok (m, seen)
          | Some (VInt z) =>
            if zmem z seen then Ok (m, seen)
            else match bread_stream m (at_off f hdr z) with
                 | Ok (m1, _) => Ok (m1, z :: seen)
                 | Err c => Err c
                 end
          | Some _ => Err Malformed
          end in
        match stm with Err c => Err c | Ok (m1, seen1) =>
        match dict_int d k_Prev with Err c => Err c | Ok prev0 =>
        match read_xref_table m1 (match prev0 with None => true | Some _ => false end) s with Err c => Err c | Ok (m2, s2) =>
        match parse_value s2 with Err c => Err c | Ok (v2, _) =>
        match v2 with
        | VDict d2 =>
          match dict_int d2 k_Prev with Err c => Err c | Ok prev => Ok (m2, seen1, d2, prev) end
        | _ => Err Malformed
        end end end end end
      | _ => Err Malformed
      end end end
    else
      match bread_stream m s with
      | Err c => Err c
      | Ok (m1, d) => match dict_int d k_Prev with Err c => Err c | Ok prev => Ok (m1, seen, d, prev) end
      end.

  Fixpoint bread_loop (fuel : nat) (f : bytes) (hdr : nat) (size start : Z) (seen : list Z)
           (m : xmap) (tr : option trailer) : res (xmap * trailer) :=
    match fuel with
    | O => Err OutOfFuel
    | S fuel' =>
      if zmem start seen then Ok (m, match tr with Some t => t | None => [] end)
      else
        match bread_section f hdr start (start :: seen) m with
        | Err c => Err c
        | Ok (m', seen', t, prev) =>
          let tr' := match tr with Some _ => tr | None => Some (keep_trailer t) end in
          match prev with
          | None => Ok (m', match tr' with Some t => t | None => [] end)
          | Some p =>
            if prev_ok size p then bread_loop fuel' f hdr size p seen' m' tr'
            else Err Malformed
          end
        end
    end.

  (* NewReader up to the xref table and trailer *)
  Definition open_bytes (fuel : nat) (f : bytes) : res (xmap * trailer) :=
    match find_header f with
    | None => Err Malformed
    | Some hdr =>
      match find_xref f hdr with
      | Err c => Err c
      | Ok start => bread_loop fuel f hdr (Z.of_nat (length f - hdr)) start [] [] None
      end
    end.
End FileReader.
