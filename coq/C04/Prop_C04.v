(* C04: property theorems only; each closed by [exact] and followed by Print Assumptions.

   Reading guide.  A chain (XRef.chain) is the list of cross-reference sections of a
   file, newest first, each a classic table (any subsections), an xref stream (any
   subsections) or a hybrid pair; layout_of places them at their offsets with /Prev
   (and /XRefStm) links; impl_read is readXRef of xref.go: newest first, first entry
   wins, table before /XRefStm, `seen` on offsets, fuel = number of sections + 1.
   history_of reads the same chain as the specification does: revisions oldest first,
   entries applied in order, last definition-or-free wins (spec_resolve). *)
From Coq Require Import List NArith ZArith Bool.
From GoPdf.Base Require Import Bytes Res.
From GoPdf.C04 Require Import XRef XRefProofs XRefText XRefTextProofs Extent ExtentProofs Seq LitString LitStringProofs FileReader FileReaderProofs RenderShape RenderChecks ReadRender.
Import ListNotations.

(* For every chain of any length over any object numbers that is conforming (wf_chain: every
   number at most once per revision - in a hybrid section a second time only as the free
   marker of a hidden object -, offsets distinct and inside the file, field ranges of
   ISO 32000-2 Table 18, the original section not mis-numbered) the reader's table is the
   specification's and the trailer is the newest revision's.  No guard is left: update
   sections `1 n / 0000000000 65535 f` are read correctly since fix F22, hidden objects of
   hybrid-reference files since fix F39 (the stream /XRefStm points to is decoded before the
   table of its section, so its entries win). *)
Theorem resolve_refines :
  forall size c, wf_chain size c = true ->
    exists m, impl_read (layout_of c) size (start_of c) = Ok (m, spec_trailer (history_of c))
              /\ forall n, xlookup m n = spec_resolve (history_of c) n.
Proof. exact impl_read_refines. Qed.
Print Assumptions resolve_refines.

(* Documentation: the reader BEFORE fix F39 (impl_read_pre_F39, a named variant of the model)
   read the hidden objects of a hybrid section as free: the table marks objects 2 and 3 free,
   the stream /XRefStm points to holds their real entries; the table's free entries were
   installed first and "first entry wins".  The reader as it is now agrees with the
   specification on the same file. *)
Theorem resolve_refines_pre_F39_refuted :
  exists size c,
    wf_chain size c = true /\ no_hidden c = false /\
    spec_resolve (history_of c) 3 = Some (InStm 2 0) /\
    spec_answer (history_of c) 3 0 = AIn 2 0 /\
    (exists m t, impl_read_pre_F39 (layout_of c) size (start_of c) = Ok (m, t)
      /\ xlookup m 3 = Some (Free 0) /\ get_entry m 3 0 = ANull) /\
    (exists m t, impl_read (layout_of c) size (start_of c) = Ok (m, t)
      /\ xlookup m 3 = Some (InStm 2 0) /\ get_entry m 3 0 = AIn 2 0).
Proof. exists 1000%Z, hidden_chain. exact hidden_refutes. Qed.
Print Assumptions resolve_refines_pre_F39_refuted.

(* Documentation: the reader BEFORE fix F22 (impl_read_pre_F22, a named variant of the model)
   loses the update `1 1 / 0000000000 65535 f` (finding F12); the reader as it is now reads
   the same file as the specification says. *)
Theorem resolve_refines_pre_F22_refuted :
  exists size c,
    wf_chain size c = true /\
    (exists m t, impl_read_pre_F22 (layout_of c) size (start_of c) = Ok (m, t)
      /\ xlookup m 1 = Some (InUse 0 9)
      /\ get_entry m 1 0 = AAt 9)
    /\ spec_resolve (history_of c) 1 = Some (Free 65535)
    /\ spec_answer (history_of c) 1 0 = ANull
    /\ (exists m t, impl_read (layout_of c) size (start_of c) = Ok (m, t)
      /\ xlookup m 1 = Some (Free 65535)
      /\ get_entry m 1 0 = ANull).
Proof. exists 1000%Z, f12_chain. exact f12_refutes. Qed.
Print Assumptions resolve_refines_pre_F22_refuted.

(* Reader.get answers every reference as the specification says ... *)
Theorem get_refines :
  forall size c m num gen, wf_chain size c = true ->
    (forall n, xlookup m n = spec_resolve (history_of c) n) ->
    get_entry m num gen = spec_answer (history_of c) num gen.
Proof. exact get_entry_spec. Qed.
Print Assumptions get_refines.

(* ... which is null for free, absent and generation-mismatched references. *)
Theorem get_null :
  forall h num gen,
    (spec_resolve h num = None
     \/ (exists g, spec_resolve h num = Some (Free g))
     \/ (exists g off, spec_resolve h num = Some (InUse g off) /\ g <> gen)
     \/ (exists s i, spec_resolve h num = Some (InStm s i) /\ gen <> 0%N)) ->
    spec_answer h num gen = ANull.
Proof. exact spec_answer_null. Qed.
Print Assumptions get_null.

(* the trailer is the newest revision's (the keys the reader keeps: Root, Encrypt,
   Info, ID and second/third-class names) *)
Theorem trailer_newest :
  forall r rest, spec_trailer (history_of (r :: rest)) = keep_trailer (snd (rsec_revision r)).
Proof. exact spec_trailer_newest. Qed.
Print Assumptions trailer_newest.

(* decoding inverts rendering: classic tables, every subsection layout, every line end *)
Theorem xref_table_rt :
  forall e0 subs e1 m allow dict,
    forallb rsub_ok subs = true -> hd_stops dict ->
    read_xref_table m allow (render_table e0 subs e1 ++ dict)
    = Ok (apply_table_subs m allow false (map rsub_subsection subs), dict).
Proof. exact read_xref_table_render. Qed.
Print Assumptions xref_table_rt.

(* ... xref streams, every /Index layout and every /W wide enough (w0 = 0 => type 1) *)
Theorem xref_stream_rt :
  forall w0 w1 w2 subs m trailing,
    (0 < w0 + w1 + w2)%nat ->
    forallb (fun s : stmsub => forallb (entry_fits w0 w1 w2) (snd s)) subs = true ->
    decode_xref_stream m (encode_stm_subs w0 w1 w2 subs ++ trailing) w0 w1 w2 (index_of subs)
    = Ok (apply_stm_subs m subs).
Proof. exact decode_xref_stream_render. Qed.
Print Assumptions xref_stream_rt.

(* a stream whose /Length is missing, negative, unresolvable (declared = None), beyond
   the file, right, or wrong and not in front of white space + endstream is delimited
   by the EOL that precedes endstream: exactly one end-of-line marker is taken off, so data
   that itself ends in LF, CR LF, LF LF ... reads back whole.  The one exception cannot be
   decided without /Length: data ending in CR in front of a bare LF marker (no_cr_before_lf) *)
Theorem stream_extent :
  forall body e0 e1 rest declared,
    eol_before_data e0 -> eol_after_data e1 ->
    no_cr_before_lf body e1 ->
    find_eol_endstream body = None ->
    (declared = None \/
     exists d, declared = Some d /\
       ((d < 0)%Z \/ (Z.of_nat (length (body ++ e1 ++ kw_endstream ++ rest)) < d)%Z
        \/ d = Z.of_nat (length body)
        \/ endstream_at (body ++ e1 ++ kw_endstream ++ rest) (Z.to_nat d) = false)) ->
    Extent.stream_extent (e0 ++ body ++ e1 ++ kw_endstream ++ rest) declared = Ok (length e0, length body).
Proof. exact stream_extent_correct. Qed.
Print Assumptions stream_extent.

(* with a correct /Length the data are exactly the declared bytes, whatever they contain (an
   end-of-line at their end, lines that begin with endstream) and whatever white space - an
   end-of-line, several bytes, or NONE: the end-of-line before endstream is only recommended
   (7.3.8.1) - stands between them and the keyword.  In particular /Length 0 with
   `stream EOL endstream` is an empty stream. *)
Theorem stream_extent_declared :
  forall body e0 ws rest,
    eol_before_data e0 -> forallb is_space ws = true ->
    Extent.stream_extent (e0 ++ body ++ ws ++ kw_endstream ++ rest) (Some (Z.of_nat (length body)))
    = Ok (length e0, length body).
Proof. exact stream_extent_declared_correct. Qed.
Print Assumptions stream_extent_declared.

(* ---------- read_render: the reader on BYTES opened on the rendered file ---------- *)
(* open_bytes is NewReader up to the xref table and trailer, on bytes: find %PDF-, the last
   startxref and its number, then the /Prev loop with every section parsed from the file
   (readXRefTable twice, /XRefStm, the xref stream object with ReadStreamData /
   checkXRefStreamDict / decodeXRefStream).  parse_value is the generic object parser
   (H-parse: it reads back a dictionary Seq.rv wrote, whatever follows).

   For EVERY history - classic sections, xref-stream sections and hybrid sections in any mix
   and number - and EVERY choice list c of the renderer (white space, comments, EOL kinds,
   junk before the header, subsection splits, /Index present or omitted, every /W the
   renderer picks, which objects of a hybrid section are hidden) the reader opened on the
   rendered bytes returns the table and the trailer the specification gives for the history.
   The hypotheses are conditions on the history and the file size only:
     rev_ok r   object numbers below /Size <= 2^24, generations <= 65535, next-free fields
                below 10^10, fewer than 2^24 - 3 actions, the numbers of the xref stream and
                the object stream below /Size, extra trailer keys that are not Length,
                Filter, Prev, Index or XRefStm;
     wf_chain   the rendered file is conforming (the hypothesis of resolve_refines);
     the file is shorter than 10^10 bytes (offsets fit the ten digits of a table line).
   That the reader's checks (20-byte lines, checkXRefStreamDict with the widths and /Index
   the renderer wrote, field widths that fit) accept what the renderer writes is derived
   (RenderChecks.v), not assumed. *)
Definition read_render_statement : Prop :=
  forall (parse_value : bytes -> res (value * bytes)),
    (forall d c rest, parse_value (fst (rv (VDict d) c) ++ rest) = Ok (VDict d, rest)) ->
    forall h c, let b := build h c in
      h <> [] ->
      (forall r, In r h -> rev_ok r = true) ->
      wf_chain (file_size b) (b_chain b) = true ->
      (Z.of_nat (length (b_bytes b)) < 10 ^ 10)%Z ->
      exists m, open_bytes parse_value (S (length (layout_of (b_chain b)))) (b_bytes b)
                = Ok (m, spec_trailer (history_of (b_chain b)))
                /\ forall n, xlookup m n = spec_resolve (history_of (b_chain b)) n.

Theorem read_render : read_render_statement.
Proof. exact read_render_lemma. Qed.
Print Assumptions read_render.

(* more fuel does not change the answer *)
Theorem open_bytes_fuel_mono :
  forall (parse_value : bytes -> res (value * bytes)) f fuel r,
    open_bytes parse_value fuel f = Ok r -> open_bytes parse_value (S fuel) f = Ok r.
Proof. exact open_bytes_fuel. Qed.
Print Assumptions open_bytes_fuel_mono.

(* Literal strings (ISO 32000 7.3.4.2).  read_lit is the specification's reader: balanced
   parentheses, the escapes \n \r \t \b \f \( \) \\ \ddd, a backslash before an end-of-line
   is a continuation, every raw end-of-line - LF, CR or CR LF - is one LF.  render_lit_bytes
   is the renderer the harness writes strings with; its list of choices selects, separately
   for every byte of the value, one of the forms the specification allows (for an LF: \n,
   \012, raw LF, raw CR, raw CR LF; for a CR: \r or \015; ...) and separately before every
   byte an optional continuation line ending in LF, CR or CR LF.  For every value and every
   list of choices - so for every mix of styles within one string - reading the rendered
   bytes up to the closing parenthesis gives the value back and stops behind the
   parenthesis.  The harness compares Reader.Get on such strings with the value. *)
Theorem literal_string_rt :
  forall (s : bytes) (c : choices) (rest : bytes),
    forallb (fun b => N.ltb b 256) s = true ->
    read_lit O (fst (render_lit_bytes s c) ++ 41%N :: rest) = Some (s, rest).
Proof. exact literal_string_rt_lemma. Qed.
Print Assumptions literal_string_rt.

(* ---------- the hypotheses are satisfiable ---------- *)
Definition ex_chain : chain :=
  [ RHybrid 700 [(0%N, [{| re_a := 0; re_b := 65535; re_n := false |}]);
                 (2%N, [{| re_a := 620; re_b := 1; re_n := true |}])]
            650 [(3%N, [{| se_tp := 2; se_a := 6; se_b := 0 |}]); (6%N, [{| se_tp := 1; se_a := 600; se_b := 0 |}])]
            [(k_Root, VRef 4 0)];
    RStream 400 [(1%N, [{| se_tp := 0; se_a := 0; se_b := 1 |}; {| se_tp := 0; se_a := 0; se_b := 1 |}])] [(k_Root, VRef 4 0)];
    RTable 200 [(0%N, [{| re_a := 0; re_b := 65535; re_n := false |};
                       {| re_a := 9; re_b := 0; re_n := true |};
                       {| re_a := 50; re_b := 0; re_n := true |}]);
                (4%N, [{| re_a := 100; re_b := 0; re_n := true |}])] [(k_Root, VRef 4 0); (k_Info, VRef 9 0)] ].

Example resolve_refines_hypotheses_ex : wf_chain 1000 ex_chain = true /\ wf_chain 1000 hidden_chain = true.
Proof. split; vm_compute; reflexivity. Qed.

Example resolve_refines_ex :
  exists m, impl_read (layout_of ex_chain) 1000 (start_of ex_chain) = Ok (m, [(k_Root, VRef 4 0)])
    /\ get_entry m 2 1 = AAt 620 /\ get_entry m 2 0 = ANull /\ get_entry m 1 0 = ANull
    /\ get_entry m 3 0 = AIn 6 0 /\ get_entry m 4 0 = AAt 100 /\ get_entry m 77 0 = ANull.
Proof. eexists. split; [vm_compute; reflexivity|]. repeat split; vm_compute; reflexivity. Qed.

Example xref_table_rt_ex :
  forallb rsub_ok [ {| rs_start := 0; rs_lines := [({| re_a := 0; re_b := 65535; re_n := false |}, EolCRLF)]; rs_eol := HLF |};
                    {| rs_start := 3; rs_lines := [({| re_a := 17; re_b := 0; re_n := true |}, EolSPLF);
                                                   ({| re_a := 1234567890; re_b := 7; re_n := true |}, EolSPCR)]; rs_eol := HCRLF |} ] = true
  /\ hd_stops [60; 60; 62; 62]%N.
Proof. split; [vm_compute; reflexivity|split; reflexivity]. Qed.

Example xref_stream_rt_ex :
  forallb (fun s : stmsub => forallb (entry_fits 0 2 1) (snd s))
          [(5%N, [{| se_tp := 1; se_a := 600; se_b := 0 |}; {| se_tp := 1; se_a := 65535; se_b := 255 |}])] = true
  /\ forallb (fun s : stmsub => forallb (entry_fits 1 8 0) (snd s))
          [(0%N, [{| se_tp := 0; se_a := 0; se_b := 0 |}; {| se_tp := 2; se_a := 9223372036854775807; se_b := 0 |}])] = true.
Proof. split; vm_compute; reflexivity. Qed.

Example stream_extent_ex :
  let body := [120; 10; 101; 110; 100; 115; 116; 114; 101; 97; 120; 13; 10]%N in     (* "x\nendstreax\r\n" *)
  no_cr_before_lf body [10]%N /\ find_eol_endstream body = None
  /\ endstream_at (body ++ [10]%N ++ kw_endstream ++ [10]%N) 3 = false
  /\ Extent.stream_extent ([10]%N ++ body ++ [10]%N ++ kw_endstream ++ [10]%N) (Some 3%Z) = Ok (1%nat, 13%nat).
Proof. split; [intros _; reflexivity|]. repeat split; vm_compute; reflexivity. Qed.

(* a history with a classic revision, an xref-stream update and a hybrid update, rendered
   under some choices: the hypotheses of read_render hold *)
Definition ex_history : list drev :=
  [ {| d_acts := [AFree 0 65535 0; ADefine 1 0 (OVal (VInt 7));
                  ADefine 2 0 (OVal (VDict [([84; 121; 112; 101]%N, VName [67; 97; 116; 97; 108; 111; 103]%N)]))];
       d_kind := KTable; d_xnum := 0; d_onum := 0; d_size := 3; d_extra := [(k_Root, VRef 2 0)] |};
    {| d_acts := [ADefine 1 0 (OVal (VStr [104; 105]%N)); AFree 3 0 0; ADefineC 4 (VInt 9)];
       d_kind := KStream; d_xnum := 5; d_onum := 6; d_size := 7; d_extra := [(k_Root, VRef 2 0)] |};
    {| d_acts := [ADefine 7 0 (OVal (VInt 1)); ADefine 8 0 (OVal (VInt 2)); ADefineC 9 (VStr [120]%N)];
       d_kind := KHybrid; d_xnum := 10; d_onum := 11; d_size := 12; d_extra := [(k_Root, VRef 2 0)] |} ].
Definition ex_choices : list N := [3; 1; 4; 1; 5; 9; 2; 6; 5; 3; 5; 8; 9; 7; 9; 3; 2; 3; 8; 4; 6; 2; 6; 4; 3; 3; 8; 3; 2; 7; 9; 5; 0; 2; 8; 8; 4; 1; 9; 7]%N.
(* a classic, a stream and a hybrid revision: the hypotheses hold, and the last section of the
   rendered chain is the hybrid one *)
Example read_render_hypotheses_ex :
  let b := build ex_history ex_choices in
  read_render_hyp ex_history b = true
  /\ match b_chain b with RHybrid _ _ _ _ _ :: _ => true | _ => false end = true.
Proof. vm_compute. split; reflexivity. Qed.

(* "first LF second LF third" with the first LF written as a raw CR and the second as a raw
   LF, a continuation CR in front of "third" - the shape on which a reader that keeps
   "ignore the next LF" armed after a lone CR loses the second end-of-line. *)
Example literal_string_rt_ex :
  let s := [102; 10; 115; 10; 116]%N in
  let c := [5; 3; 9; 3; 5; 3; 5; 3; 5; 1]%N in
  forallb (fun b => N.ltb b 256) s = true /\
  fst (render_lit_bytes s c) = [102; 13; 115; 10; 92; 13; 116]%N /\
  read_lit O (fst (render_lit_bytes s c) ++ [41]%N) = Some (s, []).
Proof. vm_compute. repeat split. Qed.

(* `stream LF endstream` with /Length 0 followed by another stream: the data are empty *)
Example stream_extent_declared_ex :
  Extent.stream_extent ([10]%N ++ [] ++ [] ++ kw_endstream ++ [10; 120; 10]%N ++ kw_endstream) (Some 0%Z) = Ok (1%nat, 0%nat)
  /\ Extent.stream_extent ([10]%N ++ [] ++ [] ++ kw_endstream ++ [10; 120; 10]%N ++ kw_endstream) None = Ok (1%nat, 11%nat).
Proof. split; vm_compute; reflexivity. Qed.
