Require Extraction.
Require Import ExtrOcamlBasic.
From GoPdf.Base Require Import WireAnchor.
From GoPdf.C04 Require Import XRef XRefText Extent Seq ReadRender.
Separate Extraction wire_anchor build render model_get model_trailer spec_get spec_trailer_of
  hyp_wf hyp_guard hyp_no_hidden rsec_trips rsec_hides impl_read_pre_F22 impl_read_pre_F39 read_render_hyp catalog_ok stream_extent stream_obj read_xref_table decode_xref_stream xlookup.
