(* C04 - the reader on bytes agrees with the reader on layouts (XRef.read_loop) wherever the
   bytes at a section's offset are a rendering of that section. *)
From Coq Require Import List NArith ZArith Bool Lia ZifyN ZifyNat ZifyBool.
From GoPdf.Base Require Import Bytes Res.
From GoPdf.Gen Require Import Gen_Consts Gen_Limits.
From GoPdf.C04 Require Import XRef XRefProofs XRefText XRefTextProofs Extent ExtentProofs Seq FileReader.
Import ListNotations.

(* ---------- white space written by the renderer is skipped ---------- *)
Lemma ws_variant_skip : forall k t, skip_ws_aux false (nth k ws_variants [] ++ t) = skip_ws_aux false t.
Proof.
  intros k t. do 12 (destruct k as [|k]; [reflexivity|]). destruct k; reflexivity.
Qed.

Lemma sepc_skip need c t : skip_ws (fst (sepc need c) ++ t) = skip_ws t.
Proof.
  unfold sepc, skip_ws. destruct (pick (if need then 12%N else 24%N) c) as [k c1]. cbn [fst]. apply ws_variant_skip.
Qed.

Lemma eolc_skip c t : skip_ws (fst (eolc c) ++ t) = skip_ws t.
Proof.
  unfold eolc, skip_ws. destruct (pick 4 c) as [k c1]. cbn [fst].
  generalize (N.to_nat k). intros n. do 4 (destruct n as [|n]; [reflexivity|]). destruct n; reflexivity.
Qed.

Lemma read_integer_skip s t : skip_ws s = skip_ws t -> read_integer s = read_integer t.
Proof. unfold read_integer. intros ->. reflexivity. Qed.

(* ---------- dictionaries ---------- *)
Lemma dict_get_app d1 d2 k :
  dict_get (d1 ++ d2) k = match dict_get d1 k with Some v => Some v | None => dict_get d2 k end.
Proof.
  induction d1 as [|[k' v] d1 IH]; cbn [app dict_get]; [reflexivity|].
  destruct (bytes_eqb k' k); [reflexivity|exact IH].
Qed.

Lemma keep_trailer_app a b : keep_trailer (a ++ b) = keep_trailer a ++ keep_trailer b.
Proof. unfold keep_trailer. apply filter_app. Qed.

Definition prev_entry (prev : option Z) : list (bytes * value) :=
  match prev with Some p => [(k_Prev, VInt p)] | None => [] end.

Lemma keep_trailer_prev prev : keep_trailer (prev_entry prev) = [].
Proof. destruct prev; reflexivity. Qed.

Lemma rv_dict_head d c : exists r, fst (rv (VDict d) c) = (60 :: 60 :: r)%N.
Proof.
  cbn [rv].
  match goal with |- context [let '(r, c1) := ?g in _] => destruct g as [r c1] end.
  exists r. reflexivity.
Qed.

Lemma rv_dict_stops d c rest : hd_stops (fst (rv (VDict d) c) ++ rest).
Proof. destruct (rv_dict_head d c) as [r ->]. cbn. split; reflexivity. Qed.

(* ---------- separators ---------- *)
Definition is_sep (x : bytes) : Prop := forall t, skip_ws (x ++ t) = skip_ws t.
(* a separator that is required between two numbers: not empty, does not begin with a digit *)
Definition is_sep1 (x : bytes) : Prop := is_sep x /\ exists b x', x = b :: x' /\ is_digit b = false.

Lemma sepc_is_sep need c : is_sep (fst (sepc need c)).
Proof. intros t. apply sepc_skip. Qed.

Lemma sepc_true_is_sep1 c : is_sep1 (fst (sepc true c)).
Proof.
  split; [apply sepc_is_sep|]. unfold sepc. destruct (pick 12 c) as [k c1] eqn:E. cbn [fst].
  assert (Hk : (k < 12)%N).
  { unfold pick in E. destruct c as [|x c']; inversion E; subst; [lia|]. apply N.mod_lt. lia. }
  assert (Hn : (N.to_nat k < 12)%nat) by lia.
  generalize dependent (N.to_nat k). intros n Hn.
  do 12 (destruct n as [|n]; [eexists _, _; split; reflexivity|]). lia.
Qed.

Lemma read_integer_fmt_sep n x t :
  (Z.of_N n < 2 ^ 63)%Z -> is_sep1 x -> read_integer (fmt_N n ++ x ++ t) = Ok (Z.of_N n, x ++ t).
Proof. intros Hn [_ (b & x' & -> & Hb)]. cbn [app]. apply read_integer_fmt; assumption. Qed.

Lemma eolc_is_sep c : is_sep (fst (eolc c)).
Proof. intros t. apply eolc_skip. Qed.

Lemma skip_string_self p t : skip_string p (p ++ t) = Ok t.
Proof. induction p as [|x p IH]; cbn [app skip_string]; [destruct t; reflexivity|]. rewrite N.eqb_refl. exact IH. Qed.

(* ---------- the data of a stream with a correct /Length ---------- *)
Lemma stream_obj_exact body e0 e1 s3 rest :
  eol_before_data e0 -> sep_after_data e1 -> is_sep s3 ->
  stream_obj (e0 ++ body ++ e1 ++ Extent.kw_endstream ++ s3 ++ Extent.kw_endobj ++ rest) (Some (Z.of_nat (length body)))
  = Ok (length e0, length body).
Proof.
  intros H0 H1 H3.
  set (data := body ++ e1 ++ Extent.kw_endstream ++ s3 ++ Extent.kw_endobj ++ rest).
  assert (He : endstream_at data (length body) = true).
  { unfold endstream_at, data. rewrite skipn_app_exact by reflexivity.
    destruct H1 as [->|H1]; [cbn [app]; change (drop_space (Extent.kw_endstream ++ s3 ++ Extent.kw_endobj ++ rest)) with (Extent.kw_endstream ++ s3 ++ Extent.kw_endobj ++ rest); apply has_prefix_self|].
    rewrite drop_space_eol1 by exact H1. apply has_prefix_self. }
  assert (Hlen : (Z.leb 0 (Z.of_nat (length body)) && Z.leb (Z.of_nat (length body)) (Z.of_nat (length data)))%Z = true).
  { unfold data. rewrite app_length. lia. }
  assert (Hext : stream_extent (e0 ++ data) (Some (Z.of_nat (length body))) = Ok (length e0, length body)).
  { assert (Hk : stream_extent (e0 ++ data) (Some (Z.of_nat (length body))) =
      (let length_ok :=
         if (Z.leb 0 (Z.of_nat (length body)) && Z.leb (Z.of_nat (length body)) (Z.of_nat (length data)))%Z
         then endstream_at data (Z.to_nat (Z.of_nat (length body))) else false in
       if length_ok then Ok (length e0, Z.to_nat (Z.of_nat (length body)))
       else match find_eol_endstream data with
            | None => Err Malformed
            | Some p => Ok (length e0, trim_at data p)
            end)) by (destruct H0; reflexivity).
    rewrite Hk. cbv zeta. rewrite Hlen, Nat2Z.id, He. reflexivity. }
  unfold stream_obj. fold data. rewrite Hext.
  assert (Hsk : skipn (length e0) (e0 ++ data) = data) by (apply skipn_app_exact; reflexivity).
  rewrite Hsk.
  assert (Hafter : match skip_ws (skipn (length body) data) with
                   | Ok t => skip_string Extent.kw_endstream t
                   | Err c => Err c
                   end = Ok (s3 ++ Extent.kw_endobj ++ rest)).
  { unfold data. rewrite skipn_app_exact by reflexivity.
    assert (Hs : skip_ws (e1 ++ Extent.kw_endstream ++ s3 ++ Extent.kw_endobj ++ rest) = Ok (Extent.kw_endstream ++ s3 ++ Extent.kw_endobj ++ rest))
      by (destruct H1 as [->|[]]; reflexivity).
    rewrite Hs. apply skip_string_self. }
  rewrite Hlen, Nat2Z.id, He. cbn [andb].
  destruct (find_eol_endstream data); rewrite Hafter; rewrite H3;
    rewrite skip_ws_stops by (cbn; split; reflexivity);
    rewrite skip_string_self; reflexivity.
Qed.

Fixpoint has_dkey (d : list (bytes * value)) (k : bytes) : bool :=
  match d with [] => false | (k', _) :: d' => bytes_eqb k' k || has_dkey d' k end.

Lemma dict_get_none d k : has_dkey d k = false -> dict_get d k = None.
Proof.
  induction d as [|[k' v] d IH]; cbn; [reflexivity|]. intros H. apply orb_false_iff in H as [H1 H2].
  rewrite H1. apply IH. exact H2.
Qed.

Lemma dict_remove_absent d k : has_dkey d k = false -> dict_remove d k = d.
Proof.
  induction d as [|[k' v] d IH]; cbn; [reflexivity|]. intros H. apply orb_false_iff in H as [H1 H2].
  rewrite H1, IH by exact H2. reflexivity.
Qed.

Lemma dict_remove_app d1 d2 k : dict_remove (d1 ++ d2) k = dict_remove d1 k ++ dict_remove d2 k.
Proof.
  induction d1 as [|[k' v] d1 IH]; cbn [app dict_remove]; [reflexivity|].
  destruct (bytes_eqb k' k); [exact IH|cbn [app]; f_equal; exact IH].
Qed.

Section Agree.
  Variable parse_value : bytes -> res (value * bytes).
  (* H-parse: the object parser reads back a dictionary the renderer wrote, whatever follows *)
  Hypothesis Hparse : forall d c rest, parse_value (fst (rv (VDict d) c) ++ rest) = Ok (VDict d, rest).

  (* ---------- a classic section ---------- *)
  (* the trailer dictionary has no /Prev or /XRefStm of its own *)
  Definition clean_tr (tr : trailer) : Prop := dict_get tr k_Prev = None /\ dict_get tr k_XRefStm = None.

  Definition table_image (f : bytes) (hdr : nat) (o : Z) (subs : list subsection) (tr : trailer) (prev : option Z) : Prop :=
    exists e0 rsubs e1 cd rest,
      subs = map rsub_subsection rsubs /\ forallb rsub_ok rsubs = true /\ clean_tr tr /\
      at_off f hdr o = render_table e0 rsubs e1 ++ fst (rv (VDict (tr ++ prev_entry prev)) cd) ++ rest.

  Lemma is_xref_render_table e0 rsubs e1 t : is_xref_kw (render_table e0 rsubs e1 ++ t) = true.
  Proof. reflexivity. Qed.

  Lemma dict_int_prev tr prev : clean_tr tr -> dict_int (tr ++ prev_entry prev) k_Prev = Ok prev.
  Proof.
    intros [H1 _]. unfold dict_int. rewrite dict_get_app, H1. destruct prev; reflexivity.
  Qed.

  Lemma dict_get_xrefstm tr prev : clean_tr tr -> dict_get (tr ++ prev_entry prev) k_XRefStm = None.
  Proof. intros [_ H2]. rewrite dict_get_app, H2. destruct prev; reflexivity. Qed.

  Lemma bread_table_section f hdr o subs tr prev seen m :
    table_image f hdr o subs tr prev ->
    exists t', bread_section parse_value f hdr o seen m
               = Ok (apply_table_subs m (match prev with None => true | Some _ => false end) false subs, seen, t', prev)
               /\ keep_trailer t' = keep_trailer tr.
  Proof.
    intros (e0 & rsubs & e1 & cd & rest & -> & Hok & Hclean & Himg).
    unfold bread_section. rewrite Himg, is_xref_render_table.
    rewrite read_xref_table_render by (auto using rv_dict_stops).
    rewrite Hparse. rewrite (dict_get_xrefstm _ _ Hclean). rewrite (dict_int_prev _ _ Hclean).
    rewrite read_xref_table_render by (auto using rv_dict_stops).
    rewrite Hparse. rewrite (dict_int_prev _ _ Hclean).
    eexists. split; [reflexivity|].
    rewrite keep_trailer_app, keep_trailer_prev, app_nil_r. reflexivity.
  Qed.

  (* ---------- a cross-reference stream ---------- *)
  Definition stream_image (f : bytes) (hdr : nat) (o : Z) (subs : list stmsub) (dchain : trailer) (prev : option Z) : Prop :=
    exists xnum sepA sepB s1 cd s2 e0 e1 s3 w0 w1 w2 rest,
      is_sep1 sepA /\ is_sep1 sepB /\ is_sep s1 /\ is_sep s2 /\ is_sep s3 /\
      eol_before_data e0 /\ sep_after_data e1 /\ (xnum < 16777216)%N /\
      has_dkey dchain k_Length = false /\ has_dkey dchain k_Filter = false /\ has_dkey dchain k_Prev = false /\
      check_xref_dict (dchain ++ prev_entry prev) (length (encode_stm_subs w0 w1 w2 subs)) = Ok (w0, w1, w2, index_of subs) /\
      (0 < w0 + w1 + w2)%nat /\
      forallb (fun s : stmsub => forallb (entry_fits w0 w1 w2) (snd s)) subs = true /\
      at_off f hdr o =
        fmt_N xnum ++ sepA ++ fmt_N 0 ++ sepB ++ kw_obj ++ s1
        ++ fst (rv (VDict ((dchain ++ prev_entry prev) ++ [(k_Length, VInt (Z.of_nat (length (encode_stm_subs w0 w1 w2 subs))))])) cd)
        ++ s2 ++ kw_stream ++ e0 ++ encode_stm_subs w0 w1 w2 subs ++ e1 ++ Seq.kw_endstream ++ s3 ++ Seq.kw_endobj ++ rest.

  Lemma has_dkey_prev_entry prev k : bytes_eqb k_Prev k = false -> has_dkey (prev_entry prev) k = false.
  Proof. intros H. destruct prev; cbn [prev_entry has_dkey]; [rewrite H|]; reflexivity. Qed.

  Lemma has_dkey_app d1 d2 k : has_dkey (d1 ++ d2) k = has_dkey d1 k || has_dkey d2 k.
  Proof. induction d1 as [|[k' v] d1 IH]; cbn; [reflexivity|]. rewrite IH, orb_assoc. reflexivity. Qed.

  Lemma bread_stream_image f hdr o subs dchain prev m :
    stream_image f hdr o subs dchain prev ->
    bread_stream parse_value m (at_off f hdr o) = Ok (apply_stm_subs m subs, dchain ++ prev_entry prev)
    /\ is_xref_kw (at_off f hdr o) = false.
  Proof.
    intros (xnum & sepA & sepB & s1 & cd & s2 & e0 & e1 & s3 & w0 & w1 & w2 & rest &
            HA1 & HB1 & H1 & H2 & H3 & He0 & He1 & Hx & HL & HF & HP & Hchk & Hw & Hfit & Himg).
    set (data := encode_stm_subs w0 w1 w2 subs) in *.
    set (d0 := dchain ++ prev_entry prev) in *.
    rewrite Himg. split.
    2:{ destruct (fmt_N_hd xnum (sepA ++ fmt_N 0 ++ sepB ++ kw_obj ++ s1 ++
            fst (rv (VDict (d0 ++ [(k_Length, VInt (Z.of_nat (length data)))])) cd) ++ s2 ++ kw_stream ++ e0 ++ data ++ e1 ++
            Seq.kw_endstream ++ s3 ++ Seq.kw_endobj ++ rest)) as (c0 & t0 & -> & Hc0).
        unfold is_xref_kw, kw_xref. cbn [has_prefix]. unfold is_digit in Hc0.
        destruct (N.eqb_spec 120 c0); [lia|reflexivity]. }
    unfold bread_stream.
    (* object number *)
    pose proof HA1 as [HA _]. pose proof HB1 as [HB _].
    rewrite read_integer_fmt_sep by (auto; lia).
    (* generation *)
    rewrite (read_integer_skip _ _ (HA _)).
    rewrite read_integer_fmt_sep by (auto; reflexivity).
    rewrite HB. rewrite skip_ws_stops by (cbn; split; reflexivity).
    rewrite skip_string_self.
    rewrite H1. rewrite skip_ws_stops by apply rv_dict_stops.
    assert (Hr : in_range_ref (Z.of_N xnum) (Z.of_N 0) = true).
    { unfold in_range_ref. change maxXRefSize with 16777216%Z. change maxGeneration with 65535%Z. lia. }
    rewrite Hr. cbn [negb].
    rewrite Hparse.
    rewrite H2. rewrite skip_ws_stops by (cbn; split; reflexivity).
    rewrite skip_string_self.
    assert (HL0 : has_dkey d0 k_Length = false).
    { unfold d0. rewrite has_dkey_app, HL, has_dkey_prev_entry by reflexivity. reflexivity. }
    assert (Hdecl : dict_get (d0 ++ [(k_Length, VInt (Z.of_nat (length data)))]) k_Length = Some (VInt (Z.of_nat (length data)))).
    { rewrite dict_get_app, (dict_get_none _ _ HL0). reflexivity. }
    rewrite Hdecl.
    change Seq.kw_endstream with Extent.kw_endstream. change Seq.kw_endobj with Extent.kw_endobj.
    rewrite stream_obj_exact by assumption.
    rewrite skipn_app_exact by reflexivity. rewrite firstn_app_exact by reflexivity.
    assert (Hrem : dict_remove (d0 ++ [(k_Length, VInt (Z.of_nat (length data)))]) k_Length = d0).
    { rewrite dict_remove_app, (dict_remove_absent _ _ HL0). cbn. apply app_nil_r. }
    rewrite Hrem.
    assert (HF0 : dict_get d0 k_Filter = None).
    { apply dict_get_none. unfold d0. rewrite has_dkey_app, HF, has_dkey_prev_entry by reflexivity. reflexivity. }
    rewrite HF0. fold data. rewrite Hchk.
    rewrite <- (app_nil_r data). unfold data. rewrite decode_xref_stream_render by assumption. reflexivity.
  Qed.

  Lemma dict_int_prev_stream dchain prev :
    has_dkey dchain k_Prev = false -> dict_int (dchain ++ prev_entry prev) k_Prev = Ok prev.
  Proof.
    intros H. unfold dict_int. rewrite dict_get_app, (dict_get_none _ _ H). destruct prev; reflexivity.
  Qed.

  Lemma bread_stream_section f hdr o subs dchain prev seen m :
    stream_image f hdr o subs dchain prev ->
    exists t', bread_section parse_value f hdr o seen m = Ok (apply_stm_subs m subs, seen, t', prev)
               /\ keep_trailer t' = keep_trailer dchain.
  Proof.
    intros Himg. pose proof Himg as (_&_&_&_&_&_&_&_&_&_&_&_&_&_&_&_&_&_&_&_&_&_&_&HP&_).
    destruct (bread_stream_image f hdr o subs dchain prev m Himg) as [Hb Hx].
    unfold bread_section. rewrite Hx, Hb. rewrite dict_int_prev_stream by exact HP.
    eexists. split; [reflexivity|].
    rewrite keep_trailer_app, keep_trailer_prev, app_nil_r. reflexivity.
  Qed.

  (* ---------- a hybrid section: a classic table whose trailer points to an xref stream ---------- *)
  Definition xrefstm_entry (so : Z) : list (bytes * value) := [(k_XRefStm, VInt so)].

  Definition hybrid_image (f : bytes) (hdr : nat) (o : Z) (subs : list subsection) (so : Z) (ssubs : list stmsub)
             (tr : trailer) (prev : option Z) : Prop :=
    (exists d, keep_trailer d = [] /\ stream_image f hdr so ssubs d None) /\
    exists e0 rsubs e1 cd rest,
      subs = map rsub_subsection rsubs /\ forallb rsub_ok rsubs = true /\ clean_tr tr /\
      at_off f hdr o = render_table e0 rsubs e1
                       ++ fst (rv (VDict (tr ++ xrefstm_entry so ++ prev_entry prev)) cd) ++ rest.

  Lemma bread_hybrid_section f hdr o subs so ssubs tr prev seen m :
    hybrid_image f hdr o subs so ssubs tr prev ->
    let allow := match prev with None => true | Some _ => false end in
    exists t', bread_section parse_value f hdr o seen m
               = (if zmem so seen then Ok (apply_table_subs m allow false subs, seen, t', prev)
                  else Ok (apply_table_subs (apply_stm_subs m ssubs) allow false subs, so :: seen, t', prev))
               /\ keep_trailer t' = keep_trailer tr.
  Proof.
    intros [(d & _ & Hstm) (e0 & rsubs & e1 & cd & rest & -> & Hok & Hclean & Himg)] allow.
    destruct Hclean as [HcP HcX].
    unfold bread_section. rewrite Himg, is_xref_render_table.
    rewrite read_xref_table_render by (auto using rv_dict_stops).
    rewrite Hparse.
    assert (HX : dict_get (tr ++ xrefstm_entry so ++ prev_entry prev) k_XRefStm = Some (VInt so)).
    { rewrite dict_get_app, HcX. reflexivity. }
    assert (HP : dict_int (tr ++ xrefstm_entry so ++ prev_entry prev) k_Prev = Ok prev).
    { unfold dict_int. rewrite dict_get_app, HcP. cbn [xrefstm_entry app dict_get].
      change (bytes_eqb k_XRefStm k_Prev) with false. cbv beta iota. destruct prev; reflexivity. }
    rewrite HX.
    exists (tr ++ xrefstm_entry so ++ prev_entry prev).
    split.
    - destruct (zmem so seen).
      + rewrite HP. rewrite read_xref_table_render by (auto using rv_dict_stops). rewrite Hparse, HP. reflexivity.
      + destruct (bread_stream_image f hdr so ssubs d None m Hstm) as [Hb _]. rewrite Hb.
        rewrite HP. rewrite read_xref_table_render by (auto using rv_dict_stops). rewrite Hparse, HP. reflexivity.
    - rewrite !keep_trailer_app, keep_trailer_prev, app_nil_r. cbn. try rewrite app_nil_r. reflexivity.
  Qed.

  (* ---------- the loop ---------- *)
  Definition sec_agree (f : bytes) (hdr : nat) (lay : layout) : Prop :=
    forall o seen m m' seen' t prev,
      read_section true true lay o seen m = Ok (m', seen', t, prev) ->
      exists t', bread_section parse_value f hdr o seen m = Ok (m', seen', t', prev)
                 /\ keep_trailer t' = keep_trailer t.

  Lemma loop_agree f hdr lay size : sec_agree f hdr lay ->
    forall fuel start seen m tr r,
      read_loop true true fuel lay size start seen m tr = Ok r ->
      bread_loop parse_value fuel f hdr size start seen m tr = Ok r.
  Proof.
    intros Hag. induction fuel as [|fuel IH]; intros start seen m tr r H; cbn [read_loop bread_loop] in *; [discriminate|].
    destruct (zmem start seen); [exact H|].
    destruct (read_section true true lay start (start :: seen) m) as [[[[m' seen'] t] prev]|] eqn:E; [|discriminate].
    destruct (Hag _ _ _ _ _ _ _ E) as (t' & -> & Hk).
    rewrite Hk.
    destruct prev as [p|]; [|exact H].
    destruct (prev_ok size p); [|exact H]. apply IH. exact H.
  Qed.

  (* ---------- chains ---------- *)
  Definition rsec_image (f : bytes) (hdr : nat) (r : rsec) (prev : option Z) : Prop :=
    match r with
    | RTable o subs tr => table_image f hdr o subs tr prev
    | RStream o subs d => stream_image f hdr o subs d prev
    | RHybrid o subs so ssubs tr => hybrid_image f hdr o subs so ssubs tr prev
    end.
  Fixpoint chain_image (f : bytes) (hdr : nat) (c : chain) : Prop :=
    match c with
    | [] => True
    | r :: rest => rsec_image f hdr r (prev_of rest) /\ chain_image f hdr rest
    end.

  Lemma sec_at_layout_mem : forall c z sec, sec_at (layout_of c) z = Some sec -> In z (flat_map rsec_offsets c).
  Proof.
    induction c as [|r rest IH]; intros z sec H; [discriminate|].
    cbn [layout_of flat_map] in *. rewrite sec_at_app in H. apply in_or_app.
    destruct (sec_at (rsec_layout r (prev_of rest)) z) as [s0|] eqn:E; [left|right; eapply IH; eauto].
    destruct r as [o subs tr|o subs d|o subs so ssubs tr]; cbn [rsec_layout sec_at rsec_offsets In] in *.
    - destruct (Z.eqb_spec o z); [auto|discriminate].
    - destruct (Z.eqb_spec o z); [auto|discriminate].
    - destruct (Z.eqb_spec o z); [auto|]. destruct (Z.eqb_spec so z); [auto|discriminate].
  Qed.

  Lemma sec_at_rsec_none r prev z : ~ In z (rsec_offsets r) -> sec_at (rsec_layout r prev) z = None.
  Proof.
    destruct r as [o subs tr|o subs d|o subs so ssubs tr]; cbn [rsec_layout sec_at rsec_offsets In]; intros H.
    - destruct (Z.eqb_spec o z); [tauto|reflexivity].
    - destruct (Z.eqb_spec o z); [tauto|reflexivity].
    - destruct (Z.eqb_spec o z); [tauto|]. destruct (Z.eqb_spec so z); [tauto|reflexivity].
  Qed.

  (* what lies at an offset of the layout: the main section of a chain element, or the stream
     of a hybrid element *)
  Definition sec_of (c : chain) (r : rsec) (prev : option Z) (o : Z) (sec : section) : Prop :=
    match r with
    | RTable o' subs tr => o = o' /\ sec = STable {| t_subs := subs; t_trailer := tr; t_prev := prev; t_xrefstm := None |}
    | RStream o' subs d => o = o' /\ sec = SStream {| s_subs := subs; s_trailer := d; s_prev := prev |}
    | RHybrid o' subs so ssubs tr =>
      (o = o' /\ sec = STable {| t_subs := subs; t_trailer := tr; t_prev := prev; t_xrefstm := Some so |}
       /\ sec_at (layout_of c) so = Some (SStream {| s_subs := ssubs; s_trailer := []; s_prev := None |}))
      \/ (o = so /\ sec = SStream {| s_subs := ssubs; s_trailer := []; s_prev := None |})
    end.

  Lemma chain_sec_at f hdr : forall c o sec,
    chain_image f hdr c -> znodupb (flat_map rsec_offsets c) = true -> sec_at (layout_of c) o = Some sec ->
    exists r prev, rsec_image f hdr r prev /\ sec_of c r prev o sec.
  Proof.
    induction c as [|r rest IH]; intros o sec Hc Hnd Hs; [discriminate|].
    destruct Hc as [Hr Hrest]. cbn [layout_of flat_map] in Hs, Hnd.
    apply znodupb_app in Hnd as (Hndr & Hndrest & Hdisj).
    rewrite sec_at_app in Hs.
    destruct (sec_at (rsec_layout r (prev_of rest)) o) as [s0|] eqn:E.
    - inversion Hs; subst s0. exists r, (prev_of rest). split; [exact Hr|].
      destruct r as [o' subs tr|o' subs d|o' subs so ssubs tr]; cbn [rsec_layout sec_at rsec_offsets sec_of] in *.
      + destruct (Z.eqb_spec o' o); [|discriminate]. inversion E; subst. split; reflexivity.
      + destruct (Z.eqb_spec o' o); [|discriminate]. inversion E; subst. split; reflexivity.
      + cbn [znodupb zmem] in Hndr. rewrite orb_false_r in Hndr. apply andb_true_iff in Hndr as [Hne _].
        apply negb_true_iff in Hne. cbn [layout_of rsec_layout app sec_at].
        destruct (Z.eqb_spec o' o).
        * inversion E; subst. left. split; [reflexivity|]. split; [reflexivity|].
          rewrite Hne. rewrite Z.eqb_refl. reflexivity.
        * destruct (Z.eqb_spec so o); [|discriminate]. inversion E; subst. right. split; reflexivity.
    - destruct (IH o sec Hrest Hndrest Hs) as (r' & p' & Himg & Hsec). exists r', p'. split; [exact Himg|].
      destruct r' as [o' subs tr|o' subs d|o' subs so ssubs tr]; cbn [sec_of] in *; try exact Hsec.
      destruct Hsec as [(-> & -> & Hso)|Hsec]; [left|right; exact Hsec].
      split; [reflexivity|]. split; [reflexivity|].
      cbn [layout_of]. rewrite sec_at_app.
      rewrite sec_at_rsec_none; [exact Hso|].
      intros Hin. apply (Hdisj so Hin). eapply sec_at_layout_mem. exact Hso.
  Qed.

  Lemma chain_sec_agree f hdr c :
    chain_image f hdr c -> znodupb (flat_map rsec_offsets c) = true -> sec_agree f hdr (layout_of c).
  Proof.
    intros Hc Hnd o seen m m' seen' t prev H. unfold read_section in H.
    destruct (sec_at (layout_of c) o) as [sec|] eqn:E; [|discriminate].
    destruct (chain_sec_at f hdr c o sec Hc Hnd E) as (r & p & Himg & Hsec).
    destruct r as [o' subs tr|o' subs d|o' subs so ssubs tr]; cbn [rsec_image sec_of] in *.
    - destruct Hsec as [-> ->]. cbn [t_subs t_prev t_xrefstm t_trailer negb] in H. inversion H; subst.
      apply bread_table_section. exact Himg.
    - destruct Hsec as [-> ->]. cbn [s_subs s_trailer s_prev] in H. inversion H; subst.
      apply bread_stream_section. exact Himg.
    - destruct Hsec as [(-> & -> & Hso)|[-> ->]].
      + cbn [t_subs t_prev t_xrefstm t_trailer negb] in H.
        destruct (bread_hybrid_section f hdr o' subs so ssubs tr p seen m Himg) as (t' & Hb & Hk).
        exists t'. split; [|].
        * rewrite Hb. destruct (zmem so seen); [inversion H; subst; reflexivity|].
          rewrite Hso in H. cbn [s_subs] in H. inversion H; subst. reflexivity.
        * rewrite Hk. destruct (zmem so seen); [inversion H; subst; reflexivity|].
          rewrite Hso in H. inversion H; subst. reflexivity.
      + cbn [s_subs s_trailer s_prev] in H. injection H as <- <- <- <-.
        destruct Himg as [(d & Hkd & Hstm) _].
        destruct (bread_stream_section f hdr so ssubs d None seen m Hstm) as (t' & Hb & Hk).
        exists t'. split; [exact Hb|]. rewrite Hk, Hkd. reflexivity.
  Qed.

  Lemma bread_loop_fuel f hdr size : forall fuel start seen m tr r,
    bread_loop parse_value fuel f hdr size start seen m tr = Ok r ->
    bread_loop parse_value (S fuel) f hdr size start seen m tr = Ok r.
  Proof.
    induction fuel as [|fuel IH]; intros start seen m tr r H; [discriminate|].
    cbn [bread_loop] in H. change (bread_loop parse_value (S (S fuel)) f hdr size start seen m tr) with
      (if zmem start seen then Ok (m, match tr with Some t => t | None => [] end)
       else match bread_section parse_value f hdr start (start :: seen) m with
            | Err c => Err c
            | Ok (m', seen', t, prev) =>
              let tr' := match tr with Some _ => tr | None => Some (keep_trailer t) end in
              match prev with
              | None => Ok (m', match tr' with Some t => t | None => [] end)
              | Some p => if prev_ok size p then bread_loop parse_value (S fuel) f hdr size p seen' m' tr' else Err Malformed
              end
            end).
    destruct (zmem start seen); [exact H|].
    destruct (bread_section parse_value f hdr start (start :: seen) m) as [[[[m' seen'] t] prev]|]; [|exact H].
    cbv zeta in *. destruct prev as [p|]; [|exact H]. destruct (prev_ok size p); [|exact H].
    apply IH. exact H.
  Qed.
End Agree.
