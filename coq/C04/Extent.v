(* C04 - the extent of a stream's data (scanner.go: ReadStreamData, endstreamAt,
   Find(endstreamPat), trimTrailingEOL).  Definitions only.

   [stream_extent s declared]: s is the input just after the keyword "stream";
   declared is the value /Length resolves to (None: absent or not resolvable to an
   integer).  The result is (k, l): the data are the l bytes that start k bytes
   into s.  Go's regexp [\r\n]endstream is modelled by find_eol_endstream
   (hypothesis H-regexp: leftmost match). *)
From Coq Require Import List NArith ZArith Bool.
From GoPdf.Base Require Import Bytes Res.
From GoPdf.C04 Require Import XRef XRefText.
Import ListNotations.
Open Scope N_scope.

Definition kw_endstream : bytes := [101; 110; 100; 115; 116; 114; 101; 97; 109].

Fixpoint drop_space (s : bytes) : bytes :=
  match s with
  | b :: s' => if is_space b then drop_space s' else s
  | [] => []
  end.

(* endstreamAt(r, pos): after any run of white space, the keyword endstream *)
Definition endstream_at (data : bytes) (pos : nat) : bool :=
  has_prefix kw_endstream (drop_space (skipn pos data)).

(* leftmost match of [\r\n]endstream *)
Fixpoint find_eol_endstream (s : bytes) : option nat :=
  match s with
  | [] => None
  | b :: s' =>
    if is_eol b && has_prefix kw_endstream s' then Some 0%nat
    else option_map S (find_eol_endstream s')
  end.

(* trimTrailingEOL: [before] are the bytes in front of the end-of-line byte [m] that the
   regexp matched directly in front of endstream.  Exactly one end-of-line marker is removed:
   when m is the LF of a CR LF pair the CR belongs to the marker; everything else is data
   (also when it ends in an end-of-line itself). *)
Definition trim_len (before : bytes) (m : byte) : nat :=
  if m =? LF then
    match rev before with
    | y :: _ => if y =? CR then (length before - 1)%nat else length before
    | [] => 0%nat
    end
  else length before.
Definition trim_at (data : bytes) (p : nat) : nat := trim_len (firstn p data) (nth p data 0).

Definition stream_extent (s : bytes) (declared : option Z) : res (nat * nat) :=
  let k :=
    match s with
    | b :: s' =>
      if b =? LF then Some 1%nat
      else if b =? CR then
        match s' with
        | c :: _ => if c =? LF then Some 2%nat else Some 1%nat
        | [] => Some 1%nat
        end
      else None
    | [] => None
    end in
  match k with
  | None => Err Malformed                       (* stream does not start with newline *)
  | Some k =>
    let data := skipn k s in
    let length_ok :=
      match declared with
      | Some d =>
        if (Z.leb 0 d && Z.leb d (Z.of_nat (length data)))%Z then endstream_at data (Z.to_nat d) else false
      | None => false
      end in
    if length_ok then
      match declared with Some d => Ok (k, Z.to_nat d) | None => Err Panic end
    else
      match find_eol_endstream data with
      | None => Err Malformed                   (* unexpected EOF while reading Stream *)
      | Some p => Ok (k, trim_at data p)
      end
  end.

(* The rest of ReadIndirectObject for a stream object: after the data comes
   (white space and) "endstream", then white space and "endobj".  Returns the
   extent when the whole object reads, as Reader.Get observes it. *)
Definition kw_endobj : bytes := [101; 110; 100; 111; 98; 106].
Definition stream_obj (s : bytes) (declared : option Z) : res (nat * nat) :=
  match stream_extent s declared with
  | Err c => Err c
  | Ok (k, l) =>
    let data := skipn k s in
    (* where the scanner stands after the keyword endstream *)
    let after :=
      match find_eol_endstream data with
      | Some p =>
        (* was the declared length used?  then the scanner skipped l bytes and white space *)
        match declared with
        | Some d =>
          if (Z.leb 0 d && Z.leb d (Z.of_nat (length data)))%Z && endstream_at data (Z.to_nat d)
          then match skip_ws (skipn l data) with Ok t => skip_string kw_endstream t | Err c => Err c end
          else Ok (skipn (p + 10) data)
        | None => Ok (skipn (p + 10) data)
        end
      | None =>
        match skip_ws (skipn l data) with Ok t => skip_string kw_endstream t | Err c => Err c end
      end in
    match after with
    | Err c => Err c
    | Ok t =>
      match skip_ws t with
      | Err _ => Err Malformed
      | Ok t' => match skip_string kw_endobj t' with Ok _ => Ok (k, l) | Err c => Err c end
      end
    end
  end.
