(* C04 - round trips of the byte level: decoding inverts rendering. *)
From Coq Require Import List NArith ZArith Bool Lia ZifyN ZifyNat ZifyBool.
From GoPdf.Base Require Import Bytes Res.
From GoPdf.Gen Require Import Gen_Consts.
From GoPdf.C04 Require Import XRef XRefText.
Import ListNotations.
Open Scope N_scope.

(* the hand-written white space predicate is the translated table *)
Lemma is_space_table : forall b, b < 256 -> is_space b = is_space_gen b.
Proof.
  assert (H : forallb (fun k => Bool.eqb (is_space (N.of_nat k)) (is_space_gen (N.of_nat k))) (seq 0 256) = true)
    by (vm_compute; reflexivity).
  intros b Hb. rewrite forallb_forall in H.
  specialize (H (N.to_nat b)). rewrite N2Nat.id in H.
  apply eqb_prop, H, in_seq. lia.
Qed.

(* ---------- lists ---------- *)
Lemma firstn_app_exact {A} (l1 l2 : list A) n : length l1 = n -> firstn n (l1 ++ l2) = l1.
Proof. intros <-. rewrite firstn_app, Nat.sub_diag, firstn_all. cbn. apply app_nil_r. Qed.
Lemma skipn_app_exact {A} (l1 l2 : list A) n : length l1 = n -> skipn n (l1 ++ l2) = l2.
Proof. intros <-. rewrite skipn_app, Nat.sub_diag, skipn_all. reflexivity. Qed.

(* ---------- decimal digits ---------- *)
Lemma fmt_dec_length k : forall n, length (fmt_dec k n) = k.
Proof. induction k; intros n; cbn [fmt_dec]; [reflexivity|]. rewrite app_length, IHk. cbn. lia. Qed.

Lemma is_digit_mod n : is_digit (48 + n mod 10) = true.
Proof. unfold is_digit. pose proof (N.mod_upper_bound n 10). lia. Qed.

Lemma fmt_dec_digits k : forall n, forallb is_digit (fmt_dec k n) = true.
Proof.
  induction k; intros n; cbn [fmt_dec]; [reflexivity|].
  rewrite forallb_app, IHk. cbn [forallb]. rewrite is_digit_mod. reflexivity.
Qed.

Lemma parse_dec_acc_app : forall s t acc,
  forallb is_digit s = true ->
  parse_dec_acc acc (s ++ t) =
  match parse_dec_acc acc s with Some v => parse_dec_acc v t | None => None end.
Proof.
  induction s as [|b s IH]; intros t acc H; cbn [app parse_dec_acc forallb] in *; [reflexivity|].
  apply andb_true_iff in H as [Hb Hs]. rewrite Hb. apply IH. exact Hs.
Qed.

Lemma parse_fmt_dec k : forall n acc,
  n < 10 ^ N.of_nat k -> parse_dec_acc acc (fmt_dec k n) = Some (acc * 10 ^ N.of_nat k + n).
Proof.
  induction k; intros n acc Hn.
  - cbn in *. f_equal. lia.
  - cbn [fmt_dec]. rewrite parse_dec_acc_app by apply fmt_dec_digits.
    rewrite Nat2N.inj_succ, N.pow_succ_r' in Hn.
    rewrite IHk by (apply N.div_lt_upper_bound; lia).
    cbn [parse_dec_acc]. rewrite is_digit_mod. f_equal.
    rewrite Nat2N.inj_succ, N.pow_succ_r'.
    pose proof (N.div_mod n 10). lia.
Qed.

Lemma parse_udec_fmt_dec k n : (0 < k)%nat -> n < 10 ^ N.of_nat k -> parse_udec (fmt_dec k n) = Some n.
Proof.
  intros Hk Hn. unfold parse_udec.
  destruct (fmt_dec k n) eqn:E.
  - pose proof (fmt_dec_length k n) as L. rewrite E in L. cbn in L. lia.
  - rewrite <- E, parse_fmt_dec by exact Hn. f_equal.
Qed.

Lemma digit_not_sign b : is_digit b = true -> (b =? 43) = false /\ (b =? 45) = false /\ (b =? 37) = false /\ is_space b = false.
Proof. unfold is_digit, is_space. lia. Qed.

Lemma parse_int64_digits s n :
  s <> [] -> forallb is_digit s = true -> parse_udec s = Some n -> (Z.of_N n < 2 ^ 63)%Z ->
  parse_int64 s = Some (Z.of_N n).
Proof.
  intros Hne Hd Hp Hr. unfold parse_int64.
  destruct s as [|b t]; [congruence|].
  cbn [forallb] in Hd. apply andb_true_iff in Hd as [Hb _].
  destruct (digit_not_sign b Hb) as (-> & -> & _).
  rewrite Hp. cbn [option_map]. unfold int64_ok.
  destruct (Z.leb_spec (- 2 ^ 63)%Z (Z.of_N n)); [|lia].
  destruct (Z.ltb_spec (Z.of_N n) (2 ^ 63)%Z); [reflexivity|lia].
Qed.

(* ---------- one 20-byte line ---------- *)
Definition raw_ok (e : rawent) : bool :=
  (Z.leb 0 (re_a e) && Z.ltb (re_a e) (10 ^ 10))%Z && (re_b e <=? max_generation).

Lemma list_len10 (l : bytes) : length l = 10%nat ->
  exists a b c d e f g h i j, l = [a; b; c; d; e; f; g; h; i; j].
Proof.
  do 10 (destruct l as [|? l]; [discriminate|]). destruct l; [|discriminate].
  intros _. repeat eexists.
Qed.
Lemma list_len5 (l : bytes) : length l = 5%nat -> exists a b c d e, l = [a; b; c; d; e].
Proof.
  do 5 (destruct l as [|? l]; [discriminate|]). destruct l; [|discriminate].
  intros _. repeat eexists.
Qed.

Lemma render_line_length e eol : length (render_line e eol) = 20%nat.
Proof.
  unfold render_line. rewrite !app_length, !fmt_dec_length. destruct eol; reflexivity.
Qed.

Lemma dec_line_render e eol rest :
  raw_ok e = true -> dec_line (firstn 20 (render_line e eol ++ rest)) = Ok (e, 20%nat).
Proof.
  intros Hok. rewrite firstn_app_exact by apply render_line_length.
  unfold raw_ok in Hok. apply andb_true_iff in Hok as [Ha Hb]. apply andb_true_iff in Ha as [Ha0 Ha1].
  apply Z.leb_le in Ha0. apply Z.ltb_lt in Ha1. apply N.leb_le in Hb.
  assert (Hmg : max_generation = 65535) by reflexivity.
  assert (HA : parse_int64 (fmt_dec 10 (Z.to_N (re_a e))) = Some (re_a e)).
  { rewrite (parse_int64_digits _ (Z.to_N (re_a e))).
    - rewrite Z2N.id by exact Ha0. reflexivity.
    - intros E. pose proof (fmt_dec_length 10 (Z.to_N (re_a e))) as L. rewrite E in L. discriminate.
    - apply fmt_dec_digits.
    - apply parse_udec_fmt_dec; [lia|]. change (10 ^ N.of_nat 10) with 10000000000. lia.
    - rewrite Z2N.id by exact Ha0. lia. }
  assert (HB : parse_udec (fmt_dec 5 (re_b e)) = Some (re_b e)).
  { apply parse_udec_fmt_dec; [lia|]. change (10 ^ N.of_nat 5) with 100000. lia. }
  unfold render_line.
  destruct (list_len10 _ (fmt_dec_length 10 (Z.to_N (re_a e)))) as (a0&a1&a2&a3&a4&a5&a6&a7&a8&a9&EA).
  destruct (list_len5 _ (fmt_dec_length 5 (re_b e))) as (b0&b1&b2&b3&b4&EB).
  rewrite EA, EB in *.
  unfold dec_line.
  destruct eol; cbn [app firstn skipn nth line_eol_bytes]; rewrite HA, HB;
    (destruct (N.leb_spec (re_b e) max_generation); [|lia]);
    destruct e as [a b n]; cbn [re_a re_b re_n]; destruct n; reflexivity.
Qed.

(* ---------- the lines of one subsection ---------- *)
Lemma render_lines_cons x es : render_lines (x :: es) = render_line (fst x) (snd x) ++ render_lines es.
Proof. reflexivity. Qed.

Lemma dec_lines_render allow start : forall (es : list (rawent * line_eol)) fuel m i offby rest,
  (length es <= fuel)%nat ->
  forallb (fun x => raw_ok (fst x)) es = true ->
  dec_lines fuel m allow (render_lines es ++ rest) start i (N.of_nat (length es)) offby
  = Ok (apply_sub m allow start i offby (map fst es), rest).
Proof.
  induction es as [|[e eol] es IH]; intros fuel m i offby rest Hf Hok.
  - destruct fuel; reflexivity.
  - cbn [length] in Hf. destruct fuel as [|fuel]; [lia|].
    cbn [forallb fst] in Hok. apply andb_true_iff in Hok as [He Hes].
    rewrite render_lines_cons, <- app_assoc. cbn [fst snd length map apply_sub].
    cbn [dec_lines].
    replace (N.of_nat (S (length es)) =? 0) with false by lia.
    replace (N.of_nat (S (length es)) - 1) with (N.of_nat (length es)) by lia.
    assert (Hlen : Nat.ltb (length (render_line e eol ++ render_lines es ++ rest)) 20 = false).
    { apply Nat.ltb_ge. rewrite app_length, render_line_length. lia. }
    rewrite Hlen.
    destruct (xknown m i).
    + rewrite skipn_app_exact by apply render_line_length. apply IH; [lia|exact Hes].
    + rewrite dec_line_render by exact He.
      rewrite skipn_app_exact by apply render_line_length.
      apply IH; [lia|exact Hes].
Qed.

(* ---------- decimal numbers without leading zeros ---------- *)
Lemma strip0_digits s : forallb is_digit s = true -> forallb is_digit (strip0 s) = true.
Proof.
  induction s as [|b s IH]; cbn [strip0 forallb]; [reflexivity|]. intros H.
  destruct (b =? 48); [apply IH; apply andb_true_iff in H; tauto|exact H].
Qed.
Lemma strip0_parse s : parse_dec_acc 0 (strip0 s) = parse_dec_acc 0 s.
Proof.
  induction s as [|b s IH]; cbn [strip0]; [reflexivity|].
  destruct (N.eqb_spec b 48) as [->|]; [|reflexivity]. rewrite IH. reflexivity.
Qed.
Lemma strip0_length s : (length (strip0 s) <= length s)%nat.
Proof. induction s as [|b s IH]; cbn [strip0 length]; [lia|]. destruct (b =? 48); cbn [length]; lia. Qed.

Lemma log_bound n : n < 10 ^ N.of_nat (S (N.to_nat (N.log2 n / 3))).
Proof.
  rewrite Nat2N.inj_succ, N2Nat.id.
  destruct (N.eq_dec n 0) as [->|Hn]; [cbn; lia|].
  destruct (N.log2_spec n) as [_ Hlt]; [lia|].
  eapply N.lt_le_trans; [exact Hlt|].
  set (l := N.log2 n). set (q := l / 3).
  transitivity (2 ^ (3 * N.succ q)).
  - apply N.pow_le_mono_r; [lia|]. pose proof (N.div_mod l 3). pose proof (N.mod_upper_bound l 3). lia.
  - rewrite N.pow_mul_r. apply N.pow_le_mono_l. cbn. lia.
Qed.

Lemma fmt_N_spec n :
  fmt_N n <> [] /\ forallb is_digit (fmt_N n) = true /\ parse_udec (fmt_N n) = Some n
  /\ (length (fmt_N n) <= S (N.to_nat (N.log2 n / 3)))%nat.
Proof.
  unfold fmt_N. set (k := S (N.to_nat (N.log2 n / 3))).
  pose proof (log_bound n) as Hb. fold k in Hb.
  pose proof (strip0_parse (fmt_dec k n)) as Hp. rewrite parse_fmt_dec in Hp by exact Hb.
  pose proof (strip0_digits _ (fmt_dec_digits k n)) as Hd.
  pose proof (strip0_length (fmt_dec k n)) as Hl. rewrite fmt_dec_length in Hl.
  destruct (strip0 (fmt_dec k n)) as [|b l] eqn:E.
  - cbn in Hp. inversion Hp. repeat split; try discriminate; try reflexivity.
    unfold k. cbn [length]. lia.
  - repeat split; try discriminate; auto.
Qed.

Lemma span_digits_app : forall d c rest,
  forallb is_digit d = true -> is_digit c = false -> span_digits (d ++ c :: rest) = (d, c :: rest).
Proof.
  induction d as [|b d IH]; intros c rest Hd Hc; cbn [app span_digits forallb] in *.
  - rewrite Hc. reflexivity.
  - apply andb_true_iff in Hd as [Hb Hd]. rewrite Hb, IH by auto. reflexivity.
Qed.

Definition hd_stops (s : bytes) : Prop :=
  match s with b :: _ => (b =? 37) = false /\ is_space b = false | [] => False end.

Lemma skip_ws_stops s : hd_stops s -> skip_ws s = Ok s.
Proof. destruct s as [|b s]; [intros []|]. intros [H1 H2]. unfold skip_ws. cbn. rewrite H1, H2. reflexivity. Qed.

Lemma skip_ws_eol e s : hd_stops s -> skip_ws (hdr_eol_bytes e ++ s) = Ok s.
Proof. intros H. apply skip_ws_stops in H. unfold skip_ws in *. destruct e; cbn; exact H. Qed.

Lemma read_integer_fmt n c rest :
  (Z.of_N n < 2 ^ 63)%Z -> is_digit c = false ->
  read_integer (fmt_N n ++ c :: rest) = Ok (Z.of_N n, c :: rest).
Proof.
  intros Hn Hc. destruct (fmt_N_spec n) as (Hne & Hd & Hp & Hl).
  unfold read_integer.
  destruct (fmt_N n) as [|b l] eqn:E; [congruence|].
  pose proof Hd as Hd'. cbn [forallb] in Hd'. apply andb_true_iff in Hd' as [Hb _].
  destruct (digit_not_sign b Hb) as (H43 & H45 & H37 & Hsp).
  rewrite skip_ws_stops by (cbn; auto).
  cbn [app]. rewrite H43, H45. cbn [orb].
  change (b :: l ++ c :: rest) with ((b :: l) ++ c :: rest).
  rewrite span_digits_app by auto.
  assert (Hlen : Nat.ltb (Z.to_nat maxNameBytes) (length (b :: l)) = false).
  { apply Nat.ltb_ge.
    assert (H22 : Nat.leb 22 (Z.to_nat maxNameBytes) = true) by (vm_compute; reflexivity).
    apply Nat.leb_le in H22.
    assert (N.log2 n < 63).
    { destruct (N.eq_dec n 0) as [->|]; [cbn; lia|]. apply N.log2_lt_pow2; lia. }
    assert (N.log2 n / 3 <= 21) by (apply N.lt_succ_r, N.div_lt_upper_bound; lia).
    lia. }
  rewrite Hlen.
  rewrite (parse_int64_digits _ n); auto.
Qed.

Lemma read_integer_sp_fmt n c rest :
  (Z.of_N n < 2 ^ 63)%Z -> is_digit c = false ->
  read_integer (SP :: fmt_N n ++ c :: rest) = Ok (Z.of_N n, c :: rest).
Proof.
  intros Hn Hc. pose proof (read_integer_fmt n c rest Hn Hc) as H.
  unfold read_integer, skip_ws in *. cbn [skip_ws_aux]. exact H.
Qed.

(* ---------- the subsection loop ---------- *)
Definition rsub_ok (s : rsub) : bool :=
  forallb (fun x => raw_ok (fst x)) (rs_lines s)
  && (rs_start s + N.of_nat (length (rs_lines s)) <=? max_xref_size)
  && (rs_start s <? max_xref_size).

Lemma hdr_eol_hd e s : exists c t, hdr_eol_bytes e ++ s = c :: t /\ is_digit c = false.
Proof. destruct e; cbn; eexists _, _; split; reflexivity. Qed.

Lemma fmt_N_hd n s : exists b t, fmt_N n ++ s = b :: t /\ is_digit b = true.
Proof.
  destruct (fmt_N_spec n) as (Hne & Hd & _). destruct (fmt_N n) as [|b l]; [congruence|].
  cbn [forallb] in Hd. apply andb_true_iff in Hd as [Hb _]. eexists _, _. split; [reflexivity|exact Hb].
Qed.

Lemma digit_hd_stops b t : is_digit b = true -> hd_stops (b :: t).
Proof. intros H. destruct (digit_not_sign b H) as (_ & _ & H1 & H2). split; assumption. Qed.

Lemma render_sub_hd s t : exists b u, render_sub s ++ t = b :: u /\ is_digit b = true.
Proof. unfold render_sub. rewrite <- app_assoc. apply fmt_N_hd. Qed.

Lemma render_lines_hd_stops es t : hd_stops t -> hd_stops (render_lines es ++ t).
Proof.
  destruct es as [|[e eol] es]; [auto|]. intros _.
  rewrite render_lines_cons. unfold render_line. cbn [fst].
  destruct (list_len10 _ (fmt_dec_length 10 (Z.to_N (re_a e)))) as (a0&a1&a2&a3&a4&a5&a6&a7&a8&a9&EA).
  pose proof (fmt_dec_digits 10 (Z.to_N (re_a e))) as Hd. rewrite EA in *.
  cbn [forallb] in Hd. apply andb_true_iff in Hd as [Hd _]. cbn [app]. apply digit_hd_stops. exact Hd.
Qed.

Lemma flat_render_hd_stops subs t : hd_stops t -> hd_stops (flat_map render_sub subs ++ t).
Proof.
  destruct subs as [|s subs]; [auto|]. intros _. cbn [flat_map]. rewrite <- app_assoc.
  destruct (render_sub_hd s (flat_map render_sub subs ++ t)) as (b & u & -> & Hb).
  apply digit_hd_stops. exact Hb.
Qed.

Lemma render_lines_length es : length (render_lines es) = (20 * length es)%nat.
Proof.
  induction es as [|x es IH]; [reflexivity|].
  rewrite render_lines_cons, app_length, render_line_length, IH. cbn [length]. lia.
Qed.

Lemma table_loop_render : forall subs fuel m allow t,
  (length subs < fuel)%nat ->
  forallb rsub_ok subs = true ->
  hd_stops t -> (match t with b :: _ => is_digit b = false | [] => True end) ->
  table_loop fuel m allow (flat_map render_sub subs ++ t)
  = Ok (apply_table_subs m allow false (map rsub_subsection subs), t).
Proof.
  induction subs as [|s subs IH]; intros fuel m allow t Hf Hok Hst Hnd.
  - destruct fuel as [|fuel]; [cbn in Hf; lia|]. cbn [flat_map app table_loop].
    destruct t as [|b t]; [reflexivity|]. rewrite Hnd. reflexivity.
  - destruct fuel as [|fuel]; [cbn in Hf; lia|].
    cbn [forallb] in Hok. apply andb_true_iff in Hok as [Hs Hok].
    unfold rsub_ok in Hs. apply andb_true_iff in Hs as [Hs Hlt]. apply andb_true_iff in Hs as [Hlines Hle].
    apply N.leb_le in Hle. apply N.ltb_lt in Hlt.
    assert (Hmx : max_xref_size = 16777216) by reflexivity.
    assert (HmxZ : maxXRefSize = 16777216%Z) by reflexivity.
    cbn [flat_map map]. rewrite <- app_assoc.
    set (more := flat_map render_sub subs ++ t).
    assert (Hmore : hd_stops more) by (apply flat_render_hd_stops; exact Hst).
    destruct (render_sub_hd s more) as (b & u & Eb & Hb).
    cbn [table_loop]. rewrite Eb, Hb, <- Eb.
    unfold render_sub. rewrite <- !app_assoc. cbn [app].
    rewrite read_integer_fmt by (try reflexivity; lia).
    destruct (hdr_eol_hd (rs_eol s) (render_lines (rs_lines s) ++ more)) as (c & v & Ec & Hc).
    rewrite Ec.
    rewrite read_integer_sp_fmt by (auto; lia).
    rewrite <- Ec.
    replace (Z.ltb (Z.of_N (rs_start s)) 0) with false by lia.
    replace (Z.ltb (Z.of_N (N.of_nat (length (rs_lines s)))) 0) with false by lia.
    replace (Z.leb maxXRefSize (Z.of_N (rs_start s))) with false by lia.
    replace (Z.ltb maxXRefSize (Z.of_N (rs_start s) + Z.of_N (N.of_nat (length (rs_lines s))))) with false by lia.
    cbn [orb].
    rewrite skip_ws_eol by (apply render_lines_hd_stops; exact Hmore).
    rewrite !N2Z.id.
    rewrite dec_lines_render; [|rewrite app_length, render_lines_length; lia|exact Hlines].
    rewrite skip_ws_stops by exact Hmore.
    unfold more. rewrite IH; auto; try (cbn [length] in Hf; lia).
Qed.

Lemma render_sub_nonempty s : (1 <= length (render_sub s))%nat.
Proof.
  destruct (render_sub_hd s []) as (b & u & E & _). rewrite app_nil_r in E. rewrite E. cbn. lia.
Qed.
Lemma flat_render_length subs : (length subs <= length (flat_map render_sub subs))%nat.
Proof.
  induction subs as [|s subs IH]; cbn [flat_map length]; [lia|].
  rewrite app_length. pose proof (render_sub_nonempty s). lia.
Qed.

Lemma read_xref_table_render e0 subs e1 m allow dict :
  forallb rsub_ok subs = true ->
  hd_stops dict ->
  read_xref_table m allow (render_table e0 subs e1 ++ dict)
  = Ok (apply_table_subs m allow false (map rsub_subsection subs), dict).
Proof.
  intros Hok Hd. unfold read_xref_table, render_table. rewrite <- !app_assoc.
  change (skip_string kw_xref (kw_xref ++ ?x)) with (Ok x : res bytes). cbv beta iota.
  set (t := kw_trailer ++ hdr_eol_bytes e1 ++ dict).
  assert (Ht : hd_stops t) by (cbn; split; reflexivity).
  rewrite skip_ws_eol by (apply flat_render_hd_stops; exact Ht).
  rewrite table_loop_render; auto.
  - rewrite skip_ws_stops by exact Ht. unfold t.
    change (skip_string kw_trailer (kw_trailer ++ ?x)) with (Ok x : res bytes). cbv beta iota.
    rewrite skip_ws_eol by exact Hd. reflexivity.
  - rewrite app_length. pose proof (flat_render_length subs). lia.
  - reflexivity.
Qed.

(* ---------- xref stream fields ---------- *)
Lemma enc_field_length w : forall x, length (enc_field w x) = w.
Proof. induction w; intros x; cbn [enc_field]; [reflexivity|]. rewrite app_length, IHw. cbn. lia. Qed.

Lemma be_acc_app : forall s t acc, be_acc acc (s ++ t) = be_acc (be_acc acc s) t.
Proof. induction s as [|b s IH]; intros t acc; cbn [app be_acc]; [reflexivity|apply IH]. Qed.

Lemma be_enc w : forall x acc, x < 256 ^ N.of_nat w -> be_acc acc (enc_field w x) = acc * 256 ^ N.of_nat w + x.
Proof.
  induction w; intros x acc Hx.
  - cbn in *. lia.
  - cbn [enc_field]. rewrite be_acc_app. rewrite Nat2N.inj_succ, N.pow_succ_r' in *.
    rewrite IHw by (apply N.div_lt_upper_bound; lia). cbn [be_acc].
    pose proof (N.div_mod x 256). lia.
Qed.

Lemma decode_enc w x : fits w x = true -> decode_int (enc_field w x) = Some x.
Proof.
  unfold fits, decode_int. intros H. apply andb_true_iff in H as [H1 H2].
  apply N.ltb_lt in H1. rewrite be_enc by exact H1. cbn [N.mul]. rewrite N.add_0_l, H2. reflexivity.
Qed.

Lemma enc_entry_length w0 w1 w2 e : length (enc_entry w0 w1 w2 e) = (w0 + w1 + w2)%nat.
Proof. unfold enc_entry. rewrite !app_length, !enc_field_length. lia. Qed.

Lemma dec_stm_render w0 w1 w2 : forall es fuel m i rest,
  (length es <= fuel)%nat ->
  forallb (entry_fits w0 w1 w2) es = true ->
  dec_stm_entries fuel m (flat_map (enc_entry w0 w1 w2) es ++ rest) w0 w1 w2 i (N.of_nat (length es))
  = Ok (apply_stm_sub m i es, rest).
Proof.
  induction es as [|e es IH]; intros fuel m i rest Hf Hfit.
  - destruct fuel; reflexivity.
  - cbn [length] in Hf. destruct fuel as [|fuel]; [lia|].
    cbn [forallb] in Hfit. apply andb_true_iff in Hfit as [He Hes].
    cbn [flat_map]. rewrite <- app_assoc.
    set (more := flat_map (enc_entry w0 w1 w2) es ++ rest).
    cbn [dec_stm_entries length apply_stm_sub].
    replace (N.of_nat (S (length es)) =? 0) with false by lia.
    replace (N.of_nat (S (length es)) - 1) with (N.of_nat (length es)) by lia.
    assert (Hlen : Nat.ltb (length (enc_entry w0 w1 w2 e ++ more)) (w0 + w1 + w2) = false).
    { apply Nat.ltb_ge. rewrite app_length, enc_entry_length. lia. }
    rewrite Hlen.
    rewrite skipn_app_exact by apply enc_entry_length.
    rewrite firstn_app_exact by apply enc_entry_length.
    destruct (xknown m i); [apply IH; [lia|exact Hes]|].
    unfold enc_entry.
    rewrite firstn_app_exact by apply enc_field_length.
    rewrite skipn_app_exact by apply enc_field_length.
    rewrite firstn_app_exact by apply enc_field_length.
    rewrite app_assoc.
    rewrite skipn_app_exact by (rewrite app_length, !enc_field_length; reflexivity).
    rewrite firstn_all2 by (rewrite enc_field_length; lia).
    unfold entry_fits in He. apply andb_true_iff in He as [He Hb]. apply andb_true_iff in He as [Ht Ha].
    rewrite (decode_enc w1 _ Ha), (decode_enc w2 _ Hb).
    assert (Htp : match decode_int (enc_field w0 (se_tp e)) with
                  | Some tp0 => Some (if Nat.eqb w0 0 then 1 else tp0)
                  | None => None end = Some (se_tp e)).
    { destruct (Nat.eqb_spec w0 0) as [->|Hw].
      - cbn. apply N.eqb_eq in Ht. congruence.
      - rewrite (decode_enc w0 _ Ht). reflexivity. }
    destruct (decode_int (enc_field w0 (se_tp e))) as [tp0|]; [|discriminate].
    inversion Htp as [Htp']. rewrite Htp'.
    destruct e as [tp a b]; cbn [se_tp se_a se_b] in *.
    destruct (stm_entry_impl {| se_tp := tp; se_a := a; se_b := b |}); apply IH; auto; lia.
Qed.

Lemma decode_xref_stream_render w0 w1 w2 : forall subs m trailing,
  (0 < w0 + w1 + w2)%nat ->
  forallb (fun s : stmsub => forallb (entry_fits w0 w1 w2) (snd s)) subs = true ->
  decode_xref_stream m (encode_stm_subs w0 w1 w2 subs ++ trailing) w0 w1 w2 (index_of subs)
  = Ok (apply_stm_subs m subs).
Proof.
  unfold encode_stm_subs, index_of, apply_stm_subs.
  induction subs as [|s subs IH]; intros m trailing Hw Hfit; cbn [flat_map map decode_xref_stream fold_left].
  - reflexivity.
  - cbn [forallb] in Hfit. apply andb_true_iff in Hfit as [Hs Hfit].
    cbn [fst snd]. rewrite <- app_assoc.
    rewrite dec_stm_render; [|rewrite app_length|exact Hs].
    + apply IH; auto.
    + assert (length (snd s) <= length (flat_map (enc_entry w0 w1 w2) (snd s)))%nat.
      { clear -Hw. induction (snd s) as [|e es IHe]; cbn [flat_map length]; [lia|].
        rewrite app_length, enc_entry_length. lia. }
      lia.
Qed.
