(* C04 - model of the cross-reference logic of xref.go / reader.go.
   Definitions only (proofs: XRefProofs.v).

   Faithful to the Go source as it is NOW:
     readXRef            -> read_loop / impl_read   (newest section first, `seen` on offsets,
                                                     table before /XRefStm of the same section)
     decodeXRefSection   -> apply_sub               (first entry wins, Discard on known numbers,
                                                     the "table starts at 1" repair: offByOne, applied
                                                     only when allowRepair: first subsection of a section
                                                     without /Prev - fix F22)
     decodeXRefStream    -> apply_stm_sub           (first entry wins, silently skipped entries,
                                                     type 2 with stream number 0 is stored as in use)
     Reader.get          -> get_entry / model_get   (free or generation mismatch => null)
     trailer filter      -> keep_key / keep_trailer
   The byte level (20-byte lines, /W fields) is in XRefText.v and is connected to
   apply_sub / apply_stm_sub by the round trip theorems.

   The specification side (spec_resolve, history_of) is written independently:
   a history is a list of revisions, oldest first, each a list of
   (object number, entry); the entries are applied oldest to newest and the last
   definition-or-free of a number wins. *)
From Coq Require Import List NArith ZArith Bool.
From GoPdf.Base Require Import Bytes Res.
From GoPdf.Gen Require Import Gen_Consts.
Import ListNotations.

(* ---------- PDF values (only what trailers and the renderer need) ---------- *)
Inductive value :=
| VNull
| VBool (b : bool)
| VInt (z : Z)
| VName (s : bytes)
| VStr (s : bytes)
| VArr (l : list value)
| VDict (l : list (bytes * value))
| VRef (n g : N).

(* ---------- cross-reference entries and the xref map ---------- *)
Inductive entry :=
| Free (gen : N)
| InUse (gen : N) (off : Z)
| InStm (stm : N) (idx : N).

Definition entry_eqb (a b : entry) : bool :=
  match a, b with
  | Free g, Free h => N.eqb g h
  | InUse g o, InUse h p => N.eqb g h && Z.eqb o p
  | InStm s i, InStm t j => N.eqb s t && N.eqb i j
  | _, _ => false
  end.

(* Go: map[uint32]*xRefEntry.  Association list; the first binding of a key is its value,
   so [xset] is an (over)write. *)
Definition xmap := list (N * entry).
Fixpoint xlookup (m : xmap) (n : N) : option entry :=
  match m with
  | [] => None
  | (k, e) :: m' => if N.eqb k n then Some e else xlookup m' n
  end.
Definition xset (m : xmap) (n : N) (e : entry) : xmap := (n, e) :: m.
Definition xknown (m : xmap) (n : N) : bool :=
  match xlookup m n with Some _ => true | None => false end.

Definition max_generation : N := Z.to_N maxGeneration.   (* 65535, from the Go source *)
Definition max_xref_size : N := Z.to_N maxXRefSize.      (* 1 << 24 *)

(* ---------- classic table: one decoded 20-byte line ---------- *)
Record rawent := { re_a : Z; re_b : N; re_n : bool }.   (* 10-digit field, 5-digit field, 'n' (true) or 'f' *)

Definition raw_entry (e : rawent) : entry :=
  if re_n e then InUse (re_b e) (re_a e) else Free (re_b e).

(* decodeXRefSection on well-formed lines: i runs from start; offby is the
   "fix an error seen in some PDF files" state (sticky for the subsection). *)
Definition repair_trigger (allow : bool) (start i : N) (e : rawent) : bool :=
  allow && N.eqb i start && N.eqb start 1 && Z.eqb (re_a e) 0 && N.eqb (re_b e) max_generation.

Fixpoint apply_sub (m : xmap) (allow : bool) (start i offby : N) (es : list rawent) : xmap :=
  match es with
  | [] => m
  | e :: es' =>
    if xknown m i then apply_sub m allow start (i + 1) offby es'
    else
      let offby' := if repair_trigger allow start i e then 1%N else offby in
      apply_sub (xset m (i - offby') (raw_entry e)) allow start (i + 1) offby' es'
  end.

Definition subsection := (N * list rawent)%type.
(* readXRefTable: allowRepair for the first subsection, then [rest] (false in the code as it is
   now; true in the code before fix F22, which is kept as a named variant for documentation) *)
Fixpoint apply_table_subs (m : xmap) (allow rest : bool) (subs : list subsection) : xmap :=
  match subs with
  | [] => m
  | s :: subs' => apply_table_subs (apply_sub m allow (fst s) (fst s) 0 (snd s)) rest rest subs'
  end.

(* ---------- xref stream: one decoded entry (fields already read with /W) ---------- *)
Record stment := { se_tp : N; se_a : N; se_b : N }.

(* what decodeXRefStream stores for an entry; None = silently skipped *)
Definition stm_entry_impl (e : stment) : option entry :=
  match se_tp e with
  | 0%N => if N.ltb max_generation (se_b e) then None else Some (Free (se_b e))
  | 1%N => if N.ltb max_generation (se_b e) then None else Some (InUse (se_b e) (Z.of_N (se_a e)))
  | 2%N => if N.leb max_xref_size (se_a e) then None
           else if N.eqb (se_a e) 0 then Some (InUse 0 (Z.of_N (se_b e)))  (* NewReference(0,0) = 0 = "not in a stream" *)
           else Some (InStm (se_a e) (se_b e))
  | _ => None
  end.

Fixpoint apply_stm_sub (m : xmap) (i : N) (es : list stment) : xmap :=
  match es with
  | [] => m
  | e :: es' =>
    if xknown m i then apply_stm_sub m (i + 1) es'
    else match stm_entry_impl e with
         | Some x => apply_stm_sub (xset m i x) (i + 1) es'
         | None => apply_stm_sub m (i + 1) es'
         end
  end.

Definition stmsub := (N * list stment)%type.
Definition apply_stm_subs (m : xmap) (subs : list stmsub) : xmap :=
  fold_left (fun m (s : stmsub) => apply_stm_sub m (fst s) (snd s)) subs m.

(* ---------- sections and the file layout ---------- *)
Definition trailer := list (bytes * value).

Record table_sec := {
  t_subs : list subsection;
  t_trailer : trailer;          (* the other keys of the trailer dictionary *)
  t_prev : option Z;            (* /Prev *)
  t_xrefstm : option Z          (* /XRefStm *)
}.
Record stream_sec := {
  s_subs : list stmsub;
  s_trailer : trailer;
  s_prev : option Z
}.
Inductive section := STable (t : table_sec) | SStream (s : stream_sec).

(* what lies at which offset (relative to the header) *)
Definition layout := list (Z * section).
Fixpoint sec_at (l : layout) (off : Z) : option section :=
  match l with
  | [] => None
  | (o, s) :: l' => if Z.eqb o off then Some s else sec_at l' off
  end.

Fixpoint zmem (x : Z) (l : list Z) : bool :=
  match l with [] => false | y :: l' => Z.eqb x y || zmem x l' end.

(* ---------- trailer filter of readXRef / NewReader ---------- *)
Definition b_colon : N := 58.
Definition b_underscore : N := 95.
Definition b_X : N := 88.
Definition is_second_class (k : bytes) : bool :=
  existsb (fun c => N.eqb c b_colon || N.eqb c b_underscore) (firstn 5 k).
Definition is_third_class (k : bytes) : bool :=
  match k with a :: b :: _ => N.eqb a b_X && N.eqb b b_X | _ => false end.
Definition k_Root : bytes := [82; 111; 111; 116]%N.
Definition k_Encrypt : bytes := [69; 110; 99; 114; 121; 112; 116]%N.
Definition k_Info : bytes := [73; 110; 102; 111]%N.
Definition k_ID : bytes := [73; 68]%N.
Definition keep_key (k : bytes) : bool :=
  bytes_eqb k k_Root || bytes_eqb k k_Encrypt || bytes_eqb k k_Info || bytes_eqb k k_ID
  || is_second_class k || is_third_class k.
Definition keep_trailer (t : trailer) : trailer := filter (fun kv => keep_key (fst kv)) t.

(* ---------- readXRef ---------- *)
Definition prev_ok (size p : Z) : bool := Z.ltb 0 p && Z.ltb p size.

(* One turn of the loop body after the `seen` test: returns the new map, the
   new seen list, the section's trailer and its /Prev. *)
(* [f22]: true = the code as it is now (allowRepair = the section has no /Prev, first
   subsection only); false = the code before fix F22 (the repair applies to every subsection).
   [f39]: true = the code as it is now (the stream /XRefStm points to is decoded BEFORE the
   table of the same section, so its entries take precedence); false = before fix F39. *)
Definition read_section (f22 f39 : bool) (lay : layout) (start : Z) (seen : list Z) (m : xmap)
  : res (xmap * list Z * trailer * option Z) :=
  match sec_at lay start with
  | None => Err Malformed
  | Some (STable t) =>
    let allow := if f22 then match t_prev t with None => true | Some _ => false end else true in
    let table (m : xmap) := apply_table_subs m allow (negb f22) (t_subs t) in
    match t_xrefstm t with
    | None => Ok (table m, seen, t_trailer t, t_prev t)
    | Some z =>
      if zmem z seen then Ok (table m, seen, t_trailer t, t_prev t)
      else match sec_at lay z with
           | Some (SStream s) =>
             Ok ((if f39 then table (apply_stm_subs m (s_subs s)) else apply_stm_subs (table m) (s_subs s)),
                 z :: seen, t_trailer t, t_prev t)
           | _ => Err Malformed
           end
    end
  | Some (SStream s) => Ok (apply_stm_subs m (s_subs s), seen, s_trailer s, s_prev s)
  end.

Fixpoint read_loop (f22 f39 : bool) (fuel : nat) (lay : layout) (size start : Z) (seen : list Z)
         (m : xmap) (tr : option trailer) : res (xmap * trailer) :=
  match fuel with
  | O => Err OutOfFuel
  | S fuel' =>
    if zmem start seen then Ok (m, match tr with Some t => t | None => [] end)
    else
      match read_section f22 f39 lay start (start :: seen) m with
      | Err c => Err c
      | Ok (m', seen', t, prev) =>
        let tr' := match tr with Some _ => tr | None => Some (keep_trailer t) end in
        match prev with
        | None => Ok (m', match tr' with Some t => t | None => [] end)
        | Some p =>
          if prev_ok size p then read_loop f22 f39 fuel' lay size p seen' m' tr'
          else Err Malformed
        end
      end
  end.

(* findXRef + readXRef: `start` is the number after the last "startxref" *)
Definition impl_read_v (f22 f39 : bool) (lay : layout) (size start : Z) : res (xmap * trailer) :=
  if prev_ok size start then read_loop f22 f39 (S (length lay)) lay size start [] [] None
  else Err Malformed.
Definition impl_read := impl_read_v true true.              (* the code as it is now *)
Definition impl_read_pre_F39 := impl_read_v true false.     (* before fix F39: documentation only *)
Definition impl_read_pre_F22 := impl_read_v false false.    (* before fixes F22 and F39: documentation only *)

(* ---------- Reader.get, first half: which entry answers a reference ---------- *)
Inductive answer :=
| ANull                        (* free, absent or generation mismatch: (nil, nil) *)
| AAt (off : Z)                (* read the object at this offset *)
| AIn (stm : N) (idx : N).     (* look the number up in this object stream *)

Definition get_entry (m : xmap) (num gen : N) : answer :=
  match xlookup m num with
  | None => ANull
  | Some (Free _) => ANull
  | Some (InUse g off) => if Z.ltb off 0 then ANull else if N.eqb g gen then AAt off else ANull
  | Some (InStm s i) => if N.eqb gen 0 then AIn s i else ANull
  end.

(* ---------- specification ---------- *)
Definition revision := (list (N * entry) * trailer)%type.
Definition history := list revision.      (* oldest first *)

Definition smap := N -> option entry.
Definition supd (f : smap) (n : N) (e : entry) : smap := fun k => if N.eqb k n then Some e else f k.
Definition apply_revision (f : smap) (r : revision) : smap :=
  fold_left (fun f (ne : N * entry) => supd f (fst ne) (snd ne)) (fst r) f.
Definition spec_map (h : history) : smap := fold_left apply_revision h (fun _ => None).
Definition spec_resolve (h : history) (n : N) : option entry := spec_map h n.

Definition spec_answer (h : history) (num gen : N) : answer :=
  match spec_resolve h num with
  | None => ANull
  | Some (Free _) => ANull
  | Some (InUse g off) => if N.eqb g gen then AAt off else ANull
  | Some (InStm s i) => if N.eqb gen 0 then AIn s i else ANull
  end.

Definition spec_trailer (h : history) : trailer :=
  match rev h with [] => [] | r :: _ => keep_trailer (snd r) end.

(* ---------- revisions as they are laid out in a file ---------- *)
(* what an xref stream entry means according to ISO 32000-2 Table 18 *)
Definition stm_entry_spec (e : stment) : entry :=
  match se_tp e with
  | 0%N => Free (se_b e)
  | 1%N => InUse (se_b e) (Z.of_N (se_a e))
  | _ => InStm (se_a e) (se_b e)
  end.

Fixpoint number_from {A} (i : N) (l : list A) : list (N * A) :=
  match l with [] => [] | x :: l' => (i, x) :: number_from (i + 1) l' end.

Definition table_entries (subs : list subsection) : list (N * entry) :=
  flat_map (fun s : subsection => number_from (fst s) (map raw_entry (snd s))) subs.
Definition stm_entries (subs : list stmsub) : list (N * entry) :=
  flat_map (fun s : stmsub => number_from (fst s) (map stm_entry_spec (snd s))) subs.

Inductive rsec :=
| RTable (off : Z) (subs : list subsection) (tr : trailer)
| RStream (off : Z) (subs : list stmsub) (tr : trailer)
| RHybrid (off : Z) (subs : list subsection) (stmoff : Z) (ssubs : list stmsub) (tr : trailer).

Definition rsec_off (r : rsec) : Z :=
  match r with RTable o _ _ => o | RStream o _ _ => o | RHybrid o _ _ _ _ => o end.
Definition rsec_offsets (r : rsec) : list Z :=
  match r with RTable o _ _ => [o] | RStream o _ _ => [o] | RHybrid o _ so _ _ => [o; so] end.
(* Hybrid-reference files (ISO 32000-1 7.5.8.4): the classic table is what readers that do
   not know cross-reference streams see; the objects hidden from them are marked FREE in the
   table and have their real entry in the stream /XRefStm points to.  For a reader that knows
   cross-reference streams such a free entry does not count: the entry of /XRefStm applies.
   The rule is written "the stream's entry wins"; for conforming files (hybrid_overlap_ok: a
   number occurs in both only when the table's entry is free) nothing else can differ, and a
   conflict between two in-use entries is outside conforming files. *)
Fixpoint has_key (l : list (N * entry)) (n : N) : bool :=
  match l with [] => false | (k, _) :: l' => N.eqb k n || has_key l' n end.
Definition is_free_entry (e : entry) : bool := match e with Free _ => true | _ => false end.
Definition hidden_marker (stm : list (N * entry)) (ne : N * entry) : bool :=
  is_free_entry (snd ne) && has_key stm (fst ne).
Definition hybrid_entries (tab stm : list (N * entry)) : list (N * entry) :=
  filter (fun ne => negb (has_key stm (fst ne))) tab ++ stm.

Definition rsec_revision (r : rsec) : revision :=
  match r with
  | RTable _ subs tr => (table_entries subs, tr)
  | RStream _ subs tr => (stm_entries subs, tr)
  | RHybrid _ subs _ ssubs tr => (hybrid_entries (table_entries subs) (stm_entries ssubs), tr)
  end.

(* a chain is written newest first: the head is the section "startxref" points to,
   and every section's /Prev is the offset of the next element *)
Definition chain := list rsec.
Definition history_of (c : chain) : history := rev (map rsec_revision c).

Definition prev_of (rest : chain) : option Z :=
  match rest with [] => None | r :: _ => Some (rsec_off r) end.

Definition rsec_layout (r : rsec) (prev : option Z) : layout :=
  match r with
  | RTable o subs tr => [(o, STable {| t_subs := subs; t_trailer := tr; t_prev := prev; t_xrefstm := None |})]
  | RStream o subs tr => [(o, SStream {| s_subs := subs; s_trailer := tr; s_prev := prev |})]
  | RHybrid o subs so ssubs tr =>
    [(o, STable {| t_subs := subs; t_trailer := tr; t_prev := prev; t_xrefstm := Some so |});
     (so, SStream {| s_subs := ssubs; s_trailer := []; s_prev := None |})]
  end.
Fixpoint layout_of (c : chain) : layout :=
  match c with
  | [] => []
  | r :: rest => rsec_layout r (prev_of rest) ++ layout_of rest
  end.
Definition start_of (c : chain) : Z := match c with [] => 0%Z | r :: _ => rsec_off r end.

(* --- conformance conditions under which the refinement is claimed --- *)
Fixpoint nodupb (l : list N) : bool :=
  match l with [] => true | x :: l' => negb (existsb (N.eqb x) l') && nodupb l' end.
Fixpoint znodupb (l : list Z) : bool :=
  match l with [] => true | x :: l' => negb (zmem x l') && znodupb l' end.

Definition wf_stment (e : stment) : bool :=
  match se_tp e with
  | 0%N | 1%N => N.leb (se_b e) max_generation
  | 2%N => N.ltb 0 (se_a e) && N.ltb (se_a e) max_xref_size
  | _ => false
  end.
(* in a classic table an in-use entry has a non-negative offset (10 digits, no sign) *)
Definition wf_rawent (e : rawent) : bool := Z.leb 0 (re_a e).

(* within a hybrid section a number may be listed twice only as a hidden object:
   free in the table, real entry in /XRefStm *)
Definition hybrid_overlap_ok (r : rsec) : bool :=
  match r with
  | RHybrid _ subs _ ssubs _ =>
    nodupb (map fst (table_entries subs)) && nodupb (map fst (stm_entries ssubs))
    && forallb (fun ne : N * entry => negb (has_key (stm_entries ssubs) (fst ne)) || is_free_entry (snd ne))
               (table_entries subs)
  | _ => true
  end.

Definition rsec_wf (size : Z) (r : rsec) : bool :=
  nodupb (map fst (fst (rsec_revision r)))
  && hybrid_overlap_ok r
  && forallb (prev_ok size) (rsec_offsets r)
  && match r with
     | RTable _ subs _ => forallb (fun s : subsection => forallb wf_rawent (snd s)) subs
     | RStream _ ssubs _ => forallb (fun s : stmsub => forallb wf_stment (snd s)) ssubs
     | RHybrid _ subs _ ssubs _ =>
       forallb (fun s : subsection => forallb wf_rawent (snd s)) subs
       && forallb (fun s : stmsub => forallb wf_stment (snd s)) ssubs
     end.

(* the entry shape that made the pre-F22 reader lose an update (finding F12), and that still
   marks a mis-numbered ORIGINAL section: a subsection that starts at object 1 and whose
   first line is 0000000000 65535 *)
Definition sub_trips (s : subsection) : bool :=
  match snd s with
  | e :: _ => N.eqb (fst s) 1 && Z.eqb (re_a e) 0 && N.eqb (re_b e) max_generation
  | [] => false
  end.
Definition first_trips (subs : list subsection) : bool :=
  match subs with s :: _ => sub_trips s | [] => false end.
(* ISO 32000 7.5.4: the section of a file that has never been updated has ONE subsection
   that begins at object 0.  Only this much of it is needed: the oldest section does not
   begin with the mis-numbered pattern the reader repairs. *)
Definition oldest_ok (r : rsec) : bool :=
  match r with
  | RTable _ subs _ => negb (first_trips subs)
  | RStream _ _ _ => true
  | RHybrid _ subs _ _ _ => negb (first_trips subs)
  end.
Fixpoint last_ok (c : chain) : bool :=
  match c with
  | [] => true
  | [r] => oldest_ok r
  | _ :: rest => last_ok rest
  end.

Definition wf_chain (size : Z) (c : chain) : bool :=
  match c with [] => false | _ => true end
  && forallb (rsec_wf size) c
  && znodupb (flat_map rsec_offsets c)
  && last_ok c.

(* the guard under which the PRE-F22 reader was correct: no tripping subsection anywhere *)
Definition rsec_trips (r : rsec) : bool :=
  match r with
  | RTable _ subs _ => existsb sub_trips subs
  | RStream _ _ _ => false
  | RHybrid _ subs _ _ _ => existsb sub_trips subs
  end.
Definition guard (c : chain) : bool := negb (existsb rsec_trips c).

(* the guard under which the reader BEFORE fix F39 was correct: no hybrid section hides an
   object (the table's free marker shadowed the /XRefStm entry) *)
Definition rsec_hides (r : rsec) : bool :=
  match r with
  | RHybrid _ subs _ ssubs _ => existsb (hidden_marker (stm_entries ssubs)) (table_entries subs)
  | _ => false
  end.
Definition no_hidden (c : chain) : bool := negb (existsb rsec_hides c).

(* ---------- the whole lookup, as the harness observes it ---------- *)
Definition impl_answer (c : chain) (size : Z) (num gen : N) : res answer :=
  match impl_read (layout_of c) size (start_of c) with
  | Ok (m, _) => Ok (get_entry m num gen)
  | Err e => Err e
  end.
Definition impl_trailer (c : chain) (size : Z) : res trailer :=
  match impl_read (layout_of c) size (start_of c) with
  | Ok (_, t) => Ok t
  | Err e => Err e
  end.
