(* C04 - a stream whose /Length is missing, negative, unresolvable or wrong is
   delimited by the end-of-line that precedes its endstream keyword. *)
From Coq Require Import List NArith ZArith Bool Lia ZifyN ZifyNat ZifyBool.
From GoPdf.Base Require Import Bytes Res.
From GoPdf.C04 Require Import XRef XRefText XRefTextProofs Extent.
Import ListNotations.
Open Scope N_scope.

(* the one case that cannot be decided without /Length: data ending in CR, followed by a
   bare LF as the end-of-line marker, reads as data + CR LF marker *)
Definition no_cr_before_lf (body e1 : bytes) : Prop :=
  e1 = [LF] -> match rev body with b :: _ => (b =? CR) = false | [] => True end.

Inductive eol_before_data : bytes -> Prop :=
| E0_LF : eol_before_data [LF]
| E0_CRLF : eol_before_data [CR; LF].
Inductive eol_after_data : bytes -> Prop :=
| E1_LF : eol_after_data [LF]
| E1_CR : eol_after_data [CR]
| E1_CRLF : eol_after_data [CR; LF].

(* with a correct /Length the end-of-line before endstream is optional *)
Definition sep_after_data (e1 : bytes) : Prop := e1 = [] \/ eol_after_data e1.

Lemma has_prefix_app_eol : forall p r e t,
  forallb (fun x => negb (is_eol x)) p = true -> is_eol e = true ->
  has_prefix p (r ++ e :: t) = has_prefix p r.
Proof.
  induction p as [|x p IH]; intros r e t Hp He; [reflexivity|].
  cbn [forallb] in Hp. apply andb_true_iff in Hp as [Hx Hp].
  destruct r as [|y r]; cbn [app has_prefix].
  - destruct (N.eqb_spec x e) as [->|]; [|reflexivity]. rewrite He in Hx. discriminate.
  - rewrite IH by auto. reflexivity.
Qed.

Lemma kw_no_eol : forallb (fun x => negb (is_eol x)) kw_endstream = true.
Proof. reflexivity. Qed.

Lemma find_app_eol_r : forall body e t r,
  find_eol_endstream body = None -> is_eol e = true ->
  find_eol_endstream (e :: t) = r ->
  find_eol_endstream (body ++ e :: t) = option_map (Nat.add (length body)) r.
Proof.
  induction body as [|b body IH]; intros e t r Hn He Hr.
  - cbn [app length]. rewrite Hr. destruct r; reflexivity.
  - cbn [find_eol_endstream] in Hn. cbn [app length].
    change (find_eol_endstream (b :: body ++ e :: t)) with
      (if is_eol b && has_prefix kw_endstream (body ++ e :: t) then Some 0%nat
       else option_map S (find_eol_endstream (body ++ e :: t))).
    rewrite has_prefix_app_eol by (auto using kw_no_eol).
    destruct (is_eol b && has_prefix kw_endstream body); [discriminate|].
    destruct (find_eol_endstream body) eqn:E; [discriminate|].
    rewrite (IH e t r) by auto. destruct r; reflexivity.
Qed.
Lemma find_app_eol body e t :
  find_eol_endstream body = None -> is_eol e = true ->
  find_eol_endstream (body ++ e :: t) = option_map (Nat.add (length body)) (find_eol_endstream (e :: t)).
Proof. intros. apply find_app_eol_r; auto. Qed.

Lemma has_prefix_self p t : has_prefix p (p ++ t) = true.
Proof. induction p as [|x p IH]; cbn; [reflexivity|]. rewrite N.eqb_refl. exact IH. Qed.

Lemma nth_app_exact (a : bytes) x t : nth (length a) (a ++ x :: t) 0 = x.
Proof. induction a as [|y a IH]; [reflexivity|exact IH]. Qed.

Lemma trim_at_lf body t : match rev body with b :: _ => (b =? CR) = false | [] => True end ->
  trim_at (body ++ LF :: t) (length body) = length body.
Proof.
  unfold trim_at. rewrite firstn_app_exact, nth_app_exact by reflexivity. unfold trim_len.
  change (LF =? LF) with true. cbv iota.
  unfold bytes, byte in *.
  destruct body as [|x l] using rev_ind; [reflexivity|].
  rewrite !rev_unit. intros H. rewrite H. reflexivity.
Qed.
Lemma trim_at_cr body t : trim_at (body ++ CR :: t) (length body) = length body.
Proof. unfold trim_at. rewrite firstn_app_exact, nth_app_exact by reflexivity. reflexivity. Qed.
Lemma trim_at_crlf body t : trim_at ((body ++ [CR]) ++ LF :: t) (length body + 1) = length body.
Proof.
  unfold trim_at. replace (length body + 1)%nat with (length (body ++ [CR])) by (rewrite app_length; reflexivity).
  rewrite firstn_app_exact, nth_app_exact by reflexivity. unfold trim_len.
  change (LF =? LF) with true. cbv iota. rewrite rev_unit, app_length. change (CR =? CR) with true. cbn. lia.
Qed.

Lemma drop_space_eol1 e1 t : eol_after_data e1 -> drop_space (e1 ++ kw_endstream ++ t) = kw_endstream ++ t.
Proof. intros []; reflexivity. Qed.

Lemma stream_extent_correct body e0 e1 rest declared :
  eol_before_data e0 -> eol_after_data e1 ->
  no_cr_before_lf body e1 ->
  find_eol_endstream body = None ->
  (declared = None \/
   exists d, declared = Some d /\
     ((d < 0)%Z \/ (Z.of_nat (length (body ++ e1 ++ kw_endstream ++ rest)) < d)%Z
      \/ d = Z.of_nat (length body)
      \/ endstream_at (body ++ e1 ++ kw_endstream ++ rest) (Z.to_nat d) = false)) ->
  stream_extent (e0 ++ body ++ e1 ++ kw_endstream ++ rest) declared = Ok (length e0, length body).
Proof.
  intros H0 H1 Htr Hno Hd.
  set (data := body ++ e1 ++ kw_endstream ++ rest).
  assert (Hk : exists k, k = length e0 /\
      stream_extent (e0 ++ data) declared =
      (let length_ok :=
        match declared with
        | Some d => if (Z.leb 0 d && Z.leb d (Z.of_nat (length data)))%Z then endstream_at data (Z.to_nat d) else false
        | None => false
        end in
      if length_ok then match declared with Some d => Ok (k, Z.to_nat d) | None => Err Panic end
      else match find_eol_endstream data with
           | None => Err Malformed
           | Some p => Ok (k, trim_at data p)
           end)).
  { destruct H0; eexists; (split; [reflexivity|]); reflexivity. }
  destruct Hk as (k & -> & ->). cbv zeta.
  (* the recovery path gives the body *)
  assert (Hrec : match find_eol_endstream data with
                 | None => Err Malformed
                 | Some p => Ok (length e0, trim_at data p)
                 end = Ok (length e0, length body)).
  { unfold data. destruct H1; cbn [app].
    - rewrite find_app_eol by auto. cbn [find_eol_endstream]. rewrite has_prefix_self. change (is_eol LF) with true. cbn [andb option_map].
      rewrite Nat.add_0_r. rewrite trim_at_lf by (apply Htr; reflexivity). reflexivity.
    - rewrite find_app_eol by auto. cbn [find_eol_endstream]. rewrite has_prefix_self. change (is_eol CR) with true. cbn [andb option_map].
      rewrite Nat.add_0_r. rewrite trim_at_cr. reflexivity.
    - rewrite find_app_eol by auto. cbn [find_eol_endstream]. rewrite has_prefix_self.
      change (is_eol CR) with true. change (is_eol LF) with true.
      change (has_prefix kw_endstream (LF :: kw_endstream ++ rest)) with false. cbn [andb option_map].
      replace (body ++ CR :: LF :: kw_endstream ++ rest) with ((body ++ [CR]) ++ LF :: kw_endstream ++ rest)
        by (rewrite <- app_assoc; reflexivity).
      rewrite trim_at_crlf. reflexivity. }
  destruct Hd as [->|(d & -> & Hd)]; [exact Hrec|].
  destruct (Z.leb_spec 0 d); cbn [andb]; [|exact Hrec].
  destruct (Z.leb_spec d (Z.of_nat (length data))); [|exact Hrec].
  destruct Hd as [Hd|[Hd|[Hd|Hd]]]; try lia; try (unfold data in *; lia).
  - (* the declared length is right *)
    subst d. rewrite Nat2Z.id.
    assert (He : endstream_at data (length body) = true).
    { unfold endstream_at, data. rewrite skipn_app_exact by reflexivity.
      rewrite drop_space_eol1 by exact H1. apply has_prefix_self. }
    rewrite He. reflexivity.
  - fold data in Hd. rewrite Hd. exact Hrec.
Qed.

(* ---------- a correct /Length: whatever the data are, and with any white space - or none -
   between the data and endstream ---------- *)
Lemma drop_space_ws : forall ws t, forallb is_space ws = true -> drop_space (ws ++ kw_endstream ++ t) = kw_endstream ++ t.
Proof.
  induction ws as [|b ws IH]; intros t H; [reflexivity|].
  cbn [forallb] in H. apply andb_true_iff in H as [Hb H]. cbn [app drop_space]. rewrite Hb. apply IH. exact H.
Qed.

Lemma stream_extent_declared_correct body e0 ws rest :
  eol_before_data e0 -> forallb is_space ws = true ->
  stream_extent (e0 ++ body ++ ws ++ kw_endstream ++ rest) (Some (Z.of_nat (length body))) = Ok (length e0, length body).
Proof.
  intros H0 Hws.
  set (data := body ++ ws ++ kw_endstream ++ rest).
  assert (He : endstream_at data (length body) = true).
  { unfold endstream_at, data. rewrite skipn_app_exact by reflexivity. rewrite drop_space_ws by exact Hws. apply has_prefix_self. }
  assert (Hlen : (Z.leb 0 (Z.of_nat (length body)) && Z.leb (Z.of_nat (length body)) (Z.of_nat (length data)))%Z = true).
  { unfold data. rewrite app_length. lia. }
  assert (Hk : stream_extent (e0 ++ data) (Some (Z.of_nat (length body))) =
      (let length_ok :=
         if (Z.leb 0 (Z.of_nat (length body)) && Z.leb (Z.of_nat (length body)) (Z.of_nat (length data)))%Z
         then endstream_at data (Z.to_nat (Z.of_nat (length body))) else false in
       if length_ok then Ok (length e0, Z.to_nat (Z.of_nat (length body)))
       else match find_eol_endstream data with
            | None => Err Malformed
            | Some p => Ok (length e0, trim_at data p)
            end)) by (destruct H0; reflexivity).
  rewrite Hk. cbv zeta. rewrite Hlen, Nat2Z.id, He. reflexivity.
Qed.
