(* C04 - byte level of the cross-reference data (definitions only).

   Decoders, faithful to xref.go / scanner.go as they are now:
     skip_ws, read_integer            scanner.SkipWhiteSpace / ReadInteger
     dec_lines                        decodeXRefSection   (20-byte lines, 19-byte fix-up, Discard(20)
                                                          on known numbers, "65536" fix, offByOne repair)
     read_xref_table                  readXRefTable       (subsection loop up to the trailer dictionary)
     decode_int, dec_stm_entries,
     decode_xref_stream               decodeInt / decodeXRefStream  (any /W in [0..8]^3, w0 = 0 => type 1)
   Renderers (independent of the decoders; used by Seq.v):
     render_table_subs                classic table with arbitrary subsections and EOL choices
     encode_stm_subs                  xref stream data for any sufficiently wide /W *)
From Coq Require Import List NArith ZArith Bool.
From GoPdf.Base Require Import Bytes Res.
From GoPdf.Gen Require Import Gen_Consts.
From GoPdf.C04 Require Import XRef.
Import ListNotations.
Open Scope N_scope.

(* ---------- character classes ---------- *)
Definition is_space (b : byte) : bool :=
  (b =? 0) || (b =? 9) || (b =? 10) || (b =? 12) || (b =? 13) || (b =? 32).
(* the same predicate read off the table the translator generates from scanner.go *)
Definition is_space_gen (b : byte) : bool := Z.eqb (nth (N.to_nat b) class 0%Z) space.
Definition is_eol (b : byte) : bool := (b =? 10) || (b =? 13).
Definition is_digit (b : byte) : bool := (48 <=? b) && (b <=? 57).

Definition LF : byte := 10.
Definition CR : byte := 13.
Definition SP : byte := 32.

(* ---------- scanner primitives on the remaining input ---------- *)
(* SkipWhiteSpace: white space and comments; reaching the end of input is io.EOF *)
Fixpoint skip_ws_aux (cm : bool) (s : bytes) : res bytes :=
  match s with
  | [] => Err EOF
  | b :: s' =>
    if cm then skip_ws_aux (negb (is_eol b)) s'
    else if b =? 37 then skip_ws_aux true s'
    else if is_space b then skip_ws_aux false s'
    else Ok s
  end.
Definition skip_ws (s : bytes) : res bytes := skip_ws_aux false s.

Fixpoint span_digits (s : bytes) : bytes * bytes :=
  match s with
  | b :: s' => if is_digit b then let '(d, r) := span_digits s' in (b :: d, r) else ([], s)
  | [] => ([], [])
  end.

Fixpoint parse_dec_acc (acc : N) (s : bytes) : option N :=
  match s with
  | [] => Some acc
  | b :: s' => if is_digit b then parse_dec_acc (acc * 10 + (b - 48)) s' else None
  end.
(* strconv.ParseUint(s, 10, _) without the size limit: non-empty, digits only *)
Definition parse_udec (s : bytes) : option N :=
  match s with [] => None | _ => parse_dec_acc 0 s end.
(* strconv.ParseInt(s, 10, 64): optional sign *)
Definition int64_ok (z : Z) : bool := (Z.leb (- 2 ^ 63) z && Z.ltb z (2 ^ 63))%Z.
Definition parse_int64 (s : bytes) : option Z :=
  let r := match s with
           | b :: t =>
             if b =? 43 then option_map Z.of_N (parse_udec t)
             else if b =? 45 then option_map (fun n => (- Z.of_N n)%Z) (parse_udec t)
             else option_map Z.of_N (parse_udec s)
           | [] => None
           end in
  match r with Some z => if int64_ok z then Some z else None | None => None end.

(* ReadInteger *)
Definition read_integer (s : bytes) : res (Z * bytes) :=
  match skip_ws s with
  | Err c => Err c
  | Ok s1 =>
    let '(tok, rest) :=
      match s1 with
      | b :: t =>
        if (b =? 43) || (b =? 45) then let '(d, r) := span_digits t in (b :: d, r)
        else span_digits s1
      | [] => ([], [])
      end in
    if Nat.ltb (Z.to_nat maxNameBytes) (length tok) then Err Malformed
    else match parse_int64 tok with
         | Some z => Ok (z, rest)
         | None => Err Malformed
         end
  end.

Fixpoint skip_string (pat s : bytes) : res bytes :=
  match pat, s with
  | [], _ => Ok s
  | p :: pat', b :: s' => if p =? b then skip_string pat' s' else Err Malformed
  | _ :: _, [] => Err Malformed
  end.

(* ---------- decodeXRefSection ---------- *)
Definition fix65536 : bytes := [48;48;48;48;48;48;48;48;48;48;32;54;53;53;51;54;32].  (* "0000000000 65536 " *)
Fixpoint has_prefix (p s : bytes) : bool :=
  match p, s with
  | [], _ => true
  | x :: p', y :: s' => (x =? y) && has_prefix p' s'
  | _ :: _, [] => false
  end.

Definition ch_f : byte := 102.
Definition ch_n : byte := 110.

(* one line: the decoded fields and the number of bytes to advance *)
Definition dec_line (buf : bytes) : res (rawent * nat) :=
  match parse_int64 (firstn 10 buf) with
  | None => Err Other                                   (* strconv error, returned as it is *)
  | Some a =>
    let bfield := firstn 5 (skipn 11 buf) in
    let c0 := nth 17 buf 0 in
    let bc :=
      match parse_udec bfield with
      | Some b => if b <=? max_generation then Some (b, c0) else None
      | None => None
      end in
    let bc := match bc with
              | Some x => Some x
              | None => if has_prefix fix65536 buf then Some (max_generation, ch_f) else None
              end in
    match bc with
    | None => Err Other
    | Some (b, c) =>
      let adv := if is_eol (nth 19 buf 0) then 20%nat else 19%nat in
      if c =? ch_f then Ok ({| re_a := a; re_b := b; re_n := false |}, adv)
      else if c =? ch_n then Ok ({| re_a := a; re_b := b; re_n := true |}, adv)
      else Err Malformed
    end
  end.

Fixpoint dec_lines (fuel : nat) (m : xmap) (allow : bool) (s : bytes) (start i cnt offby : N) : res (xmap * bytes) :=
  if cnt =? 0 then Ok (m, s)
  else match fuel with
  | O => Err OutOfFuel
  | S fuel' =>
    if xknown m i then
      if Nat.ltb (length s) 20 then Err EOF                 (* Discard(20) beyond the end *)
      else dec_lines fuel' m allow (skipn 20 s) start (i + 1) (cnt - 1) offby
    else
      if Nat.ltb (length s) 20 then Err Malformed           (* PeekN(20) came back short *)
      else match dec_line (firstn 20 s) with
           | Err c => Err c
           | Ok (e, adv) =>
             let offby' := if repair_trigger allow start i e then 1 else offby in
             dec_lines fuel' (xset m (i - offby') (raw_entry e)) allow (skipn adv s) start (i + 1) (cnt - 1) offby'
           end
  end.

(* ---------- readXRefTable up to the trailer dictionary ---------- *)
Definition kw_xref : bytes := [120; 114; 101; 102].
Definition kw_trailer : bytes := [116; 114; 97; 105; 108; 101; 114].

Fixpoint table_loop (fuel : nat) (m : xmap) (allow : bool) (s : bytes) : res (xmap * bytes) :=
  match fuel with
  | O => Err OutOfFuel
  | S fuel' =>
    match s with
    | b :: _ =>
      if is_digit b then
        match read_integer s with
        | Err c => Err c
        | Ok (start, s1) =>
          match read_integer s1 with
          | Err c => Err c
          | Ok (len, s2) =>
            if (Z.ltb start 0 || Z.ltb len 0 || Z.leb maxXRefSize start || Z.ltb maxXRefSize (start + len))%Z
            then Err Malformed
            else match skip_ws s2 with
                 | Err c => Err c
                 | Ok s3 =>
                   match dec_lines (S (length s3)) m allow s3 (Z.to_N start) (Z.to_N start) (Z.to_N len) 0 with
                   | Err c => Err c
                   | Ok (m', s4) =>
                     match skip_ws s4 with
                     | Err c => Err c
                     | Ok s5 => table_loop fuel' m' false s5      (* only the first subsection may be repaired *)
                     end
                   end
                 end
          end
        end
      else Ok (m, s)
    | [] => Ok (m, s)
    end
  end.

(* returns the map and the input positioned at the trailer dictionary;
   allow = allowRepair (readXRef: the section has no /Prev) *)
Definition read_xref_table (m : xmap) (allow : bool) (s : bytes) : res (xmap * bytes) :=
  match skip_string kw_xref s with
  | Err c => Err c
  | Ok s1 =>
    match skip_ws s1 with
    | Err c => Err c
    | Ok s2 =>
      match table_loop (S (length s2)) m allow s2 with
      | Err c => Err c
      | Ok (m', s3) =>
        match skip_ws s3 with
        | Err c => Err c
        | Ok s4 =>
          match skip_string kw_trailer s4 with
          | Err c => Err c
          | Ok s5 => match skip_ws s5 with Err c => Err c | Ok s6 => Ok (m', s6) end
          end
        end
      end
    end
  end.

(* ---------- xref streams ---------- *)
Definition max_int64 : N := 2 ^ 63 - 1.
Fixpoint be_acc (acc : N) (s : bytes) : N :=
  match s with [] => acc | b :: s' => be_acc (acc * 256 + b) s' end.
(* decodeInt: big endian, an error when the value exceeds MaxInt64 *)
Definition decode_int (s : bytes) : option N :=
  let v := be_acc 0 s in if v <=? max_int64 then Some v else None.

Fixpoint dec_stm_entries (fuel : nat) (m : xmap) (data : bytes) (w0 w1 w2 : nat) (i cnt : N) : res (xmap * bytes) :=
  if cnt =? 0 then Ok (m, data)
  else match fuel with
  | O => Err OutOfFuel
  | S fuel' =>
    let wt := (w0 + w1 + w2)%nat in
    if Nat.ltb (length data) wt then Err EOF                (* io.ReadFull fails *)
    else
      let buf := firstn wt data in
      let rest := skipn wt data in
      if xknown m i then dec_stm_entries fuel' m rest w0 w1 w2 (i + 1) (cnt - 1)
      else
        let skip := dec_stm_entries fuel' m rest w0 w1 w2 (i + 1) (cnt - 1) in
        match decode_int (firstn w0 buf) with
        | None => skip
        | Some tp0 =>
          let tp := if Nat.eqb w0 0 then 1 else tp0 in
          match decode_int (firstn w1 (skipn w0 buf)) with
          | None => skip
          | Some a =>
            match decode_int (firstn w2 (skipn (w0 + w1) buf)) with
            | None => skip
            | Some b =>
              match stm_entry_impl {| se_tp := tp; se_a := a; se_b := b |} with
              | Some x => dec_stm_entries fuel' (xset m i x) rest w0 w1 w2 (i + 1) (cnt - 1)
              | None => skip
              end
            end
          end
        end
  end.

(* ss = the subsections of /Index (or [0 Size]); only start and size are given, the entries are in data *)
Fixpoint decode_xref_stream (m : xmap) (data : bytes) (w0 w1 w2 : nat) (ss : list (N * N)) : res xmap :=
  match ss with
  | [] => Ok m
  | (start, size) :: ss' =>
    match dec_stm_entries (S (length data)) m data w0 w1 w2 start size with
    | Err c => Err c
    | Ok (m', rest) => decode_xref_stream m' rest w0 w1 w2 ss'
    end
  end.

(* ================= renderers ================= *)
(* k decimal digits, most significant first *)
Fixpoint fmt_dec (k : nat) (n : N) : bytes :=
  match k with
  | O => []
  | S k' => fmt_dec k' (n / 10) ++ [48 + n mod 10]
  end.

Fixpoint strip0 (s : bytes) : bytes :=
  match s with
  | b :: s' => if b =? 48 then strip0 s' else s
  | [] => []
  end.
(* decimal without leading zeros *)
Definition fmt_N (n : N) : bytes :=
  match strip0 (fmt_dec (S (N.to_nat (N.log2 n / 3))) n) with
  | [] => [48]
  | l => l
  end.

(* the three 2-byte line ends ISO 32000 allows in a table, so that lines are 20 bytes *)
Inductive line_eol := EolCRLF | EolSPLF | EolSPCR.
Definition line_eol_bytes (e : line_eol) : bytes :=
  match e with EolCRLF => [CR; LF] | EolSPLF => [SP; LF] | EolSPCR => [SP; CR] end.

Definition render_line (e : rawent) (eol : line_eol) : bytes :=
  fmt_dec 10 (Z.to_N (re_a e)) ++ [SP] ++ fmt_dec 5 (re_b e) ++ [SP]
  ++ [if re_n e then ch_n else ch_f] ++ line_eol_bytes eol.

Definition render_lines (es : list (rawent * line_eol)) : bytes :=
  flat_map (fun x => render_line (fst x) (snd x)) es.

(* white space after a subsection header / between parts: at least one EOL-ish byte, no comment *)
Inductive hdr_eol := HLF | HCRLF | HCR | HSPLF.
Definition hdr_eol_bytes (e : hdr_eol) : bytes :=
  match e with HLF => [LF] | HCRLF => [CR; LF] | HCR => [CR] | HSPLF => [SP; LF] end.

Record rsub := { rs_start : N; rs_lines : list (rawent * line_eol); rs_eol : hdr_eol }.

Definition render_sub (s : rsub) : bytes :=
  fmt_N (rs_start s) ++ [SP] ++ fmt_N (N.of_nat (length (rs_lines s))) ++ hdr_eol_bytes (rs_eol s)
  ++ render_lines (rs_lines s).

(* "xref" EOL subsections "trailer" ws ; the dictionary follows *)
Definition render_table (e0 : hdr_eol) (subs : list rsub) (e1 : hdr_eol) : bytes :=
  kw_xref ++ hdr_eol_bytes e0 ++ flat_map render_sub subs ++ kw_trailer ++ hdr_eol_bytes e1.

Definition rsub_subsection (s : rsub) : subsection := (rs_start s, map fst (rs_lines s)).

(* --- xref stream data --- *)
Fixpoint enc_field (w : nat) (x : N) : bytes :=
  match w with
  | O => []
  | S w' => enc_field w' (x / 256) ++ [x mod 256]
  end.

Definition enc_entry (w0 w1 w2 : nat) (e : stment) : bytes :=
  enc_field w0 (se_tp e) ++ enc_field w1 (se_a e) ++ enc_field w2 (se_b e).

Definition encode_stm_subs (w0 w1 w2 : nat) (subs : list stmsub) : bytes :=
  flat_map (fun s : stmsub => flat_map (enc_entry w0 w1 w2) (snd s)) subs.

Definition index_of (subs : list stmsub) : list (N * N) :=
  map (fun s : stmsub => (fst s, N.of_nat (length (snd s)))) subs.

(* an entry fits the field widths *)
Definition fits (w : nat) (x : N) : bool := (x <? 256 ^ N.of_nat w) && (x <=? max_int64).
Definition entry_fits (w0 w1 w2 : nat) (e : stment) : bool :=
  (if Nat.eqb w0 0 then se_tp e =? 1 else fits w0 (se_tp e)) && fits w1 (se_a e) && fits w2 (se_b e).
