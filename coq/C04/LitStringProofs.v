(* C04 - literal strings: reading inverts rendering for every list of choices, i.e. for every
   mix of end-of-line styles, escapes and continuations within one string. *)
From Coq Require Import List NArith Bool Lia ZifyN ZifyNat ZifyBool.
From GoPdf.Base Require Import Bytes.
From GoPdf.C04 Require Import XRef Seq LitString.
Import ListNotations.
Open Scope N_scope.

(* ---------- the reader on single pieces ---------- *)
Lemma read_raw d b R :
  (b =? 41) = false -> (b =? 40) = false -> (b =? 13) = false -> (b =? 10) = false -> (b =? 92) = false ->
  read_lit d (b :: R) = ocons b (read_lit d R).
Proof. intros H1 H2 H3 H4 H5. cbn [read_lit]. rewrite H1, H2, H3, H4, H5. reflexivity. Qed.

Lemma read_lf d R : read_lit d (10 :: R) = ocons 10 (read_lit d R).
Proof. reflexivity. Qed.

Lemma read_crlf d R : read_lit d (13 :: 10 :: R) = ocons 10 (read_lit d R).
Proof. reflexivity. Qed.

Lemma read_cr d R : starts10 R = false -> read_lit d (13 :: R) = ocons 10 (read_lit d R).
Proof.
  intros H. change (read_lit d (13 :: R)) with
    (match R with c :: s'' => if c =? 10 then ocons 10 (read_lit d s'') else ocons 10 (read_lit d R) | [] => ocons 10 (read_lit d R) end).
  destruct R as [|c R']; [reflexivity|]. cbn in H. rewrite H. reflexivity.
Qed.

Lemma read_cont_lf d R : read_lit d (92 :: 10 :: R) = read_lit d R.
Proof. reflexivity. Qed.
Lemma read_cont_crlf d R : read_lit d (92 :: 13 :: 10 :: R) = read_lit d R.
Proof. reflexivity. Qed.
Lemma read_cont_cr d R : starts10 R = false -> read_lit d (92 :: 13 :: R) = read_lit d R.
Proof.
  intros H. change (read_lit d (92 :: 13 :: R)) with
    (match R with c :: t' => if c =? 10 then read_lit d t' else read_lit d R | [] => read_lit d R end).
  destruct R as [|c R']; [reflexivity|]. cbn in H. rewrite H. reflexivity.
Qed.

Definition esc_body (d : nat) (e : byte) (t : bytes) : option (bytes * bytes) :=
  if e =? 110 then ocons 10 (read_lit d t)
  else if e =? 114 then ocons 13 (read_lit d t)
  else if e =? 116 then ocons 9 (read_lit d t)
  else if e =? 98 then ocons 8 (read_lit d t)
  else if e =? 102 then ocons 12 (read_lit d t)
  else if (e =? 40) || (e =? 41) || (e =? 92) then ocons e (read_lit d t)
  else if e =? 10 then read_lit d t
  else if e =? 13 then
    match t with
    | c :: t' => if c =? 10 then read_lit d t' else read_lit d t
    | [] => read_lit d t
    end
  else if is_oct e then
    match t with
    | d2 :: t2 =>
      if is_oct d2 then
        match t2 with
        | d3 :: t3 =>
          if is_oct d3 then ocons (((e - 48) * 64 + (d2 - 48) * 8 + (d3 - 48)) mod 256) (read_lit d t3)
          else ocons ((e - 48) * 8 + (d2 - 48)) (read_lit d t2)
        | [] => ocons ((e - 48) * 8 + (d2 - 48)) (read_lit d t2)
        end
      else ocons (e - 48) (read_lit d t)
    | [] => ocons (e - 48) (read_lit d t)
    end
  else read_lit d (e :: t).

Lemma read_bs d e t : read_lit d (92 :: e :: t) = esc_body d e t.
Proof. reflexivity. Qed.

Lemma read_oct3 d e d2 d3 t :
  is_oct e = true -> is_oct d2 = true -> is_oct d3 = true ->
  read_lit d (92 :: e :: d2 :: d3 :: t) =
  ocons (((e - 48) * 64 + (d2 - 48) * 8 + (d3 - 48)) mod 256) (read_lit d t).
Proof.
  intros O1 O2 O3. rewrite read_bs. unfold esc_body. rewrite O1, O2, O3.
  unfold is_oct in O1.
  replace (e =? 110) with false by lia. replace (e =? 114) with false by lia.
  replace (e =? 116) with false by lia. replace (e =? 98) with false by lia.
  replace (e =? 102) with false by lia.
  replace ((e =? 40) || (e =? 41) || (e =? 92)) with false by lia.
  replace (e =? 10) with false by lia. replace (e =? 13) with false by lia.
  reflexivity.
Qed.

Lemma read_octal3 d b R : b < 256 -> read_lit d (92 :: octal3 b ++ R) = ocons b (read_lit d R).
Proof.
  intros Hb. unfold octal3. cbn [app].
  assert (H64 : b / 64 < 4) by (apply N.div_lt_upper_bound; lia).
  pose proof (N.mod_upper_bound (b / 8) 8). pose proof (N.mod_upper_bound b 8).
  rewrite read_oct3 by (unfold is_oct; lia). f_equal.
  replace (48 + b / 64 - 48) with (b / 64) by lia. replace (48 + (b / 8) mod 8 - 48) with ((b / 8) mod 8) by lia.
  replace (48 + b mod 8 - 48) with (b mod 8) by lia.
  assert (E : b / 64 * 64 + (b / 8) mod 8 * 8 + b mod 8 = b).
  { pose proof (N.div_mod b 8). pose proof (N.div_mod (b / 8) 8).
    assert (b / 8 / 8 = b / 64) by (rewrite N.div_div by lia; reflexivity). lia. }
  rewrite E. apply N.mod_small. exact Hb.
Qed.

(* ---------- one byte of the value ---------- *)
Lemma lit_one_ok d b k R :
  b < 256 -> read_lit d (lit_one b k (starts10 R) ++ R) = ocons b (read_lit d R).
Proof.
  intros Hb. unfold lit_one.
  destruct ((b =? 40) || (b =? 41) || (b =? 92)) eqn:E1.
  { cbn [app]. rewrite read_bs. unfold esc_body. rewrite E1.
    replace (b =? 110) with false by lia. replace (b =? 114) with false by lia. replace (b =? 116) with false by lia.
    replace (b =? 98) with false by lia. replace (b =? 102) with false by lia. reflexivity. }
  destruct (N.eqb_spec b 13) as [->|N13].
  { destruct (k <? 10); [reflexivity|apply read_octal3; lia]. }
  destruct (N.eqb_spec b 10) as [->|N10].
  { destruct (k <? 3); [reflexivity|]. destruct (k <? 5); [apply read_octal3; lia|].
    destruct (k <? 9); [reflexivity|]. destruct (k <? 12); [|reflexivity].
    destruct (starts10 R) eqn:S; [reflexivity|]. apply read_cr. exact S. }
  destruct (N.eqb_spec b 9) as [->|N9].
  { destruct (k <? 4); [reflexivity|]. destruct (k <? 8); [apply read_octal3; lia|reflexivity]. }
  destruct (N.eqb_spec b 8) as [->|N8]; [reflexivity|].
  destruct (N.eqb_spec b 12) as [->|N12]; [reflexivity|].
  destruct (k <? 3); [apply read_octal3; exact Hb|].
  cbn [app]. apply read_raw; lia.
Qed.

Lemma lit_one_nonempty b k n : lit_one b k n <> [].
Proof.
  unfold lit_one.
  repeat match goal with |- context [if ?c then _ else _] => destruct c end; discriminate.
Qed.

Lemma lit_cont_ok d k R : read_lit d (lit_cont k (starts10 R) ++ R) = read_lit d R.
Proof.
  unfold lit_cont. destruct (k =? 0); [reflexivity|]. destruct (k =? 1).
  - destruct (starts10 R) eqn:S; [reflexivity|]. apply read_cont_cr. exact S.
  - destruct (k =? 2); reflexivity.
Qed.

Lemma starts10_app a b : a <> [] -> starts10 (a ++ b) = starts10 a.
Proof. destruct a; [congruence|reflexivity]. Qed.

(* ---------- the whole string ---------- *)
Lemma literal_string_rt_lemma : forall s c rest,
  forallb (fun b => b <? 256) s = true ->
  read_lit O (fst (render_lit_bytes s c) ++ 41 :: rest) = Some (s, rest).
Proof.
  induction s as [|b s IH]; intros c rest Hs.
  - reflexivity.
  - cbn [forallb] in Hs. apply andb_true_iff in Hs as [Hb Hs]. apply N.ltb_lt in Hb.
    cbn [render_lit_bytes].
    destruct (pick 16 c) as [k c1]. destruct (pick 20 c1) as [k2 c2].
    specialize (IH c2 rest Hs).
    destruct (render_lit_bytes s c2) as [r c3]. cbn [fst] in *.
    set (R := r ++ 41 :: rest) in *.
    assert (S1 : starts10 r = starts10 R).
    { unfold R. destruct r; reflexivity. }
    rewrite <- !app_assoc. fold R.
    assert (S2 : starts10 (lit_one b k (starts10 r) ++ r) = starts10 (lit_one b k (starts10 r) ++ R)).
    { rewrite !starts10_app by apply lit_one_nonempty. reflexivity. }
    rewrite S2, lit_cont_ok. rewrite S1, lit_one_ok by exact Hb. rewrite IH. reflexivity.
Qed.
