(* C04 - what the renderer Seq.v writes passes the checks of the reader: the side conditions
   of read_render derived from conditions on the history (instead of evaluated on the chain). *)
From Coq Require Import List NArith ZArith Bool Lia ZifyN ZifyNat ZifyBool.
From GoPdf.Base Require Import Bytes Res.
From GoPdf.Gen Require Import Gen_Consts Gen_Limits.
From GoPdf.C04 Require Import XRef XRefProofs XRefText XRefTextProofs Extent ExtentProofs Seq FileReader FileReaderProofs RenderShape.
Import ListNotations.

(* what the reader requires of a subsection of a classic table *)
Definition sub_ok (s : subsection) : bool :=
  forallb raw_ok (snd s) && (fst s + N.of_nat (length (snd s)) <=? max_xref_size)%N && (fst s <? max_xref_size)%N.

(* ---------- sorting and grouping keep the entries ---------- *)
Lemma insert_sorted_length e : forall l, length (insert_sorted e l) = S (length l).
Proof.
  induction l as [|x l IH]; cbn [insert_sorted]; [reflexivity|].
  destruct (re_num e <=? re_num x)%N; cbn [length]; [reflexivity|]. rewrite IH. reflexivity.
Qed.
Lemma sort_entries_length l : length (sort_entries l) = length l.
Proof.
  induction l as [|x l IH]; [reflexivity|]. cbn [sort_entries fold_right length].
  rewrite insert_sorted_length. f_equal. exact IH.
Qed.
Lemma insert_sorted_in e x : forall l, In x (insert_sorted e l) -> x = e \/ In x l.
Proof.
  induction l as [|y l IH]; cbn [insert_sorted]; [intros [H|[]]; auto|].
  destruct (re_num e <=? re_num y)%N; cbn [In]; [intros [H|[H|H]]; auto|intros [H|H]; auto].
  destruct (IH H); auto.
Qed.
Lemma sort_entries_in x : forall l, In x (sort_entries l) -> In x l.
Proof.
  induction l as [|y l IH]; [auto|]. cbn [sort_entries fold_right]. intros H.
  apply insert_sorted_in in H as [->|H]; [left; reflexivity|right; apply IH; exact H].
Qed.

(* a run of consecutive numbers beginning at s *)
Fixpoint consec (s : N) (l : list rentry) : bool :=
  match l with [] => true | e :: l' => (re_num e =? s)%N && consec (s + 1) l' end.

Lemma consec_app : forall a b s, consec s (a ++ b) = consec s a && consec (s + len a) b.
Proof.
  induction a as [|x a IH]; intros b s; cbn [app consec].
  - unfold len. cbn. rewrite N.add_0_r. reflexivity.
  - rewrite IH, andb_assoc. f_equal. f_equal. unfold len. cbn [length]. lia.
Qed.

Lemma consec_bound size : forall l s, consec s l = true -> l <> [] ->
  (forall e, In e l -> (re_num e < size)%N) -> (s + len l <= size)%N.
Proof.
  induction l as [|e l IH]; intros s Hc Hne Hlt; [congruence|].
  cbn [consec] in Hc. apply andb_true_iff in Hc as [He Hc]. apply N.eqb_eq in He.
  destruct l as [|e2 l].
  - pose proof (Hlt e (or_introl eq_refl)). unfold len. cbn. lia.
  - specialize (IH (s + 1)%N Hc ltac:(discriminate) (fun x Hx => Hlt x (or_intror Hx))).
    unfold len in *. cbn [length] in *. lia.
Qed.

Definition group_ok (g : N * list rentry) : Prop := snd g <> [] /\ consec (fst g) (snd g) = true.

Lemma group_aux_spec : forall l s cur c g c',
  group_aux l s cur c = (g, c') -> cur <> [] -> consec s (rev cur) = true ->
  Forall group_ok g /\ concat (map snd g) = rev cur ++ l.
Proof.
  induction l as [|e l IH]; intros s cur c g c' H Hne Hc; cbn [group_aux] in H.
  - injection H as <- _. split; [|cbn; rewrite !app_nil_r; reflexivity].
    constructor; [|constructor]. split; [|exact Hc]. cbn [snd]. intros E. apply Hne.
    apply (f_equal (@rev _)) in E. rewrite rev_involutive in E. exact E.
  - destruct (pick 5 c) as [k c1].
    destruct ((re_num e =? s + len cur)%N && negb (k =? 0)%N) eqn:T.
    + apply andb_true_iff in T as [T _]. apply N.eqb_eq in T.
      destruct (IH s (e :: cur) c1 g c' H ltac:(discriminate)) as [F E].
      { cbn [rev]. rewrite consec_app, Hc. cbn [consec]. unfold len. rewrite rev_length.
        unfold len in T. rewrite T, N.eqb_refl. reflexivity. }
      split; [exact F|]. rewrite E. cbn [rev]. rewrite <- app_assoc. reflexivity.
    + destruct (group_aux l (re_num e) [e] c1) as [r c2] eqn:E2. injection H as <- _.
      destruct (IH (re_num e) [e] c1 r c2 E2 ltac:(discriminate)) as [F E].
      { cbn. rewrite N.eqb_refl. reflexivity. }
      split.
      * constructor; [|exact F]. split; [|exact Hc]. cbn [snd]. intros E0. apply Hne.
        apply (f_equal (@rev _)) in E0. rewrite rev_involutive in E0. exact E0.
      * cbn [map concat snd]. rewrite E. reflexivity.
Qed.

Lemma group_entries_spec l c g c' :
  group_entries l c = (g, c') -> Forall group_ok g /\ concat (map snd g) = l.
Proof.
  destruct l as [|e l]; cbn [group_entries]; intros H.
  - injection H as <- _. split; [constructor|reflexivity].
  - apply group_aux_spec in H; [exact H|discriminate|]. cbn. rewrite N.eqb_refl. reflexivity.
Qed.

(* ---------- the field widths the renderer chooses fit the entries ---------- *)
Lemma width_fits x : (x < 256 ^ N.of_nat (width_of x))%N.
Proof.
  unfold width_of. rewrite N2Nat.id.
  pose proof (N.size_gt x) as H.
  assert (E : (256 ^ ((N.size x + 7) / 8) = 2 ^ (8 * ((N.size x + 7) / 8)))%N).
  { change 256%N with (2 ^ 8)%N. rewrite <- N.pow_mul_r. reflexivity. }
  rewrite E. eapply N.lt_le_trans; [exact H|]. apply N.pow_le_mono_r; [lia|].
  pose proof (N.div_mod (N.size x + 7) 8 ltac:(lia)). pose proof (N.mod_upper_bound (N.size x + 7) 8 ltac:(lia)). lia.
Qed.

Lemma fits_ge x w : (x <= max_int64)%N -> (Nat.min 8 (width_of x) <= w)%nat -> fits w x = true.
Proof.
  intros Hx Hw. unfold fits. apply andb_true_iff. split; [|apply N.leb_le; exact Hx]. apply N.ltb_lt.
  destruct (Nat.le_gt_cases 8 w) as [H8|H8].
  - eapply N.lt_le_trans with (m := (256 ^ 8)%N); [unfold max_int64 in Hx; cbn in *; lia|].
    apply N.pow_le_mono_r; lia.
  - assert (width_of x <= w)%nat by lia.
    eapply N.lt_le_trans; [apply width_fits|]. apply N.pow_le_mono_r; lia.
Qed.

Lemma fold_max_ge {A} (f : A -> nat) : forall l w, (w <= fold_left (fun w e => Nat.max w (f e)) l w)%nat.
Proof. induction l as [|x l IH]; intros w; cbn [fold_left]; [lia|]. specialize (IH (Nat.max w (f x))). lia. Qed.
Lemma fold_max_in {A} (f : A -> nat) : forall l w e, In e l -> (f e <= fold_left (fun w e => Nat.max w (f e)) l w)%nat.
Proof.
  induction l as [|x l IH]; intros w e Hin; [destruct Hin|]. destruct Hin as [->|H]; cbn [fold_left].
  - pose proof (fold_max_ge f l (Nat.max w (f e))). lia.
  - apply IH. exact H.
Qed.

Lemma max_width_ge f : forall subs w,
  (w <= fold_left (fun w (s : stmsub) => fold_left (fun w e => Nat.max w (width_of (f e))) (snd s) w) subs w)%nat.
Proof.
  induction subs as [|s subs IH]; intros w; cbn [fold_left]; [lia|].
  eapply Nat.le_trans; [apply (fold_max_ge (fun e => width_of (f e)) (snd s) w)|apply IH].
Qed.
Lemma max_width_in f : forall subs w s e, In s subs -> In e (snd s) ->
  (width_of (f e) <= fold_left (fun w (s : stmsub) => fold_left (fun w e => Nat.max w (width_of (f e))) (snd s) w) subs w)%nat.
Proof.
  induction subs as [|x subs IH]; intros w s e Hin He; [destruct Hin|]. destruct Hin as [->|Hs]; cbn [fold_left].
  - eapply Nat.le_trans; [apply (fold_max_in (fun e => width_of (f e)) (snd s) w e He)|apply max_width_ge].
  - eapply IH; eauto.
Qed.

Definition stment_small (e : stment) : Prop :=
  (se_tp e <= 2)%N /\ (se_a e <= max_int64)%N /\ (se_b e <= max_int64)%N.

Lemma choose_w_fits subs c w0 w1 w2 c' :
  choose_w subs c = ((w0, w1, w2), c') ->
  (forall s e, In s subs -> In e (snd s) -> stment_small e) ->
  forallb (fun s : stmsub => forallb (entry_fits w0 w1 w2) (snd s)) subs = true
  /\ (0 < w0 + w1 + w2)%nat /\ (w0 <= 8 /\ w1 <= 8 /\ w2 <= 8)%nat.
Proof.
  unfold choose_w.
  destruct (pick 4 c) as [k0 c0]. destruct (pick 3 c0) as [k1 c1]. destruct (pick 3 c1) as [k2 c2].
  set (a0 := if all_type1 subs && (k0 =? 0)%N then O else if (k0 =? 3)%N then 2%nat else 1%nat).
  set (a1 := Nat.min 8 (max_width se_a subs + N.to_nat k1)).
  set (a2 := Nat.min 8 (max_width se_b subs + N.to_nat k2)).
  intros H Hs. injection H as <- <- <- _.
  assert (B0 : (a0 <= 2)%nat) by (unfold a0; destruct (all_type1 subs && (k0 =? 0)%N); [lia|destruct (k0 =? 3)%N; lia]).
  split; [|split; [destruct (Nat.eqb_spec (a0 + a1 + a2) 0); lia|destruct (Nat.eqb_spec (a0 + a1 + a2) 0); unfold a1, a2 in *; lia]].
  apply forallb_forall. intros s Hin. apply forallb_forall. intros e He.
  destruct (Hs s e Hin He) as (Ht & Ha & Hb).
  unfold entry_fits. apply andb_true_iff. split; [apply andb_true_iff; split|].
  - destruct (Nat.eqb_spec a0 0) as [E0|E0].
    + unfold a0 in E0. destruct (all_type1 subs && (k0 =? 0)%N) eqn:A; [|destruct (k0 =? 3)%N; discriminate].
      apply andb_true_iff in A as [A _]. unfold all_type1 in A.
      rewrite forallb_forall in A. specialize (A s Hin). rewrite forallb_forall in A. apply A. exact He.
    + unfold fits. apply andb_true_iff. split; [|unfold max_int64; cbn; lia].
      apply N.ltb_lt. eapply N.lt_le_trans with (m := (256 ^ 1)%N); [cbn; lia|]. apply N.pow_le_mono_r; lia.
  - apply fits_ge; [exact Ha|].
    pose proof (max_width_in se_a subs O s e Hin He) as M. fold (max_width se_a subs) in M.
    destruct (Nat.eqb_spec (a0 + a1 + a2) 0); unfold a1 in *; lia.
  - apply fits_ge; [exact Hb|].
    pose proof (max_width_in se_b subs O s e Hin He) as M. fold (max_width se_b subs) in M.
    unfold a2. lia.
Qed.

(* ---------- checkXRefStreamDict accepts the dictionary the renderer writes ---------- *)
Lemma index_pairs_value size : forall subs : list stmsub,
  (forall s, In s subs -> snd s <> [] /\ (fst s + len (snd s) <= size)%N) ->
  index_pairs (Z.of_N size)
    (flat_map (fun s : stmsub => [VInt (Z.of_N (fst s)); VInt (Z.of_N (len (snd s)))]) subs)
  = Some (index_of subs).
Proof.
  induction subs as [|s subs IH]; intros H; [reflexivity|].
  cbn [flat_map app index_pairs index_of map].
  destruct (H s (or_introl eq_refl)) as [Hne Hle].
  assert (L : (0 < len (snd s))%N) by (unfold len; destruct (snd s); [congruence|cbn; lia]).
  replace (Z.of_N (fst s) <? 0)%Z with false by lia. replace (Z.of_N (len (snd s)) <=? 0)%Z with false by lia.
  replace (Z.of_N size <? Z.of_N (fst s))%Z with false by lia.
  replace (Z.of_N size - Z.of_N (fst s) <? Z.of_N (len (snd s)))%Z with false by lia.
  cbn [orb]. fold (index_of subs). rewrite IH by (intros x Hx; apply H; right; exact Hx).
  rewrite !N2Z.id. reflexivity.
Qed.

Definition count (subs : list stmsub) : nat := length (concat (map snd subs)).

Lemma total_index : forall (subs : list stmsub) t,
  fold_left (fun t (s : N * N) => (t + Z.of_N (snd s))%Z) (index_of subs) t = (t + Z.of_nat (count subs))%Z.
Proof.
  induction subs as [|s subs IH]; intros t; cbn [index_of map fold_left].
  - unfold count. cbn. lia.
  - fold (index_of subs). rewrite IH. unfold count. cbn [map concat snd]. rewrite app_length. lia.
Qed.

Lemma encode_length w0 w1 w2 : forall subs,
  length (encode_stm_subs w0 w1 w2 subs) = ((w0 + w1 + w2) * count subs)%nat.
Proof.
  assert (A : forall es, length (flat_map (enc_entry w0 w1 w2) es) = ((w0 + w1 + w2) * length es)%nat).
  { induction es as [|e es IH]; cbn [flat_map length]; [lia|]. rewrite app_length, enc_entry_length, IH. lia. }
  induction subs as [|s subs IH]; [unfold count; cbn; lia|].
  unfold encode_stm_subs, count in *. cbn [flat_map map concat]. rewrite !app_length, A, IH. lia.
Qed.

Lemma max_entries_big L : (0 <= L < 2 ^ 40)%Z -> (MaxXRefEntries L = 8192 + 32 * L)%Z.
Proof.
  intros H. unfold MaxXRefEntries. replace (L <? 0)%Z with false by lia.
  assert (S : forall x, (0 <= x < 2 ^ 63)%Z -> swrap 64 x = x).
  { intros x Hx. unfold swrap. change (2 ^ (64 - 1))%Z with (2 ^ 63)%Z.
    replace ((x + 2 ^ 63) mod 2 ^ 64)%Z with (x + 2 ^ 63)%Z by (symmetry; apply Z.mod_small; lia). lia. }
  rewrite (S (32 * L)%Z) by lia. apply S. lia.
Qed.

Definition idx_of (subs0 : list stmsub) (size k : N) : list (bytes * value) :=
  match subs0 with
  | [(0%N, es)] => if (len es =? size)%N && (k =? 0)%N then [] else [(k_Index, index_value subs0)]
  | _ => [(k_Index, index_value subs0)]
  end.
Lemma idx_cases subs0 size k :
  (idx_of subs0 size k = [] /\ exists es, subs0 = [(0%N, es)] /\ len es = size)
  \/ idx_of subs0 size k = [(k_Index, index_value subs0)].
Proof.
  unfold idx_of. destruct subs0 as [|[s0 es] r]; [right; reflexivity|].
  destruct s0 as [|q]; destruct r as [|s1 r]; try (right; reflexivity).
  destruct ((len es =? size)%N && (k =? 0)%N) eqn:T; try (right; reflexivity). apply andb_true_iff in T as [T _]. apply N.eqb_eq in T.
  left. split; [reflexivity|]. exists es. split; [reflexivity|exact T].
Qed.

Definition extra_ok (extra : trailer) : bool :=
  negb (has_dkey extra k_Length) && negb (has_dkey extra k_Filter) && negb (has_dkey extra k_Prev)
  && negb (has_dkey extra k_Index).

Definition rentry_small (size : N) (e : rentry) : Prop := (re_num e < size)%N /\ stment_small (to_stment e).

Lemma render_xref_stream_checks xnum size ents prev extra c xb subs d c' (p : option Z) :
  render_xref_stream xnum size ents prev extra c = (xb, subs, d, c') ->
  (size <= 16777216)%N -> (len ents <= 16777216)%N ->
  (forall e, In e ents -> rentry_small size e) ->
  extra_ok extra = true ->
  exists w0 w1 w2,
    w_of_dict d = Some (w0, w1, w2)
    /\ has_dkey d k_Length = false /\ has_dkey d k_Filter = false /\ has_dkey d k_Prev = false
    /\ check_xref_dict (d ++ prev_entry p) (length (encode_stm_subs w0 w1 w2 subs)) = Ok (w0, w1, w2, index_of subs)
    /\ (0 < w0 + w1 + w2)%nat
    /\ forallb (fun s : stmsub => forallb (entry_fits w0 w1 w2) (snd s)) subs = true.
Proof.
  unfold render_xref_stream.
  destruct (group_entries (sort_entries ents) c) as [g c1] eqn:G.
  set (subs0 := map (fun s : N * list rentry => (fst s, map to_stment (snd s))) g).
  destruct (choose_w subs0 c1) as [[[w0 w1] w2] c2] eqn:W.
  destruct (pick 2 c2) as [k c3]. cbv zeta.
  change (match subs0 with
          | [(0%N, es)] => if (len es =? size)%N && (k =? 0)%N then [] else [(k_Index, index_value subs0)]
          | _ => [(k_Index, index_value subs0)]
          end) with (idx_of subs0 size k).
  set (idx := idx_of subs0 size k).
  match goal with |- context [render_obj_stream xnum 0 ?dd ?dt c3] => destruct (render_obj_stream xnum 0 dd dt c3) as [b c4] end.
  intros H Hsize Hcnt Hents Hextra. injection H as _ <- <- _.
  unfold extra_ok in Hextra. apply andb_true_iff in Hextra as [Hextra XI]. apply andb_true_iff in Hextra as [Hextra XP].
  apply andb_true_iff in Hextra as [XL XF]. apply negb_true_iff in XL, XF, XP, XI.
  destruct (group_entries_spec _ _ _ _ G) as [Gok Gcat].
  (* facts about the subsections *)
  assert (Hsub : forall s, In s subs0 -> snd s <> [] /\ (fst s + len (snd s) <= size)%N).
  { intros s Hs. unfold subs0 in Hs. apply in_map_iff in Hs as (gs & <- & Hgs). cbn [fst snd].
    rewrite Forall_forall in Gok. destruct (Gok gs Hgs) as [Hne Hc].
    split; [destruct (snd gs); [congruence|discriminate]|].
    unfold len. rewrite map_length. apply (consec_bound size (snd gs) (fst gs) Hc Hne).
    intros e He. apply Hents. apply sort_entries_in. rewrite <- Gcat. apply in_concat. exists (snd gs). split; [apply in_map; exact Hgs|exact He]. }
  assert (Hsmall : forall s e, In s subs0 -> In e (snd s) -> stment_small e).
  { intros s e Hs He. unfold subs0 in Hs. apply in_map_iff in Hs as (gs & <- & Hgs). cbn [snd] in He.
    apply in_map_iff in He as (e0 & <- & He0). apply Hents. apply sort_entries_in. rewrite <- Gcat.
    apply in_concat. exists (snd gs). split; [apply in_map; exact Hgs|exact He0]. }
  assert (Hcount : count subs0 = length ents).
  { unfold count, subs0. rewrite map_map. cbn [snd]. rewrite <- (sort_entries_length ents), <- Gcat.
    clear. induction g as [|x g IH]; cbn [map concat]; [reflexivity|]. rewrite !app_length, map_length, IH. reflexivity. }
  destruct (choose_w_fits _ _ _ _ _ _ W Hsmall) as (Hfit & Hpos & B0 & B1 & B2).
  exists w0, w1, w2.
  pose proof (idx_cases subs0 size k) as Hidx. fold idx in Hidx.
  assert (HW : w_of_dict ([(k_Type, VName n_XRef); (k_Size, VInt (Z.of_N size));
                 (k_W, VArr [VInt (Z.of_nat w0); VInt (Z.of_nat w1); VInt (Z.of_nat w2)])] ++ idx ++ extra) = Some (w0, w1, w2)).
  { unfold w_of_dict. cbn [app dict_get]. change (bytes_eqb k_Type k_W) with false.
    change (bytes_eqb k_Size k_W) with false. change (bytes_eqb k_W k_W) with true. cbv beta iota.
    rewrite !Nat2Z.id. reflexivity. }
  assert (Hk : forall key, has_dkey extra key = false ->
                bytes_eqb k_Type key = false -> bytes_eqb k_Size key = false -> bytes_eqb k_W key = false -> bytes_eqb k_Index key = false ->
                has_dkey ([(k_Type, VName n_XRef); (k_Size, VInt (Z.of_N size));
                 (k_W, VArr [VInt (Z.of_nat w0); VInt (Z.of_nat w1); VInt (Z.of_nat w2)])] ++ idx ++ extra) key = false).
  { intros key Hx E1 E2 E3 E4. cbn [app has_dkey]. rewrite E1, E2, E3. cbn [orb]. rewrite has_dkey_app, Hx.
    destruct Hidx as [[-> _]| ->]; cbn [has_dkey]; [reflexivity|]. rewrite E4. reflexivity. }
  split; [exact HW|].
  split; [apply Hk; [exact XL|reflexivity..]|].
  split; [apply Hk; [exact XF|reflexivity..]|].
  split; [apply Hk; [exact XP|reflexivity..]|].
  split; [|split; [exact Hpos|exact Hfit]].
  (* checkXRefStreamDict *)
  unfold check_xref_dict. cbn [app dict_get].
  change (bytes_eqb k_Type k_Size) with false. change (bytes_eqb k_Size k_Size) with true. cbv beta iota.
  change maxXRefSize with 16777216%Z.
  replace (Z.of_N size <? 0)%Z with false by lia. replace (16777216 <? Z.of_N size)%Z with false by lia. cbn [orb].
  change (bytes_eqb k_Type k_W) with false. change (bytes_eqb k_Size k_W) with false. change (bytes_eqb k_W k_W) with true. cbv beta iota.
  unfold w_ok. replace (0 <=? Z.of_nat w0)%Z with true by lia. replace (0 <=? Z.of_nat w1)%Z with true by lia.
  replace (0 <=? Z.of_nat w2)%Z with true by lia. replace (Z.of_nat w0 <=? 8)%Z with true by lia.
  replace (Z.of_nat w1 <=? 8)%Z with true by lia. replace (Z.of_nat w2 <=? 8)%Z with true by lia.
  replace (Z.of_nat w0 + Z.of_nat w1 + Z.of_nat w2 =? 0)%Z with false by lia. cbn [andb negb orb].
  change (bytes_eqb k_Type k_Index) with false. change (bytes_eqb k_Size k_Index) with false. change (bytes_eqb k_W k_Index) with false.
  cbv beta iota.
  assert (Hss : match dict_get ((idx ++ extra) ++ prev_entry p) k_Index with
                | None | Some VNull => Some [(0%N, Z.to_N (Z.of_N size))]
                | Some (VArr l) => index_pairs (Z.of_N size) l
                | Some _ => None
                end = Some (index_of subs0)).
  { destruct Hidx as [[-> (es & E & L)]| ->].
    - cbn [app]. rewrite dict_get_app, (dict_get_none _ _ XI).
      assert (dict_get (prev_entry p) k_Index = None) as -> by (destruct p; reflexivity).
      rewrite E. cbn [index_of map fst snd]. rewrite N2Z.id. unfold len in L. rewrite L. reflexivity.
    - cbn [app dict_get]. change (bytes_eqb k_Index k_Index) with true. cbv beta iota.
      unfold index_value. apply index_pairs_value. exact Hsub. }
  rewrite Hss.
  rewrite total_index, Hcount, encode_length, Hcount.
  unfold len in Hcnt.
  assert (Hprod : (0 <= Z.of_nat ((w0 + w1 + w2) * length ents) <= 24 * 16777216)%Z).
  { split; [lia|]. rewrite Nat2Z.inj_mul.
    apply Z.le_trans with (m := (24 * Z.of_nat (length ents))%Z); [apply Z.mul_le_mono_nonneg_r; lia|lia]. }
  rewrite max_entries_big by (change (2 ^ 40)%Z with 1099511627776%Z; lia).
  assert (Hge : (Z.of_nat (length ents) <= Z.of_nat ((w0 + w1 + w2) * length ents))%Z).
  { rewrite Nat2Z.inj_mul. replace (Z.of_nat (length ents)) with (1 * Z.of_nat (length ents))%Z at 1 by lia.
    apply Z.mul_le_mono_nonneg_r; lia. }
  replace (Z.min 16777216 (8192 + 32 * Z.of_nat ((w0 + w1 + w2) * length ents)) <? 0 + Z.of_nat (length ents))%Z with false by lia.
  rewrite !Nat2Z.id. reflexivity.
Qed.

(* ---------- the entries of a revision are within the ranges of the file formats ---------- *)
Definition lim10 : N := 10000000000.
Lemma lim10_eq : lim10 = (10 ^ 10)%N. Proof. reflexivity. Qed.

(* [lim]: a bound on the offsets (the end of the revision's text) *)
Definition ent_ok (size lim : N) (e : rentry) : Prop :=
  (re_num e < size)%N /\
  match snd (fst e) with
  | Free g => (g <= 65535)%N /\ (snd e < lim10)%N
  | InUse g off => (g <= 65535)%N /\ (0 <= off <= Z.of_N lim)%Z
  | InStm s i => (s < 16777216)%N /\ (i < 16777216)%N
  end.

Lemma ent_ok_mono size lim lim' e : (lim <= lim')%N -> ent_ok size lim e -> ent_ok size lim' e.
Proof.
  intros L [H1 H2]. split; [exact H1|]. destruct (snd (fst e)); try exact H2. destruct H2. split; lia.
Qed.

Lemma ent_ok_small size lim e : (lim < lim10)%N -> ent_ok size lim e -> rentry_small size e.
Proof.
  intros L [H1 H2]. unfold lim10 in *. split; [exact H1|].
  unfold stment_small, to_stment. change max_int64 with 9223372036854775807%N.
  destruct (snd (fst e)); cbn [se_tp se_a se_b]; lia.
Qed.

Lemma ent_ok_raw size lim e : (lim < lim10)%N -> ent_ok size lim e -> raw_ok (to_rawent e) = true.
Proof.
  intros L [H1 H2]. unfold lim10 in *. unfold raw_ok, to_rawent. change max_generation with 65535%N.
  change (10 ^ 10)%Z with 10000000000%Z.
  destruct (snd (fst e)); cbn [re_a re_b]; lia.
Qed.

Definition act_ok (size : N) (a : action) : bool :=
  match a with
  | ADefine num gen _ => (num <? size)%N && (gen <=? 65535)%N
  | ADefineC num _ => (num <? size)%N
  | AFree num gen next => (num <? size)%N && (gen <=? 65535)%N && (next <? lim10)%N
  end.

Lemma render_body_ents size : forall acts pos c body es ps ms c',
  render_body acts pos c = (body, es, ps, ms, c') ->
  forallb (act_ok size) acts = true ->
  (forall e, In e es -> ent_ok size (pos + len body) e)
  /\ (forall nv, In nv ms -> (fst nv < size)%N)
  /\ (length es + length ms <= length acts)%nat.
Proof.
  induction acts as [|a acts IH]; intros pos c body es ps ms c' H Hok; cbn [render_body] in H.
  - injection H as <- <- _ <- _. split; [intros x []|split; [intros x []|cbn; lia]].
  - cbn [forallb] in Hok. apply andb_true_iff in Hok as [Ha Hok].
    destruct a as [num gen [v|d data]|num v|num gen next]; cbn [act_ok] in Ha.
    + destruct (render_obj_val num gen v c) as [b c1].
      destruct (render_body acts (pos + len b) c1) as [[[[r es1] ps1] ms1] c2] eqn:E.
      injection H as <- <- _ <- _. destruct (IH _ _ _ _ _ _ _ E Hok) as (H1 & H2 & H3).
      split; [|split; [exact H2|cbn [length]; lia]].
      intros e [<-|He].
      * unfold ent_ok, re_num. cbn [fst snd]. rewrite len_app. lia.
      * eapply ent_ok_mono; [|apply H1; exact He]. rewrite len_app. lia.
    + destruct (render_obj_stream num gen d data c) as [b c1].
      destruct (render_body acts (pos + len b) c1) as [[[[r es1] ps1] ms1] c2] eqn:E.
      injection H as <- <- _ <- _. destruct (IH _ _ _ _ _ _ _ E Hok) as (H1 & H2 & H3).
      split; [|split; [exact H2|cbn [length]; lia]].
      intros e [<-|He].
      * unfold ent_ok, re_num. cbn [fst snd]. rewrite len_app. lia.
      * eapply ent_ok_mono; [|apply H1; exact He]. rewrite len_app. lia.
    + destruct (render_body acts pos c) as [[[[r es1] ps1] ms1] c2] eqn:E.
      injection H as <- <- _ <- _. destruct (IH _ _ _ _ _ _ _ E Hok) as (H1 & H2 & H3).
      split; [exact H1|]. split; [|cbn [length]; lia].
      intros nv [<-|Hn]; [cbn [fst]; lia|apply H2; exact Hn].
    + destruct (render_body acts pos c) as [[[[r es1] ps1] ms1] c2] eqn:E.
      injection H as <- <- _ <- _. destruct (IH _ _ _ _ _ _ _ E Hok) as (H1 & H2 & H3).
      split; [|split; [exact H2|cbn [length]; lia]].
      intros e [<-|He]; [|apply H1; exact He].
      unfold ent_ok, re_num. cbn [fst snd]. lia.
Qed.

Lemma member_entries_ok size lim onum : forall ms i,
  (onum < 16777216)%N -> (forall nv, In nv ms -> (fst nv < size)%N) -> (i + len ms <= 16777216)%N ->
  (forall e, In e (member_entries onum ms i) -> ent_ok size lim e)
  /\ length (member_entries onum ms i) = length ms.
Proof.
  induction ms as [|[n v] ms IH]; intros i Ho Hms Hi; cbn [member_entries].
  - split; [intros e []|reflexivity].
  - unfold len in Hi. cbn [length] in Hi.
    destruct (IH (i + 1)%N Ho (fun nv H => Hms nv (or_intror H)) ltac:(unfold len; lia)) as [H1 H2].
    split; [|cbn [length]; rewrite H2; reflexivity].
    intros e [<-|He]; [|apply H1; exact He].
    unfold ent_ok, re_num. cbn [fst snd]. pose proof (Hms (n, v) (or_introl eq_refl)). cbn [fst] in *. lia.
Qed.

Lemma split_hybrid_ok size lim : forall l c t s c',
  split_hybrid l c = (t, s, c') -> (forall e, In e l -> ent_ok size lim e) ->
  (forall e, In e t -> ent_ok size lim e) /\ (forall e, In e s -> ent_ok size lim e)
  /\ (length t <= length l)%nat /\ (length s <= length l)%nat.
Proof.
  induction l as [|e l IH]; intros c t s c' H Hl; cbn [split_hybrid] in H.
  - injection H as <- <- _. split; [intros x []|split; [intros x []|split; cbn; lia]].
  - destruct (pick 6 c) as [k c1]. destruct (split_hybrid l c1) as [[t1 s1] c2] eqn:E.
    destruct (IH _ _ _ _ E (fun x Hx => Hl x (or_intror Hx))) as (T & S & LT & LS).
    pose proof (Hl e (or_introl eq_refl)) as He.
    assert (Hfree : forall g, (g <= 65535)%N -> ent_ok size lim (re_num e, Free g, 0%N)).
    { intros g Hg. destruct He as [He _]. unfold ent_ok, re_num, lim10 in *. cbn [fst snd]. cbn. lia. }
    destruct (is_instm e || (k <? 3)%N && negb (re_num e =? 0)%N).
    + destruct ((k =? 0)%N || (k =? 1)%N && is_instm e); injection H as <- <- _; cbn [length].
      * split; [|split; [|split; lia]].
        -- intros x [<-|Hx]; [apply Hfree; destruct (k =? 0)%N; lia|apply T; exact Hx].
        -- intros x [<-|Hx]; [exact He|apply S; exact Hx].
      * split; [exact T|split; [|split; lia]]. intros x [<-|Hx]; [exact He|apply S; exact Hx].
    + injection H as <- <- _. cbn [length]. split; [|split; [exact S|split; lia]].
      intros x [<-|Hx]; [exact He|apply T; exact Hx].
Qed.

(* ---------- the classic table the renderer writes ---------- *)
Lemma with_line_eols_fst : forall es c ls c', with_line_eols es c = (ls, c') -> map fst ls = map to_rawent es.
Proof.
  induction es as [|e es IH]; intros c ls c' H; cbn [with_line_eols] in H.
  - injection H as <- _. reflexivity.
  - destruct (pick_line_eol c) as [x c1]. destruct (with_line_eols es c1) as [r c2] eqn:E.
    injection H as <- _. cbn [map fst]. f_equal. eapply IH. exact E.
Qed.

Lemma to_rsubs_subsections : forall g c rsubs c',
  to_rsubs g c = (rsubs, c') ->
  map rsub_subsection rsubs = map (fun gs : N * list rentry => (fst gs, map to_rawent (snd gs))) g.
Proof.
  induction g as [|[s es] g IH]; intros c rsubs c' H; cbn [to_rsubs] in H.
  - injection H as <- _. reflexivity.
  - destruct (with_line_eols es c) as [ls c1] eqn:E1. destruct (pick_hdr_eol c1) as [h c2].
    destruct (to_rsubs g c2) as [r c3] eqn:E2. injection H as <- _.
    cbn [map]. f_equal; [|eapply IH; exact E2].
    unfold rsub_subsection. cbn [rs_start rs_lines fst snd]. f_equal. eapply with_line_eols_fst. exact E1.
Qed.

Lemma table_subs_ok size lim ents c g c1 rsubs c2 :
  group_entries (sort_entries ents) c = (g, c1) -> to_rsubs g c1 = (rsubs, c2) ->
  (size <= 16777216)%N -> (lim < lim10)%N -> (forall e, In e ents -> ent_ok size lim e) ->
  forallb sub_ok (map rsub_subsection rsubs) = true.
Proof.
  intros G T Hsize Hlim Hents.
  rewrite (to_rsubs_subsections _ _ _ _ T).
  destruct (group_entries_spec _ _ _ _ G) as [Gok Gcat].
  apply forallb_forall. intros s Hs. apply in_map_iff in Hs as (gs & <- & Hgs).
  rewrite Forall_forall in Gok. destruct (Gok gs Hgs) as [Hne Hc].
  assert (Hin : forall e, In e (snd gs) -> In e ents).
  { intros e He. apply sort_entries_in. rewrite <- Gcat. apply in_concat. exists (snd gs). split; [apply in_map; exact Hgs|exact He]. }
  pose proof (consec_bound size (snd gs) (fst gs) Hc Hne (fun e He => proj1 (Hents e (Hin e He)))) as B.
  unfold sub_ok. cbn [fst snd]. rewrite map_length. change max_xref_size with 16777216%N.
  assert (L : (0 < len (snd gs))%N) by (unfold len; destruct (snd gs); [congruence|cbn; lia]).
  unfold len in *.
  apply andb_true_iff. split; [apply andb_true_iff; split|]; [|lia|lia].
  apply forallb_forall. intros x Hx. apply in_map_iff in Hx as (e & <- & He).
  eapply ent_ok_raw; [exact Hlim|]. apply Hents, Hin, He.
Qed.

(* the dictionary of a hybrid section's xref stream has no key the reader keeps *)
Lemma render_xref_stream_keep xnum size ents prev c xb subs d c' :
  render_xref_stream xnum size ents prev [] c = (xb, subs, d, c') -> keep_trailer d = [].
Proof.
  unfold render_xref_stream.
  destruct (group_entries (sort_entries ents) c) as [g c1].
  set (subs0 := map (fun s : N * list rentry => (fst s, map to_stment (snd s))) g).
  destruct (choose_w subs0 c1) as [[[w0 w1] w2] c2].
  destruct (pick 2 c2) as [k c3]. cbv zeta.
  change (match subs0 with
          | [(0%N, es)] => if (len es =? size)%N && (k =? 0)%N then [] else [(k_Index, index_value subs0)]
          | _ => [(k_Index, index_value subs0)]
          end) with (idx_of subs0 size k).
  match goal with |- context [render_obj_stream xnum 0 ?dd ?dt c3] => destruct (render_obj_stream xnum 0 dd dt c3) as [b c4] end.
  intros H. injection H as _ _ <- _.
  destruct (idx_cases subs0 size k) as [[-> _]| ->]; reflexivity.
Qed.
