(* C04 - the reader of literal strings as ISO 32000 7.3.4.2 specifies it (definitions only):
   balanced parentheses, the escapes \n \r \t \b \f \( \) \\ \ddd (one to three octal
   digits, high-order overflow ignored), a backslash followed by an end-of-line is dropped, a
   backslash before any other character is ignored, and every raw end-of-line - LF, CR or
   CR LF - reads as one LF. *)
From Coq Require Import List NArith Bool.
From GoPdf.Base Require Import Bytes.
Import ListNotations.
Open Scope N_scope.

Definition ocons (b : byte) (r : option (bytes * bytes)) : option (bytes * bytes) :=
  match r with Some (s, rest) => Some (b :: s, rest) | None => None end.

Definition is_oct (d : byte) : bool := (48 <=? d) && (d <=? 55).

(* the input after the opening parenthesis; result: the string and the input after the closing one *)
Fixpoint read_lit (depth : nat) (s : bytes) : option (bytes * bytes) :=
  match s with
  | [] => None
  | b :: s' =>
    if b =? 41 then
      match depth with O => Some ([], s') | S d => ocons 41 (read_lit d s') end
    else if b =? 40 then ocons 40 (read_lit (S depth) s')
    else if b =? 13 then
      match s' with
      | c :: s'' => if c =? 10 then ocons 10 (read_lit depth s'') else ocons 10 (read_lit depth s')
      | [] => ocons 10 (read_lit depth s')
      end
    else if b =? 10 then ocons 10 (read_lit depth s')
    else if b =? 92 then
      match s' with
      | [] => None
      | e :: t =>
        if e =? 110 then ocons 10 (read_lit depth t)
        else if e =? 114 then ocons 13 (read_lit depth t)
        else if e =? 116 then ocons 9 (read_lit depth t)
        else if e =? 98 then ocons 8 (read_lit depth t)
        else if e =? 102 then ocons 12 (read_lit depth t)
        else if (e =? 40) || (e =? 41) || (e =? 92) then ocons e (read_lit depth t)
        else if e =? 10 then read_lit depth t
        else if e =? 13 then
          match t with
          | c :: t' => if c =? 10 then read_lit depth t' else read_lit depth t
          | [] => read_lit depth t
          end
        else if is_oct e then
          match t with
          | d2 :: t2 =>
            if is_oct d2 then
              match t2 with
              | d3 :: t3 =>
                if is_oct d3 then ocons (((e - 48) * 64 + (d2 - 48) * 8 + (d3 - 48)) mod 256) (read_lit depth t3)
                else ocons ((e - 48) * 8 + (d2 - 48)) (read_lit depth t2)
              | [] => ocons ((e - 48) * 8 + (d2 - 48)) (read_lit depth t2)
              end
            else ocons (e - 48) (read_lit depth t)
          | [] => ocons (e - 48) (read_lit depth t)
          end
        else read_lit depth s'          (* the backslash is ignored *)
      end
    else ocons b (read_lit depth s')
  end.
