(* C04 - read_render: the reader on bytes, opened on the file the renderer wrote, returns
   the table and trailer the specification gives for the rendered history (classic, stream
   and hybrid sections; every choice of white space, EOLs, subsections, /W, /Index, junk). *)
From Coq Require Import List NArith ZArith Bool Lia ZifyN ZifyNat ZifyBool.
From GoPdf.Base Require Import Bytes Res.
From GoPdf.Gen Require Import Gen_Consts.
From GoPdf.C04 Require Import XRef XRefProofs XRefText XRefTextProofs Extent ExtentProofs Seq FileReader FileReaderProofs RenderShape RenderChecks.
Import ListNotations.

(* ---------- what the reader checks of a section (decidable) ---------- *)

Lemma rsub_ok_eq rs : rsub_ok rs = sub_ok (rsub_subsection rs).
Proof.
  unfold rsub_ok, sub_ok, rsub_subsection. cbn [fst snd]. rewrite map_length. f_equal. f_equal.
  induction (rs_lines rs) as [|x l IH]; cbn [forallb map]; [reflexivity|]. rewrite IH. reflexivity.
Qed.

Lemma forallb_rsub_ok rsubs : forallb sub_ok (map rsub_subsection rsubs) = true -> forallb rsub_ok rsubs = true.
Proof.
  induction rsubs as [|r l IH]; cbn [map forallb]; [reflexivity|]. intros H. apply andb_true_iff in H as [H1 H2].
  rewrite rsub_ok_eq, H1, IH by exact H2. reflexivity.
Qed.

Fixpoint ss_eqb (a b : list (N * N)) : bool :=
  match a, b with
  | [], [] => true
  | (x1, y1) :: a', (x2, y2) :: b' => (x1 =? x2)%N && (y1 =? y2)%N && ss_eqb a' b'
  | _, _ => false
  end.
Lemma ss_eqb_eq : forall a b, ss_eqb a b = true -> a = b.
Proof.
  induction a as [|[x1 y1] a IH]; intros [|[x2 y2] b] H; cbn in H; try discriminate; [reflexivity|].
  apply andb_true_iff in H as [H H3]. apply andb_true_iff in H as [H1 H2].
  apply N.eqb_eq in H1, H2. subst. f_equal. apply IH. exact H3.
Qed.

Definition check_is (r : res (nat * nat * nat * list (N * N))) (w0 w1 w2 : nat) (ss : list (N * N)) : bool :=
  match r with
  | Ok (a, b, c, s) => Nat.eqb a w0 && Nat.eqb b w1 && Nat.eqb c w2 && ss_eqb s ss
  | Err _ => false
  end.
Lemma check_is_eq r w0 w1 w2 ss : check_is r w0 w1 w2 ss = true -> r = Ok (w0, w1, w2, ss).
Proof.
  destruct r as [[[[a b] c] s]|]; cbn; [|discriminate]. intros H.
  apply andb_true_iff in H as [H H4]. apply andb_true_iff in H as [H H3]. apply andb_true_iff in H as [H1 H2].
  apply Nat.eqb_eq in H1, H2, H3. apply ss_eqb_eq in H4. subst. reflexivity.
Qed.

(* what has to hold of a section for the byte-level reader to accept its text: field ranges of
   the table lines, a trailer without /Prev and /XRefStm of its own, and for an xref stream that
   checkXRefStreamDict accepts the dictionary with the widths and subsections that were written *)
Definition sec_check (r : rsec) (prev : option Z) : bool :=
  match r with
  | RTable _ subs tr => forallb sub_ok subs && negb (has_dkey tr k_Prev) && negb (has_dkey tr k_XRefStm)
  | RStream _ subs d =>
    match w_of_dict d with
    | Some (w0, w1, w2) =>
      negb (has_dkey d k_Length) && negb (has_dkey d k_Filter) && negb (has_dkey d k_Prev)
      && check_is (check_xref_dict (d ++ prev_entry prev) (length (encode_stm_subs w0 w1 w2 subs))) w0 w1 w2 (index_of subs)
      && Nat.ltb 0 (w0 + w1 + w2)
      && forallb (fun s : stmsub => forallb (entry_fits w0 w1 w2) (snd s)) subs
    | None => false
    end
  | RHybrid _ subs _ _ tr => forallb sub_ok subs && negb (has_dkey tr k_Prev) && negb (has_dkey tr k_XRefStm)
  end.
Definition hyb_image (f : bytes) (hdr : nat) (sec : rsec) : Prop :=
  match sec with
  | RHybrid _ _ so ssubs _ => exists d, keep_trailer d = [] /\ stream_image f hdr so ssubs d None
  | _ => True
  end.

Lemma sec_check_image f hdr sec prev xnum text rest :
  text_of sec prev xnum text -> sec_check sec prev = true -> (xnum < 16777216)%N ->
  at_off f hdr (rsec_off sec) = text ++ rest ->
  hyb_image f hdr sec ->
  rsec_image f hdr sec prev.
Proof.
  destruct sec as [o subs tr|o subs d|o subs so ssubs tr]; cbn [text_of sec_check rsec_image rsec_off hyb_image]; intros Ht Hc Hx Hat Hhyb.
  - destruct Ht as (e0 & rsubs & e1 & cd & -> & ->).
    apply andb_true_iff in Hc as [Hc H2]. apply andb_true_iff in Hc as [Hc H1].
    apply negb_true_iff in H1, H2.
    exists e0, rsubs, e1, cd, rest. repeat split.
    + apply forallb_rsub_ok. exact Hc.
    + apply dict_get_none. exact H1.
    + apply dict_get_none. exact H2.
    + rewrite Hat, <- app_assoc. reflexivity.
  - destruct Ht as (w0 & w1 & w2 & sA & sB & s1 & cd & s2 & e0 & e1 & s3 & Hw & HA & HB & H1 & H2 & H3 & He0 & He1 & ->).
    rewrite Hw in Hc.
    apply andb_true_iff in Hc as [Hc Hfit]. apply andb_true_iff in Hc as [Hc Hsum].
    apply andb_true_iff in Hc as [Hc Hchk]. apply andb_true_iff in Hc as [Hc HP].
    apply andb_true_iff in Hc as [HL HF]. apply negb_true_iff in HL, HF, HP.
    apply check_is_eq in Hchk. apply Nat.ltb_lt in Hsum.
    exists xnum, sA, sB, s1, cd, s2, e0, e1, s3, w0, w1, w2, rest.
    repeat split; try assumption; try apply HA; try apply HB.
    rewrite Hat. rewrite (assoc15 (fmt_N xnum)). reflexivity.
  - destruct Ht as (e0 & rsubs & e1 & cd & -> & ->).
    apply andb_true_iff in Hc as [Hc H2]. apply andb_true_iff in Hc as [Hc H1].
    apply negb_true_iff in H1, H2.
    split; [exact Hhyb|].
    exists e0, rsubs, e1, cd, rest. repeat split.
    + apply forallb_rsub_ok. exact Hc.
    + apply dict_get_none. exact H1.
    + apply dict_get_none. exact H2.
    + rewrite Hat, <- app_assoc. reflexivity.
Qed.

(* ---------- one revision: its shape and that the reader's checks accept it ---------- *)
Definition rev_ok (r : drev) : bool :=
  forallb (act_ok (d_size r)) (d_acts r)
  && (d_size r <=? 16777216)%N && (d_xnum r <? d_size r)%N && (d_onum r <? d_size r)%N
  && (len (d_acts r) + 3 <=? 16777216)%N
  && extra_ok (d_extra r) && negb (has_dkey (d_extra r) k_XRefStm).

(* the xref stream of a hybrid revision lies in the part of the revision before the table *)
Definition hyb_of (sec : rsec) (xnum pos : N) (pre : bytes) : Prop :=
  match sec with
  | RHybrid _ _ so ssubs _ =>
    exists pre1 xtext e d, pre = pre1 ++ xtext ++ e /\ so = Z.of_N (pos + len pre1)
      /\ text_of (RStream so ssubs d) None xnum xtext /\ keep_trailer d = []
      /\ sec_check (RStream so ssubs d) None = true
  | _ => True
  end.

Lemma ss_eqb_refl : forall a, ss_eqb a a = true.
Proof. induction a as [|[x y] a IH]; cbn; [reflexivity|]. rewrite !N.eqb_refl, IH. reflexivity. Qed.

Lemma stream_checks_sec_check o subs d p w0 w1 w2 :
  w_of_dict d = Some (w0, w1, w2) ->
  has_dkey d k_Length = false -> has_dkey d k_Filter = false -> has_dkey d k_Prev = false ->
  check_xref_dict (d ++ prev_entry p) (length (encode_stm_subs w0 w1 w2 subs)) = Ok (w0, w1, w2, index_of subs) ->
  (0 < w0 + w1 + w2)%nat ->
  forallb (fun s : stmsub => forallb (entry_fits w0 w1 w2) (snd s)) subs = true ->
  sec_check (RStream o subs d) p = true.
Proof.
  intros Hw HL HF HP Hc Hpos Hfit. cbn [sec_check]. rewrite Hw, HL, HF, HP, Hc, Hfit. cbn [negb andb check_is].
  rewrite !Nat.eqb_refl, ss_eqb_refl. cbn [andb]. rewrite andb_true_r. apply Nat.ltb_lt. exact Hpos.
Qed.

Lemma render_xref_stream_text xnum size ents prev extra c xb subs d c' o :
  render_xref_stream xnum size ents prev extra c = (xb, subs, d, c') ->
  exists xtext e, xb = xtext ++ e /\ eolch e /\ text_of (RStream o subs d) (opt_prev prev) xnum xtext.
Proof.
  intros Ex.
  destruct (render_xref_stream_shape _ _ _ _ _ _ _ _ _ _ Ex)
    as (w0 & w1 & w2 & sA & sB & s1 & cd & s2 & e0 & e1 & s3 & e & Hw & HA & HB & Hs1 & Hs2 & Hs3 & He0 & He1 & Hee & Hxb).
  eexists _, e. split; [rewrite Hxb; apply assoc15|]. split; [exact Hee|].
  cbn [text_of]. exists w0, w1, w2, sA, sB, s1, cd, s2, e0, e1, s3. repeat split; try assumption; try apply HA; try apply HB.
Qed.

Lemma render_revision_spec r pos prev c b sec ps c' lim p :
  render_revision r pos prev c = (b, sec, ps, c') ->
  rev_ok r = true -> (pos + len b <= lim)%N -> (lim < lim10)%N ->
  exists pre text post,
    b = pre ++ text ++ post /\ rsec_off sec = Z.of_N (pos + len pre) /\
    text_of sec (opt_prev prev) (d_xnum r) text /\ post_of (rsec_off sec) post /\
    sec_check sec p = true /\ hyb_of sec (d_xnum r) pos pre.
Proof.
  unfold render_revision, rev_ok.
  intros H Hok Hlim Hl10.
  apply andb_true_iff in Hok as [Hok HXS]. apply andb_true_iff in Hok as [Hok Hextra].
  apply andb_true_iff in Hok as [Hok Hcnt]. apply andb_true_iff in Hok as [Hok Honum].
  apply andb_true_iff in Hok as [Hok Hxnum]. apply andb_true_iff in Hok as [Hacts Hsize].
  apply N.leb_le in Hcnt, Hsize. apply N.ltb_lt in Honum, Hxnum. apply negb_true_iff in HXS.
  set (size := d_size r) in *.
  destruct (render_body (d_acts r) pos c) as [[[[body es] ps0] ms] c1] eqn:EB.
  destruct (render_body_ents size _ _ _ _ _ _ _ _ EB Hacts) as (Hes & Hms & Hlen).
  unfold len in Hcnt.
  (* the object stream *)
  set (X := match ms with [] => _ | _ :: _ => _ end) in H.
  assert (HOB : forall ob oes ops c2, X = (ob, oes, ops, c2) ->
            (forall e, In e oes -> ent_ok size (pos + len body) e) /\ (length oes <= S (length ms))%nat).
  { intros ob oes ops c2 E. unfold X in E. clear X H. destruct ms as [|m0 ms'] eqn:Ems.
    - injection E as _ <- _ _. split; [intros e []|cbn; lia].
    - rewrite <- Ems in *. destruct (objstm_parts ms c1) as [[d data] c'0].
      destruct (render_obj_stream (d_onum r) 0 d data c'0) as [b0 c''].
      injection E as _ <- _ _.
      destruct (member_entries_ok size (pos + len body) (d_onum r) ms 0 ltac:(lia) Hms ltac:(unfold len; lia)) as [M1 M2].
      split; [|cbn [length]; unfold rentry in *; rewrite M2; apply le_n].
      intros e [<-|He]; [|apply M1; exact He].
      unfold ent_ok, re_num. cbn [fst snd]. lia. }
  destruct X as [[[ob oes] ops] c2].
  destruct (HOB _ _ _ _ eq_refl) as [Hoes Hloes]. clear HOB.
  assert (Hextra' := Hextra). unfold extra_ok in Hextra'.
  apply andb_true_iff in Hextra' as [Hx XI]. apply andb_true_iff in Hx as [Hx XP]. apply andb_true_iff in Hx as [XL XF].
  apply negb_true_iff in XL, XF, XP, XI.
  assert (Htr : negb (has_dkey ((k_Size, VInt (Z.of_N size)) :: d_extra r) k_Prev) = true
                /\ negb (has_dkey ((k_Size, VInt (Z.of_N size)) :: d_extra r) k_XRefStm) = true).
  { cbn [has_dkey]. change (bytes_eqb k_Size k_Prev) with false. change (bytes_eqb k_Size k_XRefStm) with false.
    cbn [orb]. rewrite XP, HXS. split; reflexivity. }
  destruct Htr as [HtrP HtrX].
  assert (Hcount : (len (es ++ oes) + 2 <= 16777216)%N).
  { unfold len. rewrite app_length. unfold rentry in *. lia. }
  assert (Hents : (pos + len body + len ob <= lim)%N -> forall e, In e (es ++ oes) -> ent_ok size lim e).
  { intros Hb e He. apply in_app_or in He as [He|He]; (eapply ent_ok_mono; [|eauto]); lia. }
  destruct (d_kind r) eqn:K.
  - (* classic table *)
    destruct (group_entries (sort_entries (es ++ oes)) c2) as [g c3] eqn:G.
    destruct (to_rsubs g c3) as [rsubs c4] eqn:T.
    destruct (pick_hdr_eol c4) as [e0 c5]. destruct (pick_hdr_eol c5) as [e1 c6].
    destruct (rv (VDict (((k_Size, VInt (Z.of_N size)) :: d_extra r) ++ opt_entry k_Prev prev)) c6) as [db c7] eqn:Edb.
    pose proof (eolc_cases c7) as He2. destruct (eolc c7) as [e2 c8].
    destruct (render_startxref_shape (pos + len body + len ob) c8) as (x1 & x2 & x3 & Hx1 & Hx2 & Hx3 & Hsx).
    destruct (render_startxref (pos + len body + len ob) c8) as [sx c9]. cbn [fst] in Hsx, He2.
    injection H as Hb Hsec Hps Hc. subst b sec.
    rewrite !len_app in Hlim.
    exists (body ++ ob), (render_table e0 rsubs e1 ++ db), (e2 ++ sx).
    split; [rewrite <- (app_assoc body ob), <- (app_assoc (render_table e0 rsubs e1) db); reflexivity|].
    split; [cbn [rsec_off]; rewrite len_app; f_equal; lia|].
    split; [|split; [|split; [|exact I]]].
    + cbn [text_of]. exists e0, rsubs, e1, c6. split; [reflexivity|].
      rewrite <- opt_entry_prev, Edb. reflexivity.
    + exists e2, x1, x2, x3. cbn [rsec_off]. rewrite N2Z.id, Hsx. auto.
    + cbn [sec_check]. rewrite HtrP, HtrX, !andb_true_r.
      eapply (table_subs_ok size lim); eauto. apply Hents. lia.
  - (* cross-reference stream *)
    destruct (render_xref_stream (d_xnum r) size
                ((d_xnum r, InUse 0 (Z.of_N (pos + len body + len ob)), 0%N) :: es ++ oes) prev (d_extra r) c2)
      as [[[xb subs] d] c3] eqn:Ex.
    destruct (render_xref_stream_shape _ _ _ _ _ _ _ _ _ _ Ex)
      as (w0 & w1 & w2 & sA & sB & s1 & cd & s2 & e0 & e1 & s3 & e & Hw & HA & HB & Hs1 & Hs2 & Hs3 & He0 & He1 & Hee & Hxb).
    destruct (render_startxref_shape (pos + len body + len ob) c3) as (x1 & x2 & x3 & Hx1 & Hx2 & Hx3 & Hsx).
    destruct (render_startxref (pos + len body + len ob) c3) as [sx c4]. cbn [fst] in Hsx.
    injection H as Hb Hsec Hps Hc. subst b sec.
    rewrite !len_app in Hlim.
    assert (Hck : sec_check (RStream (Z.of_N (pos + len body + len ob)) subs d) p = true).
    { destruct (render_xref_stream_checks _ _ _ _ _ _ _ _ _ _ p Ex Hsize) as (v0 & v1 & v2 & Vw & VL & VF & VP & Vc & Vpos & Vfit).
      - unfold len in *. cbn [length]. unfold rentry in *. lia.
      - intros x [<-|Hx']; [|eapply ent_ok_small; [exact Hl10|apply Hents; [lia|exact Hx']]].
        eapply ent_ok_small; [exact Hl10|]. unfold ent_ok, re_num. cbn [fst snd]. lia.
      - exact Hextra.
      - eapply stream_checks_sec_check; eauto. }
    eexists (body ++ ob), _, (e ++ sx).
    split; [rewrite Hxb, assoc15, <- (app_assoc body ob), <- app_assoc; reflexivity|].
    split; [cbn [rsec_off]; rewrite len_app; f_equal; lia|].
    split; [|split; [|split; [exact Hck|exact I]]].
    + cbn [text_of]. exists w0, w1, w2, sA, sB, s1, cd, s2, e0, e1, s3. repeat split; try assumption; try apply HA; try apply HB.
    + exists e, x1, x2, x3. cbn [rsec_off]. rewrite N2Z.id, Hsx.
      repeat split; auto.
  - (* hybrid *)
    destruct (split_hybrid (es ++ oes) c2) as [[tents sents] c3] eqn:SH.
    destruct (render_xref_stream (d_xnum r) size
                ((d_xnum r, InUse 0 (Z.of_N (pos + len body + len ob)), 0%N) :: sents) None [] c3)
      as [[[xb ssubs] d] c4] eqn:Ex.
    destruct (render_xref_stream_text _ _ _ _ _ _ _ _ _ _ (Z.of_N (pos + len body + len ob)) Ex) as (xtext & e & Hxb & Hee & Htext).
    destruct (group_entries (sort_entries tents) c4) as [g c5] eqn:G.
    destruct (to_rsubs g c5) as [rsubs c6] eqn:T.
    destruct (pick_hdr_eol c6) as [e0 c7]. destruct (pick_hdr_eol c7) as [e1 c8].
    destruct (rv (VDict (((k_Size, VInt (Z.of_N size)) :: d_extra r)
                         ++ opt_entry k_XRefStm (Some (pos + len body + len ob)%N) ++ opt_entry k_Prev prev)) c8) as [db c9] eqn:Edb.
    pose proof (eolc_cases c9) as He2. destruct (eolc c9) as [e2 c10].
    destruct (render_startxref_shape (pos + len body + len ob + len xb) c10) as (x1 & x2 & x3 & Hx1 & Hx2 & Hx3 & Hsx).
    destruct (render_startxref (pos + len body + len ob + len xb) c10) as [sx c11]. cbn [fst] in Hsx, He2.
    injection H as Hb Hsec Hps Hc. subst b sec.
    rewrite !len_app in Hlim.
    destruct (split_hybrid_ok size lim _ _ _ _ _ SH (Hents ltac:(lia))) as (HT & HS & LT & LS).
    assert (Hck : sec_check (RStream (Z.of_N (pos + len body + len ob)) ssubs d) None = true).
    { destruct (render_xref_stream_checks _ _ _ _ _ _ _ _ _ _ None Ex Hsize) as (v0 & v1 & v2 & Vw & VL & VF & VP & Vc & Vpos & Vfit).
      - unfold len in *. cbn [length]. unfold rentry in *. lia.
      - intros x [<-|Hx']; [|eapply ent_ok_small; [exact Hl10|apply HS; exact Hx']].
        eapply ent_ok_small; [exact Hl10|]. unfold ent_ok, re_num. cbn [fst snd]. lia.
      - reflexivity.
      - eapply stream_checks_sec_check; eauto. }
    exists (body ++ ob ++ xb), (render_table e0 rsubs e1 ++ db), (e2 ++ sx).
    split; [rewrite <- (app_assoc body (ob ++ xb)), <- (app_assoc ob xb), <- (app_assoc (render_table e0 rsubs e1) db); reflexivity|].
    split; [cbn [rsec_off]; rewrite !len_app; f_equal; lia|].
    split; [|split; [|split]].
    + cbn [text_of]. exists e0, rsubs, e1, c8. split; [reflexivity|].
      rewrite <- opt_entry_prev. unfold xrefstm_entry. cbn [opt_entry] in Edb. rewrite Edb. reflexivity.
    + exists e2, x1, x2, x3. cbn [rsec_off]. rewrite N2Z.id, Hsx. auto.
    + cbn [sec_check]. rewrite HtrP, HtrX, !andb_true_r.
      eapply (table_subs_ok size lim); eauto.
    + cbn [hyb_of].
      exists (body ++ ob), xtext, e, d. split; [rewrite Hxb, (app_assoc body ob); reflexivity|].
      split; [rewrite len_app; f_equal; lia|].
      split; [exact Htext|split; [|exact Hck]].
      eapply render_xref_stream_keep. exact Ex.
Qed.

(* ---------- where the sections lie ---------- *)
Definition prev_rel (prev : option N) (ch : chain) : Prop := opt_prev prev = prev_of ch.

Lemma render_revisions_extends : forall h pos prev ch c b ch' ps c',
  render_revisions h pos prev ch c = (b, ch', ps, c') -> exists l, ch' = l ++ ch.
Proof.
  induction h as [|r h IH]; intros pos prev ch c b ch' ps c' H; cbn [render_revisions] in H.
  - injection H as _ <- _ _. exists []. reflexivity.
  - destruct (render_revision r pos prev c) as [[[b1 sec] ps1] c1].
    destruct (render_revisions h (pos + len b1) (Some (Z.to_N (rsec_off sec))) (sec :: ch) c1) as [[[rest ch''] ps'] c2] eqn:E.
    injection H as _ <- _ _. destruct (IH _ _ _ _ _ _ _ _ E) as [l ->]. exists (l ++ [sec]). rewrite <- app_assoc. reflexivity.
Qed.

Lemma at_off_split (J X pre text rest : bytes) (pos : N) :
  len X = pos ->
  at_off (J ++ X ++ pre ++ text ++ rest) (length J) (Z.of_N (pos + len pre)) = text ++ rest.
Proof.
  intros HX. unfold at_off.
  replace (J ++ X ++ pre ++ text ++ rest) with ((J ++ X ++ pre) ++ text ++ rest) by (rewrite <- !app_assoc; reflexivity).
  apply skipn_app_exact. rewrite !app_length. unfold len in *. lia.
Qed.

Lemma rev_ok_xnum r : rev_ok r = true -> (d_xnum r < 16777216)%N.
Proof.
  unfold rev_ok. intros H. do 4 (apply andb_true_iff in H as [H _]).
  apply andb_true_iff in H as [H Hx]. apply andb_true_iff in H as [_ Hs]. lia.
Qed.

Lemma render_revisions_image : forall h pos prev ch c b ch' ps c' J X Y lim,
  render_revisions h pos prev ch c = (b, ch', ps, c') ->
  (forall r, In r h -> rev_ok r = true) ->
  len X = pos -> prev_rel prev ch ->
  (pos + len b <= lim)%N -> (lim < lim10)%N ->
  chain_image (J ++ X ++ b ++ Y) (length J) ch ->
  chain_image (J ++ X ++ b ++ Y) (length J) ch'.
Proof.
  induction h as [|r h IH]; intros pos prev ch c b ch' ps c' J X Y lim H Hh HX Hp Hlim Hl10 Himg; cbn [render_revisions] in H.
  - injection H as _ <- _ _. exact Himg.
  - destruct (render_revision r pos prev c) as [[[b1 sec] ps1] c1] eqn:E1.
    destruct (render_revisions h (pos + len b1) (Some (Z.to_N (rsec_off sec))) (sec :: ch) c1) as [[[rest ch''] ps'] c2] eqn:E2.
    injection H as <- <- _ _.
    pose proof (Hh r (or_introl eq_refl)) as Hr.
    rewrite len_app in Hlim.
    destruct (render_revision_spec _ _ _ _ _ _ _ _ lim (prev_of ch) E1 Hr ltac:(lia) Hl10)
      as (pre & text & post & Hb1 & Hoff & Htext & Hpost & Hsc & Hhyb).
    replace (J ++ X ++ (b1 ++ rest) ++ Y) with (J ++ (X ++ b1) ++ rest ++ Y) in * by (rewrite <- !app_assoc; reflexivity).
    apply (IH (pos + len b1)%N (Some (Z.to_N (rsec_off sec))) (sec :: ch) c1 rest ch'' ps' c2 J (X ++ b1) Y lim E2).
    + intros r' Hr'. apply Hh. right. exact Hr'.
    + rewrite len_app, HX. reflexivity.
    + unfold prev_rel, opt_prev. cbn [option_map prev_of]. rewrite Hoff. f_equal. lia.
    + lia.
    + exact Hl10.
    + cbn [chain_image]. split; [|exact Himg].
      eapply (sec_check_image _ _ sec (prev_of ch) (d_xnum r) text (post ++ rest ++ Y)).
      * rewrite <- Hp. exact Htext.
      * exact Hsc.
      * apply rev_ok_xnum. exact Hr.
      * rewrite Hoff, Hb1.
        replace (J ++ (X ++ pre ++ text ++ post) ++ rest ++ Y) with (J ++ X ++ pre ++ text ++ (post ++ rest ++ Y))
          by (rewrite <- !app_assoc; reflexivity).
        apply at_off_split. exact HX.
      * destruct sec as [o subs tr|o subs d|o subs so ssubs tr]; cbn [hyb_image hyb_of] in *; try exact I.
        destruct Hhyb as (pre1 & xtext & e & d & Hpre & Hso & Hxt & Hkd & Hck).
        exists d. split; [exact Hkd|].
        apply (sec_check_image _ _ (RStream so ssubs d) None (d_xnum r) xtext (e ++ text ++ post ++ rest ++ Y) Hxt Hck (rev_ok_xnum _ Hr)); [|exact I].
        cbn [rsec_off]. rewrite Hso, Hb1, Hpre.
        replace (J ++ (X ++ (pre1 ++ xtext ++ e) ++ text ++ post) ++ rest ++ Y)
          with (J ++ X ++ pre1 ++ xtext ++ (e ++ text ++ post ++ rest ++ Y)) by (rewrite <- !app_assoc; reflexivity).
        apply at_off_split. exact HX.
Qed.

(* the file ends with the startxref of the newest section *)
Lemma render_revisions_tail : forall h pos prev ch c b ch' ps c' lim,
  render_revisions h pos prev ch c = (b, ch', ps, c') -> h <> [] ->
  (forall r, In r h -> rev_ok r = true) -> (pos + len b <= lim)%N -> (lim < lim10)%N ->
  exists A post, b = A ++ post /\ post_of (start_of ch') post.
Proof.
  induction h as [|r h IH]; intros pos prev ch c b ch' ps c' lim H Hne Hh Hlim Hl10; [congruence|].
  cbn [render_revisions] in H.
  destruct (render_revision r pos prev c) as [[[b1 sec] ps1] c1] eqn:E1.
  destruct (render_revisions h (pos + len b1) (Some (Z.to_N (rsec_off sec))) (sec :: ch) c1) as [[[rest ch''] ps'] c2] eqn:E2.
  injection H as <- <- _ _. rewrite len_app in Hlim.
  destruct h as [|r2 h].
  - cbn [render_revisions] in E2. injection E2 as <- <- _ _.
    destruct (render_revision_spec _ _ _ _ _ _ _ _ lim None E1 (Hh r (or_introl eq_refl)) ltac:(lia) Hl10)
      as (pre & text & post & Hb1 & _ & _ & Hpost & _).
    exists (pre ++ text), post. split; [rewrite Hb1, app_nil_r, <- app_assoc; reflexivity|exact Hpost].
  - destruct (IH _ _ _ _ _ _ _ _ lim E2) as (A & post & -> & Hpost);
      [discriminate|intros r' Hr'; apply Hh; right; exact Hr'|lia|exact Hl10|].
    exists (b1 ++ A), post. split; [rewrite <- app_assoc; reflexivity|exact Hpost].
Qed.

(* ---------- findXRef ---------- *)
Definition no115 (s : bytes) : bool := forallb (fun b => negb (b =? 115)%N) s.

Lemma last_occ_none : forall s p acc, no115 s = true -> last_occ kw_startxref s p acc = acc.
Proof.
  induction s as [|b s IH]; intros p acc H; cbn [last_occ]; [reflexivity|].
  cbn [no115 forallb] in H. apply andb_true_iff in H as [Hb Hs]. apply negb_true_iff in Hb.
  rewrite IH by exact Hs. unfold kw_startxref. cbn [has_prefix]. rewrite N.eqb_sym, Hb. reflexivity.
Qed.

Lemma last_occ_app : forall A T p acc,
  no115 T = true -> last_occ kw_startxref (A ++ kw_startxref ++ T) p acc = Some (p + length A)%nat.
Proof.
  induction A as [|a A IH]; intros T p acc HT.
  - cbn [app length]. rewrite Nat.add_0_r.
    change (kw_startxref ++ T) with (115%N :: ([116; 97; 114; 116; 120; 114; 101; 102]%N ++ T)).
    cbn [last_occ].
    assert (Hp : has_prefix kw_startxref (115%N :: [116; 97; 114; 116; 120; 114; 101; 102]%N ++ T) = true)
      by (apply (has_prefix_self kw_startxref T)).
    rewrite Hp. apply last_occ_none. unfold no115 in *. rewrite forallb_app, HT. reflexivity.
  - cbn [app last_occ length]. rewrite IH by exact HT. f_equal. lia.
Qed.

Lemma no115_digits s : forallb is_digit s = true -> no115 s = true.
Proof.
  unfold no115. induction s as [|b s IH]; cbn [forallb]; [reflexivity|]. intros H.
  apply andb_true_iff in H as [Hb Hs]. rewrite IH by exact Hs. unfold is_digit in Hb.
  destruct (N.eqb_spec b 115); [lia|reflexivity].
Qed.

Lemma no115_app a b : no115 (a ++ b) = no115 a && no115 b.
Proof. unfold no115. apply forallb_app. Qed.

Lemma no115_eolch x : eolch x -> no115 x = true.
Proof. intros [-> | [-> | [-> | ->]]]; reflexivity. Qed.

Lemma eolch_hd x t : eolch x -> exists b u, x ++ t = b :: u /\ is_digit b = false.
Proof. intros [-> | [-> | [-> | ->]]]; eexists _, _; split; reflexivity. Qed.

Lemma find_xref_post P post off hdr :
  post_of off post -> prev_ok (Z.of_nat (length (P ++ post) - hdr)) off = true ->
  (off < 2 ^ 63)%Z ->
  find_xref (P ++ post) hdr = Ok off.
Proof.
  intros Hpost Hok Hlt.
  unfold find_xref.
  remember (Z.of_nat (length (P ++ post) - hdr)) as size eqn:Hsz. clear Hsz.
  destruct Hpost as (e & x1 & x2 & x3 & _ & H1 & H2 & H3 & ->).
  assert (Hoff : (0 < off)%Z) by (unfold prev_ok in Hok; lia).
  replace (P ++ e ++ kw_startxref ++ x1 ++ fmt_N (Z.to_N off) ++ x2 ++ kw_eof ++ x3)
    with ((P ++ e) ++ kw_startxref ++ (x1 ++ fmt_N (Z.to_N off) ++ x2 ++ kw_eof ++ x3)) in * by (rewrite <- !app_assoc; reflexivity).
  rewrite last_occ_app.
  2:{ rewrite !no115_app. rewrite (no115_eolch _ H1), (no115_eolch _ H2), (no115_eolch _ H3).
      destruct (fmt_N_spec (Z.to_N off)) as (_ & Hd & _). rewrite (no115_digits _ Hd). reflexivity. }
  cbn [Nat.add].
  replace (length (P ++ e) + 9)%nat with (length ((P ++ e) ++ kw_startxref)) by (rewrite app_length; reflexivity).
  rewrite app_assoc, skipn_app_exact by reflexivity.
  rewrite (read_integer_skip _ _ (eolch_sep _ H1 _)).
  destruct (eolch_hd x2 (kw_eof ++ x3) H2) as (b & u & E & Hb). rewrite E.
  rewrite read_integer_fmt by (auto; rewrite Z2N.id; lia).
  rewrite Z2N.id by lia. rewrite Hok. reflexivity.
Qed.

(* ---------- the header ---------- *)
Lemma find_header_build (k : nat) (rest : bytes) :
  find_header (nth k junk_variants [] ++ pdf_header ++ rest) = Some (length (nth k junk_variants [])).
Proof.
  do 5 (destruct k as [|k]; [reflexivity|]). destruct k; reflexivity.
Qed.

(* ---------- read_render ---------- *)
Section ReadRender.
  Variable parse_value : bytes -> res (value * bytes).
  Hypothesis Hparse : forall d c rest, parse_value (fst (rv (VDict d) c) ++ rest) = Ok (VDict d, rest).

  Lemma open_bytes_fuel f : forall fuel r,
    open_bytes parse_value fuel f = Ok r -> open_bytes parse_value (S fuel) f = Ok r.
  Proof.
    unfold open_bytes. intros fuel r. destruct (find_header f) as [hdr|]; [|discriminate].
    destruct (find_xref f hdr) as [start|]; [|discriminate]. apply bread_loop_fuel.
  Qed.

  Lemma read_render_lemma h c :
    let b := build h c in
    h <> [] ->
    (forall r, In r h -> rev_ok r = true) ->
    wf_chain (file_size b) (b_chain b) = true ->
    (Z.of_nat (length (b_bytes b)) < 10 ^ 10)%Z ->
    exists m, open_bytes parse_value (S (length (layout_of (b_chain b)))) (b_bytes b)
              = Ok (m, spec_trailer (history_of (b_chain b)))
              /\ forall n, xlookup m n = spec_resolve (history_of (b_chain b)) n.
  Proof.
    unfold build.
    destruct (pick 5 c) as [k c1].
    destruct (eolc c1) as [e0 c2]. destruct (pick 2 c2) as [kb c3]. destruct (eolc c3) as [e1 c4].
    set (junk := nth (N.to_nat k) junk_variants []).
    set (head := pdf_header ++ e0 ++ (if (kb =? 0)%N then bin_comment ++ e1 else [])).
    destruct (render_revisions h (len head) None [] c4) as [[[bb ch] ps] c5] eqn:ER.
    cbv zeta. unfold file_size. cbn [b_bytes b_hdr b_chain].
    intros Hne Hh Hwf Hlen.
    assert (Hlim : (len head + len bb < lim10)%N).
    { unfold lim10. change (10 ^ 10)%Z with 10000000000%Z in Hlen. rewrite !app_length in Hlen. unfold len. lia. }
    (* the sections lie where the chain says *)
    assert (Himg : chain_image (junk ++ head ++ bb) (length junk) ch).
    { pose proof (render_revisions_image h (len head) None [] c4 bb ch ps c5 junk head [] (len head + len bb)%N
                    ER Hh eq_refl eq_refl ltac:(lia) Hlim) as H.
      rewrite app_nil_r in H. apply H. exact I. }
    (* the reader on layouts *)
    destruct (impl_read_refines _ _ Hwf) as (m & Hr & Hm).
    exists m. split; [|exact Hm].
    unfold open_bytes.
    assert (Hhd : find_header (junk ++ head ++ bb) = Some (length junk)).
    { unfold head. rewrite <- app_assoc. apply find_header_build. }
    rewrite Hhd.
    assert (Hsize : Z.of_nat (length (junk ++ head ++ bb) - length junk) = Z.of_N (len (junk ++ head ++ bb) - len junk)).
    { unfold len. lia. }
    unfold impl_read, impl_read_v in Hr.
    destruct (prev_ok (Z.of_N (len (junk ++ head ++ bb) - len junk)) (start_of ch)) eqn:Hpo; [|discriminate].
    destruct (wf_chain_parts _ _ Hwf) as (_ & _ & Hnd & _).
    destruct (render_revisions_tail _ _ _ _ _ _ _ _ _ (len head + len bb)%N ER Hne Hh ltac:(lia) Hlim) as (A & post & -> & Hpost).
    replace (junk ++ head ++ A ++ post) with ((junk ++ head ++ A) ++ post) in * by (rewrite <- !app_assoc; reflexivity).
    rewrite (find_xref_post _ _ _ _ Hpost); [|rewrite Hsize; exact Hpo|].
    2:{ unfold prev_ok in Hpo. unfold len in Hpo. change (10 ^ 10)%Z with 10000000000%Z in Hlen. lia. }
    rewrite Hsize.
    eapply loop_agree; [apply chain_sec_agree; [exact Hparse|exact Himg|exact Hnd]|exact Hr].
  Qed.
End ReadRender.

(* the hypotheses of read_render as one boolean (evaluated by the check for every generated file) *)
Definition read_render_hyp (h : list drev) (b : built) : bool :=
  match h with [] => false | _ :: _ => true end
  && forallb rev_ok h
  && wf_chain (file_size b) (b_chain b)
  && (Z.of_nat (length (b_bytes b)) <? 10 ^ 10)%Z.
