(* C04 - read_render: the reader on bytes, opened on the file the renderer wrote, returns
   the table and trailer the specification gives for the rendered history (classic and
   stream sections; every choice of white space, EOLs, subsections, /W, /Index, junk). *)
From Coq Require Import List NArith ZArith Bool Lia ZifyN ZifyNat ZifyBool.
From GoPdf.Base Require Import Bytes Res.
From GoPdf.Gen Require Import Gen_Consts.
From GoPdf.C04 Require Import XRef XRefProofs XRefText XRefTextProofs Extent ExtentProofs Seq FileReader FileReaderProofs RenderShape.
Import ListNotations.

(* ---------- side conditions on the rendered chain (decidable) ---------- *)
Definition sub_ok (s : subsection) : bool :=
  forallb raw_ok (snd s) && (fst s + N.of_nat (length (snd s)) <=? max_xref_size)%N && (fst s <? max_xref_size)%N.

Lemma rsub_ok_eq rs : rsub_ok rs = sub_ok (rsub_subsection rs).
Proof.
  unfold rsub_ok, sub_ok, rsub_subsection. cbn [fst snd]. rewrite map_length. f_equal. f_equal.
  induction (rs_lines rs) as [|x l IH]; cbn [forallb map]; [reflexivity|]. rewrite IH. reflexivity.
Qed.

Lemma forallb_rsub_ok rsubs : forallb sub_ok (map rsub_subsection rsubs) = true -> forallb rsub_ok rsubs = true.
Proof.
  induction rsubs as [|r l IH]; cbn [map forallb]; [reflexivity|]. intros H. apply andb_true_iff in H as [H1 H2].
  rewrite rsub_ok_eq, H1, IH by exact H2. reflexivity.
Qed.

Fixpoint ss_eqb (a b : list (N * N)) : bool :=
  match a, b with
  | [], [] => true
  | (x1, y1) :: a', (x2, y2) :: b' => (x1 =? x2)%N && (y1 =? y2)%N && ss_eqb a' b'
  | _, _ => false
  end.
Lemma ss_eqb_eq : forall a b, ss_eqb a b = true -> a = b.
Proof.
  induction a as [|[x1 y1] a IH]; intros [|[x2 y2] b] H; cbn in H; try discriminate; [reflexivity|].
  apply andb_true_iff in H as [H H3]. apply andb_true_iff in H as [H1 H2].
  apply N.eqb_eq in H1, H2. subst. f_equal. apply IH. exact H3.
Qed.

Definition check_is (r : res (nat * nat * nat * list (N * N))) (w0 w1 w2 : nat) (ss : list (N * N)) : bool :=
  match r with
  | Ok (a, b, c, s) => Nat.eqb a w0 && Nat.eqb b w1 && Nat.eqb c w2 && ss_eqb s ss
  | Err _ => false
  end.
Lemma check_is_eq r w0 w1 w2 ss : check_is r w0 w1 w2 ss = true -> r = Ok (w0, w1, w2, ss).
Proof.
  destruct r as [[[[a b] c] s]|]; cbn; [|discriminate]. intros H.
  apply andb_true_iff in H as [H H4]. apply andb_true_iff in H as [H H3]. apply andb_true_iff in H as [H1 H2].
  apply Nat.eqb_eq in H1, H2, H3. apply ss_eqb_eq in H4. subst. reflexivity.
Qed.

(* what has to hold of a section for the byte-level reader to accept its text: field ranges of
   the table lines, a trailer without /Prev and /XRefStm of its own, and for an xref stream that
   checkXRefStreamDict accepts the dictionary with the widths and subsections that were written *)
Definition sec_check (r : rsec) (prev : option Z) : bool :=
  match r with
  | RTable _ subs tr => forallb sub_ok subs && negb (has_dkey tr k_Prev) && negb (has_dkey tr k_XRefStm)
  | RStream _ subs d =>
    match w_of_dict d with
    | Some (w0, w1, w2) =>
      negb (has_dkey d k_Length) && negb (has_dkey d k_Filter) && negb (has_dkey d k_Prev)
      && check_is (check_xref_dict (d ++ prev_entry prev) (length (encode_stm_subs w0 w1 w2 subs))) w0 w1 w2 (index_of subs)
      && Nat.ltb 0 (w0 + w1 + w2)
      && forallb (fun s : stmsub => forallb (entry_fits w0 w1 w2) (snd s)) subs
    | None => false
    end
  | RHybrid _ _ _ _ _ => false
  end.
Fixpoint chain_check (c : chain) : bool :=
  match c with
  | [] => true
  | r :: rest => sec_check r (prev_of rest) && chain_check rest
  end.

Lemma chain_check_app l c : chain_check (l ++ c) = true -> chain_check c = true.
Proof.
  induction l as [|r l IH]; cbn [app chain_check]; [auto|]. intros H. apply andb_true_iff in H as [_ H]. auto.
Qed.

Lemma sec_check_image f hdr sec prev xnum text rest :
  text_of sec prev xnum text -> sec_check sec prev = true -> (xnum < 16777216)%N ->
  at_off f hdr (rsec_off sec) = text ++ rest ->
  rsec_image f hdr sec prev.
Proof.
  destruct sec as [o subs tr|o subs d|]; cbn [text_of sec_check rsec_image rsec_off]; intros Ht Hc Hx Hat; [| |contradiction].
  - destruct Ht as (e0 & rsubs & e1 & cd & -> & ->).
    apply andb_true_iff in Hc as [Hc H2]. apply andb_true_iff in Hc as [Hc H1].
    apply negb_true_iff in H1, H2.
    exists e0, rsubs, e1, cd, rest. repeat split.
    + apply forallb_rsub_ok. exact Hc.
    + apply dict_get_none. exact H1.
    + apply dict_get_none. exact H2.
    + rewrite Hat, <- app_assoc. reflexivity.
  - destruct Ht as (w0 & w1 & w2 & sA & sB & s1 & cd & s2 & e0 & e1 & s3 & Hw & HA & HB & H1 & H2 & H3 & He0 & He1 & ->).
    rewrite Hw in Hc.
    apply andb_true_iff in Hc as [Hc Hfit]. apply andb_true_iff in Hc as [Hc Hsum].
    apply andb_true_iff in Hc as [Hc Hchk]. apply andb_true_iff in Hc as [Hc HP].
    apply andb_true_iff in Hc as [HL HF]. apply negb_true_iff in HL, HF, HP.
    apply check_is_eq in Hchk. apply Nat.ltb_lt in Hsum.
    exists xnum, sA, sB, s1, cd, s2, e0, e1, s3, w0, w1, w2, rest.
    repeat split; try assumption; try apply HA; try apply HB.
    rewrite Hat. rewrite (assoc15 (fmt_N xnum)). reflexivity.
Qed.

(* ---------- where the sections lie ---------- *)
Definition prev_rel (prev : option N) (ch : chain) : Prop := opt_prev prev = prev_of ch.

Lemma render_revisions_extends : forall h pos prev ch c b ch' ps c',
  render_revisions h pos prev ch c = (b, ch', ps, c') -> exists l, ch' = l ++ ch.
Proof.
  induction h as [|r h IH]; intros pos prev ch c b ch' ps c' H; cbn [render_revisions] in H.
  - injection H as _ <- _ _. exists []. reflexivity.
  - destruct (render_revision r pos prev c) as [[[b1 sec] ps1] c1].
    destruct (render_revisions h (pos + len b1) (Some (Z.to_N (rsec_off sec))) (sec :: ch) c1) as [[[rest ch''] ps'] c2] eqn:E.
    injection H as _ <- _ _. destruct (IH _ _ _ _ _ _ _ _ E) as [l ->]. exists (l ++ [sec]). rewrite <- app_assoc. reflexivity.
Qed.

Lemma at_off_split (J X pre text rest : bytes) (pos : N) :
  len X = pos ->
  at_off (J ++ X ++ pre ++ text ++ rest) (length J) (Z.of_N (pos + len pre)) = text ++ rest.
Proof.
  intros HX. unfold at_off.
  replace (J ++ X ++ pre ++ text ++ rest) with ((J ++ X ++ pre) ++ text ++ rest) by (rewrite <- !app_assoc; reflexivity).
  apply skipn_app_exact. rewrite !app_length. unfold len in *. lia.
Qed.

Lemma render_revisions_image : forall h pos prev ch c b ch' ps c' J X Y,
  render_revisions h pos prev ch c = (b, ch', ps, c') ->
  (forall r, In r h -> d_kind r <> KHybrid /\ (d_xnum r < 16777216)%N) ->
  len X = pos -> prev_rel prev ch ->
  chain_check ch' = true ->
  chain_image (J ++ X ++ b ++ Y) (length J) ch ->
  chain_image (J ++ X ++ b ++ Y) (length J) ch'.
Proof.
  induction h as [|r h IH]; intros pos prev ch c b ch' ps c' J X Y H Hh HX Hp Hchk Himg; cbn [render_revisions] in H.
  - injection H as _ <- _ _. exact Himg.
  - destruct (render_revision r pos prev c) as [[[b1 sec] ps1] c1] eqn:E1.
    destruct (render_revisions h (pos + len b1) (Some (Z.to_N (rsec_off sec))) (sec :: ch) c1) as [[[rest ch''] ps'] c2] eqn:E2.
    injection H as <- <- _ _.
    destruct (Hh r (or_introl eq_refl)) as [Hk Hx].
    destruct (render_revision_shape _ _ _ _ _ _ _ _ E1 Hk) as (pre & text & post & Hb1 & Hoff & Htext & Hpost).
    destruct (render_revisions_extends _ _ _ _ _ _ _ _ _ E2) as [l Hl].
    assert (Hsc : sec_check sec (prev_of ch) = true).
    { rewrite Hl in Hchk. apply chain_check_app in Hchk. cbn [chain_check] in Hchk. apply andb_true_iff in Hchk. tauto. }
    replace (J ++ X ++ (b1 ++ rest) ++ Y) with (J ++ (X ++ b1) ++ rest ++ Y) in * by (rewrite <- !app_assoc; reflexivity).
    apply (IH (pos + len b1)%N (Some (Z.to_N (rsec_off sec))) (sec :: ch) c1 rest ch'' ps' c2 J (X ++ b1) Y E2).
    + intros r' Hr'. apply Hh. right. exact Hr'.
    + rewrite len_app, HX. reflexivity.
    + unfold prev_rel, opt_prev. cbn [option_map prev_of]. rewrite Hoff. f_equal. lia.
    + exact Hchk.
    + cbn [chain_image]. split; [|exact Himg].
      eapply (sec_check_image _ _ sec (prev_of ch) (d_xnum r) text (post ++ rest ++ Y)).
      * rewrite <- Hp. exact Htext.
      * exact Hsc.
      * exact Hx.
      * rewrite Hoff, Hb1.
        replace (J ++ (X ++ pre ++ text ++ post) ++ rest ++ Y) with (J ++ X ++ pre ++ text ++ (post ++ rest ++ Y))
          by (rewrite <- !app_assoc; reflexivity).
        apply at_off_split. exact HX.
Qed.

(* the file ends with the startxref of the newest section *)
Lemma render_revisions_tail : forall h pos prev ch c b ch' ps c',
  render_revisions h pos prev ch c = (b, ch', ps, c') -> h <> [] ->
  (forall r, In r h -> d_kind r <> KHybrid) ->
  exists A post, b = A ++ post /\ post_of (start_of ch') post.
Proof.
  induction h as [|r h IH]; intros pos prev ch c b ch' ps c' H Hne Hh; [congruence|].
  cbn [render_revisions] in H.
  destruct (render_revision r pos prev c) as [[[b1 sec] ps1] c1] eqn:E1.
  destruct (render_revisions h (pos + len b1) (Some (Z.to_N (rsec_off sec))) (sec :: ch) c1) as [[[rest ch''] ps'] c2] eqn:E2.
  injection H as <- <- _ _.
  destruct h as [|r2 h].
  - cbn [render_revisions] in E2. injection E2 as <- <- _ _.
    destruct (render_revision_shape _ _ _ _ _ _ _ _ E1 (Hh r (or_introl eq_refl))) as (pre & text & post & Hb1 & _ & _ & Hpost).
    exists (pre ++ text), post. split; [rewrite Hb1, app_nil_r, <- app_assoc; reflexivity|exact Hpost].
  - destruct (IH _ _ _ _ _ _ _ _ E2) as (A & post & -> & Hpost); [discriminate|intros r' Hr'; apply Hh; right; exact Hr'|].
    exists (b1 ++ A), post. split; [rewrite <- app_assoc; reflexivity|exact Hpost].
Qed.

(* ---------- findXRef ---------- *)
Definition no115 (s : bytes) : bool := forallb (fun b => negb (b =? 115)%N) s.

Lemma last_occ_none : forall s p acc, no115 s = true -> last_occ kw_startxref s p acc = acc.
Proof.
  induction s as [|b s IH]; intros p acc H; cbn [last_occ]; [reflexivity|].
  cbn [no115 forallb] in H. apply andb_true_iff in H as [Hb Hs]. apply negb_true_iff in Hb.
  rewrite IH by exact Hs. unfold kw_startxref. cbn [has_prefix]. rewrite N.eqb_sym, Hb. reflexivity.
Qed.

Lemma last_occ_app : forall A T p acc,
  no115 T = true -> last_occ kw_startxref (A ++ kw_startxref ++ T) p acc = Some (p + length A)%nat.
Proof.
  induction A as [|a A IH]; intros T p acc HT.
  - cbn [app length]. rewrite Nat.add_0_r.
    change (kw_startxref ++ T) with (115%N :: ([116; 97; 114; 116; 120; 114; 101; 102]%N ++ T)).
    cbn [last_occ].
    assert (Hp : has_prefix kw_startxref (115%N :: [116; 97; 114; 116; 120; 114; 101; 102]%N ++ T) = true)
      by (apply (has_prefix_self kw_startxref T)).
    rewrite Hp. apply last_occ_none. unfold no115 in *. rewrite forallb_app, HT. reflexivity.
  - cbn [app last_occ length]. rewrite IH by exact HT. f_equal. lia.
Qed.

Lemma no115_digits s : forallb is_digit s = true -> no115 s = true.
Proof.
  unfold no115. induction s as [|b s IH]; cbn [forallb]; [reflexivity|]. intros H.
  apply andb_true_iff in H as [Hb Hs]. rewrite IH by exact Hs. unfold is_digit in Hb.
  destruct (N.eqb_spec b 115); [lia|reflexivity].
Qed.

Lemma no115_app a b : no115 (a ++ b) = no115 a && no115 b.
Proof. unfold no115. apply forallb_app. Qed.

Lemma no115_eolch x : eolch x -> no115 x = true.
Proof. intros [-> | [-> | [-> | ->]]]; reflexivity. Qed.

Lemma eolch_hd x t : eolch x -> exists b u, x ++ t = b :: u /\ is_digit b = false.
Proof. intros [-> | [-> | [-> | ->]]]; eexists _, _; split; reflexivity. Qed.

Lemma find_xref_post P post off hdr :
  post_of off post -> prev_ok (Z.of_nat (length (P ++ post) - hdr)) off = true ->
  (off < 2 ^ 63)%Z ->
  find_xref (P ++ post) hdr = Ok off.
Proof.
  intros Hpost Hok Hlt.
  unfold find_xref.
  remember (Z.of_nat (length (P ++ post) - hdr)) as size eqn:Hsz. clear Hsz.
  destruct Hpost as (e & x1 & x2 & x3 & _ & H1 & H2 & H3 & ->).
  assert (Hoff : (0 < off)%Z) by (unfold prev_ok in Hok; lia).
  replace (P ++ e ++ kw_startxref ++ x1 ++ fmt_N (Z.to_N off) ++ x2 ++ kw_eof ++ x3)
    with ((P ++ e) ++ kw_startxref ++ (x1 ++ fmt_N (Z.to_N off) ++ x2 ++ kw_eof ++ x3)) in * by (rewrite <- !app_assoc; reflexivity).
  rewrite last_occ_app.
  2:{ rewrite !no115_app. rewrite (no115_eolch _ H1), (no115_eolch _ H2), (no115_eolch _ H3).
      destruct (fmt_N_spec (Z.to_N off)) as (_ & Hd & _). rewrite (no115_digits _ Hd). reflexivity. }
  cbn [Nat.add].
  replace (length (P ++ e) + 9)%nat with (length ((P ++ e) ++ kw_startxref)) by (rewrite app_length; reflexivity).
  rewrite app_assoc, skipn_app_exact by reflexivity.
  rewrite (read_integer_skip _ _ (eolch_sep _ H1 _)).
  destruct (eolch_hd x2 (kw_eof ++ x3) H2) as (b & u & E & Hb). rewrite E.
  rewrite read_integer_fmt by (auto; rewrite Z2N.id; lia).
  rewrite Z2N.id by lia. rewrite Hok. reflexivity.
Qed.

(* ---------- the header ---------- *)
Lemma find_header_build (k : nat) (rest : bytes) :
  find_header (nth k junk_variants [] ++ pdf_header ++ rest) = Some (length (nth k junk_variants [])).
Proof.
  do 5 (destruct k as [|k]; [reflexivity|]). destruct k; reflexivity.
Qed.

(* ---------- read_render ---------- *)
Section ReadRender.
  Variable parse_value : bytes -> res (value * bytes).
  Hypothesis Hparse : forall d c rest, parse_value (fst (rv (VDict d) c) ++ rest) = Ok (VDict d, rest).

  Lemma open_bytes_fuel f : forall fuel r,
    open_bytes parse_value fuel f = Ok r -> open_bytes parse_value (S fuel) f = Ok r.
  Proof.
    unfold open_bytes. intros fuel r. destruct (find_header f) as [hdr|]; [|discriminate].
    destruct (find_xref f hdr) as [start|]; [|discriminate]. apply bread_loop_fuel.
  Qed.

  Lemma read_render_lemma h c :
    let b := build h c in
    h <> [] ->
    (forall r, In r h -> d_kind r <> KHybrid /\ (d_xnum r < 16777216)%N) ->
    chain_check (b_chain b) = true ->
    wf_chain (file_size b) (b_chain b) = true ->
    (Z.of_nat (length (b_bytes b)) < 2 ^ 62)%Z ->
    exists m, open_bytes parse_value (S (length (layout_of (b_chain b)))) (b_bytes b)
              = Ok (m, spec_trailer (history_of (b_chain b)))
              /\ forall n, xlookup m n = spec_resolve (history_of (b_chain b)) n.
  Proof.
    unfold build.
    destruct (pick 5 c) as [k c1].
    destruct (eolc c1) as [e0 c2]. destruct (pick 2 c2) as [kb c3]. destruct (eolc c3) as [e1 c4].
    set (junk := nth (N.to_nat k) junk_variants []).
    set (head := pdf_header ++ e0 ++ (if (kb =? 0)%N then bin_comment ++ e1 else [])).
    destruct (render_revisions h (len head) None [] c4) as [[[bb ch] ps] c5] eqn:ER.
    cbv zeta. unfold file_size. cbn [b_bytes b_hdr b_chain].
    intros Hne Hh Hchk Hwf Hlen.
    (* the sections lie where the chain says *)
    assert (Himg : chain_image (junk ++ head ++ bb) (length junk) ch).
    { pose proof (render_revisions_image h (len head) None [] c4 bb ch ps c5 junk head [] ER Hh eq_refl eq_refl Hchk) as H.
      rewrite app_nil_r in H. apply H. exact I. }
    (* the reader on layouts *)
    destruct (impl_read_refines _ _ Hwf) as (m & Hr & Hm).
    exists m. split; [|exact Hm].
    unfold open_bytes.
    assert (Hhd : find_header (junk ++ head ++ bb) = Some (length junk)).
    { unfold head. rewrite <- app_assoc. apply find_header_build. }
    rewrite Hhd.
    assert (Hsize : Z.of_nat (length (junk ++ head ++ bb) - length junk) = Z.of_N (len (junk ++ head ++ bb) - len junk)).
    { unfold len. lia. }
    unfold impl_read, impl_read_v in Hr.
    destruct (prev_ok (Z.of_N (len (junk ++ head ++ bb) - len junk)) (start_of ch)) eqn:Hpo; [|discriminate].
    destruct (render_revisions_tail _ _ _ _ _ _ _ _ _ ER Hne (fun r Hr' => proj1 (Hh r Hr'))) as (A & post & -> & Hpost).
    replace (junk ++ head ++ A ++ post) with ((junk ++ head ++ A) ++ post) in * by (rewrite <- !app_assoc; reflexivity).
    rewrite (find_xref_post _ _ _ _ Hpost); [|rewrite Hsize; exact Hpo|].
    2:{ unfold prev_ok in Hpo. unfold len in Hpo. lia. }
    rewrite Hsize.
    eapply loop_agree; [apply chain_sec_agree; [exact Hparse|exact Himg]|exact Hr].
  Qed.
End ReadRender.
