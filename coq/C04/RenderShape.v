(* C04 - the shape of what the renderer Seq.v writes: where each cross-reference section
   lies in the file and what its text looks like. *)
From Coq Require Import List NArith ZArith Bool Lia ZifyN ZifyNat ZifyBool.
From GoPdf.Base Require Import Bytes Res.
From GoPdf.C04 Require Import XRef XRefProofs XRefText XRefTextProofs Extent ExtentProofs Seq FileReader FileReaderProofs.
Import ListNotations.

Lemma len_app {A} (a b : list A) : len (a ++ b) = (len a + len b)%N.
Proof. unfold len. rewrite app_length. lia. Qed.

(* ---------- end-of-line choices ---------- *)
Definition eolch (x : bytes) : Prop := x = [10%N] \/ x = [13%N; 10%N] \/ x = [13%N] \/ x = [32%N; 10%N].

Lemma eolc_cases c : eolch (fst (eolc c)).
Proof.
  unfold eolc, eolch. destruct (pick 4 c) as [k c1]. cbn [fst]. generalize (N.to_nat k). intros n.
  do 4 (destruct n as [|n]; [cbn; tauto|]). destruct n; cbn; tauto.
Qed.

Lemma eolch_sep x : eolch x -> is_sep x.
Proof. intros [-> | [-> | [-> | ->]]] t; reflexivity. Qed.

(* ---------- an object that is a stream ---------- *)
Lemma render_obj_stream_shape num gen d data c :
  exists sepA sepB s1 cd s2 e0 e1 s3 e,
    is_sep1 sepA /\ is_sep1 sepB /\ is_sep s1 /\ is_sep s2 /\ is_sep s3 /\
    eol_before_data e0 /\ sep_after_data e1 /\ eolch e /\
    fst (render_obj_stream num gen d data c) =
      fmt_N num ++ sepA ++ fmt_N gen ++ sepB ++ kw_obj ++ s1
      ++ fst (rv (VDict (d ++ [(k_Length, VInt (Z.of_nat (length data)))])) cd)
      ++ s2 ++ kw_stream ++ e0 ++ data ++ e1 ++ Seq.kw_endstream ++ s3 ++ Seq.kw_endobj ++ e.
Proof.
  unfold render_obj_stream, obj_head.
  destruct (sepc true c) as [sA c1] eqn:EA.
  destruct (sepc true c1) as [sB c2] eqn:EB.
  destruct (sepc false c2) as [s1 c3] eqn:E1.
  destruct (rv (VDict (d ++ [(k_Length, VInt (Z.of_N (len data)))])) c3) as [b c4] eqn:Eb.
  destruct (sepc false c4) as [s2 c5] eqn:E2.
  destruct (pick 2 c5) as [k0 c6].
  destruct (pick 4 c6) as [k1 c7].
  destruct (sepc true c7) as [s3 c8] eqn:E3.
  pose proof (eolc_cases c8) as Hee. destruct (eolc c8) as [e c9]. cbn [fst] in Hee.
  exists sA, sB, s1, c3, s2, (if (k0 =? 0)%N then [10%N] else [13%N; 10%N]),
         (if (k1 =? 0)%N then [10%N] else if (k1 =? 1)%N then [13%N; 10%N] else if (k1 =? 2)%N then [13%N] else []), s3, e.
  repeat split.
  - pose proof (sepc_true_is_sep1 c) as H. rewrite EA in H. apply H.
  - pose proof (sepc_true_is_sep1 c) as H. rewrite EA in H. apply H.
  - pose proof (sepc_true_is_sep1 c1) as H. rewrite EB in H. apply H.
  - pose proof (sepc_true_is_sep1 c1) as H. rewrite EB in H. apply H.
  - pose proof (sepc_is_sep false c2) as H. rewrite E1 in H. exact H.
  - pose proof (sepc_is_sep false c4) as H. rewrite E2 in H. exact H.
  - pose proof (sepc_is_sep true c7) as H. rewrite E3 in H. exact H.
  - destruct (k0 =? 0)%N; constructor.
  - destruct (k1 =? 0)%N; [right; constructor|]. destruct (k1 =? 1)%N; [right; constructor|].
    destruct (k1 =? 2)%N; [right; constructor|left; reflexivity].
  - exact Hee.
  - cbn [fst]. unfold len in Eb. rewrite nat_N_Z in Eb. rewrite Eb. cbn [fst].
    rewrite <- !app_assoc. reflexivity.
Qed.

(* ---------- the xref stream object ---------- *)
Definition w_of_dict (d : list (bytes * value)) : option (nat * nat * nat) :=
  match dict_get d k_W with
  | Some (VArr [VInt a; VInt b; VInt c]) => Some (Z.to_nat a, Z.to_nat b, Z.to_nat c)
  | _ => None
  end.

Definition opt_prev (prev : option N) : option Z := option_map Z.of_N prev.

Lemma opt_entry_prev prev : opt_entry k_Prev prev = prev_entry (opt_prev prev).
Proof. destruct prev; reflexivity. Qed.

Lemma render_xref_stream_shape xnum size ents prev extra c xb subs d c' :
  render_xref_stream xnum size ents prev extra c = (xb, subs, d, c') ->
  exists w0 w1 w2 sepA sepB s1 cd s2 e0 e1 s3 e,
    w_of_dict d = Some (w0, w1, w2) /\
    is_sep1 sepA /\ is_sep1 sepB /\ is_sep s1 /\ is_sep s2 /\ is_sep s3 /\
    eol_before_data e0 /\ sep_after_data e1 /\ eolch e /\
    xb = fmt_N xnum ++ sepA ++ fmt_N 0 ++ sepB ++ kw_obj ++ s1
         ++ fst (rv (VDict ((d ++ prev_entry (opt_prev prev)) ++ [(k_Length, VInt (Z.of_nat (length (encode_stm_subs w0 w1 w2 subs))))])) cd)
         ++ s2 ++ kw_stream ++ e0 ++ encode_stm_subs w0 w1 w2 subs ++ e1 ++ Seq.kw_endstream ++ s3 ++ Seq.kw_endobj ++ e.
Proof.
  unfold render_xref_stream.
  destruct (group_entries (sort_entries ents) c) as [g c1].
  set (subs0 := map (fun s : N * list rentry => (fst s, map to_stment (snd s))) g).
  destruct (choose_w subs0 c1) as [[[w0 w1] w2] c2].
  destruct (pick 2 c2) as [k c3].
  cbv zeta.
  match goal with
  | |- context [render_obj_stream xnum 0 ?dd ?dt c3] =>
    pose proof (render_obj_stream_shape xnum 0 dd dt c3) as Sh;
    destruct (render_obj_stream xnum 0 dd dt c3) as [b c4] eqn:Eb
  end.
  intros Hinv. injection Hinv as Hx Hs Hd Hc. subst xb subs c'.
  destruct Sh as (sA & sB & s1 & cd & s2 & e0 & e1 & s3 & e & HA & HB & Hs1 & Hs2 & Hs3 & He0 & He1 & Hee & Hsh).
  cbn [fst] in Hsh.
  exists w0, w1, w2, sA, sB, s1, cd, s2, e0, e1, s3, e.
  split.
  { subst d. unfold w_of_dict. cbn [app dict_get]. change (bytes_eqb k_Type k_W) with false.
    change (bytes_eqb k_Size k_W) with false. change (bytes_eqb k_W k_W) with true. cbv beta iota.
    rewrite !Nat2Z.id. reflexivity. }
  repeat split; try assumption; try apply HA; try apply HB.
  rewrite Hsh, opt_entry_prev. subst d. reflexivity.
Qed.

Lemma assoc15 (a1 a2 a3 a4 a5 a6 a7 a8 a9 a10 a11 a12 a13 a14 a15 e : bytes) :
  a1 ++ a2 ++ a3 ++ a4 ++ a5 ++ a6 ++ a7 ++ a8 ++ a9 ++ a10 ++ a11 ++ a12 ++ a13 ++ a14 ++ a15 ++ e
  = (a1 ++ a2 ++ a3 ++ a4 ++ a5 ++ a6 ++ a7 ++ a8 ++ a9 ++ a10 ++ a11 ++ a12 ++ a13 ++ a14 ++ a15) ++ e.
Proof. repeat rewrite <- app_assoc. reflexivity. Qed.

(* ---------- one revision ---------- *)
(* the text of a section as the renderer writes it *)
Definition text_of (sec : rsec) (prev : option Z) (xnum : N) (text : bytes) : Prop :=
  match sec with
  | RTable _ subs tr =>
    exists e0 rsubs e1 cd,
      subs = map rsub_subsection rsubs /\
      text = render_table e0 rsubs e1 ++ fst (rv (VDict (tr ++ prev_entry prev)) cd)
  | RStream _ subs d =>
    exists w0 w1 w2 sepA sepB s1 cd s2 e0 e1 s3,
      w_of_dict d = Some (w0, w1, w2) /\
      is_sep1 sepA /\ is_sep1 sepB /\ is_sep s1 /\ is_sep s2 /\ is_sep s3 /\
      eol_before_data e0 /\ sep_after_data e1 /\
      text = fmt_N xnum ++ sepA ++ fmt_N 0 ++ sepB ++ kw_obj ++ s1
             ++ fst (rv (VDict ((d ++ prev_entry prev) ++ [(k_Length, VInt (Z.of_nat (length (encode_stm_subs w0 w1 w2 subs))))])) cd)
             ++ s2 ++ kw_stream ++ e0 ++ encode_stm_subs w0 w1 w2 subs ++ e1 ++ Seq.kw_endstream ++ s3 ++ Seq.kw_endobj
  | RHybrid _ subs so _ tr =>
    exists e0 rsubs e1 cd,
      subs = map rsub_subsection rsubs /\
      text = render_table e0 rsubs e1 ++ fst (rv (VDict (tr ++ xrefstm_entry so ++ prev_entry prev)) cd)
  end.

(* what follows the section: an EOL choice (or nothing), startxref, the offset, %%EOF *)
Definition post_of (off : Z) (post : bytes) : Prop :=
  exists e x1 x2 x3, (e = [] \/ eolch e) /\ eolch x1 /\ eolch x2 /\ eolch x3 /\
    post = e ++ kw_startxref ++ x1 ++ fmt_N (Z.to_N off) ++ x2 ++ kw_eof ++ x3.

Lemma render_startxref_shape pos c : exists x1 x2 x3, eolch x1 /\ eolch x2 /\ eolch x3 /\
  fst (render_startxref pos c) = kw_startxref ++ x1 ++ fmt_N pos ++ x2 ++ kw_eof ++ x3.
Proof.
  unfold render_startxref.
  pose proof (eolc_cases c) as H1. destruct (eolc c) as [x1 c1].
  pose proof (eolc_cases c1) as H2. destruct (eolc c1) as [x2 c2].
  pose proof (eolc_cases c2) as H3. destruct (eolc c2) as [x3 c3].
  exists x1, x2, x3. cbn [fst] in *. auto.
Qed.

Lemma render_revision_shape r pos prev c b sec ps c' :
  render_revision r pos prev c = (b, sec, ps, c') -> d_kind r <> KHybrid ->
  exists pre text post,
    b = pre ++ text ++ post /\ rsec_off sec = Z.of_N (pos + len pre) /\
    text_of sec (opt_prev prev) (d_xnum r) text /\ post_of (rsec_off sec) post.
Proof.
  unfold render_revision.
  destruct (render_body (d_acts r) pos c) as [[[[body es] ps0] ms] c1].
  set (X := match ms with [] => _ | _ :: _ => _ end).
  destruct X as [[[ob oes] ops] c2].
  destruct (d_kind r) eqn:K; intros H Hk; [| |congruence].
  - (* classic table *)
    destruct (group_entries (sort_entries (es ++ oes)) c2) as [g c3].
    destruct (to_rsubs g c3) as [rsubs c4].
    destruct (pick_hdr_eol c4) as [e0 c5]. destruct (pick_hdr_eol c5) as [e1 c6].
    destruct (rv (VDict (((k_Size, VInt (Z.of_N (d_size r))) :: d_extra r) ++ opt_entry k_Prev prev)) c6) as [db c7] eqn:Edb.
    pose proof (eolc_cases c7) as He2. destruct (eolc c7) as [e2 c8].
    destruct (render_startxref_shape (pos + len body + len ob) c8) as (x1 & x2 & x3 & Hx1 & Hx2 & Hx3 & Hsx).
    destruct (render_startxref (pos + len body + len ob) c8) as [sx c9]. cbn [fst] in Hsx, He2.
    injection H as Hb Hsec Hps Hc. subst b sec.
    exists (body ++ ob), (render_table e0 rsubs e1 ++ db), (e2 ++ sx).
    split; [rewrite <- (app_assoc body ob), <- (app_assoc (render_table e0 rsubs e1) db); reflexivity|].
    split; [cbn [rsec_off]; rewrite len_app; f_equal; lia|].
    split.
    + cbn [text_of]. exists e0, rsubs, e1, c6. split; [reflexivity|].
      rewrite <- opt_entry_prev, Edb. reflexivity.
    + exists e2, x1, x2, x3. cbn [rsec_off]. rewrite N2Z.id, Hsx. auto.
  - (* cross-reference stream *)
    destruct (render_xref_stream (d_xnum r) (d_size r)
                ((d_xnum r, InUse 0 (Z.of_N (pos + len body + len ob)), 0%N) :: es ++ oes) prev (d_extra r) c2)
      as [[[xb subs] d] c3] eqn:Ex.
    destruct (render_xref_stream_shape _ _ _ _ _ _ _ _ _ _ Ex)
      as (w0 & w1 & w2 & sA & sB & s1 & cd & s2 & e0 & e1 & s3 & e & Hw & HA & HB & Hs1 & Hs2 & Hs3 & He0 & He1 & Hee & Hxb).
    destruct (render_startxref_shape (pos + len body + len ob) c3) as (x1 & x2 & x3 & Hx1 & Hx2 & Hx3 & Hsx).
    destruct (render_startxref (pos + len body + len ob) c3) as [sx c4]. cbn [fst] in Hsx.
    injection H as Hb Hsec Hps Hc. subst b sec.
    eexists (body ++ ob), _, (e ++ sx).
    split; [rewrite Hxb, assoc15, <- (app_assoc body ob), <- app_assoc; reflexivity|].
    split; [cbn [rsec_off]; rewrite len_app; f_equal; lia|].
    split.
    + cbn [text_of]. exists w0, w1, w2, sA, sB, s1, cd, s2, e0, e1, s3. repeat split; try assumption; try apply HA; try apply HB.
    + exists e, x1, x2, x3. cbn [rsec_off]. rewrite N2Z.id, Hsx.
      repeat split; auto.
Qed.
