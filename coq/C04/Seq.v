(* C04 - an independent serialiser of revision histories (definitions only).

   [build h c] writes the document history h (a list of revisions, oldest first,
   each a list of define / define-compressed / free actions, a section kind and
   extra trailer keys) as PDF bytes, making every syntactic decision ISO 32000
   leaves open from the list of choices c: white space, comments and EOL kinds,
   literal or hex strings with every escape form, #-escaped names, signs and
   leading zeros, bytes before the header, the split into subsections, the
   /Index and /W of xref streams, classic / stream / hybrid sections, object
   streams.  It is written from the standard, not from the Go source, and is
   extracted and run: its output is what the real Reader has to open.

   Beside the bytes it returns the chain of sections (XRef.chain) it wrote and
   the list of placed objects, so that the faithful reader model (XRef.impl_read)
   and the specification (XRef.spec_resolve) can be evaluated on the same file. *)
From Coq Require Import List NArith ZArith Bool.
From GoPdf.Base Require Import Bytes Res.
From GoPdf.C04 Require Import XRef XRefText.
Import ListNotations.
Open Scope N_scope.

(* ---------- choices ---------- *)
Definition choices := list N.
Definition pick (k : N) (c : choices) : N * choices :=
  match c with [] => (0, []) | x :: c' => (x mod k, c') end.

(* ---------- document histories ---------- *)
Inductive obody :=
| OVal (v : value)
| OStream (d : list (bytes * value)) (data : bytes).

Inductive action :=
| ADefine (num gen : N) (b : obody)       (* an indirect object in the body of this revision *)
| ADefineC (num : N) (v : value)          (* a member of this revision's object stream *)
| AFree (num gen next : N).               (* a free entry *)

Inductive rkind := KTable | KStream | KHybrid.

Record drev := {
  d_acts : list action;
  d_kind : rkind;
  d_xnum : N;           (* object number of the xref stream (KStream, KHybrid) *)
  d_onum : N;           (* object number of the object stream (when there are compressed members) *)
  d_size : N;           (* /Size *)
  d_extra : trailer     (* trailer keys other than Size, Prev, XRefStm and the xref stream's own *)
}.

(* what was written where; offsets are relative to the header *)
Inductive pbody :=
| PVal (v : value)
| PStream (d : list (bytes * value)) (data : bytes)
| PObjStm (members : list (N * value)).
Record placed := { p_off : N; p_num : N; p_gen : N; p_body : pbody }.

Record built := {
  b_bytes : bytes;
  b_hdr : N;                 (* number of bytes before %PDF- *)
  b_chain : chain;           (* newest first *)
  b_placed : list placed
}.

(* ---------- small helpers ---------- *)
Definition str (l : list N) : bytes := l.
Definition len {A} (s : list A) : N := N.of_nat (length s).

Definition hexdig (up : bool) (x : N) : byte :=
  if x <? 10 then 48 + x else (if up then 55 else 87) + x.

Definition fmt_Z (z : Z) : bytes :=
  match z with
  | Zneg p => 45 :: fmt_N (Npos p)
  | _ => fmt_N (Z.to_N z)
  end.

(* white space between tokens; [need] = at least one byte is required *)
Definition ws_variants : list bytes :=
  [ [32]; [10]; [13; 10]; [13]; [9]; [12]; [0]; [32; 32]; [32; 37; 99; 10]; [37; 13]; [10; 32]; [37; 120; 121; 13; 10] ].
Definition sepc (need : bool) (c : choices) : bytes * choices :=
  let '(k, c1) := pick (if need then 12 else 24) c in
  (nth (N.to_nat k) ws_variants [] , c1).   (* k >= 12: nothing *)

Definition eol_variants : list bytes := [ [10]; [13; 10]; [13]; [32; 10] ].
Definition eolc (c : choices) : bytes * choices :=
  let '(k, c1) := pick 4 c in (nth (N.to_nat k) eol_variants [10], c1).

(* ---------- values ---------- *)
Definition is_delim (b : byte) : bool :=
  (b =? 40) || (b =? 41) || (b =? 60) || (b =? 62) || (b =? 91) || (b =? 93) || (b =? 123) || (b =? 125) || (b =? 47) || (b =? 37).
Definition name_plain (b : byte) : bool :=
  (33 <=? b) && (b <=? 126) && negb (is_delim b) && negb (b =? 35).

Fixpoint render_name_bytes (s : bytes) (c : choices) : bytes * choices :=
  match s with
  | [] => ([], c)
  | b :: s' =>
    let '(k, c1) := pick 8 c in
    let '(r, c2) := render_name_bytes s' c1 in
    if name_plain b && negb (k =? 0) then (b :: r, c2)
    else (35 :: hexdig (k <? 4) (b / 16) :: hexdig (4 <=? k) (b mod 16) :: r, c2)
  end.
Definition render_name (s : bytes) (c : choices) : bytes * choices :=
  let '(r, c1) := render_name_bytes s c in (47 :: r, c1).

Definition octal3 (b : byte) : bytes := [48 + b / 64; 48 + (b / 8) mod 8; 48 + b mod 8].

(* Literal strings (ISO 32000 7.3.4.2).  Every end-of-line of the value is written, for each
   occurrence independently, as a raw LF, a raw CR, a raw CR LF (each reads as one LF), \n or
   \012; a CR of the value only as \r or \015 (a raw one would read as LF); before any byte
   a backslash + EOL continuation (LF, CR or CR LF) may be inserted, which the reader drops.
   A raw CR that is written for an end-of-line must not be followed by a raw LF of the next
   piece (the two would read as ONE end-of-line): [next10] says whether what follows begins
   with LF, and CR LF is written instead in that case. *)
Definition starts10 (l : bytes) : bool := match l with b :: _ => b =? 10 | [] => false end.

Definition lit_one (b k : N) (next10 : bool) : bytes :=
  if (b =? 40) || (b =? 41) || (b =? 92) then [92; b]
  else if b =? 13 then (if k <? 10 then [92; 114] else 92 :: octal3 b)
  else if b =? 10 then
    (if k <? 3 then [92; 110]
     else if k <? 5 then 92 :: octal3 b
     else if k <? 9 then [10]
     else if k <? 12 then (if next10 then [13; 10] else [13])
     else [13; 10])
  else if b =? 9 then (if k <? 4 then [92; 116] else if k <? 8 then 92 :: octal3 b else [9])
  else if b =? 8 then [92; 98]
  else if b =? 12 then [92; 102]
  else if k <? 3 then 92 :: octal3 b
  else [b].

Definition lit_cont (k : N) (next10 : bool) : bytes :=
  if k =? 0 then [92; 10]
  else if k =? 1 then (if next10 then [92; 13; 10] else [92; 13])
  else if k =? 2 then [92; 13; 10]
  else [].

Fixpoint render_lit_bytes (s : bytes) (c : choices) : bytes * choices :=
  match s with
  | [] => ([], c)
  | b :: s' =>
    let '(k, c1) := pick 16 c in
    let '(k2, c2) := pick 20 c1 in
    let '(r, c3) := render_lit_bytes s' c2 in
    let one := lit_one b k (starts10 r) in
    let cont := lit_cont k2 (starts10 (one ++ r)) in
    (cont ++ one ++ r, c3)
  end.

Fixpoint render_hex_bytes (s : bytes) (c : choices) : bytes * choices :=
  match s with
  | [] => ([], c)
  | b :: s' =>
    let '(k, c1) := pick 8 c in
    let '(r, c2) := render_hex_bytes s' c1 in
    let up := k <? 4 in
    let gap := if k =? 7 then [32] else if k =? 3 then [10] else [] in
    (* a final 0 nibble may be left out *)
    let lo := match s' with
              | [] => if (b mod 16 =? 0) && (k mod 2 =? 1) then [] else [hexdig up (b mod 16)]
              | _ => [hexdig up (b mod 16)]
              end in
    (hexdig up (b / 16) :: lo ++ gap ++ r, c2)
  end.

Definition render_string (s : bytes) (c : choices) : bytes * choices :=
  let '(k, c1) := pick 2 c in
  if k =? 0 then let '(r, c2) := render_lit_bytes s c1 in (40 :: r ++ [41], c2)
  else let '(r, c2) := render_hex_bytes s c1 in (60 :: r ++ [62], c2).

Definition render_int (z : Z) (c : choices) : bytes * choices :=
  let '(k, c1) := pick 8 c in
  let body := match z with Zneg p => fmt_N (Npos p) | _ => fmt_N (Z.to_N z) end in
  let zeros := if k =? 7 then [48; 48] else if k =? 6 then [48] else [] in
  let sign := match z with Zneg _ => [45] | _ => if k =? 5 then [43] else [] end in
  (sign ++ zeros ++ body, c1).

Definition starts_delim (v : value) : bool :=
  match v with VName _ | VStr _ | VArr _ | VDict _ => true | _ => false end.
Definition ends_delim (v : value) : bool :=
  match v with VStr _ | VArr _ | VDict _ => true | _ => false end.

Definition kw_null : bytes := [110; 117; 108; 108].
Definition kw_true : bytes := [116; 114; 117; 101].
Definition kw_false : bytes := [102; 97; 108; 115; 101].

Fixpoint rv (v : value) (c : choices) : bytes * choices :=
  match v with
  | VNull => (kw_null, c)
  | VBool b => (if b then kw_true else kw_false, c)
  | VInt z => render_int z c
  | VName s => render_name s c
  | VStr s => render_string s c
  | VRef n g =>
    let '(s1, c1) := sepc true c in
    let '(s2, c2) := sepc true c1 in
    (fmt_N n ++ s1 ++ fmt_N g ++ s2 ++ [82], c2)
  | VArr l =>
    let fix go (prev_delim : bool) (l : list value) (c : choices) : bytes * choices :=
      match l with
      | [] => let '(s, c1) := sepc false c in (s ++ [93], c1)
      | x :: l' =>
        let '(s, c1) := sepc (negb (prev_delim || starts_delim x)) c in
        let '(b, c2) := rv x c1 in
        let '(r, c3) := go (ends_delim x) l' c2 in
        (s ++ b ++ r, c3)
      end in
    let '(r, c1) := go true l c in (91 :: r, c1)
  | VDict l =>
    let fix go (l : list (bytes * value)) (c : choices) : bytes * choices :=
      match l with
      | [] => let '(s, c1) := sepc false c in (s ++ [62; 62], c1)
      | (k, x) :: l' =>
        let '(s0, c0) := sepc false c in
        let '(kb, c1) := render_name k c0 in
        let '(s, c2) := sepc (negb (starts_delim x)) c1 in
        let '(b, c3) := rv x c2 in
        let '(r, c4) := go l' c3 in
        (s0 ++ kb ++ s ++ b ++ r, c4)
      end in
    let '(r, c1) := go l c in (60 :: 60 :: r, c1)
  end.

(* ---------- indirect objects ---------- *)
Definition kw_obj : bytes := [111; 98; 106].
Definition kw_endobj : bytes := [101; 110; 100; 111; 98; 106].
Definition kw_stream : bytes := [115; 116; 114; 101; 97; 109].
Definition kw_endstream : bytes := [101; 110; 100; 115; 116; 114; 101; 97; 109].
Definition k_Length : bytes := [76; 101; 110; 103; 116; 104].

Definition obj_head (num gen : N) (c : choices) : bytes * choices :=
  let '(s1, c1) := sepc true c in
  let '(s2, c2) := sepc true c1 in
  (fmt_N num ++ s1 ++ fmt_N gen ++ s2 ++ kw_obj, c2).

Definition render_obj_val (num gen : N) (v : value) (c : choices) : bytes * choices :=
  let '(h, c1) := obj_head num gen c in
  let '(s1, c2) := sepc (negb (starts_delim v)) c1 in
  let '(b, c3) := rv v c2 in
  let '(s2, c4) := sepc (negb (ends_delim v)) c3 in
  let '(e, c5) := eolc c4 in
  (h ++ s1 ++ b ++ s2 ++ kw_endobj ++ e, c5).

(* the stream's /Length is written as a correct direct integer *)
Definition render_obj_stream (num gen : N) (d : list (bytes * value)) (data : bytes) (c : choices) : bytes * choices :=
  let '(h, c1) := obj_head num gen c in
  let '(s1, c2) := sepc false c1 in
  let '(b, c3) := rv (VDict (d ++ [(k_Length, VInt (Z.of_N (len data)))])) c2 in
  let '(s2, c4) := sepc false c3 in
  let '(k0, c5) := pick 2 c4 in
  let e0 := if k0 =? 0 then [10] else [13; 10] in
  (* the end-of-line before endstream is only recommended (7.3.8.1): LF, CR LF, CR or none,
     chosen for every stream on its own; /Length is right, so the data end where it says *)
  let '(k1, c6) := pick 4 c5 in
  let e1 := if k1 =? 0 then [10] else if k1 =? 1 then [13; 10] else if k1 =? 2 then [13] else [] in
  let '(s3, c7) := sepc true c6 in
  let '(e, c8) := eolc c7 in
  (h ++ s1 ++ b ++ s2 ++ kw_stream ++ e0 ++ data ++ e1 ++ kw_endstream ++ s3 ++ kw_endobj ++ e, c8).

(* ---------- object streams ---------- *)
Definition k_Type : bytes := [84; 121; 112; 101].
Definition k_N : bytes := [78].
Definition k_First : bytes := [70; 105; 114; 115; 116].
Definition n_ObjStm : bytes := [79; 98; 106; 83; 116; 109].

(* the members' bytes and their offsets relative to the first one *)
Fixpoint render_members (ms : list (N * value)) (off : N) (c : choices) : list (N * N) * bytes * choices :=
  match ms with
  | [] => ([], [], c)
  | (n, v) :: ms' =>
    let '(b, c1) := rv v c in
    (* after the LAST member: white space / a comment, or nothing - the decoded data then end
       with the last byte of the member's last token (`12 0 R`, `42`, `/Name`, `true`, ...) *)
    let '(s, c2) := sepc (match ms' with [] => false | _ :: _ => true end) c1 in
    let '(idx, r, c3) := render_members ms' (off + len b + len s) c2 in
    ((n, off) :: idx, b ++ s ++ r, c3)
  end.
Fixpoint render_index (idx : list (N * N)) (c : choices) : bytes * choices :=
  match idx with
  | [] => ([], c)
  | (n, o) :: idx' =>
    let '(s1, c1) := sepc true c in
    let '(s2, c2) := sepc true c1 in
    let '(r, c3) := render_index idx' c2 in
    (fmt_N n ++ s1 ++ fmt_N o ++ s2 ++ r, c3)
  end.
Definition objstm_parts (ms : list (N * value)) (c : choices) : list (bytes * value) * bytes * choices :=
  let '(idx, body, c1) := render_members ms 0 c in
  let '(hdr, c2) := render_index idx c1 in
  ([(k_Type, VName n_ObjStm); (k_N, VInt (Z.of_N (len ms))); (k_First, VInt (Z.of_N (len hdr)))],
   hdr ++ body, c2).

(* ---------- entries of a revision ---------- *)
(* (number, entry, value of the first field of a free entry) *)
Definition rentry := (N * entry * N)%type.
Definition re_num (e : rentry) : N := fst (fst e).

Fixpoint insert_sorted (e : rentry) (l : list rentry) : list rentry :=
  match l with
  | [] => [e]
  | x :: l' => if re_num e <=? re_num x then e :: l else x :: insert_sorted e l'
  end.
Definition sort_entries (l : list rentry) : list rentry := fold_right insert_sorted [] l.

(* group into runs of consecutive numbers; a choice may split a run *)
Fixpoint group_aux (l : list rentry) (cur_start : N) (cur : list rentry) (c : choices)
  : list (N * list rentry) * choices :=
  match l with
  | [] => ([(cur_start, rev cur)], c)
  | e :: l' =>
    let '(k, c1) := pick 5 c in
    if (re_num e =? cur_start + len cur) && negb (k =? 0) then group_aux l' cur_start (e :: cur) c1
    else let '(r, c2) := group_aux l' (re_num e) [e] c1 in ((cur_start, rev cur) :: r, c2)
  end.
Definition group_entries (l : list rentry) (c : choices) : list (N * list rentry) * choices :=
  match l with
  | [] => ([], c)
  | e :: l' => group_aux l' (re_num e) [e] c
  end.

Definition to_rawent (e : rentry) : rawent :=
  match snd (fst e) with
  | Free g => {| re_a := Z.of_N (snd e); re_b := g; re_n := false |}
  | InUse g off => {| re_a := off; re_b := g; re_n := true |}
  | InStm s i => {| re_a := 0; re_b := 0; re_n := false |}      (* cannot be expressed in a table; never asked for *)
  end.
Definition to_stment (e : rentry) : stment :=
  match snd (fst e) with
  | Free g => {| se_tp := 0; se_a := snd e; se_b := g |}
  | InUse g off => {| se_tp := 1; se_a := Z.to_N off; se_b := g |}
  | InStm s i => {| se_tp := 2; se_a := s; se_b := i |}
  end.

Definition pick_line_eol (c : choices) : line_eol * choices :=
  let '(k, c1) := pick 3 c in ((if k =? 0 then EolCRLF else if k =? 1 then EolSPLF else EolSPCR), c1).
Definition pick_hdr_eol (c : choices) : hdr_eol * choices :=
  let '(k, c1) := pick 4 c in ((if k =? 0 then HLF else if k =? 1 then HCRLF else if k =? 2 then HCR else HSPLF), c1).

Fixpoint with_line_eols (l : list rentry) (c : choices) : list (rawent * line_eol) * choices :=
  match l with
  | [] => ([], c)
  | e :: l' =>
    let '(x, c1) := pick_line_eol c in
    let '(r, c2) := with_line_eols l' c1 in
    ((to_rawent e, x) :: r, c2)
  end.
Fixpoint to_rsubs (g : list (N * list rentry)) (c : choices) : list rsub * choices :=
  match g with
  | [] => ([], c)
  | (s, es) :: g' =>
    let '(ls, c1) := with_line_eols es c in
    let '(h, c2) := pick_hdr_eol c1 in
    let '(r, c3) := to_rsubs g' c2 in
    ({| rs_start := s; rs_lines := ls; rs_eol := h |} :: r, c3)
  end.

(* ---------- xref streams ---------- *)
Definition k_Size : bytes := [83; 105; 122; 101].
Definition k_Prev : bytes := [80; 114; 101; 118].
Definition k_XRefStm : bytes := [88; 82; 101; 102; 83; 116; 109].
Definition k_W : bytes := [87].
Definition k_Index : bytes := [73; 110; 100; 101; 120].
Definition n_XRef : bytes := [88; 82; 101; 102].

Definition width_of (x : N) : nat := N.to_nat ((N.size x + 7) / 8).
Definition max_width (f : stment -> N) (subs : list stmsub) : nat :=
  fold_left (fun w (s : stmsub) => fold_left (fun w e => Nat.max w (width_of (f e))) (snd s) w) subs O.
Definition all_type1 (subs : list stmsub) : bool :=
  forallb (fun s : stmsub => forallb (fun e => se_tp e =? 1) (snd s)) subs.

Definition choose_w (subs : list stmsub) (c : choices) : (nat * nat * nat) * choices :=
  let '(k0, c0) := pick 4 c in
  let '(k1, c1) := pick 3 c0 in
  let '(k2, c2) := pick 3 c1 in
  let w0 := if all_type1 subs && (k0 =? 0) then O else if k0 =? 3 then 2%nat else 1%nat in
  let w1 := Nat.min 8 (max_width se_a subs + N.to_nat k1) in
  let w2 := Nat.min 8 (max_width se_b subs + N.to_nat k2) in
  (* the three widths must not all be zero *)
  let w1 := if Nat.eqb (w0 + w1 + w2) 0 then 1%nat else w1 in
  ((w0, w1, w2), c2).

Definition index_value (subs : list stmsub) : value :=
  VArr (flat_map (fun s : stmsub => [VInt (Z.of_N (fst s)); VInt (Z.of_N (len (snd s)))]) subs).

Definition opt_entry (k : bytes) (o : option N) : list (bytes * value) :=
  match o with Some p => [(k, VInt (Z.of_N p))] | None => [] end.

(* the xref stream object: returns its bytes, the subsections and the dictionary (without Prev, Length) *)
Definition render_xref_stream (xnum size : N) (ents : list rentry) (prev : option N) (extra : trailer) (c : choices)
  : bytes * list stmsub * trailer * choices :=
  let '(g, c1) := group_entries (sort_entries ents) c in
  let subs : list stmsub := map (fun s : N * list rentry => (fst s, map to_stment (snd s))) g in
  let '(w, c2) := choose_w subs c1 in
  let '(w0, w1, w2) := w in
  let data := encode_stm_subs w0 w1 w2 subs in
  let '(k, c3) := pick 2 c2 in
  (* /Index may be left out when it is [0 Size] *)
  let idx := match subs with
             | [(0, es)] => if (len es =? size) && (k =? 0) then [] else [(k_Index, index_value subs)]
             | _ => [(k_Index, index_value subs)]
             end in
  let d := [(k_Type, VName n_XRef); (k_Size, VInt (Z.of_N size));
            (k_W, VArr [VInt (Z.of_nat w0); VInt (Z.of_nat w1); VInt (Z.of_nat w2)])] ++ idx ++ extra in
  let '(b, c4) := render_obj_stream xnum 0 (d ++ opt_entry k_Prev prev) data c3 in
  (b, subs, d, c4).

(* ---------- one revision ---------- *)
Definition kw_startxref : bytes := [115; 116; 97; 114; 116; 120; 114; 101; 102].
Definition kw_eof : bytes := [37; 37; 69; 79; 70].

(* the indirect objects of the revision body *)
Fixpoint render_body (acts : list action) (pos : N) (c : choices)
  : bytes * list rentry * list placed * list (N * value) * choices :=
  match acts with
  | [] => ([], [], [], [], c)
  | a :: acts' =>
    match a with
    | ADefine num gen (OVal v) =>
      let '(b, c1) := render_obj_val num gen v c in
      let '(r, es, ps, ms, c2) := render_body acts' (pos + len b) c1 in
      (b ++ r, (num, InUse gen (Z.of_N pos), 0) :: es,
       {| p_off := pos; p_num := num; p_gen := gen; p_body := PVal v |} :: ps, ms, c2)
    | ADefine num gen (OStream d data) =>
      let '(b, c1) := render_obj_stream num gen d data c in
      let '(r, es, ps, ms, c2) := render_body acts' (pos + len b) c1 in
      (b ++ r, (num, InUse gen (Z.of_N pos), 0) :: es,
       {| p_off := pos; p_num := num; p_gen := gen; p_body := PStream d data |} :: ps, ms, c2)
    | ADefineC num v =>
      let '(r, es, ps, ms, c2) := render_body acts' pos c in
      (r, es, ps, (num, v) :: ms, c2)
    | AFree num gen next =>
      let '(r, es, ps, ms, c2) := render_body acts' pos c in
      (r, (num, Free gen, next) :: es, ps, ms, c2)
    end
  end.

Fixpoint member_entries (onum : N) (ms : list (N * value)) (i : N) : list rentry :=
  match ms with
  | [] => []
  | (n, _) :: ms' => (n, InStm onum i, 0) :: member_entries onum ms' (i + 1)
  end.

Definition is_instm (e : rentry) : bool := match snd (fst e) with InStm _ _ => true | _ => false end.

(* split for a hybrid section: compressed objects can only go to the stream part.  An
   object whose entry is in the stream part may be HIDDEN from readers that only know the
   table: the table then lists its number as free (the standard use of hybrid files) *)
Fixpoint split_hybrid (l : list rentry) (c : choices) : list rentry * list rentry * choices :=
  match l with
  | [] => ([], [], c)
  | e :: l' =>
    let '(k, c1) := pick 6 c in
    let '(t, s, c2) := split_hybrid l' c1 in
    if is_instm e || ((k <? 3) && negb (re_num e =? 0)) then
      (* k = 0: also a free marker in the table, generation 0; k = 1 and compressed: marker too *)
      if (k =? 0) || ((k =? 1) && is_instm e)
      then ((re_num e, Free (if k =? 0 then 0 else 65535), 0) :: t, e :: s, c2)
      else (t, e :: s, c2)
    else (e :: t, s, c2)
  end.

Definition render_startxref (pos : N) (c : choices) : bytes * choices :=
  let '(e1, c1) := eolc c in
  let '(e2, c2) := eolc c1 in
  let '(e3, c3) := eolc c2 in
  (kw_startxref ++ e1 ++ fmt_N pos ++ e2 ++ kw_eof ++ e3, c3).

(* returns the bytes of the revision, its section, and the placed objects *)
Definition render_revision (r : drev) (pos : N) (prev : option N) (c : choices)
  : bytes * rsec * list placed * choices :=
  let '(body, es, ps, ms, c1) := render_body (d_acts r) pos c in
  let pos1 := pos + len body in
  (* the object stream, if there are members *)
  let '(ob, oes, ops, c2) :=
    match ms with
    | [] => ([], [], [], c1)
    | _ =>
      let '(d, data, c') := objstm_parts ms c1 in
      let '(b, c'') := render_obj_stream (d_onum r) 0 d data c' in
      (b, (d_onum r, InUse 0 (Z.of_N pos1), 0) :: member_entries (d_onum r) ms 0,
       [{| p_off := pos1; p_num := d_onum r; p_gen := 0; p_body := PObjStm ms |}], c'')
    end in
  let pos2 := pos1 + len ob in
  let ents := es ++ oes in
  let size_e := (k_Size, VInt (Z.of_N (d_size r))) in
  match d_kind r with
  | KTable =>
    let '(g, c3) := group_entries (sort_entries ents) c2 in
    let '(rsubs, c4) := to_rsubs g c3 in
    let '(e0, c5) := pick_hdr_eol c4 in
    let '(e1, c6) := pick_hdr_eol c5 in
    let tr := size_e :: d_extra r in
    let '(db, c7) := rv (VDict (tr ++ opt_entry k_Prev prev)) c6 in
    let '(e2, c8) := eolc c7 in
    let '(sx, c9) := render_startxref pos2 c8 in
    (body ++ ob ++ render_table e0 rsubs e1 ++ db ++ e2 ++ sx,
     RTable (Z.of_N pos2) (map rsub_subsection rsubs) tr, ps ++ ops, c9)
  | KStream =>
    let ents' := (d_xnum r, InUse 0 (Z.of_N pos2), 0) :: ents in
    let '(xb, subs, d, c3) := render_xref_stream (d_xnum r) (d_size r) ents' prev (d_extra r) c2 in
    let '(sx, c4) := render_startxref pos2 c3 in
    (body ++ ob ++ xb ++ sx, RStream (Z.of_N pos2) subs d,
     ps ++ ops ++ [{| p_off := pos2; p_num := d_xnum r; p_gen := 0; p_body := PStream [] [] |}], c4)
  | KHybrid =>
    let '(tents, sents, c3) := split_hybrid ents c2 in
    let sents' := (d_xnum r, InUse 0 (Z.of_N pos2), 0) :: sents in
    let '(xb, ssubs, _, c4) := render_xref_stream (d_xnum r) (d_size r) sents' None [] c3 in
    let pos3 := pos2 + len xb in
    let '(g, c5) := group_entries (sort_entries tents) c4 in
    let '(rsubs, c6) := to_rsubs g c5 in
    let '(e0, c7) := pick_hdr_eol c6 in
    let '(e1, c8) := pick_hdr_eol c7 in
    let tr := size_e :: d_extra r in
    let '(db, c9) := rv (VDict (tr ++ opt_entry k_XRefStm (Some pos2) ++ opt_entry k_Prev prev)) c8 in
    let '(e2, c10) := eolc c9 in
    let '(sx, c11) := render_startxref pos3 c10 in
    (body ++ ob ++ xb ++ render_table e0 rsubs e1 ++ db ++ e2 ++ sx,
     RHybrid (Z.of_N pos3) (map rsub_subsection rsubs) (Z.of_N pos2) ssubs tr,
     ps ++ ops ++ [{| p_off := pos2; p_num := d_xnum r; p_gen := 0; p_body := PStream [] [] |}], c11)
  end.

Fixpoint render_revisions (h : list drev) (pos : N) (prev : option N) (ch : chain) (c : choices)
  : bytes * chain * list placed * choices :=
  match h with
  | [] => ([], ch, [], c)
  | r :: h' =>
    let '(b, sec, ps, c1) := render_revision r pos prev c in
    let '(rest, ch', ps', c2) := render_revisions h' (pos + len b) (Some (Z.to_N (rsec_off sec))) (sec :: ch) c1 in
    (b ++ rest, ch', ps ++ ps', c2)
  end.

(* ---------- the file ---------- *)
Definition junk_variants : list bytes :=
  [ []; [106; 117; 110; 107; 10]; [120; 120; 37; 80; 68; 10]; [0; 255; 13; 10; 32];
    [37; 33; 80; 83; 45; 65; 100; 111; 98; 101; 10] ].
Definition pdf_header : bytes := [37; 80; 68; 70; 45; 49; 46; 55].      (* %PDF-1.7 *)
Definition bin_comment : bytes := [37; 226; 227; 207; 211].

Definition build (h : list drev) (c : choices) : built :=
  let '(k, c1) := pick 5 c in
  let junk := nth (N.to_nat k) junk_variants [] in
  let '(e0, c2) := eolc c1 in
  let '(kb, c3) := pick 2 c2 in
  let '(e1, c4) := eolc c3 in
  let head := pdf_header ++ e0 ++ (if kb =? 0 then bin_comment ++ e1 else []) in
  let '(b, ch, ps, _) := render_revisions h (len head) None [] c4 in
  {| b_bytes := junk ++ head ++ b; b_hdr := len junk; b_chain := ch; b_placed := ps |}.

Definition render (h : list drev) (c : choices) : bytes := b_bytes (build h c).

(* ---------- the reader model on a built file ---------- *)
Inductive gotten :=
| GNull
| GVal (v : value)
| GStream (d : list (bytes * value)) (data : bytes)
| GErr.                       (* the reader reports an error for this reference *)

Fixpoint placed_at (ps : list placed) (off : N) : option placed :=
  match ps with
  | [] => None
  | p :: ps' => if p_off p =? off then Some p else placed_at ps' off
  end.
Fixpoint member (ms : list (N * value)) (n : N) : option value :=
  match ms with
  | [] => None
  | (k, v) :: ms' => if k =? n then Some v else member ms' n
  end.

(* getFromObjStm recognises a member that is an indirect reference since fix F23 *)
Definition fetch (ps : list placed) (ans : N -> N -> answer) (num gen : N) : gotten :=
  match ans num gen with
  | ANull => GNull
  | AAt off =>
    match placed_at ps (Z.to_N off) with
    | Some p =>
      if (p_num p =? num) && (p_gen p =? gen) then
        match p_body p with
        | PVal v => GVal v
        | PStream d data => GStream d data
        | PObjStm ms => GStream [] []
        end
      else GErr                      (* "xref corrupted" *)
    | None => GErr
    end
  | AIn stm idx =>
    match ans stm 0 with
    | AAt off =>
      match placed_at ps (Z.to_N off) with
      | Some p =>
        if (p_num p =? stm) && (p_gen p =? 0) then
          match p_body p with
          | PObjStm ms => match member ms num with Some v => GVal v | None => GErr end
          | _ => GErr
          end
        else GErr
      | None => GErr
      end
    | ANull => GErr                   (* the container resolves to null: "got <nil> instead object stream" *)
    | AIn _ _ => GErr
    end
  end.

Fixpoint dict_get (d : list (bytes * value)) (k : bytes) : option value :=
  match d with
  | [] => None
  | (k', v) :: d' => if bytes_eqb k' k then Some v else dict_get d' k
  end.
Definition k_Pages : bytes := [80; 97; 103; 101; 115].

(* NewReader refuses a file whose /Root does not lead to a catalog dictionary with /Pages *)
Definition catalog_ok (ps : list placed) (m : xmap) (t : trailer) : bool :=
  match dict_get t k_Root with
  | Some (VRef n g) =>
    match fetch ps (get_entry m) n g with
    | GVal (VDict d) => match dict_get d k_Pages with Some (VRef _ _) => true | _ => false end
    | _ => false
    end
  | _ => false
  end.

Definition file_size (b : built) : Z := Z.of_N (len (b_bytes b) - b_hdr b).

(* the faithful reader model *)
Definition model_get (b : built) (num gen : N) : gotten :=
  match impl_read (layout_of (b_chain b)) (file_size b) (start_of (b_chain b)) with
  | Ok (m, _) => fetch (b_placed b) (get_entry m) num gen
  | Err _ => GErr
  end.
Definition model_trailer (b : built) : res trailer := impl_trailer (b_chain b) (file_size b).

(* the specification *)
Definition spec_get (b : built) (num gen : N) : gotten :=
  fetch (b_placed b) (spec_answer (history_of (b_chain b))) num gen.
Definition spec_trailer_of (b : built) : trailer := spec_trailer (history_of (b_chain b)).

(* do the hypotheses of the theorems hold of this file? *)
Definition hyp_wf (b : built) : bool := wf_chain (file_size b) (b_chain b).
Definition hyp_guard (b : built) : bool := guard (b_chain b).
Definition hyp_no_hidden (b : built) : bool := no_hidden (b_chain b).
