(* C12: property theorems only; each closed by [exact] and followed by Print Assumptions. *)
From Coq Require Import List NArith.
From GoPdf.Base Require Import Bytes.
From GoPdf.C12 Require Import Codec CodecProofs.
Import ListNotations.

Theorem tree_decode_consumes_within_input :
  forall cs s c, s <> [] -> (S c <= fst (tdecode cs s c) <= c + length s)%nat.
Proof. exact tdecode_bounds. Qed.
Print Assumptions tree_decode_consumes_within_input.
