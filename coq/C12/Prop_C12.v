(* C12: property theorems only; each closed by [exact] and followed by Print Assumptions. *)
From Coq Require Import List NArith.
From GoPdf.Base Require Import Bytes.
From GoPdf.C12 Require Import Codec CodecProofs CodecSpecProofs CodecTreeProofs CodecAcceptProofs CodecLinProofs
     CodecRTProofs CodecWalkProofs CodecTwfProofs CodecLinearizeProofs CodecLinTotalProofs CodecMergeProofs CodecFinalProofs CodecConstProofs.
Import ListNotations.
Open Scope N_scope.

(* consumed: at least one byte, never more than available (any tree) *)
Theorem tree_decode_consumes_within_input :
  forall cs s c, s <> [] -> (S c <= fst (tdecode cs s c) <= c + length s)%nat.
Proof. exact tdecode_bounds. Qed.
Print Assumptions tree_decode_consumes_within_input.

(* NewCodec accepts exactly the valid range sets in which no code is a proper prefix of another *)
Theorem accepts_prefix_free :
  forall csr, forallb range_valid csr = true -> prefix_free csr -> exists t, new_codec_tree csr = Some t.
Proof. exact accepts_prefix_free_lemma. Qed.
Print Assumptions accepts_prefix_free.

Theorem accepted_is_prefix_free :
  forall csr t, new_codec_tree csr = Some t -> forallb range_valid csr = true /\ prefix_free csr.
Proof. exact accepted_is_prefix_free_lemma. Qed.
Print Assumptions accepted_is_prefix_free.

(* for every accepted range set and every byte string the tree decodes as 9.7.6.2/9.7.6.3 say:
   valid iff the first bytes lie in a range, consuming that range's length; otherwise the
   shortest code length among the ranges sharing the longest prefix, cut to the input *)
Theorem tdecode_spec :
  forall csr t, new_codec_tree csr = Some t ->
  forall s, wfbs s = true -> tdecode t s 0 = spec_decode csr s.
Proof. exact tdecode_spec_lemma. Qed.
Print Assumptions tdecode_spec.

(* certified validator: a node array accepted by lin_ok decodes every string as the tree does,
   the code being the little-endian value of the consumed bytes (at most four) *)
Theorem lin_sound :
  forall nodes t, lin_ok nodes t = true ->
  forall s, wfbs s = true ->
    decode nodes s = Some (le_code (firstn (fst (tdecode t s 0)) s), fst (tdecode t s 0), snd (tdecode t s 0))
    /\ (fst (tdecode t s 0) <= 4)%nat.
Proof. exact lin_sound_lemma. Qed.
Print Assumptions lin_sound.

(* the specification itself consumes at least one byte and never more than available *)
Theorem spec_consumed_bounds :
  forall csr t, new_codec_tree csr = Some t ->
  forall s, wfbs s = true -> s <> [] -> (1 <= fst (spec_decode csr s) <= length s)%nat.
Proof. exact spec_consumed_bounds_lemma. Qed.
Print Assumptions spec_consumed_bounds.

(* linearize_ok: whenever the lineariser succeeds, the node array it builds (reserved slots, the
   `done` map that shares subtrees with equal descriptors - also across depths) passes the
   validator, for every tree of new_codec_tree *)
Theorem linearize_ok :
  forall csr t nodes, new_codec_tree csr = Some t -> linearize t = LOk nodes -> lin_ok nodes t = true.
Proof. exact linearize_ok_lemma. Qed.
Print Assumptions linearize_ok.

(* hence every codec the model of NewCodec returns is a validated array of its tree, and all
   statements below that assume [new_codec_tree csr = Some t] and [lin_ok nodes t = true]
   hold for it *)
Theorem codec_validated :
  forall csr nodes, codec csr = Some (Some nodes) ->
  exists t, new_codec_tree csr = Some t /\ lin_ok nodes t = true.
Proof. exact codec_validated_lemma. Qed.
Print Assumptions codec_validated.

(* codec_total: NewCodec never panics - for EVERY range set it either returns an error
   (invalid set, a code that is a prefix of another, or more nodes than a uint16 child index
   can address) or a validated codec *)
Theorem codec_total :
  forall csr, codec csr = None \/
    exists nodes t, codec csr = Some (Some nodes) /\ new_codec_tree csr = Some t /\ lin_ok nodes t = true.
Proof. exact codec_total_lemma. Qed.
Print Assumptions codec_total.

(* the size error is reserved for large trees: at most 65532 nodes counted without sharing
   (tsize; the real array is never longer) are always accepted *)
Theorem codec_accepts_small :
  forall csr t, new_codec_tree csr = Some t -> N.of_nat (tsize (TSub t)) <= 65532 ->
  exists nodes, codec csr = Some (Some nodes) /\ lin_ok nodes t = true.
Proof. exact codec_accepts_small_lemma. Qed.
Print Assumptions codec_accepts_small.

(* decode_spec: for every range set NewCodec accepts, Decode on the codec follows
   9.7.6.2/9.7.6.3 for every byte string, and the code is the little-endian value of the
   consumed bytes *)
Theorem decode_spec :
  forall csr nodes, codec csr = Some (Some nodes) ->
  forall s, wfbs s = true ->
    decode nodes s = Some (le_code (firstn (fst (spec_decode csr s)) s),
                           fst (spec_decode csr s), snd (spec_decode csr s)).
Proof. exact decode_spec_lemma. Qed.
Print Assumptions decode_spec.

(* the same for any node array that passes the validator (this is what the check applies to
   the implementation's real node arrays) *)
Theorem decode_spec_validated :
  forall csr t nodes, new_codec_tree csr = Some t -> lin_ok nodes t = true ->
  forall s, wfbs s = true ->
    decode nodes s = Some (le_code (firstn (fst (spec_decode csr s)) s),
                           fst (spec_decode csr s), snd (spec_decode csr s)).
Proof. exact decode_spec_validated_lemma. Qed.
Print Assumptions decode_spec_validated.

(* wrap-freedom.  The model writes the uint16 cursor of Decode/AppendCode/walk explicitly
   (cur_succ: 65535 + 1 = 0).  lin_ok demands of every sibling group that it ENDS at or below
   the first special child value 65532 = 2^16 - 4 (translated constant invalidConsume3), and
   then every scan of Decode stops at an index below 65532: the cursor never reaches 65535,
   let alone wraps.  (ldecode_idx lists the index at which each scan stops.) *)
Theorem decode_wrap_free :
  forall nodes t, lin_ok nodes t = true ->
  forall s, wfbs s = true ->
  Forall (fun i : nat => N.of_nat i < 65532) (ldecode_idx (S (length s)) nodes 0 s).
Proof. exact decode_cursor_bound_lemma. Qed.
Print Assumptions decode_wrap_free.

(* Decode and AppendCode never index outside the node array and never run out of fuel *)
Theorem decode_no_panic :
  forall nodes t, lin_ok nodes t = true -> forall s, wfbs s = true -> decode nodes s <> None.
Proof. exact decode_no_panic_lemma. Qed.
Print Assumptions decode_no_panic.

Theorem append_no_panic :
  forall nodes t, lin_ok nodes t = true -> forall code, append_code nodes code <> None.
Proof. exact append_no_panic_lemma. Qed.
Print Assumptions append_no_panic.

(* codec_rt, first half: encoding then decoding reproduces the code (its low 8*len bits: the
   bytes AppendCode wrote), consuming exactly the bytes written *)
Theorem codec_rt_append_decode :
  forall nodes t, lin_ok nodes t = true -> forall code,
  exists bs v, append_code nodes code = Some bs /\ (1 <= length bs <= 4)%nat /\
    decode nodes bs = Some (N.land code (N.ones (8 * N.of_nat (length bs))), length bs, v).
Proof. exact rt_append_decode_lemma. Qed.
Print Assumptions codec_rt_append_decode.

(* codec_rt, second half: decoding then re-encoding reproduces the consumed bytes; if the
   input ended inside a code (possible only for an invalid result on fewer than four bytes)
   the re-encoding is the consumed bytes followed by zero padding *)
Theorem codec_rt_decode_append :
  forall nodes t, lin_ok nodes t = true ->
  forall s, wfbs s = true ->
  let k := fst (tdecode t s 0) in
  let v := snd (tdecode t s 0) in
  exists pad, append_code nodes (le_code (firstn k s)) = Some (firstn k s ++ repeat 0 pad) /\
    (k + pad <= 4)%nat /\ (v = true -> pad = O) /\ (4 <= length s -> pad = O)%nat.
Proof. exact rt_decode_append_lemma. Qed.
Print Assumptions codec_rt_decode_append.

(* csr_equiv: CodeSpaceRange() - the walk over the node array followed by the loop that merges
   adjacent ranges - never panics, ends within its rounds, and reports ranges that match exactly
   the same codes as the range set the codec was built from *)
Theorem csr_equiv :
  forall csr t nodes, new_codec_tree csr = Some t -> lin_ok nodes t = true ->
  exists rep, code_space_range nodes = Some rep /\
              forall s, wfbs s = true -> match_len rep s = match_len csr s.
Proof. exact code_space_range_equiv_lemma. Qed.
Print Assumptions csr_equiv.

(* cost of the merge loop as the code is written: a round inspects all ordered pairs (at most
   n^2 candidates), and since every round removes a range there are at most n rounds - cubic
   in the number of ranges the walk reports (which is the number of root-to-leaf PATHS of the
   shared tree, not of nodes) *)
Theorem merge_loop_cost :
  (forall L cands, merge_candidates L = Some cands -> (length cands <= length L * length L)%nat) /\
  (forall L, MInv L -> exists L', merge_loop (S (length L)) L = Some L' /\ (length L' <= length L)%nat).
Proof. exact (conj merge_candidates_bound merge_rounds_bound). Qed.
Print Assumptions merge_loop_cost.

(* the same for the intermediate result of the walk *)
Theorem csr_equiv_walk :
  forall csr t nodes, new_codec_tree csr = Some t -> lin_ok nodes t = true ->
  exists wr, walk_ranges nodes = Some wr /\
             forall s, wfbs s = true -> match_len wr s = match_len csr s.
Proof. exact csr_equiv_lemma. Qed.
Print Assumptions csr_equiv_walk.

(* the sentinel child values and descriptor tags of the model are the constants of the Go
   source (coq/Gen/Gen_C12.v is regenerated from font/charcode/codec.go on every run) *)
Theorem constants_match_source : model_constants = source_constants.
Proof. exact constants_match_source_lemma. Qed.
Print Assumptions constants_match_source.

(* hypotheses are satisfiable: the UTF-8 code space *)
Definition utf8 : list range :=
  [([0],[127]); ([194;128],[223;191]); ([224;128;128],[239;191;191]); ([240;128;128;128],[244;191;191;191])].
Example utf8_accepted_and_validated :
  match new_codec_tree utf8 with
  | Some t => match linearize t with LOk nodes => lin_ok nodes t = true /\ length nodes = 15%nat | _ => False end
  | None => False
  end.
Proof. vm_compute. split; reflexivity. Qed.
(* the witness of defect F4: with the invalid gaps in the descriptor, <0105> is invalid *)
Example f4_witness :
  match codec [([0;0],[0;127]); ([1;16],[1;127])] with
  | Some (Some nodes) => decode nodes [1;5] = Some (1281, 2%nat, false)
  | _ => False
  end.
Proof. vm_compute. reflexivity. Qed.
