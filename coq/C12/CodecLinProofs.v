(* C12: soundness of the validator lin_ok: a node array that passes it decodes
   every byte string exactly as the tree does. *)
From Coq Require Import List Arith NArith Lia Bool ZifyN ZifyNat ZifyBool.
From GoPdf.Base Require Import Bytes.
From GoPdf.C12 Require Import Codec CodecProofs.
Import ListNotations.
Open Scope N_scope.

(* the loop over one sibling group inside lin_node *)
Definition lin_group (nodes : list lnode) (d : nat) :=
  fix go (cs : list (byte * tnode)) (cur : nat) {struct cs} : bool :=
    match cs with
    | [] => true
    | (h, n') :: r =>
      match nth_error nodes cur with
      | Some ln => (bound ln =? h) && lin_node nodes (S d) n' (child ln) && go r (S cur)
      | None => false
      end
    end.

Lemma lin_node_sub nodes d cc c :
  lin_node nodes d (TSub cc) c =
  ((c <? 65532) && (c + N.of_nat (length cc) <=? 65532)) && (d <? 4)%nat && group_shape None cc &&
  (match d with O => c =? 0 | S _ => 0 <? c end) && lin_group nodes d cc (N.to_nat c).
Proof. reflexivity. Qed.

Lemma lin_node_leaf nodes d c : lin_node nodes d TLeaf c = (c =? 0) && (d <=? 4)%nat.
Proof. reflexivity. Qed.

Lemma lin_node_invalid nodes d k c :
  lin_node nodes d (TInvalid k) c = (k <=? 3)%nat && (c =? 65535 - N.of_nat k) && (d + k <=? 4)%nat.
Proof. reflexivity. Qed.

Lemma lin_group_cons nodes d h n' r cur :
  lin_group nodes d ((h, n') :: r) cur =
  match nth_error nodes cur with
  | Some ln => (bound ln =? h) && lin_node nodes (S d) n' (child ln) && lin_group nodes d r (S cur)
  | None => false
  end.
Proof. reflexivity. Qed.

Lemma lin_group_nth nodes d : forall cc cur, lin_group nodes d cc cur = true ->
  forall i h n', nth_error cc i = Some (h, n') ->
  exists ln, nth_error nodes (cur + i) = Some ln /\ bound ln = h /\ lin_node nodes (S d) n' (child ln) = true.
Proof.
  induction cc as [|[h0 n0] r IH]; intros cur H i h n' Hi; [destruct i; discriminate|].
  rewrite lin_group_cons in H. destruct (nth_error nodes cur) as [ln|] eqn:E; [|discriminate].
  rewrite !andb_true_iff in H. destruct H as [[Hb Hn] Hr].
  destruct i as [|i]; cbn in Hi.
  - inversion Hi; subst. exists ln. rewrite Nat.add_0_r. apply N.eqb_eq in Hb. auto.
  - destruct (IH (S cur) Hr i h n' Hi) as [ln' H']. exists ln'. rewrite Nat.add_succ_r. exact H'.
Qed.

Lemma cur_succ_small cur : N.of_nat (S cur) < 65536 -> cur_succ cur = S cur.
Proof. intro H. unfold cur_succ. rewrite N.mod_small by assumption. apply Nat2N.id. Qed.

(* the inner scan finds the node of the child that find_child selects; the uint16 cursor does
   not wrap because the group ends below the special child values *)
Lemma scan_find nodes d b : forall cc cur fuel n',
  lin_group nodes d cc cur = true -> find_child b cc = Some n' -> (length cc <= fuel)%nat ->
  N.of_nat (cur + length cc) <= 65532 ->
  exists ln idx, scan_nodes fuel nodes cur b = Some (ln, idx) /\ lin_node nodes (S d) n' (child ln) = true /\
                 (cur <= idx < cur + length cc)%nat.
Proof.
  induction cc as [|[h0 n0] r IH]; intros cur fuel n' H Hf Hfuel Hend; [discriminate|].
  rewrite lin_group_cons in H. destruct (nth_error nodes cur) as [ln|] eqn:E; [|discriminate].
  rewrite !andb_true_iff in H. destruct H as [[Hb Hn] Hr]. apply N.eqb_eq in Hb.
  destruct fuel as [|fuel]; [cbn in Hfuel; lia|].
  cbn [find_child] in Hf. cbn [scan_nodes]. rewrite E, Hb. cbn [length] in Hend, Hfuel.
  destruct (b <=? h0).
  - inversion Hf; subst. exists ln, cur. split; [reflexivity|]. split; [assumption|]. cbn [length]. lia.
  - rewrite cur_succ_small by lia.
    destruct (IH (S cur) fuel n' Hr Hf ltac:(lia) ltac:(lia)) as (ln' & idx & Hs & Hl & Hi).
    exists ln', idx. split; [assumption|]. split; [assumption|]. cbn [length]. lia.
Qed.

Lemma group_shape_find b : forall cc prev, group_shape prev cc = true ->
  (forall p, prev = Some p -> p < b) -> b < 256 -> exists n', find_child b cc = Some n'.
Proof.
  induction cc as [|[h n] r IH]; intros prev H Hp Hb.
  - destruct prev as [p|]; cbn [group_shape] in H; [|discriminate]. apply N.eqb_eq in H. specialize (Hp p eq_refl). lia.
  - cbn [group_shape] in H. rewrite !andb_true_iff in H. destruct H as [[H1 H2] H3].
    cbn [find_child]. destruct (b <=? h) eqn:E; [eexists; reflexivity|].
    apply (IH (Some h) H3); [|assumption]. intros p Hp'. inversion Hp'; subst. lia.
Qed.

Lemma group_shape_length : forall cc prev, group_shape prev cc = true ->
  N.of_nat (length cc) + match prev with Some p => p + 1 | None => 0 end <= 256.
Proof.
  induction cc as [|[h n] r IH]; intros prev H.
  - destruct prev as [p|]; cbn [group_shape] in H; [|discriminate]. apply N.eqb_eq in H. cbn [length]. lia.
  - cbn [group_shape] in H. rewrite !andb_true_iff in H. destruct H as [[H1 H2] H3].
    specialize (IH (Some h) H3). cbv iota beta in IH. cbn [length]. destruct prev as [p|]; cbv iota beta in H1; lia.
Qed.

(* ---------- little-endian codes ---------- *)
Lemma take_extra_spec : forall k s code c,
  take_extra k s code c = (N.lor code (le_at c (firstn k s)), (c + Nat.min k (length s))%nat).
Proof.
  induction k as [|k IH]; intros s code c.
  - cbn. rewrite N.lor_0_r. f_equal. lia.
  - destruct s as [|b s']; cbn [take_extra firstn le_at length].
    + rewrite N.lor_0_r. f_equal. lia.
    + rewrite IH. rewrite N.lor_assoc. f_equal. lia.
Qed.

Lemma firstn_min {A} k (s : list A) : firstn (Nat.min k (length s)) s = firstn k s.
Proof.
  revert s. induction k as [|k IH]; intros [|x s]; cbn; try reflexivity. f_equal. apply IH.
Qed.

Lemma tdecode_ge : forall s cs c, (c <= fst (tdecode cs s c))%nat.
Proof.
  induction s as [|b s IH]; intros cs c; cbn [tdecode fst]; [lia|].
  destruct (find_child b cs) as [[k| |cc]|]; cbn [fst]; try lia.
  specialize (IH cc (S c)). lia.
Qed.

(* ---------- the linearised lookup simulates the tree ---------- *)
Lemma ldecode_sim nodes : forall s cc cur d fuel code,
  lin_group nodes d cc cur = true -> group_shape None cc = true -> N.of_nat (cur + length cc) <= 65532 -> (d < 4)%nat ->
  wfbs s = true -> (length s < fuel)%nat ->
  ldecode fuel nodes cur s code d =
    Some (N.lor code (le_at d (firstn (fst (tdecode cc s d) - d) s)),
          fst (tdecode cc s d), snd (tdecode cc s d)) /\
  (fst (tdecode cc s d) <= 4)%nat.
Proof.
  induction s as [|b s' IH]; intros cc cur d fuel code Hg Hsh Hend Hd Hwf Hfuel;
    (destruct fuel as [|fuel]; [cbn in Hfuel; lia|]).
  - cbn [ldecode tdecode fst snd]. rewrite Nat.sub_diag. cbn [firstn le_at]. rewrite N.lor_0_r. split; [reflexivity|lia].
  - cbn [wfbs forallb] in Hwf. apply andb_true_iff in Hwf as [Hb Hwf']. unfold wfb in Hb.
    destruct (group_shape_find b cc None Hsh) as [n' Hf]; [intros p Hp; discriminate|apply N.ltb_lt; exact Hb|].
    pose proof (group_shape_length cc None Hsh) as Hlen. cbv iota beta in Hlen.
    destruct (scan_find nodes d b cc cur 257 n' Hg Hf ltac:(lia) Hend) as (ln & idx & Hscan & Hn & _).
    cbn [ldecode tdecode]. rewrite Hscan, Hf.
    destruct n' as [k| |cc'].
    + (* invalid: consume up to k further bytes *)
      rewrite lin_node_invalid in Hn. rewrite !andb_true_iff in Hn. destruct Hn as [[Hk Hc] Hdk].
      apply Nat.leb_le in Hk, Hdk. apply N.eqb_eq in Hc.
      replace (child ln =? 0) with false by lia. replace (65532 <=? child ln) with true by lia.
      replace (N.to_nat (65535 - child ln)) with k by lia.
      rewrite take_extra_spec. cbn [fst snd]. split; [|lia].
      replace (S d + Nat.min k (length s') - d)%nat with (S (Nat.min k (length s'))) by lia.
      cbn [firstn le_at]. rewrite firstn_min, N.lor_assoc. reflexivity.
    + (* valid leaf *)
      rewrite lin_node_leaf in Hn. rewrite andb_true_iff in Hn. destruct Hn as [Hc Hd4].
      apply N.eqb_eq in Hc. apply Nat.leb_le in Hd4. rewrite Hc. cbn [N.eqb fst snd]. split; [|lia].
      replace (S d - d)%nat with 1%nat by lia. cbn [firstn le_at]. rewrite N.lor_0_r. reflexivity.
    + (* subtree *)
      rewrite lin_node_sub in Hn. rewrite !andb_true_iff in Hn. destruct Hn as [[[[Hc Hd'] Hsh'] Hpos] Hg'].
      apply Nat.ltb_lt in Hd'.
      replace (child ln =? 0) with false by lia. replace (65532 <=? child ln) with false by lia.
      cbn [length] in Hfuel.
      destruct (IH cc' (N.to_nat (child ln)) (S d) fuel (N.lor code (N.shiftl b (8 * N.of_nat d))) Hg' Hsh' ltac:(lia) Hd' Hwf' ltac:(lia))
        as [-> H4].
      split; [|assumption].
      pose proof (tdecode_ge s' cc' (S d)) as Hge.
      replace (fst (tdecode cc' s' (S d)) - d)%nat with (S (fst (tdecode cc' s' (S d)) - S d)) by lia.
      cbn [firstn le_at]. rewrite N.lor_assoc. reflexivity.
Qed.

(* C12: a validated node array decodes every string as the tree does; the code is the
   little-endian value of the consumed bytes, which are at most four (so it fits uint32) *)
Theorem lin_sound_lemma : forall nodes t, lin_ok nodes t = true ->
  forall s, wfbs s = true ->
    decode nodes s = Some (le_code (firstn (fst (tdecode t s 0)) s), fst (tdecode t s 0), snd (tdecode t s 0))
    /\ (fst (tdecode t s 0) <= 4)%nat.
Proof.
  intros nodes t H s Hwf. unfold lin_ok in H. rewrite lin_node_sub in H.
  rewrite !andb_true_iff in H. destruct H as [[[[Hc Hd] Hsh] Hpos] Hg].
  unfold decode, le_code.
  destruct (ldecode_sim nodes s t 0 0 (S (length s)) 0 Hg Hsh ltac:(lia) ltac:(lia) Hwf ltac:(lia)) as [-> H4].
  rewrite Nat.sub_0_r, N.lor_0_l. split; [reflexivity|assumption].
Qed.

(* wrap-freedom: every scan of Decode on a validated array stops at an index below the first
   special child value 65532 = 2^16 - 4, so the uint16 cursor never reaches 65535, let alone wraps *)
Lemma ldecode_idx_bound nodes : forall s cc cur d fuel,
  lin_group nodes d cc cur = true -> group_shape None cc = true -> N.of_nat (cur + length cc) <= 65532 ->
  wfbs s = true ->
  Forall (fun i : nat => N.of_nat i < 65532) (ldecode_idx fuel nodes cur s).
Proof.
  induction s as [|b s' IH]; intros cc cur d fuel Hg Hsh Hend Hwf; destruct fuel as [|fuel]; try (constructor; fail).
  cbn [wfbs forallb] in Hwf. apply andb_true_iff in Hwf as [Hb Hwf']. unfold wfb in Hb.
  destruct (group_shape_find b cc None Hsh) as [n' Hf]; [intros p Hp; discriminate|apply N.ltb_lt; exact Hb|].
  pose proof (group_shape_length cc None Hsh) as Hlen. cbv iota beta in Hlen.
  destruct (scan_find nodes d b cc cur 257 n' Hg Hf ltac:(lia) Hend) as (ln & idx & Hscan & Hn & Hidx).
  cbn [ldecode_idx]. rewrite Hscan.
  assert (Hi : N.of_nat idx < 65532) by lia.
  destruct (child ln =? 0) eqn:E0; [constructor; [assumption|constructor]|].
  destruct (65532 <=? child ln) eqn:E; [constructor; [assumption|constructor]|].
  constructor; [assumption|].
  destruct n' as [k| |cc'].
  - rewrite lin_node_invalid in Hn. rewrite !andb_true_iff in Hn. destruct Hn as [[Hk Hc] _].
    apply Nat.leb_le in Hk. apply N.eqb_eq in Hc. exfalso. clear IH. lia.
  - rewrite lin_node_leaf in Hn. rewrite andb_true_iff in Hn. destruct Hn as [Hc _]. apply N.eqb_eq in Hc. exfalso. clear IH. lia.
  - rewrite lin_node_sub in Hn. rewrite !andb_true_iff in Hn. destruct Hn as [[[[Hc Hd'] Hsh'] Hpos] Hg'].
    apply (IH cc' (N.to_nat (child ln)) (S d) fuel Hg' Hsh'); [lia|assumption].
Qed.

Theorem decode_cursor_bound_lemma : forall nodes t, lin_ok nodes t = true ->
  forall s, wfbs s = true ->
  Forall (fun i : nat => N.of_nat i < 65532) (ldecode_idx (S (length s)) nodes 0 s).
Proof.
  intros nodes t H s Hwf. unfold lin_ok in H. rewrite lin_node_sub in H.
  rewrite !andb_true_iff in H. destruct H as [[[[Hc Hd] Hsh] Hpos] Hg].
  apply (ldecode_idx_bound nodes s t 0 0 _ Hg Hsh); [lia|assumption].
Qed.
