(* C12: the lineariser never panics (it either sets the overflow flag or succeeds), and it
   succeeds on every tree that is small enough. *)
From Coq Require Import List Arith NArith Lia Bool ZifyN ZifyNat ZifyBool.
From GoPdf.Base Require Import Bytes.
From GoPdf.C12 Require Import Codec CodecProofs CodecLinProofs CodecWalkProofs CodecTwfProofs CodecLinearizeProofs.
Import ListNotations.
Open Scope N_scope.

(* ---------- never panic("unreachable") ---------- *)
Lemma append_never_panics : forall n nodes done, append_nodes n (nodes, done) <> LPanic.
Proof.
  induction n as [k| |cs IH] using tnode_ind2; intros nodes done.
  - rewrite append_nodes_invalid. destruct (65532 <? N.of_nat (length nodes + 0)); discriminate.
  - rewrite append_nodes_leaf. destruct (65532 <? N.of_nat (length nodes + 0)); discriminate.
  - rewrite append_nodes_sub. destruct (65532 <? N.of_nat (length nodes + length cs)); [discriminate|].
    assert (Hloop : forall l, Forall (fun p : byte * tnode => forall nodes done, append_nodes (snd p) (nodes, done) <> LPanic) l ->
              forall i nd dn, (length nodes + i + length l <= length nd)%nat ->
                app_loop append_nodes (length nodes) l i (nd, dn) <> LPanic).
    { induction l as [|[h c] r IHr]; intros HF i nd dn Hlen; [discriminate|].
      inversion HF as [|? ? Hc HFr]; subst. cbn [snd] in Hc. cbn [length] in Hlen.
      rewrite app_loop_cons. destruct (lookup_done (desc_of c) dn) as [idx|].
      - apply IHr; [assumption|]. rewrite set_nth_length. lia.
      - destruct (append_nodes c (nd, dn)) as [[pos [nd2 dn2]]| |] eqn:Ec; [|discriminate|intros _; exact (Hc nd dn Ec)].
        destruct (append_len _ _ _ _ _ _ Ec) as (Hge & Hguard & Hpos).
        replace (N.to_nat pos <=? length nodes + i)%nat with false by (symmetry; apply Nat.leb_gt; lia).
        apply IHr; [assumption|]. rewrite set_nth_length. lia. }
    specialize (Hloop cs IH 0%nat (nodes ++ map placeholder cs) done).
    destruct (app_loop append_nodes (length nodes) cs 0 (nodes ++ map placeholder cs, done)); try discriminate.
    exfalso. apply Hloop; [|reflexivity]. rewrite app_length, map_length. lia.
Qed.

Theorem linearize_never_panics_lemma : forall t, linearize t <> LPanic.
Proof.
  intro t. unfold linearize. pose proof (append_never_panics (TSub t) [] init_done) as H.
  destruct (append_nodes (TSub t) ([], init_done)) as [[pos [nd dn]]| |]; try discriminate. congruence.
Qed.

(* ---------- small trees are never rejected ---------- *)
(* number of nodes of the tree without any sharing: an upper bound for the node array *)
Fixpoint tsize (n : tnode) : nat :=
  match n with
  | TSub cs => (length cs + (fix go (l : list (byte * tnode)) : nat :=
                               match l with [] => O | p :: r => tsize (snd p) + go r end) cs)%nat
  | _ => O
  end.

Definition tsizes := fix go (l : list (byte * tnode)) : nat :=
  match l with [] => O | p :: r => (tsize (snd p) + go r)%nat end.

Lemma tsize_sub cs : tsize (TSub cs) = (length cs + tsizes cs)%nat.
Proof. reflexivity. Qed.

Lemma append_total : forall n nodes done,
  N.of_nat (length nodes + tsize n) <= 65532 ->
  exists pos nodes' done', append_nodes n (nodes, done) = LOk (pos, (nodes', done')) /\
                           (length nodes' <= length nodes + tsize n)%nat.
Proof.
  induction n as [k| |cs IH] using tnode_ind2; intros nodes done Hb.
  - rewrite append_nodes_invalid. cbn [tsize] in Hb. replace (65532 <? N.of_nat (length nodes + 0)) with false by lia.
    eexists _, _, _. split; [reflexivity|]. rewrite app_nil_r. cbn. lia.
  - rewrite append_nodes_leaf. cbn [tsize] in Hb. replace (65532 <? N.of_nat (length nodes + 0)) with false by lia.
    eexists _, _, _. split; [reflexivity|]. rewrite app_nil_r. cbn. lia.
  - rewrite append_nodes_sub. rewrite tsize_sub in Hb.
    replace (65532 <? N.of_nat (length nodes + length cs)) with false by lia.
    assert (Hloop : forall l, Forall (fun p : byte * tnode => forall nodes done,
                        N.of_nat (length nodes + tsize (snd p)) <= 65532 ->
                        exists pos nodes' done', append_nodes (snd p) (nodes, done) = LOk (pos, (nodes', done')) /\
                                                 (length nodes' <= length nodes + tsize (snd p))%nat) l ->
              forall i nd dn, (length nodes + i + length l <= length nd)%nat ->
                N.of_nat (length nd + tsizes l) <= 65532 ->
                exists nd' dn', app_loop append_nodes (length nodes) l i (nd, dn) = LOk (nd', dn') /\
                                (length nd' <= length nd + tsizes l)%nat).
    { induction l as [|[h c] r IHr]; intros HF i nd dn Hlen Hbd.
      - eexists _, _. split; [reflexivity|]. cbn. lia.
      - inversion HF as [|? ? Hc HFr]; subst. cbn [snd] in Hc.
        cbn [length] in Hlen. change (tsizes ((h, c) :: r)) with (tsize c + tsizes r)%nat in *.
        rewrite app_loop_cons. destruct (lookup_done (desc_of c) dn) as [idx|].
        + destruct (IHr HFr (S i) (set_nth (length nodes + i) {| bound := h; child := idx |} nd) dn) as (nd' & dn' & -> & Hl).
          * rewrite set_nth_length. lia.
          * rewrite set_nth_length. lia.
          * eexists _, _. split; [reflexivity|]. rewrite set_nth_length in Hl. lia.
        + destruct (Hc nd dn ltac:(lia)) as (pos & nd2 & dn2 & Happ & Hl2). rewrite Happ.
          destruct (append_len _ _ _ _ _ _ Happ) as (Hge & _ & Hpos).
          replace (N.to_nat pos <=? length nodes + i)%nat with false by (symmetry; apply Nat.leb_gt; lia).
          destruct (IHr HFr (S i) (set_nth (length nodes + i) {| bound := h; child := pos |} nd2) ((desc_of c, pos) :: dn2))
            as (nd' & dn' & -> & Hl).
          * rewrite set_nth_length. lia.
          * rewrite set_nth_length. lia.
          * eexists _, _. split; [reflexivity|]. rewrite set_nth_length in Hl. lia. }
    destruct (Hloop cs IH 0%nat (nodes ++ map placeholder cs) done) as (nd' & dn' & -> & Hl).
    + rewrite app_length, map_length. lia.
    + rewrite app_length, map_length. lia.
    + eexists _, _, _. split; [reflexivity|]. rewrite app_length, map_length in Hl. rewrite tsize_sub. lia.
Qed.

(* a tree with at most 65532 nodes (counted without sharing) is linearised, not rejected *)
Theorem linearize_small_lemma : forall t, N.of_nat (tsize (TSub t)) <= 65532 ->
  exists nodes, linearize t = LOk nodes.
Proof.
  intros t Hb. unfold linearize.
  destruct (append_total (TSub t) [] init_done) as (pos & nodes & done' & -> & Hl); [cbn [length]; lia|].
  exists nodes. reflexivity.
Qed.
