(* C12: round trips between Decode and AppendCode on a validated node array. *)
From Coq Require Import List Arith NArith Lia Bool ZifyN ZifyNat ZifyBool.
From GoPdf.Base Require Import Bytes.
From GoPdf.C12 Require Import Codec CodecProofs CodecLinProofs.
Import ListNotations.
Open Scope N_scope.

(* ---------- bytes of a code ---------- *)
Lemma land_255_lt x : N.land x 255 < 256.
Proof.
  change 255 with (N.ones 8). rewrite N.land_ones. apply N.mod_lt. discriminate.
Qed.

Lemma code_bytes_wf code n : wfbs (code_bytes code n) = true.
Proof.
  revert code. induction n as [|n IH]; intro code; [reflexivity|].
  cbn [code_bytes wfbs forallb]. fold (wfbs (code_bytes (N.shiftr code 8) n)). rewrite IH.
  unfold wfb. pose proof (land_255_lt code). rewrite andb_true_r. apply N.ltb_lt. assumption.
Qed.

Lemma code_bytes_length code n : length (code_bytes code n) = n.
Proof. revert code. induction n as [|n IH]; intro code; cbn; [reflexivity|]. f_equal. apply IH. Qed.

Lemma code_bytes_firstn : forall n m code, (n <= m)%nat -> firstn n (code_bytes code m) = code_bytes code n.
Proof.
  induction n as [|n IH]; intros m code H; [reflexivity|].
  destruct m as [|m]; [lia|]. cbn [code_bytes firstn]. f_equal. apply IH. lia.
Qed.

Lemma le_at_shift : forall s c, le_at c s = N.shiftl (le_at 0 s) (8 * N.of_nat c).
Proof.
  induction s as [|b s IH]; intro c; cbn [le_at].
  - rewrite N.shiftl_0_l. reflexivity.
  - rewrite (IH (S c)), (IH 1%nat).
    change (8 * N.of_nat 0) with 0. rewrite N.shiftl_0_r.
    rewrite N.shiftl_lor, N.shiftl_shiftl. f_equal. f_equal. lia.
Qed.

Lemma le_code_cons b s : le_code (b :: s) = N.lor b (N.shiftl (le_code s) 8).
Proof.
  unfold le_code. cbn [le_at]. change (8 * N.of_nat 0) with 0. rewrite N.shiftl_0_r.
  rewrite (le_at_shift s 1). reflexivity.
Qed.

Lemma testbit_byte_high b i : b < 256 -> 8 <= i -> N.testbit b i = false.
Proof.
  intros Hb Hi. destruct (N.eq_dec b 0) as [->|Hne]; [apply N.bits_0|].
  apply N.bits_above_log2. apply N.log2_lt_pow2; [lia|].
  apply N.lt_le_trans with (2 ^ 8); [exact Hb|]. apply N.pow_le_mono_r; [discriminate|assumption].
Qed.

Lemma land_lor_byte b x : b < 256 -> N.land (N.lor b (N.shiftl x 8)) 255 = b.
Proof.
  intro Hb. apply N.bits_inj. intro i. change 255 with (N.ones 8).
  rewrite N.land_spec, N.lor_spec.
  destruct (N.lt_ge_cases i 8) as [Hi|Hi].
  - rewrite N.shiftl_spec_low by assumption. rewrite N.ones_spec_low by assumption.
    rewrite orb_false_r, andb_true_r. reflexivity.
  - rewrite N.ones_spec_high by assumption. rewrite andb_false_r. symmetry. apply testbit_byte_high; assumption.
Qed.

Lemma shiftr_lor_byte b x : b < 256 -> N.shiftr (N.lor b (N.shiftl x 8)) 8 = x.
Proof.
  intro Hb. apply N.bits_inj. intro i.
  rewrite N.shiftr_spec', N.lor_spec.
  rewrite testbit_byte_high by (try assumption; lia). cbn [orb].
  rewrite N.shiftl_spec_high' by lia. f_equal. lia.
Qed.

Lemma code_bytes_zero n : code_bytes 0 n = repeat 0 n.
Proof. induction n as [|n IH]; [reflexivity|]. cbn [code_bytes repeat]. rewrite N.shiftr_0_l, IH. reflexivity. Qed.

(* the bytes of the code of a byte string are the string followed by zeros *)
Lemma code_bytes_le_code : forall s m, wfbs s = true -> (length s <= m)%nat ->
  code_bytes (le_code s) m = s ++ repeat 0 (m - length s).
Proof.
  induction s as [|b s IH]; intros m Hwf Hm.
  - cbn [length app]. rewrite Nat.sub_0_r. apply code_bytes_zero.
  - cbn [wfbs forallb] in Hwf. apply andb_true_iff in Hwf as [Hb Hwf]. unfold wfb in Hb. apply N.ltb_lt in Hb.
    destruct m as [|m]; [cbn in Hm; lia|]. cbn [length] in Hm.
    rewrite le_code_cons. cbn [code_bytes]. rewrite land_lor_byte, shiftr_lor_byte by assumption.
    rewrite IH by (try assumption; lia). reflexivity.
Qed.

(* the code of the first n bytes of a code is the code cut to n bytes *)
Lemma le_code_code_bytes : forall n code,
  le_code (code_bytes code n) = N.land code (N.ones (8 * N.of_nat n)).
Proof.
  induction n as [|n IH]; intro code.
  - cbn. rewrite N.land_0_r. reflexivity.
  - cbn [code_bytes]. rewrite le_code_cons, IH. clear IH.
    apply N.bits_inj. intro i. rewrite N.lor_spec, !N.land_spec. change 255 with (N.ones 8).
    destruct (N.lt_ge_cases i 8) as [Hi|Hi].
    + rewrite N.shiftl_spec_low by assumption.
      rewrite (N.ones_spec_low 8 i) by assumption.
      assert (Hi' : i < 8 * N.of_nat (S n)) by lia.
      rewrite (N.ones_spec_low _ i Hi').
      rewrite orb_false_r. reflexivity.
    + rewrite (N.ones_spec_high 8) by assumption. rewrite andb_false_r. cbn [orb].
      rewrite N.shiftl_spec_high' by assumption. rewrite N.land_spec, N.shiftr_spec'.
      replace (i - 8 + 8) with i by lia. f_equal.
      destruct (N.lt_ge_cases (i - 8) (8 * N.of_nat n)) as [Hj|Hj].
      * rewrite !N.ones_spec_low by lia. reflexivity.
      * rewrite !N.ones_spec_high by lia. reflexivity.
Qed.

(* ---------- tree-level facts ---------- *)
Lemma tdecode_shift : forall s cs c,
  tdecode cs s c = ((c + fst (tdecode cs s 0))%nat, snd (tdecode cs s 0)).
Proof.
  induction s as [|b s IH]; intros cs c; cbn [tdecode]; [cbn [fst snd]; f_equal; lia|].
  destruct (find_child b cs) as [[k| |cc]|]; cbn [fst snd]; try (f_equal; lia).
  rewrite (IH cc (S c)), (IH cc 1%nat). cbn [fst snd]. f_equal. clear IH. lia.
Qed.

(* decoding only looks at the bytes it consumes *)
Lemma tdecode_firstn : forall s cs c,
  tdecode cs (firstn (fst (tdecode cs s c) - c) s) c = tdecode cs s c.
Proof.
  induction s as [|b s IH]; intros cs c.
  - cbn [tdecode fst]. rewrite Nat.sub_diag. reflexivity.
  - cbn [tdecode]. destruct (find_child b cs) as [[k| |cc]|] eqn:E; cbn [fst].
    + replace (S c + Nat.min k (length s) - c)%nat with (S (Nat.min k (length s))) by lia.
      cbn [firstn tdecode]. rewrite E. rewrite firstn_length. f_equal. lia.
    + replace (S c - c)%nat with 1%nat by lia. cbn [firstn tdecode]. rewrite E. reflexivity.
    + pose proof (tdecode_ge s cc (S c)).
      replace (fst (tdecode cc s (S c)) - c)%nat with (S (fst (tdecode cc s (S c)) - S c)) by lia.
      cbn [firstn tdecode]. rewrite E. apply IH.
    + replace (S c - c)%nat with 1%nat by lia. cbn [firstn tdecode]. rewrite E. reflexivity.
Qed.

(* ---------- AppendCode simulates the tree on the bytes of the code ---------- *)
Lemma lappend_sim nodes : forall fuel cc cur d code acc m,
  lin_group nodes d cc cur = true -> group_shape None cc = true -> N.of_nat (cur + length cc) <= 65532 -> (d < 4)%nat ->
  (4 - d <= fuel)%nat -> (4 - d <= m)%nat ->
  lappend fuel nodes cur code acc = Some (acc ++ code_bytes code (fst (tdecode cc (code_bytes code m) 0))).
Proof.
  induction fuel as [|fuel IH]; intros cc cur d code acc m Hg Hsh Hend Hd Hfuel Hm; [lia|].
  destruct m as [|m]; [lia|].
  cbn [lappend code_bytes tdecode].
  set (b := N.land code 255). pose proof (land_255_lt code) as Hb. fold b in Hb.
  destruct (group_shape_find b cc None Hsh) as [n' Hf]; [intros p Hp; discriminate|assumption|].
  pose proof (group_shape_length cc None Hsh) as Hlen. cbv iota beta in Hlen.
  destruct (scan_find nodes d b cc cur 257 n' Hg Hf ltac:(lia) Hend) as (ln & idx & Hscan & Hn & _).
  rewrite Hscan, Hf.
  destruct n' as [k| |cc'].
  - rewrite lin_node_invalid in Hn. rewrite !andb_true_iff in Hn. destruct Hn as [[Hk Hc] Hdk].
    apply Nat.leb_le in Hk, Hdk. apply N.eqb_eq in Hc.
    replace (child ln =? 0) with false by lia. replace (65532 <=? child ln) with true by lia.
    replace (N.to_nat (65535 - child ln)) with k by lia.
    cbn [fst]. rewrite code_bytes_length. replace (1 + Nat.min k m)%nat with (S k) by lia.
    cbn [code_bytes]. fold b. rewrite <- app_assoc. reflexivity.
  - rewrite lin_node_leaf in Hn. rewrite andb_true_iff in Hn. destruct Hn as [Hc Hd4].
    apply N.eqb_eq in Hc. rewrite Hc. cbn [N.eqb fst code_bytes]. fold b. reflexivity.
  - rewrite lin_node_sub in Hn. rewrite !andb_true_iff in Hn. destruct Hn as [[[[Hc Hd'] Hsh'] Hpos] Hg'].
    apply Nat.ltb_lt in Hd'.
    replace (child ln =? 0) with false by lia. replace (65532 <=? child ln) with false by lia.
    rewrite (IH cc' (N.to_nat (child ln)) (S d) (N.shiftr code 8) (acc ++ [b]) m Hg' Hsh' ltac:(lia) Hd') by lia.
    rewrite (tdecode_shift _ cc' 1). cbn [fst Nat.add code_bytes]. fold b.
    rewrite <- app_assoc. reflexivity.
Qed.

Theorem append_code_spec_lemma : forall nodes t, lin_ok nodes t = true -> forall code,
  append_code nodes code = Some (code_bytes code (fst (tdecode t (code_bytes code 4) 0))).
Proof.
  intros nodes t H code. unfold lin_ok in H. rewrite lin_node_sub in H.
  rewrite !andb_true_iff in H. destruct H as [[[[Hc Hd] Hsh] Hpos] Hg].
  unfold append_code. rewrite (lappend_sim nodes 5 t 0 0 code [] 4 Hg Hsh) by lia. reflexivity.
Qed.

(* encoding then decoding reproduces the code (cut to the bytes written) *)
Theorem rt_append_decode_lemma : forall nodes t, lin_ok nodes t = true -> forall code,
  exists bs v, append_code nodes code = Some bs /\ (1 <= length bs <= 4)%nat /\
    decode nodes bs = Some (N.land code (N.ones (8 * N.of_nat (length bs))), length bs, v).
Proof.
  intros nodes t H code.
  set (S4 := code_bytes code 4). set (n := fst (tdecode t S4 0)).
  destruct (lin_sound_lemma nodes t H S4 (code_bytes_wf code 4)) as [_ Hn4]. fold n in Hn4.
  assert (Hn1 : (1 <= n)%nat).
  { pose proof (tdecode_bounds t S4 0) as Hb. unfold S4 in Hb at 1. cbn [code_bytes] in Hb.
    specialize (Hb ltac:(discriminate)). fold S4 in Hb. fold n in Hb. lia. }
  exists (code_bytes code n), (snd (tdecode t S4 0)).
  split; [apply (append_code_spec_lemma nodes t H)|].
  rewrite code_bytes_length. split; [lia|].
  destruct (lin_sound_lemma nodes t H (code_bytes code n) (code_bytes_wf code n)) as [Hdec _].
  rewrite Hdec.
  assert (Ht : tdecode t (code_bytes code n) 0 = tdecode t S4 0).
  { rewrite <- (code_bytes_firstn n 4 code Hn4). fold S4.
    pose proof (tdecode_firstn S4 t 0) as Hf. rewrite Nat.sub_0_r in Hf. exact Hf. }
  rewrite Ht. fold n.
  rewrite <- (code_bytes_length code n) at 1. rewrite firstn_all.
  rewrite le_code_code_bytes. reflexivity.
Qed.

(* ---------- decoding then re-encoding ---------- *)
(* more input after the consumed bytes can only make the decoder consume more; a valid
   result does not change at all *)
Lemma tdecode_app : forall s cs c x,
  (snd (tdecode cs s c) = true ->
     tdecode cs (firstn (fst (tdecode cs s c) - c) s ++ x) c = tdecode cs s c) /\
  (fst (tdecode cs s c) <= fst (tdecode cs (firstn (fst (tdecode cs s c) - c) s ++ x) c))%nat.
Proof.
  induction s as [|b s IH]; intros cs c x.
  - cbn [tdecode fst snd]. rewrite Nat.sub_diag. cbn [firstn app]. split; [discriminate|apply tdecode_ge].
  - cbn [tdecode]. destruct (find_child b cs) as [[k| |cc]|] eqn:E; cbn [fst snd].
    + replace (S c + Nat.min k (length s) - c)%nat with (S (Nat.min k (length s))) by lia.
      cbn [firstn app tdecode]. rewrite E. cbn [fst]. split; [discriminate|].
      rewrite app_length, firstn_length. lia.
    + replace (S c - c)%nat with 1%nat by lia. cbn [firstn app tdecode]. rewrite E. cbn [fst]. split; [reflexivity|lia].
    + pose proof (tdecode_ge s cc (S c)).
      replace (fst (tdecode cc s (S c)) - c)%nat with (S (fst (tdecode cc s (S c)) - S c)) by lia.
      cbn [firstn app tdecode]. rewrite E. apply IH.
    + replace (S c - c)%nat with 1%nat by lia. cbn [firstn app tdecode]. rewrite E. cbn [fst]. split; [discriminate|lia].
Qed.

(* with at least four bytes of input nothing is cut short *)
Lemma tdecode_full nodes : forall s cc cur d x,
  lin_group nodes d cc cur = true -> N.of_nat (cur + length cc) <= 65532 -> (d < 4)%nat -> (4 - d <= length s)%nat ->
  tdecode cc (firstn (fst (tdecode cc s d) - d) s ++ x) d = tdecode cc s d.
Proof.
  induction s as [|b s IH]; intros cc cur d x Hg Hend Hd Hlen; [cbn [length] in Hlen; lia|].
  cbn [tdecode]. destruct (find_child b cc) as [n'|] eqn:E.
  - destruct (scan_find nodes d b cc cur (length cc) n' Hg E (le_n _) Hend) as (ln & idx & _ & Hn & _).
    destruct n' as [k| |cc']; cbn [fst].
    + rewrite lin_node_invalid in Hn. rewrite !andb_true_iff in Hn. destruct Hn as [[Hk Hc] Hdk].
      apply Nat.leb_le in Hdk. cbn [length] in Hlen.
      replace (S d + Nat.min k (length s) - d)%nat with (S k) by lia.
      cbn [firstn app tdecode]. rewrite E. rewrite app_length, firstn_length. f_equal. lia.
    + replace (S d - d)%nat with 1%nat by lia. cbn [firstn app tdecode]. rewrite E. reflexivity.
    + rewrite lin_node_sub in Hn. rewrite !andb_true_iff in Hn. destruct Hn as [[[[Hc Hd'] Hsh'] Hpos] Hg'].
      apply Nat.ltb_lt in Hd'. cbn [length] in Hlen.
      pose proof (tdecode_ge s cc' (S d)).
      replace (fst (tdecode cc' s (S d)) - d)%nat with (S (fst (tdecode cc' s (S d)) - S d)) by lia.
      cbn [firstn app tdecode]. rewrite E. apply (IH cc' (N.to_nat (child ln)) (S d) x Hg' ltac:(lia) Hd'). lia.
  - cbn [fst]. replace (S d - d)%nat with 1%nat by lia. cbn [firstn app tdecode]. rewrite E. reflexivity.
Qed.

Lemma firstn_repeat {A} (a : A) : forall m j, (m <= j)%nat -> firstn m (repeat a j) = repeat a m.
Proof.
  induction m as [|m IH]; intros j H; [reflexivity|]. destruct j as [|j]; [lia|].
  cbn [repeat firstn]. f_equal. apply IH. lia.
Qed.

Lemma wfbs_firstn k s : wfbs s = true -> wfbs (firstn k s) = true.
Proof.
  revert s. induction k as [|k IH]; intros [|b s] H; try reflexivity.
  cbn [wfbs forallb firstn] in *. apply andb_true_iff in H as [H1 H2]. rewrite H1. cbn. apply IH. exact H2.
Qed.

Lemma wfbs_app a b : wfbs a = true -> wfbs b = true -> wfbs (a ++ b) = true.
Proof. unfold wfbs. rewrite forallb_app. intros -> ->. reflexivity. Qed.

Lemma wfbs_zeros n : wfbs (repeat 0 n) = true.
Proof. induction n; [reflexivity|]. cbn. assumption. Qed.

(* decoding then re-encoding reproduces the consumed bytes; when the input ended inside a
   code the re-encoding is the consumed bytes followed by zero padding *)
Theorem rt_decode_append_lemma : forall nodes t, lin_ok nodes t = true ->
  forall s, wfbs s = true ->
  let k := fst (tdecode t s 0) in
  let v := snd (tdecode t s 0) in
  exists pad, append_code nodes (le_code (firstn k s)) = Some (firstn k s ++ repeat 0 pad) /\
    (k + pad <= 4)%nat /\ (v = true -> pad = O) /\ (4 <= length s -> pad = O)%nat.
Proof.
  intros nodes t H s Hwf k v.
  destruct (lin_sound_lemma nodes t H s Hwf) as [_ Hk4]. fold k in Hk4.
  assert (Hks : (k <= length s)%nat).
  { destruct s as [|b s']; [cbn; lia|].
    pose proof (tdecode_bounds t (b :: s') 0 ltac:(discriminate)) as Hb. fold k in Hb. lia. }
  set (p := firstn k s).
  assert (Hpl : length p = k) by (unfold p; rewrite firstn_length; lia).
  assert (Hpwf : wfbs p = true) by (apply wfbs_firstn; assumption).
  set (z := repeat 0 (4 - k)).
  assert (Hcb : code_bytes (le_code p) 4 = p ++ z).
  { rewrite code_bytes_le_code by (try assumption; lia). rewrite Hpl. reflexivity. }
  set (n := fst (tdecode t (p ++ z) 0)).
  destruct (tdecode_app s t 0 z) as [Hvalid Hge]. rewrite Nat.sub_0_r in Hvalid, Hge.
  fold k in Hvalid, Hge. fold p in Hvalid, Hge. fold n in Hge.
  destruct (lin_sound_lemma nodes t H (p ++ z)) as [_ Hn4].
  { apply wfbs_app; [assumption|apply wfbs_zeros]. }
  fold n in Hn4.
  exists (n - k)%nat. split; [|split; [lia|split]].
  - rewrite (append_code_spec_lemma nodes t H), Hcb. fold n.
    rewrite <- (code_bytes_firstn n 4 _ Hn4), Hcb.
    rewrite firstn_app, firstn_all2 by lia. rewrite Hpl. unfold z. rewrite firstn_repeat by lia. reflexivity.
  - intro Hv. fold v in Hvalid. specialize (Hvalid Hv). unfold n. rewrite Hvalid. fold k. lia.
  - intro H4. unfold lin_ok in H. rewrite lin_node_sub in H.
    rewrite !andb_true_iff in H. destruct H as [[[[Hc Hd] Hsh] Hpos] Hg].
    pose proof (tdecode_full nodes s t 0 0 z Hg ltac:(lia) ltac:(lia) ltac:(lia)) as Hf.
    rewrite Nat.sub_0_r in Hf. fold k in Hf. fold p in Hf. unfold n. rewrite Hf. fold k. lia.
Qed.

Theorem decode_no_panic_lemma : forall nodes t, lin_ok nodes t = true ->
  forall s, wfbs s = true -> decode nodes s <> None.
Proof.
  intros nodes t H s Hwf. destruct (lin_sound_lemma nodes t H s Hwf) as [-> _]. discriminate.
Qed.

Theorem append_no_panic_lemma : forall nodes t, lin_ok nodes t = true ->
  forall code, append_code nodes code <> None.
Proof.
  intros nodes t H code. rewrite (append_code_spec_lemma nodes t H). discriminate.
Qed.
