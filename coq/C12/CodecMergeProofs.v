(* C12: the merge loop of CodeSpaceRange() keeps the described codes unchanged. *)
From Coq Require Import List Arith NArith Lia Bool ZifyN ZifyNat ZifyBool.
From GoPdf.Base Require Import Bytes.
From GoPdf.C12 Require Import Codec CodecProofs CodecLinProofs CodecWalkProofs CodecTwfProofs CodecLinearizeProofs.
Import ListNotations.
Open Scope N_scope.

Definition matches (r : range) (x : list byte) : bool := in_range (fst r) (snd r) x.
(* same length, at least one byte, low <= high at every position *)
Definition rshape (r : range) : Prop := Forall2 N.le (fst r) (snd r) /\ fst r <> [].
(* no string starts with codes of two different entries *)
Definition Disj (L : list range) : Prop :=
  forall i j r s x, i <> j -> nth_error L i = Some r -> nth_error L j = Some s ->
                    matches r x = true -> matches s x = true -> False.
Definition MInv (L : list range) : Prop := Forall rshape L /\ Disj L.
Definition sem (L : list range) (x : list byte) (n : nat) : Prop :=
  exists r, In r L /\ matches r x = true /\ length (fst r) = n.

(* ---------- match_len under the invariant ---------- *)
Lemma match_len_sem L x k : match_len L x = S k -> sem L x (S k).
Proof.
  induction L as [|[lo hi] L IH]; [discriminate|]. cbn [match_len].
  destruct (in_range lo hi x) eqn:E.
  - intro H. exists (lo, hi). split; [left; reflexivity|]. split; assumption.
  - intro H. destruct (IH H) as (r & Hr & Hm & Hl). exists r. split; [right; assumption|]. split; assumption.
Qed.

Lemma Disj_tail r L : Disj (r :: L) -> Disj L.
Proof.
  intros H i j a b x Hij Ha Hb. apply (H (S i) (S j) a b x); [lia|exact Ha|exact Hb].
Qed.

Lemma sem_match_len L : Disj L -> forall x n, sem L x n -> match_len L x = n.
Proof.
  induction L as [|[lo hi] L IH]; intros HD x n (r & Hr & Hm & Hl); [destruct Hr|].
  cbn [match_len]. destruct (in_range lo hi x) eqn:E.
  - destruct Hr as [<-|Hr]; [exact Hl|]. exfalso.
    apply In_nth_error in Hr as [k Hk].
    apply (HD 0%nat (S k) (lo, hi) r x); [lia|reflexivity|exact Hk|exact E|exact Hm].
  - destruct Hr as [<-|Hr].
    + unfold matches in Hm. cbn [fst snd] in Hm. congruence.
    + apply IH; [eapply Disj_tail; eassumption|]. exists r. auto.
Qed.

Lemma sem_equiv_match_len L L' : Disj L -> Disj L' ->
  (forall x n, sem L x n <-> sem L' x n) -> forall x, match_len L x = match_len L' x.
Proof.
  intros HD HD' Heq x.
  destruct (match_len L x) as [|k] eqn:E.
  - destruct (match_len L' x) as [|k'] eqn:E'; [reflexivity|].
    apply match_len_sem in E'. apply Heq in E'. apply (sem_match_len L HD) in E'. congruence.
  - apply match_len_sem in E. apply Heq in E. apply (sem_match_len L' HD') in E. congruence.
Qed.

Lemma F2_length {A B} (R : A -> B -> Prop) l l' : Forall2 R l l' -> length l = length l'.
Proof. induction 1; cbn; congruence. Qed.

(* ---------- canMerge: the merged box is the union ---------- *)
Lemma cml1_eq : forall rl rh sl sh, can_merge_loop rl rh sl sh 1 = true ->
  length rl = length rh -> length sl = length rl -> length sh = length rl -> rl = sl /\ rh = sh.
Proof.
  induction rl as [|a rl IH]; intros [|b rh] [|c sl] [|d sh] H H1 H2 H3; cbn in H1, H2, H3; try discriminate; auto.
  cbn [can_merge_loop] in H. destruct ((a =? c) && (b =? d)) eqn:E.
  - apply andb_true_iff in E as [Ea Eb]. apply N.eqb_eq in Ea, Eb. subst.
    destruct (IH rh sl sh H) as [-> ->]; try lia. auto.
  - cbn [Nat.eqb] in H. rewrite andb_false_r in H. discriminate.
Qed.

Lemma in_range_short : forall lo hi x, (length x < length lo)%nat -> in_range lo hi x = false.
Proof.
  induction lo as [|l lo IH]; intros hi x H; [cbn in H; lia|].
  destruct hi as [|h hi]; [reflexivity|]. destruct x as [|b x]; [reflexivity|].
  cbn [in_range]. rewrite IH by (cbn in H; lia). apply andb_false_r.
Qed.

Lemma cml0_union : forall rl rh sl sh, can_merge_loop rl rh sl sh 0 = true ->
  Forall2 N.le rl rh -> Forall2 N.le sl sh -> length sl = length rl ->
  Forall2 N.le rl sh /\ forall x, in_range rl sh x = in_range rl rh x || in_range sl sh x.
Proof.
  induction rl as [|a rl IH]; intros rh sl sh H Hr Hs Hl.
  - inversion Hr; subst. destruct sl; [|discriminate]. inversion Hs; subst.
    split; [constructor|]. intro x. reflexivity.
  - inversion Hr as [|? b ? rh' Hab Hr']; subst. destruct sl as [|c sl]; [discriminate|].
    inversion Hs as [|? d ? sh' Hcd Hs']; subst. cbn [length] in Hl.
    cbn [can_merge_loop] in H. destruct ((a =? c) && (b =? d)) eqn:E.
    + apply andb_true_iff in E as [Ea Eb]. apply N.eqb_eq in Ea, Eb. subst c d.
      destruct (IH rh' sl sh' H Hr' Hs' ltac:(congruence)) as [Hle Hu]. split; [constructor; assumption|].
      intros [|y x]; [reflexivity|]. cbn [in_range]. rewrite Hu.
      destruct ((a <=? y) && (y <=? b)); reflexivity.
    + cbn [Nat.eqb] in H. rewrite andb_true_r in H.
      destruct (b + 1 =? c) eqn:Ebc; [|discriminate]. apply N.eqb_eq in Ebc.
      pose proof (F2_length _ _ _ Hr') as L1. pose proof (F2_length _ _ _ Hs') as L2.
      clear IH. destruct (cml1_eq rl rh' sl sh' H L1 (eq_add_S _ _ Hl) (eq_trans (eq_sym L2) (eq_add_S _ _ Hl))) as [-> ->].
      split; [constructor; [lia|assumption]|].
      intros [|y x]; [reflexivity|]. cbn [in_range].
      destruct (in_range sl sh' x); rewrite ?andb_false_r, ?andb_true_r; [|reflexivity].
      apply eq_true_iff_eq. rewrite orb_true_iff, !andb_true_iff, !N.leb_le. lia.
Qed.

Lemma merge_pos_none : forall rl rh sl sh, merge_pos rl rh sl sh = None ->
  length rl = length rh -> length sl = length rl -> length sh = length rl -> rl = sl /\ rh = sh.
Proof.
  induction rl as [|a rl IH]; intros [|b rh] [|c sl] [|d sh] H H1 H2 H3; cbn in H1, H2, H3; try discriminate; auto.
  cbn [merge_pos] in H. destruct ((a =? c) && (b =? d)) eqn:E; [|discriminate].
  apply andb_true_iff in E as [Ea Eb]. apply N.eqb_eq in Ea, Eb. subst.
  destruct (merge_pos rl rh sl sh) eqn:Em; [discriminate|].
  destruct (IH rh sl sh Em) as [-> ->]; try lia. auto.
Qed.

Lemma in_range_self : forall lo hi, Forall2 N.le lo hi -> in_range lo hi lo = true.
Proof.
  induction 1 as [|l h lo hi Hlh H IH]; [reflexivity|]. cbn [in_range]. rewrite IH.
  replace (l <=? l) with true by lia. replace (l <=? h) with true by lia. reflexivity.
Qed.

(* ---------- list surgery ---------- *)
Lemma remove_nth_nth {A} : forall j (l : list A) k,
  nth_error (remove_nth j l) k = if (k <? j)%nat then nth_error l k else nth_error l (S k).
Proof.
  induction j as [|j IH]; intros [|y l] k; cbn [remove_nth].
  - destruct k; reflexivity.
  - reflexivity.
  - destruct (k <? S j)%nat; destruct k; reflexivity.
  - destruct k as [|k]; [reflexivity|]. cbn [nth_error]. rewrite IH.
    change (S k <? S j)%nat with (k <? j)%nat. reflexivity.
Qed.

Lemma remove_nth_length {A} : forall j (l : list A), (j < length l)%nat -> length (remove_nth j l) = pred (length l).
Proof.
  induction j as [|j IH]; intros [|y l] H; cbn in *; try lia. rewrite IH by lia. destruct l; cbn in *; lia.
Qed.

Section Step.
  Variables (L : list range) (i j : nat) (r s : range).
  Hypothesis HL : MInv L.
  Hypothesis Hij : i <> j.
  Hypothesis Hi : nth_error L i = Some r.
  Hypothesis Hj : nth_error L j = Some s.
  Hypothesis Hcm : can_merge r s = true.

  Let u : range := (fst r, snd s).
  Let L' := remove_nth j (set_nth i u L).

  Lemma step_shapes : rshape r /\ rshape s.
  Proof.
    destruct HL as [HF _]. rewrite Forall_forall in HF.
    split; apply HF; eapply nth_error_In; eassumption.
  Qed.

  Lemma step_union : rshape u /\ length (fst u) = length (fst r) /\ length (fst s) = length (fst r) /\
    forall x, matches u x = matches r x || matches s x.
  Proof.
    destruct step_shapes as [[Hr Hrn] [Hs Hsn]].
    unfold can_merge in Hcm. apply andb_true_iff in Hcm as [Hlen Hloop]. apply Nat.eqb_eq in Hlen.
    destruct (cml0_union _ _ _ _ Hloop Hr Hs (eq_sym Hlen)) as [Hle Hu].
    split; [split; [exact Hle|exact Hrn]|]. split; [reflexivity|]. split; [auto|]. exact Hu.
  Qed.

  Lemma step_nth k : nth_error L' k =
    let k0 := if (k <? j)%nat then k else S k in
    if Nat.eqb k0 i then Some u else nth_error L k0.
  Proof.
    unfold L'. rewrite remove_nth_nth. cbv zeta.
    assert (Hil : (i < length L)%nat) by (apply nth_error_Some; congruence).
    destruct (k <? j)%nat.
    - destruct (Nat.eqb k i) eqn:E; [apply Nat.eqb_eq in E; subst; apply set_nth_eq; assumption|].
      apply Nat.eqb_neq in E. apply set_nth_neq. assumption.
    - destruct (Nat.eqb (S k) i) eqn:E; [apply Nat.eqb_eq in E; rewrite E; apply set_nth_eq; assumption|].
      apply Nat.eqb_neq in E. apply set_nth_neq. assumption.
  Qed.

  Lemma step_sem x n : sem L' x n <-> sem L x n.
  Proof.
    destruct step_union as (_ & Hlu & Hls & Hu).
    split.
    - intros (a & Ha & Hm & Hl). apply In_nth_error in Ha as [k Hk]. rewrite step_nth in Hk. cbv zeta in Hk.
      destruct (Nat.eqb (if (k <? j)%nat then k else S k) i).
      + inversion Hk; subst a. rewrite Hu in Hm. apply orb_true_iff in Hm as [Hm|Hm].
        * exists r. split; [eapply nth_error_In; eassumption|]. split; [assumption|]. rewrite <- Hl. symmetry. exact Hlu.
        * exists s. split; [eapply nth_error_In; eassumption|]. split; [assumption|]. rewrite <- Hl, Hlu. exact Hls.
      + exists a. split; [eapply nth_error_In; eassumption|]. auto.
    - intros (a & Ha & Hm & Hl). apply In_nth_error in Ha as [k0 Hk0].
      assert (Hu_in : exists k, nth_error L' k = Some u).
      { exists (if (i <? j)%nat then i else pred i). rewrite step_nth. cbv zeta.
        destruct (i <? j)%nat eqn:E.
        - rewrite E, Nat.eqb_refl. reflexivity.
        - apply Nat.ltb_ge in E. replace (pred i <? j)%nat with false by lia.
          replace (S (pred i)) with i by lia. rewrite Nat.eqb_refl. reflexivity. }
      destruct (Nat.eq_dec k0 i) as [->|Hni].
      + rewrite Hi in Hk0. inversion Hk0; subst a. destruct Hu_in as [k Hk].
        exists u. split; [eapply nth_error_In; eassumption|]. rewrite Hu, Hm. split; [reflexivity|]. rewrite Hlu. exact Hl.
      + destruct (Nat.eq_dec k0 j) as [->|Hnj].
        * rewrite Hj in Hk0. inversion Hk0; subst a. destruct Hu_in as [k Hk].
          exists u. split; [eapply nth_error_In; eassumption|]. rewrite Hu, Hm, orb_true_r. split; [reflexivity|].
          rewrite Hlu, <- Hls. exact Hl.
        * exists a. split; [|auto].
          apply (nth_error_In L' (if (k0 <? j)%nat then k0 else pred k0)). rewrite step_nth. cbv zeta.
          destruct (k0 <? j)%nat eqn:E.
          -- rewrite E. replace (Nat.eqb k0 i) with false by (symmetry; apply Nat.eqb_neq; assumption). assumption.
          -- apply Nat.ltb_ge in E. replace (pred k0 <? j)%nat with false by lia.
             replace (S (pred k0)) with k0 by lia.
             replace (Nat.eqb k0 i) with false by (symmetry; apply Nat.eqb_neq; assumption). assumption.
  Qed.

  Lemma step_inv : MInv L'.
  Proof.
    destruct step_union as (Hus & Hlu & Hls & Hu). destruct HL as [HF HD]. split.
    - apply Forall_forall. intros a Ha. apply In_nth_error in Ha as [k Hk]. rewrite step_nth in Hk. cbv zeta in Hk.
      destruct (Nat.eqb (if (k <? j)%nat then k else S k) i); [inversion Hk; subst; assumption|].
      rewrite Forall_forall in HF. apply HF. eapply nth_error_In; eassumption.
    - intros k1 k2 a b x Hk Ha Hb Hma Hmb. rewrite step_nth in Ha, Hb. cbv zeta in Ha, Hb.
      set (m1 := if (k1 <? j)%nat then k1 else S k1) in *.
      set (m2 := if (k2 <? j)%nat then k2 else S k2) in *.
      assert (Hm12 : m1 <> m2) by (unfold m1, m2; destruct (k1 <? j)%nat eqn:E1, (k2 <? j)%nat eqn:E2; lia).
      assert (Hm1j : m1 <> j) by (unfold m1; destruct (k1 <? j)%nat eqn:E1; lia).
      assert (Hm2j : m2 <> j) by (unfold m2; destruct (k2 <? j)%nat eqn:E2; lia).
      destruct (Nat.eqb m1 i) eqn:E1; destruct (Nat.eqb m2 i) eqn:E2.
      + apply Nat.eqb_eq in E1, E2. lia.
      + apply Nat.eqb_eq in E1. apply Nat.eqb_neq in E2. inversion Ha; subst a.
        rewrite Hu in Hma. apply orb_true_iff in Hma as [Hm|Hm].
        * apply (HD i m2 r b x); auto.
        * apply (HD j m2 s b x); auto.
      + apply Nat.eqb_neq in E1. apply Nat.eqb_eq in E2. inversion Hb; subst b.
        rewrite Hu in Hmb. apply orb_true_iff in Hmb as [Hm|Hm].
        * apply (HD m1 i a r x); auto.
        * apply (HD m1 j a s x); auto.
      + apply (HD m1 m2 a b x); auto.
  Qed.

  Lemma step_length : length L' = pred (length L).
  Proof.
    unfold L'. rewrite remove_nth_length; rewrite set_nth_length; [reflexivity|].
    apply nth_error_Some. congruence.
  Qed.
End Step.

(* ---------- candidates ---------- *)
Definition cand_ok (L : list range) (c : nat * nat * nat) : Prop :=
  let '(_, i, j) := c in
  i <> j /\ exists r s, nth_error L i = Some r /\ nth_error L j = Some s /\ can_merge r s = true.

Definition cand_step (csr : list range) (ij : nat * nat) (acc : option (list (nat * nat * nat))) :=
  let '(i, j) := ij in
  match acc, nth_error csr i, nth_error csr j with
  | Some l, Some r, Some s =>
    if negb (Nat.eqb i j) && can_merge r s then
      match merge_pos (fst r) (snd r) (fst s) (snd s) with
      | Some p => Some ((p, i, j) :: l)
      | None => None
      end
    else Some l
  | _, _, _ => None
  end.

Lemma merge_candidates_eq csr :
  merge_candidates csr =
  fold_right (cand_step csr) (Some []) (list_prod (seq 0 (length csr)) (seq 0 (length csr))).
Proof. reflexivity. Qed.

Lemma distinct_ranges L i j r s : MInv L -> i <> j -> nth_error L i = Some r -> nth_error L j = Some s -> r <> s.
Proof.
  intros [HF HD] Hij Hi Hj E. subst s.
  rewrite Forall_forall in HF. destruct (HF r (nth_error_In _ _ Hi)) as [Hle _].
  apply (HD i j r r (fst r) Hij Hi Hj); unfold matches; apply in_range_self; assumption.
Qed.

Lemma candidates_ok L : MInv L -> forall prs,
  (forall i j, In (i, j) prs -> (i < length L)%nat /\ (j < length L)%nat) ->
  exists cands, fold_right (cand_step L) (Some []) prs = Some cands /\ Forall (cand_ok L) cands.
Proof.
  intros HL. induction prs as [|[i j] prs IH]; intros Hb; [exists []; split; [reflexivity|constructor]|].
  cbn [fold_right].
  destruct IH as (cands & -> & Hc); [intros; apply Hb; right; assumption|].
  unfold cand_step.
  destruct (Hb i j (or_introl eq_refl)) as [Hi Hj].
  destruct (nth_error L i) as [r|] eqn:Ei; [|apply nth_error_None in Ei; lia].
  destruct (nth_error L j) as [s|] eqn:Ej; [|apply nth_error_None in Ej; lia].
  destruct (negb (Nat.eqb i j) && can_merge r s) eqn:Ec; [|exists cands; auto].
  apply andb_true_iff in Ec as [Hne Hcm]. apply negb_true_iff, Nat.eqb_neq in Hne.
  destruct (merge_pos (fst r) (snd r) (fst s) (snd s)) as [p|] eqn:Ep.
  - exists ((p, i, j) :: cands). split; [reflexivity|]. constructor; [|assumption].
    split; [assumption|]. exists r, s. auto.
  - exfalso. destruct HL as [HF HD]. rewrite Forall_forall in HF.
    destruct (HF r (nth_error_In _ _ Ei)) as [Hr _]. destruct (HF s (nth_error_In _ _ Ej)) as [Hs _].
    unfold can_merge in Hcm. apply andb_true_iff in Hcm as [Hlen _]. apply Nat.eqb_eq in Hlen.
    pose proof (F2_length _ _ _ Hr) as L1. pose proof (F2_length _ _ _ Hs) as L2.
    destruct (merge_pos_none _ _ _ _ Ep L1 (eq_sym Hlen) (eq_trans (eq_sym L2) (eq_sym Hlen))) as [E1 E2].
    apply (distinct_ranges L i j r s (conj (proj2 (Forall_forall _ _) HF) HD) Hne Ei Ej).
    destruct r, s; cbn in *; congruence.
Qed.

Lemma least_candidate_in l c : least_candidate l = Some c -> In c l.
Proof.
  destruct l as [|c0 r]; [discriminate|]. cbn [least_candidate]. intro H. inversion H; subst c. clear H.
  revert c0. induction r as [|x r IH]; intro c0; [left; reflexivity|].
  cbn [fold_left]. destruct (cand_lt x c0).
  - destruct (IH x) as [E|Hin]; [right; left; exact E|right; right; exact Hin].
  - destruct (IH c0) as [E|Hin]; [left; exact E|right; right; exact Hin].
Qed.

(* one round of the loop *)
Lemma merge_step_ok L : MInv L ->
  merge_step L = Some None \/
  exists L', merge_step L = Some (Some L') /\ MInv L' /\ length L' = pred (length L) /\ (2 <= length L)%nat /\
             forall x n, sem L' x n <-> sem L x n.
Proof.
  intro HL. unfold merge_step. rewrite merge_candidates_eq.
  destruct (candidates_ok L HL (list_prod (seq 0 (length L)) (seq 0 (length L)))) as (cands & -> & Hc).
  { intros i j Hin. apply in_prod_iff in Hin as [Hi Hj]. apply in_seq in Hi, Hj. lia. }
  destruct (least_candidate cands) as [[[p i] j]|] eqn:El; [|left; reflexivity].
  right. apply least_candidate_in in El. rewrite Forall_forall in Hc.
  destruct (Hc _ El) as (Hij & r & s & Hi & Hj & Hcm).
  rewrite Hi, Hj. eexists. split; [reflexivity|].
  split; [apply (step_inv L i j r s HL Hij Hi Hj Hcm)|].
  split; [apply (step_length L i j r s Hj)|].
  split.
  - assert (i < length L)%nat by (apply nth_error_Some; congruence).
    assert (j < length L)%nat by (apply nth_error_Some; congruence). lia.
  - intros x n. apply (step_sem L i j r s HL Hij Hi Hj Hcm).
Qed.

Lemma merge_loop_ok : forall fuel L, MInv L -> (length L < fuel)%nat ->
  exists L', merge_loop fuel L = Some L' /\ MInv L' /\ forall x n, sem L' x n <-> sem L x n.
Proof.
  induction fuel as [|fuel IH]; intros L HL Hf; [lia|].
  cbn [merge_loop]. destruct (merge_step_ok L HL) as [->|(L1 & -> & HL1 & Hlen & H2 & Hsem)].
  - exists L. split; [reflexivity|]. split; [assumption|]. tauto.
  - destruct (IH L1 HL1 ltac:(lia)) as (L' & -> & HL' & Hsem').
    exists L'. split; [reflexivity|]. split; [assumption|].
    intros x n. rewrite Hsem'. apply Hsem.
Qed.

(* ---------- the ranges of a well-formed tree satisfy the invariant ---------- *)
Lemma Disj_app A B : Disj A -> Disj B ->
  (forall r s x, In r A -> In s B -> matches r x = true -> matches s x = true -> False) -> Disj (A ++ B).
Proof.
  intros HA HB HX i j r s x Hij Hi Hj Hr Hs.
  destruct (Nat.lt_ge_cases i (length A)) as [Hia|Hia]; destruct (Nat.lt_ge_cases j (length A)) as [Hja|Hja].
  - rewrite nth_error_app1 in Hi, Hj by assumption. eapply HA; eauto.
  - rewrite nth_error_app1 in Hi by assumption. rewrite nth_error_app2 in Hj by assumption.
    eapply HX; eauto using nth_error_In.
  - rewrite nth_error_app2 in Hi by assumption. rewrite nth_error_app1 in Hj by assumption.
    eapply HX; eauto using nth_error_In.
  - rewrite nth_error_app2 in Hi, Hj by assumption. apply (HB (i - length A)%nat (j - length A)%nat r s x); auto. lia.
Qed.

Lemma Disj_nil : Disj [].
Proof. intros i j r s x _ Hi. destruct i; discriminate. Qed.

Lemma Disj_single r : Disj [r].
Proof.
  intros i j a b x Hij Hi Hj. destruct i as [|[|i]]; destruct j as [|[|j]]; cbn in *; try discriminate. lia.
Qed.

(* a string matched by a range lies inside it at every position of the range *)
Lemma in_range_pos : forall lo hi x, in_range lo hi x = true -> length lo = length hi ->
  forall k, (k < length lo)%nat -> nth k lo 0 <= nth k x 0 <= nth k hi 0.
Proof.
  induction lo as [|l lo IH]; intros hi x H Hl k Hk; [cbn in Hk; lia|].
  destruct hi as [|h hi]; [discriminate|]. destruct x as [|b x]; [discriminate|].
  cbn [in_range] in H. rewrite !andb_true_iff, !N.leb_le in H. destruct H as [[Ha Hb] Hc].
  destruct k as [|k]; cbn [nth]; [lia|]. apply IH; [assumption|cbn in Hl; lia|cbn in Hk; lia].
Qed.

Lemma in_range_mid : forall low high x1 y1 lo' hi' x, length low = length high ->
  in_range (low ++ x1 :: lo') (high ++ y1 :: hi') x = true -> x1 <= nth (length low) x 0 <= y1.
Proof.
  induction low as [|l low IH]; intros [|h high] x1 y1 lo' hi' x Hl H; cbn in Hl; try discriminate.
  - destruct x as [|b x]; [discriminate|]. cbn [app in_range] in H.
    rewrite !andb_true_iff, !N.leb_le in H. cbn [length nth]. lia.
  - destruct x as [|b x]; [discriminate|]. cbn [app in_range] in H.
    rewrite !andb_true_iff in H. destruct H as [_ H]. cbn [length nth]. apply (IH high x1 y1 lo' hi' x); [lia|assumption].
Qed.

Lemma F2_app_le a b x y : Forall2 N.le a b -> x <= y -> Forall2 N.le (a ++ [x]) (b ++ [y]).
Proof. intros H Hxy. apply Forall2_app; [assumption|]. constructor; [assumption|constructor]. Qed.

Lemma tree_ranges_inv : forall n d low2 high2, Twf d n -> Forall2 N.le low2 high2 -> low2 <> [] ->
  MInv (tree_ranges_node n low2 high2).
Proof.
  induction n as [k| |cc IH] using tnode_ind2; intros d low2 high2 Hw Hle Hne.
  - split; [constructor|apply Disj_nil].
  - split; [constructor; [split; assumption|constructor]|apply Disj_single].
  - rewrite tree_ranges_sub. apply Twf_sub_inv in Hw as [Hsh HwF].
    pose proof (F2_length _ _ _ Hle) as Hlen.
    (* the sibling loop, from any starting point *)
    assert (Hloop : forall prev, group_shape prev cc = true -> MInv (tr_group low2 high2 cc (nl_of prev)));
      [|apply (Hloop None Hsh)].
    clear Hsh. induction IH as [|[h n'] r Hn' Hr IHr]; intros prev Hsh; [split; [constructor|apply Disj_nil]|].
    pose proof Hsh as Hsh0.
    cbn [group_shape] in Hsh. rewrite !andb_true_iff in Hsh. destruct Hsh as [[Hprev Hh] Hshr].
    assert (Hnlh : nl_of prev <= h) by (destruct prev as [q|]; cbn [nl_of]; lia).
    inversion HwF as [|? ? Hw1 HwF']; subst. cbn [snd] in Hw1, Hn'.
    rewrite tr_group_cons.
    destruct (Hn' (S d) (low2 ++ [nl_of prev]) (high2 ++ [h]) Hw1 (F2_app_le _ _ _ _ Hle Hnlh)) as [HF1 HD1].
    { destruct low2; discriminate. }
    assert (Hrest : MInv (if h =? 255 then [] else tr_group low2 high2 r (h + 1))).
    { destruct (h =? 255); [split; [constructor|apply Disj_nil]|]. apply (IHr HwF' (Some h) Hshr). }
    destruct Hrest as [HF2 HD2].
    split; [apply Forall_app; split; assumption|].
    apply Disj_app; try assumption.
    intros a b x Ha Hb Hma Hmb. destruct a as [alo ahi]. destruct b as [blo bhi].
    destruct (trn_ext _ _ _ _ _ Ha) as (lo' & hi' & -> & ->).
    destruct (h =? 255) eqn:E255; [destruct Hb|].
    destruct (trg_ext low2 high2 r (Some h) Hshr _ _ Hb) as (x1 & y1 & lo'' & hi'' & -> & -> & Hx1).
    cbn [nl_of] in Hx1. unfold matches in Hma, Hmb. cbn [fst snd] in Hma, Hmb.
    rewrite <- !app_assoc in Hma. cbn [app] in Hma.
    pose proof (in_range_mid _ _ _ _ _ _ _ Hlen Hma) as Pa.
    pose proof (in_range_mid _ _ _ _ _ _ _ Hlen Hmb) as Pb.
    clear -Pa Pb Hx1. lia.
Qed.

Lemma tree_ranges_minv t : Twf 0 (TSub t) -> MInv (tree_ranges t).
Proof.
  intro Hw. unfold tree_ranges. rewrite tree_ranges_sub. apply Twf_sub_inv in Hw as Hw2. destruct Hw2 as [Hsh HwF].
  (* same loop as above with empty prefixes *)
  assert (Hloop : forall cc prev, group_shape prev cc = true ->
            Forall (fun p : byte * tnode => Twf 1 (snd p)) cc -> MInv (tr_group [] [] cc (nl_of prev)));
    [|apply (Hloop t None Hsh HwF)].
  induction cc as [|[h n'] r IHr]; intros prev Hs HF; [split; [constructor|apply Disj_nil]|].
  cbn [group_shape] in Hs. rewrite !andb_true_iff in Hs. destruct Hs as [[Hprev Hh] Hshr].
  assert (Hnlh : nl_of prev <= h) by (destruct prev as [q|]; cbn [nl_of]; lia).
  inversion HF as [|? ? Hw1 HF']; subst. cbn [snd] in Hw1.
  rewrite tr_group_cons. cbn [app].
  destruct (tree_ranges_inv n' 1 [nl_of prev] [h] Hw1) as [HF1 HD1]; [constructor; [assumption|constructor]|discriminate|].
  assert (Hrest : MInv (if h =? 255 then [] else tr_group [] [] r (h + 1))).
  { destruct (h =? 255); [split; [constructor|apply Disj_nil]|]. apply (IHr (Some h) Hshr HF'). }
  destruct Hrest as [HF2 HD2].
  split; [apply Forall_app; split; assumption|].
  apply Disj_app; try assumption.
  intros a b x Ha Hb Hma Hmb. destruct a as [alo ahi]. destruct b as [blo bhi].
  destruct (trn_ext _ _ _ _ _ Ha) as (lo' & hi' & -> & ->).
  destruct (h =? 255) eqn:E255; [destruct Hb|].
  destruct (trg_ext [] [] r (Some h) Hshr _ _ Hb) as (x1 & y1 & lo'' & hi'' & -> & -> & Hx1).
  cbn [nl_of app] in *. unfold matches in Hma, Hmb. cbn [fst snd] in Hma, Hmb.
  destruct x as [|b0 x]; [discriminate|]. cbn [in_range] in Hma, Hmb.
  rewrite !andb_true_iff, !N.leb_le in Hma, Hmb. lia.
Qed.

(* ---------- cost of the merge loop ---------- *)
(* one round inspects every ordered pair: at most n^2 candidates *)
Lemma merge_candidates_bound L cands :
  merge_candidates L = Some cands -> (length cands <= length L * length L)%nat.
Proof.
  rewrite merge_candidates_eq.
  assert (H : forall prs cs, fold_right (cand_step L) (Some []) prs = Some cs -> (length cs <= length prs)%nat).
  { induction prs as [|[i j] prs IH]; intros cs Hc; [inversion Hc; cbn; lia|].
    cbn [fold_right] in Hc. unfold cand_step at 1 in Hc.
    destruct (fold_right (cand_step L) (Some []) prs) as [l|] eqn:E; [|discriminate].
    specialize (IH l eq_refl).
    destruct (nth_error L i) as [r|]; [|discriminate]. destruct (nth_error L j) as [s|]; [|discriminate].
    destruct (negb (Nat.eqb i j) && can_merge r s).
    - destruct (merge_pos (fst r) (snd r) (fst s) (snd s)); [|discriminate]. inversion Hc; subst. cbn [length]. lia.
    - inversion Hc; subst. cbn [length]. lia. }
  intro Hc. apply H in Hc. rewrite prod_length, !seq_length in Hc. exact Hc.
Qed.

(* every round removes one range, so the loop ends within (number of ranges + 1) rounds:
   it never exhausts that fuel, and the result has at least one range if there was one *)
Lemma merge_rounds_bound L : MInv L ->
  exists L', merge_loop (S (length L)) L = Some L' /\ (length L' <= length L)%nat.
Proof.
  intro HL.
  assert (H : forall fuel L, MInv L -> (length L < fuel)%nat ->
              exists L', merge_loop fuel L = Some L' /\ (length L' <= length L)%nat).
  { induction fuel as [|fuel IH]; intros L0 HL0 Hf; [lia|].
    cbn [merge_loop]. destruct (merge_step_ok L0 HL0) as [->|(L1 & -> & HL1 & Hlen & H2 & _)].
    - exists L0. split; [reflexivity|lia].
    - destruct (IH L1 HL1 ltac:(lia)) as (L' & -> & Hle). exists L'. split; [reflexivity|lia]. }
  apply H; [assumption|lia].
Qed.
