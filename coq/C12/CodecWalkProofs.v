(* C12: the code space reported by walking a validated node array describes exactly the
   codes the tree accepts. *)
From Coq Require Import List Arith NArith Lia Bool ZifyN ZifyNat ZifyBool.
From GoPdf.Base Require Import Bytes.
From GoPdf.C12 Require Import Codec CodecProofs CodecLinProofs.
Import ListNotations.
Open Scope N_scope.

(* ---------- the sibling loop of tree_ranges_node ---------- *)
Definition tr_group (low high : list byte) :=
  fix go (cs : list (byte * tnode)) (next_low : N) {struct cs} : list range :=
    match cs with
    | [] => []
    | (h, n') :: r =>
      tree_ranges_node n' (low ++ [next_low]) (high ++ [h]) ++
      (if h =? 255 then [] else go r (h + 1))
    end.

Lemma tree_ranges_sub cc low high : tree_ranges_node (TSub cc) low high = tr_group low high cc 0.
Proof. reflexivity. Qed.

Lemma tr_group_cons low high h n' r nl :
  tr_group low high ((h, n') :: r) nl =
  tree_ranges_node n' (low ++ [nl]) (high ++ [h]) ++ (if h =? 255 then [] else tr_group low high r (h + 1)).
Proof. reflexivity. Qed.

(* ---------- walk on the node array = tree_ranges ---------- *)
Lemma lwalk_sim nodes : forall k d, (d + k = 4)%nat ->
  forall cc prev cur fuel nl low high,
  lin_group nodes d cc cur = true -> group_shape prev cc = true -> cc <> [] ->
  N.of_nat (cur + length cc) <= 65532 ->
  (length cc + 256 * (k - 1) <= fuel)%nat ->
  lwalk fuel nodes cur nl low high = Some (tr_group low high cc nl).
Proof.
  induction k as [|k IHk]; intros d Hdk.
  { (* depth 4: no group is validated there *)
    intros cc prev cur fuel nl low high Hg Hsh Hne _ _.
    destruct cc as [|[h n'] r]; [congruence|].
    rewrite lin_group_cons in Hg. destruct (nth_error nodes cur) as [ln|]; [|discriminate].
    rewrite !andb_true_iff in Hg. destruct Hg as [[_ Hn] _].
    destruct n' as [kk| |cc'].
    - rewrite lin_node_invalid in Hn. rewrite !andb_true_iff in Hn. destruct Hn as [_ Hn]. apply Nat.leb_le in Hn. lia.
    - rewrite lin_node_leaf in Hn. rewrite !andb_true_iff in Hn. destruct Hn as [_ Hn]. apply Nat.leb_le in Hn. lia.
    - rewrite lin_node_sub in Hn. rewrite !andb_true_iff in Hn. destruct Hn as [[[[_ Hn] _] _] _].
      apply Nat.ltb_lt in Hn. lia. }
  induction cc as [|[h n'] r IHr]; intros prev cur fuel nl low high Hg Hsh Hne Hend Hfuel; [congruence|].
  rewrite lin_group_cons in Hg. destruct (nth_error nodes cur) as [ln|] eqn:Enth; [|discriminate].
  rewrite !andb_true_iff in Hg. destruct Hg as [[Hb Hn] Hgr]. apply N.eqb_eq in Hb.
  cbn [group_shape] in Hsh. rewrite !andb_true_iff in Hsh. destruct Hsh as [[Hprev Hh] Hshr].
  apply N.ltb_lt in Hh.
  destruct fuel as [|fuel]; [cbn [length] in Hfuel; lia|]. cbn [length] in Hfuel, Hend.
  cbn [lwalk]. rewrite Enth, Hb. rewrite tr_group_cons.
  assert (Hhere : (if child ln =? 0 then Some [(low ++ [nl], high ++ [h])]
                   else if 65532 <=? child ln then Some []
                   else lwalk fuel nodes (N.to_nat (child ln)) 0 (low ++ [nl]) (high ++ [h]))
                  = Some (tree_ranges_node n' (low ++ [nl]) (high ++ [h]))).
  { destruct n' as [kk| |cc'].
    - rewrite lin_node_invalid in Hn. rewrite !andb_true_iff in Hn. destruct Hn as [[Hk Hc] _].
      apply Nat.leb_le in Hk. apply N.eqb_eq in Hc.
      replace (child ln =? 0) with false by lia. replace (65532 <=? child ln) with true by lia. reflexivity.
    - rewrite lin_node_leaf in Hn. rewrite andb_true_iff in Hn. destruct Hn as [Hc _].
      apply N.eqb_eq in Hc. rewrite Hc. reflexivity.
    - rewrite lin_node_sub in Hn. rewrite !andb_true_iff in Hn. destruct Hn as [[[[Hc Hd'] Hsh'] Hpos] Hg'].
      apply Nat.ltb_lt in Hd'.
      replace (child ln =? 0) with false by lia. replace (65532 <=? child ln) with false by lia.
      rewrite tree_ranges_sub.
      pose proof (group_shape_length cc' None Hsh') as Hlen. cbv iota beta in Hlen.
      apply (IHk (S d) ltac:(lia) cc' None); try assumption.
      + intro E; subst cc'. discriminate Hsh'.
      + lia.
      + lia. }
  rewrite Hhere. clear Hhere.
  destruct (h =? 255) eqn:E255; [rewrite app_nil_r; reflexivity|].
  assert (Hrne : r <> []).
  { intro E; subst r. cbn [group_shape] in Hshr. rewrite Hshr in E255. discriminate. }
  rewrite cur_succ_small by lia.
  rewrite (IHr (Some h) (S cur) fuel (h + 1) low high Hgr Hshr Hrne) by lia. reflexivity.
Qed.

Theorem walk_ranges_tree_lemma : forall nodes t, lin_ok nodes t = true ->
  walk_ranges nodes = Some (tree_ranges t).
Proof.
  intros nodes t H. unfold lin_ok in H. rewrite lin_node_sub in H.
  rewrite !andb_true_iff in H. destruct H as [[[[Hc Hd] Hsh] Hpos] Hg].
  unfold walk_ranges, tree_ranges. rewrite tree_ranges_sub.
  pose proof (group_shape_length t None Hsh) as Hlen. cbv iota beta in Hlen.
  apply (lwalk_sim nodes 4 0 eq_refl t None); try assumption.
  - intro E; subst t. discriminate Hsh.
  - lia.
  - lia.
Qed.

(* ---------- which strings the ranges of a tree match ---------- *)
Section TnodeInd.
  Variable P : tnode -> Prop.
  Hypothesis Hinv : forall k, P (TInvalid k).
  Hypothesis Hleaf : P TLeaf.
  Hypothesis Hsub : forall cc, Forall (fun p : byte * tnode => P (snd p)) cc -> P (TSub cc).
  Fixpoint tnode_ind2 (n : tnode) : P n :=
    match n with
    | TInvalid k => Hinv k
    | TLeaf => Hleaf
    | TSub cc =>
      Hsub cc ((fix go (cc : list (byte * tnode)) : Forall (fun p : byte * tnode => P (snd p)) cc :=
                  match cc with
                  | [] => Forall_nil _
                  | p :: r => Forall_cons p (tnode_ind2 (snd p)) (go r)
                  end) cc)
    end.
End TnodeInd.

(* every range of a subtree extends the bounds it was entered with *)
Lemma trn_ext : forall n low2 high2 lo hi, In (lo, hi) (tree_ranges_node n low2 high2) ->
  exists lo' hi', lo = low2 ++ lo' /\ hi = high2 ++ hi'.
Proof.
  induction n as [k| |cc IH] using tnode_ind2; intros low2 high2 lo hi Hin.
  - destruct Hin.
  - destruct Hin as [Hin|[]]. inversion Hin; subst. exists [], []. rewrite !app_nil_r. auto.
  - rewrite tree_ranges_sub in Hin. generalize dependent 0.
    induction IH as [|[h n'] r Hn' Hr IHr]; intros nl Hin; [destruct Hin|].
    rewrite tr_group_cons in Hin. apply in_app_or in Hin as [Hin|Hin].
    + cbn [snd] in Hn'. destruct (Hn' _ _ _ _ Hin) as (lo' & hi' & -> & ->).
      exists (nl :: lo'), (h :: hi'). rewrite <- !app_assoc. auto.
    + destruct (h =? 255); [destruct Hin|]. apply (IHr _ Hin).
Qed.

Definition nl_of (prev : option N) : N := match prev with Some p => p + 1 | None => 0 end.

(* every range of a sibling group continues with a byte range at or above next_low *)
Lemma trg_ext low high : forall cc prev, group_shape prev cc = true ->
  forall lo hi, In (lo, hi) (tr_group low high cc (nl_of prev)) ->
  exists x y lo' hi', lo = low ++ x :: lo' /\ hi = high ++ y :: hi' /\ nl_of prev <= x.
Proof.
  induction cc as [|[h n'] r IH]; intros prev Hsh lo hi Hin; [destruct Hin|].
  cbn [group_shape] in Hsh. rewrite !andb_true_iff in Hsh. destruct Hsh as [[Hprev Hh] Hshr].
  rewrite tr_group_cons in Hin. apply in_app_or in Hin as [Hin|Hin].
  - destruct (trn_ext _ _ _ _ _ Hin) as (lo' & hi' & -> & ->).
    exists (nl_of prev), h, lo', hi'. rewrite <- !app_assoc. repeat split; auto. lia.
  - destruct (h =? 255); [destruct Hin|].
    destruct (IH (Some h) Hshr lo hi Hin) as (x & y & lo' & hi' & -> & -> & Hx).
    exists x, y, lo', hi'. repeat split; auto. cbn [nl_of] in *. destruct prev as [p|]; cbn [nl_of]; lia.
Qed.

Lemma in_range_app_eq : forall (low high p lo' hi' s : list byte),
  length low = length p -> length high = length p ->
  in_range (low ++ lo') (high ++ hi') (p ++ s) = in_range low high p && in_range lo' hi' s.
Proof.
  induction low as [|l low IH]; intros [|h high] [|b p] lo' hi' s H1 H2; cbn in H1, H2; try discriminate.
  - reflexivity.
  - cbn [app in_range]. rewrite IH by lia. rewrite !andb_assoc. reflexivity.
Qed.

Definition pre (low high p : list byte) : Prop :=
  length low = length p /\ length high = length p /\ in_range low high p = true.

Lemma pre_snoc low high p x y b : pre low high p -> x <= b <= y ->
  pre (low ++ [x]) (high ++ [y]) (p ++ [b]).
Proof.
  intros (H1 & H2 & H3) Hb. split; [rewrite !app_length; cbn; lia|]. split; [rewrite !app_length; cbn; lia|].
  rewrite in_range_app_eq by assumption. rewrite H3. cbn [in_range andb].
  replace (x <=? b) with true by lia. replace (b <=? y) with true by lia. reflexivity.
Qed.

Lemma match_len_none (L : list range) s :
  (forall lo hi, In (lo, hi) L -> in_range lo hi s = false) -> match_len L s = O.
Proof.
  induction L as [|[lo hi] L IH]; intro H; [reflexivity|].
  cbn [match_len]. rewrite (H lo hi (or_introl eq_refl)). apply IH. intros; apply H; right; assumption.
Qed.

Lemma match_len_app (A B : list range) s :
  (forall lo hi, In (lo, hi) A -> lo <> []) ->
  match_len (A ++ B) s = match match_len A s with O => match_len B s | k => k end.
Proof.
  induction A as [|[lo hi] A IH]; intro H; [reflexivity|].
  cbn [app match_len]. destruct (in_range lo hi s).
  - specialize (H lo hi (or_introl eq_refl)). destruct lo; [congruence|reflexivity].
  - apply IH. intros; eapply H; right; eassumption.
Qed.

Definition vlen (r : nat * bool) : nat := if snd r then fst r else O.

(* the ranges of a validated subtree match exactly the strings its decode accepts *)
Lemma ml_sub nodes : forall k d, (d + k = 4)%nat ->
  forall cc cur low high p s,
  lin_group nodes d cc cur = true -> group_shape None cc = true -> pre low high p -> wfbs s = true ->
  match_len (tr_group low high cc 0) (p ++ s) = vlen (tdecode cc s (length p)).
Proof.
  induction k as [|k IHk]; intros d Hdk cc cur low high p s Hg Hsh Hpre Hwf.
  { (* depth 4 holds no group *)
    destruct cc as [|[h n'] r]; [discriminate Hsh|].
    rewrite lin_group_cons in Hg. destruct (nth_error nodes cur) as [ln|]; [|discriminate].
    rewrite !andb_true_iff in Hg. destruct Hg as [[_ Hn] _].
    destruct n' as [kk| |cc'].
    - rewrite lin_node_invalid in Hn. rewrite !andb_true_iff in Hn. destruct Hn as [_ Hn]. apply Nat.leb_le in Hn. lia.
    - rewrite lin_node_leaf in Hn. rewrite !andb_true_iff in Hn. destruct Hn as [_ Hn]. apply Nat.leb_le in Hn. lia.
    - rewrite lin_node_sub in Hn. rewrite !andb_true_iff in Hn. destruct Hn as [[[[_ Hn] _] _] _].
      apply Nat.ltb_lt in Hn. lia. }
  destruct Hpre as (Hl1 & Hl2 & Hin) eqn:Epre. clear Epre.
  destruct s as [|b s'].
  { (* the input ends here: every range is longer *)
    cbn [tdecode vlen snd]. apply match_len_none. intros lo hi Hr.
    destruct (trg_ext low high cc None Hsh lo hi Hr) as (x & y & lo' & hi' & -> & -> & _).
    rewrite in_range_app_eq by assumption. cbn [in_range]. apply andb_false_r. }
  cbn [wfbs forallb] in Hwf. apply andb_true_iff in Hwf as [Hb Hwf']. unfold wfb in Hb. apply N.ltb_lt in Hb.
  (* the sibling loop, for any starting point at or below b *)
  assert (Hloop : forall cc prev cur, lin_group nodes d cc cur = true -> group_shape prev cc = true ->
            nl_of prev <= b ->
            match_len (tr_group low high cc (nl_of prev)) (p ++ b :: s') =
            vlen (tdecode cc (b :: s') (length p))).
  { clear cc cur Hg Hsh.
    induction cc as [|[h n'] r IHr]; intros prev cur Hg Hsh Hnl.
    { destruct prev as [q|]; cbn [group_shape] in Hsh; [|discriminate]. apply N.eqb_eq in Hsh. cbn [nl_of] in Hnl. lia. }
    rewrite lin_group_cons in Hg. destruct (nth_error nodes cur) as [ln|] eqn:Enth; [|discriminate].
    rewrite !andb_true_iff in Hg. destruct Hg as [[Hbd Hn] Hgr].
    pose proof Hsh as Hsh0.
    cbn [group_shape] in Hsh. rewrite !andb_true_iff in Hsh. destruct Hsh as [[Hprev Hh] Hshr].
    apply N.ltb_lt in Hh.
    assert (Hnlh : nl_of prev <= h) by (destruct prev as [q|]; cbn [nl_of]; lia).
    rewrite tr_group_cons. cbn [tdecode find_child].
    rewrite match_len_app.
    2:{ intros lo hi Hr. destruct (trn_ext _ _ _ _ _ Hr) as (lo' & hi' & -> & _). destruct low; discriminate. }
    destruct (b <=? h) eqn:Ebh.
    - (* b falls into this child *)
      apply N.leb_le in Ebh.
      assert (Hpre2 : pre (low ++ [nl_of prev]) (high ++ [h]) (p ++ [b])) by (apply pre_snoc; [repeat split; assumption|lia]).
      assert (Hrest : match_len (if h =? 255 then [] else tr_group low high r (h + 1)) (p ++ b :: s') = O).
      { destruct (h =? 255); [reflexivity|]. apply match_len_none. intros lo hi Hr.
        destruct (trg_ext low high r (Some h) Hshr lo hi Hr) as (x & y & lo' & hi' & -> & -> & Hx).
        rewrite in_range_app_eq by assumption. cbn [in_range nl_of] in *.
        replace (x <=? b) with false by lia. cbn [andb]. apply andb_false_r. }
      rewrite Hrest.
      replace (p ++ b :: s') with ((p ++ [b]) ++ s') by (rewrite <- app_assoc; reflexivity).
      assert (Hlp : length (p ++ [b]) = S (length p)) by (rewrite app_length; cbn; lia).
      destruct n' as [kk| |cc'].
      + reflexivity.
      + cbn [tree_ranges_node match_len vlen fst snd].
        destruct Hpre2 as (Ha & Hb2 & Hc). rewrite <- (app_nil_r (low ++ [nl_of prev])), <- (app_nil_r (high ++ [h])).
        rewrite in_range_app_eq by assumption. rewrite Hc. cbn [in_range andb].
        rewrite app_nil_r, Ha, Hlp. reflexivity.
      + rewrite lin_node_sub in Hn. rewrite !andb_true_iff in Hn. destruct Hn as [[[[Hc Hd'] Hsh'] Hpos] Hg'].
        rewrite tree_ranges_sub.
        rewrite (IHk (S d) ltac:(lia) cc' (N.to_nat (child ln)) _ _ (p ++ [b]) s' Hg' Hsh' Hpre2 Hwf').
        rewrite Hlp. destruct (vlen (tdecode cc' s' (S (length p)))); reflexivity.
    - (* b lies above this child *)
      apply N.leb_gt in Ebh.
      assert (H0 : match_len (tree_ranges_node n' (low ++ [nl_of prev]) (high ++ [h])) (p ++ b :: s') = O).
      { apply match_len_none. intros lo hi Hr. destruct (trn_ext _ _ _ _ _ Hr) as (lo' & hi' & -> & ->).
        rewrite <- !app_assoc. cbn [app]. rewrite in_range_app_eq by assumption. cbn [in_range].
        replace (b <=? h) with false by lia. rewrite andb_false_r. cbn [andb]. apply andb_false_r. }
      rewrite H0. replace (h =? 255) with false by lia.
      apply (IHr (Some h) (S cur) Hgr Hshr). cbn [nl_of]. lia. }
  apply (Hloop cc None cur Hg Hsh). cbn [nl_of]. lia.
Qed.

Theorem tree_ranges_match_lemma : forall nodes t, lin_ok nodes t = true ->
  forall s, wfbs s = true -> match_len (tree_ranges t) s = vlen (tdecode t s 0).
Proof.
  intros nodes t H s Hwf. unfold lin_ok in H. rewrite lin_node_sub in H.
  rewrite !andb_true_iff in H. destruct H as [[[[Hc Hd] Hsh] Hpos] Hg].
  unfold tree_ranges. rewrite tree_ranges_sub.
  apply (ml_sub nodes 4 0 eq_refl t _ [] [] [] s Hg Hsh); [|assumption].
  repeat split; reflexivity.
Qed.
