(* C12: new_codec_tree accepts every valid range set in which no code is a
   prefix of another. *)
From Coq Require Import List Arith NArith Lia Bool Sorted ZifyN ZifyNat ZifyBool.
From GoPdf.Base Require Import Bytes.
From GoPdf.C12 Require Import Codec CodecSpecProofs CodecTreeProofs.
Import ListNotations.
Open Scope N_scope.

(* c is a code of the range r *)
Definition is_code (r : range) (c : list byte) : Prop :=
  length c = length (fst r) /\ in_range (fst r) (snd r) c = true.

(* no code is a proper prefix of another code *)
Definition prefix_free (csr : list range) : Prop :=
  forall r1 r2 c1 c2, In r1 csr -> In r2 csr -> is_code r1 c1 -> is_code r2 c2 ->
    (exists x, c2 = c1 ++ x) -> length c1 = length c2.

Lemma in_range_nth : forall (lo hi c : list byte), length lo = length hi -> length c = length lo ->
  (in_range lo hi c = true <-> forall i, (i < length lo)%nat -> nth i lo 0 <= nth i c 0 <= nth i hi 0).
Proof.
  induction lo as [|l lo IH]; intros [|h hi] [|b c] H1 H2; cbn in H1, H2; try discriminate.
  - cbn. split; [intros _ i Hi; lia|reflexivity].
  - cbn [in_range length]. rewrite !andb_true_iff, !N.leb_le, (IH hi c) by lia. split.
    + intros [[Ha Hb] Hc] [|i] Hi; cbn [nth]; [lia|]. apply Hc. lia.
    + intro H. split; [apply (H O); lia|]. intros i Hi. apply (H (S i)). lia.
Qed.

Lemma le_pointwise_nth : forall (lo hi : list byte), le_pointwise lo hi = true ->
  length lo = length hi /\ forall i, (i < length lo)%nat -> nth i lo 0 <= nth i hi 0 < 256.
Proof.
  induction lo as [|l lo IH]; intros [|h hi] H; cbn in H; try discriminate.
  - split; [reflexivity|]. cbn. intros; lia.
  - rewrite !andb_true_iff in H. destruct H as [[Ha Hb] Hc]. destruct (IH hi Hc) as [Hl Hn].
    split; [cbn; lia|]. intros [|i] Hi; cbn [nth]; [lia|]. apply Hn. cbn in Hi. lia.
Qed.

Lemma nth_skipn_gen {A} n : forall (l : list A) i x, nth i (skipn n l) x = nth (n + i) l x.
Proof.
  induction n as [|n IH]; intros l i x; [reflexivity|]. destruct l; [destruct i; reflexivity|]. cbn. apply IH.
Qed.

Lemma exists_false {A} (f : A -> bool) l :
  ~ (forall x, In x l -> f x = true) -> exists x, In x l /\ f x = false.
Proof.
  induction l as [|x l IH]; intro H; [exfalso; apply H; intros x []|].
  destruct (f x) eqn:E; [|exists x; split; [left; reflexivity|assumption]].
  destruct IH as [y [Hy Hf]].
  - intro H'. apply H. intros z [<-|Hz]; auto.
  - exists y. split; [right; assumption|assumption].
Qed.

Lemma exists_true {A} (f : A -> bool) l :
  ~ (forall x, In x l -> f x = false) -> exists x, In x l /\ f x = true.
Proof.
  intro H. destruct (exists_false (fun x => negb (f x)) l) as [x [Hx Hf]].
  - intro H'. apply H. intros x Hx. specialize (H' x Hx). destruct (f x); [discriminate|reflexivity].
  - exists x. split; [assumption|]. destruct (f x); [reflexivity|discriminate].
Qed.

Lemma build_some rec rs d : forall bs, ssorted bs ->
  (forall lo hi1, adjacent lo hi1 bs -> In lo bs -> In hi1 bs ->
                  exists n, interval_node rec rs d lo (hi1 - 1) = Some n) ->
  exists t, build_intervals rec rs d bs = Some t.
Proof.
  induction bs as [|lo bs IH]; intros Hs H; [exists []; reflexivity|].
  destruct bs as [|hi1 rest]; [exists []; reflexivity|].
  rewrite build_intervals_cons.
  inversion Hs as [|? ? Hs' Hlo]; subst.
  assert (Hlt : lo < hi1) by (inversion Hlo; assumption).
  destruct (H lo hi1) as [n ->].
  - split; [assumption|]. intros z [<-|Hz]; [lia|]. right. destruct Hz as [<-|Hz]; [lia|].
    inversion Hs' as [|? ? ? Hh1]; subst. rewrite Forall_forall in Hh1. specialize (Hh1 z Hz). lia.
  - left; reflexivity.
  - right; left; reflexivity.
  - destruct (IH Hs') as [tl ->]; [|eexists; reflexivity].
    intros lo' hi' [Hlt' Hadj] Hin1 Hin2. apply H; [|right; assumption|right; assumption].
    split; [assumption|]. intros z [<-|Hz]; [|apply Hadj; assumption].
    left. rewrite Forall_forall in Hlo. specialize (Hlo lo' Hin1). lia.
Qed.

(* the bytes consumed so far lie in every range still under consideration *)
Definition path_ok (p : list byte) (r : range) : Prop :=
  range_valid r = true /\ (length p < length (fst r))%nat /\
  forall i, (i < length p)%nat -> nth i (fst r) 0 <= nth i p 0 <= nth i (snd r) 0.

Lemma path_ok_len p r : path_ok p r -> length (fst r) = length (snd r) /\ (length (fst r) <= 4)%nat.
Proof.
  intros [Hv _]. unfold range_valid in Hv. rewrite !andb_true_iff in Hv.
  destruct Hv as [[[H1 H2] H3] H4]. apply Nat.eqb_eq in H1. apply Nat.leb_le in H3. split; assumption.
Qed.

Lemma path_ok_bounds p r : path_ok p r ->
  forall i, (i < length (fst r))%nat -> nth i (fst r) 0 <= nth i (snd r) 0 < 256.
Proof.
  intros [Hv _]. unfold range_valid in Hv. rewrite !andb_true_iff in Hv.
  destruct Hv as [_ H4]. apply le_pointwise_nth in H4. apply H4.
Qed.

Lemma new_tree_some : forall fuel rs p,
  Forall (path_ok p) rs -> prefix_free rs -> (length p <= 4)%nat -> (5 <= fuel + length p)%nat ->
  exists t, new_tree fuel rs (length p) = Some t.
Proof.
  induction fuel as [|fuel IH]; intros rs p Hok Hpf Hp4 Hfuel; [lia|].
  cbn [new_tree]. set (d := length p) in *.
  destruct (breaks_spec rs d) as (Hsort & Hhd & H256 & Hin).
  apply build_some; [assumption|].
  intros lo hi1 Hadj Hlo Hhi.
  assert (Hchild : filter (overlaps d lo (hi1 - 1)) rs = filter (byte_ok d lo) rs).
  { apply filter_ext_in. intros r Hrin. destruct (Hin r Hrin). eapply homogeneous; eauto.
    destruct Hadj. lia. }
  assert (Hcase : filter (overlaps d lo (hi1 - 1)) rs = [] \/ filter (overlaps d lo (hi1 - 1)) rs <> [])
    by (destruct (filter (overlaps d lo (hi1 - 1)) rs); [left|right]; congruence).
  destruct Hcase as [E|Hne]; [rewrite interval_node_empty by assumption; eexists; reflexivity|].
  rewrite interval_node_nonempty by assumption. cbv zeta. rewrite Hchild in *.
  set (child := filter (byte_ok d lo) rs) in *.
  assert (Hsub : forall y, In y child -> In y rs /\ byte_ok d lo y = true).
  { intros y Hy. unfold child in Hy. apply filter_In in Hy. assumption. }
  rewrite Forall_forall in Hok.
  destruct (Nat.eqb (length (filter (is_leaf_at d) child)) (length child)) eqn:E1; [eexists; reflexivity|].
  destruct (Nat.eqb (length (filter (is_leaf_at d) child)) 0) eqn:E2.
  - (* no range ends here: recurse with the path extended by lo *)
    apply Nat.eqb_eq in E2. rewrite filter_length_zero in E2.
    assert (Hlen : forall y, In y child -> (d + 1 < length (fst y))%nat).
    { intros y Hy. specialize (E2 y Hy). unfold is_leaf_at in E2. apply Nat.eqb_neq in E2.
      destruct (Hok y (proj1 (Hsub y Hy))) as (_ & Hl & _). fold d in Hl. lia. }
    assert (Hd3 : (d + 1 <= 4)%nat).
    { destruct child as [|y child'] eqn:Ec; [congruence|].
      specialize (Hlen y (or_introl eq_refl)).
      destruct (path_ok_len p y (Hok y (proj1 (Hsub y (or_introl eq_refl))))). lia. }
    destruct (IH child (p ++ [lo])) as [cc Hcc].
    + apply Forall_forall. intros y Hy. destruct (Hsub y Hy) as [Hyr Hyb].
      destruct (Hok y Hyr) as (Hv & Hl & Hp). split; [assumption|]. rewrite app_length. cbn [length]. fold d.
      split; [apply Hlen; assumption|].
      intros i Hi. destruct (Nat.lt_ge_cases i d) as [Hid|Hid].
      * rewrite app_nth1 by assumption. apply Hp. assumption.
      * assert (i = d) by lia. subst i. rewrite app_nth2 by (fold d; lia). fold d. rewrite Nat.sub_diag. cbn [nth].
        unfold byte_ok in Hyb. rewrite andb_true_iff, !N.leb_le in Hyb. exact Hyb.
    + intros r1 r2 c1 c2 H1 H2. apply Hpf; [apply (Hsub r1 H1)|apply (Hsub r2 H2)].
    + rewrite app_length. cbn [length]. fold d. lia.
    + rewrite app_length. cbn [length]. fold d. lia.
    + rewrite app_length in Hcc. cbn [length] in Hcc. fold d in Hcc. rewrite Hcc. eexists; reflexivity.
  - (* mixed: a code of the leaf range is a prefix of a code of the longer range *)
    exfalso.
    apply Nat.eqb_neq in E1, E2. rewrite filter_length_all in E1. rewrite filter_length_zero in E2.
    apply exists_false in E1 as [r2 [Hr2 Hf2]]. apply exists_true in E2 as [r1 [Hr1 Hf1]].
    unfold is_leaf_at in Hf1, Hf2. apply Nat.eqb_eq in Hf1. apply Nat.eqb_neq in Hf2.
    destruct (Hsub r1 Hr1) as [Hr1in Hb1]. destruct (Hsub r2 Hr2) as [Hr2in Hb2].
    pose proof (Hok r1 Hr1in) as Hok1. pose proof (Hok r2 Hr2in) as Hok2.
    destruct Hok1 as (Hv1 & Hl1 & Hp1). destruct Hok2 as (Hv2 & Hl2 & Hp2). fold d in Hl1, Hl2, Hp1, Hp2.
    destruct (path_ok_len p r1 (Hok r1 Hr1in)) as [Hlen1 _].
    destruct (path_ok_len p r2 (Hok r2 Hr2in)) as [Hlen2 _].
    pose proof (path_ok_bounds p r2 (Hok r2 Hr2in)) as Hb.
    unfold byte_ok in Hb1, Hb2. rewrite andb_true_iff, !N.leb_le in Hb1, Hb2.
    assert (Hc : length (p ++ [lo]) = length (p ++ [lo] ++ skipn (d + 1) (fst r2))).
    { apply (Hpf r1 r2); try assumption.
      - split; [rewrite app_length; cbn [length]; fold d; lia|].
        apply in_range_nth; [assumption|rewrite app_length; cbn [length]; fold d; lia|].
        intros i Hi. destruct (Nat.lt_ge_cases i d) as [Hid|Hid].
        + rewrite app_nth1 by assumption. apply Hp1. assumption.
        + assert (i = d) by lia. subst i. rewrite app_nth2 by (fold d; lia). fold d. rewrite Nat.sub_diag. exact Hb1.
      - assert (Hl : length (p ++ [lo] ++ skipn (d + 1) (fst r2)) = length (fst r2)).
        { rewrite !app_length, skipn_length. cbn [length]. fold d. lia. }
        split; [assumption|].
        apply in_range_nth; [assumption|assumption|].
        intros i Hi. destruct (Nat.lt_ge_cases i d) as [Hid|Hid].
        + rewrite app_nth1 by assumption. apply Hp2. assumption.
        + rewrite app_nth2 by (fold d; lia). fold d.
          destruct (Nat.eq_dec i d) as [->|Hne'].
          * rewrite Nat.sub_diag. cbn [app nth]. exact Hb2.
          * destruct (i - d)%nat as [|k] eqn:Ek; [lia|]. cbn [app nth].
            rewrite nth_skipn_gen. replace (d + 1 + k)%nat with i by lia.
            specialize (Hb i Hi). lia.
      - exists (skipn (d + 1) (fst r2)). rewrite app_assoc. reflexivity. }
    rewrite !app_length, skipn_length in Hc. cbn [length] in Hc. fold d in Hc. lia.
Qed.

(* NewCodec accepts every valid range set in which no code is a prefix of another *)
Theorem accepts_prefix_free_lemma : forall csr,
  forallb range_valid csr = true -> prefix_free csr -> exists t, new_codec_tree csr = Some t.
Proof.
  intros csr Hv Hpf. unfold new_codec_tree. rewrite Hv.
  apply (new_tree_some 5 csr []); [|assumption|cbn; lia|cbn; lia].
  rewrite forallb_forall in Hv. apply Forall_forall. intros r Hr. split; [auto|]. split.
  - specialize (Hv r Hr). unfold range_valid in Hv. rewrite !andb_true_iff in Hv.
    destruct Hv as [[[H1 H2] H3] H4]. apply Nat.ltb_lt in H2. cbn. lia.
  - cbn. intros; lia.
Qed.

(* ---------- conversely: what new_codec_tree accepts is valid and prefix-free ---------- *)
Definition vshape (d : nat) (r : range) : Prop := range_valid r = true /\ (d < length (fst r))%nat.

Lemma vshape_shape_d d r : vshape d r -> shape_d d r.
Proof. intros [Hv Hd]. split; [apply (range_valid_shape r Hv)|assumption]. Qed.

Lemma vshape_bounds d r : vshape d r ->
  forall i, (i < length (fst r))%nat -> nth i (fst r) 0 <= nth i (snd r) 0 < 256.
Proof.
  intros [Hv _]. unfold range_valid in Hv. rewrite !andb_true_iff in Hv.
  destruct Hv as [_ H4]. apply le_pointwise_nth in H4. apply H4.
Qed.

Lemma new_tree_pf : forall fuel rs d t, new_tree fuel rs d = Some t -> Forall (vshape d) rs ->
  forall r1 r2 c1 x, In r1 rs -> In r2 rs ->
    is_code (drop d r1) c1 -> is_code (drop d r2) (c1 ++ x) -> length (fst r1) = length (fst r2).
Proof.
  induction fuel as [|fuel IH]; intros rs d t Ht Hs r1 r2 c1 x Hr1 Hr2 [Hl1 Hc1] [Hl2 Hc2]; [discriminate|].
  cbn [new_tree] in Ht. rewrite Forall_forall in Hs.
  pose proof (vshape_shape_d d r1 (Hs r1 Hr1)) as Hsd1. pose proof (vshape_shape_d d r2 (Hs r2 Hr2)) as Hsd2.
  pose proof (shape_drop d r1 Hsd1) as Hsh1. pose proof (shape_drop d r2 Hsd2) as Hsh2.
  destruct c1 as [|b c1'].
  { destruct Hsh1 as [_ Hge]. cbn [length] in Hl1. lia. }
  cbn [app] in *.
  destruct (drop d r1) as [lo1 hi1'] eqn:Ed1. destruct (drop d r2) as [lo2 hi2'] eqn:Ed2. cbn [fst snd] in *.
  rewrite in_range_cons in Hc1, Hc2 by assumption. rewrite <- Ed1 in Hc1. rewrite <- Ed2 in Hc2.
  rewrite hd_ok_drop in Hc1, Hc2. apply andb_true_iff in Hc1 as [Hb1 Hc1]. apply andb_true_iff in Hc2 as [Hb2 Hc2].
  assert (Hb256 : b < 256).
  { unfold byte_ok in Hb1. rewrite andb_true_iff, !N.leb_le in Hb1.
    pose proof (vshape_bounds d r1 (Hs r1 Hr1) d (proj2 (Hs r1 Hr1))). lia. }
  destruct (breaks_spec rs d) as (Hsort & Hhd & H256 & Hin).
  destruct (build_find _ rs d _ t Hsort Ht b 0 Hhd ltac:(lia)) as (lo & hi1 & n & Hadj & Hr & Hf & Hn).
  { exists 256. split; [assumption|lia]. }
  assert (Hchild : filter (overlaps d lo (hi1 - 1)) rs = filter (byte_ok d b) rs).
  { apply filter_ext_in. intros r Hrin. destruct (Hin r Hrin). eapply homogeneous; eauto. }
  set (child := filter (byte_ok d b) rs) in *.
  assert (Hin1 : In r1 child) by (apply filter_In; split; assumption).
  assert (Hin2 : In r2 child) by (apply filter_In; split; assumption).
  rewrite interval_node_nonempty in Hn by (rewrite Hchild; intro E; rewrite E in Hin1; destruct Hin1).
  cbv zeta in Hn. rewrite Hchild in Hn.
  destruct (Nat.eqb (length (filter (is_leaf_at d) child)) (length child)) eqn:E1.
  - apply Nat.eqb_eq in E1. rewrite filter_length_all in E1.
    pose proof (E1 r1 Hin1) as H1. pose proof (E1 r2 Hin2) as H2. unfold is_leaf_at in H1, H2.
    apply Nat.eqb_eq in H1, H2. lia.
  - destruct (Nat.eqb (length (filter (is_leaf_at d) child)) 0) eqn:E2; [|discriminate Hn].
    destruct (new_tree fuel child (d + 1)) as [cc|] eqn:Ecc; [|discriminate Hn].
    apply Nat.eqb_eq in E2. rewrite filter_length_zero in E2.
    apply (IH child (d + 1)%nat cc Ecc) with (c1 := c1') (x := x); try assumption.
    + apply Forall_forall. intros y Hy. specialize (E2 y Hy). unfold is_leaf_at in E2. apply Nat.eqb_neq in E2.
      assert (In y rs) by (apply filter_In in Hy; tauto). destruct (Hs y H). split; [assumption|lia].
    + replace (d + 1)%nat with (S d) by lia. rewrite <- rtl_drop, Ed1. unfold rtl. cbn [fst snd].
      split; [|assumption]. cbn [length] in Hl1. destruct lo1; cbn in *; lia.
    + replace (d + 1)%nat with (S d) by lia. rewrite <- rtl_drop, Ed2. unfold rtl. cbn [fst snd].
      split; [|assumption]. cbn [length] in Hl2. destruct lo2; cbn in *; lia.
Qed.

Theorem accepted_is_prefix_free_lemma : forall csr t,
  new_codec_tree csr = Some t -> forallb range_valid csr = true /\ prefix_free csr.
Proof.
  intros csr t Ht. unfold new_codec_tree in Ht.
  destruct (forallb range_valid csr) eqn:Hv; [|discriminate]. split; [reflexivity|].
  rewrite forallb_forall in Hv.
  intros r1 r2 c1 c2 Hr1 Hr2 Hc1 Hc2 [x ->].
  assert (length (fst r1) = length (fst r2)).
  { apply (new_tree_pf 5 csr 0 t Ht) with (c1 := c1) (x := x); try assumption; try (rewrite drop0; assumption).
    apply Forall_forall. intros r Hr. split; [auto|]. specialize (Hv r Hr). unfold range_valid in Hv.
    rewrite !andb_true_iff in Hv. destruct Hv as [[[H1 H2] H3] H4]. apply Nat.ltb_lt in H2. assumption. }
  destruct Hc1 as [-> _]. destruct Hc2 as [-> _]. assumption.
Qed.
