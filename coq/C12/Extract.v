Require Extraction.
Require Import ExtrOcamlBasic.
From GoPdf.Base Require Import WireAnchor.
From GoPdf.C12 Require Import Codec.
Separate Extraction wire_anchor codec linearize lin_ok decode append_code walk_ranges spec_decode match_len
  new_codec_tree tdecode tree_ranges le_code code_space_range.
