(* C12: trees built by new_tree are well formed (bounds, depths), and the descriptor is
   injective on well-formed trees - the two facts behind the sharing done by the lineariser. *)
From Coq Require Import List Arith NArith Lia Bool Sorted ZifyN ZifyNat ZifyBool.
From GoPdf.Base Require Import Bytes.
From GoPdf.C12 Require Import Codec CodecProofs CodecSpecProofs CodecTreeProofs CodecAcceptProofs CodecWalkProofs.
Import ListNotations.
Open Scope N_scope.

(* [d] = number of bytes consumed when the node has been selected *)
Inductive Twf : nat -> tnode -> Prop :=
| Twf_leaf d : (d <= 4)%nat -> Twf d TLeaf
| Twf_inv d k : (k <= 3)%nat -> (d + k <= 4)%nat -> Twf d (TInvalid k)
| Twf_sub d cc : (d < 4)%nat -> group_shape None cc = true ->
                 Forall (fun p : byte * tnode => Twf (S d) (snd p)) cc -> Twf d (TSub cc).

(* ---------- shape of one sibling group ---------- *)
Lemma build_group_shape rec rs d : forall bs t x rest, bs = x :: rest -> ssorted bs ->
  (forall y, In y bs -> y <= 256) -> In 256 bs -> build_intervals rec rs d bs = Some t ->
  forall prev, match prev with Some p => p + 1 = x | None => x < 256 end -> group_shape prev t = true.
Proof.
  induction bs as [|x0 bs IH]; intros t x rest E Hs Hle H256 Hb prev Hprev; [discriminate|].
  inversion E; subst x0 bs. clear E.
  destruct rest as [|hi1 rest'].
  - cbn in Hb. inversion Hb; subst t. destruct H256 as [->|[]].
    destruct prev as [p|]; cbn [group_shape]; lia.
  - rewrite build_intervals_cons in Hb.
    destruct (interval_node rec rs d x (hi1 - 1)) as [n|]; [|discriminate].
    destruct (build_intervals rec rs d (hi1 :: rest')) as [tl|] eqn:Etl; [|discriminate].
    inversion Hb; subst t. clear Hb.
    inversion Hs as [|? ? Hs' Hlo]; subst.
    assert (Hlt : x < hi1) by (inversion Hlo; assumption).
    assert (Hh : hi1 <= 256) by (apply Hle; right; left; reflexivity).
    cbn [group_shape].
    assert (H1 : match prev with Some p => p <? hi1 - 1 | None => true end = true)
      by (destruct prev as [p|]; [lia|reflexivity]).
    rewrite H1. replace (hi1 - 1 <? 256) with true by lia. cbn [andb].
    apply (IH tl hi1 rest' eq_refl Hs').
    + intros y Hy. apply Hle. right. assumption.
    + destruct H256 as [->|H]; [lia|assumption].
    + reflexivity.
    + cbv iota beta. clear IH. lia.
Qed.

Lemma breaks_in_inv d : forall (rs : list range) acc y, In y (fold_left (break_step d) rs acc) ->
  In y acc \/ exists r : range, In r rs /\ (y = nth d (fst r) 0 \/ y = nth d (snd r) 0 + 1).
Proof.
  induction rs as [|r rs IH]; intros acc y Hy; [left; assumption|].
  cbn [fold_left] in Hy. destruct (IH _ _ Hy) as [H|[r' [Hr' H]]].
  - unfold break_step in H. apply insert_sorted_in in H as [->|H].
    + right. exists r. split; [left; reflexivity|left; reflexivity].
    + apply insert_sorted_in in H as [->|H]; [|left; assumption].
      right. exists r. split; [left; reflexivity|right; reflexivity].
  - right. exists r'. split; [right; assumption|assumption].
Qed.

Lemma breaks_le256 (rs : list range) d : Forall (vshape d) rs -> forall y, In y (breaks rs d) -> y <= 256.
Proof.
  intros Hs y Hy. change (breaks rs d) with (fold_left (break_step d) rs [0; 256]) in Hy.
  apply breaks_in_inv in Hy as [[<-|[<-|[]]]|[r [Hr Hy]]]; try lia.
  rewrite Forall_forall in Hs. pose proof (vshape_bounds d r (Hs r Hr) d (proj2 (Hs r Hr))) as Hb.
  destruct Hy as [->| ->]; lia.
Qed.

(* ---------- every node of the group comes from interval_node ---------- *)
Lemma build_nodes rec rs d : forall bs t, build_intervals rec rs d bs = Some t ->
  forall h n, In (h, n) t -> exists lo hi, interval_node rec rs d lo hi = Some n.
Proof.
  induction bs as [|lo bs IH]; intros t Hb h n Hin; [cbn in Hb; inversion Hb; subst; destruct Hin|].
  destruct bs as [|hi1 rest]; [cbn in Hb; inversion Hb; subst; destruct Hin|].
  rewrite build_intervals_cons in Hb.
  destruct (interval_node rec rs d lo (hi1 - 1)) as [n0|] eqn:En; [|discriminate].
  destruct (build_intervals rec rs d (hi1 :: rest)) as [tl|] eqn:Etl; [|discriminate].
  inversion Hb; subst t. destruct Hin as [Hin|Hin].
  - inversion Hin; subst. eauto.
  - eapply IH; eauto.
Qed.

Lemma fold_min_le (l : list range) : forall m,
  (fold_left (fun m (x : range) => Nat.min m (length (fst x))) l m <= m)%nat /\
  forall r, In r l -> (fold_left (fun m (x : range) => Nat.min m (length (fst x))) l m <= length (fst r))%nat.
Proof.
  induction l as [|x l IH]; intro m; cbn [fold_left]; [split; [lia|intros r []]|].
  destruct (IH (Nat.min m (length (fst x)))) as [H1 H2]. split; [lia|].
  intros r [<-|Hr]; [lia|auto].
Qed.

Lemma min_length_le (rs : list range) r : In r rs -> (min_length rs <= length (fst r))%nat.
Proof.
  destruct rs as [|r0 rs]; [intros []|]. unfold min_length.
  destruct (fold_min_le rs (length (fst r0))) as [H1 H2].
  intros [<-|Hr]; [assumption|auto].
Qed.

Lemma vshape_len4 d r : vshape d r -> (length (fst r) <= 4)%nat.
Proof.
  intros [Hv _]. unfold range_valid in Hv. rewrite !andb_true_iff in Hv.
  destruct Hv as [[[_ _] H3] _]. apply Nat.leb_le in H3. assumption.
Qed.

(* ---------- trees of new_tree are well formed ---------- *)
Lemma new_tree_twf : forall fuel rs d t, new_tree fuel rs d = Some t ->
  Forall (vshape d) rs -> (d < 4)%nat -> Twf d (TSub t).
Proof.
  induction fuel as [|fuel IH]; intros rs d t Ht Hs Hd; [discriminate|].
  cbn [new_tree] in Ht.
  destruct (breaks_spec rs d) as (Hsort & Hhd & H256 & Hin).
  constructor; [assumption| |].
  - destruct (breaks rs d) as [|x rest] eqn:Eb; [discriminate|].
    cbn in Hhd. inversion Hhd; subst x.
    rewrite <- Eb in *.
    apply (build_group_shape (fun child : list range => new_tree fuel child (d + 1)) rs d (breaks rs d) t 0 rest Eb Hsort).
    + apply breaks_le256. assumption.
    + assumption.
    + assumption.
    + lia.
  - apply Forall_forall. intros [h n] Hn. cbn [snd].
    destruct (build_nodes _ rs d _ t Ht h n Hn) as (lo & hi & Hnode).
    set (child := filter (overlaps d lo hi) rs) in *.
    assert (Hsub : forall y, In y child -> In y rs) by (intros y Hy; apply filter_In in Hy; tauto).
    rewrite Forall_forall in Hs.
    assert (Hcase : child = [] \/ child <> []) by (destruct child; [left|right]; congruence).
    destruct Hcase as [E|Hne].
    + rewrite interval_node_empty in Hnode by exact E. inversion Hnode; subst n.
      destruct rs as [|r0 rs0] eqn:Ers.
      * change (min_length []) with 1%nat. constructor; lia.
      * rewrite <- Ers in *.
        assert (Hr0 : In r0 rs) by (rewrite Ers; left; reflexivity).
        pose proof (min_length_le rs r0 Hr0). pose proof (vshape_len4 d r0 (Hs r0 Hr0)).
        constructor; lia.
    + rewrite interval_node_nonempty in Hnode by exact Hne. cbv zeta in Hnode. fold child in Hnode.
      destruct (Nat.eqb (length (filter (is_leaf_at d) child)) (length child)) eqn:E1.
      * inversion Hnode; subst n. constructor. lia.
      * destruct (Nat.eqb (length (filter (is_leaf_at d) child)) 0) eqn:E2; [|discriminate].
        destruct (new_tree fuel child (d + 1)) as [cc|] eqn:Ecc; [|discriminate].
        inversion Hnode; subst n. apply Nat.eqb_eq in E2. rewrite filter_length_zero in E2.
        assert (Hlen : forall y, In y child -> (d + 1 < length (fst y))%nat).
        { intros y Hy. specialize (E2 y Hy). unfold is_leaf_at in E2. apply Nat.eqb_neq in E2.
          destruct (Hs y (Hsub y Hy)). lia. }
        assert (Hd3 : (d + 1 < 4)%nat).
        { destruct child as [|y child'] eqn:Ec; [congruence|].
          specialize (Hlen y (or_introl eq_refl)).
          pose proof (vshape_len4 d y (Hs y (Hsub y (or_introl eq_refl)))). lia. }
        replace (S d) with (d + 1)%nat by lia.
        apply (IH child (d + 1)%nat cc Ecc); [|assumption].
        apply Forall_forall. intros y Hy. destruct (Hs y (Hsub y Hy)). split; [assumption|auto].
Qed.

Theorem new_codec_tree_twf : forall csr t, new_codec_tree csr = Some t -> Twf 0 (TSub t).
Proof.
  intros csr t Ht. unfold new_codec_tree in Ht.
  destruct (forallb range_valid csr) eqn:Hv; [|discriminate].
  apply (new_tree_twf 5 csr 0 t Ht); [|lia].
  rewrite forallb_forall in Hv. apply Forall_forall. intros r Hr. split; [auto|].
  specialize (Hv r Hr). unfold range_valid in Hv. rewrite !andb_true_iff in Hv.
  destruct Hv as [[[H1 H2] H3] H4]. apply Nat.ltb_lt in H2. assumption.
Qed.

(* ---------- the descriptor determines the subtree ---------- *)
Definition desc_items :=
  fix go (cs : list (byte * tnode)) : list byte :=
    match cs with
    | [] => []
    | (h, n) :: r => desc_of n ++ [h] ++ go r
    end.

Lemma desc_of_sub cs : desc_of (TSub cs) = 1 :: desc_items cs ++ [2].
Proof. reflexivity. Qed.

Lemma desc_items_cons h n r : desc_items ((h, n) :: r) = desc_of n ++ [h] ++ desc_items r.
Proof. reflexivity. Qed.

Lemma desc_head n : exists x rest, desc_of n = x :: rest /\ (x = 0 \/ x = 1).
Proof.
  destruct n as [k| |cs].
  - exists 0, [N.of_nat k]. auto.
  - exists 1, [2]. auto.
  - rewrite desc_of_sub. eexists _, _. split; [reflexivity|auto].
Qed.

Lemma Twf_sub_inv d cc : Twf d (TSub cc) ->
  group_shape None cc = true /\ Forall (fun p : byte * tnode => Twf (S d) (snd p)) cc.
Proof. intro H. inversion H; subst. auto. Qed.

Lemma desc_inj : forall n1 n2 d1 d2 r1 r2, Twf d1 n1 -> Twf d2 n2 ->
  desc_of n1 ++ r1 = desc_of n2 ++ r2 -> n1 = n2 /\ r1 = r2.
Proof.
  induction n1 as [k1| |cs1 IH] using tnode_ind2; intros n2 d1 d2 r1 r2 H1 H2 E.
  - destruct n2 as [k2| |cs2]; try (rewrite ?desc_of_sub in E; cbn in E; discriminate).
    cbn in E. inversion E. apply Nat2N.inj in H0. subst. auto.
  - destruct n2 as [k2| |cs2]; try (cbn in E; discriminate).
    + cbn in E. inversion E. auto.
    + exfalso. apply Twf_sub_inv in H2 as [Hsh _].
      destruct cs2 as [|[h n] c2]; [discriminate Hsh|].
      rewrite desc_of_sub, desc_items_cons in E. destruct (desc_head n) as (x & rest & Ex & Hx). rewrite Ex in E.
      cbn in E. inversion E. lia.
  - destruct n2 as [k2| |cs2]; try (rewrite desc_of_sub in E; cbn in E; discriminate).
    + exfalso. apply Twf_sub_inv in H1 as [Hsh _].
      destruct cs1 as [|[h n] c1]; [discriminate Hsh|].
      rewrite desc_of_sub, desc_items_cons in E. destruct (desc_head n) as (x & rest & Ex & Hx). rewrite Ex in E.
      cbn in E. inversion E. lia.
    + apply Twf_sub_inv in H1 as [_ F1]. apply Twf_sub_inv in H2 as [_ F2].
      rewrite !desc_of_sub in E. cbn [app] in E. inversion E as [E']. clear E.
      rewrite <- !app_assoc in E'.
      assert (Hgo : cs1 = cs2 /\ r1 = r2).
      { clear -IH F1 F2 E'. revert cs2 F2 E'.
        induction IH as [|[h1 n1] c1 Hn1 Hc1 IHc]; intros cs2 F2 E'.
        - destruct cs2 as [|[h2 n2] c2].
          + cbn in E'. inversion E'. auto.
          + exfalso. rewrite desc_items_cons in E'. destruct (desc_head n2) as (x & rest & Ex & Hx). rewrite Ex in E'.
            cbn in E'. inversion E'. lia.
        - destruct cs2 as [|[h2 n2] c2].
          + exfalso. rewrite desc_items_cons in E'. destruct (desc_head n1) as (x & rest & Ex & Hx). rewrite Ex in E'.
            cbn in E'. inversion E'. lia.
          + rewrite !desc_items_cons in E'. rewrite <- !app_assoc in E'.
            inversion F1 as [|? ? Hw1 F1']; subst. inversion F2 as [|? ? Hw2 F2']; subst. cbn [snd] in *.
            destruct (Hn1 n2 _ _ _ _ Hw1 Hw2 E') as [-> E''].
            cbn [app] in E''. inversion E'' as [[Hh E3]]. subst h2.
            destruct (IHc F1' c2 F2' E3) as [-> ->]. auto. }
      destruct Hgo as [-> ->]. auto.
Qed.
