From Coq Require Import List NArith Lia Bool Arith.
From GoPdf.Base Require Import Bytes.
From GoPdf.C12 Require Import Codec.
Import ListNotations.

(* tree-level decode consumes at least one and never more than the available bytes *)
Lemma tdecode_bounds cs : forall s c,
  s <> [] -> (S c <= fst (tdecode cs s c) <= c + length s)%nat.
Proof.
  revert cs. fix IH 2. intros cs s; revert cs; induction s as [|b s' IHs]; intros cs c Hne; [congruence|].
  cbn [tdecode length]. destruct (find_child b cs) as [[k| |cc]|]; cbn [fst]; try lia.
  destruct s' as [|b' s''].
  - cbn. lia.
  - specialize (IHs cc (S c) ltac:(congruence)). cbn [length] in *. lia.
Qed.
