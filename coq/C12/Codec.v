(* Model of font/charcode/codec.go and range.go (C12).
   Definitions only; proofs are in CodecProofs.v so that the model can be
   extracted and run even when a proof breaks. *)
From Coq Require Import List NArith Lia Bool.
From GoPdf.Base Require Import Bytes.
Import ListNotations.
Open Scope N_scope.

Definition range := (list byte * list byte)%type.   (* Low, High *)

(* ---------- specification (ISO 32000-2, 9.7.6.2 and 9.7.6.3) ---------- *)

(* Range.IsValid *)
Fixpoint le_pointwise (lo hi : list byte) : bool :=
  match lo, hi with
  | [], [] => true
  | l :: lo', h :: hi' => (l <=? h) && (h <? 256) && le_pointwise lo' hi'
  | _, _ => false
  end.
Definition range_valid (r : range) : bool :=
  let n := length (fst r) in
  Nat.eqb n (length (snd r)) && Nat.ltb 0 n && Nat.leb n 4 && le_pointwise (fst r) (snd r).

(* s starts with a code of the range *)
Fixpoint in_range (lo hi s : list byte) : bool :=
  match lo, hi, s with
  | [], [], _ => true
  | l :: lo', h :: hi', b :: s' => (l <=? b) && (b <=? h) && in_range lo' hi' s'
  | _, _, _ => false
  end.

(* CodeSpaceRange.matchLen: length of the valid code s starts with, 0 if none *)
Fixpoint match_len (csr : list range) (s : list byte) : nat :=
  match csr with
  | [] => 0
  | (lo, hi) :: r => if in_range lo hi s then length lo else match_len r s
  end.

(* number of leading bytes of s that are inside the range, position by position *)
Fixpoint prefix_match (lo hi s : list byte) : nat :=
  match lo, hi, s with
  | l :: lo', h :: hi', b :: s' => if (l <=? b) && (b <=? h) then S (prefix_match lo' hi' s') else O
  | _, _, _ => O
  end.
Definition longest_prefix (csr : list range) (s : list byte) : nat :=
  fold_right (fun (r : range) m => Nat.max (prefix_match (fst r) (snd r) s) m) O csr.
(* 9.7.6.3: the shortest code among the ranges that share the longest possible prefix *)
Definition spec_consume (csr : list range) (s : list byte) : nat :=
  let best := longest_prefix csr s in
  let cands := filter (fun r : range => Nat.eqb (prefix_match (fst r) (snd r) s) best) csr in
  let m := match cands with
           | [] => 1%nat
           | r :: rest => fold_left (fun m (x : range) => Nat.min m (length (fst x))) rest (length (fst r))
           end in
  Nat.min m (length s).

(* what Decode must return as (consumed, valid) *)
Definition spec_decode (csr : list range) (s : list byte) : nat * bool :=
  match s with
  | [] => (O, false)
  | _ => match match_len csr s with
         | O => (spec_consume csr s, false)
         | k => (k, true)
         end
  end.

(* ---------- the lookup tree (newTree) ---------- *)
Inductive tnode :=
| TInvalid (consume : nat)
| TLeaf
| TSub (children : list (byte * tnode)).   (* (high bound, node), ascending *)

Fixpoint insert_sorted (x : N) (l : list N) : list N :=
  match l with
  | [] => [x]
  | y :: r => if x <? y then x :: l else if x =? y then l else y :: insert_sorted x r
  end.
Definition breaks (rs : list range) (depth : nat) : list N :=
  fold_left (fun acc (r : range) =>
     insert_sorted (nth depth (fst r) 0) (insert_sorted (nth depth (snd r) 0 + 1) acc))
     rs [0; 256].
Definition min_length (rs : list range) : nat :=
  match rs with
  | [] => 1
  | r :: rest => fold_left (fun m (x : range) => Nat.min m (length (fst x))) rest (length (fst r))
  end.
Definition overlaps (depth : nat) (lo hi : N) (r : range) : bool :=
  (nth depth (fst r) 0 <=? hi) && (lo <=? nth depth (snd r) 0).

(* one interval [lo, hi] of the current depth *)
Inductive built := BErr | BNode (n : tnode).

Fixpoint new_tree (fuel : nat) (rs : list range) (depth : nat) : option (list (byte * tnode)) :=
  match fuel with O => None | S fuel =>
  (fix go (bs : list N) (acc : list (byte * tnode)) :=
     match bs with
     | lo :: ((hi1 :: _) as rest) =>
       let hi := hi1 - 1 in
       let child := filter (overlaps depth lo hi) rs in
       match child with
       | [] => go rest (acc ++ [(hi, TInvalid (min_length rs - (depth + 1)))])
       | _ =>
         let nl := length (filter (fun r : range => Nat.eqb (length (fst r)) (depth + 1)) child) in
         if Nat.eqb nl (length child) then go rest (acc ++ [(hi, TLeaf)])
         else if Nat.eqb nl 0 then
           match new_tree fuel child (depth + 1) with
           | Some cc => go rest (acc ++ [(hi, TSub cc)])
           | None => None
           end
         else None            (* errInvalidCodeSpaceRange: a code is a prefix of another *)
       end
     | _ => Some acc
     end) (breaks rs depth) []
  end.

(* NewCodec: validity of every range, then the tree (depth at most 4) *)
Definition new_codec_tree (rs : list range) : option (list (byte * tnode)) :=
  if forallb range_valid rs then new_tree 5 rs 0 else None.

(* tree-level decode: (consumed, valid) *)
Fixpoint find_child (b : byte) (cs : list (byte * tnode)) : option tnode :=
  match cs with
  | [] => None
  | (h, n) :: r => if b <=? h then Some n else find_child b r
  end.
Fixpoint tdecode (cs : list (byte * tnode)) (s : list byte) (consumed : nat) {struct s} : (nat * bool) :=
  match s with
  | [] => (consumed, false)
  | b :: s' =>
    match find_child b cs with
    | Some TLeaf => (S consumed, true)
    | Some (TInvalid k) => ((S consumed + Nat.min k (length s'))%nat, false)
    | Some (TSub cc) => tdecode cc s' (S consumed)
    | None => (S consumed, false)       (* unreachable for trees from new_tree: last bound is 255 *)
    end
  end.

(* ---------- descriptors and linearisation ---------- *)
Fixpoint desc_of (t : tnode) : list byte :=
  match t with
  | TInvalid c => [0; N.of_nat c]
  | TLeaf => [1; 2]
  | TSub cs => 1 :: (fix go (cs : list (byte * tnode)) : list byte :=
        match cs with
        | [] => []
        | (h, n) :: r => desc_of n ++ [h] ++ go r
        end) cs ++ [2]
  end.

Record lnode := { bound : byte; child : N }.

Fixpoint lookup_done (d : list byte) (done : list (list byte * N)) : option N :=
  match done with [] => None | (k, v) :: r => if bytes_eqb k d then Some v else lookup_done d r end.
Fixpoint set_nth {A} (n : nat) (x : A) (l : list A) : list A :=
  match n, l with O, _ :: r => x :: r | S n', y :: r => y :: set_nth n' x r | _, [] => [] end.

Definition lin_state := (list lnode * list (list byte * N))%type.

Fixpoint append_nodes (fuel : nat) (cs : list (byte * tnode)) (st : lin_state) : (N * lin_state) :=
  match fuel with O => (0, st) | S fuel =>
  let '(nodes, done) := st in
  let base := length nodes in
  let nodes := nodes ++ map (fun p : byte * tnode => {| bound := fst p; child := 0 |}) cs in
  let '(_, nodes, done) :=
    fold_left (fun (st : nat * list lnode * list (list byte * N)) (p : byte * tnode) =>
      let '(i, nodes, done) := st in
      let d := desc_of (snd p) in
      match lookup_done d done with
      | Some idx => (S i, set_nth (base + i) {| bound := fst p; child := idx |} nodes, done)
      | None =>
        let cc := match snd p with TSub cc => cc | _ => [] end in
        let '(pos, (nodes, done)) := append_nodes fuel cc (nodes, done) in
        (S i, set_nth (base + i) {| bound := fst p; child := pos |} nodes, (d, pos) :: done)
      end) cs (O, nodes, done) in
  (N.of_nat base, (nodes, done))
  end.

Definition init_done : list (list byte * N) :=
  [([1;2], 0); ([0;3], 65532); ([0;2], 65533); ([0;1], 65534); ([0;0], 65535)].

Definition linearize (t : list (byte * tnode)) : list lnode :=
  fst (snd (append_nodes 6 t ([], init_done))).

Definition codec (rs : list range) : option (list lnode) :=
  match new_codec_tree rs with
  | Some t => Some (linearize t)
  | None => None
  end.

(* ---------- Decode / AppendCode on the linearised nodes ---------- *)

(* inner `for { node = nodes[cur]; if b <= node.bound {break}; cur++ }`;
   None = index out of range (a Go panic) *)
Fixpoint scan_nodes (fuel : nat) (nodes : list lnode) (cur : nat) (b : byte) : option lnode :=
  match fuel with O => None | S fuel =>
  match nth_error nodes cur with
  | None => None
  | Some n => if b <=? bound n then Some n else scan_nodes fuel nodes (S cur) b
  end end.

(* little-endian accumulation of up to k further bytes *)
Fixpoint take_extra (k : nat) (s : list byte) (shift : N) (code : N) (consumed : nat) : N * nat :=
  match k, s with
  | S k', b :: s' => take_extra k' s' (shift + 8) (N.lor code (N.shiftl b shift)) (S consumed)
  | _, _ => (code, consumed)
  end.

(* result: Some (code, consumed, valid); None = panic or fuel exhausted *)
Fixpoint ldecode (fuel : nat) (nodes : list lnode) (cur : nat) (s : list byte)
         (code : N) (consumed : nat) : option (N * nat * bool) :=
  match fuel with O => None | S fuel =>
  match s with
  | [] => Some (code, consumed, false)
  | b :: s' =>
    let code := N.lor code (N.shiftl b (8 * N.of_nat consumed)) in
    let consumed := S consumed in
    match scan_nodes 257 nodes cur b with
    | None => None
    | Some n =>
      if child n =? 0 then Some (code, consumed, true)
      else if 65532 <=? child n then
        let '(code, consumed) :=
           take_extra (N.to_nat (65535 - child n)) s' (8 * N.of_nat consumed) code consumed in
        Some (code, consumed, false)
      else ldecode fuel nodes (N.to_nat (child n)) s' code consumed
    end
  end end.

Definition decode (nodes : list lnode) (s : list byte) : option (N * nat * bool) :=
  ldecode (S (length s)) nodes 0 s 0 0.

Fixpoint lappend (fuel : nat) (nodes : list lnode) (cur : nat) (code : N) (acc : list byte)
  : option (list byte) :=
  match fuel with O => None | S fuel =>
  let b := N.land code 255 in
  let acc := acc ++ [b] in
  let code := N.shiftr code 8 in
  match scan_nodes 257 nodes cur b with
  | None => None
  | Some n =>
    if child n =? 0 then Some acc
    else if 65532 <=? child n then
      let k := N.to_nat (65535 - child n) in
      Some (acc ++ map (fun i => N.land (N.shiftr code (8 * N.of_nat i)) 255) (seq 0 k))
    else lappend fuel nodes (N.to_nat (child n)) code acc
  end end.

(* AppendCode; the loop terminates because child links point forward: fuel = number of nodes + 1 *)
Definition append_code (nodes : list lnode) (code : N) : option (list byte) :=
  lappend (S (length nodes)) nodes 0 code [].

(* ---------- CodeSpaceRange reported by the codec (walk, without the merge step) ---------- *)
Fixpoint lwalk (fuel : nat) (nodes : list lnode) (cur : nat) (next_low : N) (low high : list byte)
  : option (list range) :=
  match fuel with O => None | S fuel =>
  match nth_error nodes cur with
  | None => None
  | Some n =>
    let low2 := low ++ [next_low] in
    let high2 := high ++ [bound n] in
    let here :=
      if child n =? 0 then Some [(low2, high2)]
      else if 65532 <=? child n then Some []
      else lwalk fuel nodes (N.to_nat (child n)) 0 low2 high2 in
    match here with
    | None => None
    | Some rs =>
      if bound n =? 255 then Some rs
      else match lwalk fuel nodes (S cur) (bound n + 1) low high with
           | Some rest => Some (rs ++ rest)
           | None => None
           end
    end
  end end.
Definition walk_ranges (nodes : list lnode) : option (list range) :=
  lwalk (5 * S (length nodes) * 257) nodes 0 0 [] [].
