(* Model of font/charcode/codec.go and range.go (C12).
   Definitions only; proofs are in the Codec*Proofs files so that the model can
   be extracted and run even when a proof breaks.

   Faithful to the Go source as it is now (after fix F4: the descriptor of a
   subtree lists its invalid gaps).  Bytes are [N]; a range is (Low, High). *)
From Coq Require Import List Arith NArith Lia Bool.
From GoPdf.Base Require Import Bytes.
Import ListNotations.
Open Scope N_scope.

Definition range := (list byte * list byte)%type.   (* Low, High *)

(* ---------- specification (ISO 32000-2, 9.7.6.2 and 9.7.6.3) ---------- *)

(* Range.IsValid *)
Fixpoint le_pointwise (lo hi : list byte) : bool :=
  match lo, hi with
  | [], [] => true
  | l :: lo', h :: hi' => (l <=? h) && (h <? 256) && le_pointwise lo' hi'
  | _, _ => false
  end.
Definition range_valid (r : range) : bool :=
  let n := length (fst r) in
  Nat.eqb n (length (snd r)) && Nat.ltb 0 n && Nat.leb n 4 && le_pointwise (fst r) (snd r).

(* s starts with a code of the range *)
Fixpoint in_range (lo hi s : list byte) : bool :=
  match lo, hi, s with
  | [], [], _ => true
  | l :: lo', h :: hi', b :: s' => (l <=? b) && (b <=? h) && in_range lo' hi' s'
  | _, _, _ => false
  end.

(* CodeSpaceRange.matchLen: length of the valid code s starts with, 0 if none *)
Fixpoint match_len (csr : list range) (s : list byte) : nat :=
  match csr with
  | [] => 0
  | (lo, hi) :: r => if in_range lo hi s then length lo else match_len r s
  end.

(* number of leading bytes of s that are inside the range, position by position *)
Fixpoint prefix_match (lo hi s : list byte) : nat :=
  match lo, hi, s with
  | l :: lo', h :: hi', b :: s' => if (l <=? b) && (b <=? h) then S (prefix_match lo' hi' s') else O
  | _, _, _ => O
  end.
Definition longest_prefix (csr : list range) (s : list byte) : nat :=
  fold_right (fun (r : range) m => Nat.max (prefix_match (fst r) (snd r) s) m) O csr.

(* minLength: the shortest code length of a list of ranges, 1 for the empty list *)
Definition min_length (rs : list range) : nat :=
  match rs with
  | [] => 1
  | r :: rest => fold_left (fun m (x : range) => Nat.min m (length (fst x))) rest (length (fst r))
  end.

(* 9.7.6.3: the shortest code among the ranges that share the longest possible prefix *)
Definition spec_consume (csr : list range) (s : list byte) : nat :=
  let best := longest_prefix csr s in
  let cands := filter (fun r : range => Nat.eqb (prefix_match (fst r) (snd r) s) best) csr in
  Nat.min (min_length cands) (length s).

(* what Decode must return as (consumed, valid) *)
Definition spec_decode (csr : list range) (s : list byte) : nat * bool :=
  match s with
  | [] => (O, false)
  | _ => match match_len csr s with
         | O => (spec_consume csr s, false)
         | k => (k, true)
         end
  end.

(* ---------- the lookup tree (newTree) ---------- *)
Inductive tnode :=
| TInvalid (consume : nat)
| TLeaf
| TSub (children : list (byte * tnode)).   (* (high bound, node), ascending *)

Fixpoint insert_sorted (x : N) (l : list N) : list N :=
  match l with
  | [] => [x]
  | y :: r => if x <? y then x :: l else if x =? y then l else y :: insert_sorted x r
  end.
(* the sorted key set of the `breaks` map *)
Definition breaks (rs : list range) (depth : nat) : list N :=
  fold_left (fun acc (r : range) =>
     insert_sorted (nth depth (fst r) 0) (insert_sorted (nth depth (snd r) 0 + 1) acc))
     rs [0; 256].
(* r.Low[depth] <= high && r.High[depth] >= low *)
Definition overlaps (depth : nat) (lo hi : N) (r : range) : bool :=
  (nth depth (fst r) 0 <=? hi) && (lo <=? nth depth (snd r) 0).
Definition is_leaf_at (depth : nat) (r : range) : bool := Nat.eqb (length (fst r)) (depth + 1).

(* the node for one interval [lo, hi] of the current depth; None = errInvalidCodeSpaceRange *)
Definition interval_node (rec : list range -> option (list (byte * tnode)))
           (rs : list range) (depth : nat) (lo hi : N) : option tnode :=
  let child := filter (overlaps depth lo hi) rs in
  match child with
  | [] => Some (TInvalid (min_length rs - (depth + 1)))
  | _ =>
    let nl := length (filter (is_leaf_at depth) child) in
    if Nat.eqb nl (length child) then Some TLeaf
    else if Nat.eqb nl 0 then
      match rec child with
      | Some cc => Some (TSub cc)
      | None => None
      end
    else None            (* a code is a prefix of another *)
  end.

(* the loop over consecutive break points *)
Fixpoint build_intervals (rec : list range -> option (list (byte * tnode)))
         (rs : list range) (depth : nat) (bs : list N) : option (list (byte * tnode)) :=
  match bs with
  | lo :: ((hi1 :: _) as rest) =>
    match interval_node rec rs depth lo (hi1 - 1), build_intervals rec rs depth rest with
    | Some n, Some tl => Some ((hi1 - 1, n) :: tl)
    | _, _ => None
    end
  | _ => Some []
  end.

(* newTree; fuel bounds the depth, exhaustion is an error *)
Fixpoint new_tree (fuel : nat) (rs : list range) (depth : nat) : option (list (byte * tnode)) :=
  match fuel with
  | O => None
  | S fuel =>
    build_intervals (fun child => new_tree fuel child (depth + 1)) rs depth (breaks rs depth)
  end.

(* NewCodec: validity of every range, then the tree (depth at most 4) *)
Definition new_codec_tree (rs : list range) : option (list (byte * tnode)) :=
  if forallb range_valid rs then new_tree 5 rs 0 else None.

(* tree-level decode: (consumed, valid) *)
Fixpoint find_child (b : byte) (cs : list (byte * tnode)) : option tnode :=
  match cs with
  | [] => None
  | (h, n) :: r => if b <=? h then Some n else find_child b r
  end.
Fixpoint tdecode (cs : list (byte * tnode)) (s : list byte) (consumed : nat) {struct s} : (nat * bool) :=
  match s with
  | [] => (consumed, false)
  | b :: s' =>
    match find_child b cs with
    | Some TLeaf => (S consumed, true)
    | Some (TInvalid k) => ((S consumed + Nat.min k (length s'))%nat, false)
    | Some (TSub cc) => tdecode cc s' (S consumed)
    | None => (S consumed, false)       (* unreachable for trees from new_tree: last bound is 255 *)
    end
  end.

(* ---------- descriptors and linearisation ---------- *)
Fixpoint desc_of (t : tnode) : list byte :=
  match t with
  | TInvalid c => [0; N.of_nat c]
  | TLeaf => [1; 2]
  | TSub cs => 1 :: (fix go (cs : list (byte * tnode)) : list byte :=
        match cs with
        | [] => []
        | (h, n) :: r => desc_of n ++ [h] ++ go r
        end) cs ++ [2]
  end.

Record lnode := { bound : byte; child : N }.

Fixpoint lookup_done (d : list byte) (done : list (list byte * N)) : option N :=
  match done with [] => None | (k, v) :: r => if bytes_eqb k d then Some v else lookup_done d r end.
Fixpoint set_nth {A} (n : nat) (x : A) (l : list A) : list A :=
  match n, l with O, _ :: r => x :: r | S n', y :: r => y :: set_nth n' x r | _, [] => [] end.

Definition lin_state := (list lnode * list (list byte * N))%type.

Definition children_of (n : tnode) : list (byte * tnode) :=
  match n with TSub cc => cc | _ => [] end.

(* result of the lineariser: LOverflow = the `overflow` flag is set (NewCodec then returns
   errTooManyNodes), LPanic = panic("unreachable") *)
Inductive lres (A : Type) := LOk (a : A) | LOverflow | LPanic.
Arguments LOk {A} a.
Arguments LOverflow {A}.
Arguments LPanic {A}.

(* linearizer.AppendNodes(t.children) for the node [n]; the result is the uint16 position of
   the group and the new state.  Once the flag is set every pending call returns at once, so
   the flag is modelled as a result that propagates. *)
Fixpoint append_nodes (n : tnode) (st : lin_state) {struct n} : lres (N * lin_state) :=
  let '(nodes, done) := st in
  let base := length nodes in
  (* base+len(bb) > int(invalidConsume3) *)
  if 65532 <? N.of_nat (base + length (children_of n)) then LOverflow else
  let nodes := nodes ++ map (fun p : byte * tnode => {| bound := fst p; child := 0 |}) (children_of n) in
  let final :=
    match n with
    | TSub cs =>
      (fix loop (l : list (byte * tnode)) (i : nat) (st : lin_state) {struct l} : lres lin_state :=
         match l with
         | [] => LOk st
         | (h, c) :: r =>
           let '(nodes, done) := st in
           let d := desc_of c in
           match lookup_done d done with
           | Some idx => loop r (S i) (set_nth (base + i) {| bound := h; child := idx |} nodes, done)
           | None =>
             match append_nodes c (nodes, done) with
             | LOverflow => LOverflow
             | LPanic => LPanic
             | LOk (pos, (nodes, done)) =>
               if (N.to_nat pos <=? base + i)%nat then LPanic
               else loop r (S i) (set_nth (base + i) {| bound := h; child := pos |} nodes, (d, pos) :: done)
             end
           end
         end) cs O (nodes, done)
    | _ => LOk (nodes, done)
    end in
  match final with
  | LOk st => LOk (N.of_nat base mod 65536, st)       (* uint16(base) *)
  | LOverflow => LOverflow
  | LPanic => LPanic
  end.

Definition init_done : list (list byte * N) :=
  [([0;0], 65535); ([0;1], 65534); ([0;2], 65533); ([0;3], 65532); ([1;2], 0)].

Definition linearize (t : list (byte * tnode)) : lres (list lnode) :=
  match append_nodes (TSub t) ([], init_done) with
  | LOk (_, (nodes, _)) => LOk nodes
  | LOverflow => LOverflow
  | LPanic => LPanic
  end.

(* NewCodec: None = an error is returned (invalid range set, a code that is a prefix of another,
   or errTooManyNodes); Some None = panic in the lineariser; Some (Some nodes) = the codec *)
Definition codec (rs : list range) : option (option (list lnode)) :=
  match new_codec_tree rs with
  | Some t =>
    match linearize t with
    | LOk nodes => Some (Some nodes)
    | LOverflow => None
    | LPanic => Some None
    end
  | None => None
  end.

(* ---------- Decode / AppendCode on the linearised nodes ---------- *)

(* `cur++` on the uint16 cursor: 65535 wraps to 0 *)
Definition cur_succ (cur : nat) : nat := N.to_nat (N.of_nat (S cur) mod 65536).

(* inner `for { node = nodes[cur]; if b <= node.bound {break}; cur++ }`;
   None = index out of range (a Go panic); the second component is the index found *)
Fixpoint scan_nodes (fuel : nat) (nodes : list lnode) (cur : nat) (b : byte) : option (lnode * nat) :=
  match fuel with O => None | S fuel =>
  match nth_error nodes cur with
  | None => None
  | Some n => if b <=? bound n then Some (n, cur) else scan_nodes fuel nodes (cur_succ cur) b
  end end.

(* little-endian accumulation of up to k further bytes *)
Fixpoint take_extra (k : nat) (s : list byte) (code : N) (consumed : nat) : N * nat :=
  match k, s with
  | S k', b :: s' => take_extra k' s' (N.lor code (N.shiftl b (8 * N.of_nat consumed))) (S consumed)
  | _, _ => (code, consumed)
  end.

(* result: Some (code, consumed, valid); None = panic or fuel exhausted *)
Fixpoint ldecode (fuel : nat) (nodes : list lnode) (cur : nat) (s : list byte)
         (code : N) (consumed : nat) : option (N * nat * bool) :=
  match fuel with O => None | S fuel =>
  match s with
  | [] => Some (code, consumed, false)
  | b :: s' =>
    let code := N.lor code (N.shiftl b (8 * N.of_nat consumed)) in
    let consumed := S consumed in
    match scan_nodes 257 nodes cur b with
    | None => None
    | Some (n, _) =>
      if child n =? 0 then Some (code, consumed, true)
      else if 65532 <=? child n then
        let '(code, consumed) := take_extra (N.to_nat (65535 - child n)) s' code consumed in
        Some (code, consumed, false)
      else ldecode fuel nodes (N.to_nat (child n)) s' code consumed
    end
  end end.

(* the node index at which each scan of Decode stops (the largest cursor value of that scan) *)
Fixpoint ldecode_idx (fuel : nat) (nodes : list lnode) (cur : nat) (s : list byte) : list nat :=
  match fuel with O => [] | S fuel =>
  match s with
  | [] => []
  | b :: s' =>
    match scan_nodes 257 nodes cur b with
    | None => []
    | Some (n, idx) =>
      if child n =? 0 then [idx]
      else if 65532 <=? child n then [idx]
      else idx :: ldecode_idx fuel nodes (N.to_nat (child n)) s'
    end
  end end.

(* Decode: one iteration of the outer loop per input byte *)
Definition decode (nodes : list lnode) (s : list byte) : option (N * nat * bool) :=
  ldecode (S (length s)) nodes 0 s 0 0.

(* the next k bytes of a code, least significant first *)
Fixpoint code_bytes (code : N) (k : nat) : list byte :=
  match k with
  | O => []
  | S k' => N.land code 255 :: code_bytes (N.shiftr code 8) k'
  end.

Fixpoint lappend (fuel : nat) (nodes : list lnode) (cur : nat) (code : N) (acc : list byte)
  : option (list byte) :=
  match fuel with O => None | S fuel =>
  let b := N.land code 255 in
  let acc := acc ++ [b] in
  let code := N.shiftr code 8 in
  match scan_nodes 257 nodes cur b with
  | None => None
  | Some (n, _) =>
    if child n =? 0 then Some acc
    else if 65532 <=? child n then Some (acc ++ code_bytes code (N.to_nat (65535 - child n)))
    else lappend fuel nodes (N.to_nat (child n)) code acc
  end end.

(* AppendCode: the Go loop has no bound of its own; a code has at most four
   bytes, so five iterations suffice (proved for every validated node array) *)
Definition append_code (nodes : list lnode) (code : N) : option (list byte) :=
  lappend 5 nodes 0 code [].

(* ---------- CodeSpaceRange reported by the codec: walk, then the merge loop ---------- *)
Fixpoint lwalk (fuel : nat) (nodes : list lnode) (cur : nat) (next_low : N) (low high : list byte)
  : option (list range) :=
  match fuel with O => None | S fuel =>
  match nth_error nodes cur with
  | None => None
  | Some n =>
    let low2 := low ++ [next_low] in
    let high2 := high ++ [bound n] in
    let here :=
      if child n =? 0 then Some [(low2, high2)]
      else if 65532 <=? child n then Some []
      else lwalk fuel nodes (N.to_nat (child n)) 0 low2 high2 in
    match here with
    | None => None
    | Some rs =>
      if bound n =? 255 then Some rs
      else match lwalk fuel nodes (cur_succ cur) (bound n + 1) low high with
           | Some rest => Some (rs ++ rest)
           | None => None
           end
    end
  end end.
Definition walk_ranges (nodes : list lnode) : option (list range) :=
  lwalk (5 * 257) nodes 0 0 [] [].

(* ---------- certified validator: the node array realises the tree ---------- *)

(* bounds strictly ascending, the last one 255 *)
Fixpoint group_shape (prev : option N) (cs : list (byte * tnode)) : bool :=
  match cs with
  | [] => match prev with Some p => p =? 255 | None => false end
  | (h, _) :: r =>
    (match prev with Some p => p <? h | None => true end) && (h <? 256) && group_shape (Some h) r
  end.

(* [d] = number of bytes consumed when the node [n] has been selected (0 for the
   root); [c] = the child field that leads to it *)
Fixpoint lin_node (nodes : list lnode) (d : nat) (n : tnode) (c : N) {struct n} : bool :=
  match n with
  | TLeaf => (c =? 0) && (d <=? 4)%nat
  | TInvalid k => (k <=? 3)%nat && (c =? 65535 - N.of_nat k) && (d + k <=? 4)%nat
  | TSub cc =>
    ((c <? 65532) && (c + N.of_nat (length cc) <=? 65532)) && (d <? 4)%nat && group_shape None cc &&
    (match d with O => c =? 0 | S _ => 0 <? c end) &&
    (fix go (cs : list (byte * tnode)) (cur : nat) {struct cs} : bool :=
       match cs with
       | [] => true
       | (h, n') :: r =>
         match nth_error nodes cur with
         | Some ln => (bound ln =? h) && lin_node nodes (S d) n' (child ln) && go r (S cur)
         | None => false
         end
       end) cc (N.to_nat c)
  end.

Definition lin_ok (nodes : list lnode) (t : list (byte * tnode)) : bool :=
  lin_node nodes 0 (TSub t) 0.

(* little-endian value of a byte string, first byte at bit 8*c *)
Fixpoint le_at (c : nat) (s : list byte) : N :=
  match s with
  | [] => 0
  | b :: r => N.lor (N.shiftl b (8 * N.of_nat c)) (le_at (S c) r)
  end.
Definition le_code (s : list byte) : N := le_at 0 s.

(* the ranges of a tree, in the order of walk *)
Fixpoint tree_ranges_node (n : tnode) (low2 high2 : list byte) {struct n} : list range :=
  match n with
  | TLeaf => [(low2, high2)]
  | TInvalid _ => []
  | TSub cc =>
    (fix go (cs : list (byte * tnode)) (next_low : N) {struct cs} : list range :=
       match cs with
       | [] => []
       | (h, n') :: r =>
         tree_ranges_node n' (low2 ++ [next_low]) (high2 ++ [h]) ++
         (if h =? 255 then [] else go r (h + 1))
       end) cc 0
  end.
Definition tree_ranges (t : list (byte * tnode)) : list range := tree_ranges_node (TSub t) [] [].

(* ---------- CodeSpaceRange(): the merge loop after walk ---------- *)

(* canMerge(r, s): same length, equal in every position but at most one, where r ends
   just below the start of s *)
Fixpoint can_merge_loop (rl rh sl sh : list byte) (num_adj : nat) : bool :=
  match rl, rh, sl, sh with
  | a :: rl', b :: rh', c :: sl', d :: sh' =>
    if (a =? c) && (b =? d) then can_merge_loop rl' rh' sl' sh' num_adj
    else if (b + 1 =? c) && Nat.eqb num_adj 0 then can_merge_loop rl' rh' sl' sh' (S num_adj)
    else false
  | _, _, _, _ => true
  end.
Definition can_merge (r s : range) : bool :=
  Nat.eqb (length (fst r)) (length (fst s)) && can_merge_loop (fst r) (snd r) (fst s) (snd s) 0.

(* `for r.Low[pos] == s.Low[pos] && r.High[pos] == s.High[pos] { pos++ }`; None = index out of range *)
Fixpoint merge_pos (rl rh sl sh : list byte) : option nat :=
  match rl, rh, sl, sh with
  | a :: rl', b :: rh', c :: sl', d :: sh' =>
    if (a =? c) && (b =? d) then
      match merge_pos rl' rh' sl' sh' with Some p => Some (S p) | None => None end
    else Some O
  | _, _, _, _ => None
  end.

(* all candidates (pos, i, j), i <> j, in the order of the two nested loops; None = panic *)
Definition merge_candidates (csr : list range) : option (list (nat * nat * nat)) :=
  fold_right (fun (ij : nat * nat) (acc : option (list (nat * nat * nat))) =>
     let '(i, j) := ij in
     match acc, nth_error csr i, nth_error csr j with
     | Some l, Some r, Some s =>
       if negb (Nat.eqb i j) && can_merge r s then
         match merge_pos (fst r) (snd r) (fst s) (snd s) with
         | Some p => Some ((p, i, j) :: l)
         | None => None
         end
       else Some l
     | _, _, _ => None
     end)
    (Some [])
    (list_prod (seq 0 (length csr)) (seq 0 (length csr))).

Definition cand_lt (a b : nat * nat * nat) : bool :=
  let '(p1, i1, j1) := a in
  let '(p2, i2, j2) := b in
  Nat.ltb p1 p2 || (Nat.eqb p1 p2 && (Nat.ltb i1 i2 || (Nat.eqb i1 i2 && Nat.ltb j1 j2))).
(* candidates[0] after sort.Slice by (pos, i, j): the least element (the keys are distinct) *)
Definition least_candidate (l : list (nat * nat * nat)) : option (nat * nat * nat) :=
  match l with
  | [] => None
  | c :: r => Some (fold_left (fun m x => if cand_lt x m then x else m) r c)
  end.

Fixpoint remove_nth {A} (n : nat) (l : list A) : list A :=
  match n, l with
  | O, _ :: r => r
  | S n', x :: r => x :: remove_nth n' r
  | _, [] => []
  end.

(* one round: None = panic, Some None = no candidate left, Some (Some l) = merged *)
Definition merge_step (csr : list range) : option (option (list range)) :=
  match merge_candidates csr with
  | None => None
  | Some cands =>
    match least_candidate cands with
    | None => Some None
    | Some (_, i, j) =>
      match nth_error csr i, nth_error csr j with
      | Some r, Some s => Some (Some (remove_nth j (set_nth i (fst r, snd s) csr)))
      | _, _ => None
      end
    end
  end.

Fixpoint merge_loop (fuel : nat) (csr : list range) : option (list range) :=
  match fuel with
  | O => None
  | S fuel =>
    match merge_step csr with
    | None => None
    | Some None => Some csr
    | Some (Some csr') => merge_loop fuel csr'
    end
  end.

(* Codec.CodeSpaceRange(); every round removes one range, so length+1 rounds suffice *)
Definition code_space_range (nodes : list lnode) : option (list range) :=
  match walk_ranges nodes with
  | Some csr => merge_loop (S (length csr)) csr
  | None => None
  end.
