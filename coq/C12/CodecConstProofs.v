(* C12: the constants the model uses are those of the Go source (translator output). *)
From Coq Require Import List NArith ZArith.
From GoPdf.Base Require Import Bytes.
From GoPdf.Gen Require Gen_C12.
From GoPdf.C12 Require Import Codec.
Import ListNotations.

(* what the model uses: the pre-registered descriptors with their child values, the
   descriptors of the three node kinds, and the threshold Decode/AppendCode/walk test against *)
Definition model_constants : list (list Z * Z) * list (list Z) * Z :=
  (map (fun p : list byte * N => (map Z.of_N (fst p), Z.of_N (snd p))) init_done,
   [map Z.of_N (desc_of TLeaf); map Z.of_N (desc_of (TInvalid 3)); map Z.of_N (desc_of (TSub []))],
   Z.of_N (65535 - 3)).

Definition source_constants : list (list Z * Z) * list (list Z) * Z :=
  let I := Gen_C12.descInvalid in
  ([([I; 0], Gen_C12.invalidConsume0); ([I; 1], Gen_C12.invalidConsume1);
    ([I; 2], Gen_C12.invalidConsume2); ([I; 3], Gen_C12.invalidConsume3);
    ([Gen_C12.descValidBegin; Gen_C12.descValidEnd], Gen_C12.validLeaf)],
   [[Gen_C12.descValidBegin; Gen_C12.descValidEnd]; [I; 3]; [Gen_C12.descValidBegin; Gen_C12.descValidEnd]],
   Gen_C12.invalidConsume3)%Z.

Lemma constants_match_source_lemma : model_constants = source_constants.
Proof. reflexivity. Qed.
