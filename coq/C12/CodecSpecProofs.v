(* C12: one-byte unfolding of the specification spec_decode (no tree involved). *)
From Coq Require Import List Arith NArith Lia Bool ZifyN ZifyNat ZifyBool.
From GoPdf.Base Require Import Bytes.
From GoPdf.C12 Require Import Codec.
Import ListNotations.
Open Scope N_scope.

Definition shape (r : range) : Prop :=
  length (fst r) = length (snd r) /\ (1 <= length (fst r))%nat.
Definition hd_ok (b : byte) (r : range) : bool :=
  (nth 0 (fst r) 0 <=? b) && (b <=? nth 0 (snd r) 0).
Definition rtl (r : range) : range := (tl (fst r), tl (snd r)).
Definition pm (r : range) (s : list byte) : nat := prefix_match (fst r) (snd r) s.

Lemma pm_cons r b s : shape r -> pm r (b :: s) = if hd_ok b r then S (pm (rtl r) s) else O.
Proof.
  destruct r as [[|l lo] [|h hi]]; unfold shape, pm, hd_ok, rtl; cbn [fst snd length tl nth prefix_match];
    intros [H1 H2]; try reflexivity; try lia; try discriminate.
Qed.

Lemma in_range_cons lo hi b s : shape (lo, hi) ->
  in_range lo hi (b :: s) = hd_ok b (lo, hi) && in_range (tl lo) (tl hi) s.
Proof.
  destruct lo as [|l lo]; destruct hi as [|h hi]; unfold shape, hd_ok, rtl; cbn [fst snd length tl nth in_range];
    intros [H1 H2]; try reflexivity; try lia; try discriminate.
Qed.

Lemma shape_length_rtl r : shape r -> length (fst r) = S (length (fst (rtl r))).
Proof.
  destruct r as [[|l lo] hi]; unfold shape, rtl; cbn; intros [H1 H2]; lia.
Qed.

(* ---------- longest prefix ---------- *)
Lemma lp_cons csr b s : Forall shape csr ->
  longest_prefix csr (b :: s) =
  match filter (hd_ok b) csr with
  | [] => O
  | _ => S (longest_prefix (map rtl (filter (hd_ok b) csr)) s)
  end.
Proof.
  induction 1 as [|r csr Hr Hcsr IH]; [reflexivity|].
  unfold longest_prefix in *. cbn [fold_right filter]. fold (pm r (b :: s)).
  rewrite pm_cons by assumption. rewrite IH. clear IH.
  destruct (hd_ok b r).
  - cbn [map fold_right]. fold (pm (rtl r) s).
    destruct (filter (hd_ok b) csr); cbn [map fold_right]; lia.
  - destruct (filter (hd_ok b) csr); cbn; lia.
Qed.

Lemma lp_attained rs s : rs <> [] -> exists r, In r rs /\ pm r s = longest_prefix rs s.
Proof.
  induction rs as [|r rs IH]; [congruence|]. intros _.
  unfold longest_prefix in *. cbn [fold_right]. fold (pm r s).
  destruct rs as [|r' rs'].
  - exists r. split; [left; reflexivity|]. cbn. lia.
  - destruct IH as [x [Hx Hpx]]; [congruence|].
    destruct (Nat.le_gt_cases (pm r s) (fold_right (fun (r0 : range) m => Nat.max (prefix_match (fst r0) (snd r0) s) m) O (r' :: rs'))).
    + exists x. split; [right; assumption|]. lia.
    + exists r. split; [left; reflexivity|]. lia.
Qed.

(* ---------- min_length ---------- *)
Lemma fold_min_shift (l : list range) m :
  Forall shape l ->
  fold_left (fun m (x : range) => Nat.min m (length (fst x))) l (S m) =
  S (fold_left (fun m (x : range) => Nat.min m (length (fst x))) (map rtl l) m).
Proof.
  intro H. revert m. induction H as [|r l Hr Hl IH]; intro m; [reflexivity|].
  cbn [fold_left map]. rewrite (shape_length_rtl r Hr).
  rewrite <- IH. f_equal.
Qed.

Lemma min_length_shift l : Forall shape l -> l <> [] -> min_length l = S (min_length (map rtl l)).
Proof.
  intros H Hne. destruct l as [|r l]; [congruence|]. inversion H; subst.
  unfold min_length. cbn [map]. rewrite (shape_length_rtl r) by assumption.
  apply fold_min_shift. assumption.
Qed.

Lemma fold_min_ge (l : list range) m : Forall shape l -> (1 <= m)%nat ->
  (1 <= fold_left (fun m (x : range) => Nat.min m (length (fst x))) l m)%nat.
Proof.
  intro H. revert m. induction H as [|r l Hr Hl IH]; intros m Hm; [exact Hm|].
  cbn [fold_left]. apply IH. destruct Hr. lia.
Qed.

Lemma min_length_ge1 l : Forall shape l -> (1 <= min_length l)%nat.
Proof.
  destruct l as [|r l]; intro H; [cbn; lia|]. inversion H; subst.
  unfold min_length. apply fold_min_ge; [assumption|]. destruct H2. lia.
Qed.

(* ---------- candidates ---------- *)
Lemma filter_none_all {A} (f g : A -> bool) l :
  filter f l = [] -> (forall x, f x = false -> g x = true) -> filter g l = l.
Proof.
  induction l as [|x l IH]; [reflexivity|]. cbn. destruct (f x) eqn:E; [discriminate|].
  intros H Hg. rewrite (Hg x E). f_equal. apply IH; assumption.
Qed.

Lemma filter_filter_map {A B} (f : A -> bool) (g : A -> bool) (h : B -> bool) (m : A -> B) l :
  (forall x, In x l -> g x = f x && h (m x)) ->
  map m (filter g l) = filter h (map m (filter f l)).
Proof.
  induction l as [|x l IH]; [reflexivity|]. intro H.
  cbn [filter]. rewrite (H x (or_introl eq_refl)).
  destruct (f x); cbn [andb].
  - cbn [map filter]. destruct (h (m x)); cbn [map]; rewrite IH; auto; intros; apply H; right; assumption.
  - apply IH. intros; apply H; right; assumption.
Qed.

Lemma Forall_filter {A} (P : A -> Prop) f l : Forall P l -> Forall P (filter f l).
Proof.
  induction 1; cbn; [constructor|]. destruct (f x); [constructor|]; assumption.
Qed.

Lemma filter_nonempty {A} (f : A -> bool) l x : In x l -> f x = true -> filter f l <> [].
Proof.
  intros Hin Hf Hnil. assert (In x (filter f l)) by (apply filter_In; split; assumption).
  rewrite Hnil in H. destruct H.
Qed.

(* 9.7.6.3 after one byte *)
Lemma spec_consume_cons_none csr b s : Forall shape csr -> filter (hd_ok b) csr = [] ->
  spec_consume csr (b :: s) = Nat.min (min_length csr) (S (length s)).
Proof.
  intros Hs Hnil. unfold spec_consume. rewrite lp_cons, Hnil by assumption. cbn [length].
  f_equal. f_equal.
  rewrite Forall_forall in Hs.
  assert (forall x, In x csr -> hd_ok b x = false).
  { intros x Hx. destruct (hd_ok b x) eqn:E; [|reflexivity].
    exfalso. eapply filter_nonempty; eauto. }
  clear Hnil. induction csr as [|r csr IH]; [reflexivity|].
  cbn [filter]. fold (pm r (b :: s)). rewrite pm_cons by (apply Hs; left; reflexivity).
  rewrite H by (left; reflexivity). cbn [Nat.eqb]. f_equal.
  apply IH; intros; [apply Hs|apply H]; right; assumption.
Qed.

Lemma spec_consume_cons_some csr b s : Forall shape csr -> filter (hd_ok b) csr <> [] ->
  spec_consume csr (b :: s) = S (spec_consume (map rtl (filter (hd_ok b) csr)) s).
Proof.
  intros Hs Hne. unfold spec_consume. rewrite lp_cons by assumption.
  set (cb := filter (hd_ok b) csr) in *.
  destruct cb as [|c0 cb0] eqn:Ecb; [congruence|]. rewrite <- Ecb in *. clear Hne.
  set (best := longest_prefix (map rtl cb) s).
  set (cands' := filter (fun r : range => Nat.eqb (prefix_match (fst r) (snd r) s) best) (map rtl cb)).
  assert (Hc : map rtl (filter (fun r : range => Nat.eqb (prefix_match (fst r) (snd r) (b :: s)) (S best)) csr) = cands').
  { unfold cands', cb. apply filter_filter_map. intros x Hx.
    rewrite Forall_forall in Hs. fold (pm x (b :: s)). rewrite pm_cons by auto.
    fold (pm (rtl x) s). destruct (hd_ok b x); reflexivity. }
  set (cands := filter (fun r : range => Nat.eqb (prefix_match (fst r) (snd r) (b :: s)) (S best)) csr) in *.
  assert (Hcs : Forall shape cands) by (apply Forall_filter; assumption).
  assert (Hcne : cands <> []).
  { intro Hnil. rewrite Hnil in Hc. cbn in Hc.
    destruct (lp_attained (map rtl cb) s) as [x [Hx Hpx]].
    { rewrite Ecb. cbn. congruence. }
    assert (In x cands').
    { unfold cands'. apply filter_In. split; [assumption|]. fold (pm x s). fold best in Hpx. apply Nat.eqb_eq. assumption. }
    rewrite <- Hc in H. destruct H. }
  rewrite (min_length_shift cands Hcs Hcne). rewrite Hc. cbn [length]. lia.
Qed.

(* ---------- match_len ---------- *)
Lemma match_len_cons_none csr b s : Forall shape csr -> filter (hd_ok b) csr = [] ->
  match_len csr (b :: s) = O.
Proof.
  induction 1 as [|r csr Hr Hcsr IH]; [reflexivity|]. cbn [filter match_len].
  destruct r as [lo hi]. rewrite in_range_cons by assumption.
  destruct (hd_ok b (lo, hi)); [discriminate|]. cbn [andb]. assumption.
Qed.

Lemma match_len_cons_leaves csr b s : Forall shape csr -> filter (hd_ok b) csr <> [] ->
  (forall r, In r (filter (hd_ok b) csr) -> length (fst r) = 1%nat) ->
  match_len csr (b :: s) = 1%nat.
Proof.
  induction 1 as [|r csr Hr Hcsr IH]; [cbn; congruence|]. cbn [filter match_len].
  destruct r as [lo hi]. rewrite in_range_cons by assumption.
  destruct (hd_ok b (lo, hi)) eqn:E; cbn [andb].
  - intros _ Hl. specialize (Hl (lo, hi) (or_introl eq_refl)). cbn [fst] in Hl.
    destruct Hr as [H1 H2]. cbn [fst snd] in *.
    destruct lo as [|l [|? ?]]; cbn in Hl; try discriminate.
    destruct hi as [|h [|? ?]]; cbn in H1; try discriminate.
    reflexivity.
  - intros Hne Hl. apply IH; assumption.
Qed.

Lemma match_len_cons_inner csr b s : Forall shape csr ->
  (forall r, In r (filter (hd_ok b) csr) -> (2 <= length (fst r))%nat) ->
  match_len csr (b :: s) =
  match match_len (map rtl (filter (hd_ok b) csr)) s with O => O | S k => S (S k) end.
Proof.
  induction 1 as [|r csr Hr Hcsr IH]; [reflexivity|]. cbn [filter match_len].
  destruct r as [lo hi]. rewrite in_range_cons by assumption.
  destruct (hd_ok b (lo, hi)) eqn:E; cbn [andb].
  - intros Hl. cbn [map]. change (rtl (lo, hi)) with (tl lo, tl hi). cbn [match_len].
    destruct (in_range (tl lo) (tl hi) s).
    + specialize (Hl (lo, hi) (or_introl eq_refl)). cbn [fst] in Hl.
      destruct lo as [|l [|l' lo']]; cbn in Hl; try lia. reflexivity.
    + apply IH. intros; apply Hl; right; assumption.
  - intros Hl. apply IH; assumption.
Qed.

(* ---------- spec_decode after one byte ---------- *)
Lemma spec_decode_cons_none csr b s : Forall shape csr -> filter (hd_ok b) csr = [] ->
  spec_decode csr (b :: s) = (Nat.min (min_length csr) (S (length s)), false).
Proof.
  intros. unfold spec_decode. rewrite match_len_cons_none, spec_consume_cons_none by assumption. reflexivity.
Qed.

Lemma spec_decode_cons_leaves csr b s : Forall shape csr -> filter (hd_ok b) csr <> [] ->
  (forall r, In r (filter (hd_ok b) csr) -> length (fst r) = 1%nat) ->
  spec_decode csr (b :: s) = (1%nat, true).
Proof.
  intros. unfold spec_decode. rewrite match_len_cons_leaves by assumption. reflexivity.
Qed.

Lemma spec_decode_cons_inner csr b s : Forall shape csr -> filter (hd_ok b) csr <> [] ->
  (forall r, In r (filter (hd_ok b) csr) -> (2 <= length (fst r))%nat) ->
  spec_decode csr (b :: s) =
  let '(k, v) := spec_decode (map rtl (filter (hd_ok b) csr)) s in (S k, v).
Proof.
  intros Hs Hne Hl. unfold spec_decode.
  rewrite match_len_cons_inner, spec_consume_cons_some by assumption.
  destruct s as [|b' s'].
  - assert (match_len (map rtl (filter (hd_ok b) csr)) [] = O).
    { assert (Hf : Forall (fun r : range => (1 <= length (fst r))%nat) (map rtl (filter (hd_ok b) csr))).
      { apply Forall_forall. intros x Hx. apply in_map_iff in Hx as [y [<- Hy]].
        specialize (Hl y Hy). destruct y as [[|? ?] ?]; cbn in *; lia. }
      induction Hf as [|[lo hi] l Hx Hf IH]; [reflexivity|]. cbn [match_len fst] in *.
      destruct lo; cbn in Hx; [lia|]. destruct hi; cbn; apply IH. }
    rewrite H.
    unfold spec_consume. cbn [length]. rewrite Nat.min_0_r. reflexivity.
  - destruct (match_len (map rtl (filter (hd_ok b) csr)) (b' :: s')); reflexivity.
Qed.
