(* C12: the tree built by new_tree decodes exactly as the specification says. *)
From Coq Require Import List Arith NArith Lia Bool Sorted ZifyN ZifyNat ZifyBool.
From GoPdf.Base Require Import Bytes.
From GoPdf.C12 Require Import Codec CodecSpecProofs.
Import ListNotations.
Open Scope N_scope.

(* ---------- break points ---------- *)
Definition ssorted := StronglySorted N.lt.

Lemma insert_sorted_in x l y : In y (insert_sorted x l) <-> y = x \/ In y l.
Proof.
  induction l as [|z l IH]; cbn.
  - intuition.
  - destruct (x <? z) eqn:E1; [cbn; intuition|].
    destruct (x =? z) eqn:E2.
    + apply N.eqb_eq in E2. subst. cbn. intuition.
    + cbn. rewrite IH. intuition.
Qed.

Lemma insert_sorted_sorted x l : ssorted l -> ssorted (insert_sorted x l).
Proof.
  induction 1 as [|z l Hs IH Hz]; cbn.
  - repeat constructor.
  - destruct (x <? z) eqn:E1.
    + constructor; [constructor; assumption|]. constructor; [lia|].
      eapply Forall_impl; [|exact Hz]. cbn. intros. lia.
    + destruct (x =? z) eqn:E2; [constructor; assumption|].
      constructor; [assumption|]. apply Forall_forall. intros y Hy.
      apply insert_sorted_in in Hy as [->|Hy]; [lia|].
      rewrite Forall_forall in Hz. auto.
Qed.

Lemma insert_sorted_hd0 x l : hd_error l = Some 0 -> hd_error (insert_sorted x l) = Some 0.
Proof.
  destruct l as [|z l]; cbn; [discriminate|]. intro H; inversion H; subst.
  destruct (x <? 0) eqn:E1; [lia|]. destruct (x =? 0); reflexivity.
Qed.

Definition break_step (depth : nat) (acc : list N) (r : range) : list N :=
  insert_sorted (nth depth (fst r) 0) (insert_sorted (nth depth (snd r) 0 + 1) acc).

Lemma breaks_fold rs d : forall acc, ssorted acc -> hd_error acc = Some 0 ->
  let bs := fold_left (break_step d) rs acc in
  ssorted bs /\ hd_error bs = Some 0 /\ (forall y, In y acc -> In y bs) /\
  (forall r, In r rs -> In (nth d (fst r) 0) bs /\ In (nth d (snd r) 0 + 1) bs).
Proof.
  induction rs as [|r rs IH]; intros acc Hs Hh; cbn [fold_left].
  - split; [assumption|]. split; [assumption|]. split; [auto|]. intros r0 [].
  - destruct (IH (break_step d acc r)) as (H1 & H2 & H3 & H4).
    { unfold break_step. apply insert_sorted_sorted, insert_sorted_sorted, Hs. }
    { unfold break_step. apply insert_sorted_hd0, insert_sorted_hd0, Hh. }
    split; [assumption|]. split; [assumption|]. split.
    + intros y Hy. apply H3. unfold break_step. apply insert_sorted_in. right. apply insert_sorted_in. right. exact Hy.
    + intros r0 [<-|Hr]; [|apply H4; assumption]. split.
      * apply H3. unfold break_step. apply insert_sorted_in. left. reflexivity.
      * apply H3. unfold break_step. apply insert_sorted_in. right. apply insert_sorted_in. left. reflexivity.
Qed.

Lemma breaks_spec rs d :
  let bs := breaks rs d in
  ssorted bs /\ hd_error bs = Some 0 /\ In 256 bs /\
  (forall r, In r rs -> In (nth d (fst r) 0) bs /\ In (nth d (snd r) 0 + 1) bs).
Proof.
  destruct (breaks_fold rs d [0; 256]) as (H1 & H2 & H3 & H4).
  - repeat constructor.
  - reflexivity.
  - cbv zeta. change (breaks rs d) with (fold_left (break_step d) rs [0; 256]).
    split; [assumption|]. split; [assumption|]. split; [apply H3; cbn; auto|exact H4].
Qed.

(* ---------- the interval a byte falls into ---------- *)
Definition adjacent (lo hi1 : N) (bs : list N) : Prop :=
  lo < hi1 /\ forall z, In z bs -> z <= lo \/ hi1 <= z.

Lemma build_intervals_cons rec rs d lo hi1 rest :
  build_intervals rec rs d (lo :: hi1 :: rest) =
  match interval_node rec rs d lo (hi1 - 1), build_intervals rec rs d (hi1 :: rest) with
  | Some n, Some tl => Some ((hi1 - 1, n) :: tl)
  | _, _ => None
  end.
Proof. reflexivity. Qed.

Lemma build_find rec rs d : forall bs t, ssorted bs -> build_intervals rec rs d bs = Some t ->
  forall b x, hd_error bs = Some x -> x <= b -> (exists y, In y bs /\ b < y) ->
  exists lo hi1 n, adjacent lo hi1 bs /\ lo <= b < hi1 /\ find_child b t = Some n /\
                   interval_node rec rs d lo (hi1 - 1) = Some n.
Proof.
  induction bs as [|lo bs IH]; intros t Hs Hb b x Hh Hx [y [Hy Hby]]; [cbn in Hh; discriminate Hh|].
  cbn in Hh. inversion Hh; subst x. clear Hh.
  destruct bs as [|hi1 rest].
  - destruct Hy as [<-|[]]. lia.
  - rewrite build_intervals_cons in Hb.
    destruct (interval_node rec rs d lo (hi1 - 1)) as [n|] eqn:En; [|discriminate].
    destruct (build_intervals rec rs d (hi1 :: rest)) as [tl|] eqn:Et; [|discriminate].
    inversion Hb; subst t. clear Hb.
    inversion Hs as [|? ? Hs' Hlo]; subst.
    assert (Hlt : lo < hi1) by (inversion Hlo; assumption).
    cbn [find_child].
    destruct (b <? hi1) eqn:Eb.
    + exists lo, hi1, n. replace (b <=? hi1 - 1) with true by lia.
      repeat split; auto; try lia.
      intros z [<-|Hz]; [lia|]. right. rewrite Forall_forall in Hlo.
      destruct Hz as [<-|Hz]; [lia|]. inversion Hs' as [|? ? ? Hh1]; subst. rewrite Forall_forall in Hh1.
      specialize (Hh1 z Hz). lia.
    + replace (b <=? hi1 - 1) with false by lia.
      destruct (IH tl Hs' eq_refl b hi1 eq_refl ltac:(lia)) as (lo' & hi' & n' & Hadj & Hr & Hf & Hn).
      { exists y. split; [|assumption]. destruct Hy as [<-|Hy]; [lia|assumption]. }
      exists lo', hi', n'. repeat split; auto; try lia; try apply Hadj.
      intros z [<-|Hz]; [|apply Hadj; assumption].
      left. destruct Hadj as [_ Hadj]. rewrite Forall_forall in Hlo.
      destruct (Hadj hi1 (or_introl eq_refl)); lia.
Qed.

Definition byte_ok (d : nat) (b : byte) (r : range) : bool :=
  (nth d (fst r) 0 <=? b) && (b <=? nth d (snd r) 0).

(* Appendix C: every interval between consecutive break points is homogeneous for every range *)
Lemma homogeneous d lo hi1 bs b (r : range) :
  adjacent lo hi1 bs -> In (nth d (fst r) 0) bs -> In (nth d (snd r) 0 + 1) bs -> lo <= b < hi1 ->
  overlaps d lo (hi1 - 1) r = byte_ok d b r.
Proof.
  intros [Hlt Hadj] H1 H2 Hb. unfold overlaps, byte_ok.
  apply eq_true_iff_eq. rewrite !andb_true_iff, !N.leb_le.
  destruct (Hadj _ H1), (Hadj _ H2); clear Hadj H1 H2; lia.
Qed.

(* ---------- small list facts ---------- *)
Lemma filter_len_le {A} (f : A -> bool) l : (length (filter f l) <= length l)%nat.
Proof. induction l as [|x l IH]; cbn; [lia|]. destruct (f x); cbn; lia. Qed.

Lemma filter_length_all {A} (f : A -> bool) l :
  length (filter f l) = length l <-> (forall x, In x l -> f x = true).
Proof.
  induction l as [|x l IH]; cbn; [intuition|].
  pose proof (filter_len_le f l).
  destruct (f x) eqn:E; cbn.
  - split.
    + intros H0 y [<-|Hy]; [assumption|]. apply IH; [lia|assumption].
    + intros H0. f_equal. apply IH. intros; apply H0; auto.
  - split; [lia|]. intros H0. specialize (H0 x (or_introl eq_refl)). congruence.
Qed.

Lemma filter_length_zero {A} (f : A -> bool) l :
  length (filter f l) = O <-> (forall x, In x l -> f x = false).
Proof.
  induction l as [|x l IH]; cbn; [intuition|].
  destruct (f x) eqn:E; cbn.
  - split; [discriminate|]. intros H0. specialize (H0 x (or_introl eq_refl)). congruence.
  - rewrite IH. split.
    + intros H0 y [<-|Hy]; auto.
    + intros H0 y Hy. apply H0. auto.
Qed.

Lemma filter_map_comm {A B} (f : B -> bool) (g : A -> bool) (m : A -> B) l :
  (forall x, f (m x) = g x) -> filter f (map m l) = map m (filter g l).
Proof.
  intro H. induction l as [|x l IH]; [reflexivity|]. cbn. rewrite H.
  destruct (g x); cbn; rewrite IH; reflexivity.
Qed.

(* ---------- ranges seen from depth d ---------- *)
Definition drop (d : nat) (r : range) : range := (skipn d (fst r), skipn d (snd r)).
Definition shape_d (d : nat) (r : range) : Prop :=
  length (fst r) = length (snd r) /\ (d < length (fst r))%nat.

Lemma shape_drop d r : shape_d d r -> shape (drop d r).
Proof.
  intros [H1 H2]. unfold shape, drop. cbn [fst snd]. rewrite !skipn_length. lia.
Qed.

Lemma nth_skipn {A} d (l : list A) x : nth 0 (skipn d l) x = nth d l x.
Proof.
  revert l. induction d as [|d IH]; intro l; [reflexivity|]. destruct l; [reflexivity|]. cbn. apply IH.
Qed.

Lemma tl_skipn {A} d (l : list A) : tl (skipn d l) = skipn (S d) l.
Proof.
  revert l. induction d as [|d IH]; intro l; [destruct l; reflexivity|].
  destruct l; [reflexivity|]. cbn [skipn]. rewrite IH. reflexivity.
Qed.

Lemma hd_ok_drop d b r : hd_ok b (drop d r) = byte_ok d b r.
Proof. unfold hd_ok, byte_ok, drop. cbn [fst snd]. rewrite !nth_skipn. reflexivity. Qed.

Lemma rtl_drop d r : rtl (drop d r) = drop (S d) r.
Proof. unfold rtl, drop. cbn [fst snd]. rewrite !tl_skipn. reflexivity. Qed.

Lemma drop0 r : drop 0 r = r.
Proof. destruct r; reflexivity. Qed.

Lemma shape_d_mono d d' r : (d' <= d)%nat -> shape_d d r -> shape_d d' r.
Proof. intros H [H1 H2]. split; [assumption|lia]. Qed.

Lemma min_length_drop d : forall rs, Forall (shape_d d) rs -> rs <> [] ->
  min_length rs = (d + min_length (map (drop d) rs))%nat.
Proof.
  induction d as [|d IH]; intros rs Hs Hne.
  - rewrite (map_ext _ (fun r => r) drop0), map_id. reflexivity.
  - rewrite IH; [| eapply Forall_impl; [|exact Hs]; intros; eapply shape_d_mono; [|eassumption]; lia | assumption].
    rewrite (min_length_shift (map (drop d) rs)).
    + rewrite map_map. rewrite (map_ext _ _ (rtl_drop d)). lia.
    + apply Forall_forall. intros x Hx. apply in_map_iff in Hx as [y [<- Hy]].
      apply shape_drop. rewrite Forall_forall in Hs. eapply shape_d_mono; [|apply Hs; assumption]. lia.
    + destruct rs; [congruence|]. cbn. congruence.
Qed.

(* ---------- tree-level decode = specification ---------- *)
Lemma interval_node_empty rec rs d lo hi : filter (overlaps d lo hi) rs = [] ->
  interval_node rec rs d lo hi = Some (TInvalid (min_length rs - (d + 1))).
Proof. unfold interval_node. intros ->. reflexivity. Qed.

Lemma interval_node_nonempty rec rs d lo hi : filter (overlaps d lo hi) rs <> [] ->
  interval_node rec rs d lo hi =
  let child := filter (overlaps d lo hi) rs in
  let nl := length (filter (is_leaf_at d) child) in
  if Nat.eqb nl (length child) then Some TLeaf
  else if Nat.eqb nl 0 then
    match rec child with Some cc => Some (TSub cc) | None => None end
  else None.
Proof. unfold interval_node. destruct (filter (overlaps d lo hi) rs); [congruence|reflexivity]. Qed.

Lemma tdecode_spec_gen : forall fuel rs d t,
  new_tree fuel rs d = Some t -> Forall (shape_d d) rs ->
  forall s, wfbs s = true ->
  tdecode t s d = (let '(k, v) := spec_decode (map (drop d) rs) s in ((d + k)%nat, v)).
Proof.
  induction fuel as [|fuel IH]; intros rs d t Ht Hs s Hwf; [discriminate|].
  cbn [new_tree] in Ht.
  destruct s as [|b s']; [cbn; f_equal; lia|].
  cbn [wfbs forallb] in Hwf. apply andb_true_iff in Hwf as [Hb Hwf']. unfold wfb in Hb.
  destruct (breaks_spec rs d) as (Hsort & Hhd & H256 & Hin).
  destruct (build_find _ rs d _ t Hsort Ht b 0 Hhd ltac:(lia)) as (lo & hi1 & n & Hadj & Hr & Hf & Hn).
  { exists 256. split; [assumption|lia]. }
  cbn [tdecode]. rewrite Hf.
  assert (Hchild : filter (overlaps d lo (hi1 - 1)) rs = filter (byte_ok d b) rs).
  { apply filter_ext_in. intros r Hrin. destruct (Hin r Hrin). eapply homogeneous; eauto. }
  set (child := filter (byte_ok d b) rs) in *.
  set (csr := map (drop d) rs).
  assert (Hshape : Forall shape csr).
  { apply Forall_forall. intros x Hx. apply in_map_iff in Hx as [y [<- Hy]]. apply shape_drop.
    rewrite Forall_forall in Hs. auto. }
  assert (Hcb : filter (hd_ok b) csr = map (drop d) child).
  { unfold csr, child. apply filter_map_comm. intro x. apply hd_ok_drop. }
  assert (Hsub : forall y, In y child -> In y rs).
  { intros y Hy. unfold child in Hy. apply filter_In in Hy. tauto. }
  assert (Hcase : child = [] \/ child <> []) by (destruct child; [left|right]; congruence).
  destruct Hcase as [Echild|Hcne].
  - (* no range continues with b *)
    rewrite interval_node_empty in Hn by (rewrite Hchild; exact Echild).
    inversion Hn; subst n. clear Hn.
    rewrite spec_decode_cons_none by (try assumption; rewrite Hcb, Echild; reflexivity).
    pose proof (min_length_ge1 csr Hshape) as Hge.
    assert (Hml : (min_length rs - (d + 1) = min_length csr - 1)%nat).
    { assert (Hcase : rs = [] \/ rs <> []) by (destruct rs; [left|right]; congruence).
      destruct Hcase as [->|Hne].
      - subst csr. change (min_length []) with 1%nat. change (min_length (map (drop d) [])) with 1%nat. lia.
      - rewrite (min_length_drop d rs Hs Hne). fold csr. lia. }
    rewrite Hml. f_equal. lia.
  - rewrite interval_node_nonempty in Hn by (rewrite Hchild; exact Hcne).
    cbv zeta in Hn. rewrite Hchild in Hn. fold child in Hn.
    assert (Hne : filter (hd_ok b) csr <> []).
    { rewrite Hcb. destruct child; [congruence|]. cbn. congruence. }
    destruct (Nat.eqb (length (filter (is_leaf_at d) child)) (length child)) eqn:E1.
    + (* all ranges end here *)
      inversion Hn; subst n. apply Nat.eqb_eq in E1. rewrite filter_length_all in E1.
      rewrite spec_decode_cons_leaves; try assumption.
      * f_equal. lia.
      * intros r Hrin. rewrite Hcb in Hrin. apply in_map_iff in Hrin as [y [<- Hy]].
        specialize (E1 y Hy). unfold is_leaf_at in E1. apply Nat.eqb_eq in E1.
        unfold drop. cbn [fst]. rewrite skipn_length. lia.
    + destruct (Nat.eqb (length (filter (is_leaf_at d) child)) 0) eqn:E2; [|discriminate Hn].
      destruct (new_tree fuel child (d + 1)) as [cc|] eqn:Ecc; [|discriminate Hn].
      inversion Hn; subst n. apply Nat.eqb_eq in E2. rewrite filter_length_zero in E2.
      assert (Hs' : Forall (shape_d (d + 1)) child).
      { apply Forall_forall. intros y Hy. specialize (E2 y Hy). unfold is_leaf_at in E2. apply Nat.eqb_neq in E2.
        rewrite Forall_forall in Hs. destruct (Hs y (Hsub y Hy)). split; [assumption|lia]. }
      rewrite spec_decode_cons_inner; try assumption.
      * rewrite Hcb, map_map, (map_ext _ _ (rtl_drop d)).
        replace (S d) with (d + 1)%nat by lia.
        rewrite (IH child (d + 1)%nat cc Ecc Hs' s' Hwf').
        destruct (spec_decode (map (drop (d + 1)) child) s'). f_equal. lia.
      * intros r Hrin. rewrite Hcb in Hrin. apply in_map_iff in Hrin as [y [<- Hy]].
        specialize (E2 y Hy). unfold is_leaf_at in E2. apply Nat.eqb_neq in E2.
        rewrite Forall_forall in Hs'. destruct (Hs' y Hy).
        unfold drop. cbn [fst]. rewrite skipn_length. lia.
Qed.

Lemma range_valid_shape r : range_valid r = true -> shape_d 0 r.
Proof.
  unfold range_valid. intro H. repeat (apply andb_true_iff in H as [H ?]).
  apply Nat.eqb_eq in H. apply Nat.ltb_lt in H2. split; assumption.
Qed.

(* C12, first half: the tree decodes exactly as 9.7.6.2 / 9.7.6.3 prescribe *)
Theorem tdecode_spec_lemma : forall csr t,
  new_codec_tree csr = Some t ->
  forall s, wfbs s = true -> tdecode t s 0 = spec_decode csr s.
Proof.
  intros csr t Ht s Hwf. unfold new_codec_tree in Ht.
  destruct (forallb range_valid csr) eqn:Hv; [|discriminate].
  rewrite forallb_forall in Hv.
  rewrite (tdecode_spec_gen 5 csr 0 t Ht) by
    (try assumption; apply Forall_forall; intros; apply range_valid_shape; auto).
  rewrite (map_ext _ (fun r => r) drop0), map_id.
  destruct (spec_decode csr s). reflexivity.
Qed.

