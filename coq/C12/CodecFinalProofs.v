(* C12: the composed statements about a validated codec of an accepted range set. *)
From Coq Require Import List Arith NArith Lia Bool ZifyN ZifyNat ZifyBool.
From GoPdf.Base Require Import Bytes.
From GoPdf.C12 Require Import Codec CodecProofs CodecSpecProofs CodecTreeProofs CodecAcceptProofs
     CodecLinProofs CodecRTProofs CodecWalkProofs CodecTwfProofs CodecLinearizeProofs CodecLinTotalProofs CodecMergeProofs.
Import ListNotations.
Open Scope N_scope.

Lemma match_len_nil csr : forallb range_valid csr = true -> match_len csr [] = O.
Proof.
  induction csr as [|[lo hi] csr IH]; [reflexivity|]. cbn [forallb]. rewrite andb_true_iff. intros [Hv Hr].
  cbn [match_len]. unfold range_valid in Hv. rewrite !andb_true_iff in Hv. destruct Hv as [[[H1 H2] H3] H4].
  cbn [fst snd] in *. apply Nat.ltb_lt in H2. destruct lo; [cbn in H2; lia|]. destruct hi; cbn; apply IH; assumption.
Qed.

Lemma vlen_spec_decode csr s : forallb range_valid csr = true -> vlen (spec_decode csr s) = match_len csr s.
Proof.
  intro Hv. unfold spec_decode. destruct s as [|b s].
  - rewrite match_len_nil by assumption. reflexivity.
  - destruct (match_len csr (b :: s)); reflexivity.
Qed.

(* Decode on a validated node array of an accepted range set follows the specification *)
Theorem decode_spec_validated_lemma : forall csr t nodes,
  new_codec_tree csr = Some t -> lin_ok nodes t = true ->
  forall s, wfbs s = true ->
    decode nodes s = Some (le_code (firstn (fst (spec_decode csr s)) s),
                           fst (spec_decode csr s), snd (spec_decode csr s)).
Proof.
  intros csr t nodes Ht Hl s Hwf.
  destruct (lin_sound_lemma nodes t Hl s Hwf) as [-> _].
  rewrite (tdecode_spec_lemma csr t Ht s Hwf). reflexivity.
Qed.

(* the ranges reported by walk describe exactly the codes of the original range set *)
Theorem csr_equiv_lemma : forall csr t nodes,
  new_codec_tree csr = Some t -> lin_ok nodes t = true ->
  exists wr, walk_ranges nodes = Some wr /\
             forall s, wfbs s = true -> match_len wr s = match_len csr s.
Proof.
  intros csr t nodes Ht Hl. exists (tree_ranges t). split; [apply walk_ranges_tree_lemma; assumption|].
  intros s Hwf. rewrite (tree_ranges_match_lemma nodes t Hl s Hwf).
  rewrite (tdecode_spec_lemma csr t Ht s Hwf).
  apply vlen_spec_decode. apply (accepted_is_prefix_free_lemma csr t Ht).
Qed.

(* consumed bytes of the specification: at least one, never more than available *)
Theorem spec_consumed_bounds_lemma : forall csr t, new_codec_tree csr = Some t ->
  forall s, wfbs s = true -> s <> [] -> (1 <= fst (spec_decode csr s) <= length s)%nat.
Proof.
  intros csr t Ht s Hwf Hne. rewrite <- (tdecode_spec_lemma csr t Ht s Hwf).
  pose proof (tdecode_bounds t s 0 Hne). lia.
Qed.

(* the property for Decode, for every codec NewCodec builds *)
Theorem decode_spec_lemma : forall csr nodes,
  codec csr = Some (Some nodes) ->
  forall s, wfbs s = true ->
    decode nodes s = Some (le_code (firstn (fst (spec_decode csr s)) s),
                           fst (spec_decode csr s), snd (spec_decode csr s)).
Proof.
  intros csr nodes H. destruct (codec_validated_lemma csr nodes H) as (t & Ht & Hl).
  apply (decode_spec_validated_lemma csr t nodes Ht Hl).
Qed.

(* CodeSpaceRange() = walk followed by the merge loop: it neither panics nor runs out of
   rounds, and the merged ranges describe exactly the codes of the original range set *)
Theorem code_space_range_equiv_lemma : forall csr t nodes,
  new_codec_tree csr = Some t -> lin_ok nodes t = true ->
  exists rep, code_space_range nodes = Some rep /\
              forall s, wfbs s = true -> match_len rep s = match_len csr s.
Proof.
  intros csr t nodes Ht Hl.
  destruct (csr_equiv_lemma csr t nodes Ht Hl) as (wr & Hwalk & Heq).
  rewrite (walk_ranges_tree_lemma nodes t Hl) in Hwalk. inversion Hwalk; subst wr. clear Hwalk.
  pose proof (tree_ranges_minv t (new_codec_tree_twf csr t Ht)) as Hinv.
  destruct (merge_loop_ok (S (length (tree_ranges t))) (tree_ranges t) Hinv ltac:(lia)) as (rep & Hm & Hinv' & Hsem).
  exists rep. unfold code_space_range. rewrite (walk_ranges_tree_lemma nodes t Hl). split; [exact Hm|].
  intros s Hwf. rewrite <- (Heq s Hwf).
  apply sem_equiv_match_len; [apply Hinv'|apply Hinv|exact Hsem].
Qed.

(* NewCodec (model: codec) is total and never panics: it returns an error or a validated codec *)
Theorem codec_total_lemma : forall csr,
  codec csr = None \/
  exists nodes t, codec csr = Some (Some nodes) /\ new_codec_tree csr = Some t /\ lin_ok nodes t = true.
Proof.
  intro csr. unfold codec. destruct (new_codec_tree csr) as [t|] eqn:Et; [|left; reflexivity].
  destruct (linearize t) as [nodes| |] eqn:El.
  - right. exists nodes, t. split; [reflexivity|]. split; [reflexivity|]. eapply linearize_ok_lemma; eassumption.
  - left. reflexivity.
  - exfalso. exact (linearize_never_panics_lemma t El).
Qed.

(* an accepted range set whose tree has at most 65532 nodes, counted without sharing, is not
   rejected for its size *)
Theorem codec_accepts_small_lemma : forall csr t,
  new_codec_tree csr = Some t -> N.of_nat (tsize (TSub t)) <= 65532 ->
  exists nodes, codec csr = Some (Some nodes) /\ lin_ok nodes t = true.
Proof.
  intros csr t Ht Hb. destruct (linearize_small_lemma t Hb) as (nodes & Hl).
  exists nodes. unfold codec. rewrite Ht, Hl. split; [reflexivity|].
  eapply linearize_ok_lemma; eassumption.
Qed.
