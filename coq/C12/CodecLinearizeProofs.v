(* C12: the lineariser (AppendNodes with its `done` map of shared subtrees) produces a node
   array that passes the validator lin_ok, for every tree of new_codec_tree. *)
From Coq Require Import List Arith NArith Lia Bool ZifyN ZifyNat ZifyBool.
From GoPdf.Base Require Import Bytes.
From GoPdf.C12 Require Import Codec CodecProofs CodecLinProofs CodecWalkProofs CodecTwfProofs.
Import ListNotations.
Open Scope N_scope.

(* ---------- the loop of append_nodes as a function of its own ---------- *)
Definition placeholder (p : byte * tnode) : lnode := {| bound := fst p; child := 0 |}.

Definition app_loop (rec : tnode -> lin_state -> lres (N * lin_state)) (base : nat) :=
  fix loop (l : list (byte * tnode)) (i : nat) (st : lin_state) {struct l} : lres lin_state :=
    match l with
    | [] => LOk st
    | (h, c) :: r =>
      let '(nodes, done) := st in
      let d := desc_of c in
      match lookup_done d done with
      | Some idx => loop r (S i) (set_nth (base + i) {| bound := h; child := idx |} nodes, done)
      | None =>
        match rec c (nodes, done) with
        | LOverflow => LOverflow
        | LPanic => LPanic
        | LOk (pos, (nodes, done)) =>
          if (N.to_nat pos <=? base + i)%nat then LPanic
          else loop r (S i) (set_nth (base + i) {| bound := h; child := pos |} nodes, (d, pos) :: done)
        end
      end
    end.

Lemma append_nodes_sub cs nodes done :
  append_nodes (TSub cs) (nodes, done) =
  if 65532 <? N.of_nat (length nodes + length cs) then LOverflow else
  match app_loop append_nodes (length nodes) cs 0 (nodes ++ map placeholder cs, done) with
  | LOk st => LOk (N.of_nat (length nodes) mod 65536, st)
  | LOverflow => LOverflow
  | LPanic => LPanic
  end.
Proof. reflexivity. Qed.

Lemma append_nodes_leaf nodes done :
  append_nodes TLeaf (nodes, done) =
  if 65532 <? N.of_nat (length nodes + 0) then LOverflow
  else LOk (N.of_nat (length nodes) mod 65536, (nodes ++ [], done)).
Proof. reflexivity. Qed.

Lemma append_nodes_invalid k nodes done :
  append_nodes (TInvalid k) (nodes, done) =
  if 65532 <? N.of_nat (length nodes + 0) then LOverflow
  else LOk (N.of_nat (length nodes) mod 65536, (nodes ++ [], done)).
Proof. reflexivity. Qed.

Lemma app_loop_cons rec base h c r i nodes done :
  app_loop rec base ((h, c) :: r) i (nodes, done) =
  match lookup_done (desc_of c) done with
  | Some idx => app_loop rec base r (S i) (set_nth (base + i) {| bound := h; child := idx |} nodes, done)
  | None =>
    match rec c (nodes, done) with
    | LOverflow => LOverflow
    | LPanic => LPanic
    | LOk (pos, (nodes2, done2)) =>
      if (N.to_nat pos <=? base + i)%nat then LPanic
      else app_loop rec base r (S i)
             (set_nth (base + i) {| bound := h; child := pos |} nodes2, (desc_of c, pos) :: done2)
    end
  end.
Proof. reflexivity. Qed.

(* ---------- set_nth / nth_error ---------- *)
Lemma set_nth_length {A} (x : A) : forall i l, length (set_nth i x l) = length l.
Proof. induction i as [|i IH]; intros [|y l]; cbn; auto. Qed.

Lemma set_nth_eq {A} (x : A) : forall i l, (i < length l)%nat -> nth_error (set_nth i x l) i = Some x.
Proof.
  induction i as [|i IH]; intros [|y l] H; cbn in *; try lia; [reflexivity|]. apply IH. lia.
Qed.

Lemma set_nth_neq {A} (x : A) : forall i l j, j <> i -> nth_error (set_nth i x l) j = nth_error l j.
Proof.
  induction i as [|i IH]; intros [|y l] j H; cbn; try reflexivity.
  - destruct j; [congruence|reflexivity].
  - destruct j; [reflexivity|]. cbn. apply IH. congruence.
Qed.

(* ---------- the validator with a ghost bitmap of finalised slots ---------- *)
Fixpoint Ok (fin : list bool) (nodes : list lnode) (d : nat) (n : tnode) (c : N) {struct n} : Prop :=
  match n with
  | TLeaf => c = 0 /\ (d <= 4)%nat
  | TInvalid k => (k <= 3)%nat /\ c = 65535 - N.of_nat k /\ (d + k <= 4)%nat
  | TSub cc =>
    (c < 65532 /\ c + N.of_nat (length cc) <= 65532) /\ (d < 4)%nat /\ group_shape None cc = true /\
    match d with O => c = 0 | S _ => 0 < c end /\
    (fix go (cs : list (byte * tnode)) (cur : nat) {struct cs} : Prop :=
       match cs with
       | [] => True
       | (h, n') :: r =>
         (exists ln, nth_error nodes cur = Some ln /\ nth_error fin cur = Some true /\
                     bound ln = h /\ Ok fin nodes (S d) n' (child ln)) /\ go r (S cur)
       end) cc (N.to_nat c)
  end.

Definition OkG (fin : list bool) (nodes : list lnode) (d : nat) :=
  fix go (cs : list (byte * tnode)) (cur : nat) {struct cs} : Prop :=
    match cs with
    | [] => True
    | (h, n') :: r =>
      (exists ln, nth_error nodes cur = Some ln /\ nth_error fin cur = Some true /\
                  bound ln = h /\ Ok fin nodes (S d) n' (child ln)) /\ go r (S cur)
    end.

Lemma Ok_sub fin nodes d cc c :
  Ok fin nodes d (TSub cc) c =
  ((c < 65532 /\ c + N.of_nat (length cc) <= 65532) /\ (d < 4)%nat /\ group_shape None cc = true /\
   match d with O => c = 0 | S _ => 0 < c end /\ OkG fin nodes d cc (N.to_nat c)).
Proof. reflexivity. Qed.

Lemma OkG_cons fin nodes d h n' r cur :
  OkG fin nodes d ((h, n') :: r) cur =
  ((exists ln, nth_error nodes cur = Some ln /\ nth_error fin cur = Some true /\
               bound ln = h /\ Ok fin nodes (S d) n' (child ln)) /\ OkG fin nodes d r (S cur)).
Proof. reflexivity. Qed.

Lemma Ok_lin fin nodes : forall n d c, Ok fin nodes d n c -> lin_node nodes d n c = true.
Proof.
  induction n as [k| |cc IH] using tnode_ind2; intros d c H.
  - destruct H as (H1 & H2 & H3). rewrite lin_node_invalid, !andb_true_iff.
    repeat split; [apply Nat.leb_le|apply N.eqb_eq|apply Nat.leb_le]; assumption.
  - destruct H as (H1 & H2). rewrite lin_node_leaf, andb_true_iff.
    split; [apply N.eqb_eq|apply Nat.leb_le]; assumption.
  - rewrite Ok_sub in H. destruct H as (H1 & H2 & H3 & H4 & H5).
    rewrite lin_node_sub, !andb_true_iff. destruct H1 as [H1a H1b]. repeat split.
    + apply N.ltb_lt; assumption.
    + apply N.leb_le; assumption.
    + apply Nat.ltb_lt; assumption.
    + assumption.
    + destruct d; [apply N.eqb_eq|apply N.ltb_lt]; assumption.
    + generalize dependent (N.to_nat c). clear H1a H1b H3 H4.
      induction IH as [|[h n'] r Hn' Hr IHr]; intros cur H5; [reflexivity|].
      rewrite OkG_cons in H5. destruct H5 as [(ln & E1 & E2 & E3 & E4) H6].
      rewrite lin_group_cons, E1, !andb_true_iff. repeat split.
      * apply N.eqb_eq; assumption.
      * apply Hn'. assumption.
      * apply IHr. assumption.
Qed.

Definition ext (nodes : list lnode) (fin : list bool) (nodes' : list lnode) (fin' : list bool) : Prop :=
  forall j, nth_error fin j = Some true ->
            nth_error fin' j = Some true /\ nth_error nodes' j = nth_error nodes j.

Lemma ext_refl nodes fin : ext nodes fin nodes fin.
Proof. intros j H. auto. Qed.

Lemma ext_trans n1 f1 n2 f2 n3 f3 : ext n1 f1 n2 f2 -> ext n2 f2 n3 f3 -> ext n1 f1 n3 f3.
Proof.
  intros H12 H23 j H. destruct (H12 j H) as [Ha Hb]. destruct (H23 j Ha) as [Hc Hd].
  split; [assumption|congruence].
Qed.

Lemma Ok_mono fin nodes fin' nodes' : ext nodes fin nodes' fin' ->
  forall n d c, Ok fin nodes d n c -> Ok fin' nodes' d n c.
Proof.
  intro Hext. induction n as [k| |cc IH] using tnode_ind2; intros d c H; [exact H|exact H|].
  rewrite Ok_sub in *. destruct H as ([H1a H1b] & H2 & H3 & H4 & H5). repeat split; try assumption.
  generalize dependent (N.to_nat c). clear H1a H1b H3 H4.
  induction IH as [|[h n'] r Hn' Hr IHr]; intros cur H5; [exact I|].
  rewrite OkG_cons in *. destruct H5 as [(ln & E1 & E2 & E3 & E4) H6].
  destruct (Hext cur E2) as [Ha Hb]. split; [|apply IHr; assumption].
  exists ln. repeat split; try assumption; [congruence|]. apply Hn'. assumption.
Qed.

Lemma OkG_mono fin nodes fin' nodes' : ext nodes fin nodes' fin' ->
  forall d cc cur, OkG fin nodes d cc cur -> OkG fin' nodes' d cc cur.
Proof.
  intros Hext d. induction cc as [|[h n'] r IH]; intros cur H; [exact I|].
  rewrite OkG_cons in *. destruct H as [(ln & E1 & E2 & E3 & E4) H6].
  destruct (Hext cur E2) as [Ha Hb]. split; [|apply IH; assumption].
  exists ln. repeat split; try assumption; [congruence|]. eapply Ok_mono; eassumption.
Qed.

(* ---------- lengths only grow; a successful call passed the size guard ---------- *)
Lemma append_len : forall n nodes done pos nodes' done',
  append_nodes n (nodes, done) = LOk (pos, (nodes', done')) ->
  (length nodes + length (children_of n) <= length nodes')%nat /\
  N.of_nat (length nodes + length (children_of n)) <= 65532 /\ pos = N.of_nat (length nodes).
Proof.
  induction n as [k| |cs IH] using tnode_ind2; intros nodes done pos nodes' done' H.
  - rewrite append_nodes_invalid in H. destruct (65532 <? N.of_nat (length nodes + 0)) eqn:G; [discriminate|].
    inversion H; subst. rewrite app_length. cbn [children_of length].
    split; [lia|]. split; [lia|]. apply N.mod_small. lia.
  - rewrite append_nodes_leaf in H. destruct (65532 <? N.of_nat (length nodes + 0)) eqn:G; [discriminate|].
    inversion H; subst. rewrite app_length. cbn [children_of length].
    split; [lia|]. split; [lia|]. apply N.mod_small. lia.
  - rewrite append_nodes_sub in H. destruct (65532 <? N.of_nat (length nodes + length cs)) eqn:G; [discriminate|].
    destruct (app_loop append_nodes (length nodes) cs 0 (nodes ++ map placeholder cs, done)) as [[n2 d2]| |] eqn:E; try discriminate.
    inversion H; subst. clear H. cbn [children_of].
    assert (Hl : forall l i nd dn nd' dn', Forall (fun p : byte * tnode =>
                forall nodes done pos nodes' done', append_nodes (snd p) (nodes, done) = LOk (pos, (nodes', done')) ->
                  (length nodes + length (children_of (snd p)) <= length nodes')%nat /\
                  N.of_nat (length nodes + length (children_of (snd p))) <= 65532 /\ pos = N.of_nat (length nodes)) l ->
              app_loop append_nodes (length nodes) l i (nd, dn) = LOk (nd', dn') -> (length nd <= length nd')%nat).
    { induction l as [|[h c] r IHr]; intros i nd dn nd' dn' HF Hl.
      - cbn in Hl. inversion Hl; subst. lia.
      - inversion HF as [|? ? Hc HFr]; subst. cbn [snd] in Hc.
        rewrite app_loop_cons in Hl. destruct (lookup_done (desc_of c) dn) as [idx|].
        + apply IHr in Hl; [|assumption]. rewrite set_nth_length in Hl. assumption.
        + destruct (append_nodes c (nd, dn)) as [[pos2 [nd2 dn2]]| |] eqn:Ec; try discriminate.
          destruct (N.to_nat pos2 <=? length nodes + i)%nat; [discriminate|].
          apply IHr in Hl; [|assumption]. rewrite set_nth_length in Hl. apply Hc in Ec. lia. }
    apply (Hl cs 0%nat _ _ _ _ IH) in E. rewrite app_length, map_length in E.
    split; [lia|]. split; [lia|]. apply N.mod_small. lia.
Qed.

Lemma app_loop_len base : forall l i nd dn nd' dn',
  app_loop append_nodes base l i (nd, dn) = LOk (nd', dn') -> (length nd <= length nd')%nat.
Proof.
  induction l as [|[h c] r IHr]; intros i nd dn nd' dn' Hl.
  - cbn in Hl. inversion Hl; subst. lia.
  - rewrite app_loop_cons in Hl. destruct (lookup_done (desc_of c) dn) as [idx|].
    + apply IHr in Hl. rewrite set_nth_length in Hl. assumption.
    + destruct (append_nodes c (nd, dn)) as [[pos2 [nd2 dn2]]| |] eqn:Ec; try discriminate.
      destruct (N.to_nat pos2 <=? base + i)%nat; [discriminate|].
      apply IHr in Hl. rewrite set_nth_length in Hl. apply append_len in Ec. lia.
Qed.

(* ---------- the invariant of the `done` map ---------- *)
Definition DoneInv (fin : list bool) (nodes : list lnode) (done : list (list byte * N)) : Prop :=
  (forall k v, lookup_done k init_done = Some v -> lookup_done k done <> None) /\
  (forall dsc idx, lookup_done dsc done = Some idx ->
     forall n d, Twf (S d) n -> desc_of n = dsc -> Ok fin nodes (S d) n idx).

Lemma lookup_done_cons d k v r :
  lookup_done d ((k, v) :: r) = if bytes_eqb k d then Some v else lookup_done d r.
Proof. reflexivity. Qed.

Lemma DoneInv_mono fin nodes fin' nodes' done :
  ext nodes fin nodes' fin' -> DoneInv fin nodes done -> DoneInv fin' nodes' done.
Proof.
  intros Hext [H1 H2]. split; [assumption|]. intros dsc idx Hl n d Hw Hd.
  eapply Ok_mono; [eassumption|]. eapply H2; eassumption.
Qed.

Lemma Twf_not_sub_in_init d n : Twf d n -> (forall cc, n <> TSub cc) ->
  exists v, lookup_done (desc_of n) init_done = Some v.
Proof.
  intros H Hns. inversion H; subst.
  - eexists. reflexivity.
  - destruct k as [|[|[|[|k]]]]; try lia; eexists; reflexivity.
  - exfalso. eapply Hns. reflexivity.
Qed.

Lemma DoneInv_init fin nodes : DoneInv fin nodes init_done.
Proof.
  split; [intros k v H; congruence|].
  intros dsc idx Hl n d Hw Hd. subst dsc.
  destruct n as [k| |cs].
  - inversion Hw; subst.
    destruct k as [|[|[|[|k]]]]; try lia; cbn in Hl; inversion Hl; subst; cbn; repeat split; lia.
  - inversion Hw; subst. cbn in Hl. inversion Hl; subst. cbn. split; [reflexivity|assumption].
  - exfalso. apply Twf_sub_inv in Hw as [Hsh _].
    destruct cs as [|[h n] c2]; [discriminate Hsh|].
    rewrite desc_of_sub, desc_items_cons in Hl. destruct (desc_head n) as (x & rest & Ex & Hx). rewrite Ex in Hl.
    destruct Hx as [-> | ->]; cbn in Hl.
    + discriminate.
    + destruct rest as [|y rest'].
      * (* desc_of n = [1]: impossible, every descriptor has at least two bytes *)
        destruct n as [k| |cs']; [discriminate Ex|discriminate Ex|].
        rewrite desc_of_sub in Ex. inversion Ex as [E0]. destruct (desc_items cs'); discriminate E0.
      * cbn in Hl. destruct (2 =? y); cbn in Hl; discriminate.
Qed.

(* ---------- the loop ---------- *)
Definition child_spec (c : tnode) : Prop :=
  forall nodes done fin d0 pos nodes' done',
    length fin = length nodes -> DoneInv fin nodes done -> Twf d0 c ->
    append_nodes c (nodes, done) = LOk (pos, (nodes', done')) ->
    exists fin', length fin' = length nodes' /\ ext nodes fin nodes' fin' /\
      (forall j, (j < length nodes)%nat -> nth_error nodes' j = nth_error nodes j /\ nth_error fin' j = nth_error fin j) /\
      (forall j, (length nodes <= j < length nodes')%nat -> nth_error fin' j = Some true) /\
      DoneInv fin' nodes' done' /\ pos = N.of_nat (length nodes) /\
      (forall d', Twf d' c -> OkG fin' nodes' d' (children_of c) (length nodes)).

Lemma loop_ok base : forall l, Forall (fun p : byte * tnode => child_spec (snd p)) l ->
  forall i nodes done fin d0 nodes' done',
    length fin = length nodes -> DoneInv fin nodes done ->
    (base + i + length l <= length nodes)%nat ->
    (forall j, (base + i <= j < base + i + length l)%nat -> nth_error fin j = Some false) ->
    (forall j, (base + i + length l <= j < length nodes)%nat -> nth_error fin j = Some true) ->
    Forall (fun p : byte * tnode => Twf (S d0) (snd p)) l ->
    app_loop append_nodes base l i (nodes, done) = LOk (nodes', done') ->
    exists fin', length fin' = length nodes' /\ ext nodes fin nodes' fin' /\
      (forall j, (j < base + i)%nat -> nth_error nodes' j = nth_error nodes j /\ nth_error fin' j = nth_error fin j) /\
      (forall j, (base + i <= j < length nodes')%nat -> nth_error fin' j = Some true) /\
      DoneInv fin' nodes' done' /\
      (forall d', Forall (fun p : byte * tnode => Twf (S d') (snd p)) l -> OkG fin' nodes' d' l (base + i)).
Proof.
  induction l as [|[h c] r IHr]; intros HF i nodes done fin d0 nodes' done' Hlen Hinv Hb Hpend Hfin Hw Hloop.
  - cbn in Hloop. inversion Hloop; subst nodes' done'. exists fin.
    split; [assumption|]. split; [apply ext_refl|]. split; [auto|]. split.
    + intros j Hj. apply Hfin. cbn [length]. lia.
    + split; [assumption|]. intros; exact I.
  - inversion HF as [|? ? Hc HFr]; subst. cbn [snd] in Hc.
    inversion Hw as [|? ? Hwc Hwr]; subst. cbn [snd] in Hwc.
    cbn [length] in Hb, Hpend, Hfin.
    assert (Hslot : nth_error fin (base + i) = Some false) by (apply Hpend; lia).
    rewrite app_loop_cons in Hloop.
    destruct (lookup_done (desc_of c) done) as [idx|] eqn:Elook.
    + (* shared subtree *)
      set (nodes1 := set_nth (base + i) {| bound := h; child := idx |} nodes) in *.
      set (fin1 := set_nth (base + i) true fin).
      assert (Hext1 : ext nodes fin nodes1 fin1).
      { intros j Hj. assert (j <> (base + i)%nat) by (intro; subst; congruence).
        unfold nodes1, fin1. rewrite !set_nth_neq by assumption. auto. }
      destruct (IHr HFr (S i) nodes1 done fin1 d0 nodes' done') as (fin' & L' & E' & P' & F' & D' & G'); try assumption.
      * unfold nodes1, fin1. rewrite !set_nth_length. assumption.
      * eapply DoneInv_mono; eassumption.
      * unfold nodes1. rewrite set_nth_length. lia.
      * intros j Hj. unfold fin1. rewrite set_nth_neq by lia. apply Hpend. lia.
      * intros j Hj. unfold nodes1 in Hj. rewrite set_nth_length in Hj. unfold fin1. rewrite set_nth_neq by lia. apply Hfin. lia.
      * exists fin'. split; [assumption|]. split; [exact (ext_trans _ _ _ _ _ _ Hext1 E')|]. split; [|split; [|split]].
        -- intros j Hj. destruct (P' j ltac:(lia)) as [Pa Pb]. unfold nodes1 in Pa. unfold fin1 in Pb.
           rewrite set_nth_neq in Pa by lia. rewrite set_nth_neq in Pb by lia. auto.
        -- intros j Hj. destruct (Nat.eq_dec j (base + i)) as [->|Hne]; [|apply F'; lia].
           destruct (P' (base + i)%nat ltac:(lia)) as [_ Pb]. rewrite Pb. unfold fin1. apply set_nth_eq. lia.
        -- assumption.
        -- intros d' Hw'. pose proof (Forall_inv Hw') as Hwc'. pose proof (Forall_inv_tail Hw') as Hwr'. cbn [snd] in Hwc'.
           rewrite OkG_cons. split.
           ++ exists {| bound := h; child := idx |}.
              destruct (P' (base + i)%nat ltac:(lia)) as [Pa Pb].
              split; [rewrite Pa; unfold nodes1; apply set_nth_eq; lia|].
              split; [rewrite Pb; unfold fin1; apply set_nth_eq; lia|].
              split; [reflexivity|]. cbn [child].
              eapply Ok_mono; [exact (ext_trans _ _ _ _ _ _ Hext1 E')|].
              destruct Hinv as [_ Hinv2]. eapply Hinv2; eauto.
           ++ replace (S (base + i)) with (base + S i)%nat by lia. apply G'. assumption.
    + (* a new subtree is appended *)
      destruct (append_nodes c (nodes, done)) as [[pos [nodes2 done2]]| |] eqn:Ec; try discriminate.
      destruct (N.to_nat pos <=? base + i)%nat eqn:Epanic; [discriminate|].
      pose proof (app_loop_len _ _ _ _ _ _ _ Hloop) as Hlen3. rewrite set_nth_length in Hlen3.
      destruct (Hc nodes done fin (S d0) pos nodes2 done2 Hlen Hinv Hwc Ec)
        as (fin2 & L2 & E2 & P2 & F2 & D2 & Hpos & G2).
      destruct (append_len _ _ _ _ _ _ Ec) as (Hlen2 & Hguard & _).
      assert (Hsub : exists cc', c = TSub cc').
      { destruct c as [k| |cc']; [| |eauto]; exfalso.
        - destruct (Twf_not_sub_in_init _ _ Hwc ltac:(congruence)) as [v Hv].
          destruct Hinv as [Hinv1 _]. apply (Hinv1 _ _ Hv). exact Elook.
        - destruct (Twf_not_sub_in_init _ _ Hwc ltac:(congruence)) as [v Hv].
          destruct Hinv as [Hinv1 _]. apply (Hinv1 _ _ Hv). exact Elook. }
      destruct Hsub as [cc' ->]. cbn [children_of] in *.
      set (nodes3 := set_nth (base + i) {| bound := h; child := pos |} nodes2) in *.
      set (fin3 := set_nth (base + i) true fin2).
      assert (Hslot2 : nth_error fin2 (base + i) = Some false).
      { destruct (P2 (base + i)%nat ltac:(lia)) as [_ Pb]. rewrite Pb. assumption. }
      assert (Hext3 : ext nodes2 fin2 nodes3 fin3).
      { intros j Hj. assert (j <> (base + i)%nat) by (intro; subst; congruence).
        unfold nodes3, fin3. rewrite !set_nth_neq by assumption. auto. }
      assert (Hnew : forall d, Twf (S d) (TSub cc') -> Ok fin3 nodes3 (S d) (TSub cc') pos).
      { intros d Hwd. rewrite Ok_sub. inversion Hwd; subst.
        assert (Hcc : (1 <= length cc')%nat) by (destruct cc'; [discriminate|cbn; lia]).
        split; [lia|]. split; [assumption|]. split; [assumption|]. split; [lia|].
        rewrite Nat2N.id. eapply OkG_mono; [exact Hext3|]. apply G2. assumption. }
      assert (Hinv3 : DoneInv fin3 nodes3 ((desc_of (TSub cc'), pos) :: done2)).
      { destruct D2 as [D2a D2b]. split.
        - intros k v Hk. rewrite lookup_done_cons. destruct (bytes_eqb (desc_of (TSub cc')) k); [discriminate|].
          eapply D2a; eassumption.
        - intros dsc idx Hl n d Hwn Hdn. rewrite lookup_done_cons in Hl.
          destruct (bytes_eqb (desc_of (TSub cc')) dsc) eqn:Eb.
          + inversion Hl; subst idx. apply bytes_eqb_eq in Eb. subst dsc.
            destruct (desc_inj n (TSub cc') (S d) (S d0) [] [] Hwn Hwc) as [-> _]; [rewrite !app_nil_r; assumption|].
            apply Hnew. assumption.
          + eapply Ok_mono; [exact Hext3|]. eapply D2b; eassumption. }
      destruct (IHr HFr (S i) nodes3 ((desc_of (TSub cc'), pos) :: done2) fin3 d0 nodes' done')
        as (fin' & L' & E' & P' & F' & D' & G'); try assumption.
      * unfold nodes3, fin3. rewrite !set_nth_length. assumption.
      * unfold nodes3. rewrite set_nth_length. lia.
      * intros j Hj. unfold fin3. rewrite set_nth_neq by lia.
        destruct (P2 j ltac:(lia)) as [_ Pb]. rewrite Pb. apply Hpend. lia.
      * intros j Hj. unfold nodes3 in Hj. rewrite set_nth_length in Hj. unfold fin3. rewrite set_nth_neq by lia.
        destruct (Nat.lt_ge_cases j (length nodes)) as [Hjl|Hjl].
        -- destruct (P2 j Hjl) as [_ Pb]. rewrite Pb. apply Hfin. lia.
        -- apply F2. lia.
      * exists fin'. split; [assumption|].
        split; [exact (ext_trans _ _ _ _ _ _ E2 (ext_trans _ _ _ _ _ _ Hext3 E'))|]. split; [|split; [|split]].
        -- intros j Hj. destruct (P' j ltac:(lia)) as [Pa Pb]. unfold nodes3 in Pa. unfold fin3 in Pb.
           rewrite set_nth_neq in Pa by lia. rewrite set_nth_neq in Pb by lia. destruct (P2 j ltac:(lia)) as [Pc Pd]. split; congruence.
        -- intros j Hj. destruct (Nat.eq_dec j (base + i)) as [->|Hne]; [|apply F'; lia].
           destruct (P' (base + i)%nat ltac:(lia)) as [_ Pb]. rewrite Pb. unfold fin3. apply set_nth_eq. lia.
        -- assumption.
        -- intros d' Hw'. pose proof (Forall_inv Hw') as Hwc'. pose proof (Forall_inv_tail Hw') as Hwr'. cbn [snd] in Hwc'.
           rewrite OkG_cons. split.
           ++ exists {| bound := h; child := pos |}.
              destruct (P' (base + i)%nat ltac:(lia)) as [Pa Pb].
              split; [rewrite Pa; unfold nodes3; apply set_nth_eq; lia|].
              split; [rewrite Pb; unfold fin3; apply set_nth_eq; lia|].
              split; [reflexivity|]. cbn [child].
              eapply Ok_mono; [exact E'|]. apply Hnew. assumption.
           ++ replace (S (base + i)) with (base + S i)%nat by lia. apply G'. assumption.
Qed.

(* ---------- AppendNodes ---------- *)
Lemma nth_error_repeat {A} (a : A) n j : (j < n)%nat -> nth_error (repeat a n) j = Some a.
Proof.
  revert j. induction n as [|n IH]; intros j H; [lia|]. destruct j; [reflexivity|]. cbn. apply IH. lia.
Qed.

Lemma append_ok : forall c, child_spec c.
Proof.
  induction c as [k| |cs IH] using tnode_ind2; unfold child_spec;
    intros nodes done fin d0 pos nodes' done' Hlen Hinv Hw Happ.
  - destruct (append_len _ _ _ _ _ _ Happ) as (_ & _ & Hpos).
    rewrite append_nodes_invalid in Happ. destruct (65532 <? N.of_nat (length nodes + 0)); [discriminate|].
    rewrite app_nil_r in Happ. inversion Happ; subst nodes' done'. clear Happ.
    exists fin. split; [assumption|]. split; [apply ext_refl|]. split; [auto|]. split; [intros; lia|].
    split; [assumption|]. split; [congruence|]. intros; exact I.
  - destruct (append_len _ _ _ _ _ _ Happ) as (_ & _ & Hpos).
    rewrite append_nodes_leaf in Happ. destruct (65532 <? N.of_nat (length nodes + 0)); [discriminate|].
    rewrite app_nil_r in Happ. inversion Happ; subst nodes' done'. clear Happ.
    exists fin. split; [assumption|]. split; [apply ext_refl|]. split; [auto|]. split; [intros; lia|].
    split; [assumption|]. split; [congruence|]. intros; exact I.
  - destruct (append_len _ _ _ _ _ _ Happ) as (_ & _ & Hpos).
    rewrite append_nodes_sub in Happ. destruct (65532 <? N.of_nat (length nodes + length cs)); [discriminate|].
    destruct (app_loop append_nodes (length nodes) cs 0 (nodes ++ map placeholder cs, done))
      as [[nodes2 done2]| |] eqn:Eloop; try discriminate.
    inversion Happ; subst nodes2 done2. clear Happ.
    set (nodes0 := nodes ++ map placeholder cs) in *.
    set (fin0 := fin ++ repeat false (length cs)).
    assert (Hl0 : length nodes0 = (length nodes + length cs)%nat)
      by (unfold nodes0; rewrite app_length, map_length; reflexivity).
    assert (Hext0 : ext nodes fin nodes0 fin0).
    { intros j Hj. assert (j < length fin)%nat by (apply nth_error_Some; congruence).
      unfold nodes0, fin0. rewrite !nth_error_app1 by lia. auto. }
    apply Twf_sub_inv in Hw as Hw2. destruct Hw2 as [Hsh HwF].
    destruct (loop_ok (length nodes) cs IH 0 nodes0 done fin0 d0 nodes' done') as (fin' & L' & E' & P' & F' & D' & G').
    + unfold fin0. rewrite app_length, repeat_length. lia.
    + eapply DoneInv_mono; eassumption.
    + lia.
    + intros j Hj. unfold fin0. rewrite nth_error_app2 by lia. apply nth_error_repeat. lia.
    + intros j Hj. lia.
    + assumption.
    + assumption.
    + pose proof (app_loop_len _ _ _ _ _ _ _ Eloop) as Hgrow.
      exists fin'. split; [assumption|]. split; [exact (ext_trans _ _ _ _ _ _ Hext0 E')|].
      split; [|split; [|split; [|split]]].
      * intros j Hj. destruct (P' j ltac:(lia)) as [Pa Pb]. unfold nodes0 in Pa. unfold fin0 in Pb.
        rewrite nth_error_app1 in Pa by lia. rewrite nth_error_app1 in Pb by lia. auto.
      * intros j Hj. apply F'. lia.
      * assumption.
      * congruence.
      * intros d' Hw'. apply Twf_sub_inv in Hw' as [_ HwF']. cbn [children_of].
        specialize (G' d' HwF'). rewrite Nat.add_0_r in G'. exact G'.
Qed.

(* C12: whenever the lineariser succeeds (no overflow flag), the node array it builds for a
   tree of new_codec_tree passes the validator *)
Theorem linearize_ok_lemma : forall csr t nodes,
  new_codec_tree csr = Some t -> linearize t = LOk nodes -> lin_ok nodes t = true.
Proof.
  intros csr t nodes Ht Hlin. unfold linearize in Hlin.
  destruct (append_nodes (TSub t) ([], init_done)) as [[pos [nodes' done']]| |] eqn:E; try discriminate.
  inversion Hlin; subst nodes'. clear Hlin.
  pose proof (new_codec_tree_twf csr t Ht) as Hw.
  destruct (append_ok (TSub t) [] init_done [] 0%nat pos nodes done' eq_refl (DoneInv_init _ _) Hw E)
    as (fin' & L' & E' & P' & F' & D' & Hpos & G').
  destruct (append_len _ _ _ _ _ _ E) as (_ & Hguard & _). cbn [children_of length] in Hguard.
  unfold lin_ok. apply (Ok_lin fin' nodes). rewrite Ok_sub.
  apply Twf_sub_inv in Hw as Hw2. destruct Hw2 as [Hsh _].
  split; [lia|]. split; [lia|]. split; [assumption|]. split; [reflexivity|].
  apply (G' 0%nat Hw).
Qed.

(* every codec NewCodec returns (model: codec) is a validated node array of its tree *)
Theorem codec_validated_lemma : forall csr nodes,
  codec csr = Some (Some nodes) ->
  exists t, new_codec_tree csr = Some t /\ lin_ok nodes t = true.
Proof.
  intros csr nodes H. unfold codec in H. destruct (new_codec_tree csr) as [t|] eqn:Et; [|discriminate].
  destruct (linearize t) as [nd| |] eqn:El; try discriminate.
  inversion H; subst nd. exists t. split; [reflexivity|]. eapply linearize_ok_lemma; eassumption.
Qed.
