(* C13 proofs, part 3: the CID and ToUnicode instances of the generic compression, files,
   parent chains, enumeration. *)
From Coq Require Import List NArith Bool Arith Lia ZifyN ZifyNat ZifyBool Permutation.
From GoPdf.Base Require Import Bytes.
From GoPdf.C13 Require Import CMapRanges CMapRangesProofs1 CMapRangesProofs2.
Import ListNotations.
Open Scope N_scope.

(* ---- generic helpers ---------------------------------------------------- *)

Section Assoc.
  Variable V : Type.
  Notation entry := (entry V).

  Lemma assoc_filter (P : entry -> bool) (es : list entry) c :
    NoDup (map fst es) ->
    assoc (filter P es) c = match assoc es c with
                            | Some v => if P (c, v) then Some v else None
                            | None => None
                            end.
  Proof.
    induction es as [|[k w] es IH]; intros Hnd; [reflexivity|].
    cbn [map] in Hnd. apply NoDup_cons_iff in Hnd as [Hk Hnd']. cbn [filter assoc].
    destruct (bytes_eqb k c) eqn:E.
    - apply bytes_eqb_eq in E. subst k. destruct (P (c, w)) eqn:EP.
      + cbn [assoc]. rewrite bytes_eqb_refl. reflexivity.
      + apply assoc_none. intros H. apply Hk. cbn [map fst] in *.
        apply in_map_iff in H as (e & He & Hin). apply filter_In in Hin as [Hin _].
        apply in_map_iff. exists e. auto.
    - destruct (P (k, w)); [cbn [assoc]; rewrite E|]; apply IH; assumption.
  Qed.

  Lemma filter_nodup_keys (P : entry -> bool) (es : list entry) :
    NoDup (map fst es) -> NoDup (map fst (filter P es)).
  Proof.
    induction es as [|e es IH]; intros Hnd; [constructor|].
    cbn [map] in Hnd. apply NoDup_cons_iff in Hnd as [Hk Hnd']. cbn [filter]. destruct (P e); [|auto].
    cbn [map]. constructor; [|auto]. intros H. apply Hk.
    apply in_map_iff in H as (e' & He & Hin). apply filter_In in Hin as [Hin _].
    apply in_map_iff. exists e'. auto.
  Qed.

  Lemma filter_wf (P : entry -> bool) (es : list entry) : wf_entries V es -> wf_entries V (filter P es).
  Proof.
    unfold wf_entries. rewrite !Forall_forall. intros H e He. apply filter_In in He as [He _]. auto.
  Qed.

  Lemma assoc_last_app (l1 l2 : list entry) c :
    assoc_last (l1 ++ l2) c = match assoc_last l2 c with
                              | Some w => Some w
                              | None => assoc_last l1 c
                              end.
  Proof.
    induction l1 as [|[k v] l1 IH]; cbn [app assoc_last].
    - destruct (assoc_last l2 c); reflexivity.
    - rewrite IH. destruct (assoc_last l2 c); reflexivity.
  Qed.

  Lemma assoc_last_none (l : list entry) c : assoc_last l c = None <-> ~ In c (map fst l).
  Proof.
    induction l as [|[k v] l IH]; cbn [assoc_last map In fst]; [tauto|].
    destruct (assoc_last l c) eqn:E.
    - split; [discriminate|]. intros H. exfalso. destruct IH as [_ IH].
      assert (G : ~ In c (map fst l)) by tauto. apply IH in G. discriminate.
    - destruct (bytes_eqb k c) eqn:E2.
      + apply bytes_eqb_eq in E2. split; [discriminate|]. intros H. exfalso. apply H. auto.
      + split; [|reflexivity]. intros _ [H|H].
        * subst. rewrite bytes_eqb_refl in E2. discriminate.
        * apply IH in H; auto.
  Qed.

  Lemma assoc_last_nodup (l : list entry) c : NoDup (map fst l) -> assoc_last l c = assoc l c.
  Proof.
    induction l as [|[k v] l IH]; intros Hnd; [reflexivity|].
    cbn [map] in Hnd. apply NoDup_cons_iff in Hnd as [Hk Hnd']. cbn [assoc_last assoc]. rewrite IH by assumption.
    destruct (bytes_eqb k c) eqn:E.
    - apply bytes_eqb_eq in E. subst k. cbn [fst] in Hk. apply assoc_none in Hk. rewrite Hk. reflexivity.
    - destruct (assoc l c); reflexivity.
  Qed.

  Lemma firstn_N_all (l : list entry) n : N.of_nat (length l) <= n -> firstn_N n l = l.
  Proof.
    revert n; induction l as [|x l IH]; intros n H; cbn [firstn_N]; [reflexivity|].
    cbn [length] in H. destruct (n =? 0) eqn:E; [apply N.eqb_eq in E; lia|].
    rewrite IH by lia. reflexivity.
  Qed.

  Lemma decode_entries_perm csr (l l' : list entry) :
    Permutation l l' -> Permutation (decode_entries csr l) (decode_entries csr l').
  Proof. intros H. unfold decode_entries. apply Permutation_flat_map. assumption. Qed.

  Lemma decode_entries_valid csr (l : list entry) :
    Forall (fun e => in_csr csr (fst e) = true) l ->
    decode_entries csr l = map (fun e => (code_of_bytes (fst e), snd e)) l.
  Proof.
    induction l as [|e l IH]; intros H; [reflexivity|].
    inversion H; subst. unfold decode_entries in *. cbn [flat_map map].
    unfold decode_full at 1. rewrite H2. cbn [app]. rewrite IH by assumption. reflexivity.
  Qed.
End Assoc.

(* ======================================================================== *)
(* CID                                                                      *)

Lemma cid_chain_nth tl : forall v0 i w,
  chain_ok N cid_link (v0 :: tl) -> nth_error (v0 :: tl) (S i) = Some w -> w = cid_add v0 (N.of_nat (S i)).
Proof.
  induction tl as [|v1 tl IH]; intros v0 i w Hc; [destruct i; discriminate|].
  cbn [chain_ok] in Hc. destruct Hc as [H1 Hc]. unfold cid_link in H1. apply N.eqb_eq in H1.
  destruct i as [|i]; cbn [nth_error].
  - intros H; inversion H; subst. unfold cid_add. f_equal.
  - intros H. change (nth_error (v1 :: tl) (S i) = Some w) in H.
    rewrite (IH v1 i w Hc H). unfold cid_add. rewrite <- H1.
    rewrite N.add_mod_idemp_l by (unfold two32; lia). f_equal. lia.
Qed.

Lemma cid_mk : forall vs, (2 <= length vs)%nat -> chain_ok N cid_link vs ->
  forall i, (i < length vs)%nat -> range_value cid_add (cid_vals vs) (N.of_nat i) = nth_error vs i.
Proof.
  intros [|v0 tl] Hlen Hc i Hi; [cbn in Hlen; lia|].
  unfold cid_vals. cbn [firstn]. unfold range_value. cbn [length].
  destruct i as [|i].
  - reflexivity.
  - replace (N.of_nat (S i) <? N.of_nat 1) with false by (symmetry; apply N.ltb_ge; lia).
    destruct (nth_error (v0 :: tl) (S i)) as [w|] eqn:E.
    + f_equal. symmetry. eapply cid_chain_nth; eauto.
    + apply nth_error_None in E. lia.
Qed.

Definition cid_ok (es : list (bytes * N)) : Prop := Forall (fun e => snd e < two32) es.

Definition singleton_ranges (rr : list (grange N)) : Prop :=
  forall r, In r rr -> exists v, snd r = [v] /\ v < two32.

Lemma range_value_one v i : v < two32 -> range_value cid_add [v] i = Some (cid_add v i).
Proof.
  intros Hlt. unfold range_value. cbn [length]. destruct (i <? N.of_nat 1) eqn:E; [|reflexivity].
  apply N.ltb_lt in E. assert (i = 0) by lia. subst i. cbn [N.to_nat nth_error].
  unfold cid_add. rewrite N.add_0_r, N.mod_small by assumption. reflexivity.
Qed.

Lemma find_crange_map rr c :
  singleton_ranges rr -> find_crange (map to_crange rr) c = find_range cid_add rr c.
Proof.
  induction rr as [|[[f l] vals] rr IH]; intros Hs; [reflexivity|].
  destruct (Hs (f, l, vals) (or_introl eq_refl)) as (v & Hv & Hlt). cbn [snd] in Hv. subst vals.
  cbn [map to_crange hd find_crange find_range].
  rewrite IH by (intros r Hr; apply Hs; right; assumption).
  destruct (range_index f l c) as [i|]; [|reflexivity].
  rewrite range_value_one by assumption. reflexivity.
Qed.

Lemma crange_entries_one f l v :
  v < two32 -> crange_entries (f, l, v) = range_entries cid_add (f, l, [v]).
Proof.
  intros Hlt. unfold crange_entries, range_entries.
  generalize (number_from 0 (codes_in_range f l)) as l0.
  induction l0 as [|[i x] l0 IHl]; [reflexivity|].
  cbn [map flat_map fst snd]. rewrite IHl. rewrite (range_value_one v i Hlt). reflexivity.
Qed.

Lemma crange_entries_map rr :
  singleton_ranges rr ->
  flat_map crange_entries (map to_crange rr) = flat_map (range_entries cid_add) rr.
Proof.
  induction rr as [|[[f l] vals] rr IH]; intros Hs; [reflexivity|].
  destruct (Hs (f, l, vals) (or_introl eq_refl)) as (v & Hv & Hlt). cbn [snd] in Hv. subst vals.
  cbn [map flat_map to_crange hd]. rewrite IH by (intros r Hr; apply Hs; right; assumption).
  rewrite crange_entries_one by assumption. reflexivity.
Qed.

Lemma compress_cid_singletons es :
  cid_ok es -> singleton_ranges (snd (compress cid_link cid_vals es)).
Proof.
  intros Hok r Hr. unfold compress in Hr. cbn [snd] in Hr. unfold ranges_of in Hr.
  apply in_flat_map in Hr as (rn & Hrn & Hr). destruct r as [[f l] vals].
  destruct (run_range_spec N cid_vals rn f l vals Hr) as (a & b & items & Hs & _ & _ & Hv).
  cbn [snd]. rewrite Hv, Hs. unfold cid_vals. cbn [map firstn]. exists (snd a). split; [reflexivity|].
  (* the value belongs to an entry of es *)
  assert (Hin : exists c, In (c, snd a) (flat_map (run_entries N) (build_runs cid_link (sort_entries es)))).
  { exists (fst rn ++ [fst a]). apply in_flat_map. exists rn. split; [assumption|].
    unfold run_entries. rewrite Hs. left. reflexivity. }
  destruct Hin as (c & Hin).
  (* entries of the runs are entries of the sorted list whenever codes are non-empty; without that
     hypothesis we go through the items directly *)
  clear Hr Hv Hs.
  assert (G : forall l0 r0 xv, In r0 (build_runs cid_link l0) -> In xv (snd r0) -> exists e, In e l0 /\ snd e = snd xv).
  { clear. induction l0 as [|e rest IH]; intros r0 xv Hr Hx; [destruct Hr|].
    destruct rest as [|e2 r'].
    - cbn in Hr. destruct Hr as [<-|[]]. cbn in Hx. destruct Hx as [<-|[]]. exists e. split; [left; reflexivity|reflexivity].
    - rewrite build_runs_step in Hr.
      destruct (build_runs_head N cid_link r' e2) as (items & rs & E). rewrite E in Hr, IH.
      destruct (linked cid_link e e2).
      + destruct Hr as [<-|Hr].
        * cbn [snd] in Hx. destruct Hx as [<-|Hx].
          -- exists e. split; [left; reflexivity|reflexivity].
          -- destruct (IH _ xv (or_introl eq_refl) Hx) as (e0 & H1 & H2). exists e0. split; [right; assumption|assumption].
        * destruct (IH r0 xv (or_intror Hr) Hx) as (e0 & H1 & H2). exists e0. split; [right; assumption|assumption].
      + destruct Hr as [<-|Hr].
        * cbn [snd] in Hx. destruct Hx as [<-|[]]. exists e. split; [left; reflexivity|reflexivity].
        * destruct (IH r0 xv Hr Hx) as (e0 & H1 & H2). exists e0. split; [right; assumption|assumption]. }
  apply in_flat_map in Hin as (r0 & Hr0 & Hin). unfold run_entries in Hin. apply in_map_iff in Hin as (xv & Hxv & Hin).
  inversion Hxv as [[Hc Hv]].
  destruct (G _ _ _ Hr0 Hin) as (e & He & Hsnd).
  unfold cid_ok in Hok. rewrite Forall_forall in Hok.
  assert (He' : In e es) by (eapply Permutation_in; [apply sort_perm|exact He]).
  specialize (Hok e He'). change byte with N in *. first [rewrite <- Hsnd; exact Hok | rewrite <- Hv, <- Hsnd; exact Hok].
Qed.

Definition kept_cid (f : cfile) (es : list (bytes * N)) : list (bytes * N) :=
  match c_parent f with
  | Some p => filter (fun e => negb (parent_maps p e)) es
  | None => es
  end.

Lemma kept_cid_ok f es :
  NoDup (map fst es) -> wf_entries N es -> cid_ok es ->
  NoDup (map fst (kept_cid f es)) /\ wf_entries N (kept_cid f es) /\ cid_ok (kept_cid f es).
Proof.
  intros H1 H2 H3. unfold kept_cid. destruct (c_parent f); [|auto].
  repeat split; [apply filter_nodup_keys|apply filter_wf|]; auto.
  unfold cid_ok in *. rewrite !Forall_forall in *. intros e He. apply filter_In in He as [He _]. auto.
Qed.

Lemma lookup_notdef_same csr ss rr f c :
  lookup_notdef (CFile csr ss rr (c_nd_singles f) (c_nd_ranges f) (c_parent f)) c = lookup_notdef f c.
Proof. destruct f; reflexivity. Qed.

Lemma own_lookup_cid f es c :
  NoDup (map fst es) -> wf_entries N es -> cid_ok es ->
  let f' := set_mapping_bytes (c_csr f) f es in
  match find_single (c_singles f') c with
  | Some v => Some v
  | None => find_crange (c_ranges f') c
  end = assoc (kept_cid f es) c.
Proof.
  intros Hnd Hwf Hok f'. destruct (kept_cid_ok f es Hnd Hwf Hok) as (K1 & K2 & K3).
  unfold f', set_mapping_bytes. fold (kept_cid f es). cbn [c_singles c_ranges].
  rewrite find_crange_map by (apply compress_cid_singletons; assumption).
  apply (compress_lookup N cid_add cid_link cid_vals cid_mk (kept_cid f es) c K1 K2).
Qed.

Fixpoint c_root (f : cfile) : cfile :=
  match f with
  | CFile _ _ _ _ _ (Some p) => c_root p
  | _ => f
  end.

(* the pre-F31 LookupCID answered an unmapped code with the notdef entries of the LAST file of the chain *)
Lemma lookup_cid_prefix_split : forall f c,
  lookup_cid_prefix f c = match lookup_cid_opt f c with
                          | Some v => v
                          | None => lookup_notdef (c_root f) c
                          end.
Proof.
  fix IH 1. intros [csr ss rr nds ndr par] c.
  cbn [lookup_cid_prefix lookup_cid_opt c_singles c_ranges c_root].
  destruct (find_single ss c); [reflexivity|]. destruct (find_crange rr c); [reflexivity|].
  destruct par as [p|]; [apply IH|reflexivity].
Qed.

(* what the parent chain maps (before any notdef fallback) *)
Definition parent_opt (f : cfile) (c : bytes) : option N :=
  match c_parent f with
  | Some p => lookup_cid_opt p c
  | None => None
  end.

Definition agree_cid (f : cfile) : Prop :=
  forall c, assoc_last (raw_all_cid f) c = lookup_cid_opt f c.

Lemma own_raw_cid f es :
  NoDup (map fst es) -> wf_entries N es -> cid_ok es ->
  let f' := set_mapping_bytes (c_csr f) f es in
  Permutation (flat_map crange_entries (c_ranges f') ++ c_singles f') (kept_cid f es).
Proof.
  intros Hnd Hwf Hok f'. destruct (kept_cid_ok f es Hnd Hwf Hok) as (K1 & K2 & K3).
  unfold f', set_mapping_bytes. fold (kept_cid f es). cbn [c_singles c_ranges].
  rewrite crange_entries_map by (apply compress_cid_singletons; assumption).
  apply (compress_all N cid_add cid_link cid_vals cid_mk (kept_cid f es) K2).
Qed.

Lemma set_mapping_csr_irrelevant csr csr' f es :
  let a := set_mapping_bytes csr f es in
  let b := set_mapping_bytes csr' f es in
  c_singles a = c_singles b /\ c_ranges a = c_ranges b /\ c_parent a = c_parent b /\
  c_nd_singles a = c_nd_singles b /\ c_nd_ranges a = c_nd_ranges b.
Proof. cbn. auto. Qed.

Lemma raw_all_set_mapping csr f es :
  raw_all_cid (set_mapping_bytes csr f es) =
  (match c_parent f with Some p => raw_all_cid p | None => [] end)
  ++ flat_map crange_entries (c_ranges (set_mapping_bytes csr f es)) ++ c_singles (set_mapping_bytes csr f es).
Proof. reflexivity. Qed.

Lemma lookup_cid_opt_set_mapping csr f es c :
  lookup_cid_opt (set_mapping_bytes csr f es) c =
  match (match find_single (c_singles (set_mapping_bytes csr f es)) c with
         | Some v => Some v
         | None => find_crange (c_ranges (set_mapping_bytes csr f es)) c
         end) with
  | Some v => Some v
  | None => match c_parent f with Some p => lookup_cid_opt p c | None => None end
  end.
Proof.
  unfold set_mapping_bytes. cbn [lookup_cid_opt c_singles c_ranges].
  destruct (find_single _ c); [reflexivity|]. destruct (find_crange _ c); reflexivity.
Qed.

Lemma lookup_cid_opt_set_mapping_kept csr f es c :
  NoDup (map fst es) -> wf_entries N es -> cid_ok es ->
  lookup_cid_opt (set_mapping_bytes csr f es) c =
  match assoc (kept_cid f es) c with
  | Some v => Some v
  | None => parent_opt f c
  end.
Proof.
  intros Hnd Hwf Hok. rewrite lookup_cid_opt_set_mapping.
  pose proof (own_lookup_cid f es c Hnd Hwf Hok) as HL. cbn zeta in HL.
  destruct (set_mapping_csr_irrelevant csr (c_csr f) f es) as (E1 & E2 & _). cbn zeta in E1, E2.
  rewrite E1, E2, HL. reflexivity.
Qed.

(* what the chain loop of LookupCID finds: the map first, then the parent chain *)
Lemma setmapping_lookup_chain_lemma csr f es c :
  NoDup (map fst es) -> wf_entries N es -> cid_ok es ->
  lookup_cid_opt (set_mapping_bytes csr f es) c =
  match assoc es c with
  | Some v => Some v
  | None => parent_opt f c
  end.
Proof.
  intros Hnd Hwf Hok. rewrite lookup_cid_opt_set_mapping_kept by assumption.
  unfold kept_cid, parent_opt. destruct (c_parent f) as [p|] eqn:Ep; [|reflexivity].
  rewrite assoc_filter by assumption. destruct (assoc es c) as [v|]; [|reflexivity].
  unfold parent_maps. cbn [fst snd]. destruct (lookup_cid_opt p c) as [w|]; cbn [negb]; [|reflexivity].
  destruct (w =? v) eqn:E; cbn [negb]; [|reflexivity]. apply N.eqb_eq in E. subst. reflexivity.
Qed.

Lemma setmapping_lookup_bytes_lemma csr f es c :
  NoDup (map fst es) -> wf_entries N es -> cid_ok es ->
  lookup_cid (set_mapping_bytes csr f es) c =
  match assoc es c with
  | Some v => v
  | None => match parent_opt f c with
            | Some v => v
            | None => lookup_notdef f c
            end
  end.
Proof.
  intros Hnd Hwf Hok. unfold lookup_cid.
  rewrite setmapping_lookup_chain_lemma by assumption.
  assert (End : lookup_notdef (set_mapping_bytes csr f es) c = lookup_notdef f c)
    by (unfold set_mapping_bytes; apply lookup_notdef_same).
  rewrite End. destruct (assoc es c); reflexivity.
Qed.

Lemma agree_set_mapping csr f es :
  NoDup (map fst es) -> wf_entries N es -> cid_ok es ->
  (forall p, c_parent f = Some p -> agree_cid p) ->
  agree_cid (set_mapping_bytes csr f es).
Proof.
  intros Hnd Hwf Hok Hp c.
  rewrite lookup_cid_opt_set_mapping_kept by assumption.
  rewrite raw_all_set_mapping, assoc_last_app.
  pose proof (own_raw_cid f es Hnd Hwf Hok) as HP. cbn zeta in HP.
  destruct (set_mapping_csr_irrelevant csr (c_csr f) f es) as (E1 & E2 & _). cbn zeta in E1, E2.
  rewrite E1, E2.
  destruct (kept_cid_ok f es Hnd Hwf Hok) as (K1 & K2 & K3).
  assert (Hnd2 : NoDup (map fst (flat_map crange_entries (c_ranges (set_mapping_bytes (c_csr f) f es)) ++
                                 c_singles (set_mapping_bytes (c_csr f) f es)))).
  { eapply Permutation_NoDup; [|exact K1]. apply Permutation_map. apply Permutation_sym. exact HP. }
  rewrite assoc_last_nodup by assumption.
  rewrite (assoc_perm N _ _ c Hnd2 HP).
  destruct (assoc (kept_cid f es) c); [reflexivity|].
  unfold parent_opt. destruct (c_parent f) as [p|] eqn:Ep; [apply Hp; reflexivity|reflexivity].
Qed.

Lemma all_cid_no_parent csr f es :
  c_parent f = None ->
  NoDup (map fst es) -> wf_entries N es -> cid_ok es ->
  Forall (fun e => in_csr csr (fst e) = true) es ->
  N.of_nat (length es) <= budget ->
  Permutation (all_cid csr (set_mapping_bytes csr f es)) (map (fun e => (code_of_bytes (fst e), snd e)) es).
Proof.
  intros Hpar Hnd Hwf Hok Hcsr Hlen.
  pose proof (own_raw_cid f es Hnd Hwf Hok) as HP. cbn zeta in HP.
  destruct (set_mapping_csr_irrelevant csr (c_csr f) f es) as (E1 & E2 & _). cbn zeta in E1, E2.
  unfold all_cid. rewrite raw_all_set_mapping, Hpar, app_nil_l, E1, E2.
  unfold kept_cid in HP. rewrite Hpar in HP.
  pose proof (Permutation_length HP) as HL.
  rewrite firstn_N_all by (unfold entry in *; rewrite HL; assumption).
  rewrite <- (decode_entries_valid N csr es Hcsr).
  apply decode_entries_perm. exact HP.
Qed.

(* ======================================================================== *)
(* ToUnicode                                                                *)

Lemma text_eqb_eq a : forall b, text_eqb a b = true <-> a = b.
Proof.
  induction a as [|x a IH]; intros [|y b]; cbn [text_eqb]; split; intro H; try congruence; try discriminate.
  - apply andb_true_iff in H as [H1 H2]. apply N.eqb_eq in H1. apply IH in H2. congruence.
  - inversion H; subst. rewrite N.eqb_refl. cbn. apply IH. reflexivity.
Qed.

Lemma check_from_nth v0 rest : forall k j w,
  check_from v0 k rest = true -> nth_error rest j = Some w -> w = next_string v0 (k + N.of_nat j).
Proof.
  induction rest as [|v rest IH]; intros k j w Hc; [destruct j; discriminate|].
  cbn [check_from] in Hc. apply andb_true_iff in Hc as [H1 H2]. apply text_eqb_eq in H1.
  destruct j as [|j]; cbn [nth_error].
  - intros H; inversion H; subst. rewrite N.add_0_r. reflexivity.
  - intros H. rewrite (IH (k + 1) j w H2 H). f_equal. lia.
Qed.

Lemma tu_mk : forall vs, (2 <= length vs)%nat -> chain_ok text tu_link vs ->
  forall i, (i < length vs)%nat -> range_value next_string (tu_vals vs) (N.of_nat i) = nth_error vs i.
Proof.
  intros vs Hlen _ i Hi. unfold tu_vals. destruct (needs_list vs) eqn:E.
  - unfold range_value. replace (N.of_nat i <? N.of_nat (length vs)) with true by (symmetry; apply N.ltb_lt; lia).
    rewrite Nat2N.id. reflexivity.
  - destruct vs as [|v0 rest]; [cbn in Hlen; lia|].
    cbn [needs_list] in E. apply negb_false_iff in E.
    cbn [firstn]. unfold range_value. cbn [length]. destruct i as [|i]; [reflexivity|].
    replace (N.of_nat (S i) <? N.of_nat 1) with false by (symmetry; apply N.ltb_ge; lia).
    cbn [nth_error]. destruct (nth_error rest i) as [w|] eqn:En.
    + f_equal. rewrite (check_from_nth v0 rest 1 i w E En). f_equal. lia.
    + apply nth_error_None in En. cbn [length] in Hi. lia.
Qed.

Lemma new_tounicode_lookup_lemma csr es p c :
  NoDup (map fst es) -> wf_entries text es ->
  lookup_tu (with_parent (new_tounicode_bytes csr es) p) c =
  match assoc es c with
  | Some v => Some v
  | None => match p with
            | Some q => lookup_tu q c
            | None => None
            end
  end.
Proof.
  intros Hnd Hwf. unfold with_parent, new_tounicode_bytes. cbn [t_csr t_singles t_ranges lookup_tu].
  rewrite (compress_lookup text next_string tu_link tu_vals tu_mk es c Hnd Hwf).
  destruct (assoc es c); reflexivity.
Qed.

Lemma raw_all_tu_lemma csr es p :
  wf_entries text es ->
  exists own, raw_all_tu (with_parent (new_tounicode_bytes csr es) p) =
              (match p with Some q => raw_all_tu q | None => [] end) ++ own /\ Permutation own es.
Proof.
  intros Hwf. unfold with_parent, new_tounicode_bytes. cbn [t_csr t_singles t_ranges raw_all_tu].
  eexists. split; [reflexivity|].
  apply (compress_all text next_string tu_link tu_vals tu_mk es Hwf).
Qed.

Definition agree_tu (f : tfile) : Prop :=
  forall c, assoc_last (raw_all_tu f) c = lookup_tu f c.

Lemma agree_new_tounicode csr es p :
  NoDup (map fst es) -> wf_entries text es ->
  (forall q, p = Some q -> agree_tu q) ->
  agree_tu (with_parent (new_tounicode_bytes csr es) p).
Proof.
  intros Hnd Hwf Hp c.
  rewrite new_tounicode_lookup_lemma by assumption.
  destruct (raw_all_tu_lemma csr es p Hwf) as (own & E & HP). rewrite E, assoc_last_app.
  assert (Hnd2 : NoDup (map fst own)).
  { eapply Permutation_NoDup; [|exact Hnd]. apply Permutation_map. apply Permutation_sym. exact HP. }
  rewrite assoc_last_nodup by assumption. rewrite (assoc_perm text _ _ c Hnd2 HP).
  destruct (assoc es c); [reflexivity|].
  destruct p as [q|]; [apply Hp; reflexivity|reflexivity].
Qed.

Lemma all_tu_no_parent csr es :
  NoDup (map fst es) -> wf_entries text es ->
  Forall (fun e => in_csr csr (fst e) = true) es ->
  N.of_nat (length es) <= budget ->
  Permutation (all_tu csr (new_tounicode_bytes csr es)) (map (fun e => (code_of_bytes (fst e), snd e)) es).
Proof.
  intros Hnd Hwf Hcsr Hlen.
  destruct (raw_all_tu_lemma csr es None Hwf) as (own & E & HP).
  unfold all_tu. replace (new_tounicode_bytes csr es) with (with_parent (new_tounicode_bytes csr es) None) by reflexivity.
  rewrite E, app_nil_l.
  pose proof (Permutation_length HP) as HL.
  rewrite firstn_N_all by (unfold entry in *; rewrite HL; assumption).
  rewrite <- (decode_entries_valid text csr es Hcsr).
  apply decode_entries_perm. exact HP.
Qed.
