(* C13 - the textual form of CMaps: what font/cmap writes into a CMap / ToUnicode stream and what it
   makes of the result of the PostScript interpreter when reading one.  Definitions and Fixpoints only.

   Tokens are exactly the objects the PostScript scanner hands to the interpreter for the text the two
   templates of font/cmap produce (cmapTmplNew in file.go, toUnicodeTmplNew in tounicode.go): integers,
   strings (hex `<..>` or literal `(..)`), literal names `/N`, executable names (operators), and - as one
   token - an array `[ <..> <..> ]` of strings (the scanner gives `[`, the strings and `]`; the interpreter
   builds the array on its operand stack, which is where its depth limit matters).

   Writer side (faithful to the templates):
     write_tokens_cid   File.WriteTo: prologue, `/P usecmap`, /CIDSystemInfo, /CMapName, /CMapType 1,
                        /WMode, the code space block (NOT chunked; only `endcodespacerange` if empty),
                        cidchar / cidrange / notdefchar / notdefrange blocks of at most chunkSize entries
                        (`chunks`), epilogue
     write_tokens_tu    toUnicodeTmplNew: the same with /CMapType 2, the fixed Adobe-UCS /CIDSystemInfo,
                        bfchar / bfrange blocks (bfrange blocks by rangeChunks: also limited to 400 operands);
                        a range with exactly one value is written as a string,
                        any other number of values as an array; values are UTF-16BE (hexString)
     utf16be_enc        utf16.Encode + big-endian bytes (hexString)
   Reader side:
     read_blocks        the CIDInit procset operators of seehuhn.de/go/postscript (cmap.go) on this token
                        grammar: `n begin<kind>` with 0 <= n <= 100, the entries, `end<kind>`; ranges need
                        equal lengths and lo <= hi (bytes.Compare), otherwise the interpreter raises
                        rangecheck and the whole read fails; an array inside a bfrange block at entry k
                        with m elements needs 3k+3+m <= 500 operands (maxOperandStackDepth);
                        `endcmap` sorts every list (sort.Slice by bytes.Compare of the source code; the
                        code space by length, then low end) - modelled by a stable insertion sort
     read_tokens_cid    readCMap on what the interpreter returns: CMapType 0/1, WMode (1 = vertical),
                        CIDSystemInfo (Supplement clamped to 0..MaxInt32, dropped if everything is empty),
                        entries with empty codes skipped, CIDs outside 0..2^32-1 skipped
     read_tokens_tu     readToUnicode: CMapType 0/2, bfchar values through toString (odd length: entry
                        skipped), bfrange string -> one value, array -> values (bad element: U+FFFD)
     utf16be_dec        toString: pairs of bytes, utf16.Decode
   Not modelled: the scanner (bytes <-> tokens), the interpreter's operation and memory budgets
   (MaxOps = 10^6, 64 MiB), the PDF stream dictionary (UseCMap reference, /WMode, /CMapName copies). *)
From Coq Require Import List NArith ZArith Bool Arith String Ascii.
From GoPdf.Base Require Import Bytes.
From GoPdf.Gen Require Import Gen_C13.
From GoPdf.C13 Require Import CMapRanges.
Import ListNotations.
Open Scope N_scope.
(* String exports its own length, append, ... *)
Notation length := List.length (only parsing).

Definition nm (s : string) : bytes := map N_of_ascii (list_ascii_of_string s).

(* names, as byte strings (computed once from the readable form) *)
Definition n_dictopen : bytes := Eval vm_compute in nm "<<".
Definition n_dictclose : bytes := Eval vm_compute in nm ">>".
Definition n_Adobe : bytes := Eval vm_compute in nm "Adobe".
Definition n_CIDInit : bytes := Eval vm_compute in nm "CIDInit".
Definition n_CIDSystemInfo : bytes := Eval vm_compute in nm "CIDSystemInfo".
Definition n_CMap : bytes := Eval vm_compute in nm "CMap".
Definition n_CMapName : bytes := Eval vm_compute in nm "CMapName".
Definition n_CMapType : bytes := Eval vm_compute in nm "CMapType".
Definition n_Ordering : bytes := Eval vm_compute in nm "Ordering".
Definition n_ProcSet : bytes := Eval vm_compute in nm "ProcSet".
Definition n_Registry : bytes := Eval vm_compute in nm "Registry".
Definition n_Supplement : bytes := Eval vm_compute in nm "Supplement".
Definition n_UCS : bytes := Eval vm_compute in nm "UCS".
Definition n_WMode : bytes := Eval vm_compute in nm "WMode".
Definition n_begin : bytes := Eval vm_compute in nm "begin".
Definition n_beginbfchar : bytes := Eval vm_compute in nm "beginbfchar".
Definition n_beginbfrange : bytes := Eval vm_compute in nm "beginbfrange".
Definition n_begincidchar : bytes := Eval vm_compute in nm "begincidchar".
Definition n_begincidrange : bytes := Eval vm_compute in nm "begincidrange".
Definition n_begincmap : bytes := Eval vm_compute in nm "begincmap".
Definition n_begincodespacerange : bytes := Eval vm_compute in nm "begincodespacerange".
Definition n_beginnotdefchar : bytes := Eval vm_compute in nm "beginnotdefchar".
Definition n_beginnotdefrange : bytes := Eval vm_compute in nm "beginnotdefrange".
Definition n_currentdict : bytes := Eval vm_compute in nm "currentdict".
Definition n_def : bytes := Eval vm_compute in nm "def".
Definition n_defineresource : bytes := Eval vm_compute in nm "defineresource".
Definition n_dict : bytes := Eval vm_compute in nm "dict".
Definition n_dup : bytes := Eval vm_compute in nm "dup".
Definition n_end : bytes := Eval vm_compute in nm "end".
Definition n_endbfchar : bytes := Eval vm_compute in nm "endbfchar".
Definition n_endbfrange : bytes := Eval vm_compute in nm "endbfrange".
Definition n_endcidchar : bytes := Eval vm_compute in nm "endcidchar".
Definition n_endcidrange : bytes := Eval vm_compute in nm "endcidrange".
Definition n_endcmap : bytes := Eval vm_compute in nm "endcmap".
Definition n_endcodespacerange : bytes := Eval vm_compute in nm "endcodespacerange".
Definition n_endnotdefchar : bytes := Eval vm_compute in nm "endnotdefchar".
Definition n_endnotdefrange : bytes := Eval vm_compute in nm "endnotdefrange".
Definition n_findresource : bytes := Eval vm_compute in nm "findresource".
Definition n_pop : bytes := Eval vm_compute in nm "pop".
Definition n_usecmap : bytes := Eval vm_compute in nm "usecmap".

Inductive token :=
| TInt (z : Z)
| TStr (s : bytes)
| TLit (n : bytes)
| TExec (n : bytes)
| TArr (vs : list bytes).

Fixpoint bytes_list_eqb (a b : list bytes) : bool :=
  match a, b with
  | [], [] => true
  | x :: a', y :: b' => bytes_eqb x y && bytes_list_eqb a' b'
  | _, _ => false
  end.

Definition token_eqb (a b : token) : bool :=
  match a, b with
  | TInt x, TInt y => Z.eqb x y
  | TStr x, TStr y => bytes_eqb x y
  | TLit x, TLit y => bytes_eqb x y
  | TExec x, TExec y => bytes_eqb x y
  | TArr x, TArr y => bytes_list_eqb x y
  | _, _ => false
  end.

(* strip the fixed token sequence pat from the front *)
Fixpoint expect (pat ts : list token) : option (list token) :=
  match pat with
  | [] => Some ts
  | p :: pat' =>
      match ts with
      | t :: ts' => if token_eqb p t then expect pat' ts' else None
      | [] => None
      end
  end.

(* ------------------------------------------------------------------------ *)
(* UTF-16BE                                                                  *)

(* utf16.Encode of one rune *)
Definition enc_rune (r : N) : list N :=
  if valid_rune r then
    if r <? 65536 then [r]
    else [55296 + ((r - 65536) / 1024) mod 1024; 56320 + (r - 65536) mod 1024]
  else [65533].

Definition unit_bytes (u : N) : bytes := [u / 256; u mod 256].

Definition utf16be_enc (rs : text) : bytes := flat_map (fun r => flat_map unit_bytes (enc_rune r)) rs.

Fixpoint units_of (bs : bytes) : option (list N) :=
  match bs with
  | [] => Some []
  | hi :: lo :: rest =>
      match units_of rest with
      | Some us => Some (hi * 256 + lo :: us)
      | None => None
      end
  | [_] => None
  end.

Definition is_high (u : N) : bool := (55296 <=? u) && (u <? 56320).
Definition is_low (u : N) : bool := (56320 <=? u) && (u <? 57344).
Definition is_surr (u : N) : bool := (55296 <=? u) && (u <? 57344).

(* utf16.Decode *)
Fixpoint dec_units (us : list N) : text :=
  match us with
  | [] => []
  | u :: rest =>
      match rest with
      | u2 :: rest' =>
          if is_high u && is_low u2 then ((u - 55296) * 1024 + (u2 - 56320) + 65536) :: dec_units rest'
          else (if is_surr u then 65533 else u) :: dec_units rest
      | [] => [if is_surr u then 65533 else u]
      end
  end.

(* toString: None = "invalid ToUnicode CMap" (odd length) *)
Definition utf16be_dec (bs : bytes) : option text :=
  match units_of bs with
  | Some us => Some (dec_units us)
  | None => None
  end.

(* ------------------------------------------------------------------------ *)
(* chunks                                                                    *)

Definition chunk_size : nat := Z.to_nat chunkSize.

Fixpoint chunks_fuel {A} (fuel : nat) (x : list A) : list (list A) :=
  match fuel with
  | O => []
  | S fuel' =>
      if (chunk_size <=? length x)%nat then firstn chunk_size x :: chunks_fuel fuel' (skipn chunk_size x)
      else match x with
           | [] => []
           | _ => [x]
           end
  end.

Definition chunks {A} (x : list A) : list (list A) := chunks_fuel (S (length x)) x.

(* ------------------------------------------------------------------------ *)
(* stable insertion sort by a key of byte strings (bytes.Compare)           *)

Section Sort.
  Variable A : Type.
  Variable leb : A -> A -> bool.
  Fixpoint insert_by (a : A) (l : list A) : list A :=
    match l with
    | [] => [a]
    | x :: l' => if leb a x then a :: x :: l' else x :: insert_by a l'
    end.
  Fixpoint sort_by (l : list A) : list A :=
    match l with
    | [] => []
    | a :: l' => insert_by a (sort_by l')
    end.
End Sort.
Arguments insert_by {A}.
Arguments sort_by {A}.

Definition bytes_leb (a b : bytes) : bool := negb (bytes_ltb b a).

(* the code space is sorted by length, then by the low end *)
Definition csr_leb (a b : csrange) : bool :=
  if (length (fst a) <? length (fst b))%nat then true
  else if (length (fst a) =? length (fst b))%nat then bytes_leb (fst a) (fst b)
  else false.

(* ------------------------------------------------------------------------ *)
(* the structural form of the two kinds of files at the level of the text   *)

Record ctext := CText {
  ct_name : bytes;
  ct_wmode : N;
  ct_ros : option (bytes * bytes * Z);
  ct_parent : option bytes;                (* `/Name usecmap` *)
  ct_csr : list csrange;
  ct_singles : list (bytes * N);
  ct_ranges : list crange;
  ct_nd_singles : list (bytes * N);
  ct_nd_ranges : list crange
}.

Record ttext := TText {
  tt_name : bytes;                         (* MakeName: an MD5-based name, an input here *)
  tt_parent : option bytes;                (* Parent.MakeName *)
  tt_csr : list csrange;
  tt_singles : list (bytes * text);
  tt_ranges : list trange
}.

(* ------------------------------------------------------------------------ *)
(* writers                                                                   *)


Definition prologue : list token :=
  [TLit n_CIDInit; TLit n_ProcSet; TExec n_findresource; TExec n_begin; TInt 12; TExec n_dict; TExec n_begin; TExec n_begincmap].

Definition epilogue : list token :=
  [TExec n_endcmap; TExec n_CMapName; TExec n_currentdict; TLit n_CMap; TExec n_defineresource; TExec n_pop; TExec n_end; TExec n_end].

Definition usecmap_tokens (p : option bytes) : list token :=
  match p with
  | Some n => [TLit n; TExec n_usecmap]
  | None => []
  end.

Definition ros_tokens (r : option (bytes * bytes * Z)) : list token :=
  match r with
  | Some (reg, ord, sup) =>
      [TLit n_CIDSystemInfo; TInt 3; TExec n_dict; TExec n_dup; TExec n_begin;
       TLit n_Registry; TStr reg; TExec n_def; TLit n_Ordering; TStr ord; TExec n_def;
       TLit n_Supplement; TInt sup; TExec n_def; TExec n_end; TExec n_def]
  | None => []
  end.

Definition csr_tokens (csr : list csrange) : list token :=
  match csr with
  | [] => [TExec n_endcodespacerange]
  | _ => TInt (Z.of_nat (length csr)) :: TExec n_begincodespacerange
         :: flat_map (fun r => [TStr (fst r); TStr (snd r)]) csr ++ [TExec n_endcodespacerange]
  end.

(* one block: `n begin<kind>` entries `end<kind>` *)
Definition block {A} (nbegin nend : bytes) (entry : A -> list token) (xs : list A) : list token :=
  TInt (Z.of_nat (length xs)) :: TExec nbegin :: flat_map entry xs ++ [TExec nend].

Definition blocks {A} (nbegin nend : bytes) (entry : A -> list token) (xs : list A) : list token :=
  flat_map (block nbegin nend entry) (chunks xs).

Definition single_entry (s : bytes * N) : list token := [TStr (fst s); TInt (Z.of_N (snd s))].
Definition range_entry (r : crange) : list token :=
  let '(f, l, v) := r in [TStr f; TStr l; TInt (Z.of_N v)].

Definition write_tokens_cid (t : ctext) : list token :=
  prologue ++ usecmap_tokens (ct_parent t) ++ ros_tokens (ct_ros t)
  ++ [TLit n_CMapName; TLit (ct_name t); TExec n_def; TLit n_CMapType; TInt 1; TExec n_def;
      TLit n_WMode; TInt (Z.of_N (ct_wmode t)); TExec n_def]
  ++ csr_tokens (ct_csr t)
  ++ blocks n_begincidchar n_endcidchar single_entry (ct_singles t)
  ++ blocks n_begincidrange n_endcidrange range_entry (ct_ranges t)
  ++ blocks n_beginnotdefchar n_endnotdefchar single_entry (ct_nd_singles t)
  ++ blocks n_beginnotdefrange n_endnotdefrange range_entry (ct_nd_ranges t)
  ++ epilogue.

Definition bfchar_entry (s : bytes * text) : list token := [TStr (fst s); TStr (utf16be_enc (snd s))].
Definition bfrange_entry (r : trange) : list token :=
  let '(f, l, vals) := r in
  match vals with
  | [v] => [TStr f; TStr l; TStr (utf16be_enc v)]
  | _ => [TStr f; TStr l; TArr (map utf16be_enc vals)]
  end.

Definition tu_sysinfo : list token :=
  [TLit n_CIDSystemInfo; TExec n_dictopen; TLit n_Registry; TStr n_Adobe; TLit n_Ordering; TStr n_UCS;
   TLit n_Supplement; TInt 0; TExec n_dictclose; TExec n_def].

(* rangeChunks: a new bfrange block starts after chunkSize ranges, or when the next range - the k-th of its
   block, with a value list of m <> 1 elements - would need more than 400 operands (3k+3+m); the interpreter
   keeps the operands of a block on its stack and allows 500 *)
Definition max_need : N := 400.

Definition range_need (k : nat) (r : trange) : N :=
  3 * N.of_nat k + 3 + match snd r with
                       | [_] => 0
                       | vals => N.of_nat (length vals)
                       end.

Fixpoint rchunks (cur : list trange) (x : list trange) : list (list trange) :=
  match x with
  | [] => match cur with
          | [] => []
          | _ => [cur]
          end
  | r :: x' =>
      let k := length cur in
      if (0 <? k)%nat && ((k =? chunk_size)%nat || (max_need <? range_need k r))
      then cur :: rchunks [r] x'
      else rchunks (cur ++ [r]) x'
  end.

Definition range_chunks (x : list trange) : list (list trange) := rchunks [] x.

Definition write_tokens_tu (t : ttext) : list token :=
  prologue ++ usecmap_tokens (tt_parent t)
  ++ [TLit n_CMapName; TLit (tt_name t); TExec n_def; TLit n_CMapType; TInt 2; TExec n_def]
  ++ tu_sysinfo
  ++ csr_tokens (tt_csr t)
  ++ blocks n_beginbfchar n_endbfchar bfchar_entry (tt_singles t)
  ++ flat_map (block n_beginbfrange n_endbfrange bfrange_entry) (range_chunks (tt_ranges t))
  ++ epilogue.

(* the writer as it was BEFORE the F48 repair: bfrange blocks of chunkSize ranges whatever their value lists;
   kept to document F48 *)
Definition write_tokens_tu_prefix (t : ttext) : list token :=
  prologue ++ usecmap_tokens (tt_parent t)
  ++ [TLit n_CMapName; TLit (tt_name t); TExec n_def; TLit n_CMapType; TInt 2; TExec n_def]
  ++ tu_sysinfo
  ++ csr_tokens (tt_csr t)
  ++ blocks n_beginbfchar n_endbfchar bfchar_entry (tt_singles t)
  ++ blocks n_beginbfrange n_endbfrange bfrange_entry (tt_ranges t)
  ++ epilogue.

(* ------------------------------------------------------------------------ *)
(* the CIDInit operators on this grammar                                     *)

(* what the interpreter has collected (CMapInfo); values are still PostScript objects *)
Inductive dst := DInt (z : Z) | DStr (s : bytes) | DArr (vs : list bytes).

Record cminfo := CMInfo {
  mi_csr : list csrange;
  mi_cidchars : list (bytes * Z);
  mi_cidranges : list (bytes * bytes * Z);
  mi_ndchars : list (bytes * Z);
  mi_ndranges : list (bytes * bytes * Z);
  mi_bfchars : list (bytes * bytes);
  mi_bfranges : list (bytes * bytes * dst)
}.

Definition mi_empty : cminfo := CMInfo [] [] [] [] [] [] [].

Definition max_block : Z := 100.           (* `n < 0 || n > 100` in every begin... operator *)
Definition max_operands : N := 500.        (* maxOperandStackDepth *)

(* n entries `<code> int` *)
Fixpoint take_chars (n : nat) (ts : list token) : option (list (bytes * Z) * list token) :=
  match n with
  | O => Some ([], ts)
  | S n' =>
      match ts with
      | TStr c :: TInt v :: rest =>
          match take_chars n' rest with
          | Some (xs, r) => Some ((c, v) :: xs, r)
          | None => None
          end
      | _ => None
      end
  end.

(* `len(lo) != len(hi) || bytes.Compare(lo, hi) > 0` is a rangecheck error *)
Definition range_ok (lo hi : bytes) : bool := (length lo =? length hi)%nat && bytes_leb lo hi.

Fixpoint take_ranges (n : nat) (ts : list token) : option (list (bytes * bytes * Z) * list token) :=
  match n with
  | O => Some ([], ts)
  | S n' =>
      match ts with
      | TStr lo :: TStr hi :: TInt v :: rest =>
          if range_ok lo hi then
            match take_ranges n' rest with
            | Some (xs, r) => Some ((lo, hi, v) :: xs, r)
            | None => None
            end
          else None
      | _ => None
      end
  end.

Fixpoint take_csr (n : nat) (ts : list token) : option (list csrange * list token) :=
  match n with
  | O => Some ([], ts)
  | S n' =>
      match ts with
      | TStr lo :: TStr hi :: rest =>
          if (length lo =? length hi)%nat then
            match take_csr n' rest with
            | Some (xs, r) => Some ((lo, hi) :: xs, r)
            | None => None
            end
          else None
      | _ => None
      end
  end.

Fixpoint take_bfchars (n : nat) (ts : list token) : option (list (bytes * bytes) * list token) :=
  match n with
  | O => Some ([], ts)
  | S n' =>
      match ts with
      | TStr c :: TStr v :: rest =>
          match take_bfchars n' rest with
          | Some (xs, r) => Some ((c, v) :: xs, r)
          | None => None
          end
      | _ => None
      end
  end.

(* k = number of entries already on the operand stack (3 operands each) *)
Fixpoint take_bfranges (n : nat) (k : N) (ts : list token) : option (list (bytes * bytes * dst) * list token) :=
  match n with
  | O => Some ([], ts)
  | S n' =>
      match ts with
      | TStr lo :: TStr hi :: TStr v :: rest =>
          if range_ok lo hi then
            match take_bfranges n' (k + 1) rest with
            | Some (xs, r) => Some ((lo, hi, DStr v) :: xs, r)
            | None => None
            end
          else None
      | TStr lo :: TStr hi :: TArr vs :: rest =>
          (* `[`, the elements and `]` pass through the operand stack on top of lo and hi *)
          if (3 * k + 3 + N.of_nat (length vs) <=? max_operands) && range_ok lo hi then
            match take_bfranges n' (k + 1) rest with
            | Some (xs, r) => Some ((lo, hi, DArr vs) :: xs, r)
            | None => None
            end
          else None
      | _ => None
      end
  end.

Definition block_count (z : Z) : option nat :=
  if (0 <=? z)%Z && (z <=? max_block)%Z then Some (Z.to_nat z) else None.


Inductive kind := KCsr | KCidChar | KCidRange | KNdChar | KNdRange | KBfChar | KBfRange.

Definition kind_of_begin (b : bytes) : option kind :=
  if bytes_eqb b n_begincodespacerange then Some KCsr
  else if bytes_eqb b n_begincidchar then Some KCidChar
  else if bytes_eqb b n_begincidrange then Some KCidRange
  else if bytes_eqb b n_beginnotdefchar then Some KNdChar
  else if bytes_eqb b n_beginnotdefrange then Some KNdRange
  else if bytes_eqb b n_beginbfchar then Some KBfChar
  else if bytes_eqb b n_beginbfrange then Some KBfRange
  else None.

Definition end_name (k : kind) : bytes :=
  match k with
  | KCsr => n_endcodespacerange
  | KCidChar => n_endcidchar
  | KCidRange => n_endcidrange
  | KNdChar => n_endnotdefchar
  | KNdRange => n_endnotdefrange
  | KBfChar => n_endbfchar
  | KBfRange => n_endbfrange
  end.

(* the n entries of a block of the given kind, appended to what the interpreter has collected *)
Definition take_block (k : kind) (n : nat) (ts : list token) (mi : cminfo) : option (cminfo * list token) :=
  match k with
  | KCsr =>
      match take_csr n ts with
      | Some (xs, r) => Some (CMInfo (mi_csr mi ++ xs) (mi_cidchars mi) (mi_cidranges mi) (mi_ndchars mi)
                                     (mi_ndranges mi) (mi_bfchars mi) (mi_bfranges mi), r)
      | None => None
      end
  | KCidChar =>
      match take_chars n ts with
      | Some (xs, r) => Some (CMInfo (mi_csr mi) (mi_cidchars mi ++ xs) (mi_cidranges mi) (mi_ndchars mi)
                                     (mi_ndranges mi) (mi_bfchars mi) (mi_bfranges mi), r)
      | None => None
      end
  | KCidRange =>
      match take_ranges n ts with
      | Some (xs, r) => Some (CMInfo (mi_csr mi) (mi_cidchars mi) (mi_cidranges mi ++ xs) (mi_ndchars mi)
                                     (mi_ndranges mi) (mi_bfchars mi) (mi_bfranges mi), r)
      | None => None
      end
  | KNdChar =>
      match take_chars n ts with
      | Some (xs, r) => Some (CMInfo (mi_csr mi) (mi_cidchars mi) (mi_cidranges mi) (mi_ndchars mi ++ xs)
                                     (mi_ndranges mi) (mi_bfchars mi) (mi_bfranges mi), r)
      | None => None
      end
  | KNdRange =>
      match take_ranges n ts with
      | Some (xs, r) => Some (CMInfo (mi_csr mi) (mi_cidchars mi) (mi_cidranges mi) (mi_ndchars mi)
                                     (mi_ndranges mi ++ xs) (mi_bfchars mi) (mi_bfranges mi), r)
      | None => None
      end
  | KBfChar =>
      match take_bfchars n ts with
      | Some (xs, r) => Some (CMInfo (mi_csr mi) (mi_cidchars mi) (mi_cidranges mi) (mi_ndchars mi)
                                     (mi_ndranges mi) (mi_bfchars mi ++ xs) (mi_bfranges mi), r)
      | None => None
      end
  | KBfRange =>
      match take_bfranges n 0 ts with
      | Some (xs, r) => Some (CMInfo (mi_csr mi) (mi_cidchars mi) (mi_cidranges mi) (mi_ndchars mi)
                                     (mi_ndranges mi) (mi_bfchars mi) (mi_bfranges mi ++ xs), r)
      | None => None
      end
  end.

(* blocks up to `endcmap`; the rest of the tokens is returned.  fuel: one unit per block *)
Fixpoint read_blocks (fuel : nat) (ts : list token) (mi : cminfo) : option (cminfo * list token) :=
  match fuel with
  | O => None
  | S fuel' =>
      match ts with
      | TExec e :: rest =>
          if bytes_eqb e n_endcmap then Some (mi, rest)
          else if bytes_eqb e n_endcodespacerange then read_blocks fuel' rest mi   (* no pending block: a no-op *)
          else None
      | TInt z :: TExec b :: rest =>
          match block_count z, kind_of_begin b with
          | Some n, Some k =>
              match take_block k n rest mi with
              | Some (mi', TExec e :: r) => if bytes_eqb e (end_name k) then read_blocks fuel' r mi' else None
              | _ => None
              end
          | _, _ => None
          end
      | _ => None
      end
  end.

(* endcmap: every list is sorted by its source code *)
Definition sort_info (mi : cminfo) : cminfo :=
  CMInfo (sort_by csr_leb (mi_csr mi))
         (sort_by (fun a b => bytes_leb (fst a) (fst b)) (mi_cidchars mi))
         (sort_by (fun a b => bytes_leb (fst (fst a)) (fst (fst b))) (mi_cidranges mi))
         (sort_by (fun a b => bytes_leb (fst a) (fst b)) (mi_ndchars mi))
         (sort_by (fun a b => bytes_leb (fst (fst a)) (fst (fst b))) (mi_ndranges mi))
         (sort_by (fun a b => bytes_leb (fst a) (fst b)) (mi_bfchars mi))
         (sort_by (fun a b => bytes_leb (fst (fst a)) (fst (fst b))) (mi_bfranges mi)).

(* ------------------------------------------------------------------------ *)
(* readCMap / readToUnicode on the interpreter's result                      *)

Definition max_cid : Z := 4294967295.
Definition max_int32_z : Z := 2147483647.

Definition nonempty (b : bytes) : bool := match b with [] => false | _ => true end.

Definition conv_chars (l : list (bytes * Z)) : list (bytes * N) :=
  flat_map (fun e => if nonempty (fst e) && (0 <=? snd e)%Z && (snd e <=? max_cid)%Z
                     then [(fst e, Z.to_N (snd e))] else []) l.

Definition conv_ranges (l : list (bytes * bytes * Z)) : list crange :=
  flat_map (fun e => let '(lo, hi, v) := e in
                     if (length lo =? length hi)%nat && nonempty lo && (0 <=? v)%Z && (v <=? max_cid)%Z
                     then [(lo, hi, Z.to_N v)] else []) l.

Definition conv_csr (l : list csrange) : list csrange :=
  filter (fun r => (length (fst r) =? length (snd r))%nat && nonempty (fst r)) l.

(* the header of a CID CMap as the writer lays it out; gives parent, ROS, name, WMode and the rest *)
Definition read_header_cid (ts : list token)
  : option (option bytes * option (bytes * bytes * Z) * bytes * Z * list token) :=
  match expect prologue ts with
  | None => None
  | Some ts1 =>
      let '(par, ts2) := match ts1 with
                         | TLit p :: TExec u :: r => if bytes_eqb u n_usecmap then (Some p, r) else (None, ts1)
                         | _ => (None, ts1)
                         end in
      let ros_rest :=
        match expect [TLit n_CIDSystemInfo; TInt 3; TExec n_dict; TExec n_dup; TExec n_begin; TLit n_Registry] ts2 with
        | Some (TStr reg :: r1) =>
            match expect [TExec n_def; TLit n_Ordering] r1 with
            | Some (TStr ord :: r2) =>
                match expect [TExec n_def; TLit n_Supplement] r2 with
                | Some (TInt sup :: r3) =>
                    match expect [TExec n_def; TExec n_end; TExec n_def] r3 with
                    | Some r4 => Some (Some (reg, ord, sup), r4)
                    | None => None
                    end
                | _ => None
                end
            | _ => None
            end
        | Some _ => None
        | None => Some (None, ts2)
        end in
      match ros_rest with
      | None => None
      | Some (ros, ts3) =>
          match expect [TLit n_CMapName] ts3 with
          | Some (TLit name :: r5) =>
              match expect [TExec n_def; TLit n_CMapType] r5 with
              | Some (TInt tp :: r6) =>
                  if negb ((tp =? 0)%Z || (tp =? 1)%Z) then None
                  else match expect [TExec n_def; TLit n_WMode] r6 with
                       | Some (TInt w :: r7) =>
                           match expect [TExec n_def] r7 with
                           | Some r8 => Some (par, ros, name, w, r8)
                           | None => None
                           end
                       | _ => None
                       end
              | _ => None
              end
          | _ => None
          end
      end
  end.

(* readCMap's treatment of /CIDSystemInfo *)
Definition norm_ros (r : option (bytes * bytes * Z)) : option (bytes * bytes * Z) :=
  match r with
  | None => None
  | Some (reg, ord, sup) =>
      let sup' := if (0 <=? sup)%Z && (sup <=? max_int32_z)%Z then sup else 0%Z in
      if nonempty reg || nonempty ord || negb (sup' =? 0)%Z then Some (reg, ord, sup') else None
  end.

Definition read_tokens_cid (ts : list token) : option ctext :=
  match read_header_cid ts with
  | None => None
  | Some (par, ros, name, w, rest) =>
      match read_blocks (length rest) rest mi_empty with
      | None => None
      | Some (mi, tail) =>
          match expect (tl epilogue) tail with
          | Some [] =>
              let mi := sort_info mi in
              Some (CText name (if (w =? 1)%Z then 1 else 0) (norm_ros ros) par
                          (conv_csr (mi_csr mi)) (conv_chars (mi_cidchars mi)) (conv_ranges (mi_cidranges mi))
                          (conv_chars (mi_ndchars mi)) (conv_ranges (mi_ndranges mi)))
          | _ => None
          end
      end
  end.

(* toString on a string object; a name or an odd length is an error *)
Definition conv_bfchars (l : list (bytes * bytes)) : list (bytes * text) :=
  flat_map (fun e => if nonempty (fst e) then
                       match utf16be_dec (snd e) with
                       | Some t => [(fst e, t)]
                       | None => []
                       end
                     else []) l.

Definition conv_bfranges (l : list (bytes * bytes * dst)) : list trange :=
  flat_map (fun e => let '(lo, hi, d) := e in
                     if (length lo =? length hi)%nat && nonempty lo then
                       match d with
                       | DStr s => match utf16be_dec s with
                                   | Some t => [(lo, hi, [t])]
                                   | None => []
                                   end
                       | DArr vs => [(lo, hi, map (fun s => match utf16be_dec s with
                                                            | Some t => t
                                                            | None => [65533]
                                                            end) vs)]
                       | DInt _ => []
                       end
                     else []) l.

Definition read_header_tu (ts : list token) : option (option bytes * bytes * list token) :=
  match expect prologue ts with
  | None => None
  | Some ts1 =>
      let '(par, ts2) := match ts1 with
                         | TLit p :: TExec u :: r => if bytes_eqb u n_usecmap then (Some p, r) else (None, ts1)
                         | _ => (None, ts1)
                         end in
      match expect [TLit n_CMapName] ts2 with
      | Some (TLit name :: r1) =>
          match expect [TExec n_def; TLit n_CMapType] r1 with
          | Some (TInt tp :: r2) =>
              if negb ((tp =? 0)%Z || (tp =? 2)%Z) then None
              else match expect (TExec n_def :: tu_sysinfo) r2 with
                   | Some r3 => Some (par, name, r3)
                   | None => None
                   end
          | _ => None
          end
      | _ => None
      end
  end.

Definition read_tokens_tu (ts : list token) : option ttext :=
  match read_header_tu ts with
  | None => None
  | Some (par, name, rest) =>
      match read_blocks (length rest) rest mi_empty with
      | None => None
      | Some (mi, tail) =>
          match expect (tl epilogue) tail with
          | Some [] =>
              let mi := sort_info mi in
              Some (TText name par (conv_csr (mi_csr mi)) (conv_bfchars (mi_bfchars mi)) (conv_bfranges (mi_bfranges mi)))
          | _ => None
          end
      end
  end.

(* ------------------------------------------------------------------------ *)
(* between the text level and the files of CMapRanges.v                      *)

Definition ctext_of (name : bytes) (wmode : N) (ros : option (bytes * bytes * Z)) (parent_name : option bytes)
           (f : cfile) : ctext :=
  CText name wmode ros parent_name (c_csr f) (c_singles f) (c_ranges f) (c_nd_singles f) (c_nd_ranges f).

Definition cfile_of (t : ctext) (parent : option cfile) : cfile :=
  CFile (ct_csr t) (ct_singles t) (ct_ranges t) (ct_nd_singles t) (ct_nd_ranges t) parent.

Definition ttext_of (name : bytes) (parent_name : option bytes) (f : tfile) : ttext :=
  TText name parent_name (t_csr f) (t_singles f) (t_ranges f).

Definition tfile_of (t : ttext) (parent : option tfile) : tfile :=
  TFile (tt_csr t) (tt_singles t) (tt_ranges t) parent.

(* ------------------------------------------------------------------------ *)
(* CMap objects in a PDF file and the resolution of parents (Embed / Extract) *)

(* what File.Embed returns for a CID CMap: the name of a predefined CMap, or a stream whose dictionary may
   carry a /UseCMap entry *)
Inductive pobj :=
| PName (n : bytes)
| PStream (ts : list token) (usecmap : option pobj).

(* a File with its Parent pointers before embedding: the predefined object itself (IsPredefined compares
   pointers), or a custom file - whatever its NAME is, also one a predefined CMap has *)
Inductive efile :=
| EPredef (n : bytes)
| ECustom (t : ctext) (parent : option efile).

Definition efile_name (e : efile) : bytes :=
  match e with
  | EPredef n => n
  | ECustom t _ => ct_name t
  end.

Definition with_parent_name (t : ctext) (pn : option bytes) : ctext :=
  CText (ct_name t) (ct_wmode t) (ct_ros t) pn (ct_csr t) (ct_singles t) (ct_ranges t) (ct_nd_singles t) (ct_nd_ranges t).

(* Embed: a predefined object by name; otherwise the stream with `/ParentName usecmap` in the text and the
   embedded parent under /UseCMap *)
Fixpoint embed_cid (e : efile) : pobj :=
  match e with
  | EPredef n => PName n
  | ECustom t par =>
      PStream (write_tokens_cid (with_parent_name t (match par with Some p => Some (efile_name p) | None => None end)))
              (match par with Some p => Some (embed_cid p) | None => None end)
  end.

Section Resolver.
  (* cmap.Predefined: the CMaps the library ships, by name *)
  Variable predefined : bytes -> option cfile.

  (* Extract: a name is looked up among the predefined CMaps; for a stream the /UseCMap entry decides the
     parent (a parent that cannot be extracted leaves the file without parent); only without that entry the
     name given to the usecmap operator is looked up among the predefined CMaps *)
  Fixpoint extract_cid (o : pobj) : option cfile :=
    match o with
    | PName n => predefined n
    | PStream ts use =>
        match read_tokens_cid ts with
        | None => None
        | Some t =>
            match use with
            | Some u => Some (cfile_of t (extract_cid u))
            | None => Some (cfile_of t (match ct_parent t with Some n => predefined n | None => None end))
            end
        end
    end.

  (* the resolution order the seeded change C13-8 introduced: the usecmap NAME first *)
  Fixpoint extract_cid_name_first (o : pobj) : option cfile :=
    match o with
    | PName n => predefined n
    | PStream ts use =>
        match read_tokens_cid ts with
        | None => None
        | Some t =>
            match (match ct_parent t with Some n => predefined n | None => None end) with
            | Some p => Some (cfile_of t (Some p))
            | None => match use with
                      | Some u => Some (cfile_of t (extract_cid_name_first u))
                      | None => Some (cfile_of t None)
                      end
            end
        end
    end.

  (* the File chain an efile stands for *)
  Fixpoint efile_meaning (e : efile) : option cfile :=
    match e with
    | EPredef n => predefined n
    | ECustom t par => Some (cfile_of t (match par with Some p => efile_meaning p | None => None end))
    end.
End Resolver.
