(* C13 proofs, part 1: rangeIndex (mixed-radix position) against codesInRange (enumeration order). *)
From Coq Require Import List NArith Bool Arith Lia ZifyN ZifyNat ZifyBool.
From GoPdf.Base Require Import Bytes.
From GoPdf.C13 Require Import CMapRanges.
Import ListNotations.
Open Scope N_scope.

(* ---- specification functions (proof side only) ------------------------- *)

(* number of codes of a box *)
Fixpoint count (first last : bytes) : N :=
  match first, last with
  | f :: fs, l :: ls => (l - f + 1) * count fs ls
  | _, _ => 1
  end.

(* mixed-radix position of a code in its box *)
Fixpoint pos (first last code : bytes) : N :=
  match first, last, code with
  | f :: fs, l :: ls, b :: bs => (b - f) * count fs ls + pos fs ls bs
  | _, _, _ => 0
  end.

Lemma in_box_cons f fs l ls b bs :
  in_box (f :: fs) (l :: ls) (b :: bs) = true <-> f <= b /\ b <= l /\ in_box fs ls bs = true.
Proof.
  cbn [in_box]. rewrite !andb_true_iff, !N.leb_le. tauto.
Qed.

Lemma in_box_length lo hi s : in_box lo hi s = true -> length lo = length s /\ length hi = length s.
Proof.
  revert hi s; induction lo as [|l lo IH]; intros [|h hi] [|b s]; cbn [in_box]; try discriminate; auto.
  rewrite !andb_true_iff. intros [_ H]. apply IH in H. cbn [length]. lia.
Qed.

Lemma count_pos_ge1 first last code : in_box first last code = true -> 1 <= count first last.
Proof.
  revert last code; induction first as [|f fs IH]; intros [|l ls] [|b bs] H; cbn [count]; try lia; try discriminate.
  apply in_box_cons in H as (H1 & H2 & H3). apply IH in H3. nia.
Qed.

Lemma pos_lt_count first last code : in_box first last code = true -> pos first last code < count first last.
Proof.
  revert last code; induction first as [|f fs IH]; intros [|l ls] [|b bs] H; cbn [count pos]; try lia; try discriminate.
  apply in_box_cons in H as (H1 & H2 & H3). apply IH in H3. nia.
Qed.

(* ---- rangeIndex -------------------------------------------------------- *)

Lemma range_index_acc_sound first : forall last code acc r,
  range_index_acc first last code acc = Some r ->
  in_box first last code = true /\ r = acc * count first last + pos first last code.
Proof.
  induction first as [|f fs IH]; intros [|l ls] [|b bs] acc r; cbn [range_index_acc]; try discriminate.
  - intros H; inversion H; subst. cbn. split; [reflexivity|lia].
  - destruct ((b <? f) || (l <? b)) eqn:E; [discriminate|].
    apply orb_false_iff in E as [E1 E2]. apply N.ltb_ge in E1, E2.
    destruct (max_int32 <? acc * (l - f + 1) + (b - f)) eqn:E3; [discriminate|].
    intros H. apply IH in H as [H1 H2]. split.
    + apply in_box_cons. auto.
    + subst r. cbn [count pos]. ring.
Qed.

Lemma range_index_acc_complete first : forall last code acc,
  in_box first last code = true ->
  acc * count first last + pos first last code <= max_int32 ->
  range_index_acc first last code acc = Some (acc * count first last + pos first last code).
Proof.
  induction first as [|f fs IH]; intros [|l ls] [|b bs] acc; cbn [in_box]; try discriminate.
  - intros _ _. cbn. f_equal. lia.
  - intros H Hle. change (in_box (f :: fs) (l :: ls) (b :: bs) = true) in H.
    apply in_box_cons in H as (H1 & H2 & H3).
    cbn [range_index_acc].
    assert (E : (b <? f) || (l <? b) = false).
    { apply orb_false_iff; split; apply N.ltb_ge; assumption. }
    rewrite E. cbn [count pos] in Hle |- *.
    pose proof (count_pos_ge1 _ _ _ H3) as Hc.
    set (acc' := acc * (l - f + 1) + (b - f)).
    assert (Heq : acc * ((l - f + 1) * count fs ls) + ((b - f) * count fs ls + pos fs ls bs)
                  = acc' * count fs ls + pos fs ls bs) by (unfold acc'; ring).
    rewrite Heq in Hle |- *.
    assert (Hacc : acc' <= max_int32) by nia.
    apply N.ltb_ge in Hacc. rewrite Hacc.
    apply IH; assumption.
Qed.

Lemma range_index_acc_cap first : forall last code acc r,
  acc <= max_int32 -> range_index_acc first last code acc = Some r -> r <= max_int32.
Proof.
  induction first as [|f fs IH]; intros [|l ls] [|b bs] acc r Hacc; cbn [range_index_acc]; try discriminate.
  - intros H; inversion H; subst; assumption.
  - destruct ((b <? f) || (l <? b)); [discriminate|].
    destruct (max_int32 <? acc * (l - f + 1) + (b - f)) eqn:E3; [discriminate|].
    apply N.ltb_ge in E3. apply IH. assumption.
Qed.

Lemma range_index_some first last code i :
  range_index first last code = Some i <->
  in_box first last code = true /\ i = pos first last code /\ i <= max_int32.
Proof.
  unfold range_index. split.
  - intros H. pose proof H as H0. apply range_index_acc_sound in H as [H1 H2].
    rewrite N.mul_0_l, N.add_0_l in H2. repeat split; auto.
    eapply range_index_acc_cap; [|exact H0]. unfold max_int32; lia.
  - intros (H1 & H2 & H3). subst i.
    pose proof (range_index_acc_complete first last code 0 H1) as H. rewrite N.mul_0_l, N.add_0_l in H. auto.
Qed.

(* ---- codesInRange ------------------------------------------------------ *)

Lemma number_from_app {A} (l1 l2 : list A) k :
  number_from k (l1 ++ l2) = number_from k l1 ++ number_from (k + N.of_nat (length l1)) l2.
Proof.
  revert k; induction l1 as [|x l1 IH]; intros k; cbn [number_from app length].
  - replace (k + N.of_nat 0) with k by lia. reflexivity.
  - rewrite IH. replace (k + N.of_nat (S (length l1))) with (k + 1 + N.of_nat (length l1)) by lia. reflexivity.
Qed.

Lemma number_from_map_in {A B} (g : A -> B) (l : list A) k i y :
  In (i, y) (number_from k (map g l)) <-> exists x, y = g x /\ In (i, x) (number_from k l).
Proof.
  revert k; induction l as [|a l IH]; intros k; cbn [map number_from In].
  - split; [tauto|intros (x & _ & [])].
  - rewrite IH. split.
    + intros [H|(x & H1 & H2)]; [inversion H; subst; exists a; auto|exists x; auto].
    + intros (x & H1 & [H2|H2]); [inversion H2; subst; auto|right; exists x; auto].
Qed.

Lemma number_from_bound {A} (l : list A) k i x :
  In (i, x) (number_from k l) -> k <= i /\ i < k + N.of_nat (length l).
Proof.
  revert k; induction l as [|a l IH]; intros k; cbn [number_from In length]; [tauto|].
  intros [H|H]; [inversion H; subst; lia|]. apply IH in H. lia.
Qed.

Definition blocks (lo : N) (n : nat) (rest : list bytes) : list bytes :=
  flat_map (fun b => map (cons b) rest) (n_seq lo n).

Lemma blocks_length lo n rest : length (blocks lo n rest) = (n * length rest)%nat.
Proof.
  unfold blocks. revert lo; induction n as [|n IH]; intros lo; cbn [n_seq flat_map]; [reflexivity|].
  rewrite app_length, map_length, IH. reflexivity.
Qed.

Section Blocks.
  Variable rest : list (list byte).
  Variable P : bytes -> Prop.
  Variable q : bytes -> N.
  Hypothesis Hrest : forall j c k, In (j, c) (number_from k rest) <-> P c /\ j = k + q c.

  Lemma q_lt c : P c -> q c < N.of_nat (length rest).
  Proof.
    intros H. assert (G : In (0 + q c, c) (number_from 0 rest)) by (apply Hrest; auto).
    apply number_from_bound in G. change bytes with (list byte) in *. lia.
  Qed.

  Lemma blocks_numbered n : forall lo k i c,
    In (i, c) (number_from k (blocks lo n rest)) <->
    exists b c', c = b :: c' /\ lo <= b /\ b < lo + N.of_nat n /\ P c' /\
                 i = k + (b - lo) * N.of_nat (length rest) + q c'.
  Proof.
    induction n as [|n IH]; intros lo k i c.
    - cbn. split; [tauto|]. intros (b & c' & _ & H1 & H2 & _). lia.
    - unfold blocks in *. cbn [n_seq flat_map]. rewrite number_from_app, in_app_iff, map_length.
      rewrite number_from_map_in, IH. split.
      + intros [(c' & H1 & H2)|(b & c' & H1 & H2 & H3 & H4 & H5)].
        * apply Hrest in H2 as [H2 H3]. exists lo, c'. repeat split; auto; lia.
        * exists b, c'. repeat split; auto; try lia.
          subst i. generalize (N.of_nat (length rest)) as M; intros M. replace (b - lo) with ((b - (lo + 1)) + 1) by lia. rewrite N.mul_add_distr_r. lia.
      + intros (b & c' & H1 & H2 & H3 & H4 & H5).
        destruct (N.eq_dec b lo) as [->|Hne].
        * left. exists c'. split; auto. apply Hrest. split; auto. lia.
        * right. exists b, c'. repeat split; auto; try lia.
          subst i. generalize (N.of_nat (length rest)) as M; intros M. replace (b - lo) with ((b - (lo + 1)) + 1) by lia. rewrite N.mul_add_distr_r. lia.
  Qed.
End Blocks.

Lemma box_ok_cons f fs l ls : box_ok (f :: fs) (l :: ls) = true <-> f <= l /\ box_ok fs ls = true.
Proof. cbn [box_ok]. rewrite andb_true_iff, N.leb_le. tauto. Qed.

Lemma codes_in_box_length first : forall last,
  box_ok first last = true -> N.of_nat (length (codes_in_box first last)) = count first last.
Proof.
  induction first as [|f fs IH]; intros [|l ls] H; try discriminate; [reflexivity|].
  apply box_ok_cons in H as [H1 H2].
  change (codes_in_box (f :: fs) (l :: ls)) with (blocks f (N.to_nat (l + 1 - f)) (codes_in_box fs ls)).
  cbn [count].
  rewrite blocks_length, Nat2N.inj_mul, IH by assumption.
  rewrite N2Nat.id. replace (l + 1 - f) with (l - f + 1) by lia. reflexivity.
Qed.

Lemma codes_in_box_numbered first : forall last k i c,
  box_ok first last = true ->
  (In (i, c) (number_from k (codes_in_box first last)) <->
   in_box first last c = true /\ i = k + pos first last c).
Proof.
  induction first as [|f fs IH]; intros [|l ls] k i c Hok; try discriminate.
  - cbn [codes_in_box number_from In]. split.
    + intros [H|[]]. inversion H; subst. cbn. split; [reflexivity|lia].
    + intros [H1 H2]. destruct c; [|discriminate]. left. cbn in H2. f_equal. lia.
  - apply box_ok_cons in Hok as [Hfl Hok].
    change (codes_in_box (f :: fs) (l :: ls)) with (blocks f (N.to_nat (l + 1 - f)) (codes_in_box fs ls)).
    rewrite (blocks_numbered (codes_in_box fs ls) (fun c => in_box fs ls c = true) (pos fs ls))
      by (intros; apply IH; assumption).
    rewrite codes_in_box_length by assumption.
    split.
    + intros (b & c' & -> & H1 & H2 & H3 & H4). split.
      * apply in_box_cons. repeat split; auto; lia.
      * subst i. cbn [pos]. lia.
    + intros [H1 H2]. destruct c as [|b c']; [discriminate|].
      apply in_box_cons in H1 as (H1 & H3 & H4).
      exists b, c'. repeat split; auto; try lia. subst i. cbn [pos]. lia.
Qed.

Lemma in_box_box_ok first : forall last c, in_box first last c = true -> box_ok first last = true.
Proof.
  induction first as [|f fs IH]; intros [|l ls] [|b bs]; cbn [in_box box_ok]; try discriminate; auto.
  rewrite !andb_true_iff, !N.leb_le. intros [[H1 H2] H3]. split; [lia|eauto].
Qed.

(* position in the enumeration = rangeIndex, up to the MaxInt32 cap of rangeIndex *)
Lemma range_index_enum_in first last c i :
  i <= max_int32 ->
  (In (i, c) (number_from 0 (codes_in_range first last)) <-> range_index first last c = Some i /\ first <> []).
Proof.
  intros Hi. unfold codes_in_range, range_is_valid.
  destruct first as [|f fs].
  - cbn. split; [tauto|intros [_ H]; congruence].
  - destruct (box_ok (f :: fs) last) eqn:Hok.
    + rewrite codes_in_box_numbered by assumption. rewrite range_index_some. rewrite N.add_0_l.
      split; [intros [H1 H2]; repeat split; auto; congruence|tauto].
    + cbn [number_from In]. split; [tauto|]. intros [H _]. apply range_index_some in H as (H & _).
      apply in_box_box_ok in H. congruence.
Qed.

Lemma number_from_nth {A} (l : list A) : forall k i x,
  In (i, x) (number_from k l) <-> k <= i /\ nth_error l (N.to_nat (i - k)) = Some x.
Proof.
  induction l as [|a l IH]; intros k i x; cbn [number_from In].
  - split; [tauto|]. intros [_ H]. destruct (N.to_nat (i - k)); discriminate.
  - rewrite IH. split.
    + intros [H|[H1 H2]].
      * inversion H; subst. rewrite N.sub_diag. cbn. split; [lia|reflexivity].
      * split; [lia|]. replace (N.to_nat (i - k)) with (S (N.to_nat (i - (k + 1)))) by lia. exact H2.
    + intros [H1 H2]. destruct (N.eq_dec i k) as [->|Hne].
      * rewrite N.sub_diag in H2. cbn in H2. left. congruence.
      * right. split; [lia|]. replace (N.to_nat (i - k)) with (S (N.to_nat (i - (k + 1)))) in H2 by lia. exact H2.
Qed.

Lemma range_index_enum_nth first last c (i : nat) :
  first <> [] -> N.of_nat i <= max_int32 ->
  (nth_error (codes_in_range first last) i = Some c <-> range_index first last c = Some (N.of_nat i)).
Proof.
  intros Hne Hi. rewrite <- (Nat2N.id i) at 1.
  replace (N.of_nat i) with (N.of_nat i - 0) at 1 by lia.
  pose proof (number_from_nth (codes_in_range first last) 0 (N.of_nat i) c) as H.
  pose proof (range_index_enum_in first last c (N.of_nat i) Hi) as G.
  split.
  - intros E. apply G. apply H. split; [lia|exact E].
  - intros E. apply H. apply G. auto.
Qed.

(* the enumeration has no repetitions and lists exactly the box *)
Lemma codes_in_range_in first last c :
  In c (codes_in_range first last) <-> in_box first last c = true /\ first <> [].
Proof.
  unfold codes_in_range, range_is_valid. destruct first as [|f fs].
  - cbn. split; [tauto|intros [_ H]; congruence].
  - destruct (box_ok (f :: fs) last) eqn:Hok.
    + split.
      * intros H. apply In_nth_error in H as [n H].
        assert (G : In (0 + N.of_nat n, c) (number_from 0 (codes_in_box (f :: fs) last))).
        { apply number_from_nth. split; [lia|]. replace (N.to_nat (0 + N.of_nat n - 0)) with n by lia. exact H. }
        apply codes_in_box_numbered in G; [|assumption]. split; [tauto|congruence].
      * intros [H _].
        assert (G : In (0 + pos (f :: fs) last c, c) (number_from 0 (codes_in_box (f :: fs) last))).
        { apply codes_in_box_numbered; auto. }
        apply number_from_nth in G as [_ G]. eapply nth_error_In; eauto.
    + split; [intros []|]. intros [H _]. apply in_box_box_ok in H. congruence.
Qed.

(* ---- the odometer step is "next element of the enumeration" ------------ *)

Lemma next_code_pos first : forall last c c',
  in_box first last c = true ->
  next_code first last c = Some c' ->
  in_box first last c' = true /\ pos first last c' = pos first last c + 1.
Proof.
  induction first as [|f fs IH]; intros [|l ls] [|b bs] c' Hin; cbn [next_code]; try discriminate.
  apply in_box_cons in Hin as (H1 & H2 & H3).
  destruct (next_code fs ls bs) as [bs'|] eqn:E.
  - intros H; inversion H; subst. apply IH in E as [E1 E2]; [|assumption]. split.
    + apply in_box_cons. auto.
    + cbn [pos]. lia.
  - destruct (b <? l) eqn:Hlt; [|discriminate]. apply N.ltb_lt in Hlt.
    intros H; inversion H; subst.
    (* the tail overflowed: it was the last code of its box and is reset to the first *)
    assert (Hlast : pos fs ls bs + 1 = count fs ls /\ in_box fs ls fs = true /\ pos fs ls fs = 0).
    { clear -E H3. revert ls bs E H3. induction fs as [|f fs IH]; intros [|l ls] [|b bs]; cbn [next_code in_box]; try discriminate.
      - intros _ _. cbn. repeat split; lia.
      - destruct (next_code fs ls bs) eqn:E; [discriminate|].
        destruct (b <? l) eqn:Hlt; [discriminate|]. apply N.ltb_ge in Hlt.
        intros _ H. change (in_box (f :: fs) (l :: ls) (b :: bs) = true) in H.
        apply in_box_cons in H as (H1 & H2 & H3).
        destruct (IH _ _ E H3) as (G1 & G2 & G3). cbn [pos count in_box]. repeat split.
        + assert (b = l) by lia. subst b. nia.
        + rewrite G2. rewrite andb_true_r. apply andb_true_iff; split; apply N.leb_le; lia.
        + rewrite G3. lia. }
    destruct Hlast as (G1 & G2 & G3). split.
    + apply in_box_cons. repeat split; auto; lia.
    + cbn [pos]. rewrite G3. nia.
Qed.

Lemma next_code_none first : forall last c,
  in_box first last c = true ->
  next_code first last c = None ->
  pos first last c + 1 = count first last.
Proof.
  induction first as [|f fs IH]; intros [|l ls] [|b bs]; cbn [next_code in_box]; try discriminate.
  - intros _ _. reflexivity.
  - intros H. change (in_box (f :: fs) (l :: ls) (b :: bs) = true) in H.
    apply in_box_cons in H as (H1 & H2 & H3).
    destruct (next_code fs ls bs) eqn:E; [discriminate|].
    destruct (b <? l) eqn:Hlt; [discriminate|]. apply N.ltb_ge in Hlt. intros _.
    apply IH in E; [|assumption]. cbn [pos count]. assert (b = l) by lia. subst b. nia.
Qed.
