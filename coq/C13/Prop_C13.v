(* C13: property theorems only; each closed by [exact] and followed by Print Assumptions.
   Vocabulary (definitions in CMapRangesProofs2/3/4.v):
     prefix_free csr     no code of the code space is a proper prefix of another (what NewCodec accepts)
     valid_code csr n    n is the charcode.Code of a byte string of the code space (1..4 bytes)
     cid_data_ok csr m   m : list (Code * CID) has distinct keys, all valid codes, CIDs below 2^32
     tu_data_ok csr m    m : list (Code * text) has distinct keys, all valid codes
     code_entries csr m  m with every key replaced by its byte string (append_code)
     wf_entries, cid_ok  the same conditions for maps keyed by byte strings (non-empty, bytes < 256)
     lookup_cid_opt      (model) the chain loop of LookupCID, before the notdef fallback
     parent_opt f c      what the parent chain of f maps c to (None if nothing, or no parent)

     agree_cid, agree_tu what maps.Collect keeps of All() (last pair per code) = lookup, for every code *)
From Coq Require Import List NArith Permutation Lia ZifyN ZifyNat ZifyBool.
From GoPdf.Base Require Import Bytes.
From GoPdf.C13 Require Import CMapRanges CMapRangesProofs1 CMapRangesProofs2 CMapRangesProofs3 CMapRangesProofs4.
From GoPdf.C13 Require Import CMapText CMapTextProofs1 CMapTextProofs2 CMapTextProofs3 CMapTextProofs4 CMapTextProofs5.
From Coq Require Import ZArith.
Import ListNotations.
Open Scope N_scope.

(* ---- rangeIndex / codesInRange ------------------------------------------ *)

(* position i of the enumeration holds c  <->  rangeIndex of c is i   (for every first/last,
   valid or not, of any length; up to the MaxInt32 cap that rangeIndex documents) *)
Theorem range_index_enum :
  forall first last c (i : nat),
    first <> [] -> N.of_nat i <= max_int32 ->
    (nth_error (codes_in_range first last) i = Some c <-> range_index first last c = Some (N.of_nat i)).
Proof. exact range_index_enum_nth. Qed.
Print Assumptions range_index_enum.

(* the enumeration lists exactly the codes of the box *)
Theorem codes_in_range_exact :
  forall first last c, In c (codes_in_range first last) <-> in_box first last c = true /\ first <> [].
Proof. exact codes_in_range_in. Qed.
Print Assumptions codes_in_range_exact.

(* the odometer step of codesInRange moves to the code with the next rangeIndex ... *)
Theorem odometer_step :
  forall first last c c' i,
    range_index first last c = Some i -> next_code first last c = Some c' -> i + 1 <= max_int32 ->
    range_index first last c' = Some (i + 1).
Proof. exact odometer_step_lemma. Qed.
Print Assumptions odometer_step.

(* ... and stops exactly at the last code *)
Theorem odometer_end :
  forall first last c i,
    first <> [] -> range_index first last c = Some i -> next_code first last c = None ->
    N.of_nat (length (codes_in_range first last)) = i + 1.
Proof. exact odometer_end_lemma. Qed.
Print Assumptions odometer_end.

Example range_index_enum_crossing :
  codes_in_range [1; 254] [2; 255] = [[1; 254]; [1; 255]; [2; 254]; [2; 255]] /\
  map (range_index [1; 254] [2; 255]) (codes_in_range [1; 254] [2; 255]) = [Some 0; Some 1; Some 2; Some 3].
Proof. vm_compute. split; reflexivity. Qed.

(* ---- SetMapping / LookupCID ---------------------------------------------- *)

(* every code looks up to the mapped CID; an unmapped code gives what the parent chain maps it to,
   and otherwise the notdef result of the file itself (LookupNotdefCID: own entries, then the parents') *)
Theorem setmapping_lookup :
  forall csr f data c,
    prefix_free csr -> cid_data_ok csr data ->
    lookup_cid (set_mapping csr f data) c =
    match assoc (code_entries csr data) c with
    | Some v => v
    | None => match parent_opt f c with
              | Some v => v
              | None => lookup_notdef f c
              end
    end.
Proof. exact setmapping_lookup_lemma. Qed.
Print Assumptions setmapping_lookup.

(* every mapped code looks up to its CID, whatever the parent chain and the notdef entries are *)
Theorem setmapping_lookup_mapped_full :
  forall csr f data code v,
    prefix_free csr -> cid_data_ok csr data -> In (code, v) data ->
    lookup_cid (set_mapping csr f data) (append_code csr code) = v.
Proof. exact setmapping_lookup_mapped_lemma. Qed.
Print Assumptions setmapping_lookup_mapped_full.

Theorem setmapping_lookup_mapped :
  forall csr f data code v,
    prefix_free csr -> cid_data_ok csr data -> In (code, v) data ->
    lookup_cid (set_mapping csr f data) (append_code csr code) = v.
Proof. exact setmapping_lookup_mapped_full. Qed.
Print Assumptions setmapping_lookup_mapped.

(* the same for maps keyed by byte strings (no codec involved) *)
Theorem setmapping_lookup_bytes :
  forall csr f es c,
    NoDup (map fst es) -> wf_entries N es -> cid_ok es ->
    lookup_cid (set_mapping_bytes csr f es) c =
    match assoc es c with
    | Some v => v
    | None => match parent_opt f c with
              | Some v => v
              | None => lookup_notdef f c
              end
    end.
Proof. exact setmapping_lookup_bytes_lemma. Qed.
Print Assumptions setmapping_lookup_bytes.

(* what the chain loop of LookupCID (lookupMapped) finds: the map first, then the parent chain;
   so an entry SetMapping omits is one the parent chain MAPS to the same CID *)
Theorem setmapping_lookup_chain :
  forall csr f es c,
    NoDup (map fst es) -> wf_entries N es -> cid_ok es ->
    lookup_cid_opt (set_mapping_bytes csr f es) c =
    match assoc es c with
    | Some v => Some v
    | None => parent_opt f c
    end.
Proof. exact setmapping_lookup_chain_lemma. Qed.
Print Assumptions setmapping_lookup_chain.

(* F34 (fixed in /repo): SetMapping as it was before omitted an entry also when Parent.LookupCID gave its CID
   through the parent's NOTDEF entries; the file's own notdef entries then shadowed it: parent {41:1}, file with
   notdefrange <20>-<60> -> 7 and the map {50:0, 51:9} answered 7 for <50> *)
Theorem setmapping_lookup_prefix_refuted :
  exists csr f es c v,
    NoDup (map fst es) /\ wf_entries N es /\ cid_ok es /\ assoc es c = Some v /\
    lookup_cid (set_mapping_bytes_prefix csr f es) c <> v.
Proof. exact setmapping_prefix_refuted. Qed.
Print Assumptions setmapping_lookup_prefix_refuted.

Example f34_witness_now_right :
  map (lookup_cid (set_mapping_bytes simple_csr shadow_file shadow_entries)) [[65]; [80]; [81]; [48]; [97]] = [1; 0; 9; 7; 0].
Proof. exact shadow_now_right. Qed.

(* All() of a file without parent is exactly the map: a permutation, so no duplicates, nothing extra *)
Theorem all_eq :
  forall csr f data,
    prefix_free csr -> cid_data_ok csr data -> c_parent f = None ->
    N.of_nat (length data) <= budget ->
    Permutation (all_cid csr (set_mapping csr f data)) data.
Proof. exact all_eq_lemma. Qed.
Print Assumptions all_eq.

(* with parents: enumeration (as maps.Collect reads it) and lookup agree for every code, along any
   chain built by SetMapping *)
Theorem all_lookup_agree :
  forall csr f data,
    prefix_free csr -> cid_data_ok csr data ->
    (forall p, c_parent f = Some p -> agree_cid p) ->
    agree_cid (set_mapping csr f data).
Proof. exact agree_set_mapping_codes. Qed.
Print Assumptions all_lookup_agree.

(* an unmapped code gets the notdef result of the file itself (F31, fixed in /repo) ... *)
Theorem lookup_unmapped_notdef_full :
  forall f c, lookup_cid_opt f c = None -> lookup_cid f c = lookup_notdef f c.
Proof. exact notdef_full_lemma. Qed.
Print Assumptions lookup_unmapped_notdef_full.

(* ... while LookupCID as it was before the F31 repair answered with the notdef entries of the LAST file
   of the chain: child with notdefrange <20>-<60> -> 3 and a parent gave 0 for <30> *)
Theorem lookup_unmapped_notdef_prefix_refuted :
  exists f c, lookup_cid_opt f c = None /\ lookup_cid_prefix f c <> lookup_notdef f c.
Proof. exact notdef_prefix_refuted. Qed.
Print Assumptions lookup_unmapped_notdef_prefix_refuted.

(* ---- NewToUnicodeFile / Lookup / All -------------------------------------- *)

Theorem tounicode_rt :
  forall csr data p c,
    prefix_free csr -> tu_data_ok csr data ->
    lookup_tu (with_parent (new_tounicode csr data) p) c =
    match assoc (code_entries csr data) c with
    | Some v => Some v
    | None => match p with
              | Some q => lookup_tu q c
              | None => None
              end
    end.
Proof. exact tounicode_lookup_lemma. Qed.
Print Assumptions tounicode_rt.

Theorem tounicode_rt_mapped :
  forall csr data p code v,
    prefix_free csr -> tu_data_ok csr data -> In (code, v) data ->
    lookup_tu (with_parent (new_tounicode csr data) p) (append_code csr code) = Some v.
Proof. exact tounicode_lookup_mapped_lemma. Qed.
Print Assumptions tounicode_rt_mapped.

Theorem tounicode_rt_bytes :
  forall csr es p c,
    NoDup (map fst es) -> wf_entries text es ->
    lookup_tu (with_parent (new_tounicode_bytes csr es) p) c =
    match assoc es c with
    | Some v => Some v
    | None => match p with
              | Some q => lookup_tu q c
              | None => None
              end
    end.
Proof. exact new_tounicode_lookup_lemma. Qed.
Print Assumptions tounicode_rt_bytes.

Theorem tounicode_rt_all :
  forall csr data,
    prefix_free csr -> tu_data_ok csr data -> N.of_nat (length data) <= budget ->
    Permutation (all_tu csr (new_tounicode csr data)) data.
Proof. exact tounicode_all_lemma. Qed.
Print Assumptions tounicode_rt_all.

Theorem tounicode_rt_agree :
  forall csr data p,
    prefix_free csr -> tu_data_ok csr data ->
    (forall q, p = Some q -> agree_tu q) ->
    agree_tu (with_parent (new_tounicode csr data) p).
Proof. exact tounicode_agree_lemma. Qed.
Print Assumptions tounicode_rt_agree.

(* F13 (fixed in /repo): with the pairwise successor test the same statement fails on
   41,42,43 -> U+D7FF, U+FFFD, U+FFFE *)
Theorem tounicode_rt_refuted :
  exists es c v,
    NoDup (map fst es) /\ wf_entries text es /\ assoc es c = Some v /\
    lookup_tu (new_tounicode_bytes_pairwise simple_csr es) c <> Some v.
Proof. exact f13_refuted. Qed.
Print Assumptions tounicode_rt_refuted.

Example f13_witness_now_right :
  map (fun c => lookup_tu (new_tounicode_bytes simple_csr f13_witness) [c]) [65; 66; 67; 68]
  = [Some [55295]; Some [65533]; Some [65534]; None] /\
  map (fun c => lookup_tu (new_tounicode_bytes_pairwise simple_csr f13_witness) [c]) [65; 66; 67; 68]
  = [Some [55295]; Some [65533]; Some [65533]; None].
Proof. vm_compute. split; reflexivity. Qed.

(* ---- the hypotheses are satisfiable --------------------------------------- *)

Definition ex_csr : list csrange := [([0], [127]); ([128; 0], [255; 255])].

Example ex_prefix_free : prefix_free ex_csr.
Proof.
  intros s k Hin Hk. unfold ex_csr, in_csr in *. cbn [existsb fst snd] in *.
  destruct s as [|a [|b [|c s]]]; cbn [length] in Hk; try lia.
  - (* two bytes: the first is >= 128, so the one-byte prefix is not a code *)
    assert (k = 1%nat) by lia. subst k. cbn [firstn in_box] in *. lia.
  - cbn [in_box] in Hin. lia.
Qed.

Example ex_cid_data :
  cid_data_ok ex_csr [(65, 1); (66, 2); (67, 3); (1408, 4294967295); (1664, 0)].
Proof.
  unfold cid_data_ok. repeat split.
  - repeat constructor; cbn; intuition discriminate.
  - repeat constructor.
    + exists [65]. vm_compute. repeat split; repeat constructor; lia.
    + exists [66]. vm_compute. repeat split; repeat constructor; lia.
    + exists [67]. vm_compute. repeat split; repeat constructor; lia.
    + exists [128; 5]. vm_compute. repeat split; repeat constructor; lia.
    + exists [128; 6]. vm_compute. repeat split; repeat constructor; lia.
  - repeat constructor; cbn; unfold two32; lia.
Qed.

Example ex_tu_data :
  tu_data_ok ex_csr [(65, [55295]); (66, [65533]); (67, [65534]); (1408, [97; 128512])].
Proof.
  unfold tu_data_ok. split.
  - repeat constructor; cbn; intuition discriminate.
  - repeat constructor.
    + exists [65]. vm_compute. repeat split; repeat constructor; lia.
    + exists [66]. vm_compute. repeat split; repeat constructor; lia.
    + exists [67]. vm_compute. repeat split; repeat constructor; lia.
    + exists [128; 5]. vm_compute. repeat split; repeat constructor; lia.
Qed.

(* a two-level chain: the parent satisfies agree_cid, hence the hypothesis of all_lookup_agree *)
Example ex_chain_agree :
  agree_cid (set_mapping ex_csr (CFile [] [] [] [] [] None) [(65, 1); (66, 2); (67, 3)]).
Proof.
  apply agree_set_mapping_codes; [exact ex_prefix_free| |intros p H; discriminate].
  unfold cid_data_ok. repeat split.
  - repeat constructor; cbn; intuition discriminate.
  - repeat constructor.
    + exists [65]. vm_compute. repeat split; repeat constructor; lia.
    + exists [66]. vm_compute. repeat split; repeat constructor; lia.
    + exists [67]. vm_compute. repeat split; repeat constructor; lia.
  - repeat constructor; cbn; unfold two32; lia.
Qed.

(* maps keyed by byte strings: hypotheses of setmapping_lookup_bytes / tounicode_rt_bytes *)
Example ex_bytes_hyps :
  let es := [([65], 1); ([66], 2); ([128; 254], 4294967295); ([128; 255], 0)] in
  NoDup (map fst es) /\ wf_entries N es /\ cid_ok es /\
  map (lookup_cid (set_mapping_bytes ex_csr (CFile [] [] [] [] [([0], [127], 7)] None) es))
      [[65]; [66]; [67]; [128; 254]; [128; 255]; [128; 253]]
  = [1; 2; 7; 4294967295; 0; 0].
Proof.
  cbn zeta. repeat split.
  - repeat constructor; cbn; intuition discriminate.
  - unfold wf_entries, wf_code. repeat constructor; cbn; try discriminate; lia.
  - unfold cid_ok, two32. repeat constructor; cbn; lia.
Qed.

(* odometer_step / odometer_end: a step that carries into the first byte, and the last code *)
Example ex_odometer :
  range_index [1; 254] [2; 255] [1; 255] = Some 1 /\ next_code [1; 254] [2; 255] [1; 255] = Some [2; 254] /\
  range_index [1; 254] [2; 255] [2; 255] = Some 3 /\ next_code [1; 254] [2; 255] [2; 255] = None.
Proof. vm_compute. repeat split; reflexivity. Qed.

(* a parent chain: the entry 65 -> 1 is right in the parent and omitted, 66 is overridden, 80 is new *)
Example ex_chain_lookup :
  let parent := set_mapping ex_csr (CFile [] [] [] [] [] None) [(65, 1); (66, 2); (67, 3)] in
  let child := set_mapping ex_csr (CFile [] [] [] [] [] (Some parent)) [(65, 1); (66, 5); (80, 9)] in
  c_singles child = [([66], 5); ([80], 9)] /\ c_ranges child = [] /\
  map (lookup_cid child) [[65]; [66]; [67]; [80]; [81]] = [1; 5; 3; 9; 0].
Proof. vm_compute. repeat split; reflexivity. Qed.

(* a file with own notdef entries and a parent: 50 -> 9 and 51 -> 0 are kept although the parent answers 0 for <51> *)
Example ex_child_notdef_lookup :
  let parent := CFile ex_csr [([65], 1)] [] [] [] None in
  let f := CFile [] [] [] [] [([32], [96], 7)] (Some parent) in
  c_singles (set_mapping ex_csr f [(65, 1); (80, 9); (81, 0)]) = [([80], 9); ([81], 0)] /\
  map (lookup_cid (set_mapping ex_csr f [(65, 1); (80, 9); (81, 0)])) [[65]; [80]; [81]; [48]; [120]] = [1; 9; 0; 7; 0].
Proof. vm_compute. split; reflexivity. Qed.

(* ======================================================================== *)
(* the text of a CMap: write_tokens / read_tokens (CMapText.v)                  *)
(* Vocabulary (CMapTextProofs*.v):
     valid_text t        every rune of t is a Unicode scalar value
     wf_ctext t          at most 100 code space ranges, each with equal, non-zero lengths; codes non-empty, CIDs
                         below 2^32; ranges with equal non-zero lengths and first <= last (bytes.Compare)
     wf_ttext t          the same for a ToUnicode file; all text values valid
     lists_ok rr         no range has more than 497 values
     depth_ok 0 c        in the bfrange block c the k-th entry with a list of m <> 1 values satisfies
                         3k+3+m <= 500 (the operand stack of the PostScript interpreter)
     normalize_c/_t      what reading back does: every list sorted by code (the interpreter's endcmap),
                         WMode 1 or else 0, CIDSystemInfo through readCMap's clamping
     csr_ok csr          at most 100 well-formed code space ranges
     nd_sorted_wf f      the notdef lists of f are well-formed and already sorted by code *)

(* UTF-16BE as hexString writes it and toString reads it *)
Theorem utf16be_rt :
  forall rs, valid_text rs -> utf16be_dec (utf16be_enc rs) = Some rs.
Proof. exact utf16be_rt_lemma. Qed.
Print Assumptions utf16be_rt.

(* for arbitrary runes: surrogates and values above 10FFFF come back as U+FFFD *)
Theorem utf16be_rt_any :
  forall rs, utf16be_dec (utf16be_enc rs) = Some (map fix_rune rs).
Proof. exact utf16be_rt_general. Qed.
Print Assumptions utf16be_rt_any.

(* chunks: the blocks are the list, cut into pieces of 1..100 entries *)
Theorem chunks_exact :
  forall (A : Type) (x : list A), concat (chunks x) = x /\ Forall (fun c => (1 <= length c <= 100)%nat) (chunks x).
Proof. intros A x. split; [apply chunks_concat|apply chunks_sizes]. Qed.
Print Assumptions chunks_exact.

(* File.WriteTo followed by the interpreter + readCMap gives the file back, lists sorted *)
Theorem cmap_text_rt :
  forall t, wf_ctext t -> read_tokens_cid (write_tokens_cid t) = Some (normalize_c t).
Proof. exact cmap_text_rt_lemma. Qed.
Print Assumptions cmap_text_rt.

(* the same for ToUnicode files; the only size condition: no range carries more than 497 values (the first
   entry of a bfrange block needs 3 + m <= 500 interpreter operands; rangeChunks starts a new block whenever
   more than 400 would be needed) *)
Theorem tounicode_text_rt :
  forall t, wf_ttext t -> lists_ok (tt_ranges t) -> read_tokens_tu (write_tokens_tu t) = Some (normalize_t t).
Proof. exact tounicode_text_rt_lemma. Qed.
Print Assumptions tounicode_text_rt.

(* rangeChunks: the blocks are the list, cut into pieces of 1..100 ranges that fit the operand stack *)
Theorem range_chunks_exact :
  forall x, lists_ok x ->
    concat (range_chunks x) = x /\
    Forall (fun c => (1 <= length c <= 100)%nat /\ depth_ok 0 c = true) (range_chunks x).
Proof. exact range_chunks_spec. Qed.
Print Assumptions range_chunks_exact.

(* files built by NewToUnicodeFile never have more than 256 values in a range *)
Theorem new_tounicode_lists_256 :
  forall csr es, wf_entries text es ->
    Forall (fun r : trange => (length (snd r) <= 256)%nat) (t_ranges (new_tounicode_bytes csr es)).
Proof. exact new_tounicode_lists. Qed.
Print Assumptions new_tounicode_lists_256.

(* F48 (fixed in /repo): the writer as it was before put up to 100 ranges into a block whatever their value
   lists; entry 99 of a block with 201 values needs 501 operands and the interpreter refuses the text *)
Theorem tounicode_text_rt_prefix_refuted :
  exists t, wf_ttext t /\ lists_ok (tt_ranges t) /\ read_tokens_tu (write_tokens_tu_prefix t) <> Some (normalize_t t).
Proof. exact tounicode_text_prefix_refuted. Qed.
Print Assumptions tounicode_text_rt_prefix_refuted.

Example f48_witness_now_right : read_tokens_tu (write_tokens_tu deep_text) = Some (normalize_t deep_text).
Proof. apply tounicode_text_rt_lemma; apply deep_text_wf. Qed.

(* the bound 497 is exact: one range with 498 values is beyond the interpreter's stack (hand-made files only) *)
Example list_498_refused : read_tokens_tu (write_tokens_tu long_list_text) = None.
Proof. exact long_list_refused. Qed.

(* SetMapping, then write, then read: same name, parent name, WMode, code space, the same LookupCID for
   every code, the same enumeration *)
Theorem embed_extract_lookup :
  forall name wmode ros pn csr f data,
    csr_ok csr -> prefix_free csr -> cid_data_ok csr data -> nd_sorted_wf f ->
    exists t', read_tokens_cid (write_tokens_cid (ctext_of name wmode ros pn (set_mapping csr f data))) = Some t' /\
      ct_name t' = name /\ ct_parent t' = pn /\ ct_wmode t' = (if wmode =? 1 then 1 else 0) /\
      (forall s, in_csr (ct_csr t') s = in_csr csr s) /\
      (forall c, lookup_cid (cfile_of t' (c_parent f)) c = lookup_cid (set_mapping csr f data) c) /\
      Permutation (raw_all_cid (cfile_of t' (c_parent f))) (raw_all_cid (set_mapping csr f data)).
Proof. exact embed_extract_cid_codes. Qed.
Print Assumptions embed_extract_lookup.

(* NewToUnicodeFile, then write, then read: no size condition (ranges have at most 256 values) *)
Theorem embed_extract_lookup_tounicode :
  forall csr data name pn p,
    csr_ok csr -> prefix_free csr -> tu_data_ok csr data -> tu_data_valid data ->
    exists t', read_tokens_tu (write_tokens_tu (ttext_of name pn (new_tounicode csr data))) = Some t' /\
      tt_parent t' = pn /\
      (forall s, in_csr (tt_csr t') s = in_csr csr s) /\
      (forall c, lookup_tu (tfile_of t' p) c = lookup_tu (with_parent (new_tounicode csr data) p) c) /\
      Permutation (raw_all_tu (tfile_of t' p)) (raw_all_tu (with_parent (new_tounicode csr data) p)).
Proof. exact embed_extract_tu_codes. Qed.
Print Assumptions embed_extract_lookup_tounicode.

(* the byte level: the only assumption is that the PostScript scanner reads back what was printed (H-ps) *)
Theorem cmap_bytes_rt :
  forall (print : list token -> bytes) (tokenize : bytes -> option (list token)),
    (forall t, wf_ctext t -> tokenize (print (write_tokens_cid t)) = Some (write_tokens_cid t)) ->
    forall t, wf_ctext t -> read_bytes_cid tokenize (write_bytes_cid print t) = Some (normalize_c t).
Proof. exact cmap_bytes_rt_lemma. Qed.
Print Assumptions cmap_bytes_rt.

Theorem tounicode_bytes_rt :
  forall (print : list token -> bytes) (tokenize : bytes -> option (list token)),
    (forall t, wf_ttext t -> tokenize (print (write_tokens_tu t)) = Some (write_tokens_tu t)) ->
    forall t, wf_ttext t -> lists_ok (tt_ranges t) ->
              read_bytes_tu tokenize (write_bytes_tu print t) = Some (normalize_t t).
Proof. exact tounicode_bytes_rt_lemma. Qed.
Print Assumptions tounicode_bytes_rt.

(* ---- examples for the text level ---------------------------------------------- *)

Example ex_utf16 :
  utf16be_enc [65; 128512; 55295] = [0; 65; 216; 61; 222; 0; 215; 255] /\
  utf16be_dec [0; 65; 216; 61; 222; 0; 215; 255] = Some [65; 128512; 55295] /\
  utf16be_dec [216; 61; 0; 65] = Some [65533; 65] /\ utf16be_dec [0; 65; 0] = None.
Proof. vm_compute. repeat split; reflexivity. Qed.

Definition ex_ctext : ctext :=
  CText [86] 1 (Some ([65], [66], 3%Z)) (Some [80])
        [([128; 0], [255; 255]); ([0], [127])]
        [([66], 5); ([65], 4294967295)] [([128; 16], [128; 32], 7)] [([32], 1)] [([0], [31], 2)].

Example ex_ctext_wf : wf_ctext ex_ctext.
Proof.
  unfold wf_ctext, ex_ctext, csr_wf, single_wf, crange_full_wf, two32; cbn.
  repeat split; repeat constructor; cbn; try discriminate; try lia.
Qed.

Example ex_ctext_rt :
  read_tokens_cid (write_tokens_cid ex_ctext)
  = Some (CText [86] 1 (Some ([65], [66], 3%Z)) (Some [80])
                [([0], [127]); ([128; 0], [255; 255])]
                [([65], 4294967295); ([66], 5)] [([128; 16], [128; 32], 7)] [([32], 1)] [([0], [31], 2)]).
Proof. vm_compute. reflexivity. Qed.

Definition ex_ttext : ttext :=
  TText [78] None [([0], [255])] [([90], [97; 128512])] [([65], [67], [[55295]; [65533]; [65534]]); ([70], [72], [[120]])].

Example ex_ttext_wf : wf_ttext ex_ttext /\ lists_ok (tt_ranges ex_ttext).
Proof.
  split.
  - unfold wf_ttext, ex_ttext, csr_wf, tsingle_wf, trange_full_wf, valid_text; cbn.
    repeat split; repeat constructor; cbn; try discriminate; try lia.
  - unfold lists_ok. repeat constructor; cbn; lia.
Qed.

Example ex_ttext_rt : read_tokens_tu (write_tokens_tu ex_ttext) = Some ex_ttext.
Proof. vm_compute. reflexivity. Qed.

Example ex_csr_ok : csr_ok ex_csr.
Proof. unfold csr_ok, ex_csr, csr_wf. split; [cbn; lia|]. repeat constructor; cbn; try discriminate. Qed.

Example ex_nd_sorted : nd_sorted_wf (CFile [] [] [] [([32], 1)] [([0], [31], 2); ([64], [95], 3)] None).
Proof.
  unfold nd_sorted_wf, single_wf, crange_full_wf, two32; cbn.
  repeat split; repeat constructor; cbn; try discriminate; try lia.
Qed.

(* ======================================================================== *)
(* arbitrary parents of SetMapping                                              *)
(* setmapping_lookup, setmapping_lookup_mapped(_full), setmapping_lookup_bytes, setmapping_lookup_chain and
   all_lookup_agree quantify over EVERY file f: its parent chain is an arbitrary cfile - hand-made, with
   overlapping singles and ranges, with ranges of more than MaxCMapMappings codes, of any depth.  Redundancy
   is decided by parent_maps, i.e. by lookup (lookup_cid_opt: child first, singles before ranges, first
   match), never by the enumeration. *)

(* the grandparent has overlapping ranges (<20>-<ff> -> 32.. and <40>-<4f> -> 100..: lookup of <41> gives 65,
   the enumeration ends with 101) and a range of 17*65536 three-byte codes; the parent redirects <41> to 7;
   the map sends <41> back to 65, <42> to 102 (the value of the second, shadowed range) and <43> to 67
   (redundant: omitted) *)
Example ex_overlapping_ancestor :
  let csr := [([32], [255]); ([1; 0; 0], [17; 255; 255])] in
  let grand := CFile csr [] [([32], [255], 32); ([64], [79], 100); ([1; 0; 0], [17; 255; 255], 1000)] [] [] None in
  let parent := CFile csr [([65], 7)] [] [] [] (Some grand) in
  let f := set_mapping csr (CFile [] [] [] [] [] (Some parent)) [(65, 65); (66, 102); (67, 67); (65537, 5)] in
  c_singles f = [([65], 65); ([66], 102); ([1; 0; 1], 5)] /\ c_ranges f = [] /\
  map (lookup_cid f) [[65]; [66]; [67]; [68]; [1; 0; 1]; [1; 0; 2]; [17; 255; 255]] = [65; 102; 67; 68; 5; 1002; 1115111].
Proof. vm_compute. repeat split; reflexivity. Qed.

(* ======================================================================== *)
(* Embed / Extract of parent chains: who is the parent                          *)
(* Vocabulary: pobj (a CMap object in the PDF: a name, or a stream with its /UseCMap entry), efile (a File
   before embedding: the predefined object itself, or a custom file with ANY name and its parent),
   embed_cid, extract_cid predefined (the resolver: the /UseCMap stream decides; the usecmap name is looked
   up among the predefined CMaps only when there is no /UseCMap), efile_meaning, chain_ok (custom files
   well-formed and stable, predefined files exist), stable (sorting the lists does not change what the file
   answers), same_lookups. *)

(* for EVERY table of predefined CMaps and every chain: extraction of the embedded chain succeeds and
   LookupCID / LookupNotdefCID are those of the original chain - also when custom files carry predefined
   names *)
Theorem extract_embed_chain :
  forall (predefined : bytes -> option cfile) (e : efile),
    chain_ok predefined e ->
    exists f' m, extract_cid predefined (embed_cid e) = Some f' /\ efile_meaning predefined e = Some m /\
      (forall c, lookup_cid f' c = lookup_cid m c) /\ (forall c, lookup_notdef f' c = lookup_notdef m c).
Proof.
  intros predefined e H. destruct (extract_embed_lemma predefined e H) as (f' & m & H1 & H2 & H3).
  exists f', m. repeat split; auto.
  - apply same_lookups_cid. exact H3.
  - intros c. apply (H3 c).
Qed.
Print Assumptions extract_embed_chain.

(* files with sorted lists and files built by SetMapping are stable *)
Theorem stable_when_sorted :
  forall t,
    sort_by single_leb (ct_singles t) = ct_singles t -> sort_by range_leb (ct_ranges t) = ct_ranges t ->
    sort_by single_leb (ct_nd_singles t) = ct_nd_singles t -> sort_by range_leb (ct_nd_ranges t) = ct_nd_ranges t ->
    stable t.
Proof. exact stable_sorted. Qed.
Print Assumptions stable_when_sorted.

Theorem stable_after_setmapping :
  forall name wmode ros pn csr f es,
    NoDup (map fst es) -> wf_entries N es -> cid_ok es -> nd_sorted_wf f ->
    stable (ctext_of name wmode ros pn (set_mapping_bytes csr f es)).
Proof. exact stable_set_mapping. Qed.
Print Assumptions stable_after_setmapping.

(* the other resolution order (the usecmap NAME first, seeded change C13-8) replaces a custom parent that
   carries a predefined name by the predefined CMap *)
Example name_first_resolution_differs :
  option_map (fun f => lookup_cid f [65]) (extract_cid pd (embed_cid collide)) = Some 7 /\
  option_map (fun f => lookup_cid f [65]) (efile_meaning pd collide) = Some 7 /\
  option_map (fun f => lookup_cid f [65]) (extract_cid_name_first pd (embed_cid collide)) = Some 1.
Proof. exact name_first_differs. Qed.

Example ex_chain_ok : chain_ok pd collide.
Proof.
  unfold collide, collide_child, collide_parent. cbn [chain_ok]. repeat split;
    try (unfold wf_ctext, csr_wf, single_wf, two32; cbn; repeat split; repeat constructor; cbn; try discriminate; lia);
    try (apply stable_sorted; reflexivity).
Qed.

(* ======================================================================== *)
(* the shape of what SetMapping / NewToUnicodeFile produce                     *)
(* All *_bytes theorems (setmapping_lookup_bytes, setmapping_lookup_chain, tounicode_rt_bytes, ...) are keyed by
   byte STRINGS: a code is the list of its bytes, so <41>, <0041> and <000041> are three different keys and the
   length is part of the key.  The model groups the entries by key_of (ALL bytes but the last; equal prefixes
   have equal lengths) and only then looks at the last byte: codes of different lengths never share a run. *)

(* every produced range has one prefix (all-but-last bytes) for First and Last - hence equal lengths -,
   First's last byte <= Last's last byte < 256, and every code of the range is a key of the map; every single
   is an entry of the map (so codes keep their lengths) *)
Theorem setmapping_ranges_wf :
  forall csr f es,
    NoDup (map fst es) -> wf_entries N es -> cid_ok es ->
    Forall (crange_out_wf es) (c_ranges (set_mapping_bytes csr f es)) /\
    Forall (fun s => In s es) (c_singles (set_mapping_bytes csr f es)).
Proof. exact setmapping_ranges_wf_lemma. Qed.
Print Assumptions setmapping_ranges_wf.

(* the same for ToUnicode files, and the value list has one element or exactly one per code *)
Theorem tounicode_ranges_wf :
  forall csr es,
    wf_entries text es ->
    Forall (trange_out_wf es) (t_ranges (new_tounicode_bytes csr es)) /\
    Forall (fun s => In s es) (t_singles (new_tounicode_bytes csr es)).
Proof. exact tounicode_ranges_wf_lemma. Qed.
Print Assumptions tounicode_ranges_wf.

(* the code space <20>-<FF>, <0000>-<1FFF>: <41> and <0042> are numeric neighbours with consecutive CIDs, so are
   <FF> and <0100>; they stay apart, only <0042>,<0043> form a range *)
Definition lz_csr : list csrange := [([32], [255]); ([0; 0], [31; 255])].

Example ex_leading_zero_codes :
  let data := [(65, 5); (16896, 6); (17152, 7); (255, 9); (1, 10)] in   (* <41>, <0042>, <0043>, <FF>, <0100> as Codes *)
  map (fun d => append_code lz_csr (fst d)) data = [[65]; [0; 66]; [0; 67]; [255]; [1; 0]] /\
  let f := set_mapping lz_csr (CFile [] [] [] [] [] None) data in
  c_singles f = [([65], 5); ([255], 9); ([1; 0], 10)] /\ c_ranges f = [([0; 66], [0; 67], 6)] /\
  map (lookup_cid f) [[65]; [0; 66]; [0; 67]; [255]; [1; 0]; [0; 65]; [66]] = [5; 6; 7; 9; 10; 0; 0].
Proof. vm_compute. repeat split; reflexivity. Qed.

Example ex_leading_zero_text :
  let es := [([65], [97]); ([0; 66], [98]); ([0; 67], [99]); ([255], [120]); ([1; 0], [121])] in
  let f := new_tounicode_bytes lz_csr es in
  t_singles f = [([65], [97]); ([255], [120]); ([1; 0], [121])] /\ t_ranges f = [([0; 66], [0; 67], [[98]])] /\
  map (lookup_tu f) [[65]; [0; 66]; [0; 67]; [255]; [1; 0]; [0; 65]] = [Some [97]; Some [98]; Some [99]; Some [120]; Some [121]; None].
Proof. vm_compute. repeat split; reflexivity. Qed.
