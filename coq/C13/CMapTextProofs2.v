(* C13 text level, proofs part 2: read_tokens (write_tokens t) = Some (normalize t). *)
From Coq Require Import List NArith ZArith Bool Arith Lia ZifyN ZifyNat ZifyBool Permutation.
From GoPdf.Base Require Import Bytes.
From GoPdf.Gen Require Import Gen_C13.
From GoPdf.C13 Require Import CMapRanges CMapText CMapTextProofs1.
Import ListNotations.
Open Scope N_scope.

(* ---- fuel ------------------------------------------------------------------ *)

Lemma read_blocks_mono f : forall ts mi r f', read_blocks f ts mi = Some r -> (f <= f')%nat -> read_blocks f' ts mi = Some r.
Proof.
  induction f as [|f IH]; intros ts mi r f' H Hle; [discriminate|].
  destruct f' as [|f']; [lia|]. cbn [read_blocks] in H |- *.
  destruct ts as [|[z|s|n|e|vs] ts]; try discriminate.
  - destruct ts as [|[z2|s2|n2|b|vs2] rest]; try discriminate.
    destruct (block_count z) as [n|]; [|discriminate]. destruct (kind_of_begin b) as [k|]; [|discriminate].
    destruct (take_block k n rest mi) as [[mi' [|[z3|s3|n3|e|vs3] r']]|]; try discriminate.
    destruct (bytes_eqb e (end_name k)); [|discriminate]. eapply IH; [exact H|lia].
  - destruct (bytes_eqb e n_endcmap); [assumption|].
    destruct (bytes_eqb e n_endcodespacerange); [|discriminate]. eapply IH; [exact H|lia].
Qed.

(* ---- sorting --------------------------------------------------------------- *)

Section SortLemmas.
  Variable A : Type.
  Variable leb : A -> A -> bool.

  Lemma insert_by_perm a (l : list A) : Permutation (insert_by leb a l) (a :: l).
  Proof.
    induction l as [|x l IH]; cbn [insert_by]; [apply Permutation_refl|].
    destruct (leb a x); [apply Permutation_refl|].
    eapply Permutation_trans; [apply perm_skip; exact IH|apply perm_swap].
  Qed.

  Lemma sort_by_perm (l : list A) : Permutation (sort_by leb l) l.
  Proof.
    induction l as [|a l IH]; cbn [sort_by]; [apply Permutation_refl|].
    eapply Permutation_trans; [apply insert_by_perm|apply perm_skip; exact IH].
  Qed.

  Lemma sort_by_forall (P : A -> Prop) (l : list A) : Forall P l -> Forall P (sort_by leb l).
  Proof.
    intros H. rewrite Forall_forall in *. intros x Hx. apply H.
    eapply Permutation_in; [apply sort_by_perm|exact Hx].
  Qed.
End SortLemmas.

Lemma sort_by_map {A B} (f : A -> B) (lebA : A -> A -> bool) (lebB : B -> B -> bool) (l : list A) :
  (forall a b, lebB (f a) (f b) = lebA a b) ->
  sort_by lebB (map f l) = map f (sort_by lebA l).
Proof.
  intros H. induction l as [|a l IH]; [reflexivity|]. cbn [map sort_by]. rewrite IH.
  generalize (sort_by lebA l) as s. induction s as [|x s IHs]; [reflexivity|].
  cbn [map insert_by]. rewrite H. destruct (lebA a x); [reflexivity|]. cbn [map]. rewrite IHs. reflexivity.
Qed.

Definition single_leb {V} (a b : bytes * V) : bool := bytes_leb (fst a) (fst b).
Definition range_leb {V} (a b : bytes * bytes * V) : bool := bytes_leb (fst (fst a)) (fst (fst b)).

(* ---- readCMap's filters are the identity on well-formed lists ---------------- *)

Definition single_wf (s : bytes * N) : Prop := fst s <> [] /\ snd s < two32.
Definition crange_full_wf (r : crange) : Prop :=
  let '(f, l, v) := r in length f = length l /\ f <> [] /\ bytes_leb f l = true /\ v < two32.
Definition csr_wf (r : csrange) : Prop := length (fst r) = length (snd r) /\ fst r <> [].

Lemma nonempty_true (b : bytes) : b <> [] -> nonempty b = true.
Proof. destruct b; [congruence|reflexivity]. Qed.

Lemma conv_chars_id (xs : list (bytes * N)) : Forall single_wf xs -> conv_chars (zsingles xs) = xs.
Proof.
  induction xs as [|[c v] xs IH]; intros H; [reflexivity|].
  inversion H as [|? ? [H1 H2] H3]; subst. cbn [fst snd] in *.
  unfold conv_chars, zsingles in *. cbn [map flat_map fst snd]. rewrite nonempty_true by assumption.
  assert (E : ((0 <=? Z.of_N v)%Z && (Z.of_N v <=? max_cid)%Z) = true) by (unfold max_cid, two32 in *; lia).
  cbn [andb]. rewrite E. cbn [app]. rewrite N2Z.id. f_equal. apply IH. assumption.
Qed.

Lemma conv_ranges_id (xs : list crange) : Forall crange_full_wf xs -> conv_ranges (zranges xs) = xs.
Proof.
  induction xs as [|[[f l] v] xs IH]; intros H; [reflexivity|].
  inversion H as [|? ? Hw H3]; subst. unfold crange_full_wf in Hw. destruct Hw as (H1 & H2 & _ & H4).
  unfold conv_ranges, zranges in *. cbn [map flat_map]. cbv beta iota. change byte with N in *. rewrite H1, Nat.eqb_refl.
  rewrite nonempty_true by assumption.
  assert (E : ((0 <=? Z.of_N v)%Z && (Z.of_N v <=? max_cid)%Z) = true) by (unfold max_cid, two32 in *; lia).
  cbn [andb]. apply andb_true_iff in E as [E1 E2]. rewrite E1, E2. cbn [andb app]. rewrite N2Z.id. f_equal. apply IH. assumption.
Qed.

Lemma conv_csr_id (xs : list csrange) : Forall csr_wf xs -> conv_csr xs = xs.
Proof.
  induction xs as [|[lo hi] xs IH]; intros H; [reflexivity|].
  inversion H as [|? ? [H1 H2] H3]; subst. cbn [fst snd] in *.
  unfold conv_csr in *. cbn [filter fst snd]. change byte with N in *. rewrite H1, Nat.eqb_refl.
  rewrite nonempty_true by assumption. cbn [andb]. f_equal. apply IH. assumption.
Qed.

Definition tsingle_wf (s : bytes * text) : Prop := fst s <> [] /\ valid_text (snd s).
Definition trange_full_wf (r : trange) : Prop :=
  let '(f, l, vals) := r in length f = length l /\ f <> [] /\ bytes_leb f l = true /\ Forall valid_text vals.

Lemma conv_bfchars_id (xs : list (bytes * text)) : Forall tsingle_wf xs -> conv_bfchars (ebfchars xs) = xs.
Proof.
  induction xs as [|[c v] xs IH]; intros H; [reflexivity|].
  inversion H as [|? ? [H1 H2] H3]; subst. cbn [fst snd] in *.
  unfold conv_bfchars, ebfchars in *. cbn [map flat_map fst snd]. rewrite nonempty_true by assumption.
  rewrite utf16be_rt_lemma by assumption. cbn [app]. f_equal. apply IH. assumption.
Qed.

Lemma map_dec_enc (vals : list text) :
  Forall valid_text vals ->
  map (fun s => match utf16be_dec s with Some t => t | None => [65533] end) (map utf16be_enc vals) = vals.
Proof.
  induction vals as [|v vals IH]; intros H; [reflexivity|]. inversion H; subst.
  cbn [map]. rewrite utf16be_rt_lemma by assumption. f_equal. apply IH. assumption.
Qed.

Lemma conv_bfranges_id (xs : list trange) : Forall trange_full_wf xs -> conv_bfranges (ebfranges xs) = xs.
Proof.
  induction xs as [|[[f l] vals] xs IH]; intros H; [reflexivity|].
  inversion H as [|? ? Hw H3]; subst. unfold trange_full_wf in Hw. destruct Hw as (H1 & H2 & _ & H4).
  unfold conv_bfranges, ebfranges in *. cbn [map flat_map]. cbv beta iota. change byte with N in *. rewrite H1, Nat.eqb_refl.
  rewrite nonempty_true by assumption. cbn [andb].
  unfold dst_of. destruct vals as [|v [|v2 vals]].
  - cbn [map app]. f_equal. apply IH. assumption.
  - inversion H4; subst. rewrite utf16be_rt_lemma by assumption. cbn [app]. f_equal. apply IH. assumption.
  - rewrite map_dec_enc by assumption. cbn [app]. f_equal. apply IH. assumption.
Qed.

(* ---- the body: code space block, chunked blocks, endcmap ------------------- *)

Lemma forall_chunks {A} (P : A -> Prop) (x : list A) : Forall P x -> Forall (Forall P) (chunks x).
Proof.
  intros H. rewrite <- (chunks_concat x) in H. revert H. generalize (chunks x) as cs.
  induction cs as [|c cs IH]; intros H; [constructor|].
  cbn [concat] in H. apply Forall_app in H as [H1 H2]. constructor; auto.
Qed.

Lemma chunk_side {A} (P : list A -> Prop) (x : list A) :
  Forall P (chunks x) -> Forall (fun c => (1 <= length c <= 100)%nat /\ P c) (chunks x).
Proof.
  intros H. pose proof (chunks_sizes x) as Hs. rewrite Forall_forall in *. intros c Hc. split; auto.
Qed.

Lemma read_csr_block csr rest mi fuel :
  (length csr <= 100)%nat -> Forall csr_wf csr ->
  read_blocks (S fuel) (csr_tokens csr ++ rest) mi = read_blocks fuel rest (add_items KCsr mi csr [] [] [] []).
Proof.
  intros Hlen Hwf. destruct csr as [|r0 csr'].
  - cbn [csr_tokens app read_blocks add_items].
    change (bytes_eqb n_endcodespacerange n_endcmap) with false. rewrite bytes_eqb_refl.
    rewrite app_nil_r. destruct mi; reflexivity.
  - set (csr := r0 :: csr') in *. unfold csr_tokens. fold csr.
    change (match csr with [] => [TExec n_endcodespacerange] | _ :: _ =>
              TInt (Z.of_nat (length csr)) :: TExec n_begincodespacerange ::
              flat_map (fun r => [TStr (fst r); TStr (snd r)]) csr ++ [TExec n_endcodespacerange] end)
      with (TInt (Z.of_nat (length csr)) :: TExec n_begincodespacerange ::
              flat_map (fun r => [TStr (fst r); TStr (snd r)]) csr ++ [TExec n_endcodespacerange]).
    cbn [app]. rewrite <- app_assoc. cbn [app].
    apply (read_blocks_block KCsr n_begincodespacerange (length csr)); [reflexivity|assumption|].
    cbn [take_block end_name]. rewrite take_csr_entries; [reflexivity|].
    rewrite Forall_forall in *. intros r Hr. apply Hwf. assumption.
Qed.

Lemma read_endcmap fuel rest mi : read_blocks (S fuel) (TExec n_endcmap :: rest) mi = Some (mi, rest).
Proof. cbn [read_blocks]. rewrite bytes_eqb_refl. reflexivity. Qed.

(* the four kinds of blocks of a CID CMap and the two of a ToUnicode CMap *)
Lemma read_cidchar_blocks xs rest mi fuel :
  read_blocks (length (chunks xs) + fuel) (blocks n_begincidchar n_endcidchar single_entry xs ++ rest) mi
  = read_blocks fuel rest (add_items KCidChar mi [] (zsingles xs) [] [] []).
Proof.
  unfold blocks. change n_endcidchar with (end_name KCidChar).
  rewrite (read_blocks_chunks _ KCidChar n_begincidchar single_entry
             (fun mi ys => add_items KCidChar mi [] (zsingles ys) [] [] []) (fun _ => True)).
  - rewrite chunks_concat. reflexivity.
  - reflexivity.
  - intros ys r m _. cbn [take_block end_name]. rewrite take_chars_entries. reflexivity.
  - intros m ys zs. cbn [add_items mi_csr mi_cidchars mi_cidranges mi_ndchars mi_ndranges mi_bfchars mi_bfranges].
    unfold zsingles. rewrite map_app, app_assoc. reflexivity.
  - intros m. cbn [add_items zsingles map]. rewrite app_nil_r. destruct m; reflexivity.
  - apply chunk_side. apply Forall_forall. auto.
Qed.

Lemma read_ndchar_blocks xs rest mi fuel :
  read_blocks (length (chunks xs) + fuel) (blocks n_beginnotdefchar n_endnotdefchar single_entry xs ++ rest) mi
  = read_blocks fuel rest (add_items KNdChar mi [] (zsingles xs) [] [] []).
Proof.
  unfold blocks. change n_endnotdefchar with (end_name KNdChar).
  rewrite (read_blocks_chunks _ KNdChar n_beginnotdefchar single_entry
             (fun mi ys => add_items KNdChar mi [] (zsingles ys) [] [] []) (fun _ => True)).
  - rewrite chunks_concat. reflexivity.
  - reflexivity.
  - intros ys r m _. cbn [take_block end_name]. rewrite take_chars_entries. reflexivity.
  - intros m ys zs. cbn [add_items mi_csr mi_cidchars mi_cidranges mi_ndchars mi_ndranges mi_bfchars mi_bfranges].
    unfold zsingles. rewrite map_app, app_assoc. reflexivity.
  - intros m. cbn [add_items zsingles map]. rewrite app_nil_r. destruct m; reflexivity.
  - apply chunk_side. apply Forall_forall. auto.
Qed.

Lemma crange_full_wf_wf r : crange_full_wf r -> crange_wf r.
Proof. destruct r as [[f l] v]. unfold crange_full_wf, crange_wf. tauto. Qed.

Lemma read_cidrange_blocks xs rest mi fuel :
  Forall crange_full_wf xs ->
  read_blocks (length (chunks xs) + fuel) (blocks n_begincidrange n_endcidrange range_entry xs ++ rest) mi
  = read_blocks fuel rest (add_items KCidRange mi [] [] (zranges xs) [] []).
Proof.
  intros Hwf. unfold blocks. change n_endcidrange with (end_name KCidRange).
  rewrite (read_blocks_chunks _ KCidRange n_begincidrange range_entry
             (fun mi ys => add_items KCidRange mi [] [] (zranges ys) [] []) (Forall crange_wf)).
  - rewrite chunks_concat. reflexivity.
  - reflexivity.
  - intros ys r m Hy. cbn [take_block end_name]. rewrite take_ranges_entries by assumption. reflexivity.
  - intros m ys zs. cbn [add_items mi_csr mi_cidchars mi_cidranges mi_ndchars mi_ndranges mi_bfchars mi_bfranges].
    unfold zranges. rewrite map_app, app_assoc. reflexivity.
  - intros m. cbn [add_items zranges map]. rewrite app_nil_r. destruct m; reflexivity.
  - apply chunk_side. apply forall_chunks. eapply Forall_impl; [|exact Hwf]. apply crange_full_wf_wf.
Qed.

Lemma read_ndrange_blocks xs rest mi fuel :
  Forall crange_full_wf xs ->
  read_blocks (length (chunks xs) + fuel) (blocks n_beginnotdefrange n_endnotdefrange range_entry xs ++ rest) mi
  = read_blocks fuel rest (add_items KNdRange mi [] [] (zranges xs) [] []).
Proof.
  intros Hwf. unfold blocks. change n_endnotdefrange with (end_name KNdRange).
  rewrite (read_blocks_chunks _ KNdRange n_beginnotdefrange range_entry
             (fun mi ys => add_items KNdRange mi [] [] (zranges ys) [] []) (Forall crange_wf)).
  - rewrite chunks_concat. reflexivity.
  - reflexivity.
  - intros ys r m Hy. cbn [take_block end_name]. rewrite take_ranges_entries by assumption. reflexivity.
  - intros m ys zs. cbn [add_items mi_csr mi_cidchars mi_cidranges mi_ndchars mi_ndranges mi_bfchars mi_bfranges].
    unfold zranges. rewrite map_app, app_assoc. reflexivity.
  - intros m. cbn [add_items zranges map]. rewrite app_nil_r. destruct m; reflexivity.
  - apply chunk_side. apply forall_chunks. eapply Forall_impl; [|exact Hwf]. apply crange_full_wf_wf.
Qed.

Lemma read_bfchar_blocks xs rest mi fuel :
  read_blocks (length (chunks xs) + fuel) (blocks n_beginbfchar n_endbfchar bfchar_entry xs ++ rest) mi
  = read_blocks fuel rest (add_items KBfChar mi [] [] [] (ebfchars xs) []).
Proof.
  unfold blocks. change n_endbfchar with (end_name KBfChar).
  rewrite (read_blocks_chunks _ KBfChar n_beginbfchar bfchar_entry
             (fun mi ys => add_items KBfChar mi [] [] [] (ebfchars ys) []) (fun _ => True)).
  - rewrite chunks_concat. reflexivity.
  - reflexivity.
  - intros ys r m _. cbn [take_block end_name]. rewrite take_bfchars_entries. reflexivity.
  - intros m ys zs. cbn [add_items mi_csr mi_cidchars mi_cidranges mi_ndchars mi_ndranges mi_bfchars mi_bfranges].
    unfold ebfchars. rewrite map_app, app_assoc. reflexivity.
  - intros m. cbn [add_items ebfchars map]. rewrite app_nil_r. destruct m; reflexivity.
  - apply chunk_side. apply Forall_forall. auto.
Qed.

Lemma trange_full_wf_wf r : trange_full_wf r -> trange_wf r.
Proof. destruct r as [[f l] v]. unfold trange_full_wf, trange_wf. tauto. Qed.

(* any list of bfrange blocks that stay within the operand stack of the interpreter *)
Lemma read_bfrange_chunklist (cs : list (list trange)) rest mi fuel :
  Forall (fun c => (1 <= length c <= 100)%nat /\ Forall trange_wf c /\ depth_ok 0 c = true) cs ->
  read_blocks (length cs + fuel) (flat_map (block n_beginbfrange n_endbfrange bfrange_entry) cs ++ rest) mi
  = read_blocks fuel rest (add_items KBfRange mi [] [] [] [] (ebfranges (concat cs))).
Proof.
  intros H. change n_endbfrange with (end_name KBfRange).
  apply (read_blocks_chunks _ KBfRange n_beginbfrange bfrange_entry
             (fun mi ys => add_items KBfRange mi [] [] [] [] (ebfranges ys))
             (fun c => Forall trange_wf c /\ depth_ok 0 c = true)).
  - reflexivity.
  - intros ys r m [Hy Hdy]. cbn [take_block end_name]. rewrite take_bfranges_entries by assumption. reflexivity.
  - intros m ys zs. cbn [add_items mi_csr mi_cidchars mi_cidranges mi_ndchars mi_ndranges mi_bfchars mi_bfranges].
    unfold ebfranges. rewrite map_app, app_assoc. reflexivity.
  - intros m. cbn [add_items ebfranges map]. rewrite app_nil_r. destruct m; reflexivity.
  - eapply Forall_impl; [|exact H]. cbn beta. tauto.
Qed.

Lemma forall_concat_split {A} (P : A -> Prop) (cs : list (list A)) : Forall P (concat cs) -> Forall (Forall P) cs.
Proof.
  induction cs as [|c cs IH]; intros H; [constructor|].
  cbn [concat] in H. apply Forall_app in H as [H1 H2]. constructor; auto.
Qed.

Lemma read_bfrange_blocks xs rest mi fuel :
  Forall trange_full_wf xs -> lists_ok xs ->
  read_blocks (length (range_chunks xs) + fuel)
              (flat_map (block n_beginbfrange n_endbfrange bfrange_entry) (range_chunks xs) ++ rest) mi
  = read_blocks fuel rest (add_items KBfRange mi [] [] [] [] (ebfranges xs)).
Proof.
  intros Hwf Hl. destruct (range_chunks_spec xs Hl) as [C1 C2].
  rewrite read_bfrange_chunklist; [rewrite C1; reflexivity|].
  assert (H1 : Forall (Forall trange_wf) (range_chunks xs)).
  { apply forall_concat_split. rewrite C1. eapply Forall_impl; [|exact Hwf]. apply trange_full_wf_wf. }
  rewrite Forall_forall in *. intros c Hc. destruct (C2 c Hc). auto.
Qed.
