(* C13 - executable model of font/cmap: SetMapping / LookupCID / All (file.go, mapping.go),
   NewToUnicodeFile / Lookup / All / GetMapping (tounicode.go, tu-mapping.go), rangeIndex
   (file.go) and codesInRange (range.go).  Definitions and Fixpoints only.

   Correspondence with the Go source (as it is NOW, i.e. with the F13 repair):

     in_box / in_csr          "codec.Decode(s) is valid and consumes all of s" (the C12 specification
                              of charcode.Codec: s lies in a code space range of its own length)
     code_of_bytes, le_bytes  charcode.Code: the bytes of a code, first byte least significant
     append_code              Codec.AppendCode on codes of the code space
     range_index              rangeIndex (int64 accumulator, MaxInt32 cap)
     range_is_valid,
     next_code, codes_in_range   rangeIsValid, the odometer step of codesInRange, its enumeration
     sort_entries, build_runs the map `ranges` keyed by all-but-last byte, keys sorted with
                              slices.Compare, each group sorted by last byte; the loop
                              `for i := 1; i <= len(info); i++` that cuts runs
     singles_of, ranges_of    the `if i-start > 1 {Range} else {Single}` branches
     cid_link, cid_add        `data[info[i].code] != data[info[i-1].code]+1`, `r.Value + CID(index)` (uint32)
     next_string              nextString ([]rune(s); rr[len-1] += rune(inc); string(rr))
     needs_list               the needsList loop of NewToUnicodeFile (compares with nextString(first, j+1-start))
     needs_list_pairwise      the same loop BEFORE the F13 repair (nextString(previous, 1)); kept to document F13
     lookup_cid_opt, lookup_cid, lookup_notdef, all_cid
                              File.LookupCID (chain loop, then the file's own LookupNotdefCID), File.LookupNotdefCID, File.All
     lookup_cid_prefix        LookupCID BEFORE the F31 repair; kept to document F31
     parent_maps              the omission test of SetMapping (Parent.lookupMapped gives the same CID)
     set_mapping_bytes_prefix SetMapping BEFORE the F34 repair (omission test Parent.LookupCID == cid); kept to document F34
     lookup_tu, all_tu, get_mapping          ToUnicodeFile.Lookup, .All, .GetMapping

   Text is modelled as the list of its runes.  For strings that are valid UTF-8 (every rune a
   Unicode scalar value) Go's string equality is equality of rune lists and string([]rune(s)) = s;
   strings that are not valid UTF-8 are outside the model (they cannot be written to a ToUnicode
   CMap, which stores UTF-16). *)
From Coq Require Import List NArith ZArith Bool Arith.
From GoPdf.Base Require Import Bytes.
From GoPdf.Gen Require Import Gen_C13.
Import ListNotations.
Open Scope N_scope.

(* ------------------------------------------------------------------------ *)
(* code space, codes                                                         *)

Definition csrange := (bytes * bytes)%type.

(* s has the length of lo/hi and lies between them byte by byte *)
Fixpoint in_box (lo hi s : bytes) : bool :=
  match lo, hi, s with
  | [], [], [] => true
  | l :: lo', h :: hi', b :: s' => (l <=? b) && (b <=? h) && in_box lo' hi' s'
  | _, _, _ => false
  end.

Definition in_csr (csr : list csrange) (s : bytes) : bool :=
  existsb (fun r => in_box (fst r) (snd r) s) csr.

Fixpoint code_of_bytes (s : bytes) : N :=
  match s with
  | [] => 0
  | b :: s' => b + 256 * code_of_bytes s'
  end.

Fixpoint le_bytes (k : nat) (c : N) : bytes :=
  match k with
  | O => []
  | S k' => (c mod 256) :: le_bytes k' (c / 256)
  end.

(* AppendCode for a code of the code space: the shortest little-endian prefix that is a code *)
Definition append_code (csr : list csrange) (c : N) : bytes :=
  if in_csr csr (le_bytes 1 c) then le_bytes 1 c
  else if in_csr csr (le_bytes 2 c) then le_bytes 2 c
  else if in_csr csr (le_bytes 3 c) then le_bytes 3 c
  else le_bytes 4 c.

(* codec.Decode(s) = (code, len(s), true) *)
Definition decode_full (csr : list csrange) (s : bytes) : option N :=
  if in_csr csr s then Some (code_of_bytes s) else None.

(* ------------------------------------------------------------------------ *)
(* rangeIndex and codesInRange                                               *)

Definition max_int32 : N := 2147483647.

Fixpoint range_index_acc (first last code : bytes) (acc : N) : option N :=
  match first, last, code with
  | [], [], [] => Some acc
  | f :: fs, l :: ls, b :: bs =>
      if (b <? f) || (l <? b) then None
      else
        let acc' := acc * (l - f + 1) + (b - f) in
        if max_int32 <? acc' then None else range_index_acc fs ls bs acc'
  | _, _, _ => None
  end.

Definition range_index (first last code : bytes) : option N :=
  range_index_acc first last code 0.

Fixpoint box_ok (first last : bytes) : bool :=
  match first, last with
  | [], [] => true
  | f :: fs, l :: ls => (f <=? l) && box_ok fs ls
  | _, _ => false
  end.

Definition range_is_valid (first last : bytes) : bool :=
  match first with
  | [] => false
  | _ => box_ok first last
  end.

(* one step of the odometer in codesInRange: None when pos runs below 0 *)
Fixpoint next_code (first last buf : bytes) : option bytes :=
  match first, last, buf with
  | f :: fs, l :: ls, b :: bs =>
      match next_code fs ls bs with
      | Some bs' => Some (b :: bs')
      | None => if b <? l then Some ((b + 1) :: fs) else None
      end
  | _, _, _ => None
  end.

(* [lo, lo+1, ..., lo+n-1] *)
Fixpoint n_seq (lo : N) (n : nat) : list N :=
  match n with
  | O => []
  | S n' => lo :: n_seq (lo + 1) n'
  end.

Definition n_range (lo hi : N) : list N := n_seq lo (N.to_nat (hi + 1 - lo)).

(* the sequence the odometer produces: last byte fastest *)
Fixpoint codes_in_box (first last : bytes) : list bytes :=
  match first, last with
  | [], [] => [[]]
  | f :: fs, l :: ls => flat_map (fun b => map (cons b) (codes_in_box fs ls)) (n_range f l)
  | _, _ => []
  end.

Definition codes_in_range (first last : bytes) : list bytes :=
  if range_is_valid first last then codes_in_box first last else [].

(* pairs (index, element), index counted from i *)
Fixpoint number_from {A} (i : N) (l : list A) : list (N * A) :=
  match l with
  | [] => []
  | x :: l' => (i, x) :: number_from (i + 1) l'
  end.

Fixpoint firstn_N {A} (n : N) (l : list A) : list A :=
  match l with
  | [] => []
  | x :: l' => if n =? 0 then [] else x :: firstn_N (n - 1) l'
  end.

Definition budget : N := Z.to_N MaxCMapMappings.

(* ------------------------------------------------------------------------ *)
(* generic part: one CMap level with values of type V                        *)

Section Generic.
  Variable V : Type.
  (* value of the code at position i >= length of a range's value list *)
  Variable next : V -> N -> V.
  (* may two neighbouring codes with these values stay in one run? *)
  Variable link : V -> V -> bool.
  (* value list stored for a run of at least two codes *)
  Variable mkvals : list V -> list V.

  Definition entry := (bytes * V)%type.
  Definition grange := (bytes * bytes * list V)%type.

  Fixpoint find_single (ss : list entry) (c : bytes) : option V :=
    match ss with
    | [] => None
    | (k, v) :: ss' => if bytes_eqb k c then Some v else find_single ss' c
    end.

  Definition range_value (vals : list V) (i : N) : option V :=
    if i <? N.of_nat (length vals) then nth_error vals (N.to_nat i)
    else match vals with
         | v0 :: _ => Some (next v0 i)
         | [] => None
         end.

  Fixpoint find_range (rs : list grange) (c : bytes) : option V :=
    match rs with
    | [] => None
    | (f, l, vals) :: rs' =>
        match vals with
        | [] => find_range rs' c
        | _ =>
            match range_index f l c with
            | Some i => range_value vals i
            | None => find_range rs' c
            end
        end
    end.

  (* singles first, then ranges *)
  Definition own_lookup (ss : list entry) (rs : list grange) (c : bytes) : option V :=
    match find_single ss c with
    | Some v => Some v
    | None => find_range rs c
    end.

  Definition range_entries (r : grange) : list entry :=
    let '(f, l, vals) := r in
    match vals with
    | [] => []
    | _ =>
        flat_map (fun ic => match range_value vals (fst ic) with
                            | Some v => [(snd ic, v)]
                            | None => []
                            end)
                 (number_from 0 (codes_in_range f l))
    end.

  (* ranges first, then singles *)
  Definition own_all (ss : list entry) (rs : list grange) : list entry :=
    flat_map range_entries rs ++ ss.

  (* --- compression --------------------------------------------------------- *)

  Definition key_of (c : bytes) : bytes := removelast c.
  Definition last_of (c : bytes) : N := last c 0.

  (* order of processing: keys by slices.Compare, then the last byte *)
  Definition entry_leb (e1 e2 : entry) : bool :=
    let k1 := key_of (fst e1) in
    let k2 := key_of (fst e2) in
    if bytes_ltb k1 k2 then true
    else if bytes_eqb k1 k2 then last_of (fst e1) <=? last_of (fst e2)
    else false.

  Fixpoint insert_entry (e : entry) (l : list entry) : list entry :=
    match l with
    | [] => [e]
    | x :: l' => if entry_leb e x then e :: x :: l' else x :: insert_entry e l'
    end.

  Fixpoint sort_entries (l : list entry) : list entry :=
    match l with
    | [] => []
    | e :: l' => insert_entry e (sort_entries l')
    end.

  (* same group, `info[i].x == info[i-1].x+1` in byte arithmetic, values allow it *)
  Definition linked (e1 e2 : entry) : bool :=
    bytes_eqb (key_of (fst e1)) (key_of (fst e2))
    && ((last_of (fst e1) + 1) mod 256 =? last_of (fst e2))
    && link (snd e1) (snd e2).

  (* a run: the common key and info[start..i-1] as (last byte, value) *)
  Definition run := (bytes * list (N * V))%type.

  Fixpoint build_runs (es : list entry) : list run :=
    match es with
    | [] => []
    | e :: rest =>
        let rs0 := build_runs rest in
        match rest, rs0 with
        | e2 :: _, (k, items) :: rs =>
            if linked e e2 then (k, (last_of (fst e), snd e) :: items) :: rs
            else (key_of (fst e), [(last_of (fst e), snd e)]) :: (k, items) :: rs
        | _, rs => (key_of (fst e), [(last_of (fst e), snd e)]) :: rs
        end
    end.

  Definition run_single (r : run) : list entry :=
    match snd r with
    | [(x, v)] => [(fst r ++ [x], v)]
    | _ => []
    end.

  Definition run_range (r : run) : list grange :=
    match snd r with
    | (x0, v0) :: _ :: _ =>
        [(fst r ++ [x0], fst r ++ [fst (last (snd r) (x0, v0))], mkvals (map snd (snd r)))]
    | _ => []
    end.

  Definition singles_of (rs : list run) : list entry := flat_map run_single rs.
  Definition ranges_of (rs : list run) : list grange := flat_map run_range rs.

  Definition compress (es : list entry) : list entry * list grange :=
    let rs := build_runs (sort_entries es) in
    (singles_of rs, ranges_of rs).

  (* association-list views used by the statements *)
  Fixpoint assoc (es : list entry) (c : bytes) : option V :=
    match es with
    | [] => None
    | (k, v) :: es' => if bytes_eqb k c then Some v else assoc es' c
    end.

  (* what maps.Collect keeps for c: the last pair with that key *)
  Fixpoint assoc_last (es : list entry) (c : bytes) : option V :=
    match es with
    | [] => None
    | (k, v) :: es' =>
        match assoc_last es' c with
        | Some w => Some w
        | None => if bytes_eqb k c then Some v else None
        end
    end.
End Generic.

Arguments find_single {V}.
Arguments range_value {V}.
Arguments find_range {V}.
Arguments own_lookup {V}.
Arguments range_entries {V}.
Arguments own_all {V}.
Arguments key_of c : simpl never.
Arguments last_of c : simpl never.
Arguments entry_leb {V}.
Arguments insert_entry {V}.
Arguments sort_entries {V}.
Arguments linked {V}.
Arguments build_runs {V}.
Arguments run_single {V}.
Arguments run_range {V}.
Arguments singles_of {V}.
Arguments ranges_of {V}.
Arguments compress {V}.
Arguments assoc {V}.
Arguments assoc_last {V}.

(* ------------------------------------------------------------------------ *)
(* CID CMaps (File)                                                          *)

Definition two32 : N := 4294967296.
Definition cid_add (v i : N) : N := (v + i) mod two32.
Definition cid_link (v1 v2 : N) : bool := (v1 + 1) mod two32 =? v2.
Definition cid_vals (vs : list N) : list N := firstn 1 vs.

Definition crange := (bytes * bytes * N)%type.

Inductive cfile :=
  CFile (csr : list csrange)
        (singles : list (bytes * N)) (ranges : list crange)
        (nd_singles : list (bytes * N)) (nd_ranges : list crange)
        (parent : option cfile).

Definition c_csr f := let 'CFile x _ _ _ _ _ := f in x.
Definition c_singles f := let 'CFile _ x _ _ _ _ := f in x.
Definition c_ranges f := let 'CFile _ _ x _ _ _ := f in x.
Definition c_nd_singles f := let 'CFile _ _ _ x _ _ := f in x.
Definition c_nd_ranges f := let 'CFile _ _ _ _ x _ := f in x.
Definition c_parent f := let 'CFile _ _ _ _ _ x := f in x.

Fixpoint find_crange (rs : list crange) (c : bytes) : option N :=
  match rs with
  | [] => None
  | (f, l, v) :: rs' =>
      match range_index f l c with
      | Some i => Some (cid_add v i)
      | None => find_crange rs' c
      end
  end.

Fixpoint find_box (rs : list crange) (c : bytes) : option N :=
  match rs with
  | [] => None
  | (f, l, v) :: rs' => if in_box f l c then Some v else find_box rs' c
  end.

Fixpoint lookup_notdef (f : cfile) (c : bytes) : N :=
  let 'CFile _ _ _ nds ndr par := f in
  match find_single nds c with
  | Some v => v
  | None =>
      match find_box ndr c with
      | Some v => v
      | None => match par with
                | Some p => lookup_notdef p c
                | None => 0
                end
      end
  end.

(* the loop `for g := f; g != nil; g = g.Parent` of LookupCID: singles, then ranges, of each file of
   the chain; None when the loop falls through *)
Fixpoint lookup_cid_opt (f : cfile) (c : bytes) : option N :=
  let 'CFile _ ss rr _ _ par := f in
  match find_single ss c with
  | Some v => Some v
  | None =>
      match find_crange rr c with
      | Some v => Some v
      | None => match par with
                | Some p => lookup_cid_opt p c
                | None => None
                end
      end
  end.

(* LookupCID: a code not mapped anywhere in the chain gets the notdef entries of the file itself
   (and then, inside LookupNotdefCID, those of its parents) *)
Definition lookup_cid (f : cfile) (c : bytes) : N :=
  match lookup_cid_opt f c with
  | Some v => v
  | None => lookup_notdef f c
  end.

(* LookupCID as it was BEFORE the F31 repair (a file with a parent delegated to Parent.LookupCID and so
   never consulted its own notdef entries); kept to document F31 *)
Fixpoint lookup_cid_prefix (f : cfile) (c : bytes) : N :=
  match find_single (c_singles f) c with
  | Some v => v
  | None =>
      match find_crange (c_ranges f) c with
      | Some v => v
      | None =>
          match f with
          | CFile _ _ _ _ _ (Some p) => lookup_cid_prefix p c
          | CFile _ _ _ _ _ None => lookup_notdef f c
          end
      end
  end.

Definition crange_entries (r : crange) : list (bytes * N) :=
  let '(f, l, v) := r in
  map (fun ic => (snd ic, cid_add v (fst ic))) (number_from 0 (codes_in_range f l)).

(* the chain of files, root first, each contributing its ranges and then its singles *)
Fixpoint raw_all_cid (f : cfile) : list (bytes * N) :=
  let 'CFile _ ss rs _ _ par := f in
  (match par with
   | Some p => raw_all_cid p
   | None => []
   end) ++ flat_map crange_entries rs ++ ss.

Definition decode_entries {V} (csr : list csrange) (l : list (bytes * V)) : list (N * V) :=
  flat_map (fun e => match decode_full csr (fst e) with
                     | Some code => [(code, snd e)]
                     | None => []
                     end) l.

Definition all_cid (csr : list csrange) (f : cfile) : list (N * N) :=
  decode_entries csr (firstn_N budget (raw_all_cid f)).

Definition to_crange (r : grange N) : crange :=
  let '(f, l, vals) := r in (f, l, hd 0 vals).

(* `parentCID, ok := f.Parent.lookupMapped(buf); ok && parentCID == cid`: only a MAPPING of the parent
   chain makes an entry redundant (lookupMapped is lookup_cid_opt) *)
Definition parent_maps (p : cfile) (e : bytes * N) : bool :=
  match lookup_cid_opt p (fst e) with
  | Some w => w =? snd e
  | None => false
  end.

(* SetMapping on the byte strings AppendCode produced *)
Definition set_mapping_bytes (csr : list csrange) (f : cfile) (es : list (bytes * N)) : cfile :=
  let kept := match c_parent f with
              | Some p => filter (fun e => negb (parent_maps p e)) es
              | None => es
              end in
  let sr := compress cid_link cid_vals kept in
  CFile csr (fst sr) (map to_crange (snd sr)) (c_nd_singles f) (c_nd_ranges f) (c_parent f).

(* SetMapping as it was BEFORE the F34 repair (`f.Parent.LookupCID(buf) == cid`: also an answer from
   the parent's notdef entries made an entry redundant); kept to document F34 *)
Definition set_mapping_bytes_prefix (csr : list csrange) (f : cfile) (es : list (bytes * N)) : cfile :=
  let kept := match c_parent f with
              | Some p => filter (fun e => negb (lookup_cid p (fst e) =? snd e)) es
              | None => es
              end in
  let sr := compress cid_link cid_vals kept in
  CFile csr (fst sr) (map to_crange (snd sr)) (c_nd_singles f) (c_nd_ranges f) (c_parent f).

Definition set_mapping (csr : list csrange) (f : cfile) (data : list (N * N)) : cfile :=
  set_mapping_bytes csr f (map (fun d => (append_code csr (fst d), snd d)) data).

(* ------------------------------------------------------------------------ *)
(* ToUnicode CMaps                                                           *)

Definition text := list N.      (* runes *)

Definition valid_rune (r : N) : bool := (r <? 55296) || ((57344 <=? r) && (r <=? 1114111)).
Definition fix_rune (r : N) : N := if valid_rune r then r else 65533.

Fixpoint text_eqb (a b : text) : bool :=
  match a, b with
  | [], [] => true
  | x :: a', y :: b' => (x =? y) && text_eqb a' b'
  | _, _ => false
  end.

(* nextString: the last rune is incremented; string(rr) replaces an invalid rune by U+FFFD.
   (inc <= MaxInt32 and runes <= 10FFFF, so an int32 overflow lands on a negative, i.e. invalid, rune
   exactly when the unbounded sum is above 10FFFF.) *)
Fixpoint next_string (s : text) (inc : N) : text :=
  match s with
  | [] => []
  | [r] => [fix_rune (r + inc)]
  | r :: s' => r :: next_string s' inc
  end.

Fixpoint check_from (v0 : text) (k : N) (rest : list text) : bool :=
  match rest with
  | [] => true
  | v :: rest' => text_eqb v (next_string v0 k) && check_from v0 (k + 1) rest'
  end.

Definition needs_list (vs : list text) : bool :=
  match vs with
  | [] => false
  | v0 :: rest => negb (check_from v0 1 rest)
  end.

Definition tu_vals (vs : list text) : list text :=
  if needs_list vs then vs else firstn 1 vs.

(* the loop as it was before the F13 repair *)
Fixpoint check_pairwise (prev : text) (rest : list text) : bool :=
  match rest with
  | [] => true
  | v :: rest' => text_eqb v (next_string prev 1) && check_pairwise v rest'
  end.

Definition needs_list_pairwise (vs : list text) : bool :=
  match vs with
  | [] => false
  | v0 :: rest => negb (check_pairwise v0 rest)
  end.

Definition tu_vals_pairwise (vs : list text) : list text :=
  if needs_list_pairwise vs then vs else firstn 1 vs.

Definition tu_link (_ _ : text) : bool := true.

Definition trange := (bytes * bytes * list text)%type.

Inductive tfile :=
  TFile (csr : list csrange) (singles : list (bytes * text)) (ranges : list trange)
        (parent : option tfile).

Definition t_csr f := let 'TFile x _ _ _ := f in x.
Definition t_singles f := let 'TFile _ x _ _ := f in x.
Definition t_ranges f := let 'TFile _ _ x _ := f in x.
Definition t_parent f := let 'TFile _ _ _ x := f in x.

(* None stands for ("", false) *)
Fixpoint lookup_tu (f : tfile) (c : bytes) : option text :=
  let 'TFile _ ss rs par := f in
  match own_lookup next_string ss rs c with
  | Some v => Some v
  | None => match par with
            | Some p => lookup_tu p c
            | None => None
            end
  end.

Fixpoint raw_all_tu (f : tfile) : list (bytes * text) :=
  let 'TFile _ ss rs par := f in
  (match par with
   | Some p => raw_all_tu p
   | None => []
   end) ++ own_all next_string ss rs.

Definition all_tu (csr : list csrange) (f : tfile) : list (N * text) :=
  decode_entries csr (firstn_N budget (raw_all_tu f)).

Definition new_tounicode_bytes (csr : list csrange) (es : list (bytes * text)) : tfile :=
  let sr := compress tu_link tu_vals es in
  TFile csr (fst sr) (snd sr) None.

Definition new_tounicode (csr : list csrange) (data : list (N * text)) : tfile :=
  new_tounicode_bytes csr (map (fun d => (append_code csr (fst d), snd d)) data).

(* the constructor as it was before the F13 repair *)
Definition new_tounicode_bytes_pairwise (csr : list csrange) (es : list (bytes * text)) : tfile :=
  let sr := compress tu_link tu_vals_pairwise es in
  TFile csr (fst sr) (snd sr) None.

Definition with_parent (f : tfile) (p : option tfile) : tfile :=
  TFile (t_csr f) (t_singles f) (t_ranges f) p.

(* maps.Collect: later pairs replace earlier ones; kept sorted by code for comparison *)
Fixpoint put {V} (k : N) (v : V) (m : list (N * V)) : list (N * V) :=
  match m with
  | [] => [(k, v)]
  | (k', v') :: m' =>
      if k <? k' then (k, v) :: (k', v') :: m'
      else if k =? k' then (k, v) :: m'
      else (k', v') :: put k v m'
  end.

Definition collect {V} (l : list (N * V)) : list (N * V) :=
  fold_left (fun m kv => put (fst kv) (snd kv) m) l [].

(* GetMapping: All with the codec of the file's own code space *)
Definition get_mapping (f : tfile) : list (N * text) :=
  collect (all_tu (t_csr f) f).
