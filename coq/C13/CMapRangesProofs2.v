(* C13 proofs, part 2: the run compression shared by SetMapping and NewToUnicodeFile.
   Generic in the value type; the two instances are in part 3. *)
From Coq Require Import List NArith Bool Arith Lia ZifyN ZifyNat ZifyBool Permutation.
From GoPdf.Base Require Import Bytes.
From GoPdf.C13 Require Import CMapRanges CMapRangesProofs1.
Import ListNotations.
Open Scope N_scope.

(* ---- byte strings ------------------------------------------------------ *)

Lemma bytes_eqb_sym a b : bytes_eqb a b = bytes_eqb b a.
Proof.
  destruct (bytes_eqb a b) eqn:E1, (bytes_eqb b a) eqn:E2; auto.
  - apply bytes_eqb_eq in E1. subst. rewrite bytes_eqb_refl in E2. discriminate.
  - apply bytes_eqb_eq in E2. subst. rewrite bytes_eqb_refl in E1. discriminate.
Qed.

Lemma bytes_ltb_irrefl a : bytes_ltb a a = false.
Proof.
  induction a as [|x a IH]; cbn [bytes_ltb]; [reflexivity|].
  rewrite N.ltb_irrefl, N.eqb_refl, IH. reflexivity.
Qed.

Lemma bytes_ltb_total a : forall b, bytes_ltb a b = false -> bytes_eqb a b = false -> bytes_ltb b a = true.
Proof.
  induction a as [|x a IH]; intros [|y b]; cbn [bytes_ltb bytes_eqb]; try discriminate; auto.
  intros H1 H2. apply orb_false_iff in H1 as [H1 H3]. apply N.ltb_ge in H1.
  destruct (N.eq_dec x y) as [->|Hne].
  - rewrite N.eqb_refl in *. cbn [andb] in *. rewrite N.ltb_irrefl. cbn [orb]. apply IH; assumption.
  - assert (E : y <? x = true) by (apply N.ltb_lt; lia). rewrite E. reflexivity.
Qed.

Definition wf_code (c : bytes) : Prop := c <> [] /\ Forall (fun b => b < 256) c.

Lemma key_last c : c <> [] -> c = key_of c ++ [last_of c].
Proof. intros H. unfold key_of, last_of. apply app_removelast_last. assumption. Qed.

Lemma last_of_lt c : wf_code c -> last_of c < 256.
Proof.
  intros [H1 H2]. unfold last_of. rewrite Forall_forall in H2. apply H2.
  rewrite (app_removelast_last 0 H1) at 2. apply in_or_app. right. left. reflexivity.
Qed.

Lemma key_of_app k x : key_of (k ++ [x]) = k.
Proof. unfold key_of. apply removelast_last. Qed.

Lemma last_of_app k x : last_of (k ++ [x]) = x.
Proof. unfold last_of. apply last_last. Qed.

(* ---- a range that differs in the last byte only ------------------------- *)

Lemma in_box_lastbyte k : forall x0 x1 c,
  in_box (k ++ [x0]) (k ++ [x1]) c = true <-> exists b, c = k ++ [b] /\ x0 <= b /\ b <= x1.
Proof.
  induction k as [|kb k IH]; intros x0 x1 c.
  - cbn [app]. destruct c as [|b [|b' c']]; cbn [in_box].
    + split; [discriminate|]. intros (b & H & _). discriminate.
    + rewrite andb_true_r, andb_true_iff, !N.leb_le. split.
      * intros [H1 H2]. exists b. auto.
      * intros (b0 & H & H1 & H2). inversion H; subst. auto.
    + rewrite andb_false_r. split; [discriminate|]. intros (b0 & H & _). discriminate.
  - cbn [app]. destruct c as [|b c']; cbn [in_box].
    + split; [discriminate|]. intros (b & H & _). discriminate.
    + rewrite !andb_true_iff, !N.leb_le, IH. split.
      * intros [[H1 H2] (b0 & -> & H3)]. exists b0. split; [f_equal; lia|assumption].
      * intros (b0 & H & H3). inversion H; subst. split; [lia|]. exists b0. auto.
Qed.

Lemma pos_lastbyte k : forall x0 x1 b, pos (k ++ [x0]) (k ++ [x1]) (k ++ [b]) = b - x0.
Proof.
  induction k as [|kb k IH]; intros x0 x1 b; cbn [app pos count].
  - lia.
  - rewrite IH, N.sub_diag. lia.
Qed.

Lemma range_index_lastbyte k x0 x1 c i :
  x1 < 256 ->
  (range_index (k ++ [x0]) (k ++ [x1]) c = Some i <->
   exists b, c = k ++ [b] /\ x0 <= b /\ b <= x1 /\ i = b - x0).
Proof.
  intros Hx. rewrite range_index_some, in_box_lastbyte. split.
  - intros ((b & -> & H1 & H2) & H3 & H4). exists b. rewrite pos_lastbyte in H3. auto.
  - intros (b & -> & H1 & H2 & H3). rewrite pos_lastbyte. repeat split; auto.
    + exists b. auto.
    + subst i. unfold max_int32. lia.
Qed.

Lemma codes_in_box_lastbyte k : forall x0 x1,
  codes_in_box (k ++ [x0]) (k ++ [x1]) = map (fun b => k ++ [b]) (n_range x0 x1).
Proof.
  induction k as [|kb k IH]; intros x0 x1; cbn [app codes_in_box].
  - generalize (n_range x0 x1). induction l as [|a l IHl]; [reflexivity|].
    cbn [flat_map map app] in *. rewrite IHl. reflexivity.
  - unfold n_range at 1. replace (N.to_nat (kb + 1 - kb)) with 1%nat by lia.
    cbn [n_seq flat_map]. rewrite app_nil_r, IH, map_map. reflexivity.
Qed.

Lemma codes_in_range_lastbyte k x0 x1 :
  x0 <= x1 -> codes_in_range (k ++ [x0]) (k ++ [x1]) = map (fun b => k ++ [b]) (n_range x0 x1).
Proof.
  intros H. unfold codes_in_range.
  assert (E : range_is_valid (k ++ [x0]) (k ++ [x1]) = true).
  { unfold range_is_valid. destruct (k ++ [x0]) eqn:E0; [destruct k; discriminate|]. rewrite <- E0.
    apply (in_box_box_ok _ _ (k ++ [x0])). apply in_box_lastbyte. exists x0. repeat split; lia. }
  rewrite E. apply codes_in_box_lastbyte.
Qed.

(* ------------------------------------------------------------------------ *)

Section AssocLemmas.
  Variable V : Type.
  Notation entry := (entry V).

  (* ---- association lists ------------------------------------------------ *)

  Lemma find_single_assoc (es : list entry) c : find_single es c = assoc es c.
  Proof. induction es as [|[k v] es IH]; cbn; [reflexivity|]. rewrite IH. reflexivity. Qed.

  Lemma assoc_in (es : list entry) c v : assoc es c = Some v -> In (c, v) es.
  Proof.
    induction es as [|[k w] es IH]; cbn [assoc]; [discriminate|].
    destruct (bytes_eqb k c) eqn:E.
    - apply bytes_eqb_eq in E. intros H; inversion H; subst. left; reflexivity.
    - intros H. right. auto.
  Qed.

  Lemma assoc_none (es : list entry) c : assoc es c = None <-> ~ In c (map fst es).
  Proof.
    induction es as [|[k w] es IH]; cbn [assoc map In fst]; [tauto|].
    destruct (bytes_eqb k c) eqn:E.
    - apply bytes_eqb_eq in E. split; [discriminate|]. intros H. exfalso. apply H. left. assumption.
    - rewrite IH. split.
      + intros H [G|G]; [|tauto]. subst. rewrite bytes_eqb_refl in E. discriminate.
      + intros H G. apply H. right. assumption.
  Qed.

  Lemma in_assoc (es : list entry) c v : NoDup (map fst es) -> In (c, v) es -> assoc es c = Some v.
  Proof.
    induction es as [|[k w] es IH]; cbn [assoc map In fst]; [tauto|].
    intros Hnd [H|H].
    - inversion H; subst. rewrite bytes_eqb_refl. reflexivity.
    - inversion Hnd; subst. destruct (bytes_eqb k c) eqn:E.
      + apply bytes_eqb_eq in E. subst. exfalso. apply H2. apply (in_map fst) in H. exact H.
      + apply IH; assumption.
  Qed.

  Lemma in_some_assoc (es : list entry) c v : In (c, v) es -> exists w, assoc es c = Some w.
  Proof.
    intros H. destruct (assoc es c) eqn:E; [eauto|].
    apply assoc_none in E. exfalso. apply E. apply (in_map fst) in H. exact H.
  Qed.

  Lemma nodup_fun (es : list entry) c v w : NoDup (map fst es) -> In (c, v) es -> In (c, w) es -> v = w.
  Proof.
    intros Hnd H1 H2. apply (in_assoc _ _ _ Hnd) in H1. apply (in_assoc _ _ _ Hnd) in H2. congruence.
  Qed.

  Lemma assoc_perm (l l' : list entry) c :
    NoDup (map fst l) -> Permutation l l' -> assoc l c = assoc l' c.
  Proof.
    intros Hnd Hp.
    assert (Hnd' : NoDup (map fst l')).
    { eapply Permutation_NoDup; [|exact Hnd]. apply Permutation_map. assumption. }
    destruct (assoc l c) as [v|] eqn:E.
    - apply assoc_in in E. symmetry. apply in_assoc; [assumption|]. eapply Permutation_in; eauto.
    - symmetry. apply assoc_none. apply assoc_none in E. intros H. apply E.
      eapply Permutation_in; [|exact H]. apply Permutation_map. apply Permutation_sym. assumption.
  Qed.

End AssocLemmas.

Section GenericProofs.
  Variable V : Type.
  Variable next : V -> N -> V.
  Variable link : V -> V -> bool.
  Variable mkvals : list V -> list V.

  Notation entry := (entry V).
  Notation run := (run V).
  Notation grange := (grange V).

  Definition wf_entries (es : list entry) : Prop := Forall (fun e => wf_code (fst e)) es.

  (* ---- sorting ---------------------------------------------------------- *)

  Fixpoint adj_sorted (l : list entry) : Prop :=
    match l with
    | e1 :: ((e2 :: _) as tl) => entry_leb e1 e2 = true /\ adj_sorted tl
    | _ => True
    end.

  Lemma entry_leb_total (e x : entry) : entry_leb e x = false -> entry_leb x e = true.
  Proof.
    unfold entry_leb.
    destruct (bytes_ltb (key_of (fst e)) (key_of (fst x))) eqn:E1; [discriminate|].
    destruct (bytes_eqb (key_of (fst e)) (key_of (fst x))) eqn:E2.
    - intros H. apply N.leb_gt in H. apply bytes_eqb_eq in E2. rewrite E2.
      rewrite bytes_ltb_irrefl, bytes_eqb_refl. apply N.leb_le. lia.
    - intros _. rewrite (bytes_ltb_total _ _ E1 E2). reflexivity.
  Qed.

  Lemma insert_perm e (l : list entry) : Permutation (insert_entry e l) (e :: l).
  Proof.
    induction l as [|x l IH]; cbn [insert_entry]; [apply Permutation_refl|].
    destruct (entry_leb e x); [apply Permutation_refl|].
    eapply Permutation_trans; [apply perm_skip; exact IH|apply perm_swap].
  Qed.

  Lemma sort_perm (l : list entry) : Permutation (sort_entries l) l.
  Proof.
    induction l as [|e l IH]; cbn [sort_entries]; [apply Permutation_refl|].
    eapply Permutation_trans; [apply insert_perm|apply perm_skip; exact IH].
  Qed.

  Lemma insert_sorted e (l : list entry) : adj_sorted l -> adj_sorted (insert_entry e l).
  Proof.
    induction l as [|x l IH]; intros Hs; cbn [insert_entry]; [exact I|].
    destruct (entry_leb e x) eqn:E.
    - cbn [adj_sorted]. auto.
    - apply entry_leb_total in E. destruct l as [|y l].
      + cbn [insert_entry adj_sorted]. auto.
      + cbn [adj_sorted] in Hs. destruct Hs as [Hxy Hs].
        specialize (IH Hs). cbn [insert_entry] in IH |- *.
        destruct (entry_leb e y); cbn [adj_sorted] in IH |- *; tauto.
  Qed.

  Lemma sort_sorted (l : list entry) : adj_sorted (sort_entries l).
  Proof. induction l as [|e l IH]; cbn [sort_entries]; [exact I|]. apply insert_sorted; assumption. Qed.

  (* ---- runs ------------------------------------------------------------- *)

  Definition run_entries (r : run) : list entry :=
    map (fun xv => (fst r ++ [fst xv], snd xv)) (snd r).

  Fixpoint consec (items : list (N * V)) : Prop :=
    match items with
    | xv1 :: ((xv2 :: _) as tl) => fst xv2 = fst xv1 + 1 /\ link (snd xv1) (snd xv2) = true /\ consec tl
    | _ => True
    end.

  Definition run_ok (r : run) : Prop :=
    snd r <> [] /\ consec (snd r) /\ Forall (fun xv => fst xv < 256) (snd r).

  Lemma build_runs_step e e2 r' :
    build_runs link (e :: e2 :: r') =
    match build_runs link (e2 :: r') with
    | (k, items) :: rs =>
        if linked link e e2 then (k, (last_of (fst e), snd e) :: items) :: rs
        else (key_of (fst e), [(last_of (fst e), snd e)]) :: (k, items) :: rs
    | [] => (key_of (fst e), [(last_of (fst e), snd e)]) :: build_runs link (e2 :: r')
    end.
  Proof. reflexivity. Qed.

  Lemma build_runs_head rest : forall e, exists items rs,
    build_runs link (e :: rest) = (key_of (fst e), (last_of (fst e), snd e) :: items) :: rs.
  Proof.
    induction rest as [|e2 r' IH]; intros e.
    - exists [], []. reflexivity.
    - rewrite build_runs_step. destruct (IH e2) as (items & rs & E). rewrite E.
      destruct (linked link e e2) eqn:L.
      + unfold linked in L. apply andb_true_iff in L as [L _]. apply andb_true_iff in L as [L _].
        apply bytes_eqb_eq in L. rewrite <- L. eauto.
      + eauto.
  Qed.

  Lemma build_runs_entries (es : list entry) :
    (forall e, In e es -> fst e <> []) -> flat_map run_entries (build_runs link es) = es.
  Proof.
    induction es as [|e rest IH]; intros Hne; [reflexivity|].
    assert (He : (key_of (fst e) ++ [last_of (fst e)], snd e) = e).
    { rewrite <- key_last by (apply Hne; left; reflexivity). destruct e; reflexivity. }
    destruct rest as [|e2 r'].
    - cbn. f_equal. exact He.
    - rewrite build_runs_step. specialize (IH (fun e0 H => Hne e0 (or_intror H))).
      destruct (build_runs_head r' e2) as (items & rs & E). rewrite E in IH |- *.
      destruct (linked link e e2) eqn:L.
      + unfold linked in L. apply andb_true_iff in L as [L _]. apply andb_true_iff in L as [L _].
        apply bytes_eqb_eq in L.
        cbn [flat_map run_entries fst snd map app] in IH |- *. rewrite L in He. f_equal; [exact He|exact IH].
      + cbn [flat_map run_entries fst snd map app] in IH |- *. f_equal; [exact He|exact IH].
  Qed.

  Lemma build_runs_ok (es : list entry) :
    wf_entries es -> adj_sorted es -> Forall run_ok (build_runs link es).
  Proof.
    induction es as [|e rest IH]; intros Hwf Hs; [constructor|].
    inversion Hwf as [|? ? Hwe Hwr]; subst.
    destruct rest as [|e2 r'].
    - cbn. constructor; [|constructor]. unfold run_ok; cbn [snd]. repeat split; [discriminate|].
      constructor; [|constructor]. cbn [fst]. apply last_of_lt; assumption.
    - rewrite build_runs_step. cbn [adj_sorted] in Hs. destruct Hs as [Hle Hs].
      specialize (IH Hwr Hs).
      destruct (build_runs_head r' e2) as (items & rs & E). rewrite E in IH |- *.
      inversion IH as [|? ? Hr Hrs]; subst.
      assert (Hlt : last_of (fst e) < 256) by (apply last_of_lt; assumption).
      destruct (linked link e e2) eqn:L.
      + unfold linked in L. apply andb_true_iff in L as [L L3]. apply andb_true_iff in L as [L1 L2].
        apply bytes_eqb_eq in L1. apply N.eqb_eq in L2.
        unfold entry_leb in Hle. rewrite L1, bytes_ltb_irrefl, bytes_eqb_refl in Hle. apply N.leb_le in Hle.
        constructor; [|assumption].
        destruct Hr as (_ & Hc & Hf). unfold run_ok; cbn [snd] in *. repeat split.
        * discriminate.
        * cbn [fst snd]. lia.
        * assumption.
        * assumption.
        * constructor; [cbn [fst]; assumption|assumption].
      + constructor; [|constructor; assumption].
        unfold run_ok; cbn [snd]. repeat split; [discriminate|].
        constructor; [cbn [fst]; assumption|constructor].
  Qed.

  Lemma consec_nth items : forall i xv d,
    consec items -> nth_error items i = Some xv -> fst xv = fst (hd d items) + N.of_nat i.
  Proof.
    induction items as [|a items IH]; intros i xv d Hc; [destruct i; discriminate|].
    destruct i as [|i]; cbn [nth_error hd].
    - intros H; inversion H; subst. lia.
    - intros H. destruct items as [|b items]; [destruct i; discriminate|].
      cbn [consec] in Hc. destruct Hc as (H1 & _ & Hc).
      rewrite (IH i xv d Hc H). cbn [hd]. lia.
  Qed.

  Lemma consec_last a items d : consec (a :: items) -> fst (last (a :: items) d) = fst a + N.of_nat (length items).
  Proof.
    revert a; induction items as [|b items IH]; intros a Hc.
    - cbn. lia.
    - cbn [consec] in Hc. destruct Hc as (H1 & _ & Hc). specialize (IH b Hc).
      change (last (a :: b :: items) d) with (last (b :: items) d). rewrite IH. cbn [length]. lia.
  Qed.

  Fixpoint chain_ok (vs : list V) : Prop :=
    match vs with
    | v1 :: ((v2 :: _) as tl) => link v1 v2 = true /\ chain_ok tl
    | _ => True
    end.

  Lemma consec_chain items : consec items -> chain_ok (map snd items).
  Proof.
    induction items as [|a items IH]; intros Hc; [exact I|].
    destruct items as [|b items]; [exact I|].
    cbn [consec] in Hc. destruct Hc as (_ & H & Hc). cbn [map chain_ok]. split; [assumption|].
    apply IH. assumption.
  Qed.

  (* what SetMapping / NewToUnicodeFile must guarantee about the value list they store for a run:
     reading position i back gives the i-th value of the run *)
  Hypothesis Hmk : forall vs, (2 <= length vs)%nat -> chain_ok vs ->
    forall i, (i < length vs)%nat -> range_value next (mkvals vs) (N.of_nat i) = nth_error vs i.

  Lemma range_value_none (vals : list V) i : range_value next vals i = None -> vals = [].
  Proof.
    unfold range_value. destruct (i <? N.of_nat (length vals)) eqn:E.
    - apply N.ltb_lt in E. intros H. apply nth_error_None in H. lia.
    - destruct vals; [reflexivity|discriminate].
  Qed.

  (* ---- lookups ----------------------------------------------------------- *)

  Lemma find_range_sound (rr : list grange) c v :
    find_range next rr c = Some v ->
    exists f l vals i, In (f, l, vals) rr /\ range_index f l c = Some i /\ range_value next vals i = Some v.
  Proof.
    induction rr as [|[[f l] vals] rr IH]; cbn [find_range]; [discriminate|].
    destruct vals as [|v0 vals].
    - intros H. destruct (IH H) as (f' & l' & vals' & i & H1 & H2). exists f', l', vals', i. split; [right; assumption|assumption].
    - destruct (range_index f l c) as [i|] eqn:E.
      + intros H. exists f, l, (v0 :: vals), i. split; [left; reflexivity|auto].
      + intros H. destruct (IH H) as (f' & l' & vals' & i & H1 & H2). exists f', l', vals', i. split; [right; assumption|assumption].
  Qed.

  Lemma find_range_none (rr : list grange) c :
    find_range next rr c = None ->
    forall f l vals i, In (f, l, vals) rr -> range_index f l c = Some i -> range_value next vals i = None.
  Proof.
    induction rr as [|[[f l] vals] rr IH]; cbn [find_range]; intros H f' l' vals' i Hin Hi; [destruct Hin|].
    destruct Hin as [Hin|Hin].
    - inversion Hin; subst. destruct vals' as [|v0 vals'].
      + unfold range_value. cbn. destruct (i <? 0) eqn:E; [apply N.ltb_lt in E; lia|reflexivity].
      + rewrite Hi in H. assumption.
    - destruct vals as [|v0 vals]; [eapply IH; eauto|].
      destruct (range_index f l c) eqn:E; [|eapply IH; eauto].
      apply range_value_none in H. discriminate.
  Qed.

  (* a run of at least two codes and its range *)
  Lemma run_range_spec (r : run) f l vals :
    In (f, l, vals) (run_range mkvals r) ->
    exists a b items, snd r = a :: b :: items /\
      f = fst r ++ [fst a] /\ l = fst r ++ [fst (last (snd r) a)] /\ vals = mkvals (map snd (snd r)).
  Proof.
    unfold run_range. destruct r as [k items]. cbn [fst snd].
    destruct items as [|[x0 v0] [|b items]]; cbn; try tauto.
    intros [H|[]]. inversion H; subst. exists (x0, v0), b, items. auto.
  Qed.

  Lemma range_hit_sound (r : run) f l vals c i v :
    run_ok r -> In (f, l, vals) (run_range mkvals r) ->
    range_index f l c = Some i -> range_value next vals i = Some v ->
    In (c, v) (run_entries r).
  Proof.
    intros (Hne & Hc & Hf) Hin Hi Hv.
    destruct (run_range_spec _ _ _ _ Hin) as (a & b & items & Hs & -> & -> & ->).
    destruct r as [k its]. cbn [fst snd] in *. subst its.
    rewrite (consec_last a (b :: items) a Hc) in Hi.
    assert (Hlast : fst a + N.of_nat (length (b :: items)) < 256).
    { rewrite <- (consec_last a (b :: items) a Hc). rewrite Forall_forall in Hf. apply Hf.
      apply (@exists_last _ (a :: b :: items)) in Hne as (l' & z & E). rewrite E, last_last. apply in_or_app. right. left. reflexivity. }
    apply range_index_lastbyte in Hi; [|assumption].
    destruct Hi as (x & -> & H1 & H2 & ->).
    set (j := N.to_nat (x - fst a)).
    assert (Hj : (j < length (map snd (a :: b :: items)))%nat) by (rewrite map_length; cbn [length] in *; lia).
    rewrite <- (N2Nat.id (x - fst a)) in Hv. fold j in Hv.
    rewrite (Hmk (map snd (a :: b :: items))) in Hv;
      [|rewrite map_length; cbn [length]; lia|apply consec_chain; assumption|assumption].
    rewrite nth_error_map in Hv.
    destruct (nth_error (a :: b :: items) j) as [xv|] eqn:E; [|discriminate].
    cbn [option_map] in Hv. inversion Hv; subst v.
    pose proof (consec_nth _ _ _ a Hc E) as Hx. cbn [hd] in Hx.
    unfold run_entries. cbn [fst snd]. apply in_map_iff. exists xv. split.
    - assert (Hxx : fst xv = x) by (unfold j in Hx; lia). clear -Hxx. destruct xv as [x' v']. cbn [fst snd] in *. subst x'. reflexivity.
    - eapply nth_error_In; eauto.
  Qed.

  Lemma range_hit_complete (r : run) c v :
    run_ok r -> (2 <= length (snd r))%nat -> In (c, v) (run_entries r) ->
    exists f l vals i w, In (f, l, vals) (run_range mkvals r) /\
       range_index f l c = Some i /\ range_value next vals i = Some w.
  Proof.
    intros (Hne & Hc & Hf) Hlen Hin.
    destruct r as [k its]. cbn [fst snd] in *.
    destruct its as [|a [|b items]]; cbn [length] in Hlen; try lia.
    unfold run_entries in Hin. cbn [fst snd] in Hin. apply in_map_iff in Hin as (xv & E & Hin).
    inversion E; subst c v. apply In_nth_error in Hin as [j Hj].
    pose proof (consec_nth _ _ _ a Hc Hj) as Hx. cbn [hd] in Hx.
    change byte with N in *.
    assert (Hjl : (j < length (a :: b :: items))%nat) by (apply nth_error_Some; intro HH; rewrite HH in Hj; discriminate).
    assert (Hlast : fst a + N.of_nat (length (b :: items)) < 256).
    { rewrite <- (consec_last a (b :: items) a Hc). rewrite Forall_forall in Hf. apply Hf.
      apply (@exists_last _ (a :: b :: items)) in Hne as (l' & z & E'). rewrite E', last_last. apply in_or_app. right. left. reflexivity. }
    exists (k ++ [fst a]), (k ++ [fst (last (a :: b :: items) a)]), (mkvals (map snd (a :: b :: items))), (N.of_nat j), (snd xv).
    split; [destruct a; left; reflexivity|]. split.
    - rewrite (consec_last a (b :: items) a Hc). apply range_index_lastbyte; [assumption|].
      exists (fst xv). cbn [length] in *. repeat split; try lia.
    - rewrite Hmk; [|rewrite map_length; cbn [length]; lia|apply consec_chain; assumption|rewrite map_length; assumption].
      rewrite nth_error_map, Hj. reflexivity.
  Qed.

  Lemma run_single_spec (r : run) e : In e (run_single r) -> exists xv, snd r = [xv] /\ e = (fst r ++ [fst xv], snd xv).
  Proof.
    unfold run_single. destruct r as [k items]. cbn [fst snd].
    destruct items as [|[x v] [|b items]]; cbn; try tauto.
    intros [H|[]]. subst. exists (x, v). auto.
  Qed.

  (* membership-level form of "lookups read exactly es": independent of the order of singles and ranges *)
  Definition hits_sound (es ss : list entry) (rr : list grange) : Prop :=
    (forall e, In e ss -> In e es) /\
    (forall f l vals c i v, In (f, l, vals) rr -> range_index f l c = Some i ->
                            range_value next vals i = Some v -> In (c, v) es).

  Definition hits_complete (es ss : list entry) (rr : list grange) : Prop :=
    forall c v, In (c, v) es ->
      (exists w, In (c, w) ss) \/
      (exists f l vals i w, In (f, l, vals) rr /\ range_index f l c = Some i /\ range_value next vals i = Some w).

  Lemma hits_lookup (es ss : list entry) (rr : list grange) c :
    hits_sound es ss rr -> hits_complete es ss rr -> NoDup (map fst es) ->
    own_lookup next ss rr c = assoc es c.
  Proof.
    intros [HS1 HS2] HC Hnd.
    assert (Sound : forall v, own_lookup next ss rr c = Some v -> In (c, v) es).
    { intros v. unfold own_lookup. rewrite find_single_assoc. destruct (assoc ss c) as [w|] eqn:E.
      - intros H; inversion H; subst. apply HS1. apply assoc_in. assumption.
      - intros H. apply find_range_sound in H as (f & l & vals & i & Hin & Hi & Hv). eapply HS2; eauto. }
    destruct (assoc es c) as [v|] eqn:E.
    - apply assoc_in in E.
      assert (Complete : exists w, own_lookup next ss rr c = Some w).
      { unfold own_lookup. rewrite find_single_assoc. destruct (assoc ss c) as [w|] eqn:E1; [eauto|].
        destruct (HC c v E) as [(w & Hw)|(f & l & vals & i & w & H1 & H2 & H3)].
        - exfalso. apply assoc_none in E1. apply E1. apply (in_map fst) in Hw. exact Hw.
        - destruct (find_range next rr c) as [w'|] eqn:F; [eauto|].
          exfalso. pose proof (find_range_none _ _ F f l vals i H1 H2) as G. rewrite G in H3. discriminate. }
      destruct Complete as [w Hw]. pose proof (Sound w Hw) as Hin. rewrite Hw. f_equal. eapply nodup_fun; eauto.
    - destruct (own_lookup next ss rr c) as [w|] eqn:F; [|reflexivity].
      pose proof (Sound w eq_refl) as G. apply assoc_none in E. exfalso. apply E. apply (in_map fst) in G. exact G.
  Qed.

  Lemma hits_sound_perm (es ss ss' : list entry) (rr rr' : list grange) :
    Permutation ss ss' -> Permutation rr rr' -> hits_sound es ss rr -> hits_sound es ss' rr'.
  Proof.
    intros P1 P2 [H1 H2]. split.
    - intros e He. apply H1. eapply Permutation_in; [apply Permutation_sym; exact P1|exact He].
    - intros f l vals c i v Hin. eapply H2. eapply Permutation_in; [apply Permutation_sym; exact P2|exact Hin].
  Qed.

  Lemma hits_complete_perm (es ss ss' : list entry) (rr rr' : list grange) :
    Permutation ss ss' -> Permutation rr rr' -> hits_complete es ss rr -> hits_complete es ss' rr'.
  Proof.
    intros P1 P2 H c v Hin. destruct (H c v Hin) as [(w & Hw)|(f & l & vals & i & w & G1 & G2 & G3)].
    - left. exists w. eapply Permutation_in; eauto.
    - right. exists f, l, vals, i, w. split; [eapply Permutation_in; eauto|auto].
  Qed.

  Section Runs.
    Variable rs : list run.
    Hypothesis Hok : Forall run_ok rs.

    Let es := flat_map run_entries rs.
    Let ss := singles_of rs.
    Let rr := ranges_of mkvals rs.

    Lemma singles_incl e : In e ss -> In e es.
    Proof.
      unfold ss, es, singles_of. rewrite !in_flat_map. intros (r & Hr & He). exists r. split; [assumption|].
      apply run_single_spec in He as (xv & E & ->). unfold run_entries. rewrite E. left. reflexivity.
    Qed.

    Lemma lookup_sound c v : own_lookup next ss rr c = Some v -> In (c, v) es.
    Proof.
      unfold own_lookup. rewrite find_single_assoc. destruct (assoc ss c) as [w|] eqn:E.
      - intros H; inversion H; subst. apply singles_incl. apply assoc_in. assumption.
      - intros H. apply find_range_sound in H as (f & l & vals & i & Hin & Hi & Hv).
        unfold rr, ranges_of in Hin. apply in_flat_map in Hin as (r & Hr & Hin).
        unfold es. apply in_flat_map. exists r. split; [assumption|].
        rewrite Forall_forall in Hok. eapply range_hit_sound; eauto.
    Qed.

    Lemma lookup_complete c v : In (c, v) es -> exists w, own_lookup next ss rr c = Some w.
    Proof.
      unfold es. rewrite in_flat_map. intros (r & Hr & Hin).
      unfold own_lookup. rewrite find_single_assoc. destruct (assoc ss c) as [w|] eqn:E; [eauto|].
      rewrite Forall_forall in Hok. pose proof (Hok r Hr) as Hrok.
      destruct r as [k items]. destruct items as [|a [|b items]].
      - destruct Hrok as (H & _). cbn in H. congruence.
      - (* a single: it is among the singles *)
        exfalso. apply assoc_none in E. apply E.
        unfold run_entries in Hin. cbn [fst snd map In] in Hin. destruct Hin as [Hin|[]].
        apply in_map_iff. exists (c, v). split; [reflexivity|].
        unfold ss, singles_of. apply in_flat_map. exists (k, [a]). split; [assumption|].
        unfold run_single. cbn [fst snd]. destruct a. left. exact Hin.
      - destruct (range_hit_complete (k, a :: b :: items) c v Hrok) as (f & l & vals & i & w & H1 & H2 & H3);
          [cbn [snd length]; lia|assumption|].
        destruct (find_range next rr c) as [w'|] eqn:F; [eauto|].
        exfalso. pose proof (find_range_none _ _ F f l vals i) as G.
        rewrite G in H3; [discriminate| |assumption].
        unfold rr, ranges_of. apply in_flat_map. exists (k, a :: b :: items). auto.
    Qed.

    Lemma runs_lookup c : NoDup (map fst es) -> own_lookup next ss rr c = assoc es c.
    Proof.
      intros Hnd. destruct (assoc es c) as [v|] eqn:E.
      - apply assoc_in in E. destruct (lookup_complete c v E) as [w Hw]. rewrite Hw.
        apply lookup_sound in Hw. f_equal. eapply nodup_fun; eauto.
      - destruct (own_lookup next ss rr c) as [w|] eqn:F; [|reflexivity].
        apply lookup_sound in F. apply assoc_none in E. exfalso. apply E.
        apply (in_map fst) in F. exact F.
    Qed.
    Lemma runs_hits_sound : hits_sound es ss rr.
    Proof.
      split; [apply singles_incl|].
      intros f l vals c i v Hin Hi Hv. unfold rr, ranges_of in Hin. apply in_flat_map in Hin as (r & Hr & Hin).
      unfold es. apply in_flat_map. exists r. split; [assumption|].
      rewrite Forall_forall in Hok. eapply range_hit_sound; eauto.
    Qed.

    Lemma runs_hits_complete : hits_complete es ss rr.
    Proof.
      intros c v Hin. unfold es in Hin. apply in_flat_map in Hin as (r & Hr & Hin).
      rewrite Forall_forall in Hok. pose proof (Hok r Hr) as Hrok.
      destruct r as [k items]. destruct items as [|a [|b items]].
      - destruct Hrok as (H & _). cbn in H. congruence.
      - left. exists v. unfold run_entries in Hin. cbn [fst snd map In] in Hin. destruct Hin as [Hin|[]].
        unfold ss, singles_of. apply in_flat_map. exists (k, [a]). split; [assumption|].
        unfold run_single. cbn [fst snd]. destruct a. left. exact Hin.
      - right. destruct (range_hit_complete (k, a :: b :: items) c v Hrok) as (f & l & vals & i & w & H1 & H2 & H3);
          [cbn [snd length]; lia|assumption|].
        exists f, l, vals, i, w. split; [|auto].
        unfold rr, ranges_of. apply in_flat_map. exists (k, a :: b :: items). auto.
    Qed.
  End Runs.

  (* ---- enumeration ------------------------------------------------------- *)

  Lemma range_entries_items k vals : forall items x j,
    consec items ->
    match items with xv :: _ => fst xv = x | [] => True end ->
    (forall i, (i < length items)%nat -> range_value next vals (j + N.of_nat i) = nth_error (map snd items) i) ->
    flat_map (fun ic : N * bytes => match range_value next vals (fst ic) with
                                    | Some v => [(snd ic, v)]
                                    | None => []
                                    end)
             (number_from j (map (fun b => k ++ [b]) (n_seq x (length items))))
    = map (fun xv => (k ++ [fst xv], snd xv)) items.
  Proof.
    induction items as [|a items IH]; intros x j Hc Hx Hv; [reflexivity|].
    cbn [length n_seq map number_from flat_map fst snd].
    pose proof (Hv 0%nat ltac:(cbn [length]; lia)) as H0. rewrite N.add_0_r in H0. cbn [map nth_error] in H0.
    rewrite H0. cbn [app]. subst x. f_equal.
    apply IH.
    - destruct items as [|b items]; [exact I|]. cbn [consec] in Hc. tauto.
    - destruct items as [|b items]; [exact I|]. cbn [consec] in Hc. tauto.
    - intros i Hi. specialize (Hv (S i) ltac:(cbn [length]; lia)). cbn [map nth_error] in Hv.
      rewrite <- Hv. f_equal. lia.
  Qed.

  Lemma run_range_entries (r : run) a b items :
    run_ok r -> snd r = a :: b :: items ->
    flat_map (range_entries next) (run_range mkvals r) = run_entries r.
  Proof.
    intros (Hne & Hc & Hf) Hs. destruct r as [k its]. cbn [fst snd] in *. subst its.
    unfold run_range. cbn [fst snd]. destruct a as [x0 v0]. cbn [flat_map]. rewrite app_nil_r.
    unfold range_entries.
    set (vs := map snd ((x0, v0) :: b :: items)).
    assert (Hvs : forall i, (i < length ((x0, v0) :: b :: items))%nat ->
                            range_value next (mkvals vs) (0 + N.of_nat i) = nth_error vs i).
    { intros i Hi. rewrite N.add_0_l. apply Hmk.
      - unfold vs. rewrite map_length. cbn [length]. lia.
      - apply consec_chain. assumption.
      - unfold vs. rewrite map_length. assumption. }
    destruct (mkvals vs) as [|w ws] eqn:Em.
    { specialize (Hvs 0%nat ltac:(cbn [length]; lia)). cbn in Hvs. discriminate. }
    rewrite <- Em in Hvs |- *.
    assert (Hlast : x0 + N.of_nat (length (b :: items)) < 256).
    { change x0 with (fst (x0, v0)). rewrite <- (consec_last (x0, v0) (b :: items) (x0, v0) Hc).
      rewrite Forall_forall in Hf. apply Hf.
      apply (@exists_last _ ((x0, v0) :: b :: items)) in Hne as (l' & z & E'). rewrite E', last_last. apply in_or_app. right. left. reflexivity. }
    rewrite (consec_last (x0, v0) (b :: items) (x0, v0) Hc). cbn [fst].
    rewrite codes_in_range_lastbyte by lia.
    unfold n_range.
    replace (N.to_nat (x0 + N.of_nat (length (b :: items)) + 1 - x0)) with (length ((x0, v0) :: b :: items))
      by (cbn [length]; lia).
    apply (range_entries_items k (mkvals vs) ((x0, v0) :: b :: items) x0 0); auto.
  Qed.

  Lemma runs_all (rs : list run) :
    Forall run_ok rs ->
    Permutation (own_all next (singles_of rs) (ranges_of mkvals rs)) (flat_map run_entries rs).
  Proof.
    unfold own_all, singles_of, ranges_of.
    induction rs as [|r rs IH]; intros Hok; [apply Permutation_refl|].
    inversion Hok as [|? ? Hr Hrs]; subst. specialize (IH Hrs).
    cbn [flat_map]. rewrite flat_map_app.
    destruct r as [k items]. destruct items as [|a [|b items]].
    - destruct Hr as (H & _). cbn in H. congruence.
    - (* single *)
      unfold run_range at 1, run_single at 1, run_entries at 1. cbn [fst snd flat_map map app]. destruct a as [x v].
      cbn [fst snd app]. apply Permutation_sym. apply Permutation_cons_app. apply Permutation_sym. exact IH.
    - rewrite (run_range_entries (k, a :: b :: items) a b items Hr eq_refl).
      unfold run_single at 1. cbn [fst snd]. destruct a. cbn [app].
      rewrite <- app_assoc. apply Permutation_app_head. exact IH.
  Qed.

  (* ---- the two statements about `compress` ------------------------------- *)

  Lemma wf_entries_perm (l l' : list entry) : Permutation l l' -> wf_entries l -> wf_entries l'.
  Proof. intros Hp H. unfold wf_entries in *. rewrite Forall_forall in *. intros e He. apply H. eapply Permutation_in; [apply Permutation_sym|]; eauto. Qed.

  Theorem compress_lookup (es : list entry) c :
    NoDup (map fst es) -> wf_entries es ->
    own_lookup next (fst (compress link mkvals es)) (snd (compress link mkvals es)) c = assoc es c.
  Proof.
    intros Hnd Hwf. unfold compress. cbn [fst snd].
    set (sorted := sort_entries es).
    assert (Hp : Permutation sorted es) by apply sort_perm.
    assert (Hwf' : wf_entries sorted) by (eapply wf_entries_perm; [apply Permutation_sym|]; eauto).
    assert (Hent : flat_map run_entries (build_runs link sorted) = sorted).
    { apply build_runs_entries. intros e He. unfold wf_entries in Hwf'. rewrite Forall_forall in Hwf'. apply Hwf'. assumption. }
    assert (Hnd' : NoDup (map fst sorted)).
    { eapply Permutation_NoDup; [|exact Hnd]. apply Permutation_map. apply Permutation_sym. assumption. }
    rewrite runs_lookup.
    - rewrite Hent. symmetry. apply assoc_perm; [assumption|apply Permutation_sym; assumption].
    - apply build_runs_ok; [assumption|apply sort_sorted].
    - rewrite Hent. assumption.
  Qed.

  Theorem compress_all (es : list entry) :
    wf_entries es ->
    Permutation (own_all next (fst (compress link mkvals es)) (snd (compress link mkvals es))) es.
  Proof.
    intros Hwf. unfold compress. cbn [fst snd].
    set (sorted := sort_entries es).
    assert (Hp : Permutation sorted es) by apply sort_perm.
    assert (Hwf' : wf_entries sorted) by (eapply wf_entries_perm; [apply Permutation_sym|]; eauto).
    assert (Hent : flat_map run_entries (build_runs link sorted) = sorted).
    { apply build_runs_entries. intros e He. unfold wf_entries in Hwf'. rewrite Forall_forall in Hwf'. apply Hwf'. assumption. }
    eapply Permutation_trans; [apply runs_all|].
    - apply build_runs_ok; [assumption|apply sort_sorted].
    - rewrite Hent. assumption.
  Qed.

  Theorem compress_hits (es : list entry) :
    wf_entries es ->
    hits_sound es (fst (compress link mkvals es)) (snd (compress link mkvals es)) /\
    hits_complete es (fst (compress link mkvals es)) (snd (compress link mkvals es)).
  Proof.
    intros Hwf. unfold compress. cbn [fst snd].
    set (sorted := sort_entries es).
    assert (Hp : Permutation sorted es) by apply sort_perm.
    assert (Hwf' : wf_entries sorted) by (eapply wf_entries_perm; [apply Permutation_sym|]; eauto).
    assert (Hent : flat_map run_entries (build_runs link sorted) = sorted).
    { apply build_runs_entries. intros e He. unfold wf_entries in Hwf'. rewrite Forall_forall in Hwf'. apply Hwf'. assumption. }
    assert (Hok : Forall run_ok (build_runs link sorted)) by (apply build_runs_ok; [assumption|apply sort_sorted]).
    pose proof (runs_hits_sound _ Hok) as [S1 S2]. pose proof (runs_hits_complete _ Hok) as C.
    rewrite Hent in *. split; [split|].
    - intros e He. eapply Permutation_in; [exact Hp|]. apply S1. exact He.
    - intros f l vals c i v H1 H2 H3. eapply Permutation_in; [exact Hp|]. eapply S2; eauto.
    - intros c v Hin. apply (C c v). eapply Permutation_in; [apply Permutation_sym; exact Hp|exact Hin].
  Qed.
End GenericProofs.
