(* C13 text level, proofs part 5: Embed / Extract of whole parent chains with an explicit resolver:
   the /UseCMap stream decides the parent, whatever names the files carry. *)
From Coq Require Import List NArith ZArith Bool Arith Lia ZifyN ZifyNat ZifyBool Permutation.
From GoPdf.Base Require Import Bytes.
From GoPdf.Gen Require Import Gen_C13.
From GoPdf.C13 Require Import CMapRanges CMapRangesProofs1 CMapRangesProofs2 CMapRangesProofs3 CMapRangesProofs4
     CMapText CMapTextProofs1 CMapTextProofs2 CMapTextProofs3 CMapTextProofs4.
Import ListNotations.
Open Scope N_scope.

(* what one file contributes to LookupCID and to LookupNotdefCID *)
Definition own_opt (ss : list (bytes * N)) (rr : list crange) (c : bytes) : option N :=
  match find_single ss c with
  | Some v => Some v
  | None => find_crange rr c
  end.

Definition own_nd (nds : list (bytes * N)) (ndr : list crange) (c : bytes) : option N :=
  match find_single nds c with
  | Some v => Some v
  | None => find_box ndr c
  end.

(* reading the text back sorts the lists of a file; a file is stable when that does not change what it
   answers (sorted lists; lists without overlapping entries; whatever SetMapping builds) *)
Definition stable (t : ctext) : Prop :=
  forall c,
    own_opt (sort_by single_leb (ct_singles t)) (sort_by range_leb (ct_ranges t)) c = own_opt (ct_singles t) (ct_ranges t) c /\
    own_nd (sort_by single_leb (ct_nd_singles t)) (sort_by range_leb (ct_nd_ranges t)) c = own_nd (ct_nd_singles t) (ct_nd_ranges t) c.

Definition same_lookups (f g : option cfile) : Prop :=
  match f, g with
  | None, None => True
  | Some a, Some b => forall c, lookup_cid_opt a c = lookup_cid_opt b c /\ lookup_notdef a c = lookup_notdef b c
  | _, _ => False
  end.

Lemma lookup_cid_opt_own csr ss rr nds ndr par c :
  lookup_cid_opt (CFile csr ss rr nds ndr par) c =
  match own_opt ss rr c with
  | Some v => Some v
  | None => match par with Some p => lookup_cid_opt p c | None => None end
  end.
Proof. cbn [lookup_cid_opt]. unfold own_opt. destruct (find_single ss c); [reflexivity|]. destruct (find_crange rr c); reflexivity. Qed.

Lemma lookup_notdef_own csr ss rr nds ndr par c :
  lookup_notdef (CFile csr ss rr nds ndr par) c =
  match own_nd nds ndr c with
  | Some v => v
  | None => match par with Some p => lookup_notdef p c | None => 0 end
  end.
Proof. cbn [lookup_notdef]. unfold own_nd. destruct (find_single nds c); [reflexivity|]. destruct (find_box ndr c); reflexivity. Qed.

Lemma same_lookups_level t pn par par' :
  stable t -> same_lookups par' par ->
  same_lookups (Some (cfile_of (normalize_c (with_parent_name t pn)) par')) (Some (cfile_of t par)).
Proof.
  intros Hs Hp c. destruct (Hs c) as [H1 H2].
  unfold cfile_of, normalize_c, with_parent_name.
  cbn [ct_csr ct_singles ct_ranges ct_nd_singles ct_nd_ranges].
  rewrite !lookup_cid_opt_own, !lookup_notdef_own, H1, H2.
  destruct par' as [p'|], par as [p|]; cbn [same_lookups] in Hp; try contradiction.
  - destruct (Hp c) as [G1 G2]. rewrite G1, G2. split; reflexivity.
  - split; reflexivity.
Qed.

Lemma same_lookups_refl f : same_lookups f f.
Proof. destruct f; cbn; auto. Qed.

Lemma same_lookups_cid a b : same_lookups (Some a) (Some b) -> forall c, lookup_cid a c = lookup_cid b c.
Proof. intros H c. destruct (H c) as [H1 H2]. unfold lookup_cid. rewrite H1, H2. reflexivity. Qed.

Lemma wf_with_parent_name t pn : wf_ctext t -> wf_ctext (with_parent_name t pn).
Proof. unfold wf_ctext, with_parent_name. cbn [ct_csr ct_singles ct_ranges ct_nd_singles ct_nd_ranges]. tauto. Qed.

Section Resolver.
  Variable predefined : bytes -> option cfile.

  (* every custom file of the chain is well-formed and stable; every predefined file referred to exists *)
  Fixpoint chain_ok (e : efile) : Prop :=
    match e with
    | EPredef n => predefined n <> None
    | ECustom t par => wf_ctext t /\ stable t /\ match par with Some p => chain_ok p | None => True end
    end.

  Lemma extract_embed_lemma : forall e,
    chain_ok e ->
    exists f' m, extract_cid predefined (embed_cid e) = Some f' /\ efile_meaning predefined e = Some m /\
                 same_lookups (Some f') (Some m).
  Proof.
    fix IH 1. intros [n|t par] Hok.
    - cbn [chain_ok] in Hok. cbn [embed_cid extract_cid efile_meaning].
      destruct (predefined n) as [p|]; [|congruence]. exists p, p. split; [reflexivity|]. split; [reflexivity|].
      apply (same_lookups_refl (Some p)).
    - cbn [chain_ok] in Hok. destruct Hok as (Hwf & Hst & Hpar).
      cbn [embed_cid extract_cid efile_meaning].
      rewrite cmap_text_rt_lemma by (apply wf_with_parent_name; assumption).
      destruct par as [p|].
      + destruct (IH p Hpar) as (f1 & m1 & E1 & E2 & E3). rewrite E1, E2.
        eexists. eexists. split; [reflexivity|]. split; [reflexivity|].
        apply same_lookups_level; assumption.
      + eexists. eexists. split; [reflexivity|]. split; [reflexivity|].
        cbn [normalize_c with_parent_name ct_parent].
        apply (same_lookups_level t None None None); [assumption|exact I].
  Qed.
End Resolver.

(* ---- which files are stable ------------------------------------------------- *)

Lemma stable_sorted t :
  sort_by single_leb (ct_singles t) = ct_singles t -> sort_by range_leb (ct_ranges t) = ct_ranges t ->
  sort_by single_leb (ct_nd_singles t) = ct_nd_singles t -> sort_by range_leb (ct_nd_ranges t) = ct_nd_ranges t ->
  stable t.
Proof. intros H1 H2 H3 H4 c. rewrite H1, H2, H3, H4. split; reflexivity. Qed.

Lemma stable_set_mapping name wmode ros pn csr f es :
  NoDup (map fst es) -> wf_entries N es -> cid_ok es -> nd_sorted_wf f ->
  stable (ctext_of name wmode ros pn (set_mapping_bytes csr f es)).
Proof.
  intros Hnd Hwf Hok (_ & _ & Hs1 & Hs2) c.
  pose proof (cid_own_after f es c Hnd Hwf Hok) as H1. cbn zeta in H1.
  pose proof (own_lookup_cid f es c Hnd Hwf Hok) as H2. cbn zeta in H2.
  destruct (set_mapping_csr_irrelevant csr (c_csr f) f es) as (E1 & E2 & _). cbn zeta in E1, E2.
  unfold ctext_of. cbn [ct_singles ct_ranges ct_nd_singles ct_nd_ranges]. unfold own_opt. split.
  - rewrite E1, E2, H1, H2. reflexivity.
  - unfold set_mapping_bytes. cbn [c_nd_singles c_nd_ranges]. rewrite Hs1, Hs2. reflexivity.
Qed.

(* ---- the name-first resolution order (seeded change C13-8) is wrong ----------- *)

Definition pd_name : bytes := [80].          (* "P" *)
Definition pd_file : cfile := CFile [([0], [255])] [([65], 1)] [] [] [] None.
Definition pd (n : bytes) : option cfile := if bytes_eqb n pd_name then Some pd_file else None.

(* a custom parent that carries the predefined name P but maps <41> to 7, and a child on top of it *)
Definition collide_parent : ctext := CText pd_name 0 None None [([0], [255])] [([65], 7)] [] [] [].
Definition collide_child : ctext := CText [67] 0 None None [([0], [255])] [([66], 2)] [] [] [].
Definition collide : efile := ECustom collide_child (Some (ECustom collide_parent None)).

Lemma name_first_differs :
  option_map (fun f => lookup_cid f [65]) (extract_cid pd (embed_cid collide)) = Some 7 /\
  option_map (fun f => lookup_cid f [65]) (efile_meaning pd collide) = Some 7 /\
  option_map (fun f => lookup_cid f [65]) (extract_cid_name_first pd (embed_cid collide)) = Some 1.
Proof. vm_compute. repeat split; reflexivity. Qed.

(* ---- shape of what the compression produces ---------------------------------- *)

(* a range First..Last of a map es: one prefix (all bytes but the last), hence equal lengths; first <= last in
   the last byte; every code of the range is a key of es *)
Definition range_shape {V} (es : list (bytes * V)) (f l : bytes) (a b : N) (k : bytes) : Prop :=
  f = k ++ [a] /\ l = k ++ [b] /\ length f = length l /\ a <= b /\ b < 256 /\
  (forall x, a <= x -> x <= b -> exists w, In (k ++ [x], w) es).

Definition crange_out_wf (es : list (bytes * N)) (r : crange) : Prop :=
  let '(f, l, _) := r in exists k a b, range_shape es f l a b k.

Definition trange_out_wf (es : list (bytes * text)) (r : trange) : Prop :=
  let '(f, l, vals) := r in
  exists k a b, range_shape es f l a b k /\ (length vals = 1%nat \/ N.of_nat (length vals) = b - a + 1).

Lemma setmapping_ranges_wf_lemma csr f es :
  NoDup (map fst es) -> wf_entries N es -> cid_ok es ->
  Forall (crange_out_wf es) (c_ranges (set_mapping_bytes csr f es)) /\
  Forall (fun s => In s es) (c_singles (set_mapping_bytes csr f es)).
Proof.
  intros Hnd Hwf Hok. destruct (kept_cid_ok f es Hnd Hwf Hok) as (K1 & K2 & K3).
  assert (Hsub : forall e, In e (kept_cid f es) -> In e es).
  { unfold kept_cid. destruct (c_parent f); [|auto]. intros e He. apply filter_In in He. tauto. }
  unfold set_mapping_bytes. fold (kept_cid f es). cbn [c_ranges c_singles]. split.
  - apply Forall_forall. intros r Hr. apply in_map_iff in Hr as ([[f0 l0] vals] & <- & Hr).
    destruct (compress_range_codes N cid_link cid_vals (kept_cid f es) f0 l0 vals K2 Hr)
      as (k & a & b & vs & -> & -> & Hab & Hb & _ & _ & Hcodes).
    unfold to_crange, crange_out_wf. exists k, a, b. unfold range_shape. repeat split; auto.
    + rewrite !app_length. reflexivity.
    + intros x H1 H2. destruct (Hcodes x H1 H2) as (w & Hw). exists w. auto.
  - apply Forall_forall. intros s Hs.
    destruct (compress_hits N cid_add cid_link cid_vals cid_mk (kept_cid f es) K2) as [[S1 _] _]. auto.
Qed.

Lemma tounicode_ranges_wf_lemma csr es :
  wf_entries text es ->
  Forall (trange_out_wf es) (t_ranges (new_tounicode_bytes csr es)) /\
  Forall (fun s => In s es) (t_singles (new_tounicode_bytes csr es)).
Proof.
  intros Hwf. unfold new_tounicode_bytes. cbn [t_ranges t_singles]. split.
  - apply Forall_forall. intros [[f0 l0] vals] Hr.
    destruct (compress_range_codes text tu_link tu_vals es f0 l0 vals Hwf Hr)
      as (k & a & b & vs & -> & -> & Hab & Hb & -> & Hn & Hcodes).
    unfold trange_out_wf. exists k, a, b. split.
    + unfold range_shape. repeat split; auto. rewrite !app_length. reflexivity.
    + unfold tu_vals. destruct (needs_list vs); [right; exact Hn|].
      left. destruct vs as [|v0 vs']; [cbn [length] in Hn; lia|reflexivity].
  - apply Forall_forall. intros s Hs.
    destruct (compress_hits text next_string tu_link tu_vals tu_mk es Hwf) as [[S1 _] _]. auto.
Qed.
