(* C13 proofs, part 4: charcode.Code <-> bytes, the statements at the level of the Go API
   (maps keyed by Code), odometer step, and the two refutations. *)
From Coq Require Import List NArith Bool Arith Lia ZifyN ZifyNat ZifyBool Permutation.
From GoPdf.Base Require Import Bytes.
From GoPdf.C13 Require Import CMapRanges CMapRangesProofs1 CMapRangesProofs2 CMapRangesProofs3.
Import ListNotations.
Open Scope N_scope.

(* ---- codes -------------------------------------------------------------- *)

Definition wf_bytes (s : bytes) : Prop := Forall (fun b => b < 256) s.

(* no code of the code space is a proper prefix of another one (NewCodec rejects such sets) *)
Definition prefix_free (csr : list csrange) : Prop :=
  forall s k, in_csr csr s = true -> (0 < k < length s)%nat -> in_csr csr (firstn k s) = false.

(* code is the Code of a byte string of the code space *)
Definition valid_code (csr : list csrange) (code : N) : Prop :=
  exists s, in_csr csr s = true /\ wf_bytes s /\ (1 <= length s <= 4)%nat /\ code_of_bytes s = code.

Lemma le_bytes_firstn s : forall k, wf_bytes s -> (k <= length s)%nat -> le_bytes k (code_of_bytes s) = firstn k s.
Proof.
  induction s as [|b s IH]; intros k Hwf Hk.
  - destruct k; [reflexivity|cbn in Hk; lia].
  - destruct k as [|k]; [reflexivity|].
    inversion Hwf as [|? ? Hb Hs]; subst. cbn [length] in Hk.
    cbn [le_bytes code_of_bytes firstn].
    replace ((b + 256 * code_of_bytes s) mod 256) with b by lia.
    replace ((b + 256 * code_of_bytes s) / 256) with (code_of_bytes s) by lia.
    rewrite IH by (auto; lia). reflexivity.
Qed.

Lemma append_code_rt csr s :
  prefix_free csr -> in_csr csr s = true -> wf_bytes s -> (1 <= length s <= 4)%nat ->
  append_code csr (code_of_bytes s) = s.
Proof.
  intros Hpf Hin Hwf Hlen. unfold append_code.
  assert (F : forall k, (k <= length s)%nat -> le_bytes k (code_of_bytes s) = firstn k s)
    by (intros; apply le_bytes_firstn; assumption).
  assert (Full : firstn (length s) s = s) by apply firstn_all.
  destruct (length s) as [|[|[|[|[|n]]]]] eqn:El; try lia.
  - rewrite (F 1%nat) by lia. rewrite Full, Hin. reflexivity.
  - rewrite (F 1%nat) by lia. rewrite (Hpf s 1%nat Hin) by lia.
    rewrite (F 2%nat) by lia. rewrite Full, Hin. reflexivity.
  - rewrite (F 1%nat) by lia. rewrite (Hpf s 1%nat Hin) by lia.
    rewrite (F 2%nat) by lia. rewrite (Hpf s 2%nat Hin) by lia.
    rewrite (F 3%nat) by lia. rewrite Full, Hin. reflexivity.
  - rewrite (F 1%nat) by lia. rewrite (Hpf s 1%nat Hin) by lia.
    rewrite (F 2%nat) by lia. rewrite (Hpf s 2%nat Hin) by lia.
    rewrite (F 3%nat) by lia. rewrite (Hpf s 3%nat Hin) by lia.
    rewrite (F 4%nat) by lia. rewrite Full. reflexivity.
Qed.

Lemma append_code_valid csr code :
  prefix_free csr -> valid_code csr code ->
  in_csr csr (append_code csr code) = true /\ wf_code (append_code csr code) /\
  code_of_bytes (append_code csr code) = code.
Proof.
  intros Hpf (s & Hin & Hwf & Hlen & <-). rewrite append_code_rt by assumption.
  repeat split; auto. destruct s; [cbn in Hlen; lia|discriminate].
Qed.

Definition code_entries {V} (csr : list csrange) (data : list (N * V)) : list (bytes * V) :=
  map (fun d => (append_code csr (fst d), snd d)) data.

Lemma nodup_map_inj_on {A B} (g : A -> B) (l : list A) :
  (forall x y, In x l -> In y l -> g x = g y -> x = y) -> NoDup l -> NoDup (map g l).
Proof.
  induction l as [|a l IH]; intros Hinj Hnd; [constructor|].
  apply NoDup_cons_iff in Hnd as [Ha Hnd]. cbn [map]. constructor.
  - intros H. apply in_map_iff in H as (x & Hx & Hin). apply Ha.
    rewrite <- (Hinj x a); auto; [right; assumption|left; reflexivity].
  - apply IH; [|assumption]. intros x y Hx Hy. apply Hinj; right; assumption.
Qed.

Lemma code_entries_ok {V} csr (data : list (N * V)) :
  prefix_free csr -> NoDup (map fst data) -> Forall (fun d => valid_code csr (fst d)) data ->
  NoDup (map fst (code_entries csr data)) /\ wf_entries V (code_entries csr data) /\
  Forall (fun e => in_csr csr (fst e) = true) (code_entries csr data).
Proof.
  intros Hpf Hnd Hv. rewrite Forall_forall in Hv. unfold code_entries. repeat split.
  - rewrite map_map. cbn [fst]. rewrite <- (map_map fst (append_code csr)).
    apply nodup_map_inj_on; [|assumption].
    intros x y Hx Hy E. apply in_map_iff in Hx as (dx & <- & Hdx). apply in_map_iff in Hy as (dy & <- & Hdy).
    destruct (append_code_valid csr (fst dx) Hpf (Hv dx Hdx)) as (_ & _ & Ex).
    destruct (append_code_valid csr (fst dy) Hpf (Hv dy Hdy)) as (_ & _ & Ey).
    rewrite <- Ex, <- Ey, E. reflexivity.
  - unfold wf_entries. rewrite Forall_forall. intros e He. apply in_map_iff in He as (d & <- & Hd).
    cbn [fst]. apply (append_code_valid csr (fst d) Hpf (Hv d Hd)).
  - rewrite Forall_forall. intros e He. apply in_map_iff in He as (d & <- & Hd).
    cbn [fst]. apply (append_code_valid csr (fst d) Hpf (Hv d Hd)).
Qed.

Lemma code_entries_assoc {V} csr (data : list (N * V)) code v :
  prefix_free csr -> NoDup (map fst data) -> Forall (fun d => valid_code csr (fst d)) data ->
  In (code, v) data -> assoc (code_entries csr data) (append_code csr code) = Some v.
Proof.
  intros Hpf Hnd Hv Hin. destruct (code_entries_ok csr data Hpf Hnd Hv) as (H1 & _ & _).
  apply in_assoc; [assumption|]. unfold code_entries. apply in_map_iff. exists (code, v). auto.
Qed.

Lemma code_entries_decoded {V} csr (data : list (N * V)) :
  prefix_free csr -> Forall (fun d => valid_code csr (fst d)) data ->
  map (fun e => (code_of_bytes (fst e), snd e)) (code_entries csr data) = data.
Proof.
  intros Hpf Hv. unfold code_entries. rewrite map_map. cbn [fst snd].
  induction data as [|[code v] data IH]; [reflexivity|].
  inversion Hv as [|? ? Hd Hv']; subst. cbn [map fst snd]. rewrite IH by assumption.
  destruct (append_code_valid csr code Hpf Hd) as (_ & _ & E). rewrite E. reflexivity.
Qed.

(* ---- CID files, keyed by Code ------------------------------------------- *)

Definition cid_data_ok (csr : list csrange) (data : list (N * N)) : Prop :=
  NoDup (map fst data) /\ Forall (fun d => valid_code csr (fst d)) data /\ Forall (fun d => snd d < two32) data.

Lemma cid_data_entries csr data :
  prefix_free csr -> cid_data_ok csr data ->
  NoDup (map fst (code_entries csr data)) /\ wf_entries N (code_entries csr data) /\
  cid_ok (code_entries csr data) /\ Forall (fun e => in_csr csr (fst e) = true) (code_entries csr data).
Proof.
  intros Hpf (H1 & H2 & H3). destruct (code_entries_ok csr data Hpf H1 H2) as (G1 & G2 & G3).
  repeat split; auto. unfold cid_ok, code_entries. rewrite Forall_forall in *.
  intros e He. apply in_map_iff in He as (d & <- & Hd). cbn [snd]. auto.
Qed.

Lemma setmapping_lookup_lemma csr f data c :
  prefix_free csr -> cid_data_ok csr data ->
  lookup_cid (set_mapping csr f data) c =
  match assoc (code_entries csr data) c with
  | Some v => v
  | None => match parent_opt f c with
            | Some v => v
            | None => lookup_notdef f c
            end
  end.
Proof.
  intros Hpf Hd. destruct (cid_data_entries csr data Hpf Hd) as (H1 & H2 & H3 & _).
  apply setmapping_lookup_bytes_lemma; assumption.
Qed.

Lemma setmapping_lookup_mapped_lemma csr f data code v :
  prefix_free csr -> cid_data_ok csr data -> In (code, v) data ->
  lookup_cid (set_mapping csr f data) (append_code csr code) = v.
Proof.
  intros Hpf Hd Hin. rewrite setmapping_lookup_lemma by assumption.
  destruct Hd as (H1 & H2 & _). rewrite (code_entries_assoc csr data code v Hpf H1 H2 Hin). reflexivity.
Qed.

Lemma all_eq_lemma csr f data :
  prefix_free csr -> cid_data_ok csr data -> c_parent f = None ->
  N.of_nat (length data) <= budget ->
  Permutation (all_cid csr (set_mapping csr f data)) data.
Proof.
  intros Hpf Hd Hpar Hlen. destruct (cid_data_entries csr data Hpf Hd) as (H1 & H2 & H3 & H4).
  destruct Hd as (_ & Hv & _).
  rewrite <- (code_entries_decoded csr data Hpf Hv) at 2.
  apply all_cid_no_parent; auto. unfold code_entries. rewrite map_length. assumption.
Qed.

Lemma agree_set_mapping_codes csr f data :
  prefix_free csr -> cid_data_ok csr data ->
  (forall p, c_parent f = Some p -> agree_cid p) ->
  agree_cid (set_mapping csr f data).
Proof.
  intros Hpf Hd Hp. destruct (cid_data_entries csr data Hpf Hd) as (H1 & H2 & H3 & _).
  apply agree_set_mapping; assumption.
Qed.

(* ---- ToUnicode files, keyed by Code ------------------------------------- *)

Definition tu_data_ok (csr : list csrange) (data : list (N * text)) : Prop :=
  NoDup (map fst data) /\ Forall (fun d => valid_code csr (fst d)) data.

Lemma tounicode_lookup_lemma csr data p c :
  prefix_free csr -> tu_data_ok csr data ->
  lookup_tu (with_parent (new_tounicode csr data) p) c =
  match assoc (code_entries csr data) c with
  | Some v => Some v
  | None => match p with
            | Some q => lookup_tu q c
            | None => None
            end
  end.
Proof.
  intros Hpf (H1 & H2). destruct (code_entries_ok csr data Hpf H1 H2) as (G1 & G2 & _).
  apply new_tounicode_lookup_lemma; assumption.
Qed.

Lemma tounicode_lookup_mapped_lemma csr data p code v :
  prefix_free csr -> tu_data_ok csr data -> In (code, v) data ->
  lookup_tu (with_parent (new_tounicode csr data) p) (append_code csr code) = Some v.
Proof.
  intros Hpf Hd Hin. rewrite tounicode_lookup_lemma by assumption.
  destruct Hd as (H1 & H2). rewrite (code_entries_assoc csr data code v Hpf H1 H2 Hin). reflexivity.
Qed.

Lemma tounicode_all_lemma csr data :
  prefix_free csr -> tu_data_ok csr data -> N.of_nat (length data) <= budget ->
  Permutation (all_tu csr (new_tounicode csr data)) data.
Proof.
  intros Hpf (H1 & H2) Hlen. destruct (code_entries_ok csr data Hpf H1 H2) as (G1 & G2 & G3).
  rewrite <- (code_entries_decoded csr data Hpf H2) at 2.
  apply all_tu_no_parent; auto. unfold code_entries. rewrite map_length. assumption.
Qed.

Lemma tounicode_agree_lemma csr data p :
  prefix_free csr -> tu_data_ok csr data ->
  (forall q, p = Some q -> agree_tu q) ->
  agree_tu (with_parent (new_tounicode csr data) p).
Proof.
  intros Hpf (H1 & H2) Hp. destruct (code_entries_ok csr data Hpf H1 H2) as (G1 & G2 & _).
  apply agree_new_tounicode; assumption.
Qed.

(* ---- odometer ------------------------------------------------------------ *)

Lemma odometer_step_lemma first last c c' i :
  range_index first last c = Some i -> next_code first last c = Some c' -> i + 1 <= max_int32 ->
  range_index first last c' = Some (i + 1).
Proof.
  intros Hi Hn Hcap. apply range_index_some in Hi as (H1 & H2 & H3).
  destruct (next_code_pos first last c c' H1 Hn) as (G1 & G2).
  apply range_index_some. repeat split; auto. lia.
Qed.

Lemma odometer_end_lemma first last c i :
  first <> [] -> range_index first last c = Some i -> next_code first last c = None ->
  N.of_nat (length (codes_in_range first last)) = i + 1.
Proof.
  intros Hne Hi Hn. apply range_index_some in Hi as (H1 & H2 & H3).
  pose proof (next_code_none first last c H1 Hn) as G.
  unfold codes_in_range, range_is_valid. destruct first as [|f fs]; [congruence|].
  rewrite (in_box_box_ok _ _ _ H1). rewrite codes_in_box_length by (eapply in_box_box_ok; eauto). lia.
Qed.

(* ---- F13: the construction before the repair ----------------------------- *)

Definition simple_csr : list csrange := [([0], [255])].

(* codes 41,42,43 -> U+D7FF, U+FFFD, U+FFFE *)
Definition f13_witness : list (bytes * text) := [([65], [55295]); ([66], [65533]); ([67], [65534])].

Lemma f13_refuted :
  exists es c v,
    NoDup (map fst es) /\ wf_entries text es /\ assoc es c = Some v /\
    lookup_tu (new_tounicode_bytes_pairwise simple_csr es) c <> Some v.
Proof.
  exists f13_witness, [67], [65534]. repeat split.
  - repeat constructor; cbn; intuition discriminate.
  - unfold wf_entries, f13_witness. repeat constructor; cbn; try discriminate; lia.
  - vm_compute. discriminate.
Qed.

(* ---- notdef entries of a file that has a parent (F31) ---------------------- *)

Definition simple_prefix_free : prefix_free simple_csr.
Proof.
  intros s k Hin Hk. unfold simple_csr, in_csr in Hin. cbn [existsb fst snd] in Hin.
  destruct s as [|a [|b s]]; cbn [length] in Hk; try lia.
  cbn [in_box] in Hin. rewrite !andb_false_r in Hin. discriminate.
Qed.

Definition notdef_witness : cfile :=
  CFile simple_csr [([80], 9)] [] [] [([32], [96], 3)]
        (Some (CFile simple_csr [([65], 1)] [] [] [] None)).

Lemma notdef_full_lemma f c : lookup_cid_opt f c = None -> lookup_cid f c = lookup_notdef f c.
Proof. intros H. unfold lookup_cid. rewrite H. reflexivity. Qed.

Lemma notdef_prefix_refuted :
  exists f c, lookup_cid_opt f c = None /\ lookup_cid_prefix f c <> lookup_notdef f c.
Proof. exists notdef_witness, [48]. split; vm_compute; [reflexivity|discriminate]. Qed.

Lemma notdef_prefix_root_lemma f c :
  lookup_cid_opt f c = None -> lookup_cid_prefix f c = lookup_notdef (c_root f) c.
Proof. intros H. rewrite lookup_cid_prefix_split, H. reflexivity. Qed.

(* ---- F34: SetMapping before the repair omitted an entry the parent answers from ITS notdef entries ---- *)

(* a file with a parent and the notdef range <20>-<60> -> 7; the map 50 -> 0, 51 -> 9 *)
Definition shadow_file : cfile :=
  CFile simple_csr [] [] [] [([32], [96], 7)] (Some (CFile simple_csr [([65], 1)] [] [] [] None)).
Definition shadow_entries : list (bytes * N) := [([80], 0); ([81], 9)].

Lemma setmapping_prefix_refuted :
  exists csr f es c v,
    NoDup (map fst es) /\ wf_entries N es /\ cid_ok es /\ assoc es c = Some v /\
    lookup_cid (set_mapping_bytes_prefix csr f es) c <> v.
Proof.
  exists simple_csr, shadow_file, shadow_entries, [80], 0. repeat split.
  - repeat constructor; cbn; intuition discriminate.
  - unfold wf_entries, wf_code, shadow_entries. repeat constructor; cbn; try discriminate; lia.
  - unfold cid_ok, two32, shadow_entries. repeat constructor; cbn; lia.
  - vm_compute. discriminate.
Qed.

Lemma shadow_now_right :
  map (lookup_cid (set_mapping_bytes simple_csr shadow_file shadow_entries)) [[65]; [80]; [81]; [48]; [97]] = [1; 0; 9; 7; 0].
Proof. vm_compute. reflexivity. Qed.
