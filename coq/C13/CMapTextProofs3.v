(* C13 text level, proofs part 3: the two round trips read_tokens (write_tokens t) = Some (normalize t). *)
From Coq Require Import List NArith ZArith Bool Arith Lia ZifyN ZifyNat ZifyBool Permutation.
From GoPdf.Base Require Import Bytes.
From GoPdf.Gen Require Import Gen_C13.
From GoPdf.C13 Require Import CMapRanges CMapText CMapTextProofs1 CMapTextProofs2.
Import ListNotations.
Open Scope N_scope.

Definition wf_ctext (t : ctext) : Prop :=
  (length (ct_csr t) <= 100)%nat /\ Forall csr_wf (ct_csr t) /\
  Forall single_wf (ct_singles t) /\ Forall crange_full_wf (ct_ranges t) /\
  Forall single_wf (ct_nd_singles t) /\ Forall crange_full_wf (ct_nd_ranges t).

(* what reading back does to a file: the interpreter sorts every list; readCMap keeps WMode 1 only,
   clamps the supplement and drops an all-empty CIDSystemInfo *)
Definition normalize_c (t : ctext) : ctext :=
  CText (ct_name t) (if ct_wmode t =? 1 then 1 else 0) (norm_ros (ct_ros t)) (ct_parent t)
        (sort_by csr_leb (ct_csr t))
        (sort_by single_leb (ct_singles t)) (sort_by range_leb (ct_ranges t))
        (sort_by single_leb (ct_nd_singles t)) (sort_by range_leb (ct_nd_ranges t)).

Definition body_cid (t : ctext) : list token :=
  csr_tokens (ct_csr t)
  ++ blocks n_begincidchar n_endcidchar single_entry (ct_singles t)
  ++ blocks n_begincidrange n_endcidrange range_entry (ct_ranges t)
  ++ blocks n_beginnotdefchar n_endnotdefchar single_entry (ct_nd_singles t)
  ++ blocks n_beginnotdefrange n_endnotdefrange range_entry (ct_nd_ranges t)
  ++ epilogue.

Lemma header_cid t :
  read_header_cid (write_tokens_cid t)
  = Some (ct_parent t, ct_ros t, ct_name t, Z.of_N (ct_wmode t), body_cid t).
Proof.
  unfold write_tokens_cid, read_header_cid. rewrite expect_app. fold (body_cid t).
  destruct (ct_parent t) as [p|]; destruct (ct_ros t) as [[[reg ord] sup]|];
    cbn [usecmap_tokens ros_tokens app]; rewrite ?bytes_eqb_refl; cbn; rewrite ?bytes_eqb_refl; cbn;
    rewrite ?Z.eqb_refl; cbn; rewrite ?bytes_eqb_refl; reflexivity.
Qed.

Lemma blocks_length_ge {A} nb ne (entry : A -> list token) (cs : list (list A)) :
  (length cs <= length (flat_map (block nb ne entry) cs))%nat.
Proof.
  induction cs as [|c cs IH]; [cbn; lia|]. cbn [flat_map length]. rewrite app_length. unfold block at 1. cbn [length]. lia.
Qed.

Definition info_cid (t : ctext) : cminfo :=
  CMInfo (ct_csr t) (zsingles (ct_singles t)) (zranges (ct_ranges t)) (zsingles (ct_nd_singles t)) (zranges (ct_nd_ranges t)) [] [].

Lemma body_cid_read t :
  wf_ctext t -> read_blocks (length (body_cid t)) (body_cid t) mi_empty = Some (info_cid t, tl epilogue).
Proof.
  intros (H1 & H2 & H3 & H4 & H5 & H6).
  set (F := (1 + (length (chunks (ct_singles t)) + (length (chunks (ct_ranges t)) +
            (length (chunks (ct_nd_singles t)) + (length (chunks (ct_nd_ranges t)) + 1)))))%nat).
  apply (read_blocks_mono F).
  - unfold F, body_cid. cbn [Nat.add].
    rewrite read_csr_block by assumption.
    rewrite read_cidchar_blocks, read_cidrange_blocks by assumption.
    rewrite read_ndchar_blocks, read_ndrange_blocks by assumption.
    replace (1 + 0)%nat with 1%nat by reflexivity. unfold epilogue. rewrite read_endcmap.
    unfold info_cid, mi_empty. cbn [add_items mi_csr mi_cidchars mi_cidranges mi_ndchars mi_ndranges mi_bfchars mi_bfranges app].
    reflexivity.
  - unfold F, body_cid, blocks. rewrite !app_length.
    pose proof (blocks_length_ge n_begincidchar n_endcidchar single_entry (chunks (ct_singles t))).
    pose proof (blocks_length_ge n_begincidrange n_endcidrange range_entry (chunks (ct_ranges t))).
    pose proof (blocks_length_ge n_beginnotdefchar n_endnotdefchar single_entry (chunks (ct_nd_singles t))).
    pose proof (blocks_length_ge n_beginnotdefrange n_endnotdefrange range_entry (chunks (ct_nd_ranges t))).
    assert (1 <= length (csr_tokens (ct_csr t)))%nat by (unfold csr_tokens; destruct (ct_csr t); cbn [length]; lia).
    cbn [epilogue length]. lia.
Qed.

Lemma sorted_singles_conv (xs : list (bytes * N)) :
  Forall single_wf xs ->
  conv_chars (sort_by (fun a b : bytes * Z => bytes_leb (fst a) (fst b)) (zsingles xs)) = sort_by single_leb xs.
Proof.
  intros H. unfold zsingles.
  rewrite (sort_by_map (fun s : bytes * N => (fst s, Z.of_N (snd s))) single_leb) by reflexivity.
  apply conv_chars_id. apply sort_by_forall. assumption.
Qed.

Lemma sorted_ranges_conv (xs : list crange) :
  Forall crange_full_wf xs ->
  conv_ranges (sort_by (fun a b : bytes * bytes * Z => bytes_leb (fst (fst a)) (fst (fst b))) (zranges xs)) = sort_by range_leb xs.
Proof.
  intros H. unfold zranges.
  rewrite (sort_by_map (fun r : crange => let '(f, l, v) := r in (f, l, Z.of_N v)) range_leb)
    by (intros [[? ?] ?] [[? ?] ?]; reflexivity).
  apply conv_ranges_id. apply sort_by_forall. assumption.
Qed.

Lemma cmap_text_rt_lemma t : wf_ctext t -> read_tokens_cid (write_tokens_cid t) = Some (normalize_c t).
Proof.
  intros Hwf. unfold read_tokens_cid. rewrite header_cid, body_cid_read by assumption.
  change (tl epilogue) with (tl epilogue ++ []). rewrite expect_app.
  destruct Hwf as (H1 & H2 & H3 & H4 & H5 & H6).
  unfold normalize_c, info_cid, sort_info.
  cbn [mi_csr mi_cidchars mi_cidranges mi_ndchars mi_ndranges].
  rewrite !sorted_singles_conv, !sorted_ranges_conv by assumption.
  rewrite conv_csr_id by (apply sort_by_forall; assumption).
  f_equal. f_equal. destruct (ct_wmode t =? 1) eqn:E.
  - apply N.eqb_eq in E. rewrite E. reflexivity.
  - apply N.eqb_neq in E. destruct (Z.of_N (ct_wmode t) =? 1)%Z eqn:E2; [lia|reflexivity].
Qed.

(* ---- ToUnicode ------------------------------------------------------------- *)

Definition wf_ttext (t : ttext) : Prop :=
  (length (tt_csr t) <= 100)%nat /\ Forall csr_wf (tt_csr t) /\
  Forall tsingle_wf (tt_singles t) /\ Forall trange_full_wf (tt_ranges t).

Definition normalize_t (t : ttext) : ttext :=
  TText (tt_name t) (tt_parent t) (sort_by csr_leb (tt_csr t))
        (sort_by single_leb (tt_singles t)) (sort_by range_leb (tt_ranges t)).

Definition body_tu (t : ttext) : list token :=
  csr_tokens (tt_csr t)
  ++ blocks n_beginbfchar n_endbfchar bfchar_entry (tt_singles t)
  ++ flat_map (block n_beginbfrange n_endbfrange bfrange_entry) (range_chunks (tt_ranges t))
  ++ epilogue.

Lemma header_tu t : read_header_tu (write_tokens_tu t) = Some (tt_parent t, tt_name t, body_tu t).
Proof.
  unfold write_tokens_tu, read_header_tu. rewrite expect_app. fold (body_tu t).
  destruct (tt_parent t) as [p|]; cbn [usecmap_tokens app]; rewrite ?bytes_eqb_refl; cbn; rewrite ?bytes_eqb_refl; reflexivity.
Qed.

Definition info_tu (t : ttext) : cminfo :=
  CMInfo (tt_csr t) [] [] [] [] (ebfchars (tt_singles t)) (ebfranges (tt_ranges t)).

Lemma body_tu_read t :
  wf_ttext t -> lists_ok (tt_ranges t) ->
  read_blocks (length (body_tu t)) (body_tu t) mi_empty = Some (info_tu t, tl epilogue).
Proof.
  intros (H1 & H2 & H3 & H4) Hd.
  set (F := (1 + (length (chunks (tt_singles t)) + (length (range_chunks (tt_ranges t)) + 1)))%nat).
  apply (read_blocks_mono F).
  - unfold F, body_tu. cbn [Nat.add].
    rewrite read_csr_block by assumption.
    rewrite read_bfchar_blocks, read_bfrange_blocks by assumption.
    replace (1 + 0)%nat with 1%nat by reflexivity. unfold epilogue. rewrite read_endcmap.
    unfold info_tu, mi_empty. cbn [add_items mi_csr mi_cidchars mi_cidranges mi_ndchars mi_ndranges mi_bfchars mi_bfranges app].
    reflexivity.
  - unfold F, body_tu, blocks. rewrite !app_length.
    pose proof (blocks_length_ge n_beginbfchar n_endbfchar bfchar_entry (chunks (tt_singles t))).
    pose proof (blocks_length_ge n_beginbfrange n_endbfrange bfrange_entry (range_chunks (tt_ranges t))).
    assert (1 <= length (csr_tokens (tt_csr t)))%nat by (unfold csr_tokens; destruct (tt_csr t); cbn [length]; lia).
    cbn [epilogue length]. lia.
Qed.

Lemma sorted_bfchars_conv (xs : list (bytes * text)) :
  Forall tsingle_wf xs ->
  conv_bfchars (sort_by (fun a b : bytes * bytes => bytes_leb (fst a) (fst b)) (ebfchars xs)) = sort_by single_leb xs.
Proof.
  intros H. unfold ebfchars.
  rewrite (sort_by_map (fun s : bytes * text => (fst s, utf16be_enc (snd s))) single_leb) by reflexivity.
  apply conv_bfchars_id. apply sort_by_forall. assumption.
Qed.

Lemma sorted_bfranges_conv (xs : list trange) :
  Forall trange_full_wf xs ->
  conv_bfranges (sort_by (fun a b : bytes * bytes * dst => bytes_leb (fst (fst a)) (fst (fst b))) (ebfranges xs)) = sort_by range_leb xs.
Proof.
  intros H. unfold ebfranges.
  rewrite (sort_by_map (fun r : trange => let '(f, l, vals) := r in (f, l, dst_of vals)) range_leb)
    by (intros [[? ?] ?] [[? ?] ?]; reflexivity).
  apply conv_bfranges_id. apply sort_by_forall. assumption.
Qed.

Lemma tounicode_text_rt_lemma t :
  wf_ttext t -> lists_ok (tt_ranges t) -> read_tokens_tu (write_tokens_tu t) = Some (normalize_t t).
Proof.
  intros Hwf Hd. unfold read_tokens_tu. rewrite header_tu, body_tu_read by assumption.
  change (tl epilogue) with (tl epilogue ++ []). rewrite expect_app.
  destruct Hwf as (H1 & H2 & H3 & H4).
  unfold normalize_t, info_tu, sort_info. cbn [mi_csr mi_bfchars mi_bfranges].
  rewrite sorted_bfchars_conv, sorted_bfranges_conv by assumption.
  rewrite conv_csr_id by (apply sort_by_forall; assumption). reflexivity.
Qed.

