Require Extraction.
Require Import ExtrOcamlBasic.
From GoPdf.Base Require Import WireAnchor.
From GoPdf.C13 Require Import CMapRanges CMapText.
Separate Extraction wire_anchor set_mapping lookup_cid all_cid new_tounicode with_parent lookup_tu all_tu
  get_mapping collect range_index codes_in_range next_code lookup_notdef append_code
  write_tokens_cid write_tokens_tu read_tokens_cid read_tokens_tu utf16be_enc utf16be_dec.
