(* C13 text level, proofs part 1: UTF-16BE, chunks, the block reader on the writer's blocks. *)
From Coq Require Import List NArith ZArith Bool Arith Lia ZifyN ZifyNat ZifyBool Permutation.
From GoPdf.Base Require Import Bytes.
From GoPdf.Gen Require Import Gen_C13.
From GoPdf.C13 Require Import CMapRanges CMapText.
Import ListNotations.
Open Scope N_scope.

(* ---- UTF-16BE ------------------------------------------------------------ *)

Lemma units_of_unit_bytes us : Forall (fun u => u < 65536) us -> units_of (flat_map unit_bytes us) = Some us.
Proof.
  induction us as [|u us IH]; intros H; [reflexivity|].
  inversion H; subst. cbn [flat_map unit_bytes app units_of]. rewrite IH by assumption.
  f_equal. f_equal. lia.
Qed.

Lemma enc_rune_units r : Forall (fun u => u < 65536) (enc_rune r).
Proof.
  unfold enc_rune, valid_rune. destruct ((r <? 55296) || (57344 <=? r) && (r <=? 1114111)) eqn:E.
  - destruct (r <? 65536) eqn:E2; repeat constructor; try lia.
  - repeat constructor; try lia.
Qed.

Lemma dec_units_enc r rest : dec_units (enc_rune r ++ rest) = fix_rune r :: dec_units rest.
Proof.
  unfold enc_rune, fix_rune, valid_rune.
  destruct ((r <? 55296) || (57344 <=? r) && (r <=? 1114111)) eqn:E.
  - destruct (r <? 65536) eqn:E2.
    + cbn [app dec_units]. unfold is_high, is_surr.
      assert (Hh : (55296 <=? r) && (r <? 56320) = false) by lia.
      assert (Hs : (55296 <=? r) && (r <? 57344) = false) by lia.
      rewrite Hh, Hs. destruct rest; reflexivity.
    + cbn [app dec_units]. unfold is_high, is_low.
      set (hi := 55296 + (r - 65536) / 1024 mod 1024). set (lo := 56320 + (r - 65536) mod 1024).
      assert (H1 : (55296 <=? hi) && (hi <? 56320) = true) by (unfold hi; lia).
      assert (H2 : (56320 <=? lo) && (lo <? 57344) = true) by (unfold lo; lia).
      rewrite H1, H2. cbn [andb]. f_equal. unfold hi, lo. lia.
  - cbn [app dec_units]. unfold is_high, is_surr. cbn. destruct rest; reflexivity.
Qed.

Lemma dec_units_enc_all rs : dec_units (flat_map enc_rune rs) = map fix_rune rs.
Proof.
  induction rs as [|r rs IH]; [reflexivity|].
  cbn [flat_map map]. rewrite dec_units_enc, IH. reflexivity.
Qed.

Lemma utf16be_enc_units rs : utf16be_enc rs = flat_map unit_bytes (flat_map enc_rune rs).
Proof.
  unfold utf16be_enc. induction rs as [|r rs IH]; [reflexivity|].
  cbn [flat_map]. rewrite IH, flat_map_app. reflexivity.
Qed.

Lemma utf16be_rt_general rs : utf16be_dec (utf16be_enc rs) = Some (map fix_rune rs).
Proof.
  unfold utf16be_dec. rewrite utf16be_enc_units, units_of_unit_bytes.
  - rewrite dec_units_enc_all. reflexivity.
  - apply Forall_flat_map. apply Forall_forall. intros r _. apply enc_rune_units.
Qed.

Definition valid_text (t : text) : Prop := Forall (fun r => valid_rune r = true) t.

Lemma fix_rune_valid t : valid_text t -> map fix_rune t = t.
Proof.
  induction t as [|r t IH]; intros H; [reflexivity|]. inversion H; subst.
  cbn [map]. rewrite IH by assumption. unfold fix_rune. rewrite H2. reflexivity.
Qed.

Lemma utf16be_rt_lemma rs : valid_text rs -> utf16be_dec (utf16be_enc rs) = Some rs.
Proof. intros H. rewrite utf16be_rt_general, fix_rune_valid by assumption. reflexivity. Qed.

(* ---- chunks ---------------------------------------------------------------- *)

Lemma chunk_size_eq : chunk_size = 100%nat.
Proof. reflexivity. Qed.

Lemma chunks_fuel_concat {A} fuel : forall x : list A, (length x < fuel)%nat -> concat (chunks_fuel fuel x) = x.
Proof.
  induction fuel as [|fuel IH]; intros x Hf; [lia|].
  cbn [chunks_fuel]. destruct (chunk_size <=? length x)%nat eqn:E.
  - apply Nat.leb_le in E. cbn [concat]. rewrite IH.
    + apply firstn_skipn.
    + rewrite skipn_length. rewrite chunk_size_eq in *. lia.
  - destruct x; [reflexivity|]. cbn [concat]. apply app_nil_r.
Qed.

Lemma chunks_concat {A} (x : list A) : concat (chunks x) = x.
Proof. unfold chunks. apply chunks_fuel_concat. lia. Qed.

Lemma chunks_fuel_sizes {A} fuel : forall x : list A,
  Forall (fun c => (1 <= length c <= 100)%nat) (chunks_fuel fuel x).
Proof.
  induction fuel as [|fuel IH]; intros x; [constructor|].
  cbn [chunks_fuel]. destruct (chunk_size <=? length x)%nat eqn:E.
  - apply Nat.leb_le in E. rewrite chunk_size_eq in *. constructor; [|apply IH].
    rewrite firstn_length. lia.
  - apply Nat.leb_gt in E. rewrite chunk_size_eq in *. destruct x; constructor; [|constructor].
    cbn [length] in *. lia.
Qed.

Lemma chunks_sizes {A} (x : list A) : Forall (fun c => (1 <= length c <= 100)%nat) (chunks x).
Proof. apply chunks_fuel_sizes. Qed.

(* ---- tokens --------------------------------------------------------------- *)

Lemma bytes_list_eqb_refl l : bytes_list_eqb l l = true.
Proof. induction l as [|x l IH]; [reflexivity|]. cbn. rewrite bytes_eqb_refl, IH. reflexivity. Qed.

Lemma token_eqb_refl t : token_eqb t t = true.
Proof.
  destruct t; cbn [token_eqb]; [apply Z.eqb_refl|apply bytes_eqb_refl|apply bytes_eqb_refl|apply bytes_eqb_refl|apply bytes_list_eqb_refl].
Qed.

Lemma expect_app p r : expect p (p ++ r) = Some r.
Proof.
  induction p as [|t p IH]; [reflexivity|]. cbn [app expect]. rewrite token_eqb_refl. exact IH.
Qed.

(* ---- entries --------------------------------------------------------------- *)

Lemma take_chars_entries (xs : list (bytes * N)) rest :
  take_chars (length xs) (flat_map single_entry xs ++ rest) = Some (map (fun s => (fst s, Z.of_N (snd s))) xs, rest).
Proof.
  induction xs as [|[c v] xs IH]; [reflexivity|].
  cbn [length flat_map single_entry app take_chars fst snd map]. rewrite IH. reflexivity.
Qed.

Definition crange_wf (r : crange) : Prop :=
  let '(f, l, _) := r in length f = length l /\ bytes_leb f l = true.

Lemma range_ok_wf f l : length f = length l -> bytes_leb f l = true -> range_ok f l = true.
Proof. intros H1 H2. unfold range_ok. rewrite H1, Nat.eqb_refl, H2. reflexivity. Qed.

Lemma take_ranges_entries (xs : list crange) rest :
  Forall crange_wf xs ->
  take_ranges (length xs) (flat_map range_entry xs ++ rest)
  = Some (map (fun r : crange => let '(f, l, v) := r in (f, l, Z.of_N v)) xs, rest).
Proof.
  induction xs as [|[[f l] v] xs IH]; intros H; [reflexivity|].
  inversion H as [|? ? Hw H3]; subst. unfold crange_wf in Hw. destruct Hw as [H1 H2].
  cbn [length flat_map range_entry app take_ranges map]. rewrite range_ok_wf by assumption.
  rewrite IH by assumption. reflexivity.
Qed.

Lemma take_csr_entries (xs : list csrange) rest :
  Forall (fun r => length (fst r) = length (snd r)) xs ->
  take_csr (length xs) (flat_map (fun r => [TStr (fst r); TStr (snd r)]) xs ++ rest) = Some (xs, rest).
Proof.
  induction xs as [|[lo hi] xs IH]; intros H; [reflexivity|].
  inversion H as [|? ? H1 H3]; subst. cbn [fst snd] in H1.
  cbn [length flat_map app take_csr fst snd]. rewrite H1, Nat.eqb_refl, IH by assumption. reflexivity.
Qed.

Lemma take_bfchars_entries (xs : list (bytes * text)) rest :
  take_bfchars (length xs) (flat_map bfchar_entry xs ++ rest)
  = Some (map (fun s => (fst s, utf16be_enc (snd s))) xs, rest).
Proof.
  induction xs as [|[c v] xs IH]; [reflexivity|].
  cbn [length flat_map bfchar_entry app take_bfchars fst snd map]. rewrite IH. reflexivity.
Qed.

Definition trange_wf (r : trange) : Prop :=
  let '(f, l, _) := r in length f = length l /\ bytes_leb f l = true.

(* operand stack: entry k of a block with a list of m <> 1 values needs 3k+3+m operands *)
Fixpoint depth_ok (k : N) (rs : list trange) : bool :=
  match rs with
  | [] => true
  | (_, _, vals) :: rs' =>
      (match vals with
       | [_] => true
       | _ => 3 * k + 3 + N.of_nat (length vals) <=? max_operands
       end) && depth_ok (k + 1) rs'
  end.

Definition dst_of (vals : list text) : dst :=
  match vals with
  | [v] => DStr (utf16be_enc v)
  | _ => DArr (map utf16be_enc vals)
  end.

Lemma take_bfranges_entries (xs : list trange) : forall k rest,
  Forall trange_wf xs -> depth_ok k xs = true ->
  take_bfranges (length xs) k (flat_map bfrange_entry xs ++ rest)
  = Some (map (fun r : trange => let '(f, l, vals) := r in (f, l, dst_of vals)) xs, rest).
Proof.
  induction xs as [|[[f l] vals] xs IH]; intros k rest H Hd; [reflexivity|].
  inversion H as [|? ? Hw H3]; subst. unfold trange_wf in Hw. destruct Hw as [H1 H2].
  cbn [depth_ok] in Hd. apply andb_true_iff in Hd as [Hd1 Hd2].
  cbn [length flat_map bfrange_entry map]. unfold dst_of.
  destruct vals as [|v [|v2 vals]].
  - cbn [app take_bfranges map length] in *. rewrite Hd1, range_ok_wf by assumption. cbn [andb].
    rewrite IH by assumption. reflexivity.
  - cbn [app take_bfranges]. rewrite range_ok_wf by assumption. rewrite IH by assumption. reflexivity.
  - cbn [app take_bfranges]. rewrite map_length. rewrite Hd1, range_ok_wf by assumption. cbn [andb].
    rewrite IH by assumption. reflexivity.
Qed.

(* ---- rangeChunks ------------------------------------------------------------- *)

Lemma depth_ok_app (a : list trange) : forall k b,
  depth_ok k (a ++ b) = depth_ok k a && depth_ok (k + N.of_nat (length a)) b.
Proof.
  induction a as [|[[f l] vals] a IH]; intros k b.
  - cbn [app depth_ok length]. replace (k + N.of_nat 0) with k by lia. reflexivity.
  - cbn [app depth_ok length]. rewrite IH. rewrite andb_assoc.
    replace (k + 1 + N.of_nat (length a)) with (k + N.of_nat (S (length a))) by lia. reflexivity.
Qed.

(* no value list is longer than 497: the first entry of a block needs 3 + m <= 500 operands *)
Definition lists_ok (xs : list trange) : Prop := Forall (fun r : trange => (length (snd r) <= 497)%nat) xs.

Lemma rchunks_spec (x : list trange) : forall cur,
  (length cur <= 100)%nat -> depth_ok 0 cur = true -> lists_ok x ->
  concat (rchunks cur x) = cur ++ x /\
  Forall (fun c => (1 <= length c <= 100)%nat /\ depth_ok 0 c = true) (rchunks cur x).
Proof.
  induction x as [|r x IH]; intros cur Hlen Hd Hl.
  - cbn [rchunks]. destruct cur as [|c0 cur'].
    + split; [reflexivity|constructor].
    + split; [cbn [concat]; rewrite !app_nil_r; reflexivity|].
      constructor; [|constructor]. cbn [length] in *. split; [lia|assumption].
  - inversion Hl as [|? ? Hr Hl']; subst. cbn [rchunks].
    assert (Hone : depth_ok 0 [r] = true).
    { destruct r as [[f l] vals]. cbn [snd] in Hr. cbn [depth_ok]. rewrite andb_true_r.
      destruct vals as [|v [|v2 vals]]; [|reflexivity|]; unfold max_operands; cbn [length] in *; lia. }
    destruct ((0 <? length cur)%nat && ((length cur =? chunk_size)%nat || (max_need <? range_need (length cur) r))) eqn:E.
    + apply andb_true_iff in E as [E1 _]. apply Nat.ltb_lt in E1.
      destruct (IH [r]) as [C1 C2]; [cbn; lia|assumption|assumption|].
      split.
      * cbn [concat]. rewrite C1. reflexivity.
      * constructor; [split; [lia|assumption]|assumption].
    + destruct (IH (cur ++ [r])) as [C1 C2]; [| |assumption|].
      * rewrite app_length. cbn [length]. apply andb_false_iff in E as [E|E].
        -- apply Nat.ltb_ge in E. lia.
        -- apply orb_false_iff in E as [E _]. apply Nat.eqb_neq in E. rewrite chunk_size_eq in E. lia.
      * rewrite depth_ok_app, Hd. cbn [andb]. rewrite N.add_0_l.
        apply andb_false_iff in E as [E|E].
        -- apply Nat.ltb_ge in E. assert (length cur = 0%nat) by lia. destruct cur; [exact Hone|discriminate].
        -- apply orb_false_iff in E as [_ E]. apply N.ltb_ge in E.
           destruct r as [[f l] vals]. unfold range_need, max_need in E. cbn [snd] in E.
           cbn [depth_ok]. rewrite andb_true_r.
           destruct vals as [|v [|v2 vals]]; [|reflexivity|]; unfold max_operands; cbn [length] in *; lia.
      * split; [rewrite C1, <- app_assoc; reflexivity|assumption].
Qed.

Lemma range_chunks_spec (x : list trange) :
  lists_ok x ->
  concat (range_chunks x) = x /\
  Forall (fun c => (1 <= length c <= 100)%nat /\ depth_ok 0 c = true) (range_chunks x).
Proof. intros H. apply (rchunks_spec x []); [cbn; lia|reflexivity|assumption]. Qed.

(* ---- blocks ---------------------------------------------------------------- *)

Lemma block_count_ok n : (n <= 100)%nat -> block_count (Z.of_nat n) = Some n.
Proof.
  intros H. unfold block_count, max_block.
  assert (E : ((0 <=? Z.of_nat n)%Z && (Z.of_nat n <=? 100)%Z) = true) by lia.
  rewrite E, Nat2Z.id. reflexivity.
Qed.

(* one block of kind k whose entries take_block accepts is consumed by one step of read_blocks *)
Lemma read_blocks_block k nbegin n entries rest mi mi' fuel :
  kind_of_begin nbegin = Some k -> (n <= 100)%nat ->
  take_block k n (entries ++ TExec (end_name k) :: rest) mi = Some (mi', TExec (end_name k) :: rest) ->
  read_blocks (S fuel) (TInt (Z.of_nat n) :: TExec nbegin :: entries ++ TExec (end_name k) :: rest) mi
  = read_blocks fuel rest mi'.
Proof.
  intros Hk Hn Ht. cbn [read_blocks]. rewrite block_count_ok by assumption. rewrite Hk, Ht.
  rewrite bytes_eqb_refl. reflexivity.
Qed.

(* what each kind appends *)
Definition add_items (k : kind) (mi : cminfo)
           (csr : list csrange) (chars : list (bytes * Z)) (ranges : list (bytes * bytes * Z))
           (bfc : list (bytes * bytes)) (bfr : list (bytes * bytes * dst)) : cminfo :=
  match k with
  | KCsr => CMInfo (mi_csr mi ++ csr) (mi_cidchars mi) (mi_cidranges mi) (mi_ndchars mi) (mi_ndranges mi) (mi_bfchars mi) (mi_bfranges mi)
  | KCidChar => CMInfo (mi_csr mi) (mi_cidchars mi ++ chars) (mi_cidranges mi) (mi_ndchars mi) (mi_ndranges mi) (mi_bfchars mi) (mi_bfranges mi)
  | KCidRange => CMInfo (mi_csr mi) (mi_cidchars mi) (mi_cidranges mi ++ ranges) (mi_ndchars mi) (mi_ndranges mi) (mi_bfchars mi) (mi_bfranges mi)
  | KNdChar => CMInfo (mi_csr mi) (mi_cidchars mi) (mi_cidranges mi) (mi_ndchars mi ++ chars) (mi_ndranges mi) (mi_bfchars mi) (mi_bfranges mi)
  | KNdRange => CMInfo (mi_csr mi) (mi_cidchars mi) (mi_cidranges mi) (mi_ndchars mi) (mi_ndranges mi ++ ranges) (mi_bfchars mi) (mi_bfranges mi)
  | KBfChar => CMInfo (mi_csr mi) (mi_cidchars mi) (mi_cidranges mi) (mi_ndchars mi) (mi_ndranges mi) (mi_bfchars mi ++ bfc) (mi_bfranges mi)
  | KBfRange => CMInfo (mi_csr mi) (mi_cidchars mi) (mi_cidranges mi) (mi_ndchars mi) (mi_ndranges mi) (mi_bfchars mi) (mi_bfranges mi ++ bfr)
  end.

Definition zsingles (xs : list (bytes * N)) := map (fun s => (fst s, Z.of_N (snd s))) xs.
Definition zranges (xs : list crange) := map (fun r : crange => let '(f, l, v) := r in (f, l, Z.of_N v)) xs.
Definition ebfchars (xs : list (bytes * text)) := map (fun s => (fst s, utf16be_enc (snd s))) xs.
Definition ebfranges (xs : list trange) := map (fun r : trange => let '(f, l, vals) := r in (f, l, dst_of vals)) xs.

(* the chunked blocks of one kind: generic statement over the chunk list *)
Section Blocks.
  Variable A : Type.
  Variable k : kind.
  Variable nbegin : bytes.
  Variable entry : A -> list token.
  Variable add : cminfo -> list A -> cminfo.
  Variable ok : list A -> Prop.
  Hypothesis Hk : kind_of_begin nbegin = Some k.
  Hypothesis Htake : forall xs rest mi, ok xs ->
    take_block k (length xs) (flat_map entry xs ++ TExec (end_name k) :: rest) mi = Some (add mi xs, TExec (end_name k) :: rest).
  Hypothesis Hadd_app : forall mi xs ys, add (add mi xs) ys = add mi (xs ++ ys).
  Hypothesis Hadd_nil : forall mi, add mi [] = mi.

  Lemma read_blocks_chunks (cs : list (list A)) : forall rest mi fuel,
    Forall (fun c => (1 <= length c <= 100)%nat /\ ok c) cs ->
    read_blocks (length cs + fuel) (flat_map (block nbegin (end_name k) entry) cs ++ rest) mi
    = read_blocks fuel rest (add mi (concat cs)).
  Proof.
    induction cs as [|c cs IH]; intros rest mi fuel H.
    - cbn [length concat flat_map app]. rewrite Hadd_nil. reflexivity.
    - inversion H as [|? ? [Hlen Hok] H']; subst.
      cbn [length flat_map concat]. unfold block at 1. rewrite <- !app_assoc. cbn [app].
      rewrite <- app_assoc. cbn [app]. cbn [Nat.add].
      rewrite (read_blocks_block k nbegin (length c) (flat_map entry c) _ mi (add mi c)); [|assumption|lia|].
      + rewrite IH by assumption. rewrite Hadd_app. reflexivity.
      + apply Htake. assumption.
  Qed.
End Blocks.
