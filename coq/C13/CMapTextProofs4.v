(* C13 text level, proofs part 4: lookups and enumeration survive write + read for files built by
   SetMapping / NewToUnicodeFile; the operand-stack refutation; the byte level under the tokenizer hypothesis. *)
From Coq Require Import List NArith ZArith Bool Arith Lia ZifyN ZifyNat ZifyBool Permutation.
From GoPdf.Base Require Import Bytes.
From GoPdf.Gen Require Import Gen_C13.
From GoPdf.C13 Require Import CMapRanges CMapRangesProofs1 CMapRangesProofs2 CMapRangesProofs3 CMapRangesProofs4
     CMapText CMapTextProofs1 CMapTextProofs2 CMapTextProofs3.
Import ListNotations.
Open Scope N_scope.

(* ---- shape of the ranges compress produces --------------------------------- *)

Lemma bytes_ltb_app_last k : forall a b, bytes_ltb (k ++ [a]) (k ++ [b]) = (a <? b).
Proof.
  induction k as [|x k IH]; intros a b; cbn [app bytes_ltb].
  - destruct (a <? b); [reflexivity|]. cbn. rewrite andb_false_r. reflexivity.
  - rewrite N.ltb_irrefl, N.eqb_refl. cbn [orb andb]. apply IH.
Qed.

Lemma bytes_leb_app_last k a b : a <= b -> bytes_leb (k ++ [a]) (k ++ [b]) = true.
Proof. intros H. unfold bytes_leb. rewrite bytes_ltb_app_last. apply negb_true_iff. apply N.ltb_ge. assumption. Qed.

Section Shape.
  Variable V : Type.
  Variable link : V -> V -> bool.
  Variable mkvals : list V -> list V.

  (* values of a run's items are values of entries *)
  Lemma build_runs_items (l0 : list (entry V)) : forall r0 xv,
    In r0 (build_runs link l0) -> In xv (snd r0) -> exists e, In e l0 /\ snd e = snd xv.
  Proof.
    induction l0 as [|e rest IH]; intros r0 xv Hr Hx; [destruct Hr|].
    destruct rest as [|e2 r'].
    - cbn in Hr. destruct Hr as [<-|[]]. cbn in Hx. destruct Hx as [<-|[]]. exists e. split; [left; reflexivity|reflexivity].
    - rewrite build_runs_step in Hr.
      destruct (build_runs_head V link r' e2) as (items & rs & E). rewrite E in Hr, IH.
      destruct (linked link e e2).
      + destruct Hr as [<-|Hr].
        * cbn [snd] in Hx. destruct Hx as [<-|Hx].
          -- exists e. split; [left; reflexivity|reflexivity].
          -- destruct (IH _ xv (or_introl eq_refl) Hx) as (e0 & H1 & H2). exists e0. split; [right; assumption|assumption].
        * destruct (IH r0 xv (or_intror Hr) Hx) as (e0 & H1 & H2). exists e0. split; [right; assumption|assumption].
      + destruct Hr as [<-|Hr].
        * cbn [snd] in Hx. destruct Hx as [<-|[]]. exists e. split; [left; reflexivity|reflexivity].
        * destruct (IH r0 xv Hr Hx) as (e0 & H1 & H2). exists e0. split; [right; assumption|assumption].
  Qed.

  Lemma compress_range_shape (es : list (entry V)) f l vals :
    wf_entries V es -> In (f, l, vals) (snd (compress link mkvals es)) ->
    exists k a b vs, f = k ++ [a] /\ l = k ++ [b] /\ a <= b /\ vals = mkvals vs /\
                     (forall v, In v vs -> exists c, In (c, v) es) /\ (length vs <= 256)%nat.
  Proof.
    intros Hwf Hin. unfold compress in Hin. cbn [snd] in Hin.
    set (sorted := sort_entries es) in *.
    assert (Hp : Permutation sorted es) by apply sort_perm.
    assert (Hwf' : wf_entries V sorted) by (eapply wf_entries_perm; [apply Permutation_sym|]; eauto).
    assert (Hok : Forall (run_ok V link) (build_runs link sorted)) by (apply build_runs_ok; [assumption|apply sort_sorted]).
    unfold ranges_of in Hin. apply in_flat_map in Hin as (rn & Hrn & Hin).
    destruct (run_range_spec V mkvals rn f l vals Hin) as (a & b & items & Hs & -> & -> & ->).
    rewrite Forall_forall in Hok. destruct (Hok rn Hrn) as (Hne & Hc & Hf).
    rewrite Hs in *. exists (fst rn), (fst a), (fst (last (a :: b :: items) a)), (map snd (a :: b :: items)).
    assert (Hlast : fst a + N.of_nat (length (b :: items)) < 256).
    { rewrite <- (consec_last V link a (b :: items) a Hc). rewrite Forall_forall in Hf. apply Hf.
      apply (@exists_last _ (a :: b :: items)) in Hne as (l' & z & E'). rewrite E', last_last. apply in_or_app. right. left. reflexivity. }
    split; [reflexivity|]. split; [reflexivity|]. split; [|split; [reflexivity|split]].
    - rewrite (consec_last V link a (b :: items) a Hc). lia.
    - intros v Hv. apply in_map_iff in Hv as (xv & <- & Hxv).
      destruct (build_runs_items sorted rn xv Hrn) as (e & He & Hsnd); [rewrite Hs; exact Hxv|].
      exists (fst e). rewrite <- Hsnd. destruct e. eapply Permutation_in; [exact Hp|exact He].
    - rewrite map_length. cbn [length] in *. lia.
  Qed.
  (* a produced range: same prefix, first <= last, as many values as codes, every code a key of the map *)
  Lemma compress_range_codes (es : list (entry V)) f l vals :
    wf_entries V es -> In (f, l, vals) (snd (compress link mkvals es)) ->
    exists k a b vs, f = k ++ [a] /\ l = k ++ [b] /\ a <= b /\ b < 256 /\ vals = mkvals vs /\
                     N.of_nat (length vs) = b - a + 1 /\
                     (forall x, a <= x -> x <= b -> exists v, In (k ++ [x], v) es).
  Proof.
    intros Hwf Hin. unfold compress in Hin. cbn [snd] in Hin.
    set (sorted := sort_entries es) in *.
    assert (Hp : Permutation sorted es) by apply sort_perm.
    assert (Hwf' : wf_entries V sorted) by (eapply wf_entries_perm; [apply Permutation_sym|]; eauto).
    assert (Hok : Forall (run_ok V link) (build_runs link sorted)) by (apply build_runs_ok; [assumption|apply sort_sorted]).
    assert (Hent : flat_map (run_entries V) (build_runs link sorted) = sorted).
    { apply build_runs_entries. intros e He. unfold wf_entries in Hwf'. rewrite Forall_forall in Hwf'. apply Hwf'. assumption. }
    unfold ranges_of in Hin. apply in_flat_map in Hin as (rn & Hrn & Hin).
    destruct (run_range_spec V mkvals rn f l vals Hin) as (a & b & items & Hs & -> & -> & ->).
    rewrite Forall_forall in Hok. destruct (Hok rn Hrn) as (Hne & Hc & Hf).
    rewrite Hs in *. exists (fst rn), (fst a), (fst (last (a :: b :: items) a)), (map snd (a :: b :: items)).
    assert (Hlast : fst a + N.of_nat (length (b :: items)) < 256).
    { rewrite <- (consec_last V link a (b :: items) a Hc). rewrite Forall_forall in Hf. apply Hf.
      apply (@exists_last _ (a :: b :: items)) in Hne as (l' & z & E'). rewrite E', last_last. apply in_or_app. right. left. reflexivity. }
    rewrite (consec_last V link a (b :: items) a Hc).
    split; [reflexivity|]. split; [reflexivity|]. split; [lia|]. split; [lia|]. split; [reflexivity|]. split.
    - rewrite map_length. cbn [length] in *. lia.
    - intros x Hx1 Hx2. set (i := N.to_nat (x - fst a)).
      assert (Hi : (i < length (a :: b :: items))%nat) by (unfold i; cbn [length] in *; lia).
      destruct (nth_error (a :: b :: items) i) as [xv|] eqn:E; [|apply nth_error_None in E; lia].
      pose proof (consec_nth V link _ _ _ a Hc E) as Hxv. cbn [hd] in Hxv.
      exists (snd xv). eapply Permutation_in; [exact Hp|]. rewrite <- Hent.
      apply in_flat_map. exists rn. split; [assumption|]. unfold run_entries. rewrite Hs.
      assert (Hxx : fst xv = x) by (unfold i in Hxv; lia).
      apply in_map_iff. exists xv. split; [|eapply nth_error_In; eauto].
      clear -Hxx. destruct xv as [x' v']. cbn [fst snd] in *. subst x'. reflexivity.
  Qed.
End Shape.

(* ---- code space -------------------------------------------------------------- *)

Lemma in_csr_perm csr csr' s : Permutation csr csr' -> in_csr csr s = in_csr csr' s.
Proof.
  intros H. unfold in_csr. induction H; cbn [existsb]; auto.
  - rewrite IHPermutation. reflexivity.
  - destruct (in_box (fst y) (snd y) s), (in_box (fst x) (snd x) s); reflexivity.
  - congruence.
Qed.

(* ======================================================================== *)
(* ToUnicode                                                                *)

Definition tu_values_valid (es : list (bytes * text)) : Prop := Forall (fun e => valid_text (snd e)) es.
Definition csr_ok (csr : list csrange) : Prop := (length csr <= 100)%nat /\ Forall csr_wf csr.

Lemma tu_vals_incl vs v : In v (tu_vals vs) -> In v vs.
Proof.
  unfold tu_vals. destruct (needs_list vs); [auto|]. destruct vs as [|v0 vs]; cbn; [tauto|]. intros [H|[]]. auto.
Qed.

Lemma new_tounicode_wf csr es name pn :
  csr_ok csr -> wf_entries text es -> tu_values_valid es ->
  wf_ttext (ttext_of name pn (new_tounicode_bytes csr es)).
Proof.
  intros [Hc1 Hc2] Hwf Hval. unfold wf_ttext, ttext_of, new_tounicode_bytes.
  cbn [tt_csr tt_singles tt_ranges t_csr t_singles t_ranges].
  destruct (compress_hits text next_string tu_link tu_vals tu_mk es Hwf) as [[S1 _] _].
  pose proof Hwf as Hwf0. unfold tu_values_valid, wf_entries in Hval, Hwf. rewrite Forall_forall in Hval, Hwf.
  split; [exact Hc1|]. split; [exact Hc2|]. split.
  - apply Forall_forall. intros s Hs. apply S1 in Hs. split; [apply (Hwf s Hs)|apply (Hval s Hs)].
  - apply Forall_forall. intros [[f l] vals] Hr.
    destruct (compress_range_shape text tu_link tu_vals es f l vals Hwf0 Hr) as (k & a & b & vs & -> & -> & Hab & -> & Hvs & Hlen256).
    unfold trange_full_wf. split; [|split; [|split]].
    + rewrite !app_length. reflexivity.
    + destruct k; discriminate.
    + apply bytes_leb_app_last. assumption.
    + apply Forall_forall. intros v Hv. apply tu_vals_incl in Hv. destruct (Hvs v Hv) as (c & Hc). apply (Hval (c, v) Hc).
Qed.

Lemma tu_lookup_after (csr : list csrange) es name pn p c :
  NoDup (map fst es) -> wf_entries text es ->
  lookup_tu (tfile_of (normalize_t (ttext_of name pn (new_tounicode_bytes csr es))) p) c
  = lookup_tu (with_parent (new_tounicode_bytes csr es) p) c.
Proof.
  intros Hnd Hwf. rewrite new_tounicode_lookup_lemma by assumption.
  unfold tfile_of, normalize_t, ttext_of, new_tounicode_bytes.
  cbn [tt_csr tt_singles tt_ranges t_csr t_singles t_ranges lookup_tu].
  destruct (compress_hits text next_string tu_link tu_vals tu_mk es Hwf) as [HS HC].
  rewrite (hits_lookup text next_string tu_link tu_vals tu_mk es _ _ c); [destruct (assoc es c); reflexivity| | |assumption].
  - eapply hits_sound_perm; [| |exact HS]; apply Permutation_sym; apply sort_by_perm.
  - eapply hits_complete_perm; [| |exact HC]; apply Permutation_sym; apply sort_by_perm.
Qed.

Lemma tu_raw_after (csr : list csrange) es name pn p :
  Permutation (raw_all_tu (tfile_of (normalize_t (ttext_of name pn (new_tounicode_bytes csr es))) p))
              (raw_all_tu (with_parent (new_tounicode_bytes csr es) p)).
Proof.
  unfold tfile_of, normalize_t, ttext_of, with_parent, new_tounicode_bytes.
  cbn [tt_csr tt_singles tt_ranges t_csr t_singles t_ranges raw_all_tu].
  apply Permutation_app_head. unfold own_all. apply Permutation_app.
  - apply Permutation_flat_map. apply sort_by_perm.
  - apply sort_by_perm.
Qed.

Lemma tu_vals_length vs : (length (tu_vals vs) <= length vs)%nat.
Proof. unfold tu_vals. destruct (needs_list vs); [lia|]. destruct vs; cbn; lia. Qed.

(* a range built by NewToUnicodeFile varies only the last byte: at most 256 codes, at most 256 values *)
Lemma new_tounicode_lists csr es :
  wf_entries text es ->
  Forall (fun r : trange => (length (snd r) <= 256)%nat) (t_ranges (new_tounicode_bytes csr es)).
Proof.
  intros Hwf. unfold new_tounicode_bytes. cbn [t_ranges]. apply Forall_forall. intros [[f l] vals] Hr.
  destruct (compress_range_shape text tu_link tu_vals es f l vals Hwf Hr) as (k & a & b & vs & _ & _ & _ & -> & _ & Hlen).
  cbn [snd]. pose proof (tu_vals_length vs). lia.
Qed.

Lemma new_tounicode_lists_ok csr es : wf_entries text es -> lists_ok (t_ranges (new_tounicode_bytes csr es)).
Proof.
  intros Hwf. unfold lists_ok. eapply Forall_impl; [|apply new_tounicode_lists; exact Hwf]. cbn beta. intros r H. lia.
Qed.

Lemma embed_extract_tu_lemma csr es name pn p :
  csr_ok csr -> NoDup (map fst es) -> wf_entries text es -> tu_values_valid es ->
  exists t', read_tokens_tu (write_tokens_tu (ttext_of name pn (new_tounicode_bytes csr es))) = Some t' /\
    tt_parent t' = pn /\
    (forall s, in_csr (tt_csr t') s = in_csr csr s) /\
    (forall c, lookup_tu (tfile_of t' p) c = lookup_tu (with_parent (new_tounicode_bytes csr es) p) c) /\
    Permutation (raw_all_tu (tfile_of t' p)) (raw_all_tu (with_parent (new_tounicode_bytes csr es) p)).
Proof.
  intros Hc Hnd Hwf Hval.
  exists (normalize_t (ttext_of name pn (new_tounicode_bytes csr es))). split; [|split; [|split; [|split]]].
  - apply tounicode_text_rt_lemma; [apply new_tounicode_wf; assumption|].
    cbn [ttext_of tt_ranges]. apply new_tounicode_lists_ok. assumption.
  - reflexivity.
  - intros s. cbn [normalize_t tt_csr ttext_of]. apply in_csr_perm. apply sort_by_perm.
  - intros c. apply tu_lookup_after; assumption.
  - apply tu_raw_after.
Qed.

(* ======================================================================== *)
(* CID                                                                      *)

Definition nd_sorted_wf (f : cfile) : Prop :=
  Forall single_wf (c_nd_singles f) /\ Forall crange_full_wf (c_nd_ranges f) /\
  sort_by single_leb (c_nd_singles f) = c_nd_singles f /\ sort_by range_leb (c_nd_ranges f) = c_nd_ranges f.

Lemma set_mapping_wf csr f es name wmode ros pn :
  csr_ok csr -> NoDup (map fst es) -> wf_entries N es -> cid_ok es -> nd_sorted_wf f ->
  wf_ctext (ctext_of name wmode ros pn (set_mapping_bytes csr f es)).
Proof.
  intros [Hc1 Hc2] Hnd Hwf Hok (Hn1 & Hn2 & _ & _).
  destruct (kept_cid_ok f es Hnd Hwf Hok) as (K1 & K2 & K3).
  unfold wf_ctext, ctext_of, set_mapping_bytes. fold (kept_cid f es).
  cbn [ct_csr ct_singles ct_ranges ct_nd_singles ct_nd_ranges c_csr c_singles c_ranges c_nd_singles c_nd_ranges].
  destruct (compress_hits N cid_add cid_link cid_vals cid_mk (kept_cid f es) K2) as [[S1 _] _].
  split; [exact Hc1|]. split; [exact Hc2|]. split; [|split; [|split; [exact Hn1|exact Hn2]]].
  - apply Forall_forall. intros s Hs. apply S1 in Hs. pose proof K2 as K2'. pose proof K3 as K3'.
    unfold wf_entries in K2'. unfold cid_ok in K3'. rewrite Forall_forall in K2', K3'.
    split; [apply (K2' s Hs)|apply (K3' s Hs)].
  - apply Forall_forall. intros r Hr. apply in_map_iff in Hr as ([[f0 l0] vals] & <- & Hr).
    destruct (compress_range_shape N cid_link cid_vals (kept_cid f es) f0 l0 vals K2 Hr) as (k & a & b & vs & -> & -> & Hab & -> & Hvs & Hlen256).
    destruct (compress_cid_singletons (kept_cid f es) K3 _ Hr) as (v & Hv & Hlt). cbn [snd] in Hv.
    unfold to_crange. rewrite Hv. cbn [hd]. unfold crange_full_wf. split; [|split; [|split]].
    + rewrite !app_length. reflexivity.
    + destruct k; discriminate.
    + apply bytes_leb_app_last. assumption.
    + assumption.
Qed.

Lemma singleton_ranges_perm rr rr' : Permutation rr rr' -> singleton_ranges rr -> singleton_ranges rr'.
Proof. intros P H r Hr. apply H. eapply Permutation_in; [apply Permutation_sym; exact P|exact Hr]. Qed.

Lemma sort_to_crange rr :
  sort_by range_leb (map to_crange rr) = map to_crange (sort_by range_leb rr).
Proof. apply sort_by_map. intros [[? ?] ?] [[? ?] ?]. reflexivity. Qed.

Lemma cid_own_after f es c :
  NoDup (map fst es) -> wf_entries N es -> cid_ok es ->
  let f' := set_mapping_bytes (c_csr f) f es in
  match find_single (sort_by single_leb (c_singles f')) c with
  | Some v => Some v
  | None => find_crange (sort_by range_leb (c_ranges f')) c
  end = assoc (kept_cid f es) c.
Proof.
  intros Hnd Hwf Hok f'. destruct (kept_cid_ok f es Hnd Hwf Hok) as (K1 & K2 & K3).
  unfold f', set_mapping_bytes. fold (kept_cid f es). cbn [c_singles c_ranges].
  rewrite sort_to_crange.
  rewrite find_crange_map by (eapply singleton_ranges_perm; [apply Permutation_sym; apply sort_by_perm|apply compress_cid_singletons; assumption]).
  destruct (compress_hits N cid_add cid_link cid_vals cid_mk (kept_cid f es) K2) as [HS HC].
  apply (hits_lookup N cid_add cid_link cid_vals cid_mk (kept_cid f es) _ _ c); [| |assumption].
  - eapply hits_sound_perm; [| |exact HS]; apply Permutation_sym; apply sort_by_perm.
  - eapply hits_complete_perm; [| |exact HC]; apply Permutation_sym; apply sort_by_perm.
Qed.

Definition after_cid (name : bytes) (wmode : N) (ros : option (bytes * bytes * Z)) (pn : option bytes)
           (csr : list csrange) (f : cfile) (es : list (bytes * N)) : cfile :=
  cfile_of (normalize_c (ctext_of name wmode ros pn (set_mapping_bytes csr f es))) (c_parent f).

Lemma cid_lookup_opt_after name wmode ros pn csr f es c :
  NoDup (map fst es) -> wf_entries N es -> cid_ok es ->
  lookup_cid_opt (after_cid name wmode ros pn csr f es) c = lookup_cid_opt (set_mapping_bytes csr f es) c.
Proof.
  intros Hnd Hwf Hok. rewrite lookup_cid_opt_set_mapping_kept by assumption.
  unfold after_cid, cfile_of, normalize_c, ctext_of.
  cbn [ct_csr ct_singles ct_ranges ct_nd_singles ct_nd_ranges lookup_cid_opt].
  pose proof (cid_own_after f es c Hnd Hwf Hok) as H. cbn zeta in H.
  destruct (set_mapping_csr_irrelevant csr (c_csr f) f es) as (E1 & E2 & _). cbn zeta in E1, E2.
  rewrite E1, E2.
  destruct (find_single (sort_by single_leb (c_singles (set_mapping_bytes (c_csr f) f es))) c) as [v|] eqn:F1.
  - rewrite <- H. reflexivity.
  - destruct (find_crange (sort_by range_leb (c_ranges (set_mapping_bytes (c_csr f) f es))) c) as [v|] eqn:F2.
    + rewrite <- H. reflexivity.
    + rewrite <- H. unfold parent_opt. unfold set_mapping_bytes. cbn [c_parent]. reflexivity.
Qed.

Lemma cid_lookup_after name wmode ros pn csr f es c :
  NoDup (map fst es) -> wf_entries N es -> cid_ok es -> nd_sorted_wf f ->
  lookup_cid (after_cid name wmode ros pn csr f es) c = lookup_cid (set_mapping_bytes csr f es) c.
Proof.
  intros Hnd Hwf Hok (_ & _ & Hs1 & Hs2). unfold lookup_cid.
  rewrite cid_lookup_opt_after by assumption.
  destruct (lookup_cid_opt (set_mapping_bytes csr f es) c); [reflexivity|].
  unfold after_cid, cfile_of, normalize_c, ctext_of, set_mapping_bytes.
  cbn [ct_csr ct_singles ct_ranges ct_nd_singles ct_nd_ranges c_nd_singles c_nd_ranges c_parent lookup_notdef].
  rewrite Hs1, Hs2. reflexivity.
Qed.

Lemma cid_raw_after name wmode ros pn csr f es :
  Permutation (raw_all_cid (after_cid name wmode ros pn csr f es)) (raw_all_cid (set_mapping_bytes csr f es)).
Proof.
  unfold after_cid, cfile_of, normalize_c, ctext_of, set_mapping_bytes.
  cbn [ct_csr ct_singles ct_ranges ct_nd_singles ct_nd_ranges c_singles c_ranges c_parent raw_all_cid].
  apply Permutation_app_head. apply Permutation_app.
  - apply Permutation_flat_map. apply sort_by_perm.
  - apply sort_by_perm.
Qed.

Lemma embed_extract_cid_lemma name wmode ros pn csr f es :
  csr_ok csr -> NoDup (map fst es) -> wf_entries N es -> cid_ok es -> nd_sorted_wf f ->
  exists t', read_tokens_cid (write_tokens_cid (ctext_of name wmode ros pn (set_mapping_bytes csr f es))) = Some t' /\
    ct_name t' = name /\ ct_parent t' = pn /\ ct_wmode t' = (if wmode =? 1 then 1 else 0) /\
    (forall s, in_csr (ct_csr t') s = in_csr csr s) /\
    (forall c, lookup_cid (cfile_of t' (c_parent f)) c = lookup_cid (set_mapping_bytes csr f es) c) /\
    Permutation (raw_all_cid (cfile_of t' (c_parent f))) (raw_all_cid (set_mapping_bytes csr f es)).
Proof.
  intros Hc Hnd Hwf Hok Hn.
  exists (normalize_c (ctext_of name wmode ros pn (set_mapping_bytes csr f es))).
  split; [|split; [|split; [|split; [|split; [|split]]]]].
  - apply cmap_text_rt_lemma. apply set_mapping_wf; assumption.
  - reflexivity.
  - reflexivity.
  - reflexivity.
  - intros s. cbn [normalize_c ct_csr ctext_of set_mapping_bytes c_csr]. apply in_csr_perm. apply sort_by_perm.
  - intros c. apply (cid_lookup_after name wmode ros pn csr f es c); assumption.
  - apply (cid_raw_after name wmode ros pn csr f es).
Qed.

(* ======================================================================== *)
(* the operand stack (F48)                                                      *)

(* 99 ranges <kk00>-<kk01> with two values each, then <6300>-<63c8> with 201 values: as entry 99 of one block
   (the writer BEFORE the F48 repair) it needs 3*99 + 3 + 201 = 501 operands *)
Definition deep_ranges : list trange :=
  map (fun k => ([N.of_nat k; 0], [N.of_nat k; 1], [[65]; [67]])) (seq 0 99)
  ++ [([99; 0], [99; 200], repeat [65] 201)].

Definition deep_text : ttext := TText [78] None [([0; 0], [255; 255])] [] deep_ranges.

Lemma deep_text_wf : wf_ttext deep_text /\ lists_ok (tt_ranges deep_text).
Proof.
  assert (W : Forall trange_full_wf deep_ranges /\ lists_ok deep_ranges).
  { unfold deep_ranges, lists_ok. split; apply Forall_app; split.
    - apply Forall_forall. intros r Hr. apply in_map_iff in Hr as (k & <- & _).
      unfold trange_full_wf. repeat split; try discriminate.
      + unfold bytes_leb. cbn [bytes_ltb]. rewrite N.ltb_irrefl, N.eqb_refl. reflexivity.
      + repeat constructor.
    - constructor; [|constructor]. unfold trange_full_wf. repeat split; try discriminate.
      apply Forall_forall. intros v Hv. apply repeat_spec in Hv. subst. repeat constructor.
    - apply Forall_forall. intros r Hr. apply in_map_iff in Hr as (k & <- & _). cbn. lia.
    - constructor; [|constructor]. cbn [snd]. rewrite repeat_length. lia. }
  destruct W as [W1 W2]. split; [|exact W2].
  unfold wf_ttext, deep_text. cbn [tt_csr tt_singles tt_ranges]. split; [cbn; lia|]. split; [|split; [constructor|exact W1]].
  repeat constructor; cbn; try discriminate.
Qed.

Lemma deep_text_prefix_refused : read_tokens_tu (write_tokens_tu_prefix deep_text) = None.
Proof. vm_compute. reflexivity. Qed.

Lemma tounicode_text_prefix_refuted :
  exists t, wf_ttext t /\ lists_ok (tt_ranges t) /\ read_tokens_tu (write_tokens_tu_prefix t) <> Some (normalize_t t).
Proof.
  exists deep_text. destruct deep_text_wf as [H1 H2]. split; [exact H1|]. split; [exact H2|].
  rewrite deep_text_prefix_refused. discriminate.
Qed.

(* beyond 497 values in one range even a block of its own does not fit (3 + 498 > 500); NewToUnicodeFile never
   builds such a range (new_tounicode_lists) *)
Definition long_list_text : ttext := TText [78] None [([0; 0], [255; 255])] [] [([0; 0], [1; 255], repeat [65] 498)].

Lemma long_list_refused : read_tokens_tu (write_tokens_tu long_list_text) = None.
Proof. vm_compute. reflexivity. Qed.

(* ======================================================================== *)
(* the byte level, under the tokenizer hypothesis                              *)

Section Tokenizer.
  Variable print : list token -> bytes.
  Variable tokenize : bytes -> option (list token).
  (* H-ps: the PostScript scanner reads back the token list that was printed *)
  Hypothesis tokenize_print_cid : forall t, wf_ctext t -> tokenize (print (write_tokens_cid t)) = Some (write_tokens_cid t).
  Hypothesis tokenize_print_tu : forall t, wf_ttext t -> tokenize (print (write_tokens_tu t)) = Some (write_tokens_tu t).

  Definition write_bytes_cid (t : ctext) : bytes := print (write_tokens_cid t).
  Definition read_bytes_cid (b : bytes) : option ctext :=
    match tokenize b with Some ts => read_tokens_cid ts | None => None end.
  Definition write_bytes_tu (t : ttext) : bytes := print (write_tokens_tu t).
  Definition read_bytes_tu (b : bytes) : option ttext :=
    match tokenize b with Some ts => read_tokens_tu ts | None => None end.

  Lemma cmap_bytes_rt_lemma t : wf_ctext t -> read_bytes_cid (write_bytes_cid t) = Some (normalize_c t).
  Proof.
    intros H. unfold read_bytes_cid, write_bytes_cid. rewrite tokenize_print_cid by assumption.
    apply cmap_text_rt_lemma. assumption.
  Qed.

  Lemma tounicode_bytes_rt_lemma t :
    wf_ttext t -> lists_ok (tt_ranges t) -> read_bytes_tu (write_bytes_tu t) = Some (normalize_t t).
  Proof.
    intros H Hd. unfold read_bytes_tu, write_bytes_tu. rewrite tokenize_print_tu by assumption.
    apply tounicode_text_rt_lemma; assumption.
  Qed.
End Tokenizer.

(* ======================================================================== *)
(* keyed by Code, as the Go API                                                 *)

Lemma embed_extract_cid_codes name wmode ros pn csr f data :
  csr_ok csr -> prefix_free csr -> cid_data_ok csr data -> nd_sorted_wf f ->
  exists t', read_tokens_cid (write_tokens_cid (ctext_of name wmode ros pn (set_mapping csr f data))) = Some t' /\
    ct_name t' = name /\ ct_parent t' = pn /\ ct_wmode t' = (if wmode =? 1 then 1 else 0) /\
    (forall s, in_csr (ct_csr t') s = in_csr csr s) /\
    (forall c, lookup_cid (cfile_of t' (c_parent f)) c = lookup_cid (set_mapping csr f data) c) /\
    Permutation (raw_all_cid (cfile_of t' (c_parent f))) (raw_all_cid (set_mapping csr f data)).
Proof.
  intros Hc Hpf Hd Hn. destruct (cid_data_entries csr data Hpf Hd) as (H1 & H2 & H3 & _).
  apply embed_extract_cid_lemma; assumption.
Qed.

Definition tu_data_valid (data : list (N * text)) : Prop := Forall (fun d => valid_text (snd d)) data.

Lemma embed_extract_tu_codes csr data name pn p :
  csr_ok csr -> prefix_free csr -> tu_data_ok csr data -> tu_data_valid data ->
  exists t', read_tokens_tu (write_tokens_tu (ttext_of name pn (new_tounicode csr data))) = Some t' /\
    tt_parent t' = pn /\
    (forall s, in_csr (tt_csr t') s = in_csr csr s) /\
    (forall c, lookup_tu (tfile_of t' p) c = lookup_tu (with_parent (new_tounicode csr data) p) c) /\
    Permutation (raw_all_tu (tfile_of t' p)) (raw_all_tu (with_parent (new_tounicode csr data) p)).
Proof.
  intros Hc Hpf (H1 & H2) Hv. destruct (code_entries_ok csr data Hpf H1 H2) as (G1 & G2 & _).
  apply embed_extract_tu_lemma; auto.
  unfold tu_values_valid, tu_data_valid, code_entries in *. rewrite Forall_forall in *.
  intros e He. apply in_map_iff in He as (d & <- & Hd'). cbn [snd]. auto.
Qed.
