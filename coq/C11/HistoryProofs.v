(* C11 - hist_values: whatever happens between the copy of a value and its Put,
   what is written is the renamed source value (for a stream: the renamed
   dictionary and the source's data). *)
From Coq Require Import List NArith ZArith Bool Lia.
From GoPdf.Base Require Import Res.
From GoPdf.C11 Require Import Copier Checker Spec CopierLemmas CopierProofs History.
Import ListNotations.

(* v is the renamed argument of one of the calls, or a reference to an object
   the caller has itself written earlier in the history *)
Definition from_call (src : source) (tr : tr_map) (ops : list hop) (own : list ref) (v : obj) : Prop :=
  (exists c, In (HCall c) ops /\ renamed src tr (call_obj c) v) \/ (exists t, v = ORef t /\ In t own).

Definition hist_values_stmt : Prop :=
  forall src fuel ops next0 h,
    run_hist src fuel ops (hinit next0) = Ok h ->
    forallb is_copy_op ops = true ->
    forall t v, In (t, v) (hputs h) -> from_call src (trans (hst h)) ops (map fst (hputs h)) v.

Lemma inv_bump src R X st : inv src R X st -> inv src R X (mkState (trans st) (next st + 1)%N (puts st)).
Proof.
  intros [h1 h2 h3 h4 h5 h6 h7 h8]. constructor; cbn [trans next puts]; auto.
  intros s t H. apply h4 in H. lia.
Qed.

Section Hist.
  Variable src : source.
  Variable fuel : nat.

  Definition own (h : hstate) : list ref := map fst (hputs h).

  Definition hinv (seen : list hop) (h : hstate) : Prop :=
    inv src [] [] (hst h) /\
    (forall v, In v (hres h) -> from_call src (trans (hst h)) seen (own h) v) /\
    (forall t v, In (t, v) (hputs h) -> from_call src (trans (hst h)) seen (own h) v).

  Lemma from_call_mono tr tr' seen seen' o o' v :
    tr_le tr tr' -> incl seen seen' -> incl o o' -> from_call src tr seen o v -> from_call src tr' seen' o' v.
  Proof.
    intros Hle Hi Ho [[c [Hin Hr]]|[t [-> Hin]]].
    - left. exists c. split; [now apply Hi|eapply renamed_mono; eassumption].
    - right. exists t. split; [reflexivity|now apply Ho].
  Qed.

  Lemma hop_step seen op h h1 :
    run_hop src fuel op h = Ok h1 -> is_copy_op op = true -> hinv seen h -> hinv (seen ++ [op]) h1.
  Proof.
    intros H Hc [Hi [Hres Hput]]. destruct op as [c|i]; cbn [run_hop] in H.
    - destruct (run_call src fuel c (hst h)) as [[r st']|e] eqn:E; [|discriminate]. injection H as <-.
      unfold own. cbn [hst hres hputs].
      assert (Hspec : inv src [] [] st' /\ st_le (hst h) st' /\ renamed src (trans st') (call_obj c) r).
      { destruct c as [r0|o|s m]; cbn [run_call call_obj is_copy_op] in *; [| |discriminate];
          apply (copy_obj_spec src fuel [] [] _ _ _ _ E Hi). }
      destruct Hspec as [Hi' [[Hle _] Hr]].
      assert (Hinc : incl seen (seen ++ [HCall c])) by (intros x Hx; apply in_or_app; now left).
      split; [exact Hi'|split].
      + intros v Hin. apply in_app_or in Hin. destruct Hin as [Hin|[<-|[]]].
        * eapply from_call_mono; [exact Hle|exact Hinc|apply incl_refl|now apply Hres].
        * left. exists c. split; [apply in_or_app; right; now left|exact Hr].
      + intros t v Hin. eapply from_call_mono; [exact Hle|exact Hinc|apply incl_refl|exact (Hput t v Hin)].
    - destruct (nth_error (hres h) i) as [v|] eqn:En; [|discriminate].
      destruct (alloc_ok (hst h)); [|discriminate].
      destruct (has (next (hst h)) (puts (hst h)) || has (next (hst h)) (hputs h)); [discriminate|].
      injection H as <-. unfold own in *. cbn [hst hres hputs trans map fst].
      assert (Hinc : incl seen (seen ++ [HPut i])) by (intros x Hx; apply in_or_app; now left).
      assert (Hown : incl (map fst (hputs h)) (next (hst h) :: map fst (hputs h))) by (intros x Hx; now right).
      split; [now apply inv_bump|split].
      + intros v0 Hin. apply in_app_or in Hin. destruct Hin as [Hin|[<-|[]]].
        * eapply from_call_mono; [apply tr_le_refl|exact Hinc|exact Hown|now apply Hres].
        * right. exists (next (hst h)). split; [reflexivity|now left].
      + intros t v0 [[= <- <-]|Hin].
        * apply nth_error_In in En. eapply from_call_mono; [apply tr_le_refl|exact Hinc|exact Hown|now apply Hres].
        * eapply from_call_mono; [apply tr_le_refl|exact Hinc|exact Hown|exact (Hput t v0 Hin)].
  Qed.

  Lemma hist_run : forall ops seen h h',
    run_hist src fuel ops h = Ok h' -> forallb is_copy_op ops = true -> hinv seen h -> hinv (seen ++ ops) h'.
  Proof.
    induction ops as [|op ops IH]; intros seen h h' H Hc Hi; cbn [run_hist] in H.
    - injection H as <-. now rewrite app_nil_r.
    - destruct (run_hop src fuel op h) as [e|h1] eqn:E; [|discriminate]. cbn [forallb] in Hc.
      apply andb_true_iff in Hc. destruct Hc as [Hc1 Hc2].
      pose proof (hop_step seen op h _ E Hc1 Hi) as Hi1.
      specialize (IH _ _ _ H Hc2 Hi1). now rewrite <- app_assoc in IH.
  Qed.
End Hist.

Lemma hist_values : hist_values_stmt.
Proof.
  intros src fuel ops next0 h H Hc t v Hin.
  assert (H0 : hinv src [] (hinit next0)).
  { split; [apply inv_init|split]; cbn [hinit hres hputs]; [intros v0 []|intros t0 v0 []]. }
  destruct (hist_run src fuel ops [] _ _ H Hc H0) as [_ [_ Hp]]. exact (Hp t v Hin).
Qed.
