(* C11 - hist_values: whatever happens between the copy of a value and its Put,
   what is written is the renamed source value (for a stream: the renamed
   dictionary and the source's data). *)
From Coq Require Import List NArith ZArith Bool Lia.
From GoPdf.Base Require Import Res.
From GoPdf.C11 Require Import Copier Checker Spec CopierLemmas CopierProofs History.
Import ListNotations.

(* v is the renamed argument of one of the copy calls, or a reference to an
   object the caller has itself written to the target earlier in the history
   (with Put, or as the replacement given to Redirect) *)
Definition from_call (src : source) (tr : tr_map) (ops : list hop) (own : list ref) (v : obj) : Prop :=
  (exists c, In (HCall c) ops /\ is_copy_op (HCall c) = true /\ renamed src tr (call_obj c) v)
  \/ (exists t, v = ORef t /\ In t own).

Definition calls_of (ops : list hop) : list call :=
  flat_map (fun op => match op with HCall c => [c] | HPut _ => [] end) ops.

(* Redirect only for references that have no translation yet *)
Definition hist_fresh (src : source) (fuel : nat) (ops : list hop) (h0 : hstate) : Prop :=
  forall ops1 s m ops2, ops = ops1 ++ HCall (CRedirect s m) :: ops2 ->
    forall h1, run_hist src fuel ops1 h0 = Ok h1 -> lookup s (trans (hst h1)) = None.

Definition written (h : hstate) : list ref := map fst (hputs h) ++ map fst (puts (hst h)).

Definition hist_values_stmt : Prop :=
  forall src fuel ops next0 h,
    run_hist src fuel ops (hinit next0) = Ok h ->
    hist_fresh src fuel ops (hinit next0) ->
    forall t v, In (t, v) (hputs h) -> from_call src (trans (hst h)) ops (written h) v.

Lemma inv_bump src R X st : inv src R X st -> inv src R X (mkState (trans st) (next st + 1)%N (puts st)).
Proof.
  intros [h1 h2 h3 h4 h5 h6 h7 h8]. constructor; cbn [trans next puts]; auto.
  intros s t H. apply h4 in H. lia.
Qed.

Lemma redirected_app a b : redirected (a ++ b) = redirected a ++ redirected b.
Proof.
  induction a as [|c a IH]; [reflexivity|]. destruct c; cbn [app redirected]; try exact IH. now rewrite IH.
Qed.

Lemma calls_of_app a b : calls_of (a ++ b) = calls_of a ++ calls_of b.
Proof. unfold calls_of. apply flat_map_app. Qed.

Lemma redirect_result src fuel s m st r st' :
  run_call src fuel (CRedirect s m) st = Ok (r, st') -> exists t, r = ORef t /\ In t (map fst (puts st')).
Proof.
  cbn [run_call]. destruct (alloc_ok st); [|discriminate]. destruct (has (next st) (puts st)); [discriminate|].
  intros [= <- <-]. exists (next st). split; [reflexivity|]. cbn [puts map fst]. now left.
Qed.

Section Hist.
  Variable src : source.
  Variable fuel : nat.

  Definition hinv (seen : list hop) (h : hstate) : Prop :=
    (exists R, (forall x, In x R <-> In x (redirected (calls_of seen))) /\ inv src R [] (hst h)) /\
    (forall v, In v (hres h) -> from_call src (trans (hst h)) seen (written h) v) /\
    (forall t v, In (t, v) (hputs h) -> from_call src (trans (hst h)) seen (written h) v).

  Lemma from_call_mono tr tr' seen seen' o o' v :
    tr_le tr tr' -> incl seen seen' -> incl o o' -> from_call src tr seen o v -> from_call src tr' seen' o' v.
  Proof.
    intros Hle Hi Ho [[c [Hin [Hc Hr]]]|[t [-> Hin]]].
    - left. exists c. split; [now apply Hi|split; [exact Hc|eapply renamed_mono; eassumption]].
    - right. exists t. split; [reflexivity|now apply Ho].
  Qed.

  Lemma puts_keys_mono st st' t : st_le st st' -> In t (map fst (puts st)) -> In t (map fst (puts st')).
  Proof.
    intros [_ [_ Hp]] Hin. apply in_map_iff in Hin. destruct Hin as [[t0 v] [<- Hin]]. cbn [fst].
    destruct (lookup t0 (puts st)) as [v0|] eqn:E.
    - eapply lookup_has. apply Hp. exact E.
    - exfalso. eapply lookup_None_notin; [exact E|]. change t0 with (fst (t0, v)). now apply in_map.
  Qed.

  Lemma hop_step seen op h h1 :
    run_hop src fuel op h = Ok h1 ->
    (forall s m, op = HCall (CRedirect s m) -> lookup s (trans (hst h)) = None) ->
    hinv seen h -> hinv (seen ++ [op]) h1.
  Proof.
    intros H Hf [[R [HR Hi]] [Hres Hput]]. destruct op as [c|i]; cbn [run_hop] in H.
    - destruct (run_call src fuel c (hst h)) as [[r st']|e] eqn:E; [|discriminate]. injection H as <-.
      unfold written. cbn [hst hres hputs].
      destruct (run_call_spec src fuel c R _ _ _ E Hi) as [Hi' [Hle Hr]].
      { intros s m ->. eapply Hf. reflexivity. }
      assert (Hinc : incl seen (seen ++ [HCall c])) by (intros x Hx; apply in_or_app; now left).
      assert (Hw : incl (map fst (hputs h) ++ map fst (puts (hst h))) (map fst (hputs h) ++ map fst (puts st'))).
      { intros x Hx. apply in_app_or in Hx. apply in_or_app. destruct Hx as [Hx|Hx]; [now left|right].
        eapply puts_keys_mono; eassumption. }
      split; [|split].
      + exists (redirected [c] ++ R). split; [|exact Hi'].
        intros x. rewrite calls_of_app, redirected_app. cbn [calls_of flat_map app]. rewrite ?app_nil_r.
        rewrite !in_app_iff, HR. tauto.
      + intros v Hin. apply in_app_or in Hin. destruct Hin as [Hin|[<-|[]]].
        * eapply from_call_mono; [apply Hle|exact Hinc|exact Hw|now apply Hres].
        * destruct c as [r0|o|s m]; cbn [call_result_ok] in Hr.
          -- left. exists (CCopyRef r0). split; [apply in_or_app; right; now left|split; [reflexivity|exact Hr]].
          -- left. exists (CCopy o). split; [apply in_or_app; right; now left|split; [reflexivity|exact Hr]].
          -- destruct (redirect_result _ _ _ _ _ _ _ E) as [t [-> Hin]].
             right. exists t. split; [reflexivity|]. apply in_or_app. now right.
      + intros t v Hin. eapply from_call_mono; [apply Hle|exact Hinc|exact Hw|exact (Hput t v Hin)].
    - destruct (nth_error (hres h) i) as [v|] eqn:En; [|discriminate].
      destruct (alloc_ok (hst h)); [|discriminate].
      destruct (has (next (hst h)) (puts (hst h)) || has (next (hst h)) (hputs h)); [discriminate|].
      injection H as <-. unfold written in *. cbn [hst hres hputs trans puts map fst].
      assert (Hinc : incl seen (seen ++ [HPut i])) by (intros x Hx; apply in_or_app; now left).
      assert (Hown : incl (map fst (hputs h) ++ map fst (puts (hst h)))
                          ((next (hst h) :: map fst (hputs h)) ++ map fst (puts (hst h)))).
      { intros x Hx. apply in_app_or in Hx. apply in_or_app. destruct Hx as [Hx|Hx]; [left; now right|now right]. }
      split; [|split].
      + exists R. split; [|now apply inv_bump].
        intros x. rewrite calls_of_app. cbn [calls_of flat_map app]. rewrite ?app_nil_r. apply HR.
      + intros v0 Hin. apply in_app_or in Hin. destruct Hin as [Hin|[<-|[]]].
        * eapply from_call_mono; [apply tr_le_refl|exact Hinc|exact Hown|now apply Hres].
        * right. exists (next (hst h)). split; [reflexivity|]. apply in_or_app. left. now left.
      + intros t v0 [[= <- <-]|Hin].
        * apply nth_error_In in En. eapply from_call_mono; [apply tr_le_refl|exact Hinc|exact Hown|now apply Hres].
        * eapply from_call_mono; [apply tr_le_refl|exact Hinc|exact Hown|exact (Hput t v0 Hin)].
  Qed.

  Lemma run_hist_snoc : forall seen h0 h op h1,
    run_hist src fuel seen h0 = Ok h -> run_hop src fuel op h = Ok h1 -> run_hist src fuel (seen ++ [op]) h0 = Ok h1.
  Proof.
    induction seen as [|o seen IH]; intros h0 h op h1 H H1; cbn [run_hist app] in *.
    - injection H as <-. now rewrite H1.
    - destruct (run_hop src fuel o h0) as [h2|e]; [|discriminate]. eapply IH; eassumption.
  Qed.

  Lemma hist_run h0 : forall ops seen h h',
    run_hist src fuel seen h0 = Ok h ->
    run_hist src fuel ops h = Ok h' -> hist_fresh src fuel (seen ++ ops) h0 -> hinv seen h -> hinv (seen ++ ops) h'.
  Proof.
    induction ops as [|op ops IH]; intros seen h h' Hs H Hf Hi; cbn [run_hist] in H.
    - injection H as <-. now rewrite app_nil_r.
    - destruct (run_hop src fuel op h) as [h1|e] eqn:E; [|discriminate].
      assert (Hi1 : hinv (seen ++ [op]) h1).
      { eapply hop_step; [exact E| |exact Hi]. intros s m ->. eapply (Hf seen s m ops eq_refl). exact Hs. }
      pose proof (run_hist_snoc _ _ _ _ _ Hs E) as Hs1.
      replace (seen ++ op :: ops) with ((seen ++ [op]) ++ ops) in * by (now rewrite <- app_assoc).
      eapply IH; eassumption.
  Qed.
End Hist.

Lemma hist_values : hist_values_stmt.
Proof.
  intros src fuel ops next0 h H Hf t v Hin.
  assert (H0 : hinv src [] (hinit next0)).
  { split; [exists []; split; [intros x; tauto|apply inv_init]|split]; cbn [hinit hres hputs]; [intros v0 []|intros t0 v0 []]. }
  destruct (hist_run src fuel (hinit next0) ops [] _ _ eq_refl H Hf H0) as [_ [_ Hp]]. exact (Hp t v Hin).
Qed.
