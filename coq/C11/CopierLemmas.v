(* C11 - basic facts: association lists, names, alias chains (chase / key / val),
   monotonicity of [renamed], the generic state-passing map. *)
From Coq Require Import List NArith ZArith Bool Lia.
From GoPdf.Base Require Import Res.
From GoPdf.C11 Require Import Copier Checker Spec.
Import ListNotations.

(* ---- association lists ------------------------------------------------- *)

Lemma lookup_In {A} r (l : list (N * A)) v : lookup r l = Some v -> In (r, v) l.
Proof.
  induction l as [|[k x] l IH]; cbn [lookup]; [discriminate|].
  destruct (N.eqb k r) eqn:E.
  - intros [= <-]. apply N.eqb_eq in E. subst. now left.
  - intros H. right. auto.
Qed.

Lemma lookup_cons_eq {A} r (v : A) l : lookup r ((r, v) :: l) = Some v.
Proof. cbn [lookup]. now rewrite N.eqb_refl. Qed.

Lemma lookup_cons_neq {A} r k (v : A) l : k <> r -> lookup r ((k, v) :: l) = lookup r l.
Proof. intros H. cbn [lookup]. destruct (N.eqb k r) eqn:E; [apply N.eqb_eq in E; contradiction|reflexivity]. Qed.

Lemma lookup_None_notin {A} r (l : list (N * A)) : lookup r l = None -> ~ In r (map fst l).
Proof.
  induction l as [|[k x] l IH]; cbn [lookup map fst]; [tauto|].
  destruct (N.eqb k r) eqn:E; [discriminate|].
  intros H [->|Hin]; [rewrite N.eqb_refl in E; discriminate|]. now apply IH.
Qed.

Lemma notin_lookup_None {A} r (l : list (N * A)) : ~ In r (map fst l) -> lookup r l = None.
Proof.
  induction l as [|[k x] l IH]; cbn [lookup map fst]; [reflexivity|].
  intros H. destruct (N.eqb k r) eqn:E.
  - apply N.eqb_eq in E. subst. exfalso. apply H. now left.
  - apply IH. intros Hin. apply H. now right.
Qed.

Lemma mem_In r l : mem r l = true <-> In r l.
Proof.
  unfold mem. rewrite existsb_exists. split.
  - intros [x [Hin E]]. apply N.eqb_eq in E. now subst.
  - intros H. exists r. split; [assumption|apply N.eqb_refl].
Qed.

Lemma mem_false r l : mem r l = false <-> ~ In r l.
Proof. rewrite <- mem_In. destruct (mem r l); split; congruence. Qed.

Lemma name_eqb_eq a b : name_eqb a b = true <-> a = b.
Proof.
  revert b. induction a as [|x a IH]; intros [|y b]; cbn [name_eqb]; try (split; congruence).
  rewrite andb_true_iff, N.eqb_eq, IH. split; [intros [-> ->]; reflexivity|intros [= -> ->]; auto].
Qed.

Lemma name_eqb_refl a : name_eqb a a = true.
Proof. now apply name_eqb_eq. Qed.

Lemma name_eqb_neq a b : a <> b -> name_eqb a b = false.
Proof. intros H. destruct (name_eqb a b) eqn:E; [apply name_eqb_eq in E; contradiction|reflexivity]. Qed.

Lemma K_Filter_neq : K_Filter <> K_DecodeParms.
Proof. discriminate. Qed.

(* ---- set_all ----------------------------------------------------------- *)

Lemma lookup_set_all path t tr p :
  lookup p (set_all path t tr) =
  match lookup p tr with Some x => Some x | None => if mem p path then Some t else None end.
Proof.
  induction path as [|q path IH]; cbn [set_all fold_right].
  - unfold mem. cbn [existsb]. destruct (lookup p tr); reflexivity.
  - fold (set_all path t tr). unfold mem. cbn [existsb]. fold (mem p path).
    destruct (lookup q tr) as [x|] eqn:Eq.
    + rewrite IH. destruct (lookup p tr) eqn:Ep; [reflexivity|].
      destruct (N.eqb p q) eqn:E; [apply N.eqb_eq in E; subst; congruence|reflexivity].
    + cbn [lookup]. rewrite (N.eqb_sym q p). destruct (N.eqb p q) eqn:E.
      * apply N.eqb_eq in E. subst. rewrite Eq. reflexivity.
      * cbn [orb]. exact IH.
Qed.

Lemma lookup_set_all_in path t tr p : In p path -> lookup p tr = None -> lookup p (set_all path t tr) = Some t.
Proof. intros Hin Hn. rewrite lookup_set_all, Hn. apply mem_In in Hin. now rewrite Hin. Qed.

Lemma lookup_set_all_old path t tr p x : lookup p tr = Some x -> lookup p (set_all path t tr) = Some x.
Proof. intros H. now rewrite lookup_set_all, H. Qed.

Lemma In_set_all path t tr s t0 :
  In (s, t0) (set_all path t tr) -> (In s path /\ t0 = t /\ lookup s tr = None) \/ In (s, t0) tr.
Proof.
  induction path as [|q path IH]; cbn [set_all fold_right]; [now right|].
  fold (set_all path t tr). destruct (lookup q tr) eqn:Eq.
  - intros H. destruct (IH H) as [[H1 H2]|H1]; [left; split; [now right|assumption]|now right].
  - intros [[= <- <-]|H]; [left; split; [now left|split; [reflexivity|exact Eq]]|].
    destruct (IH H) as [[H1 H2]|H1]; [left; split; [now right|assumption]|now right].
Qed.

(* ---- alias chains ------------------------------------------------------ *)

Lemma max_depth_S : max_depth = S 255.
Proof. reflexivity. Qed.

Definition not_ref (v : obj) : Prop := forall r', v <> ORef r'.

Lemma chase_end src b : forall r path v p',
  chase src b r path = Ok (v, p') ->
  exists e rest, p' = e :: rest /\ sget src e = Ok v /\ not_ref v.
Proof.
  induction b as [|b IH]; intros r path v p'; cbn [chase];
    destruct (mem r path); try discriminate.
  destruct (sget src r) as [o|c] eqn:Eg; [|discriminate].
  destruct o; try (intros [= <- <-]; eexists _, _; split; [reflexivity|split; [eassumption|intros r' Hr; discriminate]]).
  apply IH.
Qed.

Lemma chase_has_r src b : forall r path v p',
  chase src b r path = Ok (v, p') -> In r p'.
Proof.
  induction b as [|b IH]; intros r path v p'; cbn [chase];
    destruct (mem r path); try discriminate.
  destruct (sget src r) as [o|c]; [|discriminate].
  destruct o; try (intros [= <- <-]; now left).
  intros H. assert (Hsuf : forall b r path v p', chase src b r path = Ok (v, p') -> forall x, In x path -> In x p').
  { clear. induction b as [|b IH]; intros r path v p'; cbn [chase]; destruct (mem r path); try discriminate.
    destruct (sget src r) as [o|c]; [|discriminate].
    destruct o; try (intros [= <- <-] x Hx; now right).
    intros H x Hx. eapply IH; [eassumption|now right]. }
  eapply Hsuf; [eassumption|now left].
Qed.

Lemma chase_weaken src b : forall r path v p',
  chase src b r path = Ok (v, p') ->
  forall b' path2, (b <= b')%nat -> (forall x, In x path2 -> In x path) ->
  exists p2, chase src b' r path2 = Ok (v, p2) /\ hd_error p2 = hd_error p'.
Proof.
  induction b as [|b IH]; intros r path v p'; cbn [chase];
    destruct (mem r path) eqn:Em; try discriminate.
  intros H b' path2 Hb Hsub.
  destruct b' as [|b']; [lia|]. cbn [chase].
  assert (Em2 : mem r path2 = false).
  { apply mem_false. intros Hin. apply mem_false in Em. apply Em. auto. }
  rewrite Em2.
  destruct (sget src r) as [o|c]; [|discriminate].
  destruct o; try (injection H as <- <-; eexists; split; reflexivity).
  eapply IH; [eassumption|lia|].
  intros x [->|Hx]; [now left|right; auto].
Qed.

Lemma chase_sub src b : forall r path v p',
  (b <= max_depth)%nat ->
  chase src b r path = Ok (v, p') ->
  forall p, In p p' ->
    In p path \/ exists p2, chase src max_depth p [] = Ok (v, p2) /\ hd_error p2 = hd_error p'.
Proof.
  induction b as [|b IH]; intros r path v p' Hb H.
  - cbn [chase] in H. destruct (mem r path); discriminate.
  - pose proof H as H0. cbn [chase] in H. destruct (mem r path) eqn:Em; [discriminate|].
    destruct (sget src r) as [o|c] eqn:Eg; [|discriminate].
    assert (Hr : exists p2, chase src max_depth r [] = Ok (v, p2) /\ hd_error p2 = hd_error p').
    { eapply chase_weaken; [exact H0|lia|intros x []]. }
    destruct o;
      try (injection H as <- <-; intros p [<-|Hin]; [right; exact Hr|left; exact Hin]).
    intros p Hin.
    destruct (IH _ _ _ _ ltac:(lia) H p Hin) as [[<-|Hp]|Hp].
    + right. exact Hr.
    + left. exact Hp.
    + right. exact Hp.
Qed.

Lemma resolve_members src r v e rest :
  resolve_path src r = Ok (v, e :: rest) ->
  forall p, In p (e :: rest) -> key src p = e /\ val src p = v.
Proof.
  unfold resolve_path. intros H p Hin.
  destruct (chase_sub _ _ _ _ _ _ (le_n _) H p Hin) as [[]|[p2 [Hc Hh]]].
  unfold key, val, resolve_path. rewrite Hc.
  destruct p2 as [|e2 p2]; cbn [hd_error] in Hh; [discriminate|].
  injection Hh as ->. split; reflexivity.
Qed.

Lemma resolve_has_r src r v path : resolve_path src r = Ok (v, path) -> In r path.
Proof. apply chase_has_r. Qed.

Lemma resolve_nonempty src r v path :
  resolve_path src r = Ok (v, path) -> exists e rest, path = e :: rest /\ sget src e = Ok v /\ not_ref v.
Proof. apply chase_end. Qed.

Lemma key_idem src r : key src (key src r) = key src r.
Proof.
  unfold key at 2 3. destruct (resolve_path src r) as [[v [|e rest]]|c] eqn:E; try reflexivity.
  - unfold key. now rewrite E.
  - destruct (resolve_members _ _ _ _ _ E e (or_introl eq_refl)) as [Hk _]. exact Hk.
  - unfold key. now rewrite E.
Qed.

Lemma val_key src r : val src (key src r) = val src r.
Proof.
  unfold key. destruct (resolve_path src r) as [[v [|e rest]]|c] eqn:E; try reflexivity.
  destruct (resolve_members _ _ _ _ _ E e (or_introl eq_refl)) as [_ Hv].
  rewrite Hv. unfold val. now rewrite E.
Qed.

Lemma val_not_ref src r : not_ref (val src r).
Proof.
  unfold val. destruct (resolve_path src r) as [[v path]|c] eqn:E; [|intros r' Hr; discriminate].
  destruct (resolve_nonempty _ _ _ _ E) as [e [rest [_ [_ Hn]]]]. exact Hn.
Qed.

(* a reference whose object is neither a reference nor unreadable ends its own chain *)
Lemma key_self_direct src s o : sget src s = Ok o -> not_ref o -> key src s = s.
Proof.
  intros Hg Hn. unfold key, resolve_path. rewrite max_depth_S. cbn [chase mem existsb].
  rewrite Hg. destruct o; try reflexivity. exfalso. eapply Hn. reflexivity.
Qed.

(* ---- tr_le, monotonicity of renamed ------------------------------------ *)

Lemma tr_le_refl tr : tr_le tr tr.
Proof. intros s t H. exact H. Qed.

Lemma tr_le_trans a b c : tr_le a b -> tr_le b c -> tr_le a c.
Proof. intros H1 H2 s t H. auto. Qed.

Lemma renamed_mono_all src tr tr' (Hle : tr_le tr tr') :
  (forall a x, renamed src tr a x -> renamed src tr' a x) /\
  (forall l l', renamed_list src tr l l' -> renamed_list src tr' l l') /\
  (forall d d', renamed_dict src tr d d' -> renamed_dict src tr' d d') /\
  (forall k d acc acc', renamed_key src tr k d acc acc' -> renamed_key src tr' k d acc acc').
Proof.
  apply renamed_mutind; intros; try (econstructor; eauto; fail).
Qed.

Lemma renamed_mono src tr tr' a x : tr_le tr tr' -> renamed src tr a x -> renamed src tr' a x.
Proof. intros Hle. apply (proj1 (renamed_mono_all src tr tr' Hle)). Qed.

(* ---- the state-passing map --------------------------------------------- *)

Section MapMSpec.
  Context {A B S : Type} (f : A -> S -> res (B * S)).
  Variable P : S -> Prop.          (* invariant *)
  Variable le : S -> S -> Prop.    (* extension order *)
  Variable Q : S -> A -> B -> Prop. (* result relation, stable under extension *)
  Hypothesis le_refl : forall s, le s s.
  Hypothesis le_trans : forall a b c, le a b -> le b c -> le a c.
  Hypothesis Q_mono : forall s s' x y, le s s' -> Q s x y -> Q s' x y.

  Lemma mapM_spec : forall l s ys s',
    (forall x, In x l -> forall s y s1, f x s = Ok (y, s1) -> P s -> P s1 /\ le s s1 /\ Q s1 x y) ->
    mapM f l s = Ok (ys, s') -> P s ->
    P s' /\ le s s' /\ Forall2 (Q s') l ys.
  Proof.
    induction l as [|x l IH]; intros s ys s' Hf; cbn [mapM].
    - intros [= <- <-] Hp. split; [assumption|split; [apply le_refl|constructor]].
    - destruct (f x s) as [[y s1]|c] eqn:E1; [|discriminate].
      destruct (mapM f l s1) as [[ys1 s2]|c] eqn:E2; [|discriminate].
      intros [= <- <-] Hp.
      destruct (Hf x (or_introl eq_refl) _ _ _ E1 Hp) as [Hp1 [Hle1 Hq1]].
      destruct (IH _ _ _ (fun x' Hin => Hf x' (or_intror Hin)) E2 Hp1) as [Hp2 [Hle2 Hq2]].
      split; [assumption|split; [eapply le_trans; eassumption|]].
      constructor; [eapply Q_mono; eassumption|assumption].
  Qed.
End MapMSpec.
