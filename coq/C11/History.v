(* C11 - call histories in which a copied VALUE is written later: the caller
   obtains an object with Copier.Copy and hands it to Writer.Put at a time of
   its choosing (or the Writer defers the Put because a stream is open), with
   arbitrary copier activity in between.  Definitions only. *)
From Coq Require Import List NArith ZArith Bool.
From GoPdf.Base Require Import Res.
From GoPdf.C11 Require Import Copier.
Import ListNotations.

Inductive hop :=
| HCall (c : call)   (* a call of the copier; its result is remembered *)
| HPut (i : nat).    (* Writer.Put(Alloc(), result of the i-th operation) *)

Record hstate := mkH { hst : state; hres : list obj; hputs : list (ref * obj) }.

Definition run_hop (src : source) (fuel : nat) (op : hop) (h : hstate) : res hstate :=
  match op with
  | HCall c =>
    match run_call src fuel c (hst h) with
    | Err e => Err e
    | Ok (r, st') => Ok (mkH st' (hres h ++ [r]) (hputs h))
    end
  | HPut i =>
    match nth_error (hres h) i with
    | None => Err Other
    | Some v =>
      if alloc_ok (hst h) then
        let t := next (hst h) in
        if has t (puts (hst h)) || has t (hputs h) then Err Other
        else Ok (mkH (mkState (trans (hst h)) (t + 1)%N (puts (hst h))) (hres h ++ [ORef t]) ((t, v) :: hputs h))
      else Err Panic
    end
  end.

Fixpoint run_hist (src : source) (fuel : nat) (ops : list hop) (h : hstate) : res hstate :=
  match ops with
  | [] => Ok h
  | op :: rest =>
    match run_hop src fuel op h with
    | Err e => Err e
    | Ok h1 => run_hist src fuel rest h1
    end
  end.

Definition hinit (next0 : N) : hstate := mkH (init next0) [] [].

Definition is_copy_op (op : hop) : bool :=
  match op with HCall (CRedirect _ _) => false | _ => true end.

Definition hist_fuel (src : source) (ops : list hop) : nat :=
  fuel_bound src (flat_map (fun op => match op with HCall c => [c] | HPut _ => [] end) ops).
