(* C11 - executable model of /repo/copier.go (Copy, CopyDict, CopyArray, the
   *Stream case of Copy with copyStreamDict/inlineFilterRefs, CopyReference
   with the alias-chain handling, Redirect) over an abstract source file.

   Definitions only; the lemmas are in CopierProofs*.v.

   Source file: finite map reference -> object (association list, first entry
   wins).  A reference that is not in the map is dangling/free: Getter.Get
   returns (nil, nil), i.e. null.  An entry [Broken] is an object the reader
   cannot parse: Getter.Get returns a MalformedFileError.  Read (I/O) errors
   are outside this model (property C19).

   Target: the sequence of Writer.Put calls (reference, object) together with
   the Writer's allocation counter.  What the Writer does with a Put and what
   a Reader makes of it afterwards is property C02's subject. *)
From Coq Require Import List NArith ZArith Bool.
From GoPdf.Base Require Import Res.
From GoPdf.Gen Require Import Gen_C11.
Import ListNotations.

Definition ref := N.
Definition name := list N.

(* [OScalar kind bytes]: Boolean, Integer, Real, Name, String.  The copier
   returns every such value unchanged (the [default] branch of Copy). *)
Inductive obj : Type :=
| ONull
| OScalar (kind : N) (v : list N)
| OArr (l : list obj)
| ODict (d : list (name * obj))
| ORef (r : ref)
| OStream (d : list (name * obj)) (data : N).

Definition dict := list (name * obj).

Inductive sobj := Good (o : obj) | Broken.
Definition source := list (ref * sobj).

Fixpoint lookup {A} (r : N) (l : list (N * A)) : option A :=
  match l with
  | [] => None
  | (k, v) :: t => if N.eqb k r then Some v else lookup r t
  end.

Fixpoint name_eqb (a b : name) : bool :=
  match a, b with
  | [], [] => true
  | x :: a', y :: b' => N.eqb x y && name_eqb a' b'
  | _, _ => false
  end.

Fixpoint dlookup (k : name) (d : dict) : option obj :=
  match d with
  | [] => None
  | (k', v) :: t => if name_eqb k' k then Some v else dlookup k t
  end.

(* res[key] = v on a Go map that already has the key: replace in place *)
Fixpoint dset (k : name) (v : obj) (d : dict) : dict :=
  match d with
  | [] => [(k, v)]
  | (k', v') :: t => if name_eqb k' k then (k', v) :: t else (k', v') :: dset k v t
  end.

(* Getter.Get *)
Definition sget (src : source) (r : ref) : res obj :=
  match lookup r src with
  | Some (Good o) => Ok o
  | Some Broken => Err Malformed
  | None => Ok ONull
  end.

Definition mem (r : ref) (l : list ref) : bool := existsb (N.eqb r) l.

(* resolvePath for a Reference, starting from the empty path.  [path] holds the
   references followed so far, the most recent first; [budget] is the number of
   further references CycleCheck.step admits (ErrDepth when it is used up,
   ErrCycle when the reference is already on the path: both are
   MalformedFileErrors). *)
Fixpoint chase (src : source) (budget : nat) (r : ref) (path : list ref) : res (obj * list ref) :=
  if mem r path then Err Malformed
  else
    match budget with
    | O => Err Malformed
    | S b =>
      match sget src r with
      | Err c => Err c
      | Ok (ORef r') => chase src b r' (r :: path)
      | Ok o => Ok (o, r :: path)
      end
    end.

Definition max_depth : nat := Z.to_nat MaxExtractDepth.

Definition resolve_path (src : source) (r : ref) : res (obj * list ref) :=
  chase src max_depth r [].

(* pdf.Resolve *)
Definition resolve (src : source) (o : obj) : res obj :=
  match o with
  | ORef r => match resolve_path src r with Ok (v, _) => Ok v | Err c => Err c end
  | _ => Ok o
  end.

Section MapR.
  Context {A B : Type} (f : A -> res B).
  Fixpoint mapR (l : list A) : res (list B) :=
    match l with
    | [] => Ok []
    | x :: t =>
      match f x with
      | Err c => Err c
      | Ok y => match mapR t with Err c => Err c | Ok ys => Ok (y :: ys) end
      end
    end.
End MapR.

Definition is_stream (o : obj) : bool := match o with OStream _ _ => true | _ => false end.

(* Resolve followed by the check of inlineFilterRefs: a stream object in
   /Filter or /DecodeParms is a MalformedFileError (fix F26) *)
Definition resolve_ns (src : source) (o : obj) : res obj :=
  match resolve src o with
  | Err c => Err c
  | Ok o' => if is_stream o' then Err Malformed else Ok o'
  end.

(* inlineFilterRefs *)
Definition inline (src : source) (v : obj) : res obj :=
  match resolve_ns src v with
  | Err c => Err c
  | Ok (OArr l) => match mapR (resolve_ns src) l with Err c => Err c | Ok l' => Ok (OArr l') end
  | Ok o => Ok o
  end.

Definition K_Filter : name := [70; 105; 108; 116; 101; 114]%N.
Definition K_DecodeParms : name := [68; 101; 99; 111; 100; 101; 80; 97; 114; 109; 115]%N.

(* Copier.trans, Writer.nextRef, the Put calls made so far (newest first) *)
Record state := mkState { trans : list (ref * ref); next : N; puts : list (ref * obj) }.

(* the loop over the alias chain: every reference of the chain that has no
   translation yet gets t; an existing translation is never overwritten (fix F27) *)
Definition set_all (path : list ref) (t : ref) (tr : list (ref * ref)) : list (ref * ref) :=
  fold_right (fun p acc => match lookup p tr with Some _ => acc | None => (p, t) :: acc end) tr path.

Definition has (t : ref) (l : list (ref * obj)) : bool := existsb (fun e => N.eqb (fst e) t) l.

Section MapM.
  Context {A B S : Type} (f : A -> S -> res (B * S)).
  Fixpoint mapM (l : list A) (s : S) : res (list B * S) :=
    match l with
    | [] => Ok ([], s)
    | x :: t =>
      match f x s with
      | Err c => Err c
      | Ok (y, s1) =>
        match mapM t s1 with
        | Err c => Err c
        | Ok (ys, s2) => Ok (y :: ys, s2)
        end
      end
    end.
End MapM.

Definition on_entry {S} (f : obj -> S -> res (obj * S)) (e : name * obj) (s : S) : res ((name * obj) * S) :=
  match f (snd e) s with
  | Err c => Err c
  | Ok (v, s1) => Ok ((fst e, v), s1)
  end.

(* the loop body of copyStreamDict for one of /Filter, /DecodeParms *)
Definition fix_key (src : source) (cp : obj -> state -> res (obj * state)) (k : name) (d : dict)
           (acc : dict * state) : res (dict * state) :=
  match dlookup k d with
  | None => Ok acc
  | Some v =>
    match inline src v with
    | Err c => Err c
    | Ok i =>
      match cp i (snd acc) with
      | Err c => Err c
      | Ok (i', st') => Ok (dset k i' (fst acc), st')
      end
    end
  end.

(* Writer.Alloc panics at the object-number ceiling *)
Definition alloc_ok (st : state) : bool := (Z.of_N (next st) <? maxXRefSize)%Z.

(* Copier.Copy; the [ORef] case is CopyReference.  Every nested call costs one
   unit of fuel, so fuel bounds the depth of the Go call stack. *)
Fixpoint copy_obj (src : source) (fuel : nat) (o : obj) (st : state) {struct fuel} : res (obj * state) :=
  match fuel with
  | O => Err OutOfFuel
  | S f =>
    match o with
    | ONull => Ok (o, st)
    | OScalar _ _ => Ok (o, st)
    | OArr l =>
      match mapM (copy_obj src f) l st with
      | Err c => Err c
      | Ok (l', st1) => Ok (OArr l', st1)
      end
    | ODict d =>
      match mapM (on_entry (copy_obj src f)) d st with
      | Err c => Err c
      | Ok (d', st1) => Ok (ODict d', st1)
      end
    | ORef r =>
      match lookup r (trans st) with
      | Some t => Ok (ORef t, st)
      | None =>
        (* a reference to a malformed or undefined object, a reference loop
           and an over-deep chain copy as null, and then only the reference
           itself is entered into trans *)
        let '(v, path) := match resolve_path src r with Ok vp => vp | Err _ => (ONull, []) end in
        match (match path with e :: _ => lookup e (trans st) | [] => None end) with
        | Some t => Ok (ORef t, mkState (set_all path t (trans st)) (next st) (puts st))
        | None =>
          if alloc_ok st then
            let t := next st in
            let st1 := mkState (set_all path t ((r, t) :: trans st)) (t + 1)%N (puts st) in
            match copy_obj src f v st1 with
            | Err c => Err c
            | Ok (v', st2) =>
              (* Writer.Put refuses a reference that was written before *)
              if has t (puts st2) then Err Other
              else Ok (ORef t, mkState (trans st2) (next st2) ((t, v') :: puts st2))
            end
          else Err Panic
        end
      end
    | OStream d data =>
      match mapM (on_entry (copy_obj src f)) d st with
      | Err c => Err c
      | Ok (d1, st1) =>
        match fix_key src (copy_obj src f) K_Filter d (d1, st1) with
        | Err c => Err c
        | Ok acc2 =>
          match fix_key src (copy_obj src f) K_DecodeParms d acc2 with
          | Err c => Err c
          | Ok (d3, st3) => Ok (OStream d3 data, st3)
          end
        end
      end
    end
  end.

(* One call of the public interface.  [CRedirect s m]: the caller allocates a
   target object, writes [m] there and redirects [s] to it. *)
Inductive call :=
| CCopyRef (r : ref)
| CCopy (o : obj)
| CRedirect (s : ref) (m : obj).

Definition run_call (src : source) (fuel : nat) (c : call) (st : state) : res (obj * state) :=
  match c with
  | CCopyRef r => copy_obj src fuel (ORef r) st
  | CCopy o => copy_obj src fuel o st
  | CRedirect s m =>
    if alloc_ok st then
      let t := next st in
      if has t (puts st) then Err Other
      else Ok (ORef t, mkState ((s, t) :: trans st) (t + 1)%N ((t, m) :: puts st))
    else Err Panic
  end.

Definition run_calls (src : source) (fuel : nat) (cs : list call) (st : state) : res (list obj * state) :=
  mapM (run_call src fuel) cs st.

Definition init (next0 : N) : state := mkState [] next0 [].

(* ---- sizes, for the fuel bound ---------------------------------------- *)

Section Sizes.
  Fixpoint hgt (o : obj) : nat :=
    match o with
    | OArr l => S (fold_right (fun x acc => Nat.max (hgt x) acc) O l)
    | ODict d => S (fold_right (fun e acc => Nat.max (hgt (snd e)) acc) O d)
    | OStream d _ => S (fold_right (fun e acc => Nat.max (hgt (snd e)) acc) O d)
    | _ => 1
    end.

  Fixpoint refs_of (o : obj) : list ref :=
    match o with
    | OArr l => flat_map refs_of l
    | ODict d => flat_map (fun e => refs_of (snd e)) d
    | OStream d _ => flat_map (fun e => refs_of (snd e)) d
    | ORef r => [r]
    | _ => []
    end.
End Sizes.

Definition sobj_obj (s : sobj) : obj := match s with Good o => o | Broken => ONull end.

Definition call_obj (c : call) : obj :=
  match c with CCopyRef r => ORef r | CCopy o => o | CRedirect s m => ORef s end.

Definition src_objs (src : source) : list obj := map (fun e => sobj_obj (snd e)) src.

(* every reference the copier can meet *)
Definition universe (src : source) (cs : list call) : list ref :=
  map fst src ++ flat_map refs_of (src_objs src) ++ flat_map refs_of (map call_obj cs).

Definition max_hgt (l : list obj) : nat := fold_right (fun x acc => Nat.max (hgt x) acc) O l.

Definition fuel_bound (src : source) (cs : list call) : nat :=
  let H := max_hgt (src_objs src ++ map call_obj cs) in
  (length (universe src cs) + 2) * (2 * H + 2).
