(* C11 - stream data across ciphers: the decisions of container.go
   (filterChainStartsWithCrypt, streamCryptRecipe), copier.go (the *Stream case
   of Copy), writer.go (OpenStream as called by Put) and DecodeStream, over the
   object model of Copier.v.  Definitions only.

   A stream's on-disk bytes are encrypted with the document cipher unless its
   filter chain starts with /Crypt (PDF 7.4.10), which for /Name /Identity (or
   no /Name) means: stored as they are.  The copier must hand the target Writer
   the bytes as they are after decryption and before any other filter. *)
From Coq Require Import List NArith ZArith Bool.
From GoPdf.Base Require Import Res.
From GoPdf.C11 Require Import Copier Checker.
Import ListNotations.

Definition K_Crypt : name := [67; 114; 121; 112; 116]%N.
Definition K_Name : name := [78; 97; 109; 101]%N.
Definition K_Identity : name := [73; 100; 101; 110; 116; 105; 116; 121]%N.

(* a Name object (scalar kind 3) with the given bytes *)
Definition is_name (n : name) (o : obj) : bool :=
  match o with OScalar k v => N.eqb k 3 && name_eqb v n | _ => false end.

Definition is_any_name (o : obj) : bool :=
  match o with OScalar k _ => N.eqb k 3 | _ => false end.

(* filterChainStartsWithCrypt: the cheap probe used by streamCryptRecipe and by
   Writer.OpenStream; the filter object and, for arrays, its first element are
   resolved *)
Definition starts_with_crypt (g : source) (filter : obj) : res bool :=
  match resolve g filter with
  | Err c => Err c
  | Ok (OArr []) => Ok false
  | Ok (OArr (x :: _)) =>
    match resolve g x with Err c => Err c | Ok y => Ok (is_name K_Crypt y) end
  | Ok o => Ok (is_name K_Crypt o)
  end.

(* GetFilters, as far as the head of the chain is concerned: is filters[0] a
   CryptFilter?  (DecodeStream skips the document-level decryption then.) *)
Definition head_is_crypt (g : source) (filter : obj) : res bool :=
  match resolve g filter with
  | Err c => Err c
  | Ok ONull => Ok false
  | Ok (OArr []) => Ok false
  | Ok (OArr (x :: _)) =>
    match resolve g x with
    | Err c => Err c
    | Ok y => if is_any_name y then Ok (is_name K_Crypt y) else Err Malformed
    end
  | Ok o => if is_any_name o then Ok (is_name K_Crypt o) else Err Malformed
  end.

(* the /DecodeParms of the first filter, as GetFilters pairs them *)
Definition first_parms (g : source) (d : dict) : res obj :=
  match resolve g (dget K_Filter d) with
  | Err c => Err c
  | Ok f =>
    match resolve g (dget K_DecodeParms d) with
    | Err c => Err c
    | Ok p =>
      match f, p with
      | OArr _, OArr (p0 :: _) => resolve g p0
      | OArr _, _ => Ok ONull
      | _, _ => Ok p
      end
    end
  end.

Inductive ckind := CkIdentity | CkOther.

(* parseCrypt *)
Definition parse_crypt (pd : dict) : res ckind :=
  match dlookup K_Name pd with
  | None => Ok CkIdentity
  | Some v =>
    if is_name [] v || is_name K_Identity v then Ok CkIdentity
    else if is_any_name v then Ok CkOther else Err Malformed
  end.

(* the kind of the leading Crypt filter as GetFilters determines it *)
Definition crypt_kind (g : source) (d : dict) : res ckind :=
  match first_parms g d with
  | Err c => Err c
  | Ok ONull => Ok CkIdentity
  | Ok (ODict pd) => parse_crypt pd
  | Ok _ => Err Malformed
  end.

(* declaredCryptFilter (Writer.OpenStream, fix F64): the parameters are those of
   /DecodeParms or of its first element; anything but a dictionary counts as none *)
Definition declared_kind (g : source) (d : dict) : res ckind :=
  match resolve g (dget K_DecodeParms d) with
  | Err c => Err c
  | Ok (OArr []) => Ok CkIdentity
  | Ok (OArr (p0 :: _)) =>
    match resolve g p0 with
    | Err c => Err c
    | Ok (ODict pd) => parse_crypt pd
    | Ok _ => Ok CkIdentity
    end
  | Ok (ODict pd) => parse_crypt pd
  | Ok _ => Ok CkIdentity
  end.

(* streamCryptRecipe *)
Inductive recipe := RNone | RDefault | RIdentity | RUnsupported.

Definition stream_recipe (g : source) (encrypted : bool) (d : dict) : res recipe :=
  if encrypted then
    match starts_with_crypt g (dget K_Filter d) with
    | Err c => Err c
    | Ok false => Ok RDefault
    | Ok true =>
      match crypt_kind g d with
      | Err c => Err c
      | Ok CkIdentity => Ok RIdentity
      | Ok CkOther => Ok RUnsupported
      end
    end
  else Ok RNone.

(* Writer.OpenStream, called by Put with the copied dictionary: does it wrap the
   data in the document cipher?  A /Crypt filter declared by the dictionary
   switches the wrap off when it is /Identity and is refused otherwise (also by
   an unencrypted writer).  The target version is not consulted. *)
Definition writer_encrypts (ver : N) (encrypted : bool) (g : source) (d : dict) : res bool :=
  match starts_with_crypt g (dget K_Filter d) with
  | Err c => Err c
  | Ok false => Ok encrypted
  | Ok true =>
    match declared_kind g d with
    | Err c => Err c
    | Ok CkIdentity => Ok false
    | Ok CkOther => Err Other
    end
  end.

(* DecodeStream: is the document-level decryption applied? *)
Definition reader_decrypts (encrypted : bool) (g : source) (d : dict) : res bool :=
  if encrypted then
    match head_is_crypt g (dget K_Filter d) with Err c => Err c | Ok b => Ok (negb b) end
  else Ok false.

(* the copier: does it decrypt the source bytes before handing them on? *)
Definition copier_decrypts (g : source) (encrypted : bool) (d : dict) : res bool :=
  match stream_recipe g encrypted d with
  | Err c => Err c
  | Ok RDefault => Ok true
  | Ok RUnsupported => Err Other
  | Ok _ => Ok false
  end.

Definition is_some {A} (o : option A) : bool := match o with Some _ => true | None => false end.

(* The document cipher applies to stream object r unless the file is
   unencrypted or r itself is exempt by identity: the catalog's metadata stream
   when /EncryptMetadata is false (Reader.unencrypted, Writer.refIsPlaintext).
   The exemption goes by the reference, never by what the dictionary looks like. *)
Definition cipher_active {A} (ek : option A) (plain : list ref) (r : ref) : bool :=
  is_some ek && negb (mem r plain).

Section Bytes.
  Variable key : Type.
  Variables enc dec : key -> ref -> list N -> list N.

  Definition crypt_with (f : key -> ref -> list N -> list N) (k : option key) (r : ref) (on : bool) (x : list N) : list N :=
    match k, on with Some k', true => f k' r x | _, _ => x end.

  (* what a reader of a file with document key [ek] and exempt references
     [plain] sees of stream object r after decryption, before the remaining filters *)
  Definition payload (g : source) (ek : option key) (plain : list ref) (r : ref) (d : dict) (disk : list N) : res (list N) :=
    match reader_decrypts (cipher_active ek plain r) g d with
    | Err c => Err c
    | Ok b => Ok (crypt_with dec ek r b disk)
    end.

  (* Copier.Copy, *Stream case: the data handed to Writer.Put *)
  Definition copy_data (g : source) (ek : option key) (plain : list ref) (r : ref) (d : dict) (disk : list N) : res (list N) :=
    match copier_decrypts g (cipher_active ek plain r) d with
    | Err c => Err c
    | Ok b => Ok (crypt_with dec ek r b disk)
    end.

  (* Writer.Put -> OpenStream: what reaches the target file *)
  Definition write_data (ver : N) (tk : option key) (plain : list ref) (g : source) (t : ref) (d : dict) (data : list N) : res (list N) :=
    match writer_encrypts ver (cipher_active tk plain t) g d with
    | Err c => Err c
    | Ok b => Ok (crypt_with enc tk t b data)
    end.
End Bytes.

(* the tie: for the target object t, is the data in the target file ciphertext?
   0 no, 1 yes, 3 not a stream / unknown *)
Definition predict_cipher (src : source) (tr : tr_map) (src_enc tgt_enc : bool) (splain tplain : list ref) (t : ref) : N :=
  match find (fun e => N.eqb (snd e) t) tr with
  | None => 3%N
  | Some (s, _) =>
    let e := key src s in
    match val src e with
    | OStream d _ =>
      (* the copier must succeed, and the exemption travels with the dictionary *)
      match copier_decrypts src (src_enc && negb (mem e splain)) d, starts_with_crypt src (dget K_Filter d) with
      | Ok _, Ok exempt => if tgt_enc && negb (mem t tplain) && negb exempt then 1%N else 0%N
      | _, _ => 3%N
      end
    | _ => 3%N
    end
  end.
