(* C11 - specification-side functions and the executable isomorphism checker.
   Definitions only.

   [rename src tr o]   the object the copier must produce for the source object
                       [o] when the references are translated by [tr]
                       ([None] when a reference of [o] is not in [tr]).  For a
                       stream, /Filter and /DecodeParms are the inlined values
                       (references resolved at the top level and, for arrays,
                       at the element level), as copyStreamDict writes them.
   [key src r]         the reference at the end of the alias chain of [r]
                       (r itself when the chain is broken, cyclic or too deep)
   [val src r]         the object at the end of the chain (null in those cases)
   [iso_ok]            boolean check that a target graph is the renamed source
                       graph; its soundness theorem is in CheckerProofs.v
   [canon]             canonical first-visit serialisation of the part of a
                       graph reachable from a list of roots, with alias
                       references contracted (observation only) *)
From Coq Require Import List NArith ZArith Bool.
From GoPdf.Base Require Import Res.
From GoPdf.C11 Require Import Copier.
Import ListNotations.

Section MapO.
  Context {A B : Type} (f : A -> option B).
  Fixpoint mapO (l : list A) : option (list B) :=
    match l with
    | [] => Some []
    | x :: t =>
      match f x with
      | None => None
      | Some y => match mapO t with None => None | Some ys => Some (y :: ys) end
      end
    end.
End MapO.

Definition tr_map := list (ref * ref).

(* objects without streams: what /Filter and /DecodeParms may inline to *)
Fixpoint rename0 (tr : tr_map) (o : obj) : option obj :=
  match o with
  | ONull => Some o
  | OScalar _ _ => Some o
  | OArr l => match mapO (rename0 tr) l with Some l' => Some (OArr l') | None => None end
  | ODict d =>
    match mapO (fun e => match e with (k, v) =>
                  match rename0 tr v with Some v' => Some (k, v') | None => None end end) d with
    | Some d' => Some (ODict d')
    | None => None
    end
  | ORef r => match lookup r tr with Some t => Some (ORef t) | None => None end
  | OStream _ _ => None
  end.

Definition spec_fix (src : source) (tr : tr_map) (k : name) (d : dict) (acc : dict) : option dict :=
  match dlookup k d with
  | None => Some acc
  | Some v =>
    match inline src v with
    | Err _ => None
    | Ok i => match rename0 tr i with Some i' => Some (dset k i' acc) | None => None end
    end
  end.

Fixpoint rename (src : source) (tr : tr_map) (o : obj) : option obj :=
  match o with
  | ONull => Some o
  | OScalar _ _ => Some o
  | OArr l => match mapO (rename src tr) l with Some l' => Some (OArr l') | None => None end
  | ODict d =>
    match mapO (fun e => match e with (k, v) =>
                  match rename src tr v with Some v' => Some (k, v') | None => None end end) d with
    | Some d' => Some (ODict d')
    | None => None
    end
  | ORef r => match lookup r tr with Some t => Some (ORef t) | None => None end
  | OStream d data =>
    match mapO (fun e => match e with (k, v) =>
                  match rename src tr v with Some v' => Some (k, v') | None => None end end) d with
    | None => None
    | Some d1 =>
      match spec_fix src tr K_Filter d d1 with
      | None => None
      | Some d2 =>
        match spec_fix src tr K_DecodeParms d d2 with
        | None => None
        | Some d3 => Some (OStream d3 data)
        end
      end
    end
  end.

Definition key (src : source) (r : ref) : ref :=
  match resolve_path src r with Ok (_, e :: _) => e | _ => r end.

Definition val (src : source) (r : ref) : obj :=
  match resolve_path src r with Ok (v, _) => v | Err _ => ONull end.

(* ---- equality up to null dictionary entries --------------------------- *)

Definition is_null (o : obj) : bool := match o with ONull => true | _ => false end.

Definition nonnull_entry (e : name * obj) : bool := negb (is_null (snd e)).

(* a dictionary entry whose value is null is equivalent to an absent entry
   (PDF 7.3.7); the Writer does not write such entries *)
Fixpoint norm (o : obj) : obj :=
  match o with
  | OArr l => OArr (map norm l)
  | ODict d => ODict (filter nonnull_entry (map (fun e => match e with (k, v) => (k, norm v) end) d))
  | OStream d data => OStream (filter nonnull_entry (map (fun e => match e with (k, v) => (k, norm v) end) d)) data
  | _ => o
  end.

Fixpoint obj_eqb (a b : obj) : bool :=
  match a, b with
  | ONull, ONull => true
  | OScalar k v, OScalar k' v' => N.eqb k k' && name_eqb v v'
  | OArr l, OArr l' =>
    (fix go (l l' : list obj) : bool :=
       match l, l' with
       | [], [] => true
       | x :: t, y :: t' => obj_eqb x y && go t t'
       | _, _ => false
       end) l l'
  | ODict d, ODict d' =>
    (fix go (d d' : dict) : bool :=
       match d, d' with
       | [], [] => true
       | (k, x) :: t, (k', y) :: t' => name_eqb k k' && obj_eqb x y && go t t'
       | _, _ => false
       end) d d'
  | ORef r, ORef r' => N.eqb r r'
  | OStream d n, OStream d' n' =>
    N.eqb n n' &&
    (fix go (d d' : dict) : bool :=
       match d, d' with
       | [], [] => true
       | (k, x) :: t, (k', y) :: t' => name_eqb k k' && obj_eqb x y && go t t'
       | _, _ => false
       end) d d'
  | _, _ => false
  end.

(* dictionaries are finite maps: no key twice, at any level *)
Fixpoint nodup_keys (ks : list name) : bool :=
  match ks with
  | [] => true
  | k :: t => negb (existsb (name_eqb k) t) && nodup_keys t
  end.

Fixpoint wf_obj (o : obj) : bool :=
  match o with
  | OArr l => forallb wf_obj l
  | ODict d => nodup_keys (map fst d) && forallb (fun e => wf_obj (snd e)) d
  | OStream d _ => nodup_keys (map fst d) && forallb (fun e => wf_obj (snd e)) d
  | _ => true
  end.

(* ---- the checker ------------------------------------------------------- *)

Definition target := list (ref * obj).

Definition tget (tgt : target) (t : ref) : obj :=
  match lookup t tgt with Some v => v | None => ONull end.

(* the target object [b] is the renamed source object [a], up to null entries *)
Definition match_obj (src : source) (tr : tr_map) (a b : obj) : bool :=
  match rename src tr a with
  | Some x => obj_eqb (norm x) (norm b)
  | None => false
  end.

Definition entry_ok (src : source) (tgt : target) (tr : tr_map) (st : ref * ref) : bool :=
  let e := key src (fst st) in
  match lookup e tr with Some t' => N.eqb t' (snd st) | None => false end
  && match_obj src tr (val src e) (tget tgt (snd st)).

Definition inj_ok (src : source) (tr : tr_map) : bool :=
  let ks := map (fun a => (key src (fst a), snd a)) tr in
  forallb (fun a => forallb (fun b =>
    implb (N.eqb (snd a) (snd b)) (N.eqb (fst a) (fst b))) ks) ks.

Definition iso_ok (src : source) (tgt : target) (tr : tr_map) (roots : list (obj * obj)) : bool :=
  forallb (fun e => wf_obj (sobj_obj (snd e))) src
  && forallb (fun e => wf_obj (snd e)) tgt
  && forallb (fun p => wf_obj (fst p) && wf_obj (snd p)) roots
  && forallb (entry_ok src tgt tr) tr
  && inj_ok src tr
  && forallb (fun p => match_obj src tr (fst p) (snd p)) roots.

(* ---- access paths (what "isomorphic" means, extensionally) ------------- *)

Inductive sel := SIdx (i : nat) | SKey (k : name).

Definition dget (k : name) (d : dict) : obj :=
  match dlookup k d with Some v => v | None => ONull end.

(* the stream dictionary as copyStreamDict sees it *)
Definition inline_key (src : source) (k : name) (d : dict) (acc : dict) : dict :=
  match dlookup k d with
  | None => acc
  | Some v => match inline src v with Ok i => dset k i acc | Err _ => acc end
  end.

Definition inline_dict (src : source) (d : dict) : dict :=
  inline_key src K_DecodeParms d (inline_key src K_Filter d d).

Definition step (d_of_stream : dict -> dict) (o : obj) (s : sel) : obj :=
  match o, s with
  | OArr l, SIdx i => nth i l ONull
  | ODict d, SKey k => dget k d
  | OStream d _, SKey k => dget k (d_of_stream d)
  | _, _ => ONull
  end.

(* follow a reference (an alias chain counts as one reference) *)
Definition deref_src (src : source) (o : obj) : obj :=
  match o with ORef r => val src r | _ => o end.

Definition deref_tgt (tgt : target) (o : obj) : obj :=
  match o with ORef t => tget tgt t | _ => o end.

Fixpoint walk_src (src : source) (o : obj) (p : list sel) : obj :=
  match p with
  | [] => o
  | s :: p' => walk_src src (step (inline_dict src) (deref_src src o) s) p'
  end.

Fixpoint walk_tgt (tgt : target) (o : obj) (p : list sel) : obj :=
  match p with
  | [] => o
  | s :: p' => walk_tgt tgt (step (fun d => d) (deref_tgt tgt o) s) p'
  end.

(* what is visible at a node without following anything: kind, scalar value,
   array length, the keys with a non-null value, stream data *)
Inductive shape :=
| ShNull | ShScalar (kind : N) (v : list N) | ShArr (len : nat) | ShDict (keys : list name)
| ShRef | ShStream (keys : list name) (data : N).

Definition nn_keys (d : dict) : list name := map fst (filter nonnull_entry d).

Definition shape_of (o : obj) : shape :=
  match o with
  | ONull => ShNull
  | OScalar k v => ShScalar k v
  | OArr l => ShArr (length l)
  | ODict d => ShDict (nn_keys d)
  | ORef _ => ShRef
  | OStream d n => ShStream (nn_keys d) n
  end.

Definition shape_src (src : source) (o : obj) : shape :=
  match o with
  | OStream d n => ShStream (nn_keys (inline_dict src d)) n
  | _ => shape_of o
  end.

(* ---- canonical serialisation (observation) ----------------------------- *)

Inductive tok :=
| TNull | TScal (k : N) (v : list N) | TArr (n : nat) | TDict (n : nat) | TKey (k : name)
| TDef (id : nat) | TUse (id : nat) | TStream (data : N) | TFuel.

Definition canon_st := list (ref * nat).

Section Canon.
  Variable g : source.

  Fixpoint canon_list (f : obj -> canon_st -> list tok * canon_st) (l : list obj) (ids : canon_st)
    : list tok * canon_st :=
    match l with
    | [] => ([], ids)
    | x :: t =>
      let '(a, ids1) := f x ids in
      let '(b, ids2) := canon_list f t ids1 in
      (a ++ b, ids2)
    end.

  Fixpoint canon_dict (f : obj -> canon_st -> list tok * canon_st) (d : dict) (ids : canon_st)
    : list tok * canon_st :=
    match d with
    | [] => ([], ids)
    | (k, v) :: t =>
      let '(a, ids1) := f v ids in
      let '(b, ids2) := canon_dict f t ids1 in
      (TKey k :: a ++ b, ids2)
    end.

  Fixpoint canon_obj (fuel : nat) (o : obj) (ids : canon_st) : list tok * canon_st :=
    match fuel with
    | O => ([TFuel], ids)
    | S f =>
      match o with
      | ONull => ([TNull], ids)
      | OScalar k v => ([TScal k v], ids)
      | OArr l =>
        let '(a, ids1) := canon_list (canon_obj f) l ids in (TArr (length l) :: a, ids1)
      | ODict d =>
        let d' := filter nonnull_entry d in
        let '(a, ids1) := canon_dict (canon_obj f) d' ids in (TDict (length d') :: a, ids1)
      | OStream d n =>
        let d' := filter nonnull_entry (inline_dict g d) in
        let '(a, ids1) := canon_dict (canon_obj f) d' ids in (TStream n :: TDict (length d') :: a, ids1)
      | ORef r =>
        match resolve_path g r with
        | Ok (ONull, _) => ([TNull], ids)
        | Ok (v, e :: _) =>
          match lookup e ids with
          | Some id => ([TUse id], ids)
          | None =>
            let id := length ids in
            let '(a, ids1) := canon_obj f v ((e, id) :: ids) in
            (TDef id :: a, ids1)
          end
        | _ => ([TNull], ids)
        end
      end
    end.
End Canon.

Definition canon_fuel (g : source) (roots : list obj) : nat :=
  (length g + 2) * (max_hgt (src_objs g ++ roots) + 3).

Definition canon (g : source) (roots : list obj) : list tok :=
  fst (canon_list (canon_obj g (canon_fuel g roots)) roots []).

Definition target_graph (tgt : target) : source := map (fun e => (fst e, Good (snd e))) tgt.
