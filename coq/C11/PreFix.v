(* C11 - documentation only: the copier as it was BEFORE the fixes F26 and F27
   (inlineFilterRefs did not reject a stream object; the alias-chain loops of
   CopyReference overwrote existing translations), and the two defects this
   verification found in it.  Nothing else depends on this file; every
   definition carries the suffix _pre.  The current model is Copier.v. *)
From Coq Require Import List NArith ZArith Bool Lia.
From GoPdf.Base Require Import Res.
From GoPdf.Gen Require Import Gen_C11.
From GoPdf.C11 Require Import Copier.
Import ListNotations.

(* inlineFilterRefs *)
Definition inline_pre (src : source) (v : obj) : res obj :=
  match resolve src v with
  | Err c => Err c
  | Ok (OArr l) => match mapR (resolve src) l with Err c => Err c | Ok l' => Ok (OArr l') end
  | Ok o => Ok o
  end.

Definition set_all_pre (path : list ref) (t : ref) (tr : list (ref * ref)) : list (ref * ref) :=
  fold_right (fun p acc => (p, t) :: acc) tr path.

(* the loop body of copyStreamDict for one of /Filter, /DecodeParms *)
Definition fix_key_pre (src : source) (cp : obj -> state -> res (obj * state)) (k : name) (d : dict)
           (acc : dict * state) : res (dict * state) :=
  match dlookup k d with
  | None => Ok acc
  | Some v =>
    match inline_pre src v with
    | Err c => Err c
    | Ok i =>
      match cp i (snd acc) with
      | Err c => Err c
      | Ok (i', st') => Ok (dset k i' (fst acc), st')
      end
    end
  end.

(* Copier.Copy; the [ORef] case is CopyReference.  Every nested call costs one
   unit of fuel, so fuel bounds the depth of the Go call stack. *)
Fixpoint copy_obj_pre (src : source) (fuel : nat) (o : obj) (st : state) {struct fuel} : res (obj * state) :=
  match fuel with
  | O => Err OutOfFuel
  | S f =>
    match o with
    | ONull => Ok (o, st)
    | OScalar _ _ => Ok (o, st)
    | OArr l =>
      match mapM (copy_obj_pre src f) l st with
      | Err c => Err c
      | Ok (l', st1) => Ok (OArr l', st1)
      end
    | ODict d =>
      match mapM (on_entry (copy_obj_pre src f)) d st with
      | Err c => Err c
      | Ok (d', st1) => Ok (ODict d', st1)
      end
    | ORef r =>
      match lookup r (trans st) with
      | Some t => Ok (ORef t, st)
      | None =>
        (* a reference to a malformed or undefined object, a reference loop
           and an over-deep chain copy as null, and then only the reference
           itself is entered into trans *)
        let '(v, path) := match resolve_path src r with Ok vp => vp | Err _ => (ONull, []) end in
        match (match path with e :: _ => lookup e (trans st) | [] => None end) with
        | Some t => Ok (ORef t, mkState (set_all_pre path t (trans st)) (next st) (puts st))
        | None =>
          if alloc_ok st then
            let t := next st in
            let st1 := mkState (set_all_pre path t ((r, t) :: trans st)) (t + 1)%N (puts st) in
            match copy_obj_pre src f v st1 with
            | Err c => Err c
            | Ok (v', st2) =>
              (* Writer.Put refuses a reference that was written before *)
              if has t (puts st2) then Err Other
              else Ok (ORef t, mkState (trans st2) (next st2) ((t, v') :: puts st2))
            end
          else Err Panic
        end
      end
    | OStream d data =>
      match mapM (on_entry (copy_obj_pre src f)) d st with
      | Err c => Err c
      | Ok (d1, st1) =>
        match fix_key_pre src (copy_obj_pre src f) K_Filter d (d1, st1) with
        | Err c => Err c
        | Ok acc2 =>
          match fix_key_pre src (copy_obj_pre src f) K_DecodeParms d acc2 with
          | Err c => Err c
          | Ok (d3, st3) => Ok (OStream d3 data, st3)
          end
        end
      end
    end
  end.

Definition run_call_pre (src : source) (fuel : nat) (c : call) (st : state) : res (obj * state) :=
  match c with
  | CCopyRef r => copy_obj_pre src fuel (ORef r) st
  | CCopy o => copy_obj_pre src fuel o st
  | CRedirect s m =>
    if alloc_ok st then
      let t := next st in
      if has t (puts st) then Err Other
      else Ok (ORef t, mkState ((s, t) :: trans st) (t + 1)%N ((t, m) :: puts st))
    else Err Panic
  end.

Definition run_calls_pre (src : source) (fuel : nat) (cs : list call) (st : state) : res (list obj * state) :=
  mapM (run_call_pre src fuel) cs st.


(* ---- F26: a stream whose /Filter is a reference to the stream itself -------- *)

Definition loop_dict : dict := [(K_Filter, ORef 3%N)].
Definition loop_src : source := [(3%N, Good (OStream loop_dict 1%N))].

Lemma lookup_cons_eq' {A} r (v : A) l : lookup r ((r, v) :: l) = Some v.
Proof. cbn [lookup]. now rewrite N.eqb_refl. Qed.

Lemma loop_diverges_pre : forall fuel st t,
  lookup 3%N (trans st) = Some t ->
  copy_obj_pre loop_src fuel (OStream loop_dict 1%N) st = Err OutOfFuel.
Proof.
  induction fuel as [|f IH]; intros st t Hl; [reflexivity|].
  destruct f as [|f']; [reflexivity|].
  assert (E1 : copy_obj_pre loop_src (S f') (ORef 3%N) st = Ok (ORef t, st)) by (cbn [copy_obj_pre]; rewrite Hl; reflexivity).
  pose proof (IH st t Hl) as E2.
  assert (Ei : inline_pre loop_src (ORef 3%N) = Ok (OStream loop_dict 1%N)) by reflexivity.
  assert (Ed : dlookup K_Filter loop_dict = Some (ORef 3%N)) by reflexivity.
  remember (S f') as g eqn:Eg.
  cbn [copy_obj_pre]. unfold loop_dict at 1. cbn [mapM]. unfold on_entry. cbn [snd fst].
  rewrite E1. unfold fix_key_pre at 1. rewrite Ed, Ei. cbn [snd]. rewrite E2. reflexivity.
Qed.

(* before F26: no amount of fuel suffices (the Go process died of a stack overflow) *)
Lemma prefix_filter_loop_never_returns : forall fuel next0,
  (Z.of_N next0 < maxXRefSize)%Z ->
  run_calls_pre loop_src fuel [CCopyRef 3%N] (init next0) = Err OutOfFuel.
Proof.
  intros fuel next0 Hn. unfold run_calls_pre. cbn [mapM run_call_pre].
  destruct fuel as [|f]; [reflexivity|].
  cbn [copy_obj_pre init trans lookup].
  change (resolve_path loop_src 3%N) with (Ok (A := obj * list ref) (OStream loop_dict 1%N, [3%N])).
  cbn [lookup]. unfold alloc_ok. change (next (init next0)) with next0. apply Z.ltb_lt in Hn. rewrite Hn.
  erewrite loop_diverges_pre; [reflexivity|]. cbn [trans set_all_pre fold_right]. apply lookup_cons_eq'.
Qed.

(* now: a MalformedFileError *)
Lemma filter_loop_now : run_calls loop_src (fuel_bound loop_src [CCopyRef 3%N]) [CCopyRef 3%N] (init 5%N) = Err Malformed.
Proof. vm_compute. reflexivity. Qed.

(* ---- F27: Redirect of an alias, then a copy through a longer chain ---------- *)

Definition alias_src : source :=
  [(3%N, Good (ODict [([84%N], OScalar 3%N [83%N])])); (4%N, Good (ORef 3%N)); (5%N, Good (ORef 4%N))].
Definition alias_calls : list call :=
  [CRedirect 4%N (OScalar 1%N [55%N]); CCopyRef 4%N; CCopyRef 5%N; CCopyRef 4%N].

Definition results_of (r : res (list obj * state)) : list obj :=
  match r with Ok (l, _) => l | Err _ => [] end.

(* before F27: the second CopyReference(4) returns a different target *)
Lemma prefix_redirect_overwritten :
  results_of (run_calls_pre alias_src 10 alias_calls (init 2%N)) = [ORef 2%N; ORef 2%N; ORef 3%N; ORef 3%N].
Proof. vm_compute. reflexivity. Qed.

(* now: the same target *)
Lemma redirect_kept_now :
  results_of (run_calls alias_src 10 alias_calls (init 2%N)) = [ORef 2%N; ORef 2%N; ORef 3%N; ORef 2%N].
Proof. vm_compute. reflexivity. Qed.
