(* C11 - the hypothesis of copy_again / copy_once on Redirect cannot be dropped:
   a Redirect for a reference that already has a translation replaces it. *)
From Coq Require Import List NArith ZArith Bool Lia.
From GoPdf.Base Require Import Res.
From GoPdf.C11 Require Import Copier Checker Spec.
Import ListNotations.

Definition late_src : source := [(3%N, Good (OScalar 1%N [49%N]))].
Definition late_calls : list call := [CCopyRef 3%N; CRedirect 3%N (OScalar 1%N [55%N]); CCopyRef 3%N].

Lemma copy_again_refuted : ~ copy_again_unguarded_stmt.
Proof.
  intros Hs.
  assert (E : run_calls late_src 10 late_calls (init 2%N) =
              Ok ([ORef 2%N; ORef 3%N; ORef 3%N],
                  snd (match run_calls late_src 10 late_calls (init 2%N) with Ok p => p | Err _ => ([], init 0%N) end))).
  { vm_compute. reflexivity. }
  pose proof (Hs late_src 10%nat late_calls 2%N _ _ 3%N 0%nat 2%nat 2%N 3%N E eq_refl eq_refl eq_refl eq_refl) as H.
  discriminate.
Qed.
