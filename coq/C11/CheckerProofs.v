(* C11 - soundness of the executable checker iso_ok, and what its verdict
   means: agreement of source and target along every access path. *)
From Coq Require Import List NArith ZArith Bool Lia.
From GoPdf.Base Require Import Res.
From GoPdf.C11 Require Import Copier Checker Spec CopierLemmas.
Import ListNotations.

(* ---- induction on objects (nested through lists) ----------------------- *)

Section ObjInd.
  Variable P : obj -> Prop.
  Hypothesis HNull : P ONull.
  Hypothesis HScalar : forall k v, P (OScalar k v).
  Hypothesis HArr : forall l, Forall P l -> P (OArr l).
  Hypothesis HDict : forall d, Forall (fun e => P (snd e)) d -> P (ODict d).
  Hypothesis HRef : forall r, P (ORef r).
  Hypothesis HStream : forall d n, Forall (fun e => P (snd e)) d -> P (OStream d n).

  Fixpoint obj_ind' (o : obj) : P o :=
    match o with
    | ONull => HNull
    | OScalar k v => HScalar k v
    | OArr l =>
      HArr l ((fix go (l : list obj) : Forall P l :=
                 match l with
                 | [] => Forall_nil _
                 | x :: t => Forall_cons x (obj_ind' x) (go t)
                 end) l)
    | ODict d =>
      HDict d ((fix go (d : dict) : Forall (fun e => P (snd e)) d :=
                  match d with
                  | [] => Forall_nil _
                  | (k, v) :: t => Forall_cons (k, v) (obj_ind' v) (go t)
                  end) d)
    | ORef r => HRef r
    | OStream d n =>
      HStream d n ((fix go (d : dict) : Forall (fun e => P (snd e)) d :=
                      match d with
                      | [] => Forall_nil _
                      | (k, v) :: t => Forall_cons (k, v) (obj_ind' v) (go t)
                      end) d)
    end.
End ObjInd.

(* ---- obj_eqb ------------------------------------------------------------ *)

Definition list_eqb_go :=
  fix go (l l' : list obj) : bool :=
    match l, l' with
    | [], [] => true
    | x :: t, y :: t' => obj_eqb x y && go t t'
    | _, _ => false
    end.

Definition dict_eqb_go :=
  fix go (d d' : dict) : bool :=
    match d, d' with
    | [], [] => true
    | (k, x) :: t, (k', y) :: t' => name_eqb k k' && obj_eqb x y && go t t'
    | _, _ => false
    end.

Lemma list_eqb_sound l : Forall (fun a => forall b, obj_eqb a b = true -> a = b) l ->
  forall l', list_eqb_go l l' = true -> l = l'.
Proof.
  induction 1 as [|x l Hx _ IH]; intros [|y l']; cbn [list_eqb_go]; try discriminate; [reflexivity|].
  rewrite andb_true_iff. intros [H1 H2]. f_equal; [now apply Hx|now apply IH].
Qed.

Lemma dict_eqb_sound d : Forall (fun e => forall b, obj_eqb (snd e) b = true -> snd e = b) d ->
  forall d', dict_eqb_go d d' = true -> d = d'.
Proof.
  induction 1 as [|[k x] d Hx _ IH]; intros [|[k' y] d']; cbn [dict_eqb_go]; try discriminate; [reflexivity|].
  rewrite !andb_true_iff. intros [[H1 H2] H3]. cbn [snd] in Hx.
  apply name_eqb_eq in H1. subst. f_equal; [f_equal; now apply Hx|now apply IH].
Qed.

Lemma obj_eqb_sound a : forall b, obj_eqb a b = true -> a = b.
Proof.
  induction a using obj_ind'; intros b; destruct b; cbn [obj_eqb]; try discriminate; try reflexivity.
  - rewrite andb_true_iff, N.eqb_eq. intros [-> Hv]. apply name_eqb_eq in Hv. now subst.
  - intros Hl. f_equal. eapply list_eqb_sound; eassumption.
  - intros Hd. f_equal. eapply dict_eqb_sound; eassumption.
  - rewrite N.eqb_eq. now intros ->.
  - rewrite andb_true_iff, N.eqb_eq. intros [-> Hd]. f_equal. eapply dict_eqb_sound; eassumption.
Qed.

(* ---- rename is sound for renamed ---------------------------------------- *)

Lemma mapO_list_sound {A B} (f : A -> option B) (R : A -> B -> Prop) l :
  Forall (fun a => forall x, f a = Some x -> R a x) l ->
  forall l', mapO f l = Some l' -> Forall2 R l l'.
Proof.
  induction 1 as [|a l Ha _ IH]; intros l'; cbn [mapO].
  - intros [= <-]. constructor.
  - destruct (f a) as [x|] eqn:E; [|discriminate].
    destruct (mapO f l) as [xs|]; [|discriminate].
    intros [= <-]. constructor; [now apply Ha|now apply IH].
Qed.

Definition entry_fn (g : obj -> option obj) (e : name * obj) : option (name * obj) :=
  match e with (k, v) => match g v with Some v' => Some (k, v') | None => None end end.

Lemma mapO_dict_sound src tr (g : obj -> option obj) d :
  Forall (fun e => forall x, g (snd e) = Some x -> renamed src tr (snd e) x) d ->
  forall d', mapO (entry_fn g) d = Some d' -> renamed_dict src tr d d'.
Proof.
  induction 1 as [|[k a] d Ha _ IH]; intros d'; cbn [mapO].
  - intros [= <-]. constructor.
  - unfold entry_fn at 1. cbn [snd] in Ha. destruct (g a) as [x|] eqn:E; [|discriminate].
    destruct (mapO (entry_fn g) d) as [xs|]; [|discriminate].
    intros [= <-]. constructor; [now apply Ha|now apply IH].
Qed.

Lemma Forall2_renamed_list src tr l l' : Forall2 (renamed src tr) l l' -> renamed_list src tr l l'.
Proof. induction 1; constructor; auto. Qed.

Lemma rename0_sound src tr a : forall x, rename0 tr a = Some x -> renamed src tr a x.
Proof.
  induction a using obj_ind'; intros x; cbn [rename0].
  - intros [= <-]. constructor.
  - intros [= <-]. constructor.
  - destruct (mapO (rename0 tr) l) as [l'|] eqn:E; [|discriminate]. intros [= <-].
    constructor. apply Forall2_renamed_list. eapply mapO_list_sound; eassumption.
  - change (fun e : name * obj => let (k, v) := e in
             match rename0 tr v with Some v' => Some (k, v') | None => None end) with (entry_fn (rename0 tr)).
    destruct (mapO (entry_fn (rename0 tr)) d) as [d'|] eqn:E; [|discriminate]. intros [= <-].
    constructor. eapply mapO_dict_sound; eassumption.
  - destruct (lookup r tr) as [t|] eqn:E; [|discriminate]. intros [= <-]. now constructor.
  - discriminate.
Qed.

Lemma spec_fix_sound src tr k d acc acc' :
  spec_fix src tr k d acc = Some acc' -> renamed_key src tr k d acc acc'.
Proof.
  unfold spec_fix. destruct (dlookup k d) as [v|] eqn:El.
  - destruct (inline src v) as [i|c] eqn:Ei; [|discriminate].
    destruct (rename0 tr i) as [i'|] eqn:Er; [|discriminate].
    intros [= <-]. econstructor; [eassumption|eassumption|]. now apply rename0_sound.
  - intros [= <-]. now constructor.
Qed.

Lemma rename_sound src tr a : forall x, rename src tr a = Some x -> renamed src tr a x.
Proof.
  induction a using obj_ind'; intros x; cbn [rename].
  - intros [= <-]. constructor.
  - intros [= <-]. constructor.
  - destruct (mapO (rename src tr) l) as [l'|] eqn:E; [|discriminate]. intros [= <-].
    constructor. apply Forall2_renamed_list. eapply mapO_list_sound; eassumption.
  - change (fun e : name * obj => let (k, v) := e in
             match rename src tr v with Some v' => Some (k, v') | None => None end) with (entry_fn (rename src tr)).
    destruct (mapO (entry_fn (rename src tr)) d) as [d'|] eqn:E; [|discriminate]. intros [= <-].
    constructor. eapply mapO_dict_sound; eassumption.
  - destruct (lookup r tr) as [t|] eqn:E; [|discriminate]. intros [= <-]. now constructor.
  - change (fun e : name * obj => let (k, v) := e in
             match rename src tr v with Some v' => Some (k, v') | None => None end) with (entry_fn (rename src tr)).
    destruct (mapO (entry_fn (rename src tr)) d) as [d1|] eqn:E1; [|discriminate].
    destruct (spec_fix src tr K_Filter d d1) as [d2|] eqn:E2; [|discriminate].
    destruct (spec_fix src tr K_DecodeParms d d2) as [d3|] eqn:E3; [|discriminate].
    intros [= <-]. econstructor.
    + eapply mapO_dict_sound; eassumption.
    + apply spec_fix_sound. eassumption.
    + apply spec_fix_sound. eassumption.
Qed.

(* ---- dictionaries -------------------------------------------------------- *)

Lemma dlookup_In k d v : dlookup k d = Some v -> In k (map fst d).
Proof.
  induction d as [|[k' x] d IH]; cbn [dlookup map fst]; [discriminate|].
  destruct (name_eqb k' k) eqn:E; [apply name_eqb_eq in E; subst; now left|]. intros H. right. auto.
Qed.

Lemma dlookup_notin k d : ~ In k (map fst d) -> dlookup k d = None.
Proof.
  induction d as [|[k' x] d IH]; cbn [dlookup map fst]; [reflexivity|].
  intros H. rewrite name_eqb_neq; [apply IH; intros Hin; apply H; now right|]. intros ->. apply H. now left.
Qed.

Lemma dget_dset_eq k v d : dget k (dset k v d) = v.
Proof.
  unfold dget. induction d as [|[k' x] d IH]; cbn [dset dlookup].
  - now rewrite name_eqb_refl.
  - destruct (name_eqb k' k) eqn:E; cbn [dlookup]; rewrite E; [reflexivity|exact IH].
Qed.

Lemma dget_dset_neq k k0 v d : k <> k0 -> dget k (dset k0 v d) = dget k d.
Proof.
  intros Hne. unfold dget. induction d as [|[k' x] d IH]; cbn [dset dlookup].
  - rewrite name_eqb_neq by congruence. reflexivity.
  - destruct (name_eqb k' k0) eqn:E; cbn [dlookup].
    + apply name_eqb_eq in E. subst k'. rewrite name_eqb_neq by congruence. reflexivity.
    + destruct (name_eqb k' k); [reflexivity|exact IH].
Qed.

Lemma dset_keys k v d : In k (map fst d) -> map fst (dset k v d) = map fst d.
Proof.
  induction d as [|[k' x] d IH]; cbn [dset map fst]; [intros []|].
  destruct (name_eqb k' k) eqn:E; cbn [map fst]; [reflexivity|].
  intros [->|Hin]; [rewrite name_eqb_refl in E; discriminate|]. f_equal. auto.
Qed.

Lemma existsb_name k l : existsb (name_eqb k) l = true <-> In k l.
Proof.
  rewrite existsb_exists. split.
  - intros [x [Hin E]]. apply name_eqb_eq in E. now subst.
  - intros H. exists k. split; [assumption|apply name_eqb_refl].
Qed.

(* ---- norm ---------------------------------------------------------------- *)

Definition nf (e : name * obj) : name * obj := match e with (k, v) => (k, norm v) end.
Definition nd (d : dict) : dict := filter nonnull_entry (map nf d).

Lemma norm_dict d : norm (ODict d) = ODict (nd d).
Proof. reflexivity. Qed.

Lemma norm_stream d n : norm (OStream d n) = OStream (nd d) n.
Proof. reflexivity. Qed.

Lemma is_null_norm v : is_null (norm v) = is_null v.
Proof. destruct v; reflexivity. Qed.

Lemma nd_keys_sub k d : In k (map fst (nd d)) -> In k (map fst d).
Proof.
  unfold nd. induction d as [|[k' x] d IH]; cbn [map filter nf]; [intros []|].
  destruct (nonnull_entry (k', norm x)); cbn [map fst]; [intros [->|H]; [now left|right; auto]|intros H; right; auto].
Qed.

Lemma dget_nd k d : nodup_keys (map fst d) = true -> dget k (nd d) = norm (dget k d).
Proof.
  unfold dget, nd. induction d as [|[k' x] d IH]; cbn [map filter nf nodup_keys fst dlookup]; [reflexivity|].
  rewrite andb_true_iff, negb_true_iff. intros [Hn Hd].
  destruct (name_eqb k' k) eqn:E.
  - apply name_eqb_eq in E. subst k'.
    unfold nonnull_entry at 1. cbn [snd]. rewrite is_null_norm.
    destruct (is_null x) eqn:Ex; cbn [negb dlookup].
    + destruct x; try discriminate. cbn [norm].
      rewrite dlookup_notin; [reflexivity|].
      intros Hin. apply nd_keys_sub in Hin. apply existsb_name in Hin. congruence.
    + now rewrite name_eqb_refl.
  - destruct (nonnull_entry (k', norm x)); cbn [dlookup]; [rewrite E|]; now apply IH.
Qed.

Lemma norm_inv_null b : norm b = ONull -> b = ONull.
Proof. destruct b; cbn [norm]; congruence. Qed.

Lemma norm_inv_scalar b k v : norm b = OScalar k v -> b = OScalar k v.
Proof. destruct b; cbn [norm]; congruence. Qed.

Lemma norm_inv_ref b t : norm b = ORef t -> b = ORef t.
Proof. destruct b; cbn [norm]; congruence. Qed.

Lemma norm_inv_arr b m : norm b = OArr m -> exists lb, b = OArr lb /\ map norm lb = m.
Proof. destruct b; cbn [norm]; try discriminate. intros [= <-]. eauto. Qed.

Lemma norm_inv_dict b m : norm b = ODict m -> exists db, b = ODict db /\ nd db = m.
Proof. destruct b; try discriminate. rewrite norm_dict. intros [= <-]. eauto. Qed.

Lemma norm_inv_stream b m n : norm b = OStream m n -> exists db, b = OStream db n /\ nd db = m.
Proof. destruct b; try discriminate. rewrite norm_stream. intros [= <- <-]. eauto. Qed.

(* ---- one level of renamed ------------------------------------------------ *)

Lemma renamed_dict_keys src tr d d' : renamed_dict src tr d d' -> map fst d = map fst d'.
Proof. induction 1; cbn [map fst]; congruence. Qed.

Lemma renamed_dict_get src tr d d' k : renamed_dict src tr d d' -> renamed src tr (dget k d) (dget k d').
Proof.
  unfold dget. induction 1 as [|k' a x d d' Hr _ IH]; cbn [dlookup]; [constructor|].
  destruct (name_eqb k' k); [exact Hr|exact IH].
Qed.

Lemma renamed_list_nth src tr l l' i : renamed_list src tr l l' -> renamed src tr (nth i l ONull) (nth i l' ONull).
Proof.
  intros H. revert i. induction H as [|a x l l' Hr _ IH]; intros [|i]; cbn [nth]; try constructor; auto.
Qed.

Lemma renamed_list_length src tr l l' : renamed_list src tr l l' -> length l = length l'.
Proof. induction 1; cbn [length]; congruence. Qed.

Lemma renamed_null src tr a x : renamed src tr a x -> is_null a = is_null x.
Proof. destruct 1; reflexivity. Qed.

Lemma renamed_key_keys src tr k d acc acc' :
  renamed_key src tr k d acc acc' -> map fst acc = map fst d -> map fst acc' = map fst d.
Proof.
  destruct 1 as [| k d acc v i i' Hl Hi Hr]; [auto|].
  intros H. rewrite dset_keys; [exact H|]. rewrite H. eapply dlookup_In; eassumption.
Qed.

Lemma renamed_key_get src tr k0 d acc acc' A :
  renamed_key src tr k0 d acc acc' ->
  (forall k, renamed src tr (dget k A) (dget k acc)) ->
  forall k, renamed src tr (dget k (inline_key src k0 d A)) (dget k acc').
Proof.
  destruct 1 as [k0 d acc Hl | k0 d acc v i i' Hl Hi Hr]; intros HA k; unfold inline_key; rewrite Hl.
  - apply HA.
  - rewrite Hi. destruct (list_eq_dec N.eq_dec k k0) as [->|Hne].
    + now rewrite !dget_dset_eq.
    + rewrite !dget_dset_neq by assumption. apply HA.
Qed.

Lemma renamed_stream_get src tr d d1 d2 d3 k :
  renamed_dict src tr d d1 ->
  renamed_key src tr K_Filter d d1 d2 ->
  renamed_key src tr K_DecodeParms d d2 d3 ->
  renamed src tr (dget k (inline_dict src d)) (dget k d3).
Proof.
  intros H1 H2 H3. unfold inline_dict.
  eapply renamed_key_get; [exact H3|].
  eapply renamed_key_get; [exact H2|].
  intros k'. now apply renamed_dict_get.
Qed.

Lemma renamed_stream_keys src tr d d1 d2 d3 :
  renamed_dict src tr d d1 ->
  renamed_key src tr K_Filter d d1 d2 ->
  renamed_key src tr K_DecodeParms d d2 d3 ->
  map fst d3 = map fst d.
Proof.
  intros H1 H2 H3. eapply renamed_key_keys; [exact H3|]. eapply renamed_key_keys; [exact H2|].
  symmetry. eapply renamed_dict_keys; eassumption.
Qed.

(* ---- well-formedness along a walk ---------------------------------------- *)

Lemma wf_nth l i : forallb wf_obj l = true -> wf_obj (nth i l ONull) = true.
Proof.
  revert i. induction l as [|x l IH]; intros [|i]; cbn [nth forallb]; try reflexivity;
    rewrite andb_true_iff; intros [H1 H2]; auto.
Qed.

Lemma wf_dget k d : forallb (fun e => wf_obj (snd e)) d = true -> wf_obj (dget k d) = true.
Proof.
  unfold dget. induction d as [|[k' x] d IH]; cbn [dlookup forallb snd]; [reflexivity|].
  rewrite andb_true_iff. intros [H1 H2]. destruct (name_eqb k' k); auto.
Qed.

Section WfSrc.
  Variable src : source.
  Hypothesis Hsrc : forall r o, In (r, Good o) src -> wf_obj o = true.

  Lemma sget_wf r o : sget src r = Ok o -> wf_obj o = true.
  Proof.
    unfold sget. destruct (lookup r src) as [[o'|]|] eqn:E; try discriminate.
    - intros [= <-]. apply lookup_In in E. eapply Hsrc; eassumption.
    - intros [= <-]. reflexivity.
  Qed.

  Lemma val_wf r : wf_obj (val src r) = true.
  Proof.
    unfold val. destruct (resolve_path src r) as [[v path]|c] eqn:E; [|reflexivity].
    destruct (resolve_nonempty _ _ _ _ E) as [e [rest [_ [Hg _]]]]. eapply sget_wf; eassumption.
  Qed.

  Lemma resolve_wf o o' : resolve src o = Ok o' -> wf_obj o = true -> wf_obj o' = true.
  Proof.
    unfold resolve. destruct o; try (intros [= <-]; auto; fail).
    destruct (resolve_path src r) as [[v path]|c] eqn:E; [|discriminate].
    intros [= <-] _. pose proof (val_wf r) as H. unfold val in H. now rewrite E in H.
  Qed.

  Lemma resolve_ns_wf o o' : resolve_ns src o = Ok o' -> wf_obj o = true -> wf_obj o' = true.
  Proof.
    unfold resolve_ns. destruct (resolve src o) as [o1|c] eqn:E; [|discriminate].
    destruct (is_stream o1); [discriminate|]. intros [= <-]. now apply (resolve_wf o).
  Qed.

  Lemma mapR_resolve_wf l : forall l', mapR (resolve_ns src) l = Ok l' -> forallb wf_obj l = true -> forallb wf_obj l' = true.
  Proof.
    induction l as [|x l IH]; intros l'; cbn [mapR forallb].
    - intros [= <-]. reflexivity.
    - destruct (resolve_ns src x) as [y|c] eqn:E; [|discriminate].
      destruct (mapR (resolve_ns src) l) as [ys|c]; [|discriminate].
      intros [= <-]. rewrite andb_true_iff. intros [H1 H2]. cbn [forallb].
      rewrite (resolve_ns_wf _ _ E H1). now rewrite (IH _ eq_refl H2).
  Qed.

  Lemma inline_wf v i : inline src v = Ok i -> wf_obj v = true -> wf_obj i = true.
  Proof.
    unfold inline. destruct (resolve_ns src v) as [o|c] eqn:E; [|discriminate].
    intros H Hv. pose proof (resolve_ns_wf _ _ E Hv) as Ho.
    destruct o; try (injection H as <-; exact Ho).
    destruct (mapR (resolve_ns src) l) as [l'|c] eqn:El; [|discriminate].
    injection H as <-. cbn [wf_obj] in *. eapply mapR_resolve_wf; eassumption.
  Qed.

  Lemma inline_key_wf k0 d A :
    forallb (fun e => wf_obj (snd e)) d = true ->
    (forall k, wf_obj (dget k A) = true) ->
    forall k, wf_obj (dget k (inline_key src k0 d A)) = true.
  Proof.
    intros Hd HA k. unfold inline_key. destruct (dlookup k0 d) as [v|] eqn:El; [|apply HA].
    destruct (inline src v) as [i|c] eqn:Ei; [|apply HA].
    destruct (list_eq_dec N.eq_dec k k0) as [->|Hne].
    - rewrite dget_dset_eq. eapply inline_wf; [eassumption|].
      pose proof (wf_dget k0 d Hd) as H. unfold dget in H. now rewrite El in H.
    - rewrite dget_dset_neq by assumption. apply HA.
  Qed.

  Lemma inline_dict_wf d k :
    forallb (fun e => wf_obj (snd e)) d = true -> wf_obj (dget k (inline_dict src d)) = true.
  Proof.
    intros Hd. unfold inline_dict. apply inline_key_wf; [exact Hd|].
    apply inline_key_wf; [exact Hd|]. intros k'. now apply wf_dget.
  Qed.
End WfSrc.

(* ---- the walk ------------------------------------------------------------ *)

Section Walk.
  Variables (src : source) (tgt : target) (tr : tr_map) (R : list ref).
  Hypothesis Hli : local_iso_R R src tgt tr.

  Definition good (a b : obj) : Prop :=
    wf_obj a = true /\ wf_obj b = true /\ related src tr a b.

  Lemma tget_wf t : wf_obj (tget tgt t) = true.
  Proof.
    unfold tget. destruct (lookup t tgt) as [v|] eqn:E; [|reflexivity].
    apply lookup_In in E. eapply (lr_wf_tgt _ _ _ _ Hli); eassumption.
  Qed.

  Lemma related_ref_inv r b : related src tr (ORef r) b -> exists t, b = ORef t /\ lookup r tr = Some t.
  Proof.
    intros [x [Hr Hn]]. inversion Hr; subst. cbn [norm] in Hn. symmetry in Hn.
    apply norm_inv_ref in Hn. eauto.
  Qed.

  Lemma related_not_ref a b : related src tr a b -> not_ref a -> not_ref b.
  Proof.
    intros [x [Hx Hn]] Ha t ->. cbn [norm] in Hn. apply norm_inv_ref in Hn. subst x.
    inversion Hx; subst. eapply Ha. reflexivity.
  Qed.

  Lemma ref_or_not (a : obj) : (exists r, a = ORef r) \/ not_ref a.
  Proof. destruct a; try (right; intros r' Hr'; discriminate). left. eauto. Qed.

  Lemma deref_not_ref_id a : not_ref a -> deref_src src a = a.
  Proof. destruct a; try reflexivity. intros H. exfalso. eapply H. reflexivity. Qed.

  Lemma deref_tgt_not_ref_id b : not_ref b -> deref_tgt tgt b = b.
  Proof. destruct b; try reflexivity. intros H. exfalso. eapply H. reflexivity. Qed.

  Definition clear_ref (a : obj) : Prop := forall r, a = ORef r -> ~ In r R /\ ~ In (key src r) R.

  Lemma deref_good a b :
    good a b -> clear_ref a -> good (deref_src src a) (deref_tgt tgt b) /\ not_ref (deref_src src a).
  Proof.
    intros [Ha [Hb Hr]] Hc. destruct (ref_or_not a) as [[r ->]|Hn].
    - destruct (related_ref_inv _ _ Hr) as [t [-> Hl]]. cbn [deref_src deref_tgt].
      destruct (Hc r eq_refl) as [C1 C2].
      destruct (lr_entry _ _ _ _ Hli r t (lookup_In _ _ _ Hl) C1) as [_ [Hx|Hrel]]; [contradiction|].
      rewrite val_key in Hrel. split; [|apply val_not_ref].
      split; [apply val_wf; apply (lr_wf_src _ _ _ _ Hli)|split; [apply tget_wf|exact Hrel]].
    - rewrite (deref_not_ref_id _ Hn), (deref_tgt_not_ref_id _ (related_not_ref _ _ Hr Hn)).
      split; [split; [assumption|split; assumption]|exact Hn].
  Qed.

  Lemma good_null : good ONull ONull.
  Proof. split; [reflexivity|split; [reflexivity|]]. exists ONull. split; [constructor|reflexivity]. Qed.

  Lemma step_good a b s :
    good a b -> not_ref a ->
    good (step (inline_dict src) a s) (step (fun d => d) b s).
  Proof.
    intros [Ha [Hb [x [Hx Hn]]]] Hnr. inversion Hx; subst.
    - (* null *) symmetry in Hn. apply norm_inv_null in Hn. subst. destruct s; apply good_null.
    - (* scalar *) symmetry in Hn. apply norm_inv_scalar in Hn. subst. destruct s; apply good_null.
    - (* array *)
      cbn [norm] in Hn. symmetry in Hn. apply norm_inv_arr in Hn. destruct Hn as [lb [-> Hm]].
      destruct s as [i|k]; cbn [step]; [|apply good_null].
      cbn [wf_obj] in Ha, Hb. split; [now apply wf_nth|split; [now apply wf_nth|]].
      exists (nth i l' ONull). split; [now apply renamed_list_nth|].
      rewrite <- !(map_nth norm). now rewrite Hm.
    - (* dictionary *)
      rewrite norm_dict in Hn. symmetry in Hn. apply norm_inv_dict in Hn. destruct Hn as [db [-> Hm]].
      destruct s as [i|k]; cbn [step]; [apply good_null|].
      cbn [wf_obj] in Ha, Hb. apply andb_true_iff in Ha, Hb. destruct Ha as [Ha1 Ha2], Hb as [Hb1 Hb2].
      split; [now apply wf_dget|split; [now apply wf_dget|]].
      exists (dget k d'). split; [now apply renamed_dict_get|].
      assert (Hd' : nodup_keys (map fst d') = true) by (rewrite <- (renamed_dict_keys _ _ _ _ H); exact Ha1).
      rewrite <- (dget_nd k d' Hd'), <- (dget_nd k db Hb1). now rewrite Hm.
    - (* reference *) exfalso. eapply Hnr. reflexivity.
    - (* stream *)
      rewrite norm_stream in Hn. symmetry in Hn. apply norm_inv_stream in Hn. destruct Hn as [db [-> Hm]].
      destruct s as [i|k]; cbn [step]; [apply good_null|].
      cbn [wf_obj] in Ha, Hb. apply andb_true_iff in Ha, Hb. destruct Ha as [Ha1 Ha2], Hb as [Hb1 Hb2].
      split; [apply inline_dict_wf; [apply (lr_wf_src _ _ _ _ Hli)|assumption]|split; [now apply wf_dget|]].
      exists (dget k d3). split; [eapply renamed_stream_get; eassumption|].
      assert (Hd3 : nodup_keys (map fst d3) = true) by (rewrite (renamed_stream_keys _ _ _ _ _ _ H H0 H1); exact Ha1).
      rewrite <- (dget_nd k d3 Hd3), <- (dget_nd k db Hb1). now rewrite Hm.
  Qed.

  Lemma walk_good : forall p a b, good a b -> walk_clear R src a p -> good (walk_src src a p) (walk_tgt tgt b p).
  Proof.
    induction p as [|s p IH]; intros a b H Hc; cbn [walk_src walk_tgt]; [exact H|].
    destruct Hc as [Hc1 Hc2]. apply IH; [|exact Hc2].
    destruct (deref_good _ _ H Hc1) as [Hg Hn]. now apply step_good.
  Qed.
End Walk.

Lemma local_iso_to_R src tgt tr : local_iso src tgt tr -> local_iso_R [] src tgt tr.
Proof.
  intros [h1 h2 h3 h4]. constructor; auto.
  - intros s t Hin _. destruct (h1 s t Hin) as [A B]. split; [exact A|now right].
  - intros s1 s2 t H1 H2 _ _. eapply h2; eassumption.
Qed.

Lemma walk_clear_nil src : forall p o, walk_clear [] src o p.
Proof.
  induction p as [|s p IH]; intros o; cbn [walk_clear]; [exact I|].
  split; [intros r _; split; intros []|apply IH].
Qed.

Lemma iso_paths_R : iso_paths_R_stmt.
Proof.
  intros R src tgt tr a b Hli [Ha [Hb Hr]] p Hc. cbn [fst snd] in *.
  apply (walk_good src tgt tr R Hli p a b); [|exact Hc]. split; [assumption|split; assumption].
Qed.

Lemma iso_paths : iso_paths_stmt.
Proof.
  intros src tgt tr a b Hli Hroot p.
  apply (iso_paths_R [] src tgt tr a b (local_iso_to_R _ _ _ Hli) Hroot p). apply walk_clear_nil.
Qed.

(* ---- shapes -------------------------------------------------------------- *)

Definition pw (d1 d2 : dict) : Prop :=
  Forall2 (fun e1 e2 => fst e1 = fst e2 /\ is_null (snd e1) = is_null (snd e2)) d1 d2.

Lemma pw_nn_keys d1 d2 : pw d1 d2 -> nn_keys d1 = nn_keys d2.
Proof.
  unfold nn_keys, nonnull_entry. induction 1 as [|[k1 v1] [k2 v2] d1 d2 [Hk Hn] _ IH]; cbn [filter map]; [reflexivity|].
  cbn [fst snd] in *. subst. rewrite Hn.
  destruct (negb (is_null v2)); cbn [map fst]; congruence.
Qed.

Lemma pw_dset k v w A B : pw A B -> is_null v = is_null w -> pw (dset k v A) (dset k w B).
Proof.
  intros H Hvw. induction H as [|[k1 v1] [k2 v2] d1 d2 [Hk Hn] Ht IH]; cbn [dset].
  - constructor; [split; [reflexivity|exact Hvw]|constructor].
  - cbn [fst snd] in *. subst k2. destruct (name_eqb k1 k).
    + constructor; [split; [reflexivity|exact Hvw]|exact Ht].
    + constructor; [split; [reflexivity|exact Hn]|exact IH].
Qed.

Lemma renamed_dict_pw src tr d d' : renamed_dict src tr d d' -> pw d d'.
Proof.
  induction 1 as [|k a x d d' Hr _ IH]; constructor; [|exact IH].
  split; [reflexivity|]. cbn [snd]. eapply renamed_null; eassumption.
Qed.

Lemma renamed_key_pw src tr k0 d acc acc' A :
  renamed_key src tr k0 d acc acc' -> pw A acc -> pw (inline_key src k0 d A) acc'.
Proof.
  destruct 1 as [k0 d acc Hl | k0 d acc v i i' Hl Hi Hr]; intros HA; unfold inline_key; rewrite Hl.
  - exact HA.
  - rewrite Hi. apply pw_dset; [exact HA|]. eapply renamed_null; eassumption.
Qed.

Lemma nn_keys_nd d : map fst (nd d) = nn_keys d.
Proof.
  unfold nd, nn_keys, nonnull_entry. induction d as [|[k v] d IH]; cbn [map filter nf]; [reflexivity|].
  cbn [snd]. rewrite is_null_norm.
  destruct (negb (is_null v)); cbn [map fst]; congruence.
Qed.

Lemma shape_good src tr a b :
  related src tr a b -> not_ref a -> shape_src src a = shape_of b.
Proof.
  intros [x [Hx Hn]] Hnr. inversion Hx; subst.
  - symmetry in Hn. apply norm_inv_null in Hn. now subst.
  - symmetry in Hn. apply norm_inv_scalar in Hn. now subst.
  - cbn [norm] in Hn. symmetry in Hn. apply norm_inv_arr in Hn. destruct Hn as [lb [-> Hm]].
    cbn [shape_src shape_of]. f_equal.
    rewrite (renamed_list_length _ _ _ _ H). rewrite <- (map_length norm l'), <- Hm. apply map_length.
  - rewrite norm_dict in Hn. symmetry in Hn. apply norm_inv_dict in Hn. destruct Hn as [db [-> Hm]].
    cbn [shape_src shape_of]. f_equal.
    rewrite (pw_nn_keys _ _ (renamed_dict_pw _ _ _ _ H)). now rewrite <- !nn_keys_nd, Hm.
  - exfalso. eapply Hnr. reflexivity.
  - rewrite norm_stream in Hn. symmetry in Hn. apply norm_inv_stream in Hn. destruct Hn as [db [-> Hm]].
    cbn [shape_src shape_of]. f_equal.
    assert (Hp : pw (inline_dict src d) d3).
    { unfold inline_dict. eapply renamed_key_pw; [eassumption|]. eapply renamed_key_pw; [eassumption|].
      eapply renamed_dict_pw; eassumption. }
    rewrite (pw_nn_keys _ _ Hp). now rewrite <- !nn_keys_nd, Hm.
Qed.

Lemma walk_clear_app R src : forall p q o,
  walk_clear R src o (p ++ q) -> walk_clear R src o p /\ walk_clear R src (walk_src src o p) q.
Proof.
  induction p as [|s p IH]; intros q o; cbn [app walk_clear walk_src]; [auto|].
  intros [H1 H2]. destruct (IH _ _ H2) as [A B]. auto.
Qed.

Lemma iso_shape_R : iso_shape_R_stmt.
Proof.
  intros R src tgt tr a b Hli [Ha [Hb Hr]] p Hc. cbn [fst snd] in *.
  destruct (walk_clear_app _ _ _ _ _ Hc) as [Hc1 Hc2]. cbn [walk_clear] in Hc2. destruct Hc2 as [Hc2 _].
  assert (Hg : good src tr (walk_src src a p) (walk_tgt tgt b p)).
  { apply (walk_good src tgt tr R Hli); [|exact Hc1]. split; [assumption|split; assumption]. }
  destruct (deref_good src tgt tr R Hli _ _ Hg Hc2) as [[_ [_ Hrel]] Hn].
  eapply shape_good; eassumption.
Qed.

Lemma iso_shape : iso_shape_stmt.
Proof.
  intros src tgt tr a b Hli Hroot p.
  apply (iso_shape_R [] src tgt tr a b (local_iso_to_R _ _ _ Hli) Hroot p). apply walk_clear_nil.
Qed.

Lemma iso_sharing : iso_sharing_stmt.
Proof.
  intros src tgt tr a b Hli Hroot p q r1 r2 Hp Hq.
  pose proof (iso_paths src tgt tr a b Hli Hroot p) as Hrp.
  pose proof (iso_paths src tgt tr a b Hli Hroot q) as Hrq.
  rewrite Hp in Hrp. rewrite Hq in Hrq.
  destruct (related_ref_inv _ _ _ _ Hrp) as [t1 [E1 L1]].
  destruct (related_ref_inv _ _ _ _ Hrq) as [t2 [E2 L2]].
  exists t1, t2. split; [exact E1|split; [exact E2|]].
  apply lookup_In in L1, L2.
  destruct (li_entry _ _ _ Hli _ _ L1) as [K1 _]. destruct (li_entry _ _ _ Hli _ _ L2) as [K2 _].
  split.
  - intros <-. eapply (li_inj _ _ _ Hli); eassumption.
  - intros E. rewrite E in K1. congruence.
Qed.

(* ---- the checker ---------------------------------------------------------- *)

Lemma match_obj_sound src tr a b : match_obj src tr a b = true -> related src tr a b.
Proof.
  unfold match_obj. destruct (rename src tr a) as [x|] eqn:E; [|discriminate].
  intros H. exists x. split; [now apply rename_sound|now apply obj_eqb_sound].
Qed.

Lemma iso_ok_sound : iso_ok_sound_stmt.
Proof.
  intros src tgt tr roots H. unfold iso_ok in H.
  repeat (apply andb_true_iff in H; destruct H as [H ?]).
  rename H into Hsrc, H0 into Hroots, H1 into Hinj, H2 into Hent, H3 into Hwr, H4 into Htgt.
  rewrite forallb_forall in Hsrc, Htgt, Hwr, Hent, Hroots.
  split.
  - constructor.
    + intros s t Hin. specialize (Hent _ Hin). unfold entry_ok in Hent. cbn [fst snd] in Hent.
      apply andb_true_iff in Hent. destruct Hent as [H1 H2].
      destruct (lookup (key src s) tr) as [t'|] eqn:E; [|discriminate].
      apply N.eqb_eq in H1. subst t'. split; [reflexivity|now apply match_obj_sound].
    + intros s1 s2 t H1 H2. unfold inj_ok in Hinj. rewrite forallb_forall in Hinj.
      pose proof (in_map (fun a => (key src (fst a), snd a)) _ _ H1) as M1.
      pose proof (in_map (fun a => (key src (fst a), snd a)) _ _ H2) as M2.
      cbn [fst snd] in M1, M2. specialize (Hinj _ M1). rewrite forallb_forall in Hinj. specialize (Hinj _ M2).
      cbn [fst snd] in Hinj. rewrite N.eqb_refl in Hinj. cbn [implb] in Hinj. now apply N.eqb_eq.
    + intros r o Hin. specialize (Hsrc _ Hin). exact Hsrc.
    + intros t o Hin. specialize (Htgt _ Hin). exact Htgt.
  - apply Forall_forall. intros [a b] Hin. specialize (Hwr _ Hin). specialize (Hroots _ Hin).
    cbn [fst snd] in *. apply andb_true_iff in Hwr. destruct Hwr as [W1 W2].
    split; [exact W1|split; [exact W2|now apply match_obj_sound]].
Qed.
