Require Extraction.
Require Import ExtrOcamlBasic.
From GoPdf.Base Require Import WireAnchor.
From GoPdf.C11 Require Import Copier Checker StreamCrypt History.
Separate Extraction wire_anchor run_calls init fuel_bound iso_ok canon target_graph puts trans next predict_cipher run_hist hinit hist_fuel hst hres hputs.
