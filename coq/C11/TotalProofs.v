(* C11 - copy_total: with fuel_bound the model copier never runs out of fuel and
   never panics; its only error is the MalformedFileError of an unusable
   /Filter or /DecodeParms (statements in Spec.v). *)
From Coq Require Import List NArith ZArith Bool Lia.
From GoPdf.Base Require Import Res.
From GoPdf.Gen Require Import Gen_C11.
From GoPdf.C11 Require Import Copier Checker Spec CopierLemmas CopierProofs CheckerProofs.
Import ListNotations.

(* ---- sizes ---------------------------------------------------------------- *)

Lemma hgt_pos o : (1 <= hgt o)%nat.
Proof. destruct o; cbn [hgt]; lia. Qed.

Lemma fold_max_ge {A} (f : A -> nat) l x : In x l -> (f x <= fold_right (fun y acc => Nat.max (f y) acc) O l)%nat.
Proof.
  induction l as [|y l IH]; cbn [fold_right]; [intros []|].
  intros [->|H]; [lia|]. specialize (IH H). lia.
Qed.

Lemma hgt_arr l x : In x l -> (S (hgt x) <= hgt (OArr l))%nat.
Proof. intros H. cbn [hgt]. pose proof (fold_max_ge hgt l x H). lia. Qed.

Lemma hgt_dict d e : In e d -> (S (hgt (snd e)) <= hgt (ODict d))%nat.
Proof. intros H. cbn [hgt]. pose proof (fold_max_ge (fun e => hgt (snd e)) d e H). lia. Qed.

Lemma hgt_stream d n e : In e d -> (S (hgt (snd e)) <= hgt (OStream d n))%nat.
Proof. intros H. cbn [hgt]. pose proof (fold_max_ge (fun e => hgt (snd e)) d e H). lia. Qed.

Lemma max_hgt_ge l x : In x l -> (hgt x <= max_hgt l)%nat.
Proof. apply (fold_max_ge hgt). Qed.

Lemma dlookup_In_entry k d v : dlookup k d = Some v -> exists k', In (k', v) d.
Proof.
  induction d as [|[k' x] d IH]; cbn [dlookup]; [discriminate|].
  destruct (name_eqb k' k); [intros [= <-]; exists k'; now left|].
  intros H. destruct (IH H) as [k2 H2]. exists k2. now right.
Qed.

(* ---- the only error of resolution is Malformed ----------------------------- *)

Lemma chase_err src b : forall r path c, chase src b r path = Err c -> c = Malformed.
Proof.
  induction b as [|b IH]; intros r path c; cbn [chase]; destruct (mem r path); try (intros [= <-]; reflexivity).
  unfold sget. destruct (lookup r src) as [[o|]|].
  - destruct o; try discriminate. apply IH.
  - intros [= <-]. reflexivity.
  - discriminate.
Qed.

Lemma resolve_ns_err src o c : resolve_ns src o = Err c -> c = Malformed.
Proof.
  unfold resolve_ns, resolve. destruct o; try (cbn [is_stream]; discriminate).
  - destruct (resolve_path src r) as [[v p]|c'] eqn:E.
    + destruct (is_stream v); [intros [= <-]; reflexivity|discriminate].
    + intros [= <-]. eapply chase_err. exact E.
  - cbn [is_stream]. intros [= <-]. reflexivity.
Qed.

Lemma mapR_err {A B} (f : A -> res B) l c : mapR f l = Err c -> exists x, In x l /\ f x = Err c.
Proof.
  induction l as [|x l IH]; cbn [mapR]; [discriminate|].
  destruct (f x) as [y|c'] eqn:E.
  - destruct (mapR f l) as [ys|c'']; [discriminate|]. intros [= <-].
    destruct (IH eq_refl) as [x' [Hin Hx]]. exists x'. split; [now right|exact Hx].
  - intros [= <-]. exists x. split; [now left|exact E].
Qed.

Lemma inline_err src v c : inline src v = Err c -> c = Malformed.
Proof.
  unfold inline. destruct (resolve_ns src v) as [o|c'] eqn:E.
  - destruct o; try discriminate. destruct (mapR (resolve_ns src) l) as [l'|c''] eqn:El; [discriminate|].
    intros [= <-]. destruct (mapR_err _ _ _ El) as [x [_ Hx]]. eapply resolve_ns_err; eassumption.
  - intros [= <-]. eapply resolve_ns_err; eassumption.
Qed.

(* ---- the setting ----------------------------------------------------------- *)

Section Total.
  Variable src : source.
  Variable cs0 : list call.
  Hypothesis Hshape : file_shaped src cs0 = true.

  Let U := universe src cs0.
  Let H := max_hgt (src_objs src ++ map call_obj cs0).
  Let K := (2 * H + 2)%nat.

  Definition unm (tr : tr_map) (r : ref) : bool :=
    match lookup r tr with None => true | Some _ => false end.

  Definition u (tr : tr_map) : nat := length (filter (unm tr) U).

  Definition dom_le (tr tr' : tr_map) : Prop := forall r, lookup r tr <> None -> lookup r tr' <> None.

  Lemma filter_le {A} (f g : A -> bool) l :
    (forall x, g x = true -> f x = true) -> (length (filter g l) <= length (filter f l))%nat.
  Proof.
    intros Hfg. induction l as [|x l IH]; cbn [filter]; [lia|].
    destruct (g x) eqn:Eg.
    - rewrite (Hfg x Eg). cbn [length]. lia.
    - destruct (f x); cbn [length]; lia.
  Qed.

  Lemma filter_lt {A} (f g : A -> bool) l r :
    (forall x, g x = true -> f x = true) -> In r l -> f r = true -> g r = false ->
    (S (length (filter g l)) <= length (filter f l))%nat.
  Proof.
    intros Hfg. induction l as [|x l IH]; cbn [filter]; [intros []|].
    intros [->|Hin] Hf Hg.
    - rewrite Hf, Hg. cbn [length]. pose proof (filter_le f g l Hfg). lia.
    - specialize (IH Hin Hf Hg). destruct (g x) eqn:Eg.
      + rewrite (Hfg x Eg). cbn [length]. lia.
      + destruct (f x); cbn [length]; lia.
  Qed.

  Lemma unm_mono tr tr' : dom_le tr tr' -> forall x, unm tr' x = true -> unm tr x = true.
  Proof.
    intros Hd x. unfold unm. destruct (lookup x tr) eqn:E; [|reflexivity].
    destruct (lookup x tr') eqn:E'; [discriminate|]. exfalso. apply (Hd x); congruence.
  Qed.

  Lemma u_mono tr tr' : dom_le tr tr' -> (u tr' <= u tr)%nat.
  Proof. intros Hd. apply filter_le. now apply unm_mono. Qed.

  Lemma u_dec tr tr' r : dom_le tr tr' -> In r U -> lookup r tr = None -> lookup r tr' <> None ->
    (S (u tr') <= u tr)%nat.
  Proof.
    intros Hd Hin Hn Hs. apply (filter_lt (unm tr) (unm tr') U r); [now apply unm_mono|exact Hin| |].
    - unfold unm. now rewrite Hn.
    - unfold unm. destruct (lookup r tr'); [reflexivity|contradiction].
  Qed.

  Lemma u_le_U tr : (u tr <= length U)%nat.
  Proof. unfold u. induction U as [|x l IH]; cbn [filter length]; [lia|]. destruct (unm tr x); cbn [length]; lia. Qed.

  Lemma dom_le_refl tr : dom_le tr tr.
  Proof. intros r Hr. exact Hr. Qed.

  Lemma dom_le_trans a b c : dom_le a b -> dom_le b c -> dom_le a c.
  Proof. intros H1 H2 r Hr. auto. Qed.

  Lemma dom_le_cons tr r t : dom_le tr ((r, t) :: tr).
  Proof.
    intros x Hx. cbn [lookup]. destruct (N.eqb r x); [discriminate|exact Hx].
  Qed.

  Lemma dom_le_set_all path t tr : dom_le tr (set_all path t tr).
  Proof.
    intros x Hx. rewrite lookup_set_all. destruct (lookup x tr); [discriminate|contradiction].
  Qed.

  (* ---- what the copier may meet ------------------------------------------ *)

  Definition okobj (o : obj) : Prop :=
    (hgt o <= H + 1)%nat /\ incl (refs_of o) U /\ flat o = true.

  Definition ns_extra (o : obj) : nat := if nostream o then O else (H + 1)%nat.

  Definition need (o : obj) (tr : tr_map) : nat := (hgt o + ns_extra o + u tr * K)%nat.

  Lemma nostream_flat o : nostream o = true -> flat o = true.
  Proof. destruct o; cbn [flat nostream]; auto; discriminate. Qed.

  Lemma flat_not_stream o : flat o = true -> is_stream o = false -> nostream o = true.
  Proof. destruct o; cbn [flat is_stream]; auto; discriminate. Qed.

  Lemma okobj_arr l x : okobj (OArr l) -> In x l -> okobj x.
  Proof.
    intros [Hh [Hr Hs]] Hin. split; [pose proof (hgt_arr l x Hin); lia|split].
    - intros r Hrr. apply Hr. cbn [refs_of]. apply in_flat_map. eauto.
    - cbn [flat nostream] in Hs. rewrite forallb_forall in Hs. apply nostream_flat. auto.
  Qed.

  Lemma okobj_entry d e : (hgt (ODict d) <= H + 1)%nat -> incl (refs_of (ODict d)) U ->
    forallb (fun e => nostream (snd e)) d = true -> In e d -> okobj (snd e).
  Proof.
    intros Hh Hr Hs Hin. split; [pose proof (hgt_dict d e Hin); lia|split].
    - intros r Hrr. apply Hr. cbn [refs_of]. apply in_flat_map. eauto.
    - rewrite forallb_forall in Hs. apply nostream_flat. auto.
  Qed.

  Lemma ns_extra_arr l x : In x l -> (ns_extra x <= ns_extra (OArr l))%nat.
  Proof.
    intros Hin. unfold ns_extra. cbn [nostream]. destruct (forallb nostream l) eqn:E.
    - rewrite forallb_forall in E. now rewrite (E x Hin).
    - destruct (nostream x); lia.
  Qed.

  Lemma ns_extra_dict d e : In e d -> (ns_extra (snd e) <= ns_extra (ODict d))%nat.
  Proof.
    intros Hin. unfold ns_extra. cbn [nostream]. destruct (forallb (fun e => nostream (snd e)) d) eqn:E.
    - rewrite forallb_forall in E. now rewrite (E e Hin).
    - destruct (nostream (snd e)); lia.
  Qed.

  Lemma src_obj_ok e v : sget src e = Ok v -> v = ONull \/ ((hgt v <= H)%nat /\ incl (refs_of v) U /\ flat v = true).
  Proof.
    unfold sget. destruct (lookup e src) as [[o|]|] eqn:E; try discriminate.
    - intros [= <-]. right. apply lookup_In in E.
      assert (Hin : In o (src_objs src)).
      { unfold src_objs. apply in_map_iff. exists (e, Good o). split; [reflexivity|exact E]. }
      split; [|split].
      + subst H. apply max_hgt_ge. apply in_or_app. now left.
      + intros r Hr. subst U. unfold universe. apply in_or_app. right. apply in_or_app. left.
        apply in_flat_map. eauto.
      + unfold file_shaped in Hshape. rewrite forallb_forall in Hshape.
        apply Hshape. apply in_or_app. now left.
    - intros [= <-]. now left.
  Qed.

  Lemma okobj_null : okobj ONull.
  Proof. split; [cbn [hgt]; lia|split; [intros r []|reflexivity]]. Qed.

  Lemma val_ok r v path : resolve_path src r = Ok (v, path) ->
    v = ONull \/ ((hgt v <= H)%nat /\ incl (refs_of v) U /\ flat v = true).
  Proof.
    intros E. destruct (resolve_nonempty _ _ _ _ E) as [e [rest [_ [Hg _]]]]. eapply src_obj_ok; eassumption.
  Qed.

  (* what resolve_ns returns for a stream-free value: stream-free again, not higher than H, references known *)
  Lemma resolve_ns_ok o o' : resolve_ns src o = Ok o' -> (hgt o <= H)%nat -> incl (refs_of o) U -> nostream o = true ->
    (hgt o' <= Nat.max H 1)%nat /\ incl (refs_of o') U /\ nostream o' = true.
  Proof.
    unfold resolve_ns, resolve. destruct o; try (cbn [is_stream]; intros [= <-] Hh Hr Hn; split; [lia|split; assumption]).
    - destruct (resolve_path src r) as [[v path]|c] eqn:E; [|discriminate].
      destruct (is_stream v) eqn:Es; [discriminate|]. intros [= <-] _ _ _.
      destruct (val_ok _ _ _ E) as [->|[Hh [Hr Hf]]].
      + split; [cbn [hgt]; lia|split; [intros x []|reflexivity]].
      + split; [lia|split; [exact Hr|now apply flat_not_stream]].
    - cbn [nostream]. intros _ _ _. discriminate.
  Qed.

  Lemma mapR_resolve_ok l : forall l', mapR (resolve_ns src) l = Ok l' ->
    (forall x, In x l -> (hgt x <= H)%nat /\ incl (refs_of x) U /\ nostream x = true) ->
    forall y, In y l' -> (hgt y <= Nat.max H 1)%nat /\ incl (refs_of y) U /\ nostream y = true.
  Proof.
    induction l as [|x l IH]; intros l'; cbn [mapR].
    - intros [= <-] _ y [].
    - destruct (resolve_ns src x) as [x'|c] eqn:E; [|discriminate].
      destruct (mapR (resolve_ns src) l) as [ys|c] eqn:E2; [|discriminate].
      intros [= <-] Hall y [<-|Hy].
      + destruct (Hall x (or_introl eq_refl)) as [Hh [Hr Hn]]. eapply resolve_ns_ok; eassumption.
      + eapply IH; [reflexivity| |exact Hy]. intros z Hz. apply Hall. now right.
  Qed.

  Lemma fold_max_le {A} (f : A -> nat) l b : (forall x, In x l -> (f x <= b)%nat) ->
    (fold_right (fun y acc => Nat.max (f y) acc) O l <= b)%nat.
  Proof.
    induction l as [|y l IH]; cbn [fold_right]; intros Hb; [lia|].
    pose proof (Hb y (or_introl eq_refl)). specialize (IH (fun x Hx => Hb x (or_intror Hx))). lia.
  Qed.

  Lemma inline_ok v i : inline src v = Ok i -> (hgt v <= H)%nat -> incl (refs_of v) U -> nostream v = true -> (1 <= H)%nat ->
    (hgt i <= H + 1)%nat /\ incl (refs_of i) U /\ nostream i = true.
  Proof.
    unfold inline. destruct (resolve_ns src v) as [o|c] eqn:E; [|discriminate].
    intros Hi Hh Hr Hn H1. destruct (resolve_ns_ok _ _ E Hh Hr Hn) as [Ho [Hro Hno]].
    destruct o; try (injection Hi as <-; split; [lia|split; assumption]).
    destruct (mapR (resolve_ns src) l) as [l'|c] eqn:El; [|discriminate].
    injection Hi as <-.
    assert (Hall : forall x, In x l -> (hgt x <= H)%nat /\ incl (refs_of x) U /\ nostream x = true).
    { intros x Hx. split; [|split].
      - pose proof (hgt_arr l x Hx). lia.
      - intros r Hrr. apply Hro. cbn [refs_of]. apply in_flat_map. eauto.
      - cbn [nostream] in Hno. rewrite forallb_forall in Hno. auto. }
    pose proof (mapR_resolve_ok _ _ El Hall) as Hl'.
    split; [|split].
    - cbn [hgt]. assert (fold_right (fun y acc => Nat.max (hgt y) acc) O l' <= H)%nat; [|lia].
      apply fold_max_le. intros y Hy. destruct (Hl' y Hy). lia.
    - intros r Hrr. cbn [refs_of] in Hrr. apply in_flat_map in Hrr. destruct Hrr as [y [Hy Hry]].
      destruct (Hl' y Hy) as [_ [Hinc _]]. now apply Hinc.
    - cbn [nostream]. apply forallb_forall. intros y Hy. now destruct (Hl' y Hy) as [_ [_ Hny]].
  Qed.

  (* ---- invariant and progress ---------------------------------------------- *)

  Definition pinv (b : Z) (st : state) : Prop :=
    (forall t v, In (t, v) (puts st) -> (t < next st)%N) /\
    (Z.of_N (next st) + Z.of_nat (u (trans st)) <= b)%Z.

  Definition ext (st st' : state) : Prop :=
    dom_le (trans st) (trans st') /\ (next st <= next st')%N /\
    (Z.of_N (next st') + Z.of_nat (u (trans st')) <= Z.of_N (next st) + Z.of_nat (u (trans st)))%Z /\
    exists new, puts st' = new ++ puts st /\ forall t v, In (t, v) new -> (next st <= t < next st')%N.

  Lemma ext_refl st : ext st st.
  Proof.
    split; [apply dom_le_refl|split; [lia|split; [lia|]]]. exists []. split; [reflexivity|intros t v []].
  Qed.

  Lemma ext_trans a b c : ext a b -> ext b c -> ext a c.
  Proof.
    intros [A1 [A2 [A3 [n1 [A4 A5]]]]] [B1 [B2 [B3 [n2 [B4 B5]]]]].
    split; [eapply dom_le_trans; eassumption|split; [lia|split; [lia|]]].
    exists (n2 ++ n1). split; [rewrite B4, A4; now rewrite app_assoc|].
    intros t v Hin. apply in_app_or in Hin. destruct Hin as [Hin|Hin].
    - specialize (B5 t v Hin). lia.
    - specialize (A5 t v Hin). lia.
  Qed.

  Lemma pinv_ext b st st' : pinv b st -> ext st st' -> pinv b st'.
  Proof.
    intros [P1 P2] [E1 [E2 [E3 [new [E4 E5]]]]]. split; [|lia].
    intros t v Hin. rewrite E4 in Hin. apply in_app_or in Hin. destruct Hin as [Hin|Hin].
    - specialize (E5 t v Hin). lia.
    - specialize (P1 t v Hin). lia.
  Qed.

  Lemma need_ext o st st' : ext st st' -> (need o (trans st') <= need o (trans st))%nat.
  Proof.
    intros [E1 _]. unfold need. pose proof (u_mono _ _ E1). nia.
  Qed.

  (* the outcome of a step: an extension of the state, or the one permitted error *)
  Definition outcome {A} (st : state) (r : res (A * state)) : Prop :=
    match r with Ok (_, st') => ext st st' | Err c => c = Malformed end.

  (* the generic progress lemma for the state-passing map *)
  Lemma mapM_total {A B} (f : A -> state -> res (B * state)) (pre : A -> state -> Prop) b :
    (forall x st st', pre x st -> ext st st' -> pre x st') ->
    forall l,
    (forall x, In x l -> forall st, pinv b st -> pre x st -> outcome st (f x st)) ->
    forall st, pinv b st -> (forall x, In x l -> pre x st) ->
    outcome st (mapM f l st).
  Proof.
    intros Hstable. induction l as [|x l IH]; intros Hf st Hp Hpre; cbn [mapM].
    - apply ext_refl.
    - pose proof (Hf x (or_introl eq_refl) st Hp (Hpre x (or_introl eq_refl))) as H1.
      destruct (f x st) as [[y st1]|c]; [|exact H1]. cbn [outcome] in H1.
      pose proof (IH (fun x' Hin => Hf x' (or_intror Hin)) st1 (pinv_ext _ _ _ Hp H1)) as H2.
      specialize (H2 (fun x' Hin => Hstable _ _ _ (Hpre x' (or_intror Hin)) H1)).
      destruct (mapM f l st1) as [[ys st2]|c]; [|exact H2]. cbn [outcome] in *.
      eapply ext_trans; eassumption.
  Qed.

  Hypothesis H_pos : (1 <= H)%nat.

  Definition cpre (fuel : nat) (o : obj) (st : state) : Prop := (need o (trans st) <= fuel)%nat.

  Lemma cpre_stable fuel o st st' : cpre fuel o st -> ext st st' -> cpre fuel o st'.
  Proof. unfold cpre. intros Hc He. pose proof (need_ext o _ _ He). lia. Qed.

  Definition total_at (fuel : nat) : Prop :=
    forall o st b, okobj o -> pinv b st -> (b <= maxXRefSize)%Z -> cpre fuel o st ->
      outcome st (copy_obj src fuel o st).

  Lemma entries_total f b d st :
    total_at f -> (b <= maxXRefSize)%Z -> pinv b st ->
    (forall e, In e d -> okobj (snd e) /\ cpre f (snd e) st) ->
    outcome st (mapM (on_entry (copy_obj src f)) d st).
  Proof.
    intros IH Hb Hp Hall.
    apply (mapM_total (on_entry (copy_obj src f)) (fun e st => okobj (snd e) /\ cpre f (snd e) st) b).
    - intros e s s' [Ho Hc] He. split; [exact Ho|eapply cpre_stable; eassumption].
    - intros e Hin s Hps [Ho Hc]. unfold on_entry.
      pose proof (IH (snd e) s b Ho Hps Hb Hc) as H1.
      destruct (copy_obj src f (snd e) s) as [[v s1]|c]; exact H1.
    - exact Hp.
    - exact Hall.
  Qed.

  Lemma fix_key_total f b k d acc st :
    total_at f -> (b <= maxXRefSize)%Z -> pinv b st ->
    (hgt (OStream d 0) <= H + 1)%nat -> incl (refs_of (OStream d 0)) U ->
    forallb (fun e => nostream (snd e)) d = true ->
    (H + 1 + u (trans st) * K <= f)%nat ->
    outcome st (fix_key src (copy_obj src f) k d (acc, st)).
  Proof.
    intros IH Hb Hp Hh Hr Hns Hf. unfold fix_key. cbn [fst snd].
    destruct (dlookup k d) as [v|] eqn:El; [|apply ext_refl].
    destruct (inline src v) as [i|c] eqn:Ei; [|eapply inline_err; eassumption].
    destruct (dlookup_In_entry _ _ _ El) as [k' Hin].
    assert (Hv : (hgt v <= H)%nat /\ incl (refs_of v) U /\ nostream v = true).
    { split; [|split].
      - pose proof (hgt_stream d 0%N (k', v) Hin). cbn [snd] in *. lia.
      - intros r Hrr. apply Hr. cbn [refs_of]. apply in_flat_map. exists (k', v). split; [exact Hin|exact Hrr].
      - rewrite forallb_forall in Hns. apply (Hns (k', v) Hin). }
    destruct Hv as [Hv1 [Hv2 Hv3]].
    destruct (inline_ok _ _ Ei Hv1 Hv2 Hv3 H_pos) as [Hi1 [Hi2 Hi3]].
    assert (Hoi : okobj i) by (split; [exact Hi1|split; [exact Hi2|now apply nostream_flat]]).
    assert (Hci : cpre f i st).
    { unfold cpre, need, ns_extra. rewrite Hi3. lia. }
    pose proof (IH i st b Hoi Hp Hb Hci) as H1.
    destruct (copy_obj src f i st) as [[i' st1]|c]; exact H1.
  Qed.

  Lemma copy_total_fuel : forall fuel, total_at fuel.
  Proof.
    induction fuel as [|f IH]; intros o st b Hok Hp Hb Hc.
    { unfold cpre, need in Hc. pose proof (hgt_pos o). lia. }
    destruct Hok as [Hh [Hr Hs]]. unfold cpre, need in Hc. cbn [copy_obj].
    destruct o as [| kd vv | l | d | r | d data].
    - apply ext_refl.
    - apply ext_refl.
    - (* array *)
      pose proof (mapM_total (copy_obj src f) (fun x st => okobj x /\ cpre f x st) b) as HM.
      specialize (HM (fun x s s' '(conj Ho Hcx) He => conj Ho (cpre_stable _ _ _ _ Hcx He)) l).
      specialize (HM (fun x Hin s Hps '(conj Ho Hcx) => IH x s b Ho Hps Hb Hcx) st Hp).
      assert (Hall : forall x, In x l -> okobj x /\ cpre f x st).
      { intros x Hin. split; [apply (okobj_arr l x); [split; [exact Hh|split; assumption]|exact Hin]|].
        unfold cpre, need. pose proof (hgt_arr l x Hin). pose proof (ns_extra_arr l x Hin). lia. }
      specialize (HM Hall).
      destruct (mapM (copy_obj src f) l st) as [[l' st1]|c]; exact HM.
    - (* dictionary *)
      pose proof (entries_total f b d st IH Hb Hp) as HM.
      assert (Hall : forall e, In e d -> okobj (snd e) /\ cpre f (snd e) st).
      { intros e Hin. cbn [flat nostream] in Hs. split; [eapply okobj_entry; eassumption|].
        unfold cpre, need. pose proof (hgt_dict d e Hin). pose proof (ns_extra_dict d e Hin). lia. }
      specialize (HM Hall).
      destruct (mapM (on_entry (copy_obj src f)) d st) as [[d' st1]|c]; exact HM.
    - (* reference *)
      destruct (lookup r (trans st)) as [t|] eqn:Er; [apply ext_refl|].
      assert (HrU : In r U) by (apply Hr; cbn [refs_of]; now left).
      assert (Hu1 : (1 <= u (trans st))%nat).
      { pose proof (u_dec (trans st) ((r, 0%N) :: trans st) r (dom_le_cons _ _ _) HrU Er) as Hd.
        rewrite lookup_cons_eq in Hd. specialize (Hd ltac:(discriminate)). lia. }
      set (vp := match resolve_path src r with Ok vp => vp | Err _ => (ONull, []) end).
      assert (Hvp : (fst vp = ONull \/ ((hgt (fst vp) <= H)%nat /\ incl (refs_of (fst vp)) U /\ flat (fst vp) = true))).
      { subst vp. destruct (resolve_path src r) as [[v path]|c] eqn:E; cbn [fst]; [|now left]. eapply val_ok; eassumption. }
      destruct vp as [v path]. cbn [fst] in Hvp.
      destruct (match path with e :: _ => lookup e (trans st) | [] => None end) as [t|] eqn:Ee.
      { cbn [outcome].
        split; [cbn [trans]; apply dom_le_set_all|]. cbn [trans next puts].
        pose proof (u_mono _ _ (dom_le_set_all path t (trans st))).
        split; [lia|split; [lia|]]. exists []. split; [reflexivity|intros t0 v0 []]. }
      destruct Hp as [P1 P2].
      assert (Ha : alloc_ok st = true).
      { unfold alloc_ok. apply Z.ltb_lt. lia. }
      rewrite Ha.
      set (t := next st).
      set (st1 := mkState (set_all path t ((r, t) :: trans st)) (t + 1)%N (puts st)).
      assert (Hd1 : dom_le (trans st) (trans st1)).
      { cbn [trans st1]. eapply dom_le_trans; [apply dom_le_cons|apply dom_le_set_all]. }
      assert (Hu2 : (S (u (trans st1)) <= u (trans st))%nat).
      { apply (u_dec _ _ r Hd1 HrU Er). cbn [trans st1]. rewrite lookup_set_all, lookup_cons_eq. discriminate. }
      assert (Hp1 : pinv b st1).
      { split; cbn [puts next st1].
        - intros t0 v0 Hin. specialize (P1 t0 v0 Hin). subst t. lia.
        - subst t. lia. }
      assert (Hov : okobj v).
      { destruct Hvp as [->|[A1 [A2 A3]]]; [apply okobj_null|]. split; [lia|split; assumption]. }
      assert (Hcv : cpre f v st1).
      { unfold cpre, need. cbn [hgt ns_extra nostream] in Hc.
        destruct Hvp as [->|[A1 _]].
        - cbn [hgt]. unfold ns_extra. cbn [nostream]. pose proof (eq_refl : K = (2 * H + 2)%nat). nia.
        - pose proof (eq_refl : K = (2 * H + 2)%nat). unfold ns_extra. destruct (nostream v); nia. }
      pose proof (IH v st1 b Hov Hp1 Hb Hcv) as HX.
      destruct (copy_obj src f v st1) as [[v' st2]|c]; [|exact HX]. cbn [outcome] in HX.
      destruct HX as [X1 [X2 [X3 [new [X4 X5]]]]].
      assert (Hh2 : has t (puts st2) = false).
      { apply has_false_iff. rewrite X4. rewrite map_app. intros Hin. apply in_app_or in Hin.
        destruct Hin as [Hin|Hin]; apply in_map_iff in Hin; destruct Hin as [[t0 v0] [Ht0 Hin0]]; cbn [fst] in Ht0; subst t0.
        - specialize (X5 _ _ Hin0). cbn [next st1] in X5. lia.
        - cbn [puts st1] in Hin0. specialize (P1 _ _ Hin0). subst t. lia. }
      rewrite Hh2. cbn [outcome].
      cbn [next st1] in X2, X3, X5.
      split; [cbn [trans]; eapply dom_le_trans; eassumption|]. cbn [trans next puts].
      split; [subst t; lia|split; [subst t; lia|]].
      exists ((t, v') :: new). split; [rewrite X4; reflexivity|].
      intros t0 v0 [[= <- <-]|Hin]; [subst t; lia|]. specialize (X5 _ _ Hin). subst t. lia.
    - (* stream *)
      cbn [flat] in Hs.
      assert (Hns : ns_extra (OStream d data) = (H + 1)%nat) by reflexivity.
      rewrite Hns in Hc.
      pose proof (entries_total f b d st IH Hb Hp) as HM.
      assert (Hall : forall e, In e d -> okobj (snd e) /\ cpre f (snd e) st).
      { intros e Hin. split.
        - split; [pose proof (hgt_stream d data e Hin); lia|split].
          + intros r Hrr. apply Hr. cbn [refs_of]. apply in_flat_map. eauto.
          + rewrite forallb_forall in Hs. apply nostream_flat. auto.
        - unfold cpre, need. pose proof (hgt_stream d data e Hin).
          assert (ns_extra (snd e) <= H + 1)%nat by (unfold ns_extra; destruct (nostream (snd e)); lia). lia. }
      specialize (HM Hall).
      destruct (mapM (on_entry (copy_obj src f)) d st) as [[d1 st1]|c]; [|exact HM]. cbn [outcome] in HM.
      pose proof (hgt_pos (OStream d data)) as Hpos.
      assert (Hh0 : (hgt (OStream d 0) <= H + 1)%nat) by exact Hh.
      assert (Hr0 : incl (refs_of (OStream d 0)) U) by exact Hr.
      pose proof (pinv_ext _ _ _ Hp HM) as Hp1.
      pose proof (fix_key_total f b K_Filter d d1 st1 IH Hb Hp1 Hh0 Hr0 Hs) as H2.
      assert (Hf1 : (H + 1 + u (trans st1) * K <= f)%nat).
      { destruct HM as [D1 _]. pose proof (u_mono _ _ D1). nia. }
      specialize (H2 Hf1).
      match goal with |- outcome _ (match ?X with Ok _ => _ | Err _ => _ end) =>
        change (outcome st1 X) in H2; destruct X as [[d2 st2]|c]; [|exact H2] end.
      cbn [outcome] in H2.
      pose proof (pinv_ext _ _ _ Hp1 H2) as Hp2.
      pose proof (fix_key_total f b K_DecodeParms d d2 st2 IH Hb Hp2 Hh0 Hr0 Hs) as H3.
      assert (Hf2 : (H + 1 + u (trans st2) * K <= f)%nat).
      { destruct HM as [D1 _]. destruct H2 as [D2 _]. pose proof (u_mono _ _ D1). pose proof (u_mono _ _ D2). nia. }
      specialize (H3 Hf2).
      match goal with |- outcome _ (match ?X with Ok _ => _ | Err _ => _ end) =>
        change (outcome st2 X) in H3; destruct X as [[d3 st3]|c]; [|exact H3] end.
      cbn [outcome] in *.
      eapply ext_trans; [exact HM|eapply ext_trans; eassumption].
  Qed.

  (* ---- call sequences ------------------------------------------------------ *)

  Lemma call_okobj c : In c cs0 -> okobj (call_obj c) /\ (hgt (call_obj c) <= H)%nat.
  Proof.
    intros Hin.
    assert (Hin2 : In (call_obj c) (src_objs src ++ map call_obj cs0)).
    { apply in_or_app. right. now apply in_map. }
    assert (Hh : (hgt (call_obj c) <= H)%nat) by (subst H; now apply max_hgt_ge).
    split; [|exact Hh]. split; [lia|split].
    - intros r Hr. subst U. unfold universe. apply in_or_app. right. apply in_or_app. right.
      apply in_flat_map. exists (call_obj c). split; [now apply in_map|exact Hr].
    - unfold file_shaped in Hshape. rewrite forallb_forall in Hshape. now apply Hshape.
  Qed.

  Lemma fuel_enough o st : (hgt o <= H)%nat -> cpre (fuel_bound src cs0) o st.
  Proof.
    intros Hh. unfold cpre, need, fuel_bound. fold U. fold H.
    assert (ns_extra o <= H + 1)%nat by (unfold ns_extra; destruct (nostream o); lia).
    pose proof (u_le_U (trans st)). pose proof (eq_refl : K = (2 * H + 2)%nat). nia.
  Qed.

  Lemma run_total : forall l st b,
    incl l cs0 -> pinv b st -> (b + Z.of_nat (length l) <= maxXRefSize)%Z ->
    ok_or_malformed (run_calls src (fuel_bound src cs0) l st).
  Proof.
    induction l as [|c l IH]; intros st b Hinc Hp Hb.
    - exact I.
    - unfold run_calls. cbn [mapM]. cbn [length] in Hb.
      assert (Hc : In c cs0) by (apply Hinc; now left).
      assert (Hl : incl l cs0) by (intros x Hx; apply Hinc; now right).
      destruct (call_okobj c Hc) as [Hok Hh].
      assert (Hcopy : forall o, o = call_obj c ->
                match copy_obj src (fuel_bound src cs0) o st with Ok (_, st1) => pinv b st1 | Err e => e = Malformed end).
      { intros o ->. pose proof (copy_total_fuel (fuel_bound src cs0) (call_obj c) st b Hok Hp ltac:(lia) (fuel_enough _ _ Hh)) as HX.
        destruct (copy_obj src (fuel_bound src cs0) (call_obj c) st) as [[r st1]|e]; [|exact HX].
        eapply pinv_ext; eassumption. }
      assert (Htail : forall y st1 bb, pinv bb st1 -> (bb + Z.of_nat (length l) <= maxXRefSize)%Z ->
                ok_or_malformed (match mapM (run_call src (fuel_bound src cs0)) l st1 with
                                 | Ok (ys, s2) => Ok (y :: ys, s2) | Err e => Err e end)).
      { intros y st1 bb P1 Hbb. pose proof (IH st1 bb Hl P1 Hbb) as H2. unfold run_calls in H2.
        destruct (mapM (run_call src (fuel_bound src cs0)) l st1) as [[ys s2]|e]; [exact I|exact H2]. }
      destruct c as [r0 | o | s m]; cbn [run_call].
      + specialize (Hcopy (ORef r0) eq_refl).
        destruct (copy_obj src (fuel_bound src cs0) (ORef r0) st) as [[r st1]|e]; [|exact Hcopy].
        apply (Htail r st1 b Hcopy). lia.
      + specialize (Hcopy o eq_refl).
        destruct (copy_obj src (fuel_bound src cs0) o st) as [[r st1]|e]; [|exact Hcopy].
        apply (Htail r st1 b Hcopy). lia.
      + destruct Hp as [P1 P2].
        assert (Ha : alloc_ok st = true) by (unfold alloc_ok; apply Z.ltb_lt; lia).
        rewrite Ha.
        assert (Hh2 : has (next st) (puts st) = false).
        { apply has_false_iff. intros Hin. apply in_map_iff in Hin. destruct Hin as [[t0 v0] [Ht0 Hin0]].
          cbn [fst] in Ht0. subst t0. specialize (P1 _ _ Hin0). lia. }
        rewrite Hh2.
        set (st1 := mkState ((s, next st) :: trans st) (next st + 1)%N ((next st, m) :: puts st)).
        assert (Hp1 : pinv (b + 1) st1).
        { split.
          - cbn [puts next st1]. intros t0 v0 [[= <- <-]|Hin]; [lia|]. specialize (P1 _ _ Hin). lia.
          - assert (Hum : (u (trans st1) <= u (trans st))%nat) by (apply u_mono; apply dom_le_cons).
            change (next st1) with (next st + 1)%N. lia. }
        apply (Htail (ORef (next st)) st1 (b + 1)%Z Hp1). lia.
  Qed.
End Total.

Lemma copy_total : copy_total_stmt.
Proof.
  intros src cs next0 Hs Hb.
  destruct cs as [|c cs']; [exact I|].
  set (cs := c :: cs') in *.
  assert (Hpos : (1 <= max_hgt (src_objs src ++ map call_obj cs))%nat).
  { pose proof (max_hgt_ge (src_objs src ++ map call_obj cs) (call_obj c)) as Hm.
    pose proof (hgt_pos (call_obj c)). specialize (Hm ltac:(apply in_or_app; right; now left)). lia. }
  apply (run_total src cs Hs Hpos cs (init next0) (Z.of_N next0 + Z.of_nat (length (universe src cs)))%Z).
  - apply incl_refl.
  - split; cbn [init puts next trans].
    + intros t v [].
    + pose proof (u_le_U src cs []). lia.
  - lia.
Qed.

(* ---- no error at all when every /Filter and /DecodeParms inlines ------------ *)

Lemma mapM_err {A B S} (f : A -> S -> res (B * S)) l : forall s c,
  mapM f l s = Err c -> exists x s', In x l /\ f x s' = Err c.
Proof.
  induction l as [|x l IH]; intros s c; cbn [mapM]; [discriminate|].
  destruct (f x s) as [[y s1]|c'] eqn:E.
  - destruct (mapM f l s1) as [[ys s2]|c''] eqn:E2; [discriminate|]. intros [= <-].
    destruct (IH _ _ E2) as [x' [s' [Hin Hx]]]. exists x', s'. split; [now right|exact Hx].
  - intros [= <-]. exists x, s. split; [now left|exact E].
Qed.

Section NoMalformed.
  Variable src : source.
  Variable cs0 : list call.
  Hypothesis Hshape : file_shaped src cs0 = true.
  Hypothesis Hsok : all_streams_ok src cs0 = true.

  Definition goodo (o : obj) : Prop := flat o = true /\ streams_ok src o = true.

  Lemma nostream_flat' o : nostream o = true -> flat o = true.
  Proof. destruct o; cbn [flat nostream]; auto; discriminate. Qed.

  Lemma nostream_sok o : nostream o = true -> streams_ok src o = true.
  Proof.
    induction o using obj_ind'; cbn [nostream streams_ok]; try reflexivity; try discriminate.
    - intros Hn. rewrite forallb_forall in *. intros x Hx. rewrite Forall_forall in H. auto.
    - intros Hn. rewrite forallb_forall in *. intros x Hx. rewrite Forall_forall in H. auto.
  Qed.

  Lemma src_good e v : sget src e = Ok v -> goodo v.
  Proof.
    unfold sget. destruct (lookup e src) as [[o|]|] eqn:E; try discriminate.
    - intros [= <-]. apply lookup_In in E.
      assert (Hin : In o (src_objs src ++ map call_obj cs0)).
      { apply in_or_app. left. unfold src_objs. apply in_map_iff. exists (e, Good o). split; [reflexivity|exact E]. }
      unfold file_shaped in Hshape. unfold all_streams_ok in Hsok. rewrite forallb_forall in Hshape, Hsok. split; auto.
    - intros [= <-]. split; reflexivity.
  Qed.

  Lemma resolve_ns_ns o o' : resolve_ns src o = Ok o' -> nostream o = true -> nostream o' = true.
  Proof.
    unfold resolve_ns, resolve. destruct o; try (cbn [is_stream]; intros [= <-] Hn; exact Hn).
    - destruct (resolve_path src r) as [[v path]|c] eqn:E; [|discriminate].
      destruct (is_stream v) eqn:Es; [discriminate|]. intros [= <-] _.
      destruct (resolve_nonempty _ _ _ _ E) as [e [rest [_ [Hg _]]]].
      destruct (src_good _ _ Hg) as [Hf _]. destruct v; cbn [flat is_stream] in *; auto; discriminate.
  Qed.

  Lemma mapR_ns l : forall l', mapR (resolve_ns src) l = Ok l' -> forallb nostream l = true -> forallb nostream l' = true.
  Proof.
    induction l as [|x l IHl]; intros l'; cbn [mapR].
    - intros [= <-]. reflexivity.
    - destruct (resolve_ns src x) as [y|c] eqn:Ex; [|discriminate].
      destruct (mapR (resolve_ns src) l) as [ys|c]; [|discriminate]. intros [= <-].
      cbn [forallb]. rewrite andb_true_iff. intros [H1 H2].
      rewrite (resolve_ns_ns _ _ Ex H1). now rewrite (IHl _ eq_refl H2).
  Qed.

  Lemma inline_ns v i : inline src v = Ok i -> nostream v = true -> nostream i = true.
  Proof.
    unfold inline. destruct (resolve_ns src v) as [o|c] eqn:E; [|discriminate].
    intros Hi Hn. pose proof (resolve_ns_ns _ _ E Hn) as Ho.
    destruct o; try (injection Hi as <-; exact Ho).
    destruct (mapR (resolve_ns src) l) as [l'|c] eqn:El; [|discriminate]. injection Hi as <-.
    cbn [nostream] in *. eapply mapR_ns; eassumption.
  Qed.

  Lemma no_malformed : forall fuel o st c, goodo o -> copy_obj src fuel o st = Err c -> c <> Malformed.
  Proof.
    induction fuel as [|f IH]; intros o st c [Hf Hs]; [intros [= <-]; discriminate|].
    cbn [copy_obj]. destruct o as [| kd vv | l | d | r | d data]; try discriminate.
    - destruct (mapM (copy_obj src f) l st) as [[l' st1]|c'] eqn:E; [discriminate|]. intros [= <-].
      destruct (mapM_err _ _ _ _ E) as [x [s' [Hin Hx]]]. eapply IH; [|exact Hx].
      cbn [flat nostream streams_ok] in *. rewrite forallb_forall in Hf, Hs. split; [apply nostream_flat'|]; auto.
    - destruct (mapM (on_entry (copy_obj src f)) d st) as [[d' st1]|c'] eqn:E; [discriminate|]. intros [= <-].
      destruct (mapM_err _ _ _ _ E) as [x [s' [Hin Hx]]]. unfold on_entry in Hx.
      destruct (copy_obj src f (snd x) s') as [[v s1]|c''] eqn:Ec; [discriminate|]. injection Hx as <-.
      eapply IH; [|exact Ec].
      cbn [flat nostream streams_ok] in *. rewrite forallb_forall in Hf, Hs. split; [apply nostream_flat'|]; auto.
    - destruct (lookup r (trans st)); [discriminate|].
      set (vp := match resolve_path src r with Ok vp => vp | Err _ => (ONull, []) end).
      assert (Hvp : goodo (fst vp)).
      { subst vp. destruct (resolve_path src r) as [[v path]|c'] eqn:E; cbn [fst]; [|split; reflexivity].
        destruct (resolve_nonempty _ _ _ _ E) as [e [rest [_ [Hg _]]]]. eapply src_good; eassumption. }
      destruct vp as [v path]. cbn [fst] in Hvp.
      destruct (match path with e :: _ => lookup e (trans st) | [] => None end); [discriminate|].
      destruct (alloc_ok st); [|intros [= <-]; discriminate].
      match goal with |- context [copy_obj src f v ?s1] => destruct (copy_obj src f v s1) as [[v' st2]|c'] eqn:Ec end.
      + destruct (has (next st) (puts st2)); [intros [= <-]; discriminate|discriminate].
      + intros [= <-]. eapply IH; eassumption.
    - cbn [flat streams_ok] in Hf, Hs. apply andb_true_iff in Hs. destruct Hs as [Hs Hk2].
      apply andb_true_iff in Hs. destruct Hs as [Hs Hk1].
      assert (Hfix : forall k acc s c0, key_ok src k d = true ->
                fix_key src (copy_obj src f) k d (acc, s) = Err c0 -> c0 <> Malformed).
      { intros k acc s c0 Hk. unfold fix_key, key_ok in *. cbn [fst snd].
        destruct (dlookup k d) as [v|] eqn:El; [|discriminate].
        destruct (inline src v) as [i|c'] eqn:Ei; [|discriminate].
        destruct (copy_obj src f i s) as [[i' s1]|c'] eqn:Ec; [discriminate|]. intros [= <-].
        eapply IH; [|exact Ec].
        destruct (dlookup_In_entry _ _ _ El) as [k' Hin]. rewrite forallb_forall in Hf.
        pose proof (inline_ns _ _ Ei (Hf (k', v) Hin)) as Hni.
        split; [now apply nostream_flat'|now apply nostream_sok]. }
      destruct (mapM (on_entry (copy_obj src f)) d st) as [[d1 st1]|c'] eqn:E1.
      + match goal with |- match ?X with Ok _ => _ | Err _ => _ end = _ -> _ =>
          destruct X as [[d2 st2]|c2] eqn:E2 end.
        * match goal with |- match ?X with Ok _ => _ | Err _ => _ end = _ -> _ =>
            destruct X as [[d3 st3]|c3] eqn:E3 end; [discriminate|].
          intros [= <-]. eapply Hfix; [exact Hk2|exact E3].
        * intros [= <-]. eapply Hfix; [exact Hk1|exact E2].
      + intros [= <-]. destruct (mapM_err _ _ _ _ E1) as [x [s' [Hin Hx]]]. unfold on_entry in Hx.
        destruct (copy_obj src f (snd x) s') as [[v s1]|c''] eqn:Ec; [discriminate|]. injection Hx as <-.
        eapply IH; [|exact Ec]. rewrite forallb_forall in Hf, Hs.
        split; [apply nostream_flat'|]; auto.
  Qed.
End NoMalformed.

Lemma copy_total_ok : copy_total_ok_stmt.
Proof.
  intros src cs next0 Hshape Hsok Hb.
  pose proof (copy_total src cs next0 Hshape Hb) as Ht.
  destruct (run_calls src (fuel_bound src cs) cs (init next0)) as [[results st]|c] eqn:E; [eauto|].
  exfalso. cbn [ok_or_malformed] in Ht. subst c.
  destruct (mapM_err _ _ _ _ E) as [x [s' [Hin Hx]]].
  assert (Hg : goodo src (call_obj x)).
  { unfold file_shaped in Hshape. unfold all_streams_ok in Hsok. rewrite forallb_forall in Hshape, Hsok.
    assert (In (call_obj x) (src_objs src ++ map call_obj cs)) by (apply in_or_app; right; now apply in_map).
    split; auto. }
  destruct x as [r | o | s m]; cbn [run_call call_obj] in *.
  - eapply (no_malformed src cs Hshape Hsok); [exact Hg|exact Hx|reflexivity].
  - eapply (no_malformed src cs Hshape Hsok); [exact Hg|exact Hx|reflexivity].
  - destruct (alloc_ok s'); [|discriminate]. destruct (has (next s') (puts s')); discriminate.
Qed.
