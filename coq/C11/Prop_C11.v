(* C11: property theorems only; each closed by [exact] and followed by Print Assumptions.
   Vocabulary: Copier.v (model of copier.go), Checker.v (key/val/norm/walk/shape, iso_ok),
   Spec.v (renamed, related, local_iso, redirects_ok, streams_ok). *)
From Coq Require Import List NArith ZArith Bool.
From GoPdf.Base Require Import Res.
From GoPdf.C11 Require Import Copier Checker Spec CopierLemmas CopierProofs CheckerProofs TotalProofs Refuted ModelPaths PreFix StreamCrypt StreamCryptProofs History HistoryProofs.
Import ListNotations.

(* ---- the model copier, for all source graphs and all call sequences -------- *)

(* For every source reference s the copier has met and the caller has not
   redirected: all such references of an alias chain share one target; unless
   the end of the chain was redirected, that target holds the renamed object at
   the end of the chain; different source objects have different targets; the
   target of a redirected reference serves it and the references whose chain
   ends in it, nothing else; every call returned its argument renamed.
   Only hypothesis: Redirect is called for references without a translation. *)
Theorem copy_iso :
  forall src fuel cs next0 results st,
    run_calls src fuel cs (init next0) = Ok (results, st) ->
    redirects_fresh src fuel cs (init next0) ->
    (forall s t, lookup s (trans st) = Some t -> ~ In s (redirected cs) ->
        lookup (key src s) (trans st) = Some t /\
        (In (key src s) (redirected cs) \/
         exists v, lookup t (puts st) = Some v /\ renamed src (trans st) (val src (key src s)) v))
    /\ (forall s1 s2 t, lookup s1 (trans st) = Some t -> lookup s2 (trans st) = Some t ->
          ~ In s1 (redirected cs) -> ~ In s2 (redirected cs) -> key src s1 = key src s2)
    /\ (forall s s2 t, In s (redirected cs) -> lookup s (trans st) = Some t -> lookup s2 (trans st) = Some t ->
          s2 = s \/ (~ In s2 (redirected cs) /\ key src s2 = s))
    /\ Forall2 (call_result_ok src (trans st)) cs results.
Proof. exact CopierProofs.copy_iso. Qed.
Print Assumptions copy_iso.

(* No target reference is written twice; every Put is the copy of the end of one
   alias chain or the caller's replacement for a redirected reference; trans
   only grows; a reference that has a translation copies to it again without
   any effect. *)
Theorem copy_once :
  forall src fuel cs next0 results st,
    run_calls src fuel cs (init next0) = Ok (results, st) ->
    redirects_fresh src fuel cs (init next0) ->
    NoDup (map fst (puts st))
    /\ (forall t v, In (t, v) (puts st) ->
          exists e, lookup e (trans st) = Some t /\ (key src e = e \/ In e (redirected cs)))
    /\ (forall cs1 cs2 res1 st1, cs = cs1 ++ cs2 -> run_calls src fuel cs1 (init next0) = Ok (res1, st1) ->
          tr_le (trans st1) (trans st))
    /\ (forall r t fuel', lookup r (trans st) = Some t ->
          copy_obj src (S fuel') (ORef r) st = Ok (ORef t, st)).
Proof. exact CopierProofs.copy_once. Qed.
Print Assumptions copy_once.

(* Copying the same reference again returns the same target reference. *)
Theorem copy_again :
  forall src fuel cs next0, redirects_fresh src fuel cs (init next0) ->
  forall results st r i j t1 t2,
    run_calls src fuel cs (init next0) = Ok (results, st) ->
    nth_error cs i = Some (CCopyRef r) -> nth_error cs j = Some (CCopyRef r) ->
    nth_error results i = Some (ORef t1) -> nth_error results j = Some (ORef t2) ->
    t1 = t2.
Proof. exact CopierProofs.copy_again. Qed.
Print Assumptions copy_again.

(* ... but not when the caller replaces a translation by a late Redirect
   (CopyReference(3); Redirect(3, X); CopyReference(3)) *)
Theorem copy_again_refuted :
  ~ (forall src fuel cs next0 results st r i j t1 t2,
      run_calls src fuel cs (init next0) = Ok (results, st) ->
      nth_error cs i = Some (CCopyRef r) -> nth_error cs j = Some (CCopyRef r) ->
      nth_error results i = Some (ORef t1) -> nth_error results j = Some (ORef t2) ->
      t1 = t2).
Proof. exact Refuted.copy_again_refuted. Qed.
Print Assumptions copy_again_refuted.

(* fuel_bound = (|references| + 2) * (2 * height + 2) suffices: no OutOfFuel, no
   Panic; the only error is the MalformedFileError for an unusable /Filter or
   /DecodeParms.  file_shaped: a stream is never a part of another object (PDF
   7.3.8; true of everything the Reader returns). *)
Theorem copy_total :
  forall src cs next0,
    file_shaped src cs = true ->
    (Z.of_N next0 + Z.of_nat (length (universe src cs)) + Z.of_nat (length cs) <= Gen_C11.maxXRefSize)%Z ->
    match run_calls src (fuel_bound src cs) cs (init next0) with
    | Ok _ => True
    | Err c => c = Malformed
    end.
Proof. exact TotalProofs.copy_total. Qed.
Print Assumptions copy_total.

(* ... and no error at all when every /Filter and /DecodeParms resolves to
   something that is not a stream *)
Theorem copy_total_ok :
  forall src cs next0,
    file_shaped src cs = true -> all_streams_ok src cs = true ->
    (Z.of_N next0 + Z.of_nat (length (universe src cs)) + Z.of_nat (length cs) <= Gen_C11.maxXRefSize)%Z ->
    exists results st, run_calls src (fuel_bound src cs) cs (init next0) = Ok (results, st).
Proof. exact TotalProofs.copy_total_ok. Qed.
Print Assumptions copy_total_ok.

(* ---- documentation: the copier before the fixes F26 and F27 (PreFix.v) ------- *)

(* before F26 a stream whose /Filter leads back to it exhausted every amount of fuel *)
Theorem prefix_filter_loop_never_returns :
  forall fuel next0, (Z.of_N next0 < Gen_C11.maxXRefSize)%Z ->
    run_calls_pre loop_src fuel [CCopyRef 3%N] (init next0) = Err OutOfFuel.
Proof. exact PreFix.prefix_filter_loop_never_returns. Qed.
Print Assumptions prefix_filter_loop_never_returns.

(* before F27 Redirect(4,X); CopyReference(4); CopyReference(5); CopyReference(4)
   with 4 = '3 0 R', 5 = '4 0 R' returned X, Y, Y for the three copies *)
Theorem prefix_redirect_overwritten :
  results_of (run_calls_pre alias_src 10 alias_calls (init 2%N)) = [ORef 2%N; ORef 2%N; ORef 3%N; ORef 3%N].
Proof. exact PreFix.prefix_redirect_overwritten. Qed.
Print Assumptions prefix_redirect_overwritten.

(* ---- the certified checker, run on the graphs read back from real files ---- *)

Theorem iso_ok_sound :
  forall src tgt tr roots,
    iso_ok src tgt tr roots = true ->
    local_iso src tgt tr /\ Forall (root_ok src tr) roots.
Proof. exact CheckerProofs.iso_ok_sound. Qed.
Print Assumptions iso_ok_sound.

(* along every access path the target shows the renamed source *)
Theorem iso_paths :
  forall src tgt tr a b,
    local_iso src tgt tr -> root_ok src tr (a, b) ->
    forall p, related src tr (walk_src src a p) (walk_tgt tgt b p).
Proof. exact CheckerProofs.iso_paths. Qed.
Print Assumptions iso_paths.

(* kind, scalar value, array length, keys with a non-null value, stream data *)
Theorem iso_shape :
  forall src tgt tr a b,
    local_iso src tgt tr -> root_ok src tr (a, b) ->
    forall p,
      shape_src src (deref_src src (walk_src src a p)) = shape_of (deref_tgt tgt (walk_tgt tgt b p)).
Proof. exact CheckerProofs.iso_shape. Qed.
Print Assumptions iso_shape.

(* sharing: same source object iff same target object *)
Theorem iso_sharing :
  forall src tgt tr a b,
    local_iso src tgt tr -> root_ok src tr (a, b) ->
    forall p q r1 r2,
      walk_src src a p = ORef r1 -> walk_src src a q = ORef r2 ->
      exists t1 t2,
        walk_tgt tgt b p = ORef t1 /\ walk_tgt tgt b q = ORef t2 /\
        (t1 = t2 <-> key src r1 = key src r2).
Proof. exact CheckerProofs.iso_sharing. Qed.
Print Assumptions iso_sharing.

(* Redirect: the same agreement along every access path that does not pass
   through an object the caller replaced (R = the redirected references) *)
Theorem iso_paths_R :
  forall R src tgt tr a b,
    local_iso_R R src tgt tr -> root_ok src tr (a, b) ->
    forall p, walk_clear R src a p -> related src tr (walk_src src a p) (walk_tgt tgt b p).
Proof. exact CheckerProofs.iso_paths_R. Qed.
Print Assumptions iso_paths_R.

Theorem iso_shape_R :
  forall R src tgt tr a b,
    local_iso_R R src tgt tr -> root_ok src tr (a, b) ->
    forall p, walk_clear R src a (p ++ [SIdx 0]) ->
      shape_src src (deref_src src (walk_src src a p)) = shape_of (deref_tgt tgt (walk_tgt tgt b p)).
Proof. exact CheckerProofs.iso_shape_R. Qed.
Print Assumptions iso_shape_R.

(* The model copier's output satisfies those local conditions, for every call
   sequence with fresh Redirects (dictionaries are finite maps): with
   iso_paths_R / iso_shape_R source and target agree along every access path
   from every copy call's argument / result. *)
Theorem copy_iso_paths :
  forall src fuel cs next0 results st,
    run_calls src fuel cs (init next0) = Ok (results, st) ->
    redirects_fresh src fuel cs (init next0) ->
    (forall r o, In (r, Good o) src -> wf_obj o = true) ->
    Forall call_wf cs ->
    local_iso_R (redirected cs) src (puts st) (trans st) /\
    Forall2 (call_root_ok src (trans st)) cs results.
Proof. exact ModelPaths.copy_iso_paths. Qed.
Print Assumptions copy_iso_paths.

(* ---- stream data across ciphers (StreamCrypt.v) -------------------------------- *)

(* when GetFilters accepts a filter chain, the cheap probe used by the copier
   and by Writer.OpenStream classifies its head as GetFilters does *)
Theorem crypt_probe_agrees :
  forall g f b, head_is_crypt g f = Ok b -> starts_with_crypt g f = Ok b.
Proof. exact StreamCryptProofs.probe_agrees. Qed.
Print Assumptions crypt_probe_agrees.

(* the copied stream dictionary declares the /Crypt exemption iff the source
   one does - given directly, as the first element of an array, or through
   indirect references *)
Theorem copy_stream_exempt :
  forall g gt tr d n d3 h,
    renamed g tr (OStream d n) (OStream d3 n) ->
    head_is_crypt g (dget K_Filter d) = Ok h ->
    head_is_crypt gt (dget K_Filter d3) = Ok h.
Proof. exact StreamCryptProofs.copy_stream_exempt. Qed.
Print Assumptions copy_stream_exempt.

(* For every source cipher sk, target cipher tk (None: unencrypted), every set of
   references exempt BY IDENTITY in the source and in the target (the catalog's
   metadata stream under /EncryptMetadata false - never a stream that merely
   looks like one: d is arbitrary), target version, and /Crypt exemption: the
   bytes a reader of the target obtains for the copied stream (after decryption,
   and after the remaining filters) are those a reader of the source obtains.
   Ciphers: any enc/dec with dec (enc x) = x; the remaining filters: any
   function of the inlined /Filter and /DecodeParms that does not depend on
   object numbers. *)
Theorem copy_stream_bytes :
  forall (key : Type) (enc dec : key -> ref -> list N -> list N),
    (forall k r x, dec k r (enc k r x) = x) ->
  forall unfilter : obj -> obj -> list N -> list N,
    (forall g tr f f' q q' x, renamed g tr f f' -> renamed g tr q q' -> unfilter f' q' x = unfilter f q x) ->
  forall g gt tr sk tk splain tplain ver s t d n d3 disk data disk' x h,
    renamed g tr (OStream d n) (OStream d3 n) ->
    head_is_crypt g (dget K_Filter d) = Ok h ->
    copy_data key dec g sk splain s d disk = Ok data ->
    write_data key enc ver tk tplain gt t d3 data = Ok disk' ->
    decoded_src key dec unfilter g sk splain s d disk = Ok x ->
    decoded_tgt key dec unfilter gt tk tplain t d3 disk' = Ok x.
Proof. exact StreamCryptProofs.copy_stream_bytes. Qed.
Print Assumptions copy_stream_bytes.

(* ---- copied values are independent of later copier activity (History.v) ------- *)

(* In every history of copier calls (Redirect only for references without a
   translation) and deferred Puts - Copy a value, do anything else with the
   copier, Put the value later (or let the Writer defer the Put while a stream
   is open) - what is written is the renamed argument of the copy call that
   produced it (for a stream: the renamed dictionary and the source's data), or
   a reference to an object the caller wrote to the target itself (with Put, or
   as the replacement given to Redirect). *)
Theorem hist_values :
  forall src fuel ops next0 h,
    run_hist src fuel ops (hinit next0) = Ok h ->
    hist_fresh src fuel ops (hinit next0) ->
    forall t v, In (t, v) (hputs h) ->
      (exists c, In (HCall c) ops /\ is_copy_op (HCall c) = true /\ renamed src (trans (hst h)) (call_obj c) v) \/
      (exists t', v = ORef t' /\ In t' (map fst (hputs h) ++ map fst (puts (hst h)))).
Proof. exact HistoryProofs.hist_values. Qed.
Print Assumptions hist_values.

(* ---- the hypotheses are satisfiable ----------------------------------------- *)

(* root [A B A A2 self] with A = 'B 0 R', A2 = 'A 0 R', B a stream with an
   indirect /Filter, self a dictionary that refers to itself; 9 is dangling *)
Definition ex_src : source :=
  [ (1, Good (OArr [ORef 2; ORef 3; ORef 2; ORef 4; ORef 5; ORef 9; OArr []; ONull]));
    (2, Good (ORef 3));
    (3, Good (OStream [([84], OScalar 3 [83]); (K_Filter, ORef 6)] 7));
    (4, Good (ORef 2));
    (5, Good (ODict [([77; 101], ORef 5); ([65], ORef 4); ([78], ONull)]));
    (6, Good (OArr [ORef 7]));
    (7, Good (OScalar 3 [70; 108])) ]%N.

Definition ex_calls : list call := [CRedirect 9 (OScalar 1 [55]); CCopyRef 1; CCopy (OArr [ORef 4]); CCopyRef 2]%N.

Example ex_redirects_fresh : redirects_fresh ex_src (fuel_bound ex_src ex_calls) ex_calls (init 10).
Proof.
  intros cs1 s m cs2 E. destruct cs1 as [|c1 cs1].
  - injection E as <- <- <-. intros res st1 Hr. injection Hr as <- <-. reflexivity.
  - injection E as <- E. destruct cs1 as [|c2 cs1]; [discriminate E|].
    injection E as <- E. destruct cs1 as [|c3 cs1]; [discriminate E|].
    injection E as <- E. destruct cs1 as [|c4 cs1]; [discriminate E|].
    injection E as <- E. destruct cs1; discriminate E.
Qed.

Example ex_total_hyp :
  file_shaped ex_src ex_calls = true /\ all_streams_ok ex_src ex_calls = true /\
  (Z.of_N 10 + Z.of_nat (length (universe ex_src ex_calls)) + Z.of_nat (length ex_calls) <= Gen_C11.maxXRefSize)%Z.
Proof. split; [reflexivity|split; [reflexivity|]]. vm_compute. discriminate. Qed.

(* the run: 6 Puts (marker, root, stream, self, the /Filter object 6 and its element 7 reached
   through the stream dictionary, nothing for the aliases), second copy of 2 is the stream's target *)
Example ex_run :
  match run_calls ex_src (fuel_bound ex_src ex_calls) ex_calls (init 10) with
  | Ok (results, st) =>
      results = [ORef 10; ORef 11; OArr [ORef 12]; ORef 12]%N /\ length (puts st) = 6%nat /\
      iso_ok ((9%N, Good (OScalar 1 [55%N])) :: ex_src) (puts st) (trans st)
        [(ORef 1%N, ORef 11%N); (OArr [ORef 4%N], OArr [ORef 12%N])] = true
  | Err _ => False
  end.
Proof. vm_compute. repeat split. Qed.

(* the two former defects, on the current model *)
Example ex_filter_loop_now :
  run_calls loop_src (fuel_bound loop_src [CCopyRef 3%N]) [CCopyRef 3%N] (init 5%N) = Err Malformed.
Proof. exact PreFix.filter_loop_now. Qed.

Example ex_redirect_kept_now :
  results_of (run_calls alias_src 10 alias_calls (init 2%N)) = [ORef 2%N; ORef 2%N; ORef 3%N; ORef 2%N].
Proof. exact PreFix.redirect_kept_now. Qed.

(* stream data: a toy cipher (prepend the key) satisfies the hypothesis; an
   encrypted source stream exempt through an indirect /Crypt name (object 8),
   copied into an encrypted target *)
Definition ex_enc (k : N) (_ : ref) (x : list N) : list N := k :: x.
Definition ex_dec (_ : N) (_ : ref) (x : list N) : list N := tl x.
Example ex_cipher : forall k r x, ex_dec k r (ex_enc k r x) = x.
Proof. reflexivity. Qed.

Definition ex_cg : source := [(8, Good (OScalar 3 K_Crypt))]%N.
Definition ex_cd : dict := [(K_Filter, OArr [ORef 8%N; OScalar 3%N [70%N]])].
Example ex_crypt_decisions :
  head_is_crypt ex_cg (dget K_Filter ex_cd) = Ok true /\
  copy_data N ex_dec ex_cg (Some 1%N) [] 5%N ex_cd [7; 7]%N = Ok [7; 7]%N /\
  write_data N ex_enc 14%N (Some 2%N) [] [] 9%N [(K_Filter, OArr [OScalar 3%N K_Crypt; OScalar 3%N [70%N]])] [7; 7]%N = Ok [7; 7]%N /\
  copy_data N ex_dec ex_cg (Some 1%N) [] 5%N [] [1; 7; 7]%N = Ok [7; 7]%N /\
  copy_data N ex_dec ex_cg (Some 1%N) [5%N] 5%N [] [1; 7; 7]%N = Ok [1; 7; 7]%N /\
  write_data N ex_enc 14%N (Some 2%N) [] [] 9%N [] [7; 7]%N = Ok [2; 7; 7]%N.
Proof. vm_compute. repeat split. Qed.
