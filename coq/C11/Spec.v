(* C11 - what "the copy is the renamed source object" means, as a relation, and
   the statements of the property.  Definitions only.

   [renamed src tr a x]: x is a with every reference r replaced by [tr r]; for
   a stream, /Filter and /DecodeParms hold the renamed *inlined* values (as
   copyStreamDict writes them).  A relation, so that it needs no termination
   argument for streams whose inlined values contain streams again. *)
From Coq Require Import List NArith ZArith Bool.
From GoPdf.Base Require Import Res.
From GoPdf.C11 Require Import Copier Checker.
Import ListNotations.

Inductive renamed (src : source) (tr : tr_map) : obj -> obj -> Prop :=
| RnNull : renamed src tr ONull ONull
| RnScalar k v : renamed src tr (OScalar k v) (OScalar k v)
| RnArr l l' : renamed_list src tr l l' -> renamed src tr (OArr l) (OArr l')
| RnDict d d' : renamed_dict src tr d d' -> renamed src tr (ODict d) (ODict d')
| RnRef r t : lookup r tr = Some t -> renamed src tr (ORef r) (ORef t)
| RnStream d data d1 d2 d3 :
    renamed_dict src tr d d1 ->
    renamed_key src tr K_Filter d d1 d2 ->
    renamed_key src tr K_DecodeParms d d2 d3 ->
    renamed src tr (OStream d data) (OStream d3 data)
with renamed_list (src : source) (tr : tr_map) : list obj -> list obj -> Prop :=
| RlNil : renamed_list src tr [] []
| RlCons a x l l' : renamed src tr a x -> renamed_list src tr l l' -> renamed_list src tr (a :: l) (x :: l')
with renamed_dict (src : source) (tr : tr_map) : dict -> dict -> Prop :=
| RdNil : renamed_dict src tr [] []
| RdCons k a x d d' : renamed src tr a x -> renamed_dict src tr d d' -> renamed_dict src tr ((k, a) :: d) ((k, x) :: d')
with renamed_key (src : source) (tr : tr_map) : name -> dict -> dict -> dict -> Prop :=
| RkAbsent k d acc : dlookup k d = None -> renamed_key src tr k d acc acc
| RkPresent k d acc v i i' :
    dlookup k d = Some v -> inline src v = Ok i -> renamed src tr i i' ->
    renamed_key src tr k d acc (dset k i' acc).

Scheme renamed_mind := Induction for renamed Sort Prop
  with renamed_list_mind := Induction for renamed_list Sort Prop
  with renamed_dict_mind := Induction for renamed_dict Sort Prop
  with renamed_key_mind := Induction for renamed_key Sort Prop.
Combined Scheme renamed_mutind from renamed_mind, renamed_list_mind, renamed_dict_mind, renamed_key_mind.

(* the target object b is the renamed source object a, up to null dictionary entries *)
Definition related (src : source) (tr : tr_map) (a b : obj) : Prop :=
  exists x, renamed src tr a x /\ norm x = norm b.

(* tr' extends tr *)
Definition tr_le (tr tr' : tr_map) : Prop :=
  forall s t, lookup s tr = Some t -> lookup s tr' = Some t.

(* ---- what the checker establishes, and what the copier guarantees -------- *)

(* Local conditions: every translated reference shares the target of the end
   of its alias chain; that target holds the renamed object at the end of the
   chain; distinct source objects have distinct targets. *)
Record local_iso (src : source) (tgt : target) (tr : tr_map) : Prop := {
  li_entry : forall s t, In (s, t) tr ->
      lookup (key src s) tr = Some t /\ related src tr (val src (key src s)) (tget tgt t);
  li_inj : forall s1 s2 t, In (s1, t) tr -> In (s2, t) tr -> key src s1 = key src s2;
  li_wf_src : forall r o, In (r, Good o) src -> wf_obj o = true;
  li_wf_tgt : forall t o, In (t, o) tgt -> wf_obj o = true
}.

Definition root_ok (src : source) (tr : tr_map) (p : obj * obj) : Prop :=
  wf_obj (fst p) = true /\ wf_obj (snd p) = true /\ related src tr (fst p) (snd p).

(* iso_ok_sound *)
Definition iso_ok_sound_stmt : Prop :=
  forall src tgt tr roots,
    iso_ok src tgt tr roots = true ->
    local_iso src tgt tr /\ Forall (root_ok src tr) roots.

(* Isomorphism, extensionally: along every access path (array indices and
   dictionary keys, following references, an alias chain counting as one
   reference) the source and the target show the same thing. *)
Definition iso_paths_stmt : Prop :=
  forall src tgt tr a b,
    local_iso src tgt tr -> root_ok src tr (a, b) ->
    forall p, related src tr (walk_src src a p) (walk_tgt tgt b p).

Definition iso_shape_stmt : Prop :=
  forall src tgt tr a b,
    local_iso src tgt tr -> root_ok src tr (a, b) ->
    forall p,
      shape_src src (deref_src src (walk_src src a p)) = shape_of (deref_tgt tgt (walk_tgt tgt b p)).

(* two paths lead to the same source object (same end of the alias chain) iff
   they lead to the same target object *)
Definition iso_sharing_stmt : Prop :=
  forall src tgt tr a b,
    local_iso src tgt tr -> root_ok src tr (a, b) ->
    forall p q r1 r2,
      walk_src src a p = ORef r1 -> walk_src src a q = ORef r2 ->
      exists t1 t2,
        walk_tgt tgt b p = ORef t1 /\ walk_tgt tgt b q = ORef t2 /\
        (t1 = t2 <-> key src r1 = key src r2).

(* ---- the model copier ---------------------------------------------------- *)

(* references redirected by the call sequence *)
Fixpoint redirected (cs : list call) : list ref :=
  match cs with
  | [] => []
  | CRedirect s _ :: t => s :: redirected t
  | _ :: t => redirected t
  end.

(* Redirect is only called for a reference that has no translation yet at the
   time of the call (calling it later replaces a translation that copies made
   before may already have used: see copy_again_refuted). *)
Definition redirects_fresh (src : source) (fuel : nat) (cs : list call) (st0 : state) : Prop :=
  forall cs1 s m cs2, cs = cs1 ++ CRedirect s m :: cs2 ->
    forall res st1, run_calls src fuel cs1 st0 = Ok (res, st1) -> lookup s (trans st1) = None.

Definition call_result_ok (src : source) (tr : tr_map) (c : call) (res : obj) : Prop :=
  match c with
  | CRedirect s _ => exists t, res = ORef t /\ lookup s tr = Some t
  | _ => renamed src tr (call_obj c) res
  end.

(* copy_iso: for every source reference s the copier has met and the caller has
   not redirected, the target holds at [trans s] the renamed object at the end
   of the alias chain of s (unless that end was redirected, in which case
   [trans s] is the caller's replacement); all such references of a chain share
   one target; different source objects have different targets; the target of a
   redirected reference is used for it and for the references whose chain ends
   in it, and for nothing else; every call returned the renamed argument. *)
Definition copy_iso_stmt : Prop :=
  forall src fuel cs next0 results st,
    run_calls src fuel cs (init next0) = Ok (results, st) ->
    redirects_fresh src fuel cs (init next0) ->
    (forall s t, lookup s (trans st) = Some t -> ~ In s (redirected cs) ->
        lookup (key src s) (trans st) = Some t /\
        (In (key src s) (redirected cs) \/
         exists v, lookup t (puts st) = Some v /\ renamed src (trans st) (val src (key src s)) v))
    /\ (forall s1 s2 t, lookup s1 (trans st) = Some t -> lookup s2 (trans st) = Some t ->
          ~ In s1 (redirected cs) -> ~ In s2 (redirected cs) -> key src s1 = key src s2)
    /\ (forall s s2 t, In s (redirected cs) -> lookup s (trans st) = Some t -> lookup s2 (trans st) = Some t ->
          s2 = s \/ (~ In s2 (redirected cs) /\ key src s2 = s))
    /\ Forall2 (call_result_ok src (trans st)) cs results.

(* copy_once: no target reference is written twice; every Put is the copy of
   the end of one alias chain or the caller's replacement for a redirected
   reference; trans only grows along the call sequence; copying a reference
   that has a translation again returns that translation and changes nothing. *)
Definition copy_once_stmt : Prop :=
  forall src fuel cs next0 results st,
    run_calls src fuel cs (init next0) = Ok (results, st) ->
    redirects_fresh src fuel cs (init next0) ->
    NoDup (map fst (puts st))
    /\ (forall t v, In (t, v) (puts st) ->
          exists e, lookup e (trans st) = Some t /\ (key src e = e \/ In e (redirected cs)))
    /\ (forall cs1 cs2 res1 st1, cs = cs1 ++ cs2 -> run_calls src fuel cs1 (init next0) = Ok (res1, st1) ->
          tr_le (trans st1) (trans st))
    /\ (forall r t fuel', lookup r (trans st) = Some t ->
          copy_obj src (S fuel') (ORef r) st = Ok (ORef t, st)).

(* copy_again: two CopyReference calls for the same reference in one call
   sequence return the same target reference *)
Definition copy_again_concl (src : source) (fuel : nat) (cs : list call) (next0 : N) : Prop :=
  forall results st r i j t1 t2,
    run_calls src fuel cs (init next0) = Ok (results, st) ->
    nth_error cs i = Some (CCopyRef r) -> nth_error cs j = Some (CCopyRef r) ->
    nth_error results i = Some (ORef t1) -> nth_error results j = Some (ORef t2) ->
    t1 = t2.

Definition copy_again_stmt : Prop :=
  forall src fuel cs next0, redirects_fresh src fuel cs (init next0) -> copy_again_concl src fuel cs next0.

(* without the hypothesis on Redirect the second copy of a reference can differ
   (the caller replaced the translation in between) *)
Definition copy_again_unguarded_stmt : Prop :=
  forall src fuel cs next0, copy_again_concl src fuel cs next0.

(* ---- totality ------------------------------------------------------------ *)

Fixpoint nostream (o : obj) : bool :=
  match o with
  | OArr l => forallb nostream l
  | ODict d => forallb (fun e => nostream (snd e)) d
  | OStream _ _ => false
  | _ => true
  end.

(* PDF syntax (7.3.8): a stream is an indirect object, never a part of another
   object.  Everything the Reader returns has this shape. *)
Definition flat (o : obj) : bool :=
  match o with
  | OStream d _ => forallb (fun e => nostream (snd e)) d
  | _ => nostream o
  end.

Definition file_shaped (src : source) (cs : list call) : bool :=
  forallb flat (src_objs src ++ map call_obj cs).

Definition ok_or_malformed {A} (r : res A) : Prop :=
  match r with Ok _ => True | Err c => c = Malformed end.

(* copy_total: with fuel_bound the copier never runs out of fuel and never
   panics; the only error is the MalformedFileError for a stream whose /Filter
   or /DecodeParms does not resolve or is a stream.  Hypotheses: the object
   graph is file-shaped, and the target object numbers stay below
   Writer.Alloc's ceiling. *)
Definition copy_total_stmt : Prop :=
  forall src cs next0,
    file_shaped src cs = true ->
    (Z.of_N next0 + Z.of_nat (length (universe src cs)) + Z.of_nat (length cs) <= Gen_C11.maxXRefSize)%Z ->
    ok_or_malformed (run_calls src (fuel_bound src cs) cs (init next0)).

(* /Filter and /DecodeParms of a stream inline without error *)
Definition key_ok (src : source) (k : name) (d : dict) : bool :=
  match dlookup k d with
  | None => true
  | Some v => match inline src v with Ok _ => true | Err _ => false end
  end.

Fixpoint streams_ok (src : source) (o : obj) : bool :=
  match o with
  | OArr l => forallb (streams_ok src) l
  | ODict d => forallb (fun e => streams_ok src (snd e)) d
  | OStream d _ =>
    forallb (fun e => streams_ok src (snd e)) d && key_ok src K_Filter d && key_ok src K_DecodeParms d
  | _ => true
  end.

Definition all_streams_ok (src : source) (cs : list call) : bool :=
  forallb (streams_ok src) (src_objs src ++ map call_obj cs).

(* ... and no error at all when moreover every /Filter and /DecodeParms resolves
   to something that is not a stream *)
Definition copy_total_ok_stmt : Prop :=
  forall src cs next0,
    file_shaped src cs = true -> all_streams_ok src cs = true ->
    (Z.of_N next0 + Z.of_nat (length (universe src cs)) + Z.of_nat (length cs) <= Gen_C11.maxXRefSize)%Z ->
    exists results st, run_calls src (fuel_bound src cs) cs (init next0) = Ok (results, st).

(* ---- access paths in the presence of Redirect -------------------------------- *)

(* local_iso with exemptions: nothing is claimed about the references in R
   (redirected by the caller), and the target of a reference whose alias chain
   ends in R is the caller's replacement *)
Record local_iso_R (R : list ref) (src : source) (tgt : target) (tr : tr_map) : Prop := {
  lr_entry : forall s t, In (s, t) tr -> ~ In s R ->
      lookup (key src s) tr = Some t /\
      (In (key src s) R \/ related src tr (val src (key src s)) (tget tgt t));
  lr_inj : forall s1 s2 t, In (s1, t) tr -> In (s2, t) tr -> ~ In s1 R -> ~ In s2 R -> key src s1 = key src s2;
  lr_wf_src : forall r o, In (r, Good o) src -> wf_obj o = true;
  lr_wf_tgt : forall t o, In (t, o) tgt -> wf_obj o = true
}.

(* the path never follows a redirected reference, or one whose chain ends in a redirected one *)
Fixpoint walk_clear (R : list ref) (src : source) (o : obj) (p : list sel) : Prop :=
  match p with
  | [] => True
  | s :: p' =>
    (forall r, o = ORef r -> ~ In r R /\ ~ In (key src r) R) /\
    walk_clear R src (step (inline_dict src) (deref_src src o) s) p'
  end.

Definition iso_paths_R_stmt : Prop :=
  forall R src tgt tr a b,
    local_iso_R R src tgt tr -> root_ok src tr (a, b) ->
    forall p, walk_clear R src a p -> related src tr (walk_src src a p) (walk_tgt tgt b p).

Definition iso_shape_R_stmt : Prop :=
  forall R src tgt tr a b,
    local_iso_R R src tgt tr -> root_ok src tr (a, b) ->
    forall p, walk_clear R src a (p ++ [SIdx 0]) ->
      shape_src src (deref_src src (walk_src src a p)) = shape_of (deref_tgt tgt (walk_tgt tgt b p)).

Definition call_wf (c : call) : Prop :=
  wf_obj (call_obj c) = true /\ match c with CRedirect _ m => wf_obj m = true | _ => True end.

Definition call_root_ok (src : source) (tr : tr_map) (c : call) (res : obj) : Prop :=
  match c with CRedirect _ _ => True | _ => root_ok src tr (call_obj c, res) end.

(* copy_iso_paths: for every call sequence with fresh Redirects (dictionaries
   being finite maps: no key twice) the model copier's output satisfies the
   local conditions with the redirected references exempt; hence (iso_paths_R)
   source and target agree along every access path that does not pass through
   an object the caller replaced. *)
Definition copy_iso_paths_stmt : Prop :=
  forall src fuel cs next0 results st,
    run_calls src fuel cs (init next0) = Ok (results, st) ->
    redirects_fresh src fuel cs (init next0) ->
    (forall r o, In (r, Good o) src -> wf_obj o = true) ->
    Forall call_wf cs ->
    local_iso_R (redirected cs) src (puts st) (trans st) /\
    Forall2 (call_root_ok src (trans st)) cs results.
