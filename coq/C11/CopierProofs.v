(* C11 - the invariant of the copier and the theorems that rest on it:
   copy_iso, copy_once, copy_again (statements in Spec.v). *)
From Coq Require Import List NArith ZArith Bool Lia.
From GoPdf.Base Require Import Res.
From GoPdf.C11 Require Import Copier Checker Spec CopierLemmas.
Import ListNotations.

Lemma has_true_iff t l : has t l = true <-> In t (map fst l).
Proof.
  unfold has. rewrite existsb_exists. split.
  - intros [e [Hin E]]. apply N.eqb_eq in E. subst. now apply in_map.
  - intros H. apply in_map_iff in H. destruct H as [e [<- Hin]]. exists e. split; [assumption|apply N.eqb_refl].
Qed.

Lemma has_false_iff t l : has t l = false <-> ~ In t (map fst l).
Proof. rewrite <- has_true_iff. destruct (has t l); split; congruence. Qed.

Lemma lookup_has {A} t (l : list (N * A)) v : lookup t l = Some v -> In t (map fst l).
Proof. intros H. apply lookup_In in H. change t with (fst (t, v)). now apply in_map. Qed.

(* the translation map after an allocation for the reference r and its chain *)
Lemma lookup_group path r t tr s :
  lookup r tr = None ->
  lookup s (set_all path t ((r, t) :: tr)) =
  match lookup s tr with Some x => Some x | None => if mem s (r :: path) then Some t else None end.
Proof.
  intros Hr. rewrite lookup_set_all. cbn [lookup]. unfold mem at 2. cbn [existsb]. fold (mem s path).
  rewrite (N.eqb_sym s r). destruct (N.eqb r s) eqn:E.
  - apply N.eqb_eq in E. subst. now rewrite Hr.
  - cbn [orb]. reflexivity.
Qed.

Section Inv.
  Variable src : source.

  (* the identity of a translated reference: a redirected reference stands for
     itself, any other for the end of its alias chain *)
  Definition kk (R : list ref) (s : ref) : ref := if mem s R then s else key src s.

  (* [R]: references redirected by the caller; [X]: chain ends on the call stack *)
  Record inv (R X : list ref) (st : state) : Prop := {
    inv_key : forall s t, lookup s (trans st) = Some t -> ~ In s R -> lookup (key src s) (trans st) = Some t;
    inv_val : forall s t, lookup s (trans st) = Some t -> ~ In s R ->
        In (key src s) R \/ In (key src s) X \/
        exists v, lookup t (puts st) = Some v /\ renamed src (trans st) (val src (key src s)) v;
    inv_inj : forall s1 s2 t, lookup s1 (trans st) = Some t -> lookup s2 (trans st) = Some t -> kk R s1 = kk R s2;
    inv_tr_lt : forall s t, lookup s (trans st) = Some t -> (t < next st)%N;
    inv_put_nodup : NoDup (map fst (puts st));
    inv_put_end : forall t v, In (t, v) (puts st) ->
        exists e, lookup e (trans st) = Some t /\ (key src e = e \/ In e R);
    inv_in : forall s t, In (s, t) (trans st) -> lookup s (trans st) = Some t;
    inv_R : forall s, In s R -> lookup s (trans st) <> None
  }.

  Definition st_le (a b : state) : Prop :=
    tr_le (trans a) (trans b) /\ (next a <= next b)%N /\
    (forall t v, lookup t (puts a) = Some v -> lookup t (puts b) = Some v).

  Lemma st_le_refl s : st_le s s.
  Proof. split; [apply tr_le_refl|split; [lia|auto]]. Qed.

  Lemma st_le_trans a b c : st_le a b -> st_le b c -> st_le a c.
  Proof.
    intros [H1 [H2 H3]] [H4 [H5 H6]].
    split; [eapply tr_le_trans; eassumption|split; [lia|auto]].
  Qed.

  Lemma kk_equiv R R' s : (forall x, In x R <-> In x R') -> kk R s = kk R' s.
  Proof.
    intros H. unfold kk. destruct (mem s R) eqn:E1; destruct (mem s R') eqn:E2; try reflexivity.
    - apply mem_In in E1. apply H in E1. apply mem_In in E1. congruence.
    - apply mem_In in E2. apply H in E2. apply mem_In in E2. congruence.
  Qed.

  Lemma inv_equiv R R' X X' st : (forall x, In x R <-> In x R') -> incl X X' -> inv R X st -> inv R' X' st.
  Proof.
    intros HR HX [h1 h2 h3 h4 h5 h6 h7 h8]. constructor; auto.
    - intros s t H Hn. apply h1; [exact H|]. intros Hin. apply Hn. now apply HR.
    - intros s t H Hn. destruct (h2 s t H) as [Hx|[Hx|Hv]].
      + intros Hin. apply Hn. now apply HR.
      + left. now apply HR.
      + right. left. auto.
      + right. right. exact Hv.
    - intros s1 s2 t H1 H2. rewrite <- !(kk_equiv R R') by exact HR. eapply h3; eassumption.
    - intros t v Hin. destruct (h6 t v Hin) as [e [He [Hk|Hr]]]; exists e; (split; [exact He|]); [now left|right; now apply HR].
    - intros s Hin. apply h8. now apply HR.
  Qed.

  Lemma unmapped_notin_R R X st s : inv R X st -> lookup s (trans st) = None -> ~ In s R.
  Proof. intros Hi Hn Hin. apply (inv_R _ _ _ Hi s Hin). exact Hn. Qed.

  Lemma kk_notin R s : ~ In s R -> kk R s = key src s.
  Proof. intros H. unfold kk. apply mem_false in H. now rewrite H. Qed.

  (* allocation of a fresh target for the reference r and the references of
     its chain that have no translation yet *)
  Lemma inv_alloc R X st r path k :
    inv R X st ->
    (forall p, In p (r :: path) -> key src p = k) -> In k (r :: path) ->
    lookup k (trans st) = None -> lookup r (trans st) = None ->
    let t := next st in
    let st1 := mkState (set_all path t ((r, t) :: trans st)) (t + 1)%N (puts st) in
    inv R (k :: X) st1 /\ st_le st st1 /\ lookup k (trans st1) = Some t /\ lookup r (trans st1) = Some t.
  Proof.
    intros Hi Hkey Hk Hnone Hrn t st1. pose proof Hi as [h1 h2 h3 h4 h5 h6 h7 h8].
    assert (Hl : forall s, lookup s (trans st1) =
              match lookup s (trans st) with Some x => Some x | None => if mem s (r :: path) then Some t else None end).
    { intros s. apply lookup_group. exact Hrn. }
    assert (Hle : tr_le (trans st) (trans st1)).
    { intros s t0 H. rewrite Hl, H. reflexivity. }
    assert (Hnew : forall s t0, lookup s (trans st) = None -> lookup s (trans st1) = Some t0 ->
              t0 = t /\ In s (r :: path) /\ ~ In s R).
    { intros s t0 Hn H. rewrite Hl, Hn in H. destruct (mem s (r :: path)) eqn:E; [|discriminate].
      injection H as <-. split; [reflexivity|split; [now apply mem_In|]]. eapply unmapped_notin_R; eassumption. }
    assert (Hkt : lookup k (trans st1) = Some t).
    { rewrite Hl, Hnone. apply mem_In in Hk. now rewrite Hk. }
    split; [|split; [|split]].
    - constructor.
      + intros s t0 H Hn. destruct (lookup s (trans st)) as [x|] eqn:E.
        * rewrite Hl, E in H. injection H as <-. apply Hle. now apply h1.
        * destruct (Hnew s t0 E H) as [-> [Hin _]]. now rewrite (Hkey s Hin).
      + intros s t0 H Hn. destruct (lookup s (trans st)) as [x|] eqn:E.
        * rewrite Hl, E in H. injection H as <-.
          destruct (h2 s x E Hn) as [Hx|[Hx|[v [Hp Hr]]]]; [now left|right; left; now right|].
          right. right. exists v. split; [exact Hp|]. eapply renamed_mono; eassumption.
        * destruct (Hnew s t0 E H) as [-> [Hin _]]. right. left. rewrite (Hkey s Hin). now left.
      + intros s1 s2 t0 H1 H2.
        destruct (lookup s1 (trans st)) as [x1|] eqn:E1; destruct (lookup s2 (trans st)) as [x2|] eqn:E2.
        * rewrite Hl, E1 in H1. rewrite Hl, E2 in H2. injection H1 as <-. injection H2 as <-. eapply h3; eassumption.
        * rewrite Hl, E1 in H1. injection H1 as <-. destruct (Hnew s2 _ E2 H2) as [-> _].
          apply h4 in E1. subst t. lia.
        * rewrite Hl, E2 in H2. injection H2 as <-. destruct (Hnew s1 _ E1 H1) as [-> _].
          apply h4 in E2. subst t. lia.
        * destruct (Hnew s1 _ E1 H1) as [_ [I1 N1]]. destruct (Hnew s2 _ E2 H2) as [_ [I2 N2]].
          rewrite !kk_notin by assumption. now rewrite (Hkey _ I1), (Hkey _ I2).
      + intros s t0 H. cbn [next st1]. destruct (lookup s (trans st)) as [x|] eqn:E.
        * rewrite Hl, E in H. injection H as <-. apply h4 in E. lia.
        * destruct (Hnew s t0 E H) as [-> _]. subst t. lia.
      + exact h5.
      + intros t0 v Hin. destruct (h6 t0 v Hin) as [e [He Hor]]. exists e. split; [now apply Hle|exact Hor].
      + intros s t0 Hin. cbn [trans st1] in Hin. apply In_set_all in Hin.
        destruct Hin as [[Hp [-> Hn]]|[[= <- <-]|Hin]].
        * cbn [lookup] in Hn. destruct (N.eqb r s) eqn:E; [discriminate|].
          rewrite Hl, Hn. assert (Hm : mem s (r :: path) = true) by (apply mem_In; now right). now rewrite Hm.
        * rewrite Hl, Hrn. assert (Hm : mem r (r :: path) = true) by (apply mem_In; now left). now rewrite Hm.
        * apply Hle. now apply h7.
      + intros s Hin. specialize (h8 s Hin). destruct (lookup s (trans st)) as [x|] eqn:E; [|contradiction].
        rewrite (Hle s x E). discriminate.
    - split; [exact Hle|]. cbn [next puts st1]. split; [subst t; lia|auto].
    - exact Hkt.
    - rewrite Hl, Hrn. assert (Hm : mem r (r :: path) = true) by (apply mem_In; now left). now rewrite Hm.
  Qed.

  (* a chain whose end already has a target: its references without a translation get that target *)
  Lemma inv_reuse R X st path e t :
    inv R X st ->
    (forall p, In p path -> key src p = e) -> In e path ->
    lookup e (trans st) = Some t ->
    let st1 := mkState (set_all path t (trans st)) (next st) (puts st) in
    inv R X st1 /\ st_le st st1.
  Proof.
    intros Hi Hkey He Ht st1. pose proof Hi as [h1 h2 h3 h4 h5 h6 h7 h8].
    assert (Hl : forall s, lookup s (trans st1) =
              match lookup s (trans st) with Some x => Some x | None => if mem s path then Some t else None end).
    { intros s. apply lookup_set_all. }
    assert (Hle : tr_le (trans st) (trans st1)).
    { intros s t0 H. rewrite Hl, H. reflexivity. }
    assert (Hnew : forall s t0, lookup s (trans st) = None -> lookup s (trans st1) = Some t0 ->
              t0 = t /\ In s path /\ ~ In s R).
    { intros s t0 Hn H. rewrite Hl, Hn in H. destruct (mem s path) eqn:E; [|discriminate].
      injection H as <-. split; [reflexivity|split; [now apply mem_In|]]. eapply unmapped_notin_R; eassumption. }
    assert (Hee : key src e = e) by (apply Hkey; exact He).
    assert (Hke : kk R e = e).
    { unfold kk. destruct (mem e R); [reflexivity|exact Hee]. }
    split.
    - constructor.
      + intros s t0 H Hn. destruct (lookup s (trans st)) as [x|] eqn:E.
        * rewrite Hl, E in H. injection H as <-. apply Hle. now apply h1.
        * destruct (Hnew s t0 E H) as [-> [Hin _]]. rewrite (Hkey s Hin). now apply Hle.
      + intros s t0 H Hn. destruct (lookup s (trans st)) as [x|] eqn:E.
        * rewrite Hl, E in H. injection H as <-.
          destruct (h2 s x E Hn) as [Hx|[Hx|[v [Hp Hr]]]]; [now left|right; now left|].
          right. right. exists v. split; [exact Hp|]. eapply renamed_mono; eassumption.
        * destruct (Hnew s t0 E H) as [-> [Hin _]]. rewrite (Hkey s Hin).
          destruct (in_dec N.eq_dec e R) as [HeR|HeR]; [now left|].
          destruct (h2 e t Ht HeR) as [Hx|[Hx|[v [Hp Hr]]]]; rewrite Hee in *; [now left|right; now left|].
          right. right. exists v. split; [exact Hp|]. eapply renamed_mono; eassumption.
      + intros s1 s2 t0 H1 H2.
        destruct (lookup s1 (trans st)) as [x1|] eqn:E1; destruct (lookup s2 (trans st)) as [x2|] eqn:E2.
        * rewrite Hl, E1 in H1. rewrite Hl, E2 in H2. injection H1 as <-. injection H2 as <-. eapply h3; eassumption.
        * rewrite Hl, E1 in H1. injection H1 as <-. destruct (Hnew s2 _ E2 H2) as [-> [I2 N2]].
          rewrite (kk_notin R s2 N2), (Hkey _ I2), <- Hke. eapply h3; eassumption.
        * rewrite Hl, E2 in H2. injection H2 as <-. destruct (Hnew s1 _ E1 H1) as [-> [I1 N1]].
          rewrite (kk_notin R s1 N1), (Hkey _ I1), <- Hke. eapply h3; eassumption.
        * destruct (Hnew s1 _ E1 H1) as [_ [I1 N1]]. destruct (Hnew s2 _ E2 H2) as [_ [I2 N2]].
          rewrite !kk_notin by assumption. now rewrite (Hkey _ I1), (Hkey _ I2).
      + intros s t0 H. cbn [next st1]. destruct (lookup s (trans st)) as [x|] eqn:E.
        * rewrite Hl, E in H. injection H as <-. eapply h4; eassumption.
        * destruct (Hnew s t0 E H) as [-> _]. eapply h4; eassumption.
      + exact h5.
      + intros t0 v Hin. destruct (h6 t0 v Hin) as [e0 [He0 Hor]]. exists e0. split; [now apply Hle|exact Hor].
      + intros s t0 Hin. cbn [trans st1] in Hin. apply In_set_all in Hin.
        destruct Hin as [[Hp [-> Hn]]|Hin].
        * rewrite Hl, Hn. apply mem_In in Hp. now rewrite Hp.
        * apply Hle. now apply h7.
      + intros s Hin. specialize (h8 s Hin). destruct (lookup s (trans st)) as [x|] eqn:E; [|contradiction].
        rewrite (Hle s x E). discriminate.
    - split; [exact Hle|]. cbn [next puts st1]. split; [lia|auto].
  Qed.

  (* Writer.Put of the copied object at the end of a chain *)
  Lemma inv_put R X st k t v' :
    inv R (k :: X) st -> key src k = k ->
    lookup k (trans st) = Some t -> has t (puts st) = false ->
    renamed src (trans st) (val src k) v' ->
    let st3 := mkState (trans st) (next st) ((t, v') :: puts st) in
    inv R X st3 /\ st_le st st3.
  Proof.
    intros [h1 h2 h3 h4 h5 h6 h7 h8] Hkk Hk Hhas Hren st3.
    apply has_false_iff in Hhas.
    assert (Hp : forall t0 v, lookup t0 (puts st) = Some v -> lookup t0 (puts st3) = Some v).
    { intros t0 v H. cbn [puts st3]. rewrite lookup_cons_neq; [assumption|].
      intros ->. apply Hhas. eapply lookup_has; eassumption. }
    split.
    - constructor; cbn [trans next puts st3].
      + exact h1.
      + intros s t0 H Hn. destruct (h2 s t0 H Hn) as [Hx|[[Hx|Hx]|[v [Hv Hr]]]].
        * now left.
        * right. right. apply (h1 _ _ H) in Hn. rewrite <- Hx in Hn. rewrite Hk in Hn. injection Hn as <-.
          exists v'. split; [apply lookup_cons_eq|]. rewrite <- Hx. exact Hren.
        * right. now left.
        * right. right. exists v. split; [now apply Hp|exact Hr].
      + exact h3.
      + exact h4.
      + constructor; assumption.
      + intros t0 v [[= <- <-]|Hin]; [exists k; split; [exact Hk|now left]|eapply h6; eassumption].
      + exact h7.
      + exact h8.
    - split; [apply tr_le_refl|]. split; [cbn [next st3]; lia|exact Hp].
  Qed.

  (* ---- the copier ------------------------------------------------------ *)

  Definition entry_rel (tr : tr_map) (e e' : name * obj) : Prop :=
    fst e = fst e' /\ renamed src tr (snd e) (snd e').

  Lemma entries_renamed tr d d' : Forall2 (entry_rel tr) d d' -> renamed_dict src tr d d'.
  Proof.
    induction 1 as [|[k a] [k' x] d d' [Hk Hr] _ IH]; [constructor|].
    cbn [fst snd] in *. subst. now constructor.
  Qed.

  Lemma list_renamed tr l l' : Forall2 (renamed src tr) l l' -> renamed_list src tr l l'.
  Proof. induction 1; constructor; auto. Qed.

  Definition copy_spec (R X : list ref) (cp : obj -> state -> res (obj * state)) : Prop :=
    forall o st o' st', cp o st = Ok (o', st') -> inv R X st ->
      inv R X st' /\ st_le st st' /\ renamed src (trans st') o o'.

  Lemma copy_list_spec R X cp l st l' st' :
    copy_spec R X cp -> mapM cp l st = Ok (l', st') -> inv R X st ->
    inv R X st' /\ st_le st st' /\ renamed_list src (trans st') l l'.
  Proof.
    intros Hcp Hm Hi.
    assert (Hq : forall s s' x y, st_le s s' -> renamed src (trans s) x y -> renamed src (trans s') x y).
    { intros s s' x y [Hle _] Hr. eapply renamed_mono; eassumption. }
    destruct (mapM_spec cp (inv R X) st_le (fun s x y => renamed src (trans s) x y)
                st_le_refl st_le_trans Hq l st l' st') as [H1 [H2 H3]].
    - intros x _ s y s1 Hf Hp. eapply Hcp; eassumption.
    - exact Hm.
    - exact Hi.
    - split; [assumption|split; [assumption|now apply list_renamed]].
  Qed.

  Lemma copy_dict_spec R X cp d st d' st' :
    copy_spec R X cp -> mapM (on_entry cp) d st = Ok (d', st') -> inv R X st ->
    inv R X st' /\ st_le st st' /\ renamed_dict src (trans st') d d'.
  Proof.
    intros Hcp Hm Hi.
    assert (Hq : forall s s' x y, st_le s s' -> entry_rel (trans s) x y -> entry_rel (trans s') x y).
    { intros s s' x y [Hle _] [Hk Hr]. split; [assumption|eapply renamed_mono; eassumption]. }
    destruct (mapM_spec (on_entry cp) (inv R X) st_le (fun s x y => entry_rel (trans s) x y)
                st_le_refl st_le_trans Hq d st d' st') as [H1 [H2 H3]]; [|exact Hm|exact Hi|].
    - intros x _ s y s1 Hf Hp. unfold on_entry in Hf.
      destruct (cp (snd x) s) as [[v s2]|c] eqn:E; [|discriminate].
      injection Hf as <- <-.
      destruct (Hcp _ _ _ _ E Hp) as [Ha [Hb Hc]].
      split; [assumption|split; [assumption|]]. split; [reflexivity|exact Hc].
    - split; [assumption|split; [assumption|now apply entries_renamed]].
  Qed.

  Lemma fix_key_spec R X cp k d acc st acc' st' :
    copy_spec R X cp -> fix_key src cp k d (acc, st) = Ok (acc', st') -> inv R X st ->
    inv R X st' /\ st_le st st' /\ renamed_key src (trans st') k d acc acc'.
  Proof.
    intros Hcp Hf Hi. unfold fix_key in Hf. cbn [fst snd] in Hf.
    destruct (dlookup k d) as [v|] eqn:El.
    - destruct (inline src v) as [i|c] eqn:Ei; [|discriminate].
      destruct (cp i st) as [[i' st2]|c] eqn:Ec; [|discriminate].
      injection Hf as <- <-.
      destruct (Hcp _ _ _ _ Ec Hi) as [Ha [Hb Hc]].
      split; [assumption|split; [assumption|]]. econstructor; eassumption.
    - injection Hf as <- <-. split; [assumption|split; [apply st_le_refl|now constructor]].
  Qed.

  Lemma renamed_key_mono tr tr' k d acc acc' :
    tr_le tr tr' -> renamed_key src tr k d acc acc' -> renamed_key src tr' k d acc acc'.
  Proof. intros Hle. apply (proj2 (proj2 (proj2 (renamed_mono_all src tr tr' Hle)))). Qed.

  Lemma renamed_dict_mono tr tr' d d' :
    tr_le tr tr' -> renamed_dict src tr d d' -> renamed_dict src tr' d d'.
  Proof. intros Hle. apply (proj1 (proj2 (proj2 (renamed_mono_all src tr tr' Hle)))). Qed.

  Lemma copy_obj_spec : forall fuel R X, copy_spec R X (copy_obj src fuel).
  Proof.
    induction fuel as [|f IH]; intros R X o st o' st' H Hi; [discriminate|].
    cbn [copy_obj] in H. destruct o as [| kd vv | l | d | r | d data].
    - injection H as <- <-. split; [assumption|split; [apply st_le_refl|constructor]].
    - injection H as <- <-. split; [assumption|split; [apply st_le_refl|constructor]].
    - destruct (mapM (copy_obj src f) l st) as [[l' st1]|c] eqn:E; [|discriminate].
      injection H as <- <-.
      destruct (copy_list_spec R X _ _ _ _ _ (IH R X) E Hi) as [Ha [Hb Hc]].
      split; [assumption|split; [assumption|now constructor]].
    - destruct (mapM (on_entry (copy_obj src f)) d st) as [[d' st1]|c] eqn:E; [|discriminate].
      injection H as <- <-.
      destruct (copy_dict_spec R X _ _ _ _ _ (IH R X) E Hi) as [Ha [Hb Hc]].
      split; [assumption|split; [assumption|now constructor]].
    - (* CopyReference *)
      destruct (lookup r (trans st)) as [t|] eqn:Er.
      { injection H as <- <-. split; [assumption|split; [apply st_le_refl|now constructor]]. }
      destruct (resolve_path src r) as [[v path]|c] eqn:Ep.
      + (* the chain resolves *)
        destruct (resolve_nonempty _ _ _ _ Ep) as [e [rest [-> [Hge Hnr]]]].
        pose proof (resolve_members _ _ _ _ _ Ep) as Hm.
        pose proof (resolve_has_r _ _ _ _ Ep) as Hr.
        assert (Hkeys : forall p, In p (e :: rest) -> key src p = e) by (intros p Hp; apply (Hm p Hp)).
        assert (Hee : key src e = e) by (apply Hkeys; now left).
        assert (Hve : val src e = v) by (apply (Hm e); now left).
        destruct (lookup e (trans st)) as [t|] eqn:Ee.
        * injection H as <- <-.
          destruct (inv_reuse R X st (e :: rest) e t Hi Hkeys (or_introl eq_refl) Ee) as [Ha Hb].
          split; [exact Ha|split; [exact Hb|]]. constructor.
          exact (lookup_set_all_in (e :: rest) t (trans st) r Hr Er).
        * destruct (alloc_ok st); [|discriminate].
          destruct (inv_alloc R X st r (e :: rest) e Hi) as [Ha [Hb [Hc Hcr]]].
          { intros p [<-|Hp]; [apply (Hm r Hr)|now apply Hkeys]. }
          { right. now left. }
          { exact Ee. }
          { exact Er. }
          set (st1 := mkState (set_all (e :: rest) (next st) ((r, next st) :: trans st)) (next st + 1)%N (puts st)) in *.
          destruct (copy_obj src f v st1) as [[v' st2]|c] eqn:Ec; [|discriminate].
          destruct (IH R (e :: X) _ _ _ _ Ec Ha) as [Ha2 [Hb2 Hc2]].
          destruct (has (next st) (puts st2)) eqn:Eh; [discriminate|].
          injection H as <- <-.
          assert (Hk2 : lookup e (trans st2) = Some (next st)) by (apply Hb2; exact Hc).
          destruct (inv_put R X st2 e (next st) v' Ha2 Hee Hk2 Eh) as [Ha3 Hb3].
          { rewrite Hve. exact Hc2. }
          split; [exact Ha3|]. split; [eapply st_le_trans; [exact Hb|eapply st_le_trans; eassumption]|].
          constructor. cbn [trans]. apply Hb2. exact Hcr.
      + (* broken, cyclic or too deep: the reference itself copies as null *)
        assert (Hkr : key src r = r) by (unfold key; now rewrite Ep).
        assert (Hvr : val src r = ONull) by (unfold val; now rewrite Ep).
        cbn [lookup] in H.
        destruct (alloc_ok st); [|discriminate].
        destruct (inv_alloc R X st r [] r Hi) as [Ha [Hb [Hc _]]].
        { intros p [<-|[]]. exact Hkr. }
        { now left. }
        { exact Er. }
        { exact Er. }
        cbn [set_all fold_right] in *.
        set (st1 := mkState ((r, next st) :: trans st) (next st + 1)%N (puts st)) in *.
        destruct (copy_obj src f ONull st1) as [[v' st2]|c'] eqn:Ec; [|discriminate].
        destruct (IH R (r :: X) _ _ _ _ Ec Ha) as [Ha2 [Hb2 Hc2]].
        destruct (has (next st) (puts st2)) eqn:Eh; [discriminate|].
        injection H as <- <-.
        assert (Hk2 : lookup r (trans st2) = Some (next st)) by (apply Hb2; exact Hc).
        destruct (inv_put R X st2 r (next st) v' Ha2 Hkr Hk2 Eh) as [Ha3 Hb3].
        { rewrite Hvr. exact Hc2. }
        split; [exact Ha3|]. split; [eapply st_le_trans; [exact Hb|eapply st_le_trans; eassumption]|].
        constructor. cbn [trans]. exact Hk2.
    - (* stream *)
      destruct (mapM (on_entry (copy_obj src f)) d st) as [[d1 st1]|c] eqn:E1; [|discriminate].
      destruct (fix_key src (copy_obj src f) K_Filter d (d1, st1)) as [[d2 st2]|c] eqn:E2; [|discriminate].
      destruct (fix_key src (copy_obj src f) K_DecodeParms d (d2, st2)) as [[d3 st3]|c] eqn:E3; [|discriminate].
      injection H as <- <-.
      destruct (copy_dict_spec R X _ _ _ _ _ (IH R X) E1 Hi) as [Ha1 [Hb1 Hc1]].
      destruct (fix_key_spec R X _ _ _ _ _ _ _ (IH R X) E2 Ha1) as [Ha2 [Hb2 Hc2]].
      destruct (fix_key_spec R X _ _ _ _ _ _ _ (IH R X) E3 Ha2) as [Ha3 [Hb3 Hc3]].
      split; [exact Ha3|]. split; [eapply st_le_trans; [exact Hb1|eapply st_le_trans; eassumption]|].
      econstructor.
      + eapply renamed_dict_mono; [|exact Hc1]. eapply tr_le_trans; [apply Hb2|apply Hb3].
      + eapply renamed_key_mono; [|exact Hc2]. apply Hb3.
      + exact Hc3.
  Qed.

  (* ---- call sequences --------------------------------------------------- *)

  Lemma inv_init n0 : inv [] [] (init n0).
  Proof.
    constructor; cbn [init trans puts next lookup map]; try discriminate.
    - constructor.
    - intros t v [].
    - intros s t [].
    - intros s [].
  Qed.

  Lemma kk_cons_neq R s x : x <> s -> kk (s :: R) x = kk R x.
  Proof.
    intros Hne. unfold kk, mem. cbn [existsb].
    destruct (N.eqb x s) eqn:E; [apply N.eqb_eq in E; contradiction|reflexivity].
  Qed.

  Lemma inv_redirect R st s m :
    inv R [] st -> lookup s (trans st) = None -> has (next st) (puts st) = false ->
    let t := next st in
    let st1 := mkState ((s, t) :: trans st) (t + 1)%N ((t, m) :: puts st) in
    inv (s :: R) [] st1 /\ st_le st st1.
  Proof.
    intros [h1 h2 h3 h4 h5 h6 h7 h8] Hn Hh t st1. apply has_false_iff in Hh.
    assert (Hl : forall x, lookup x (trans st1) = if N.eqb s x then Some t else lookup x (trans st)) by reflexivity.
    assert (Hle : tr_le (trans st) (trans st1)).
    { intros x t0 H. rewrite Hl. destruct (N.eqb s x) eqn:E; [|exact H]. apply N.eqb_eq in E. subst. congruence. }
    assert (Hold : forall x t0, x <> s -> lookup x (trans st1) = Some t0 -> lookup x (trans st) = Some t0).
    { intros x t0 Hne H. rewrite Hl in H. destruct (N.eqb s x) eqn:E; [apply N.eqb_eq in E; congruence|exact H]. }
    assert (Hp : forall t0 v, lookup t0 (puts st) = Some v -> lookup t0 (puts st1) = Some v).
    { intros t0 v H. cbn [puts st1]. rewrite lookup_cons_neq; [assumption|].
      intros E. apply Hh. subst t. rewrite E. eapply lookup_has; eassumption. }
    assert (Hst : forall x t0, lookup x (trans st1) = Some t0 -> x = s /\ t0 = t \/ x <> s /\ lookup x (trans st) = Some t0).
    { intros x t0 H. destruct (N.eq_dec x s) as [->|Hne].
      - left. rewrite Hl, N.eqb_refl in H. injection H as <-. auto.
      - right. split; [exact Hne|now apply Hold]. }
    split.
    - constructor.
      + intros x t0 H Hnin. assert (Hxs : x <> s) by (intros ->; apply Hnin; now left).
        apply Hle. apply h1; [now apply Hold|]. intros Hin. apply Hnin. now right.
      + intros x t0 H Hnin. assert (Hxs : x <> s) by (intros ->; apply Hnin; now left).
        destruct (h2 x t0 (Hold _ _ Hxs H)) as [Hx|[[]|[v [Hv Hr]]]].
        * intros Hin. apply Hnin. now right.
        * left. now right.
        * right. right. exists v. split; [now apply Hp|]. eapply renamed_mono; eassumption.
      + intros s1 s2 t0 H1 H2.
        destruct (Hst _ _ H1) as [[-> ->]|[N1 O1]]; destruct (Hst _ _ H2) as [[-> E2]|[N2 O2]].
        * reflexivity.
        * apply h4 in O2. subst t. lia.
        * subst t0. apply h4 in O1. subst t. lia.
        * rewrite !kk_cons_neq by assumption. eapply h3; eassumption.
      + intros x t0 H. cbn [next st1]. destruct (Hst _ _ H) as [[-> ->]|[_ O]]; [subst t; lia|]. apply h4 in O. lia.
      + cbn [puts st1 map fst]. constructor; assumption.
      + intros t0 v [[= <- <-]|Hin].
        * exists s. split; [rewrite Hl; now rewrite N.eqb_refl|right; now left].
        * destruct (h6 t0 v Hin) as [e [He Hor]]. exists e. split; [now apply Hle|].
          destruct Hor as [Hk|Hr]; [now left|right; now right].
      + intros x t0 [[= <- <-]|Hin]; [rewrite Hl; now rewrite N.eqb_refl|]. apply Hle. now apply h7.
      + intros x [<-|Hin]; [rewrite Hl, N.eqb_refl; discriminate|].
        specialize (h8 x Hin). destruct (lookup x (trans st)) as [y|] eqn:E; [|contradiction].
        rewrite (Hle x y E). discriminate.
    - split; [exact Hle|]. cbn [next puts st1]. split; [subst t; lia|exact Hp].
  Qed.

  Lemma run_calls_cons fuel c cs st results st' :
    run_calls src fuel (c :: cs) st = Ok (results, st') ->
    exists r st1 rs, run_call src fuel c st = Ok (r, st1) /\ run_calls src fuel cs st1 = Ok (rs, st') /\ results = r :: rs.
  Proof.
    unfold run_calls. cbn [mapM].
    destruct (run_call src fuel c st) as [[r st1]|e]; [|discriminate].
    destruct (mapM (run_call src fuel) cs st1) as [[rs st2]|e] eqn:E2; [|discriminate].
    intros [= <- <-]. exists r, st1, rs. split; [reflexivity|split; [exact E2|reflexivity]].
  Qed.

  Lemma redirects_fresh_tail fuel c cs st r st1 :
    redirects_fresh src fuel (c :: cs) st -> run_call src fuel c st = Ok (r, st1) ->
    redirects_fresh src fuel cs st1.
  Proof.
    intros H Hc cs1 s m cs2 -> res st2 Hr.
    apply (H (c :: cs1) s m cs2 eq_refl (r :: res) st2).
    unfold run_calls in *. cbn [mapM]. rewrite Hc, Hr. reflexivity.
  Qed.

  Lemma call_result_mono tr tr' c r : tr_le tr tr' -> call_result_ok src tr c r -> call_result_ok src tr' c r.
  Proof.
    intros Hle. destruct c; cbn [call_result_ok]; try (apply renamed_mono; assumption).
    intros [t [-> Hl]]. exists t. split; [reflexivity|now apply Hle].
  Qed.

  Lemma run_calls_spec fuel : forall cs R st results st',
    run_calls src fuel cs st = Ok (results, st') -> inv R [] st -> redirects_fresh src fuel cs st ->
    inv (redirected cs ++ R) [] st' /\ st_le st st' /\ Forall2 (call_result_ok src (trans st')) cs results.
  Proof.
    induction cs as [|c cs IH]; intros R st results st' H Hi Hr.
    - injection H as <- <-. split; [exact Hi|split; [apply st_le_refl|constructor]].
    - destruct (run_calls_cons _ _ _ _ _ _ H) as [r [st1 [rs [Hc [Hcs ->]]]]].
      pose proof (redirects_fresh_tail _ _ _ _ _ _ Hr Hc) as Hr1.
      destruct c as [r0 | o | s m]; cbn [run_call] in Hc.
      + destruct (copy_obj_spec _ R [] _ _ _ _ Hc Hi) as [Ha [Hb Hcc]].
        destruct (IH R _ _ _ Hcs Ha Hr1) as [Ha2 [Hb2 Hc2]].
        cbn [redirected]. split; [exact Ha2|split; [eapply st_le_trans; eassumption|]].
        constructor; [|exact Hc2]. cbn [call_result_ok call_obj]. eapply renamed_mono; [apply Hb2|exact Hcc].
      + destruct (copy_obj_spec _ R [] _ _ _ _ Hc Hi) as [Ha [Hb Hcc]].
        destruct (IH R _ _ _ Hcs Ha Hr1) as [Ha2 [Hb2 Hc2]].
        cbn [redirected]. split; [exact Ha2|split; [eapply st_le_trans; eassumption|]].
        constructor; [|exact Hc2]. cbn [call_result_ok call_obj]. eapply renamed_mono; [apply Hb2|exact Hcc].
      + pose proof (Hr [] s m cs eq_refl [] st eq_refl) as Hf.
        destruct (alloc_ok st); [|discriminate].
        destruct (has (next st) (puts st)) eqn:Eh; [discriminate|].
        injection Hc as <- <-.
        destruct (inv_redirect R st s m Hi Hf Eh) as [Ha Hb].
        destruct (IH (s :: R) _ _ _ Hcs Ha Hr1) as [Ha2 [Hb2 Hc2]].
        cbn [redirected]. split.
        * eapply inv_equiv; [|apply incl_refl|exact Ha2]. intros x. split; intros Hx.
          -- apply in_app_or in Hx. destruct Hx as [Hx|[<-|Hx]]; [right; apply in_or_app; now left|now left|right; apply in_or_app; now right].
          -- destruct Hx as [<-|Hx]; [apply in_or_app; right; now left|].
             apply in_app_or in Hx. apply in_or_app. destruct Hx as [Hx|Hx]; [now left|right; now right].
        * split; [eapply st_le_trans; eassumption|]. constructor; [|exact Hc2].
          cbn [call_result_ok]. exists (next st). split; [reflexivity|]. apply Hb2. cbn [trans]. apply lookup_cons_eq.
  Qed.

  (* one call *)
  Lemma run_call_spec fuel c R st r st1 :
    run_call src fuel c st = Ok (r, st1) -> inv R [] st ->
    (forall s m, c = CRedirect s m -> lookup s (trans st) = None) ->
    inv (redirected [c] ++ R) [] st1 /\ st_le st st1 /\ call_result_ok src (trans st1) c r.
  Proof.
    intros Hc Hi Hf.
    assert (Hrun : run_calls src fuel [c] st = Ok ([r], st1)).
    { unfold run_calls. cbn [mapM]. now rewrite Hc. }
    assert (Hfr : redirects_fresh src fuel [c] st).
    { intros cs1 s m cs2 E res st2 Hr. destruct cs1 as [|c1 cs1].
      - injection E as -> _. injection Hr as _ <-. eapply Hf. reflexivity.
      - injection E as _ E. destruct cs1; discriminate. }
    destruct (run_calls_spec fuel [c] R _ _ _ Hrun Hi Hfr) as [Ha [Hb Hcc]].
    split; [exact Ha|split; [exact Hb|]]. inversion Hcc; subst. assumption.
  Qed.

  Lemma run_calls_app fuel : forall cs1 cs2 st results st',
    run_calls src fuel (cs1 ++ cs2) st = Ok (results, st') ->
    exists r1 st1 r2, run_calls src fuel cs1 st = Ok (r1, st1) /\ run_calls src fuel cs2 st1 = Ok (r2, st').
  Proof.
    induction cs1 as [|c cs1 IH]; intros cs2 st results st' H.
    - exists [], st, results. split; [reflexivity|exact H].
    - cbn [app] in H. destruct (run_calls_cons _ _ _ _ _ _ H) as [r [st1 [rs [Hc [Hcs ->]]]]].
      destruct (IH _ _ _ _ Hcs) as [r1 [st2 [r2 [H1 H2]]]].
      exists (r :: r1), st2, r2. split; [|exact H2].
      unfold run_calls in *. cbn [mapM]. now rewrite Hc, H1.
  Qed.

  Lemma redirects_fresh_app fuel : forall cs1 cs2 st r1 st1,
    redirects_fresh src fuel (cs1 ++ cs2) st -> run_calls src fuel cs1 st = Ok (r1, st1) ->
    redirects_fresh src fuel cs1 st /\ redirects_fresh src fuel cs2 st1.
  Proof.
    induction cs1 as [|c cs1 IH]; intros cs2 st r1 st1 H Hr.
    - injection Hr as <- <-. split; [|exact H]. intros cs1 s m cs3 E. destruct cs1; discriminate.
    - destruct (run_calls_cons _ _ _ _ _ _ Hr) as [r [st2 [rs [Hc [Hcs ->]]]]].
      pose proof (redirects_fresh_tail _ _ _ _ _ _ H Hc) as Ht.
      destruct (IH _ _ _ _ Ht Hcs) as [Ha Hb]. split; [|exact Hb].
      intros cs3 s m cs4 E. apply (H cs3 s m (cs4 ++ cs2)). rewrite E. rewrite <- app_assoc. reflexivity.
  Qed.
End Inv.

(* ---- the theorems -------------------------------------------------------- *)

Lemma copy_iso : copy_iso_stmt.
Proof.
  intros src fuel cs next0 results st H Hr.
  destruct (run_calls_spec src fuel cs [] _ _ _ H (inv_init src next0) Hr) as [[h1 h2 h3 h4 h5 h6 h7 h8] [_ Hc]].
  rewrite app_nil_r in *. split; [|split; [|split; [|exact Hc]]].
  - intros s t Hl Hn. split; [now apply h1|]. destruct (h2 s t Hl Hn) as [Hx|[[]|Hv]]; [now left|now right].
  - intros s1 s2 t H1 H2 N1 N2. pose proof (h3 s1 s2 t H1 H2) as E.
    now rewrite !kk_notin in E by assumption.
  - intros s s2 t Hin H1 H2. pose proof (h3 s2 s t H2 H1) as E.
    assert (Hks : kk src (redirected cs) s = s) by (unfold kk; apply mem_In in Hin; now rewrite Hin).
    rewrite Hks in E. unfold kk in E. destruct (mem s2 (redirected cs)) eqn:Em; [now left|].
    right. split; [now apply mem_false|exact E].
Qed.

Lemma copy_once : copy_once_stmt.
Proof.
  intros src fuel cs next0 results st H Hr.
  destruct (run_calls_spec src fuel cs [] _ _ _ H (inv_init src next0) Hr) as [[h1 h2 h3 h4 h5 h6 h7 h8] [_ Hc]].
  rewrite app_nil_r in *.
  split; [exact h5|]. split; [exact h6|]. split.
  - intros cs1 cs2 res1 st1 -> H1.
    destruct (run_calls_app src fuel _ _ _ _ _ H) as [r1 [st1' [r2 [Ha Hb]]]].
    rewrite H1 in Ha. injection Ha as <- <-.
    destruct (redirects_fresh_app src fuel _ _ _ _ _ Hr H1) as [Hr1 Hr2].
    destruct (run_calls_spec src fuel cs1 [] _ _ _ H1 (inv_init src next0) Hr1) as [Hi1 _].
    destruct (run_calls_spec src fuel cs2 _ _ _ _ Hb Hi1 Hr2) as [_ [[Hle _] _]]. exact Hle.
  - intros r t fuel' Hl. cbn [copy_obj]. now rewrite Hl.
Qed.

Lemma Forall2_nth_error {A B} (R : A -> B -> Prop) l l' : Forall2 R l l' ->
  forall i a b, nth_error l i = Some a -> nth_error l' i = Some b -> R a b.
Proof.
  induction 1 as [|x y l l' Hxy _ IH]; intros [|i] a b; cbn [nth_error]; try discriminate.
  - intros [= <-] [= <-]. exact Hxy.
  - apply IH.
Qed.

Lemma copy_again : copy_again_stmt.
Proof.
  intros src fuel cs next0 Hr results st r i j t1 t2 H Hi Hj Ri Rj.
  destruct (run_calls_spec src fuel cs [] _ _ _ H (inv_init src next0) Hr) as [_ [_ Hc]].
  pose proof (Forall2_nth_error _ _ _ Hc i _ _ Hi Ri) as H1.
  pose proof (Forall2_nth_error _ _ _ Hc j _ _ Hj Rj) as H2.
  cbn [call_result_ok call_obj] in H1, H2. inversion H1; subst. inversion H2; subst. congruence.
Qed.
