(* C11 - copy_stream_exempt / copy_stream_payload / copy_stream_bytes: a copied
   stream decodes in the target to what it decodes to in the source, for every
   combination of source cipher, /Crypt exemption and target cipher. *)
From Coq Require Import List NArith ZArith Bool Lia.
From GoPdf.Base Require Import Res.
From GoPdf.C11 Require Import Copier Checker Spec CopierLemmas CheckerProofs StreamCrypt.
Import ListNotations.

Lemma resolve_not_ref g o o' : resolve g o = Ok o' -> not_ref o'.
Proof.
  unfold resolve. destruct o; try (intros [= <-] r' Hr; discriminate).
  destruct (resolve_path g r) as [[v p]|c] eqn:E; [|discriminate]. intros [= <-].
  destruct (resolve_nonempty _ _ _ _ E) as [e [rest [_ [_ Hn]]]]. exact Hn.
Qed.

Lemma resolve_nonref_id g o : not_ref o -> resolve g o = Ok o.
Proof. destruct o; try reflexivity. intros H. exfalso. eapply H. reflexivity. Qed.

Lemma resolve_ns_resolve g o o' : resolve_ns g o = Ok o' -> resolve g o = Ok o' /\ is_stream o' = false.
Proof.
  unfold resolve_ns. destruct (resolve g o) as [x|c]; [|discriminate].
  destruct (is_stream x) eqn:E; [discriminate|]. intros [= <-]. auto.
Qed.

(* when GetFilters accepts the chain, the cheap probe agrees with it *)
Lemma probe_agrees g f b : head_is_crypt g f = Ok b -> starts_with_crypt g f = Ok b.
Proof.
  unfold head_is_crypt, starts_with_crypt. destruct (resolve g f) as [o|c]; [|discriminate].
  destruct o as [| k v | l | d | r | d n]; cbn [is_any_name is_name]; try discriminate.
  - intros [= <-]. reflexivity.
  - destruct (N.eqb k 3); [auto|discriminate].
  - destruct l as [|x l]; [auto|]. destruct (resolve g x) as [y|c]; [|discriminate].
    destruct (is_any_name y); [auto|discriminate].
Qed.

Lemma any_name_renamed g tr a x : renamed g tr a x -> is_any_name a = true -> x = a.
Proof. destruct 1; cbn [is_any_name]; try discriminate. reflexivity. Qed.

(* the inlined, renamed /Filter has the same head *)
Lemma head_inline g gt tr v i i' h :
  inline g v = Ok i -> renamed g tr i i' -> head_is_crypt g v = Ok h -> head_is_crypt gt i' = Ok h.
Proof.
  unfold inline. destruct (resolve_ns g v) as [o|c] eqn:E; [|discriminate].
  destruct (resolve_ns_resolve _ _ _ E) as [Er Es].
  unfold head_is_crypt at 1. rewrite Er.
  destruct o as [| k s | l | d | r | d n].
  - intros [= <-] Hr [= <-]. inversion Hr; subst. reflexivity.
  - intros [= <-] Hr Hh. cbn [is_any_name is_name] in Hh.
    destruct (is_any_name (OScalar k s)) eqn:Ea; cbn [is_any_name] in Ea; rewrite Ea in Hh; [|discriminate].
    rewrite (any_name_renamed _ _ _ _ Hr Ea). unfold head_is_crypt. cbn [resolve is_any_name is_name]. rewrite Ea. exact Hh.
  - destruct (mapR (resolve_ns g) l) as [l'|c] eqn:El; [|discriminate]. intros [= <-] Hr Hh.
    inversion Hr as [| |l0 l'' Hl| | |]; subst.
    destruct l as [|x l].
    + cbn [mapR] in El. injection El as <-. inversion Hl; subst. injection Hh as <-. reflexivity.
    + cbn [mapR] in El. destruct (resolve_ns g x) as [y|c] eqn:Ex; [|discriminate].
      destruct (mapR (resolve_ns g) l) as [ys|c]; [|discriminate]. injection El as <-.
      destruct (resolve_ns_resolve _ _ _ Ex) as [Exr _]. rewrite Exr in Hh.
      destruct (is_any_name y) eqn:Ea; [|discriminate].
      inversion Hl as [|a0 y' l1 l2 Hy Hl']; subst.
      rewrite (any_name_renamed _ _ _ _ Hy Ea). unfold head_is_crypt. cbn [resolve].
      destruct y; try discriminate. cbn [resolve]. now rewrite Ea.
  - intros _ _ Hh. cbn [is_any_name] in Hh. discriminate.
  - intros _ _ Hh. cbn [is_any_name] in Hh. discriminate.
  - cbn [is_stream] in Es. discriminate.
Qed.

Lemma K_DP_neq_Filter : K_DecodeParms <> K_Filter.
Proof. discriminate. Qed.

(* copy_stream_exempt: the copied dictionary declares the exemption iff the source one does *)
Lemma copy_stream_exempt g gt tr d n d3 h :
  renamed g tr (OStream d n) (OStream d3 n) ->
  head_is_crypt g (dget K_Filter d) = Ok h ->
  head_is_crypt gt (dget K_Filter d3) = Ok h.
Proof.
  intros Hr Hh. inversion Hr as [| | | | |d0 n0 d1 d2 d3' H1 H2 H3]; subst.
  assert (H32 : dget K_Filter d3 = dget K_Filter d2).
  { inversion H3; subst; [reflexivity|]. apply dget_dset_neq. exact K_Filter_neq. }
  rewrite H32. inversion H2 as [k0 dd acc Hl|k0 dd acc v i i' Hl Hi Hri]; subst.
  - (* no /Filter *)
    pose proof (renamed_dict_get _ _ _ _ K_Filter H1) as Hg.
    unfold dget in Hh, Hg |- *. rewrite Hl in Hh, Hg.
    destruct (dlookup K_Filter d2) as [x|]; [|exact (eq_trans eq_refl Hh)].
    inversion Hg; subst. exact Hh.
  - rewrite dget_dset_eq. unfold dget in Hh. rewrite Hl in Hh. eapply head_inline; eassumption.
Qed.

Section Bytes.
  Variable key : Type.
  Variables enc dec : key -> ref -> list N -> list N.
  Hypothesis dec_enc : forall k r x, dec k r (enc k r x) = x.

  Lemma crypt_inactive (f : key -> ref -> list N -> list N) ek r x : crypt_with key f ek r false x = x.
  Proof. unfold crypt_with. destruct ek; reflexivity. Qed.

  (* what the copier hands to the Writer is what a reader of the source sees
     after decryption *)
  Lemma copy_data_payload g sk splain s d disk data p :
    copy_data key dec g sk splain s d disk = Ok data ->
    payload key dec g sk splain s d disk = Ok p ->
    data = p.
  Proof.
    unfold copy_data, payload, copier_decrypts, reader_decrypts, stream_recipe.
    destruct (cipher_active sk splain s).
    - destruct (head_is_crypt g (dget K_Filter d)) as [h|c] eqn:Eh; [|discriminate].
      rewrite (probe_agrees _ _ _ Eh). destruct h.
      + destruct (crypt_kind g d) as [[|]|c]; try discriminate. intros [= <-] [= <-]. reflexivity.
      + intros [= <-] [= <-]. reflexivity.
    - intros [= <-] [= <-]. reflexivity.
  Qed.

  (* ... and a reader of the target gets it back, whatever the two ciphers, the
     references exempt by identity in either file, the look of the dictionary
     and the target version *)
  Lemma copy_stream_payload g gt tr sk tk splain tplain ver s t d n d3 disk data disk' p h :
    renamed g tr (OStream d n) (OStream d3 n) ->
    head_is_crypt g (dget K_Filter d) = Ok h ->
    copy_data key dec g sk splain s d disk = Ok data ->
    write_data key enc ver tk tplain gt t d3 data = Ok disk' ->
    payload key dec g sk splain s d disk = Ok p ->
    payload key dec gt tk tplain t d3 disk' = Ok p.
  Proof.
    intros Hr Hh Hc Hw Hp. rewrite (copy_data_payload _ _ _ _ _ _ _ _ Hc Hp) in *. clear Hc Hp data.
    pose proof (copy_stream_exempt g gt tr d n d3 h Hr Hh) as Ht.
    unfold write_data, writer_encrypts in Hw. unfold payload, reader_decrypts.
    rewrite (probe_agrees _ _ _ Ht) in Hw.
    assert (Hb : exists b, disk' = crypt_with key enc tk t b p /\ b = (if h then false else cipher_active tk tplain t)).
    { destruct h.
      - destruct (declared_kind gt d3) as [[|]|c]; try discriminate. injection Hw as <-. eauto.
      - injection Hw as <-. eauto. }
    destruct Hb as [b [-> ->]]. rewrite Ht.
    destruct (cipher_active tk tplain t); [|destruct h; now rewrite !crypt_inactive].
    destruct h; cbn [negb]; [now rewrite !crypt_inactive|].
    destruct tk as [k|]; cbn [crypt_with]; [now rewrite dec_enc|reflexivity].
  Qed.

  (* the remaining filters: a function of the (inlined) /Filter and /DecodeParms
     that does not depend on object numbers *)
  Variable unfilter : obj -> obj -> list N -> list N.
  Hypothesis unfilter_renamed : forall g tr f f' q q' x,
    renamed g tr f f' -> renamed g tr q q' -> unfilter f' q' x = unfilter f q x.

  Definition decoded_src (g : source) (sk : option key) (splain : list ref) (s : ref) (d : dict) (disk : list N) : res (list N) :=
    match payload key dec g sk splain s d disk with
    | Err c => Err c
    | Ok p => Ok (unfilter (dget K_Filter (inline_dict g d)) (dget K_DecodeParms (inline_dict g d)) p)
    end.

  (* the target dictionary holds /Filter and /DecodeParms directly *)
  Definition decoded_tgt (g : source) (tk : option key) (tplain : list ref) (t : ref) (d : dict) (disk : list N) : res (list N) :=
    match payload key dec g tk tplain t d disk with
    | Err c => Err c
    | Ok p => Ok (unfilter (dget K_Filter d) (dget K_DecodeParms d) p)
    end.

  Theorem copy_stream_bytes g gt tr sk tk splain tplain ver s t d n d3 disk data disk' x h :
    renamed g tr (OStream d n) (OStream d3 n) ->
    head_is_crypt g (dget K_Filter d) = Ok h ->
    copy_data key dec g sk splain s d disk = Ok data ->
    write_data key enc ver tk tplain gt t d3 data = Ok disk' ->
    decoded_src g sk splain s d disk = Ok x ->
    decoded_tgt gt tk tplain t d3 disk' = Ok x.
  Proof.
    intros Hr Hh Hc Hw Hx. unfold decoded_src in Hx.
    destruct (payload key dec g sk splain s d disk) as [p|c] eqn:Ep; [|discriminate]. injection Hx as <-.
    unfold decoded_tgt. rewrite (copy_stream_payload _ _ _ _ _ _ _ _ _ _ _ _ _ _ _ _ _ _ Hr Hh Hc Hw Ep).
    f_equal. inversion Hr as [| | | | |d0 n0 d1 d2 d3' H1 H2 H3]; subst.
    apply (unfilter_renamed g tr); eapply renamed_stream_get; eassumption.
  Qed.

  (* a copied value does not depend on what the copier does afterwards: the data
     handed over is a function of the source file alone *)
  Lemma copy_data_source_only g sk splain s d disk : forall a b,
    copy_data key dec g sk splain s d disk = Ok a -> copy_data key dec g sk splain s d disk = Ok b -> a = b.
  Proof. intros a b Ha Hb. rewrite Ha in Hb. now injection Hb. Qed.
End Bytes.
