(* C11 - the model copier's output passes the checker's conditions
   (copy_iso_paths, statement in Spec.v). *)
From Coq Require Import List NArith ZArith Bool Lia.
From GoPdf.Base Require Import Res.
From GoPdf.C11 Require Import Copier Checker Spec CopierLemmas CopierProofs CheckerProofs.
Import ListNotations.

Definition wfd (d : dict) : bool := forallb (fun e => wf_obj (snd e)) d.

Lemma wfd_dset k v d : wfd d = true -> wf_obj v = true -> wfd (dset k v d) = true.
Proof.
  unfold wfd. induction d as [|[k' x] d IH]; cbn [dset forallb snd].
  - intros _ ->. reflexivity.
  - rewrite andb_true_iff. intros [H1 H2] Hv. destruct (name_eqb k' k); cbn [forallb snd].
    + now rewrite Hv, H2.
    + rewrite H1. now apply IH.
Qed.

Lemma wfd_lookup k d v : wfd d = true -> dlookup k d = Some v -> wf_obj v = true.
Proof.
  intros Hd Hl. pose proof (wf_dget k d Hd) as H. unfold dget in H. now rewrite Hl in H.
Qed.

Section RenamedWf.
  Variable src : source.
  Hypothesis Hsrc : forall r o, In (r, Good o) src -> wf_obj o = true.
  Variable tr : tr_map.

  Lemma renamed_wf_all :
    (forall a x, renamed src tr a x -> wf_obj a = true -> wf_obj x = true) /\
    (forall l l', renamed_list src tr l l' -> forallb wf_obj l = true -> forallb wf_obj l' = true) /\
    (forall d d', renamed_dict src tr d d' -> wfd d = true -> wfd d' = true) /\
    (forall k d acc acc', renamed_key src tr k d acc acc' -> wfd d = true -> wfd acc = true -> wfd acc' = true).
  Proof.
    apply renamed_mutind; intros; try reflexivity; try assumption.
    - (* array *) cbn [wf_obj] in *. auto.
    - (* dict *) cbn [wf_obj] in *. apply andb_true_iff in H0. destruct H0 as [H1 H2].
      apply andb_true_iff. split; [|now apply H].
      rewrite <- (renamed_dict_keys _ _ _ _ r). exact H1.
    - (* stream *) cbn [wf_obj] in *. apply andb_true_iff in H2. destruct H2 as [Hk Hd].
      apply andb_true_iff. split.
      + rewrite (renamed_stream_keys _ _ _ _ _ _ r r0 r1). exact Hk.
      + apply H1; [exact Hd|]. apply H0; [exact Hd|]. now apply H.
    - (* list cons *) cbn [forallb] in *. apply andb_true_iff in H1. destruct H1 as [H1 H2].
      rewrite (H H1). now apply H0.
    - (* dict cons *) unfold wfd in *. cbn [forallb snd] in *. apply andb_true_iff in H1. destruct H1 as [H1 H2].
      rewrite (H H1). now apply H0.
    - (* key present *) apply wfd_dset; [assumption|]. apply H.
      eapply inline_wf; [exact Hsrc|eassumption|]. eapply wfd_lookup; [|eassumption]. assumption.
  Qed.

  Lemma renamed_wf a x : renamed src tr a x -> wf_obj a = true -> wf_obj x = true.
  Proof. apply (proj1 renamed_wf_all). Qed.
End RenamedWf.

Lemma In_lookup_nodup {A} t (v : A) l : NoDup (map fst l) -> In (t, v) l -> lookup t l = Some v.
Proof.
  induction l as [|[k x] l IH]; cbn [map fst In lookup]; [intros _ []|].
  intros Hn [[= -> ->]|Hin]; [now rewrite N.eqb_refl|].
  inversion Hn; subst. destruct (N.eqb k t) eqn:E.
  - apply N.eqb_eq in E. subst. exfalso. apply H1. change t with (fst (t, v)). now apply in_map.
  - now apply IH.
Qed.

Lemma redirected_nil_cons c cs : redirected (c :: cs) = [] -> redirected cs = [] /\ (forall s m, c <> CRedirect s m).
Proof. destruct c; cbn [redirected]; try discriminate; intros H; split; try assumption; intros s' m' E; discriminate. Qed.

Lemma no_redirects_fresh src fuel cs st : redirected cs = [] -> redirects_fresh src fuel cs st.
Proof.
  intros H cs1 s m cs2 ->. exfalso. induction cs1 as [|c cs1 IH]; cbn [app] in H.
  - discriminate.
  - apply redirected_nil_cons in H. destruct H as [H _]. auto.
Qed.

Lemma copy_iso_paths : copy_iso_paths_stmt.
Proof.
  intros src fuel cs next0 results st H Hred Hsrc Hcs.
  pose proof (no_redirects_fresh src fuel cs (init next0) Hred) as Hr.
  destruct (run_calls_spec src fuel cs [] _ _ _ H (inv_init src next0) Hr) as [Hi [_ Hc]].
  rewrite Hred in Hi. cbn [app] in Hi. destruct Hi as [h1 h2 h3 h4 h5 h6 h7 h8].
  assert (Hent : forall s t, lookup s (trans st) = Some t ->
            exists v, lookup t (puts st) = Some v /\ renamed src (trans st) (val src (key src s)) v).
  { intros s t Hl. destruct (h2 s t Hl (fun f => f)) as [[]|[[]|Hv]]. exact Hv. }
  assert (Hli : local_iso src (puts st) (trans st)).
  { constructor.
    - intros s t Hin. apply h7 in Hin. split; [apply h1; [exact Hin|intros []]|].
      destruct (Hent s t Hin) as [v [Hv Hrn]]. exists v. split; [exact Hrn|].
      unfold tget. now rewrite Hv.
    - intros s1 s2 t H1 H2. apply h7 in H1, H2. pose proof (h3 s1 s2 t H1 H2) as E.
      now rewrite !kk_notin in E by (intros []).
    - exact Hsrc.
    - intros t o Hin. pose proof (In_lookup_nodup _ _ _ h5 Hin) as Hl.
      destruct (h6 t o Hin) as [e [He _]]. destruct (Hent e t He) as [v [Hv Hrn]].
      rewrite Hl in Hv. injection Hv as <-.
      eapply renamed_wf; [exact Hsrc|exact Hrn|]. now apply val_wf. }
  split; [exact Hli|].
  clear - Hc Hcs Hred Hsrc. revert Hcs Hred. induction Hc as [|c res cs results Hcr _ IH]; intros Hcs Hred; [constructor|].
  inversion Hcs; subst. apply redirected_nil_cons in Hred. destruct Hred as [Hred Hnr].
  constructor; [|now apply IH].
  assert (Hrn : renamed src (trans st) (call_obj c) res).
  { destruct c; try exact Hcr. exfalso. eapply Hnr. reflexivity. }
  split; [assumption|split].
  - eapply renamed_wf; [exact Hsrc|exact Hrn|assumption].
  - exists res. split; [exact Hrn|reflexivity].
Qed.
