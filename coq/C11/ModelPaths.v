(* C11 - the model copier's output passes the checker's conditions
   (copy_iso_paths, statement in Spec.v). *)
From Coq Require Import List NArith ZArith Bool Lia.
From GoPdf.Base Require Import Res.
From GoPdf.C11 Require Import Copier Checker Spec CopierLemmas CopierProofs CheckerProofs.
Import ListNotations.

Definition wfd (d : dict) : bool := forallb (fun e => wf_obj (snd e)) d.

Lemma wfd_dset k v d : wfd d = true -> wf_obj v = true -> wfd (dset k v d) = true.
Proof.
  unfold wfd. induction d as [|[k' x] d IH]; cbn [dset forallb snd].
  - intros _ ->. reflexivity.
  - rewrite andb_true_iff. intros [H1 H2] Hv. destruct (name_eqb k' k); cbn [forallb snd].
    + now rewrite Hv, H2.
    + rewrite H1. now apply IH.
Qed.

Lemma wfd_lookup k d v : wfd d = true -> dlookup k d = Some v -> wf_obj v = true.
Proof.
  intros Hd Hl. pose proof (wf_dget k d Hd) as H. unfold dget in H. now rewrite Hl in H.
Qed.

Section RenamedWf.
  Variable src : source.
  Hypothesis Hsrc : forall r o, In (r, Good o) src -> wf_obj o = true.
  Variable tr : tr_map.

  Lemma renamed_wf_all :
    (forall a x, renamed src tr a x -> wf_obj a = true -> wf_obj x = true) /\
    (forall l l', renamed_list src tr l l' -> forallb wf_obj l = true -> forallb wf_obj l' = true) /\
    (forall d d', renamed_dict src tr d d' -> wfd d = true -> wfd d' = true) /\
    (forall k d acc acc', renamed_key src tr k d acc acc' -> wfd d = true -> wfd acc = true -> wfd acc' = true).
  Proof.
    apply renamed_mutind; intros; try reflexivity; try assumption.
    - (* array *) cbn [wf_obj] in *. auto.
    - (* dict *) cbn [wf_obj] in *. apply andb_true_iff in H0. destruct H0 as [H1 H2].
      apply andb_true_iff. split; [|now apply H].
      rewrite <- (renamed_dict_keys _ _ _ _ r). exact H1.
    - (* stream *) cbn [wf_obj] in *. apply andb_true_iff in H2. destruct H2 as [Hk Hd].
      apply andb_true_iff. split.
      + rewrite (renamed_stream_keys _ _ _ _ _ _ r r0 r1). exact Hk.
      + apply H1; [exact Hd|]. apply H0; [exact Hd|]. now apply H.
    - (* list cons *) cbn [forallb] in *. apply andb_true_iff in H1. destruct H1 as [H1 H2].
      rewrite (H H1). now apply H0.
    - (* dict cons *) unfold wfd in *. cbn [forallb snd] in *. apply andb_true_iff in H1. destruct H1 as [H1 H2].
      rewrite (H H1). now apply H0.
    - (* key present *) apply wfd_dset; [assumption|]. apply H.
      eapply inline_wf; [exact Hsrc|eassumption|]. eapply wfd_lookup; [|eassumption]. assumption.
  Qed.

  Lemma renamed_wf a x : renamed src tr a x -> wf_obj a = true -> wf_obj x = true.
  Proof. apply (proj1 renamed_wf_all). Qed.
End RenamedWf.

(* ---- everything the copier writes is well-formed -------------------------------- *)

Section CopyWf.
  Variable src : source.
  Hypothesis Hsrc : forall r o, In (r, Good o) src -> wf_obj o = true.

  Definition pwf (st : state) : Prop := forall t v, In (t, v) (puts st) -> wf_obj v = true.

  Definition wf_spec (cp : obj -> state -> res (obj * state)) : Prop :=
    forall o st o' st', cp o st = Ok (o', st') -> wf_obj o = true -> pwf st -> pwf st' /\ wf_obj o' = true.

  Lemma wf_list cp l : wf_spec cp -> forall st l' st',
    mapM cp l st = Ok (l', st') -> forallb wf_obj l = true -> pwf st -> pwf st' /\ forallb wf_obj l' = true.
  Proof.
    intros Hcp. induction l as [|x l IH]; intros st l' st'; cbn [mapM forallb].
    - intros [= <- <-] _ Hp. split; [exact Hp|reflexivity].
    - destruct (cp x st) as [[y s1]|c] eqn:E1; [|discriminate].
      destruct (mapM cp l s1) as [[ys s2]|c] eqn:E2; [|discriminate].
      intros [= <- <-]. rewrite andb_true_iff. intros [H1 H2] Hp.
      destruct (Hcp _ _ _ _ E1 H1 Hp) as [Hp1 Hy]. destruct (IH _ _ _ E2 H2 Hp1) as [Hp2 Hys].
      split; [exact Hp2|]. cbn [forallb]. now rewrite Hy, Hys.
  Qed.

  Lemma wf_entries cp d : wf_spec cp -> forall st d' st',
    mapM (on_entry cp) d st = Ok (d', st') -> wfd d = true -> pwf st ->
    pwf st' /\ wfd d' = true /\ map fst d' = map fst d.
  Proof.
    intros Hcp. unfold wfd. induction d as [|[k x] d IH]; intros st d' st'; cbn [mapM forallb].
    - intros [= <- <-] _ Hp. split; [exact Hp|split; reflexivity].
    - unfold on_entry at 1. cbn [fst snd]. destruct (cp x st) as [[y s1]|c] eqn:E1; [|discriminate].
      destruct (mapM (on_entry cp) d s1) as [[ys s2]|c] eqn:E2; [|discriminate].
      intros [= <- <-]. rewrite andb_true_iff. intros [H1 H2] Hp.
      destruct (Hcp _ _ _ _ E1 H1 Hp) as [Hp1 Hy]. destruct (IH _ _ _ E2 H2 Hp1) as [Hp2 [Hys Hk]].
      split; [exact Hp2|]. cbn [forallb map fst snd]. rewrite Hy, Hys, Hk. split; reflexivity.
  Qed.

  Lemma wf_fix_key cp k d acc st acc' st' : wf_spec cp ->
    fix_key src cp k d (acc, st) = Ok (acc', st') -> wfd d = true -> wfd acc = true -> map fst acc = map fst d -> pwf st ->
    pwf st' /\ wfd acc' = true /\ map fst acc' = map fst d.
  Proof.
    intros Hcp. unfold fix_key. cbn [fst snd]. destruct (dlookup k d) as [v|] eqn:El.
    - destruct (inline src v) as [i|c] eqn:Ei; [|discriminate].
      destruct (cp i st) as [[i' s1]|c] eqn:Ec; [|discriminate].
      intros [= <- <-] Hd Ha Hk Hp.
      assert (Hi : wf_obj i = true) by (eapply inline_wf; [exact Hsrc|exact Ei|eapply wfd_lookup; [exact Hd|exact El]]).
      destruct (Hcp _ _ _ _ Ec Hi Hp) as [Hp1 Hi'].
      split; [exact Hp1|split; [now apply wfd_dset|]].
      rewrite dset_keys; [exact Hk|]. rewrite Hk. eapply dlookup_In; eassumption.
    - intros [= <- <-] _ Ha Hk Hp. auto.
  Qed.

  Lemma copy_wf : forall fuel, wf_spec (copy_obj src fuel).
  Proof.
    induction fuel as [|f IH]; intros o st o' st' H Hw Hp; [discriminate|].
    cbn [copy_obj] in H. destruct o as [| kd vv | l | d | r | d data].
    - injection H as <- <-. auto.
    - injection H as <- <-. auto.
    - destruct (mapM (copy_obj src f) l st) as [[l' s1]|c] eqn:E; [|discriminate]. injection H as <- <-.
      cbn [wf_obj] in *. eapply wf_list; eassumption.
    - destruct (mapM (on_entry (copy_obj src f)) d st) as [[d' s1]|c] eqn:E; [|discriminate]. injection H as <- <-.
      cbn [wf_obj] in *. apply andb_true_iff in Hw. destruct Hw as [Hk Hd].
      destruct (wf_entries _ _ IH _ _ _ E Hd Hp) as [Hp1 [Hd' Hk']].
      split; [exact Hp1|]. rewrite Hk', Hk. exact Hd'.
    - destruct (lookup r (trans st)); [injection H as <- <-; auto|].
      set (vp := match resolve_path src r with Ok vp => vp | Err _ => (ONull, []) end) in *.
      assert (Hv : wf_obj (fst vp) = true).
      { subst vp. destruct (resolve_path src r) as [[v path]|c] eqn:E; [|reflexivity]. cbn [fst].
        pose proof (val_wf src Hsrc r) as Hvw. unfold val in Hvw. now rewrite E in Hvw. }
      destruct vp as [v path]. cbn [fst] in Hv.
      destruct (match path with e :: _ => lookup e (trans st) | [] => None end); [injection H as <- <-; auto|].
      destruct (alloc_ok st); [|discriminate].
      match type of H with context [copy_obj src f v ?s1] => destruct (copy_obj src f v s1) as [[v' st2]|c] eqn:Ec; [|discriminate];
        assert (Hp1 : pwf s1) by exact Hp end.
      destruct (has (next st) (puts st2)); [discriminate|]. injection H as <- <-.
      destruct (IH _ _ _ _ Ec Hv Hp1) as [Hp2 Hv'].
      split; [|reflexivity]. intros t0 v0 [[= <- <-]|Hin]; [exact Hv'|eapply Hp2; eassumption].
    - destruct (mapM (on_entry (copy_obj src f)) d st) as [[d1 s1]|c] eqn:E1; [|discriminate].
      destruct (fix_key src (copy_obj src f) K_Filter d (d1, s1)) as [[d2 s2]|c] eqn:E2; [|discriminate].
      destruct (fix_key src (copy_obj src f) K_DecodeParms d (d2, s2)) as [[d3 s3]|c] eqn:E3; [|discriminate].
      injection H as <- <-. cbn [wf_obj] in *. apply andb_true_iff in Hw. destruct Hw as [Hk Hd].
      destruct (wf_entries _ _ IH _ _ _ E1 Hd Hp) as [Hp1 [Hd1 Hk1]].
      destruct (wf_fix_key _ _ _ _ _ _ _ IH E2 Hd Hd1 Hk1 Hp1) as [Hp2 [Hd2 Hk2]].
      destruct (wf_fix_key _ _ _ _ _ _ _ IH E3 Hd Hd2 Hk2 Hp2) as [Hp3 [Hd3 Hk3]].
      split; [exact Hp3|]. rewrite Hk3, Hk. exact Hd3.
  Qed.

  Lemma run_wf fuel : forall cs st results st',
    run_calls src fuel cs st = Ok (results, st') -> Forall call_wf cs -> pwf st -> pwf st'.
  Proof.
    induction cs as [|c cs IH]; intros st results st' H Hcs Hp.
    - injection H as <- <-. exact Hp.
    - destruct (run_calls_cons _ _ _ _ _ _ _ H) as [r [st1 [rs [Hc [Hrest ->]]]]].
      inversion Hcs as [|c0 cs0 [Hw Hm] Hcs']; subst.
      apply (IH _ _ _ Hrest Hcs'). destruct c as [r0 | o | s m]; cbn [run_call call_obj] in *.
      + apply (copy_wf _ _ _ _ _ Hc Hw Hp).
      + apply (copy_wf _ _ _ _ _ Hc Hw Hp).
      + destruct (alloc_ok st); [|discriminate]. destruct (has (next st) (puts st)); [discriminate|].
        injection Hc as <- <-. intros t0 v0 [[= <- <-]|Hin]; [exact Hm|eapply Hp; eassumption].
  Qed.
End CopyWf.

Lemma copy_iso_paths : copy_iso_paths_stmt.
Proof.
  intros src fuel cs next0 results st H Hr Hsrc Hcs.
  destruct (run_calls_spec src fuel cs [] _ _ _ H (inv_init src next0) Hr) as [Hi [_ Hc]].
  rewrite app_nil_r in Hi. destruct Hi as [h1 h2 h3 h4 h5 h6 h7 h8].
  split.
  - constructor.
    + intros s t Hin Hn. apply h7 in Hin. split; [now apply h1|].
      destruct (h2 s t Hin Hn) as [Hx|[[]|[v [Hv Hrn]]]]; [now left|].
      right. exists v. split; [exact Hrn|]. unfold tget. now rewrite Hv.
    + intros s1 s2 t H1 H2 N1 N2. apply h7 in H1, H2. pose proof (h3 s1 s2 t H1 H2) as E.
      now rewrite !kk_notin in E by assumption.
    + exact Hsrc.
    + intros t o Hin. eapply (run_wf src Hsrc fuel cs _ _ _ H Hcs); [|exact Hin]. intros t0 v0 [].
  - clear - Hc Hcs Hsrc. revert Hcs. induction Hc as [|c res cs results Hcr _ IH]; intros Hcs; [constructor|].
    inversion Hcs as [|c0 cs0 [Hw Hm] Hcs']; subst. constructor; [|now apply IH].
    destruct c as [r0 | o | s m]; cbn [call_root_ok call_result_ok call_obj] in *; [| |exact I].
    + split; [exact Hw|split; [|exists res; split; [exact Hcr|reflexivity]]].
      eapply renamed_wf; [exact Hsrc|exact Hcr|exact Hw].
    + split; [exact Hw|split; [|exists res; split; [exact Hcr|reflexivity]]].
      eapply renamed_wf; [exact Hsrc|exact Hcr|exact Hw].
Qed.
