(* C05 (3): reference following with cycle check and depth cap
   (resolve.go: resolvePath, CycleCheck.step; resource.go: Seen, depth).
   Getter.Get is an ARBITRARY function from references to what it returns, so
   every finite or infinite, cyclic or acyclic reference graph is covered.
   Definitions only. *)
From Coq Require Import List NArith ZArith Bool Lia.
From GoPdf.Base Require Import Res.
From GoPdf.Gen Require Import Gen_C05.
Import ListNotations.
Close Scope Z_scope.
Open Scope nat_scope.

(* what Getter.Get(ref) returns *)
Inductive got :=
| GVal (v : N)        (* a non-reference object (abstract) *)
| GNull               (* nil: free or missing object *)
| GRef (r : N)        (* another reference *)
| GErr (c : cls).     (* Get failed *)

Inductive outcome :=
| OVal (v : option N) (path : list N) (gets : nat)
| OCycle (gets : nat)          (* MalformedFileError{ErrCycle} *)
| ODepth (gets : nat)          (* MalformedFileError{ErrDepth} *)
| OGetErr (c : cls) (gets : nat)
| OFuel.

Definition nmem (x : N) (l : list N) : bool := existsb (N.eqb x) l.

Inductive stepres := SOk (path : list N) | SCycle | SDepth.

(* CycleCheck.step(ref) in resolve.go;
   the path is the list of references from the newest to the oldest *)
Definition step (path : list N) (ref : N) : stepres :=
  if nmem ref path then SCycle
  else if (MaxExtractDepth <? Z.of_nat (S (length path)))%Z then SDepth
  else SOk (ref :: path).

Section Resolve.
  Variable get : N -> got.

  (* the for-loop of resolvePath *)
  Fixpoint resolve_loop (fuel : nat) (path : list N) (ref : N) (gets : nat) : outcome :=
    match fuel with
    | O => OFuel
    | S f =>
      match step path ref with
      | SCycle => OCycle gets
      | SDepth => ODepth gets
      | SOk path' =>
        match get ref with
        | GErr c => OGetErr c (S gets)
        | GRef r => resolve_loop f path' r (S gets)
        | GVal v => OVal (Some v) path' (S gets)
        | GNull => OVal None path' (S gets)
        end
      end
    end.
End Resolve.

Definition resolve_fuel : nat := S (Z.to_nat MaxExtractDepth).

Definition to_res (o : outcome) : res (option N) :=
  match o with
  | OVal v _ _ => Ok v
  | OCycle _ | ODepth _ => Err Malformed
  | OGetErr c _ => Err c
  | OFuel => Err OutOfFuel
  end.

Definition gets_of (o : outcome) : nat :=
  match o with
  | OVal _ _ g | OCycle g | ODepth g | OGetErr _ g => g
  | OFuel => 0
  end.

(* a graph given as an association list, for the executable driver:
   missing references resolve to null *)
Fixpoint lookup (g : list (N * got)) (r : N) : got :=
  match g with
  | [] => GNull
  | (k, v) :: g' => if N.eqb k r then v else lookup g' r
  end.

Definition resolve_in (g : list (N * got)) (r : N) : outcome :=
  resolve_loop (lookup g) resolve_fuel [] r 0.
