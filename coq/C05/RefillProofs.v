(* Proofs about the scanner buffer state machine (Refill.v). *)
From Coq Require Import List NArith ZArith Bool Arith Lia.
From GoPdf.Base Require Import Bytes Res.
From GoPdf.Gen Require Import Gen_Consts Gen_C05.
From GoPdf.C05 Require Import Refill.
Import ListNotations.
Close Scope Z_scope.
Close Scope N_scope.
Open Scope nat_scope.

Definition latch_ok (s : sc) : Prop :=
  match latch s with Some EOF => False | _ => True end.

(* the invariant of the scanner's buffer fields *)
Definition wf (cap : nat) (s : sc) : Prop :=
  pos s <= used s /\ used s <= cap /\ 0 < cap /\ latch_ok s.

(* the error a scanner call may return besides nil and io.EOF: the latched one
   or the terminal error of the source *)
Definition from_source (s : sc) (e : option cls) : Prop :=
  (e <> None /\ e = latch s) \/
  (latch s = None /\ exists id, sterm (source s) = TErr id /\ e = Some (IO id)).

Definition err_ok (s : sc) (e : option cls) : Prop :=
  e = None \/ e = Some EOF \/ from_source s e.

Lemma read_full_spec k s got e s' :
  read_full k s = (got, e, s') ->
  length got <= k /\ sdata s = got ++ sdata s' /\ sterm s' = sterm s /\
  (0 < k -> got = [] -> sdata s = []) /\
  (forall c, e = Some c -> sdata s' = [] /\ exists id, sterm s = TErr id /\ c = IO id).
Proof.
  destruct k as [|k].
  - unfold read_full. intros H; inversion H; subst. cbn. repeat split; try lia; try discriminate.
  - assert (Hk : read_full (S k) s =
                 if S k <=? length (sdata s) then
                   (firstn (S k) (sdata s), None, mkSrc (skipn (S k) (sdata s)) (sterm s))
                 else
                   (sdata s, match sterm s with TEOF => None | TErr id => Some (IO id) end,
                    mkSrc [] (sterm s))) by reflexivity.
    rewrite Hk; clear Hk. remember (S k) as k' eqn:Hk'.
    destruct (k' <=? length (sdata s)) eqn:E.
    + apply Nat.leb_le in E. intros H; injection H as <- <- <-. cbn [sdata sterm].
      repeat split; try discriminate.
      * rewrite firstn_length. lia.
      * symmetry. apply firstn_skipn.
      * intros _ H0. destruct (sdata s); [reflexivity|]. subst k'. cbn in H0. discriminate.
    + apply Nat.leb_gt in E. intros H; injection H as <- <- <-. cbn [sdata sterm].
      repeat split; try lia.
      * rewrite app_nil_r. reflexivity.
      * intros _ H0; exact H0.
      * destruct (sterm s); inversion H; subst. eexists; split; reflexivity.
Qed.

Lemma skipn_length_le {X} n (l : list X) : length (skipn n l) <= length l.
Proof. rewrite skipn_length. lia. Qed.

(* refill never panics on a well-formed scanner and keeps it well-formed *)
Lemma refill_spec cap s :
  wf cap s ->
  exists err s', refill cap s = Ok (err, s') /\ wf cap s' /\
    (latch s <> None -> err = latch s /\ s' = s) /\
    (latch s = None ->
       pos s' = 0 /\
       exists got,
         buf s' = skipn (pos s) (buf s) ++ got /\
         sdata (source s) = got ++ sdata (source s') /\
         sterm (source s') = sterm (source s) /\
         (length (skipn (pos s) (buf s)) < cap -> got = [] -> sdata (source s) = []) /\
         (latch s' = None -> err = None) /\
         (forall c, latch s' = Some c ->
             sdata (source s') = [] /\ (exists id, sterm (source s) = TErr id /\ c = IO id) /\
             err = match got with [] => Some c | _ => None end)).
Proof.
  intros (Hp & Hu & Hc & Hl). unfold refill.
  destruct (latch s) as [e|] eqn:El.
  - exists (Some e), s. split; [reflexivity|]. split; [repeat split; auto|].
    split; [intros _; auto|intros H; discriminate].
  - assert (E1 : (used s <? pos s) = false) by (apply Nat.ltb_ge; exact Hp). rewrite E1.
    set (rest := skipn (pos s) (buf s)).
    assert (Hr : length rest <= cap).
    { unfold rest. pose proof (skipn_length_le (pos s) (buf s)). unfold used in Hu. lia. }
    assert (E2 : (cap <? length rest) = false) by (apply Nat.ltb_ge; exact Hr). rewrite E2.
    destruct (read_full (cap - length rest) (source s)) as [[got e] src'] eqn:Er.
    destruct (read_full_spec _ _ _ _ _ Er) as (Hg & Hd & Ht & Hz & He).
    set (s' := mkSc (filepos s + pos s) (rest ++ got) 0 e src').
    assert (Hwf : wf cap s').
    { unfold wf, used, s'. cbn [pos buf latch]. rewrite app_length. repeat split; try lia.
      unfold latch_ok. cbn [latch]. destruct e as [c|]; [|exact I].
      destruct (He c eq_refl) as (_ & id & _ & ->). exact I. }
    exists (match e with Some c => match got with [] => Some c | _ => None end | None => None end), s'.
    split; [destruct e; reflexivity|]. split; [exact Hwf|]. split; [intros H; congruence|].
    intros _. split; [reflexivity|]. exists got. cbn [buf source latch s'].
    repeat split; auto.
    + intros Hlt Hg0. apply Hz; [lia|exact Hg0].
    + intros ->. reflexivity.
    + destruct (He c H) as [H1 _]; exact H1.
    + destruct (He c H) as [_ H2]; exact H2.
    + subst e. reflexivity.
Qed.

Lemma refill_no_panic cap s : wf cap s -> exists r, refill cap s = Ok r.
Proof. intros H. destruct (refill_spec cap s H) as (e & s' & Hr & _). eauto. Qed.

Lemma wf_advance cap s n : wf cap s -> pos s + n <= used s -> wf cap (advance n s).
Proof. intros (Hp & Hu & Hc & Hl) H. unfold wf, used, advance in *. cbn. auto. Qed.

(* PeekN: no panic for windows that fit the buffer *)
Lemma peek_n_no_panic cap n s :
  wf cap s -> n <= cap ->
  exists bs e s', peek_n cap n s = Ok (bs, e, s') /\ wf cap s' /\ length bs <= n /\
    pos s' + length bs <= used s'.
Proof.
  intros Hw Hn. unfold peek_n.
  assert (E : (cap <? n) = false) by (apply Nat.ltb_ge; exact Hn). rewrite E.
  destruct (used s <? pos s + n) eqn:E1.
  - destruct (refill_spec cap s Hw) as (err & s' & Hr & Hw' & _). rewrite Hr.
    destruct Hw' as (Hp & Hu & Hc & Hl).
    destruct (used s' <? pos s' + n) eqn:E2.
    + assert (E3 : (used s' <? pos s') = false) by (apply Nat.ltb_ge; exact Hp). rewrite E3.
      apply Nat.ltb_lt in E2. do 3 eexists. split; [reflexivity|].
      split; [repeat split; auto|]. rewrite skipn_length. unfold used in *. lia.
    + apply Nat.ltb_ge in E2. do 3 eexists. split; [reflexivity|].
      split; [repeat split; auto|]. rewrite firstn_length, skipn_length. unfold used in *. lia.
  - apply Nat.ltb_ge in E1. do 3 eexists. split; [reflexivity|]. split; [exact Hw|].
    rewrite firstn_length, skipn_length. unfold used in *. lia.
Qed.

Lemma read_byte_no_panic cap s :
  wf cap s -> exists r e s', read_byte cap s = Ok (r, e, s') /\ wf cap s'.
Proof.
  intros Hw. unfold read_byte.
  assert (H1 : 1 <= cap) by (destruct Hw as (_ & _ & Hc & _); lia).
  destruct (peek_n_no_panic cap 1 s Hw H1) as (bs & e & s' & Hp & Hw' & Hl & Hb). rewrite Hp.
  assert (Hadv : forall b l, bs = b :: l -> wf cap (advance 1 s')).
  { intros b l ->. apply wf_advance; [exact Hw'|]. cbn in Hb. lia. }
  destruct e as [c|].
  - destruct c; try (do 3 eexists; split; [reflexivity|exact Hw']).
    destruct bs as [|b l]; do 3 eexists; (split; [reflexivity|]); eauto.
  - destruct bs as [|b l]; do 3 eexists; (split; [reflexivity|]); eauto.
Qed.

Section ScanProofs.
  Variable A : Type.
  Variable accept : A -> byte -> option A.

  Lemma eat_spec a l k a' n rej :
    eat A accept a l k = (a', n, rej) ->
    k <= n /\ n <= k + length l /\ (rej = false -> n = k + length l).
  Proof.
    revert a k. induction l as [|b l IH]; intros a k H; cbn in H.
    - inversion H; subst. cbn. lia.
    - destruct (accept a b) as [a1|].
      + apply IH in H. destruct H as (H1 & H2 & H3). cbn [length].
        split; [lia|]. split; [lia|]. intros Hr. specialize (H3 Hr). lia.
      + inversion H; subst. cbn [length]. split; [lia|]. split; [lia|discriminate].
  Qed.

  Lemma eat_total_accept :
    (forall a b, accept a b <> None) ->
    forall l a k, exists a', eat A accept a l k = (a', k + length l, false).
  Proof.
    intros Hacc. induction l as [|b l IH]; intros a k; cbn.
    - exists a. f_equal. f_equal. lia.
    - destruct (accept a b) as [a1|] eqn:E; [|exfalso; eapply Hacc; eauto].
      destruct (IH a1 (S k)) as [a' ->]. exists a'. f_equal. f_equal. lia.
  Qed.

  (* what is left to do, in loop iterations *)
  Definition measure (s : sc) : nat :=
    match latch s with Some _ => 1 | None => length (sdata (source s)) + 2 end.

  Lemma from_source_step s s2 e :
    latch s = None ->
    sterm (source s2) = sterm (source s) ->
    (forall c, latch s2 = Some c -> exists id, sterm (source s) = TErr id /\ c = IO id) ->
    from_source s2 e -> from_source s e.
  Proof.
    intros Hl Ht Hc [[Hn He]|(Hl2 & id & Hid & He)].
    - right. split; [exact Hl|]. destruct e as [c|]; [|congruence].
      symmetry in He. destruct (Hc c He) as (id & Hid & ->). eauto.
    - right. split; [exact Hl|]. exists id. rewrite <- Ht. auto.
  Qed.

  Lemma advance_fields n s :
    latch (advance n s) = latch s /\ source (advance n s) = source s /\
    buf (advance n s) = buf s /\ pos (advance n s) = pos s + n.
  Proof. unfold advance; cbn; auto. Qed.

  Theorem scan_bytes_total_aux cap :
    forall fuel a empty s,
      wf cap s -> measure s <= fuel ->
      exists a' e s',
        scan_bytes A accept cap fuel a empty s = Ok (a', e, s') /\ wf cap s' /\ err_ok s e.
  Proof.
    unfold scan_bytes.
    induction fuel as [|f IH]; intros a empty s Hw Hm.
    - unfold measure in Hm. destruct (latch s); lia.
    - cbn [scan_bytes_gen].
      destruct (eat A accept a (skipn (pos s) (buf s)) 0) as [[a1 n] rej] eqn:Ee.
      destruct (eat_spec _ _ _ _ _ _ Ee) as (_ & Hn & Hrej). cbn in Hn.
      rewrite skipn_length in Hn, Hrej.
      assert (Hw1 : wf cap (advance n s)).
      { apply wf_advance; [exact Hw|]. destruct Hw as (Hp & _). unfold used in *. lia. }
      destruct rej.
      + do 3 eexists. split; [reflexivity|]. split; [exact Hw1|]. left; reflexivity.
      + specialize (Hrej eq_refl). cbn in Hrej.
        destruct (advance_fields n s) as (Fl & Fs & Fb & Fp).
        destruct (refill_spec cap _ Hw1) as (err & s2 & Hr & Hw2 & HlS & HlN). rewrite Hr.
        destruct (latch s) as [c|] eqn:El.
        * (* latched: refill returns the latched error, ScanBytes returns it *)
          destruct HlS as [-> ->]; [rewrite Fl; discriminate|]. rewrite Fl.
          assert (Hc : c <> EOF).
          { destruct Hw as (_ & _ & _ & Hk). unfold latch_ok in Hk. rewrite El in Hk.
            intros ->. exact Hk. }
          destruct c; try congruence;
            (do 3 eexists; split; [reflexivity|]; split; [exact Hw1|];
             right; right; left; split; [discriminate|congruence]).
        * rewrite Fl in HlN. destruct (HlN eq_refl) as (Hp2 & got & Hb2 & Hd & Ht & Hz & HeN & HeS).
          rewrite Fs in Hd, Ht, Hz, HeS. rewrite Fp, Fb in Hb2, Hz.
          assert (Hrest : skipn (pos s + n) (buf s) = []).
          { apply length_zero_iff_nil. rewrite skipn_length.
            destruct Hw as (Hp & _). unfold used in *. lia. }
          rewrite Hrest in Hb2, Hz. cbn [app length] in Hb2, Hz.
          assert (Hcap : 0 < cap) by (destruct Hw as (_ & _ & Hc & _); exact Hc).
          unfold measure in Hm. rewrite El in Hm.
          assert (Hstep : forall e', from_source s2 e' -> from_source s e').
          { intros e'. apply (from_source_step s s2 e'); auto. intros c Hc. destruct (HeS c Hc) as (_ & H2 & _). exact H2. }
          destruct (latch s2) as [c2|] eqn:El2.
          -- destruct (HeS c2 eq_refl) as (Hd2 & (id & Hid & ->) & Herr).
             destruct got as [|g got'].
             ++ subst err.
                do 3 eexists. split; [reflexivity|]. split; [exact Hw2|].
                right; right; right. split; [exact El|]. eauto.
             ++ subst err.
                assert (Hu2 : (used s2 =? 0) = false).
                { apply Nat.eqb_neq. unfold used. rewrite Hb2. cbn. lia. }
                rewrite Hu2.
                destruct (IH a1 (empty && (n =? 0)) s2 Hw2) as (a' & e & s' & Hrun & Hw' & Hok).
                { unfold measure. rewrite El2. lia. }
                rewrite Hrun. do 3 eexists. split; [reflexivity|]. split; [exact Hw'|].
                destruct Hok as [->|[->|Hfs]]; [left; reflexivity|right; left; reflexivity|].
                right; right. apply Hstep. exact Hfs.
          -- rewrite (HeN eq_refl).
             destruct (used s2 =? 0) eqn:Hu2.
             ++ do 3 eexists. split; [reflexivity|]. split; [exact Hw2|]. right; left; reflexivity.
             ++ apply Nat.eqb_neq in Hu2. unfold used in Hu2. rewrite Hb2 in Hu2.
                assert (Hgl : 1 <= length got) by (destruct got; cbn in *; lia).
                destruct (IH a1 (empty && (n =? 0)) s2 Hw2) as (a' & e & s' & Hrun & Hw' & Hok).
                { unfold measure. rewrite El2. rewrite Hd, app_length in Hm. lia. }
                rewrite Hrun. do 3 eexists. split; [reflexivity|]. split; [exact Hw'|].
                destruct Hok as [->|[->|Hfs]]; [left; reflexivity|right; left; reflexivity|].
                right; right. apply Hstep. exact Hfs.
  Qed.

  (* when every byte is accepted, a source that ends in an error makes ScanBytes
     return exactly that error *)
  Theorem scan_bytes_returns_error_aux cap c :
    (forall a b, accept a b <> None) ->
    forall fuel a empty s,
      wf cap s -> measure s <= fuel ->
      (latch s = Some c \/ (latch s = None /\ exists id, sterm (source s) = TErr id /\ c = IO id)) ->
      exists a' s', scan_bytes A accept cap fuel a empty s = Ok (a', Some c, s').
  Proof.
    intros Hacc. unfold scan_bytes.
    induction fuel as [|f IH]; intros a empty s Hw Hm Hsrc.
    - unfold measure in Hm. destruct (latch s); lia.
    - cbn [scan_bytes_gen].
      destruct (eat_total_accept Hacc (skipn (pos s) (buf s)) a 0) as [a1 Ee]. rewrite Ee.
      cbn [Nat.add]. set (n := length (skipn (pos s) (buf s))).
      assert (Hnl : n = length (buf s) - pos s) by (unfold n; apply skipn_length).
      assert (Hw1 : wf cap (advance n s)).
      { apply wf_advance; [exact Hw|]. destruct Hw as (Hp & _). unfold used in *. lia. }
      destruct (advance_fields n s) as (Fl & Fs & Fb & Fp).
      destruct (refill_spec cap _ Hw1) as (err & s2 & Hr & Hw2 & HlS & HlN). rewrite Hr.
      destruct (latch s) as [c0|] eqn:El.
      + destruct Hsrc as [Hc|[Hc _]]; [|discriminate]. inversion Hc; subst c0.
        destruct HlS as [-> ->]; [rewrite Fl; discriminate|]. rewrite Fl.
        assert (Hc' : c <> EOF).
        { destruct Hw as (_ & _ & _ & Hk). unfold latch_ok in Hk. rewrite El in Hk.
          intros ->. exact Hk. }
        destruct c; try congruence; do 2 eexists; reflexivity.
      + destruct Hsrc as [Hc|(_ & id & Hid & ->)]; [discriminate|].
        rewrite Fl in HlN. destruct (HlN eq_refl) as (Hp2 & got & Hb2 & Hd & Ht & Hz & HeN & HeS).
        rewrite Fs in Hd, Ht, Hz, HeS. rewrite Fp, Fb in Hb2, Hz.
        assert (Hrest : skipn (pos s + n) (buf s) = []).
        { apply length_zero_iff_nil. rewrite skipn_length.
          destruct Hw as (Hp & _). unfold used in *. lia. }
        rewrite Hrest in Hb2, Hz. cbn [app length] in Hb2, Hz.
        assert (Hcap : 0 < cap) by (destruct Hw as (_ & _ & Hc & _); exact Hc).
        unfold measure in Hm. rewrite El in Hm.
        destruct (latch s2) as [c2|] eqn:El2.
        * destruct (HeS c2 eq_refl) as (Hd2 & (id2 & Hid2 & ->) & Herr).
          assert (id2 = id) by congruence. subst id2.
          destruct got as [|g got'].
          -- subst err. do 2 eexists; reflexivity.
          -- subst err.
             assert (Hu2 : (used s2 =? 0) = false).
             { apply Nat.eqb_neq. unfold used. rewrite Hb2. cbn. lia. }
             rewrite Hu2.
             apply IH; [exact Hw2|unfold measure; rewrite El2; lia|left; exact El2].
        * rewrite (HeN eq_refl).
          destruct (used s2 =? 0) eqn:Hu2.
          -- (* a clean end of input is impossible: the source still owes its error *)
             apply Nat.eqb_eq in Hu2. unfold used in Hu2. rewrite Hb2 in Hu2.
             apply length_zero_iff_nil in Hu2. specialize (Hz Hcap Hu2).
             exfalso.
             (* read_full with data = [] and k > 0 reports the terminal error *)
             clear - Hr Hw1 El Fl Fs Hid Hz El2 Hcap Fb Fp Hrest.
             unfold refill in Hr. rewrite Fl in Hr.
             destruct (used (advance n s) <? pos (advance n s)); [discriminate|].
             rewrite Fb, Fp, Hrest in Hr. cbn [length] in Hr.
             destruct (cap <? 0); [discriminate|].
             rewrite Fs in Hr. unfold read_full in Hr. rewrite Nat.sub_0_r in Hr.
             destruct cap as [|cap']; [lia|]. rewrite Hz in Hr. cbn [length] in Hr.
             cbn [Nat.leb] in Hr. rewrite Hid in Hr. inversion Hr; subst s2. cbn in El2. discriminate.
          -- apply Nat.eqb_neq in Hu2. unfold used in Hu2. rewrite Hb2 in Hu2.
             assert (Hgl : 1 <= length got) by (destruct got; cbn in *; lia).
             apply IH; [exact Hw2| |].
             ++ unfold measure. rewrite El2. rewrite Hd, app_length in Hm. lia.
             ++ right. split; [exact El2|]. exists id. rewrite Ht. auto.
  Qed.

  (* the code before the F16 repair: once the error is latched and the buffer
     consumed but not empty, the loop state steps to itself *)
  Theorem scan_bytes_prefix_spins cap c :
    c <> EOF ->
    forall fuel a empty s,
      latch s = Some c -> pos s = used s -> 0 < used s ->
      scan_bytes_prefix A accept cap fuel a empty s = Err OutOfFuel.
  Proof.
    intros Hc. unfold scan_bytes_prefix.
    induction fuel as [|f IH]; intros a empty s Hl Hp Hu; [reflexivity|].
    cbn [scan_bytes_gen].
    assert (Hs : skipn (pos s) (buf s) = []).
    { apply length_zero_iff_nil. rewrite skipn_length. unfold used in *. lia. }
    rewrite Hs. cbn [eat].
    unfold refill. cbn [advance latch]. rewrite Hl.
    assert (Hu' : (used (advance 0 s) =? 0) = false).
    { apply Nat.eqb_neq. unfold used, advance in *. cbn. lia. }
    assert (Hrec : scan_bytes_gen A accept false cap f a (empty && (0 =? 0)) (advance 0 s) = Err OutOfFuel).
    { apply IH; unfold advance, used in *; cbn; auto. lia. }
    fold (advance 0 s).
    destruct c; try congruence; rewrite Hu', Hrec; reflexivity.
  Qed.
End ScanProofs.

(* ------------------------------------------------------------------ *)
(* the statements used by Prop_C05.v *)

Theorem scan_bytes_total_lemma :
  forall (A : Type) (accept : A -> byte -> option A) (cap fuel : nat) (a : A) (empty : bool) (s : sc),
    wf cap s ->
    length (sdata (source s)) + 2 <= fuel ->
    exists a' e s',
      scan_bytes A accept cap fuel a empty s = Ok (a', e, s') /\
      wf cap s' /\
      (e = None \/ e = Some EOF \/ from_source s e).
Proof.
  intros A accept cap fuel a empty s Hw Hf.
  apply scan_bytes_total_aux; [exact Hw|]. unfold measure. destruct (latch s); lia.
Qed.

Theorem scan_bytes_error_lemma :
  forall (A : Type) (accept : A -> byte -> option A) (cap fuel : nat) (a : A) (empty : bool)
         (data : bytes) (id : N),
    0 < cap ->
    (forall a b, accept a b <> None) ->
    length data + 2 <= fuel ->
    exists a' s',
      scan_bytes A accept cap fuel a empty (new_scanner (mkSrc data (TErr id))) = Ok (a', Some (IO id), s').
Proof.
  intros A accept cap fuel a empty data id Hc Hacc Hf.
  apply scan_bytes_returns_error_aux.
  - exact Hacc.
  - unfold wf, used, new_scanner, latch_ok. cbn. repeat split; auto; lia.
  - unfold measure, new_scanner. cbn. lia.
  - right. split; [reflexivity|]. exists id. auto.
Qed.

Theorem scan_bytes_latched_lemma :
  forall (A : Type) (accept : A -> byte -> option A) (cap fuel : nat) (a : A) (empty : bool) (s : sc) (c : cls),
    wf cap s -> latch s = Some c -> pos s = used s -> 1 <= fuel ->
    exists s', scan_bytes A accept cap fuel a empty s = Ok (a, Some c, s').
Proof.
  intros A accept cap fuel a empty s c Hw Hl Hp Hf.
  destruct fuel as [|f]; [lia|]. unfold scan_bytes. cbn [scan_bytes_gen].
  assert (Hs : skipn (pos s) (buf s) = []).
  { apply length_zero_iff_nil. rewrite skipn_length. unfold used in *. lia. }
  rewrite Hs. cbn [eat]. unfold refill. cbn [advance latch]. rewrite Hl.
  assert (Hc : c <> EOF).
  { destruct Hw as (_ & _ & _ & Hk). unfold latch_ok in Hk. rewrite Hl in Hk. intros ->. exact Hk. }
  destruct c; try congruence; eexists; reflexivity.
Qed.

Lemma prefix_step (A : Type) (accept : A -> byte -> option A) cap f a empty s a' n err s2 :
  eat A accept a (skipn (pos s) (buf s)) 0 = (a', n, false) ->
  refill cap (advance n s) = Ok (err, s2) ->
  err <> Some EOF -> (used s2 =? 0) = false ->
  scan_bytes_gen A accept false cap (S f) a empty s =
  scan_bytes_gen A accept false cap f a' (empty && (n =? 0)) s2.
Proof.
  intros He Hr Hn Hu. cbn [scan_bytes_gen]. rewrite He, Hr, Hu.
  destruct err as [c|]; [|reflexivity]. destruct c; try reflexivity. congruence.
Qed.

(* the F16 trigger in its smallest form: one blank, then the source fails *)
Theorem skip_white_space_prefix_spins :
  forall (id : N) (n : nat),
    skip_white_space_prefix cap0 n (new_scanner (mkSrc [32%N] (TErr id))) = Err OutOfFuel.
Proof.
  intros id n. unfold skip_white_space_prefix, scan_bytes_prefix.
  destruct n as [|n]; [reflexivity|].
  rewrite (prefix_step bool ws_accept cap0 n false true _ false 0 None
             (mkSc 0 [32%N] 0 (Some (IO id)) (mkSrc [] (TErr id))));
    [|vm_compute; reflexivity|vm_compute; reflexivity|discriminate|reflexivity].
  destruct n as [|n]; [reflexivity|].
  rewrite (prefix_step bool ws_accept cap0 n false (true && (0 =? 0)) _ false 1 (Some (IO id))
             (mkSc 0 [32%N] 1 (Some (IO id)) (mkSrc [] (TErr id))));
    [|vm_compute; reflexivity|vm_compute; reflexivity|discriminate|reflexivity].
  apply (scan_bytes_prefix_spins bool ws_accept cap0 (IO id)); [discriminate|reflexivity|reflexivity|cbn; lia].
Qed.

(* the same input on the code as it is now *)
Theorem skip_white_space_fixed_returns :
  forall (id : N) (n : nat), 3 <= n ->
    exists a s', skip_white_space cap0 n (new_scanner (mkSrc [32%N] (TErr id))) = Ok (a, Some (IO id), s').
Proof.
  intros id n Hn. do 3 (destruct n as [|n]; [lia|]).
  do 2 eexists. vm_compute. reflexivity.
Qed.

Theorem buffer_ops_never_panic_lemma :
  forall (cap : nat) (s : sc),
    wf cap s ->
    (exists err s', refill cap s = Ok (err, s') /\ wf cap s') /\
    (forall n, n <= cap -> exists bs e s', peek_n cap n s = Ok (bs, e, s') /\ wf cap s' /\ length bs <= n) /\
    (exists r e s', read_byte cap s = Ok (r, e, s') /\ wf cap s').
Proof.
  intros cap s Hw. split; [|split].
  - destruct (refill_spec cap s Hw) as (e & s' & H & Hw' & _). eauto.
  - intros n Hn. destruct (peek_n_no_panic cap n s Hw Hn) as (bs & e & s' & H & Hw' & Hl & _). eauto 7.
  - apply read_byte_no_panic. exact Hw.
Qed.

Theorem scan_bytes_spin_refuted_lemma :
  (forall (A : Type) (accept : A -> byte -> option A) (cap : nat) (c : cls),
      c <> EOF ->
      forall fuel a empty s,
        latch s = Some c -> pos s = used s -> 0 < used s ->
        scan_bytes_prefix A accept cap fuel a empty s = Err OutOfFuel) /\
  (forall (id : N) (n : nat),
      skip_white_space_prefix cap0 n (new_scanner (mkSrc [32%N] (TErr id))) = Err OutOfFuel) /\
  (forall (id : N) (n : nat), 3 <= n ->
      exists a s', skip_white_space cap0 n (new_scanner (mkSrc [32%N] (TErr id))) = Ok (a, Some (IO id), s')).
Proof.
  split; [exact scan_bytes_prefix_spins|].
  split; [exact skip_white_space_prefix_spins|exact skip_white_space_fixed_returns].
Qed.
