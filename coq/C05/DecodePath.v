(* C05 (9): typed decoding through references (cursor.go: Decode, with
   CycleCheck.step and the extractor cache).  A typed decoder that decodes the
   children of a node through nested Decode calls recurses along the object
   graph; the path threaded through the Cursor bounds that recursion by
   MaxExtractDepth and turns cycles into errors.  Getter.Get is an ARBITRARY
   function (any finite or infinite, cyclic or acyclic graph).  The cache of
   successfully decoded references is part of the model (a cached reference is
   returned without a step).  Definitions only. *)
From Coq Require Import List NArith ZArith Bool Lia.
From GoPdf.Base Require Import Res.
From GoPdf.Gen Require Import Gen_C05.
From GoPdf.C05 Require Import Resolve.
Import ListNotations.
Close Scope Z_scope.
Open Scope nat_scope.

(* what Get returns, as seen by the typed decoder *)
Inductive dnode :=
| DRef (r : N)              (* another reference (alias) *)
| DNode (kids : list N)     (* an object whose decoder decodes these references in turn *)
| DNull                     (* nil / an object without children *)
| DErr (c : cls).           (* Get fails *)

Record dstate := mkD { cache : list N; gets : nat }.

Inductive doutcome :=
| DOk (s : dstate)
| DCycle (s : dstate)
| DDepth (s : dstate)
| DGetErr (c : cls) (s : dstate)
| DFuel.

Section Decode.
  Variable get : N -> dnode.

  (* the children: `for _, kid := range kids { Decode(c, kid, ...) }`, errors propagate *)
  Fixpoint dec_kids (rec : dstate -> N -> doutcome) (s : dstate) (ks : list N) : doutcome :=
    match ks with
    | [] => DOk s
    | k :: ks' =>
      match rec s k with
      | DOk s' => dec_kids rec s' ks'
      | other => other
      end
    end.

  (* one iteration of Decode's loop for obj = ref; [refs] are the references of
     the alias chain followed so far in this call (published together) *)
  Fixpoint dec_ref (fuel : nat) (path refs : list N) (s : dstate) (ref : N) : doutcome :=
    match fuel with
    | O => DFuel
    | S f =>
      if nmem ref (cache s) then DOk s                      (* x.cacheGet(key) *)
      else
        match step path ref with
        | SCycle => DCycle s
        | SDepth => DDepth s
        | SOk path' =>
          let s1 := mkD (cache s) (S (gets s)) in
          let publish (s2 : dstate) := mkD (ref :: refs ++ cache s2) (gets s2) in
          match get ref with
          | DErr c => DGetErr c s1
          | DRef r' => dec_ref f path' (ref :: refs) s1 r'
          | DNull => DOk (publish s1)
          | DNode kids =>
            match dec_kids (fun s' k => dec_ref f path' [] s' k) s1 kids with
            | DOk s2 => DOk (publish s2)
            | other => other
            end
          end
        end
    end.
End Decode.

Definition decode_fuel : nat := S (S (Z.to_nat MaxExtractDepth)).

Fixpoint dlookup (g : list (N * dnode)) (r : N) : dnode :=
  match g with
  | [] => DNull
  | (k, v) :: g' => if N.eqb k r then v else dlookup g' r
  end.

Definition decode_in (g : list (N * dnode)) (r : N) : doutcome :=
  dec_ref (dlookup g) decode_fuel [] [] (mkD [] 0) r.
